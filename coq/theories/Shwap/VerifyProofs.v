(** Soundness of the shwap verifiers (model: Verify.v) against a committed extended square: whatever verifies carries
    exactly the committed shares at the requested position. *)
From Coq Require Import List Arith NArith Lia Bool.
From CN Require Import Base.Nmt Base.NmtProofs Base.NmtComplete Base.NmtHonest Shwap.Verify.
Import ListNotations.

(** * Lists *)
Lemma mapi_from_length {A B} (f : nat -> A -> B) j l : length (mapi_from f j l) = length l.
Proof. revert j; induction l as [|x l IH]; intros j; cbn; [reflexivity|]. rewrite IH. reflexivity. Qed.

Lemma mapi_from_nth {A B} (f : nat -> A -> B) j l n da db :
  n < length l -> nth n (mapi_from f j l) db = f (j + n) (nth n l da).
Proof.
  revert j n; induction l as [|x l IH]; intros j n H; cbn in H; [lia|].
  destruct n as [|n]; cbn [mapi_from nth]; [rewrite Nat.add_0_r; reflexivity|].
  rewrite IH by lia. f_equal. lia.
Qed.

Lemma mapi_from_Forall {A B} (P : B -> Prop) (f : nat -> A -> B) j l :
  (forall i x, P (f i x)) -> Forall P (mapi_from f j l).
Proof. intros H. revert j; induction l as [|x l IH]; intros j; cbn; constructor; auto. Qed.

Lemma mapi_from_inj {A B} (f : nat -> A -> B) j l l' :
  (forall i x y, f i x = f i y -> x = y) -> length l = length l' ->
  mapi_from f j l = mapi_from f j l' -> l = l'.
Proof.
  intros Hinj. revert j l'; induction l as [|x l IH]; intros j [|y l'] HL H; cbn in *; try discriminate; [reflexivity|].
  inversion H. f_equal; [eapply Hinj; eauto|eapply IH; eauto].
Qed.

Lemma sub_one {A} (l : list A) n d : n < length l -> sub l n 1 = [nth n l d].
Proof.
  revert n; induction l as [|x l IH]; intros n H; cbn in H; [lia|].
  destruct n as [|n]; [reflexivity|]. unfold sub in *. cbn [skipn nth]. apply IH. lia.
Qed.

Lemma nth_map_seq {B} (f : nat -> B) n w d : n < w -> nth n (map f (seq 0 w)) d = f n.
Proof.
  intros H. rewrite (nth_indep _ d (f 0)) by (rewrite map_length, seq_length; exact H).
  change (f 0) with (f (0 + 0)) at 1. rewrite map_nth. f_equal. rewrite seq_nth by exact H. reflexivity.
Qed.

(** * Leaves *)
Lemma leaf_at_inj w i j (x y : share) : leaf_at w i j x = leaf_at w i j y -> x = y.
Proof.
  unfold leaf_at, leaf_hash. intros H. inversion H. destruct x, y; cbn in *; subst; reflexivity.
Qed.

Lemma leaf_hash_leafk p a b : leafk (leaf_hash p a b). Proof. exact I. Qed.

Lemma row_leaves_leafk w i l : Forall leafk (row_leaves w i l).
Proof. apply mapi_from_Forall. intros; exact I. Qed.
Lemma col_leaves_leafk w j l : Forall leafk (col_leaves w j l).
Proof. apply mapi_from_Forall. intros; exact I. Qed.

Lemma tree_inj D X Y :
  Forall leafk X -> Forall leafk Y -> length X = 2 ^ D -> length Y = 2 ^ D -> tree D X = tree D Y -> X = Y.
Proof.
  intros HX HY LX LY H. rewrite <- (leaves_of_tree D X HX LX), <- (leaves_of_tree D Y HY LY), H. reflexivity.
Qed.

(** * The committed square *)
Section Square.
  Variable D : nat.                     (* the EDS width is 2^D *)
  Variable cell : nat -> nat -> share.  (* the extended square *)
  Let w := 2 ^ D.

  Definition eds_row (i : nat) : list share := map (cell i) (seq 0 w).
  Definition eds_col (j : nat) : list share := map (fun i => cell i j) (seq 0 w).
  Definition row_root (i : nat) : dig := tree D (row_leaves w i (eds_row i)).
  Definition col_root (j : nat) : dig := tree D (col_leaves w j (eds_col j)).
  Definition dah : roots := mkroots (map row_root (seq 0 w)) (map col_root (seq 0 w)).

  Lemma eds_row_length i : length (eds_row i) = w.
  Proof. unfold eds_row. rewrite map_length, seq_length. reflexivity. Qed.
  Lemma eds_col_length j : length (eds_col j) = w.
  Proof. unfold eds_col. rewrite map_length, seq_length. reflexivity. Qed.
  Lemma eds_row_nth i j d : j < w -> nth j (eds_row i) d = cell i j.
  Proof. intros H. unfold eds_row. apply nth_map_seq. exact H. Qed.
  Lemma eds_col_nth i j d : i < w -> nth i (eds_col j) d = cell i j.
  Proof. intros H. unfold eds_col. rewrite (nth_map_seq (fun i => cell i j)) by exact H. reflexivity. Qed.
  Lemma dah_rows : length (row_roots dah) = w.
  Proof. cbn. rewrite map_length, seq_length. reflexivity. Qed.

  (** ** Samples: a verified sample carries the committed share of the requested coordinate (either proof axis,
      all four quadrants).  [row, col < w] is what the verified SampleID supplies. *)
  Theorem sample_sound s row col :
    row < w -> col < w -> sample_verify dah s row col = true -> sm_share s = cell row col.
  Proof.
    intros Hr Hc H. unfold sample_verify in H.
    destruct (sm_proof s) as [p|]; [|discriminate].
    apply andb_true_iff in H as [H Hv]. apply andb_true_iff in H as [H Hpos]. apply andb_true_iff in H as [_ Hax].
    set (nsp := if (length (row_roots dah) / 2 <=? col) || (length (row_roots dah) / 2 <=? row) then maxns else fst (sm_share s)) in *.
    (* which axis *)
    assert (Hcases : (sm_axis s = 0 /\ p_start p = col /\ p_end p = col + 1) \/
                     (sm_axis s = 1 /\ p_start p = row /\ p_end p = row + 1)).
    { destruct (Nat.eqb (sm_axis s) 0) eqn:E0.
      - left. apply Nat.eqb_eq in E0. apply andb_true_iff in Hpos as [A B].
        apply Nat.eqb_eq in A. apply Nat.eqb_eq in B. auto.
      - right. cbn in Hax. apply Nat.eqb_eq in Hax. apply andb_true_iff in Hpos as [A B].
        apply Nat.eqb_eq in A. apply Nat.eqb_eq in B. auto. }
    unfold verify_inclusion in Hv.
    assert (Hne : Nat.eqb (p_start p) (p_end p) = false) by (apply Nat.eqb_neq; destruct Hcases as [[_ [? ?]]|[_ [? ?]]]; lia).
    rewrite Hne in Hv. cbn [map] in Hv. unfold verify_leaf_hashes in Hv.
    apply andb_true_iff in Hv as [_ Hc2].
    destruct (compute_root p [leaf_hash nsp (fst (sm_share s)) (snd (sm_share s))]) as [rt|] eqn:CR; [|discriminate].
    apply dig_eqb_eq in Hc2. subst rt.
    destruct Hcases as [[Ea [Es Ee]]|[Ea [Es Ee]]]; rewrite Ea in CR; cbn [Nat.eqb] in CR.
    - (* row proof *)
      cbn [row_roots dah] in CR. rewrite (nth_map_seq row_root) in CR by exact Hr. unfold row_root in CR.
      assert (HL : length (row_leaves w row (eds_row row)) = 2 ^ D)
        by (unfold row_leaves; rewrite mapi_from_length; apply eds_row_length).
      pose proof (compute_root_pos D (row_leaves w row (eds_row row)) p
                    [leaf_hash nsp (fst (sm_share s)) (snd (sm_share s))]
                    (row_leaves_leafk _ _ _) HL (Forall_cons _ (leaf_hash_leafk _ _ _) (Forall_nil _))
                    ltac:(cbn [length]; lia) ltac:(lia) ltac:(fold w; lia) CR) as P.
      replace (p_end p - p_start p) with 1 in P by lia.
      rewrite (sub_one _ _ DBad) in P by (unfold row_leaves; rewrite mapi_from_length, eds_row_length; lia).
      unfold row_leaves in P. rewrite (mapi_from_nth _ _ _ _ (0%N, 0%N)) in P by (rewrite eds_row_length; lia).
      rewrite Es in P. cbn [Nat.add] in P. rewrite eds_row_nth in P by exact Hc.
      inversion P as [Q]. unfold leaf_at, leaf_hash in Q. inversion Q.
      destruct (sm_share s), (cell row col); cbn in *; subst; reflexivity.
    - (* column proof *)
      cbn [col_roots dah] in CR. rewrite (nth_map_seq col_root) in CR by exact Hc. unfold col_root in CR.
      assert (HL : length (col_leaves w col (eds_col col)) = 2 ^ D)
        by (unfold col_leaves; rewrite mapi_from_length; apply eds_col_length).
      pose proof (compute_root_pos D (col_leaves w col (eds_col col)) p
                    [leaf_hash nsp (fst (sm_share s)) (snd (sm_share s))]
                    (col_leaves_leafk _ _ _) HL (Forall_cons _ (leaf_hash_leafk _ _ _) (Forall_nil _))
                    ltac:(cbn [length]; lia) ltac:(lia) ltac:(fold w; lia) CR) as P.
      replace (p_end p - p_start p) with 1 in P by lia.
      rewrite (sub_one _ _ DBad) in P by (unfold col_leaves; rewrite mapi_from_length, eds_col_length; lia).
      unfold col_leaves in P. rewrite (mapi_from_nth _ _ _ _ (0%N, 0%N)) in P by (rewrite eds_col_length; lia).
      rewrite Es in P. cbn [Nat.add] in P. rewrite eds_col_nth in P by exact Hr.
      inversion P as [Q]. unfold leaf_at, leaf_hash in Q. inversion Q.
      destruct (sm_share s), (cell row col); cbn in *; subst; reflexivity.
  Qed.

  (** ** Completeness direction for samples: the honest sample of any coordinate (row-axis proof made by the honest
      prover over a well-formed row) is accepted. *)
  Theorem sample_complete_row row col :
    row < w -> col < w -> valid (row_root row) ->
    sample_verify dah (mksample (cell row col)
                        (Some (mkproof col (col + 1) (prove D 0 col (col + 1) (row_leaves w row (eds_row row))) None)) 0)
                  row col = true.
  Proof.
    intros Hr Hc Hv. unfold sample_verify. cbn [sm_proof sm_axis sm_share Nat.eqb orb].
    unfold is_empty_proof. cbn [p_start p_end p_nodes p_leaf].
    replace (Nat.eqb col (col + 1)) with false by (symmetry; apply Nat.eqb_neq; lia). cbn [andb negb].
    rewrite !Nat.eqb_refl. cbn [andb]. rewrite dah_rows. cbn [row_roots dah]. rewrite (nth_map_seq row_root) by exact Hr.
    assert (HL : length (row_leaves w row (eds_row row)) = 2 ^ D)
      by (unfold row_leaves; rewrite mapi_from_length; apply eds_row_length).
    apply prove_verify_inclusion; auto.
    unfold row_leaves. rewrite (mapi_from_nth _ _ _ _ (0%N, 0%N)) by (rewrite eds_row_length; exact Hc).
    cbn [Nat.add]. rewrite eds_row_nth by exact Hc. unfold leaf_at, leaf_prefix_at. f_equal.
    destruct (Nat.ltb_spec row (w / 2)), (Nat.ltb_spec col (w / 2)), (Nat.leb_spec (w / 2) col), (Nat.leb_spec (w / 2) row);
      cbn [andb orb]; try reflexivity; lia.
  Qed.

  (** ** Row namespace data (C02, one row): what verifies is exactly the row's shares of the namespace, in order;
      an absence proof verifies only if the row holds no share of the namespace. *)
  Fixpoint ns_row_from (i j : nat) (ns : N) (row : list share) : list share :=
    match row with
    | [] => []
    | s :: t => if (i <? w / 2) && (j <? w / 2) && (fst s =? ns)%N
                then s :: ns_row_from i (S j) ns t else ns_row_from i (S j) ns t
    end.
  (** the shares of namespace [ns] in the original-data part of row [i], in column order *)
  Definition ns_shares_of_row (i : nat) (ns : N) : list share := ns_row_from i 0 ns (eds_row i).

  Lemma filter_row_leaves ns i j row :
    (ns < maxns)%N ->
    filter (has_prefix ns) (mapi_from (fun j s => leaf_at w i j s) j row) =
    map (fun s => leaf_hash ns (fst s) (snd s)) (ns_row_from i j ns row).
  Proof.
    intros Hn. revert j; induction row as [|s t IH]; intros j; [reflexivity|].
    cbn [mapi_from filter ns_row_from].
    assert (Hp : has_prefix ns (leaf_at w i j s) = (i <? w / 2) && (j <? w / 2) && (fst s =? ns)%N).
    { unfold has_prefix, leaf_at, leaf_hash, leaf_prefix_at. cbn [leaf_prefix].
      destruct ((i <? w / 2) && (j <? w / 2)); cbn [andb]; [reflexivity|apply N.eqb_neq; lia]. }
    rewrite Hp. destruct ((i <? w / 2) && (j <? w / 2) && (fst s =? ns)%N) eqn:Ec; [|apply IH].
    cbn [map]. rewrite IH. f_equal.
    apply andb_true_iff in Ec as [Eq En]. apply N.eqb_eq in En.
    unfold leaf_at, leaf_prefix_at. rewrite Eq, En. reflexivity.
  Qed.

  Lemma map_leaf_hash_inj ns (a b : list share) :
    map (fun s => leaf_hash ns (fst s) (snd s)) a = map (fun s => leaf_hash ns (fst s) (snd s)) b -> a = b.
  Proof.
    revert b; induction a as [|x a IH]; intros [|y b] H; cbn in H; try discriminate; [reflexivity|].
    inversion H. f_equal; [destruct x, y; cbn in *; subst; reflexivity|apply IH; assumption].
  Qed.

  Theorem rnd_sound ns d i :
    i < w -> valid (row_root i) -> (ns < maxns)%N ->
    rnd_verify dah ns d i = true ->
    rnd_shares d = ns_shares_of_row i ns.
  Proof.
    intros Hi Hv Hn H. unfold rnd_verify in H. destruct (rnd_proof d) as [p|]; [|discriminate].
    apply andb_true_iff in H as [H Hver]. cbv zeta in Hver. apply andb_true_iff in Hver as [_ Hver].
    apply andb_true_iff in H as [H Hsh2]. apply andb_true_iff in H as [Hne Hsh1].
    cbn [row_roots dah] in Hver. rewrite (nth_map_seq row_root) in Hver by exact Hi.
    assert (HL : length (row_leaves w i (eds_row i)) = 2 ^ D)
      by (unfold row_leaves; rewrite mapi_from_length; apply eds_row_length).
    unfold verify_namespace in Hver.
    destruct (Nat.eqb (p_start p) (p_end p)) eqn:Ese.
    { (* an empty range verifies only with an empty proof, which rnd_verify refuses *)
      unfold valid_empty_range in Hver. apply andb_true_iff in Hver as [Hver _]. apply andb_true_iff in Hver as [Hver _].
      rewrite Hver in Hne. discriminate. }
    unfold ns_shares_of_row.
    destruct (is_absence p) eqn:Eab.
    - (* absence: no shares, and the row holds none *)
      destruct (rnd_shares d) as [|s0 rest] eqn:ES; [|cbn in Hsh2; discriminate].
      destruct (p_leaf p) as [lf|] eqn:Elf; [|discriminate].
      pose proof (verify_leaf_hashes_absent D _ p ns lf (row_leaves_leafk _ _ _) HL Hv Hn Elf Hver) as K.
      unfold row_leaves in K. rewrite filter_row_leaves in K by exact Hn.
      destruct (ns_row_from i 0 ns (eds_row i)); [reflexivity|discriminate].
    - apply andb_true_iff in Hver as [Hpre Hver]. rewrite map_map in Hver. cbn [fst snd] in Hver.
      assert (Hlh : Forall (fun x => leafk x /\ has_prefix ns x = true)
                           (map (fun x : share => leaf_hash (fst x) (fst x) (snd x)) (rnd_shares d))).
      { apply Forall_forall. intros x Hx. apply in_map_iff in Hx as [s [<- Hs]]. split; [exact I|].
        rewrite forallb_forall in Hpre. specialize (Hpre (fst s, s)).
        unfold has_prefix, leaf_hash. cbn. apply Hpre. apply in_map_iff. exists s. auto. }
      pose proof (verify_leaf_hashes_complete D _ p ns _ (row_leaves_leafk _ _ _) HL Hv Hn Hlh Hver) as K.
      unfold row_leaves in K. rewrite filter_row_leaves in K by exact Hn.
      apply (map_leaf_hash_inj ns). rewrite <- K.
      apply map_ext_in. intros s Hs. rewrite forallb_forall in Hpre. specialize (Hpre (fst s, s)).
      cbn in Hpre. assert (E : (fst s =? ns)%N = true) by (apply Hpre; apply in_map_iff; exists s; auto).
      apply N.eqb_eq in E. rewrite E. reflexivity.
  Qed.

  (** ** Namespace data (C02, whole block) *)
  Definition ns_shares_of_block (ns : N) : list share := flat_map (fun i => ns_shares_of_row i ns) (seq 0 w).

  Lemma outside_empty ns i :
    i < w -> valid (row_root i) -> (ns < maxns)%N -> outside_range ns (row_root i) = true -> ns_shares_of_row i ns = [].
  Proof.
    intros Hi Hv Hn Ho. unfold ns_shares_of_row.
    destruct (ns_row_from i 0 ns (eds_row i)) as [|s t] eqn:E; [reflexivity|exfalso].
    pose proof (filter_row_leaves ns i 0 (eds_row i) Hn) as F. rewrite E in F. cbn [map] in F.
    assert (HL : length (row_leaves w i (eds_row i)) = 2 ^ D)
      by (unfold row_leaves; rewrite mapi_from_length; apply eds_row_length).
    assert (Hin : In (leaf_hash ns (fst s) (snd s)) (leaves_of (row_root i))).
    { unfold row_root. rewrite (leaves_of_tree D _ (row_leaves_leafk _ _ _) HL).
      assert (In (leaf_hash ns (fst s) (snd s)) (filter (has_prefix ns) (row_leaves w i (eds_row i))))
        by (unfold row_leaves; rewrite F; left; reflexivity).
      apply filter_In in H. tauto. }
    pose proof (valid_range (row_root i) Hv ns _ Hn Hin eq_refl) as R.
    unfold outside_range in Ho. apply orb_true_iff in Ho as [Ho|Ho].
    - apply N.ltb_lt in Ho. lia.
    - apply negb_true_iff in Ho. apply N.leb_gt in Ho. lia.
  Qed.

  Lemma rows_with_ns_flat (f : nat -> list share) ns rs : forall i,
    (forall j, j < length rs -> outside_range ns (nth j rs DBad) = true -> f (i + j) = []) ->
    flat_map f (rows_with_ns_from i rs ns) = flat_map f (seq i (length rs)).
  Proof.
    induction rs as [|r rs IH]; intros i H; [reflexivity|].
    cbn [rows_with_ns_from length seq flat_map].
    assert (Hrest : flat_map f (rows_with_ns_from (S i) rs ns) = flat_map f (seq (S i) (length rs))).
    { apply IH. intros j Hj Ho. replace (S i + j) with (i + S j) by lia. apply H; [cbn; lia|exact Ho]. }
    destruct (outside_range ns r) eqn:Eo.
    - rewrite Hrest. specialize (H 0 ltac:(cbn; lia) Eo). rewrite Nat.add_0_r in H. rewrite H. reflexivity.
    - cbn [flat_map]. rewrite Hrest. reflexivity.
  Qed.

  Lemma rows_with_ns_bound ns rs : forall i, Forall (fun j => i <= j < i + length rs) (rows_with_ns_from i rs ns).
  Proof.
    induction rs as [|r rs IH]; intros i; cbn [rows_with_ns_from]; [constructor|].
    specialize (IH (S i)).
    assert (Forall (fun j : nat => i <= j < i + length (r :: rs)) (rows_with_ns_from (S i) rs ns))
      by (eapply Forall_impl; [|exact IH]; cbn; intros; lia).
    destruct (outside_range ns r); [assumption|]. constructor; [cbn; lia|assumption].
  Qed.

  Theorem nd_sound ns nd :
    (forall i, i < w -> valid (row_root i)) -> (ns < maxns)%N ->
    nd_verify dah ns nd = true ->
    nd_flatten nd = ns_shares_of_block ns /\
    map rnd_shares nd = map (fun i => ns_shares_of_row i ns) (rows_with_ns dah ns).
  Proof.
    intros Hv Hn H. unfold nd_verify in H. apply andb_true_iff in H as [_ H].
    assert (Hb : Forall (fun j => j < w) (rows_with_ns dah ns)).
    { unfold rows_with_ns. pose proof (rows_with_ns_bound ns (row_roots dah) 0) as B. rewrite dah_rows in B.
      eapply Forall_impl; [|exact B]. cbn. intros; lia. }
    assert (Hm : map rnd_shares nd = map (fun i => ns_shares_of_row i ns) (rows_with_ns dah ns)).
    { revert H Hb. generalize (rows_with_ns dah ns) as idxs. induction nd as [|d nd IH]; intros [|i idxs] H Hb; cbn in H; try discriminate; [reflexivity|].
      apply andb_true_iff in H as [H1 H2]. inversion Hb; subst. cbn [map]. f_equal.
      - apply rnd_sound; auto.
      - apply IH; assumption. }
    split; [|exact Hm].
    unfold nd_flatten, ns_shares_of_block.
    rewrite (flat_map_concat_map rnd_shares), Hm, <- flat_map_concat_map.
    unfold rows_with_ns. rewrite rows_with_ns_flat.
    - rewrite dah_rows. reflexivity.
    - intros j Hj Ho. rewrite dah_rows in Hj. cbn [Nat.add]. cbn [row_roots dah] in Ho.
      rewrite (nth_map_seq row_root) in Ho by exact Hj. apply outside_empty; auto.
  Qed.

  (** ** Share ranges: a verified range response carries exactly the committed ODS shares of [from, to], row by row *)
  Section RangeSound.
    Variable extend : list share -> list share.
    Hypothesis extend_len : forall l, length (extend l) = length l.
    Hypothesis D_pos : 1 <= D.
    Let ods := w / 2.

    Lemma w_ods : w = 2 * ods.
    Proof. unfold ods, w. destruct D as [|d]; [lia|]. cbn [Nat.pow]. rewrite (Nat.mul_comm 2), Nat.div_mul by lia. lia. Qed.

    (** the columns of row [i] that belong to the range (fr,fc)..(tr,tc) inclusive *)
    Definition range_row (fr fc tr tc i : nat) : list share :=
      let startc := if Nat.eqb i fr then fc else 0 in
      let endc := if Nat.eqb i tr then tc else ods - 1 in
      sub (eds_row i) startc (endc + 1 - startc).
    Definition ods_range (fr fc tr tc : nat) : list share := flat_map (range_row fr fc tr tc) (seq fr (tr + 1 - fr)).

    Lemma sub_mapi_from {A B} (f : nat -> A -> B) j l a n : sub (mapi_from f j l) a n = mapi_from f (j + a) (sub l a n).
    Proof.
      unfold sub. revert j a; induction l as [|x l IH]; intros j a.
      - destruct a, n; reflexivity.
      - destruct a as [|a].
        + cbn [skipn]. rewrite Nat.add_0_r. clear IH. revert j x l; induction n as [|n IHn]; intros j x l; [reflexivity|].
          cbn [mapi_from firstn]. f_equal. destruct l as [|y l]; [destruct n; reflexivity|]. apply IHn.
        + cbn [mapi_from skipn]. rewrite IH. f_equal. lia.
    Qed.

    Lemma leaf_hashes_eq_row ns i : forall row j row',
      map (fun s : share => leaf_hash ns (fst s) (snd s)) row = mapi_from (fun j s => leaf_at w i j s) j row' -> row = row'.
    Proof.
      induction row as [|s row IH]; intros j [|s' row'] H; cbn in H; try discriminate; [reflexivity|].
      injection H as Hh Ht. f_equal; [|eapply IH; eauto].
      unfold leaf_at, leaf_hash in Hh. inversion Hh. destruct s, s'; cbn in *; subst; reflexivity.
    Qed.

    Lemma compute_root_basic_some p ns lh is_ns rt :
      compute_root_basic p ns lh is_ns = Some rt -> validate_structure p ns lh = true /\ compute_root p lh = Some rt.
    Proof.
      unfold compute_root_basic. destruct (validate_structure p ns lh); cbn [negb]; [|discriminate].
      destruct (is_ns && negb (validate_namespace ns lh && validate_completeness p ns)); [discriminate|].
      destruct (compute_root p lh) as [r|]; [|discriminate]. destruct (fmt_ok r); [|discriminate].
      intros H; inversion H; subst. auto.
    Qed.

    Lemma structure_facts p ns lh : validate_structure p ns lh = true -> p_start p < p_end p /\ length lh = p_end p - p_start p.
    Proof.
      unfold validate_structure. intros H.
      apply andb_true_iff in H as [H _]. apply andb_true_iff in H as [H _]. apply andb_true_iff in H as [H _].
      apply andb_true_iff in H as [A B]. apply Nat.ltb_lt in A. apply Nat.eqb_eq in B. auto.
    Qed.

    (** a row verified through an incomplete-row proof *)
    Lemma proved_row ns i row p is_ns rt startc :
      i < w -> rng_compute_root row ns (Some p) is_ns = Some (Some rt) -> rt = row_root i ->
      p_start p = startc -> startc + length row <= w ->
      row = sub (eds_row i) startc (length row).
    Proof.
      intros Hi Hc Hrt Hs Hb. unfold rng_compute_root in Hc. destruct row as [|s0 rest]; [discriminate|].
      cbv beta iota in Hc. set (row := s0 :: rest) in *.
      destruct (is_empty_proof p || is_absence p); [discriminate|].
      destruct (compute_root_basic p ns _ is_ns) as [r|] eqn:CB; [|discriminate].
      inversion Hc; subst r. apply compute_root_basic_some in CB as [VS CR].
      apply structure_facts in VS as [Hse Hlen]. rewrite map_length in Hlen.
      assert (HL : length (row_leaves w i (eds_row i)) = 2 ^ D)
        by (unfold row_leaves; rewrite mapi_from_length; apply eds_row_length).
      rewrite Hrt in CR. unfold row_root in CR.
      assert (HFlh : Forall leafk (map (fun s : N * N => leaf_hash ns (fst s) (snd s)) row))
        by (apply Forall_forall; intros x Hx; apply in_map_iff in Hx as [y [<- _]]; exact I).
      assert (Hpe : p_end p <= 2 ^ D) by (clearbody row; unfold w, share in *; lia).
      assert (Hl2 : length (map (fun s : N * N => leaf_hash ns (fst s) (snd s)) row) = p_end p - p_start p)
        by (rewrite map_length; exact Hlen).
      pose proof (compute_root_pos D _ p _ (row_leaves_leafk _ _ _) HL HFlh Hl2 Hse Hpe CR) as P.
      unfold row_leaves in P. rewrite sub_mapi_from in P. apply leaf_hashes_eq_row in P.
      clearbody row. unfold share in *. rewrite Hs in *. rewrite Hlen. exact P.
    Qed.

    (** a row verified by rebuilding its root from the extended row *)
    Lemma rebuilt_row i row :
      i < w -> length row = ods -> dig_eqb (full_row_root extend i row) (row_root i) = true ->
      row = sub (eds_row i) 0 ods.
    Proof.
      intros Hi Hl H. apply dig_eqb_eq in H. unfold full_row_root in H. cbv zeta in H.
      assert (HLf : length (row ++ extend row) = w) by (rewrite app_length, extend_len, Hl; pose proof w_ods; lia).
      rewrite HLf in H. unfold w in H at 1. rewrite Nat.log2_pow2 in H by lia. unfold row_root in H.
      apply tree_inj in H; try apply row_leaves_leafk.
      - unfold row_leaves in H. apply mapi_from_inj in H; [| |rewrite eds_row_length; exact HLf].
        + unfold sub. cbn [skipn]. rewrite <- H. rewrite firstn_app, Hl, Nat.sub_diag, firstn_all2 by lia. cbn. rewrite app_nil_r. reflexivity.
        + intros j x y. apply leaf_at_inj.
      - unfold row_leaves. rewrite mapi_from_length. exact HLf.
      - unfold row_leaves. rewrite mapi_from_length. apply eds_row_length.
    Qed.

    Lemma flat_map_map {A B C} (f : B -> list C) (g : A -> B) l : flat_map f (map g l) = flat_map (fun x => f (g x)) l.
    Proof. induction l as [|x l IH]; [reflexivity|]. cbn. rewrite IH. reflexivity. Qed.

    Lemma concat_nth_seq (l : list (list share)) : concat l = flat_map (fun r => nth r l []) (seq 0 (length l)).
    Proof.
      induction l as [|x l IH]; [reflexivity|]. cbn [concat length seq flat_map nth]. f_equal.
      rewrite IH. rewrite <- seq_shift. rewrite flat_map_map. reflexivity.
    Qed.

    Lemma seq_add_map a n : seq a n = map (fun r => a + r) (seq 0 n).
    Proof.
      revert a; induction n as [|n IH]; intros a; [reflexivity|]. cbn [seq map]. rewrite Nat.add_0_r. f_equal.
      rewrite (IH (S a)), <- seq_shift, map_map. apply map_ext. intros; lia.
    Qed.

    Lemma flat_map_ext_in {A B} (f g : A -> list B) l : (forall x, In x l -> f x = g x) -> flat_map f l = flat_map g l.
    Proof. induction l as [|x l IH]; intros H; [reflexivity|]. cbn. rewrite H by (left; reflexivity). f_equal. apply IH. intros; apply H; right; assumption. Qed.

    Lemma last_nth (l : list (list share)) : last l [] = nth (length l - 1) l [].
    Proof.
      induction l as [|x l IH]; [reflexivity|]. destruct l as [|y l]; [reflexivity|].
      change (last (x :: y :: l) []) with (last (y :: l) []). rewrite IH. cbn [length].
      replace (S (S (length l)) - 1) with (S (length l)) by lia.
      replace (S (length l) - 1) with (length l) by lia. reflexivity.
    Qed.

    Theorem range_sound d fr fc tr tc is_ns :
      range_verify extend d fr fc tr tc ods (map row_root (seq fr (tr + 1 - fr))) is_ns = true ->
      concat (rg_shares d) = ods_range fr fc tr tc.
    Proof.
      intros H. unfold range_verify in H. cbv zeta in H.
      set (shares := rg_shares d) in *. set (n := length shares) in *.
      repeat match type of H with (_ && _ = true) => let H' := fresh "C" in apply andb_true_iff in H as [H H'] end.
      (* name the conjuncts we need *)
      match goal with C : match concat shares with [] => false | _ => _ end = true |- _ => rename C into Hfin end.
      repeat match goal with
      | C : (_ <? _) = true |- _ => apply Nat.ltb_lt in C
      | C : (_ <=? _) = true |- _ => apply Nat.leb_le in C
      | C : Nat.eqb _ _ = true |- _ => apply Nat.eqb_eq in C
      end.
      assert (Hn : n = tr + 1 - fr) by (unfold n; lia).
      destruct (concat shares) as [|s0 cs] eqn:ECS; [discriminate|]. rewrite <- ECS in *.
      apply andb_true_iff in Hfin as [_ Hfin].
      destruct (rng_compute_root (hd [] shares) (fst s0) (rg_first d) is_ns) as [c_first|] eqn:CF; [|discriminate].
      destruct (rng_compute_root (last shares []) (fst s0) (rg_last d) is_ns) as [c_last|] eqn:CL; [|discriminate].
      (* per-row statement *)
      assert (Hrow : forall r, r < n -> nth r shares [] = range_row fr fc tr tc (fr + r)).
      { intros r Hr.
        assert (Hlen_r : row_len_ok n fc tc ods r (nth r shares []) = true).
        { match goal with C : forallb (fun r => row_len_ok _ _ _ _ r _) _ = true |- _ => rewrite forallb_forall in C; apply C end.
          apply in_seq. lia. }
        assert (Hroot_r : dig_eqb (match (if Nat.eqb r 0 then c_first else if Nat.eqb r (n - 1) then c_last else None) with
                                   | Some rt => rt | None => full_row_root extend (fr + r) (nth r shares []) end)
                                  (row_root (fr + r)) = true).
        { rewrite forallb_forall in Hfin. specialize (Hfin r ltac:(apply in_seq; lia)).
          rewrite (nth_indep _ DBad (row_root 0)) in Hfin by (rewrite map_length, seq_length; lia).
          rewrite (map_nth row_root) in Hfin. rewrite seq_nth in Hfin by lia. exact Hfin. }
        unfold row_len_ok in Hlen_r. cbv zeta in Hlen_r.
        apply andb_true_iff in Hlen_r as [Hlen_r Hse]. apply andb_true_iff in Hlen_r as [_ Hlen_r].
        apply Nat.eqb_eq in Hlen_r. apply Nat.leb_le in Hse.
        pose proof w_ods as Wo.
        assert (Hi : fr + r < w) by lia.
        unfold range_row. cbv zeta.
        assert (Eq1 : Nat.eqb (fr + r) fr = Nat.eqb r 0)
          by (destruct (Nat.eqb_spec (fr + r) fr), (Nat.eqb_spec r 0); try reflexivity; lia).
        assert (Eq2 : Nat.eqb (fr + r) tr = Nat.eqb r (n - 1))
          by (destruct (Nat.eqb_spec (fr + r) tr), (Nat.eqb_spec r (n - 1)); try reflexivity; lia).
        rewrite Eq1, Eq2.
        set (startc := if Nat.eqb r 0 then fc else 0) in *. set (endc := if Nat.eqb r (n - 1) then tc else ods - 1) in *.
        assert (Hendc : endc + 1 <= ods) by (unfold endc; destruct (Nat.eqb r (n - 1)); lia).
        rewrite <- Hlen_r.
        destruct (Nat.eqb r 0) eqn:E0.
        - (* first row *)
          apply Nat.eqb_eq in E0. subst r. rewrite Nat.add_0_r in *.
          assert (Hhd : hd [] shares = nth 0 shares []) by (destruct shares; reflexivity). rewrite Hhd in CF.
          destruct c_first as [rt|].
          + destruct (rg_first d) as [p|] eqn:EF; [|cbn in CF; inversion CF].
            apply dig_eqb_eq in Hroot_r.
            match goal with C : Nat.eqb (p_start p) fc = true |- _ => apply Nat.eqb_eq in C; rename C into Hps
            | C : p_start p = fc |- _ => rename C into Hps end.
            eapply proved_row; eauto. unfold startc in *. lia.
          + (* no proof: the row must be complete *)
            assert (EF : rg_first d = None).
            { destruct (rg_first d) as [p|]; [|reflexivity]. exfalso. unfold rng_compute_root in CF.
              destruct (nth 0 shares []); [discriminate|]. destruct (is_empty_proof p || is_absence p); [discriminate|].
              destruct (compute_root_basic _ _ _ _); discriminate. }
            match goal with C : negb (negb (Nat.eqb (length (hd [] shares)) ods) && _) = true |- _ => rename C into Hcomplete end.
            rewrite EF, Hhd in Hcomplete. rewrite andb_true_r, negb_involutive in Hcomplete. apply Nat.eqb_eq in Hcomplete.
            assert (startc = 0) by lia. rewrite H0, Hcomplete. apply rebuilt_row; auto.
        - apply Nat.eqb_neq in E0.
          destruct (Nat.eqb r (n - 1)) eqn:E1.
          + (* last row of several *)
            apply Nat.eqb_eq in E1.
            assert (Hls : last shares [] = nth r shares []) by (rewrite last_nth; fold n; rewrite E1; reflexivity).
            rewrite Hls in CL.
            destruct c_last as [rt|].
            * destruct (rg_last d) as [p|] eqn:EL; [|cbn in CL; inversion CL].
              apply dig_eqb_eq in Hroot_r.
              match goal with C : Nat.eqb (p_end p) (tc + 1) = true |- _ => apply Nat.eqb_eq in C; rename C into Hpe
              | C : p_end p = tc + 1 |- _ => rename C into Hpe end.
              (* the structure check ties start to end - length *)
              assert (Hps : p_start p = 0).
              { unfold rng_compute_root in CL. destruct (nth r shares []) as [|x xs] eqn:ER; [discriminate|]. rewrite <- ER in *.
                destruct (is_empty_proof p || is_absence p); [discriminate|].
                destruct (compute_root_basic p (fst s0) _ is_ns) as [q|] eqn:CB; [|discriminate].
                apply compute_root_basic_some in CB as [VS _]. apply structure_facts in VS as [A B]. rewrite map_length in B.
                unfold startc, endc, share in *. lia. }
              eapply proved_row; eauto. unfold startc. lia.
            * assert (EL : rg_last d = None).
              { destruct (rg_last d) as [p|]; [|reflexivity]. exfalso. unfold rng_compute_root in CL.
                destruct (nth r shares []); [discriminate|]. destruct (is_empty_proof p || is_absence p); [discriminate|].
                destruct (compute_root_basic _ _ _ _); discriminate. }
              match goal with C : negb ((1 <? n) && _ && _) = true |- _ => rename C into Hcomplete end.
              rewrite EL, Hls in Hcomplete. rewrite andb_true_r in Hcomplete.
              replace (1 <? n) with true in Hcomplete by (symmetry; apply Nat.ltb_lt; lia). cbn [andb] in Hcomplete.
              rewrite negb_involutive in Hcomplete. apply Nat.eqb_eq in Hcomplete.
              assert (startc = 0) by (unfold startc; reflexivity). rewrite H0, Hcomplete. apply rebuilt_row; auto.
          + (* a middle row: complete by the length check *)
            unfold startc, endc in *. replace (ods - 1 + 1 - 0) with ods in * by lia. rewrite Hlen_r. apply rebuilt_row; auto. }
      unfold ods_range. rewrite concat_nth_seq. fold n. rewrite <- Hn.
      rewrite (seq_add_map fr). rewrite flat_map_map.
      apply flat_map_ext_in. intros r Hr. apply in_seq in Hr. apply Hrow. lia.
    Qed.
  End RangeSound.

  (** ** Rows: a verified row (any side) exposes exactly the committed extended row.  The erasure codec is arbitrary
      except that a successful decode returns as many shares as the row holds (twice the half it was given). *)
  Section RowSound.
    Variable decode_left decode_right : list share -> option (list share).
    Hypothesis decode_left_len : forall l f, decode_left l = Some f -> length f = 2 * length l.
    Hypothesis decode_right_len : forall l f, decode_right l = Some f -> length f = 2 * length l.
    Hypothesis D_pos : 1 <= D.

    Lemma w_even : w = 2 * (w / 2).
    Proof. unfold w. destruct D as [|d]; [lia|]. cbn [Nat.pow]. rewrite (Nat.mul_comm 2), Nat.div_mul by lia. lia. Qed.

    Theorem row_sound side shares idx :
      idx < w -> row_verify decode_left decode_right dah side shares idx = true ->
      exists full, row_shares decode_left decode_right side shares = Some full /\ full = eds_row idx.
    Proof.
      intros Hi H. unfold row_verify in H. destruct shares as [|s0 rest] eqn:ES; [discriminate|]. rewrite <- ES in *.
      apply andb_true_iff in H as [H Hroot]. apply andb_true_iff in H as [Hlen Hside].
      apply Nat.eqb_eq in Hlen. rewrite dah_rows in Hlen.
      destruct (row_shares decode_left decode_right side shares) as [full|] eqn:RS; [|discriminate].
      exists full. split; [reflexivity|].
      apply dig_eqb_eq in Hroot. cbn [row_roots dah] in Hroot. rewrite (nth_map_seq row_root) in Hroot by exact Hi.
      unfold row_root in Hroot.
      assert (HLf : length full = w).
      { pose proof w_even as We. unfold row_shares in RS.
        destruct side as [|[|[|side]]].
        - cbn [Nat.eqb] in Hlen. apply decode_left_len in RS. lia.
        - cbn [Nat.eqb] in Hlen. apply decode_right_len in RS. lia.
        - cbn [Nat.eqb] in Hlen. inversion RS; subst. exact Hlen.
        - discriminate. }
      rewrite HLf in Hroot. unfold w in Hroot at 1. rewrite Nat.log2_pow2 in Hroot by lia.
      apply tree_inj in Hroot; try apply row_leaves_leafk.
      - unfold row_leaves in Hroot. apply mapi_from_inj in Hroot; [exact Hroot| |rewrite eds_row_length; exact HLf].
        intros i x y. apply leaf_at_inj.
      - unfold row_leaves. rewrite mapi_from_length. exact HLf.
      - unfold row_leaves. rewrite mapi_from_length. apply eds_row_length.
    Qed.
  End RowSound.
End Square.

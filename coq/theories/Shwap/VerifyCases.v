(** Correspondence cases for the shwap verifiers: the harness emits inputs (symbolised) with the verdict the real
    code gave; [mismatches] lists the cases where the model's verdict differs. The erasure codec is supplied per case
    as a finite table computed with the real codec. *)
From Coq Require Import List Arith NArith Bool.
From CN Require Import Base.Nmt Base.NmtProofs Base.NmtComplete Shwap.Verify.
Import ListNotations.

Definition table : Type := list (list share * option (list share)).

Fixpoint shares_eqb (a b : list share) : bool :=
  match a, b with
  | [], [] => true
  | x :: a', y :: b' => share_eqb x y && shares_eqb a' b'
  | _, _ => false
  end.

Fixpoint lookup (t : table) (k : list share) : option (list share) :=
  match t with
  | [] => None
  | (k', v) :: t' => if shares_eqb k k' then v else lookup t' k
  end.
Definition lookup_total (t : table) (k : list share) : list share :=
  match lookup t k with Some v => v | None => [] end.

Inductive vcase :=
| CSample (R : roots) (s : sample) (row col : nat) (obs : bool)
| CRnd (R : roots) (ns : N) (d : rnd) (row : nat) (obs : bool)
| CNd (R : roots) (ns : N) (nd : list rnd) (obs : bool)
| CRange (ext : table) (d : rngdata) (fr fc tr tc ods : nat) (expected : list dig) (is_ns : bool) (obs : bool)
| CRow (dl dr : table) (R : roots) (side : nat) (shares : list share) (idx : nat) (obs : bool)
| CTree (D : nat) (leaves : list dig) (root : dig)   (* the real root of these leaves is the model's [tree] and is well-formed *).

Definition agree (c : vcase) : bool :=
  match c with
  | CSample R s row col obs => Bool.eqb (sample_verify R s row col) obs
  | CRnd R ns d row obs => Bool.eqb (rnd_verify R ns d row) obs
  | CNd R ns nd obs => Bool.eqb (nd_verify R ns nd) obs
  | CRange ext d fr fc tr tc ods expected is_ns obs =>
      Bool.eqb (range_verify (lookup_total ext) d fr fc tr tc ods expected is_ns) obs
  | CRow dl dr R side shares idx obs => Bool.eqb (row_verify (lookup dl) (lookup dr) R side shares idx) obs
  | CTree D leaves root => dig_eqb (tree D leaves) root && validb root
  end.

Fixpoint mism_from (n : N) (cs : list vcase) : list N :=
  match cs with
  | [] => []
  | c :: cs' => if agree c then mism_from (N.succ n) cs' else n :: mism_from (N.succ n) cs'
  end.
Definition mismatches (cs : list vcase) : list N := mism_from 0%N cs.

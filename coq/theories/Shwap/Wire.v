(** The protobuf wire layer as implemented by gogo-proto's generated code (share/shwap/pb/shwap.pb.go,
    github.com/celestiaorg/nmt@v0.24.3/pb/proof.pb.go) and the length-delimited stream framing of
    github.com/celestiaorg/go-libp2p-messenger@v0.2.2/serde (Write / Read).

    A message is a sequence of fields [(number, value)], the value tagged by its wire type.  [encode_fields] is what
    [MarshalToSizedBuffer] produces for a given field list; [decode_fields] is the tokeniser part that every generated
    [Unmarshal] and the shared [skipShwap]/[skipProof] function perform identically for every message:
      tag varint -> fieldNum := int32(wire >> 3) (TRUNCATED to 32 bits), wireType := wire & 7;
      wireType 4 -> error; fieldNum <= 0 -> error;
      0 varint (<= 10 bytes) | 1 fixed64 | 2 length + bytes (negative / beyond the buffer -> error) | 5 fixed32 |
      3 group: skipped up to the matching end-group, nested | 6,7 -> error.
    Which field numbers a message knows, the wire type it demands for them ("wrong wireType" error) and the merge rules are
    message-specific and live in Containers.v.  Splitting [Unmarshal] into "tokenise everything, then interpret" is sound for
    the verdict (value | error): the generated code returns the first error it meets and exposes no partial result.

    Executable definitions only; proofs: WireProofs.v. *)
From Coq Require Import List ZArith Bool.
From CN Require Import Base.Bytes Base.Varint.
Import ListNotations.
Open Scope Z_scope.

(** three-valued results: [Fuel] marks an exhausted recursion budget; WireProofs.v shows it is never returned. *)
Inductive res (A : Type) : Type := Ok (a : A) | Err | Fuel.
Arguments Ok {A} a.
Arguments Err {A}.
Arguments Fuel {A}.

Definition bind {A B} (r : res A) (f : A -> res B) : res B :=
  match r with Ok a => f a | Err => Err | Fuel => Fuel end.
Definition of_opt {A} (o : option A) : res A := match o with Some a => Ok a | None => Err end.

Inductive wval :=
| VVarint (v : Z)            (* wire type 0: the uint64 value *)
| VFixed64 (b : list Z)      (* wire type 1: 8 raw bytes *)
| VBytes (b : list Z)        (* wire type 2 *)
| VGroup                     (* wire type 3: a (deprecated) group, skipped as a whole; content not kept *)
| VFixed32 (b : list Z).     (* wire type 5: 4 raw bytes *)

Definition field : Type := (Z * wval)%type.

Definition wtype (v : wval) : Z :=
  match v with VVarint _ => 0 | VFixed64 _ => 1 | VBytes _ => 2 | VGroup => 3 | VFixed32 _ => 5 end.

Definition len (bs : list Z) : Z := Z.of_nat (length bs).

(** ** Encoder *)
Definition encode_value (v : wval) : list Z :=
  match v with
  | VVarint x => uvarint_enc x
  | VFixed64 b | VFixed32 b => b
  | VBytes b => uvarint_enc (len b) ++ b
  | VGroup => []     (* never emitted by any encoder modelled here *)
  end.
Definition encode_field (f : field) : list Z := uvarint_enc (fst f * 8 + wtype (snd f)) ++ encode_value (snd f).
Definition encode_fields (fs : list field) : list Z := flat_map encode_field fs.

(** ** Decoder *)
(** [dAtA[i : i+n]] with the generated bounds checks ([n < 0], [i+n > l]) *)
Definition take (n : Z) (bs : list Z) : option (list Z * list Z) :=
  if (n <? 0) || (two63 <=? n) || (len bs <? n) then None
  else Some (firstn (Z.to_nat n) bs, skipn (Z.to_nat n) bs).

(** [skipShwap] inside a group ([depth > 0]): loop [for iNdEx < l] reading tags until the group is closed. *)
Fixpoint skip_group (fuel : nat) (depth : nat) (bs : list Z) : res (list Z) :=
  match fuel with
  | O => Fuel
  | S f =>
    match depth with
    | O => Ok bs
    | S d =>
      match bs with
      | [] => Err                                            (* loop ends: io.ErrUnexpectedEOF *)
      | _ =>
        match pb_uvarint bs with
        | None => Err
        | Some (wire, bs1) =>
          let wt := wire mod 8 in
          if wt =? 0 then match pb_uvarint bs1 with None => Err | Some (_, bs2) => skip_group f depth bs2 end
          else if wt =? 1 then match take 8 bs1 with None => Err | Some (_, bs2) => skip_group f depth bs2 end
          else if wt =? 2 then
            match pb_uvarint bs1 with
            | None => Err
            | Some (n, bs2) => match take n bs2 with None => Err | Some (_, bs3) => skip_group f depth bs3 end
            end
          else if wt =? 3 then skip_group f (S depth) bs1
          else if wt =? 4 then skip_group f d bs1
          else if wt =? 5 then match take 4 bs1 with None => Err | Some (_, bs2) => skip_group f depth bs2 end
          else Err                                           (* illegal wireType 6, 7 *)
        end
      end
    end
  end.

(** one iteration of the [for iNdEx < l] loop of a generated [Unmarshal] ([bs] non-empty) *)
Definition decode_field (bs : list Z) : res (field * list Z) :=
  match pb_uvarint bs with
  | None => Err
  | Some (wire, bs1) =>
    let num := i32_of_u64 (wire / 8) in
    let wt := wire mod 8 in
    if wt =? 4 then Err                                        (* "wiretype end group for non-group" *)
    else if num <=? 0 then Err                                 (* "illegal tag" *)
    else if wt =? 0 then
      match pb_uvarint bs1 with None => Err | Some (v, bs2) => Ok ((num, VVarint v), bs2) end
    else if wt =? 1 then
      match take 8 bs1 with None => Err | Some (b, bs2) => Ok ((num, VFixed64 b), bs2) end
    else if wt =? 2 then
      match pb_uvarint bs1 with
      | None => Err
      | Some (n, bs2) => match take n bs2 with None => Err | Some (b, bs3) => Ok ((num, VBytes b), bs3) end
      end
    else if wt =? 3 then
      bind (skip_group (S (length bs1)) 1 bs1) (fun bs2 => Ok ((num, VGroup), bs2))
    else if wt =? 5 then
      match take 4 bs1 with None => Err | Some (b, bs2) => Ok ((num, VFixed32 b), bs2) end
    else Err
  end.

Fixpoint decode_fields_fuel (fuel : nat) (bs : list Z) : res (list field) :=
  match bs with
  | [] => Ok []
  | _ =>
    match fuel with
    | O => Fuel
    | S f =>
      bind (decode_field bs) (fun '(fd, rest) =>
      bind (decode_fields_fuel f rest) (fun l => Ok (fd :: l)))
    end
  end.
Definition decode_fields (bs : list Z) : res (list field) := decode_fields_fuel (length bs) bs.

(** ** Message interpretation helper: fold a step function over the fields, first error wins. *)
Fixpoint msg_fold {S : Type} (step : S -> field -> res S) (s : S) (fs : list field) : res S :=
  match fs with
  | [] => Ok s
  | f :: fs' => bind (step s f) (fun s' => msg_fold step s' fs')
  end.

(** ** Length-delimited stream (serde.Write / serde.Read) *)
Definition max_message_size : Z := 1048576.   (* serde.MaxMessageSize = 1 << 20 *)

(** [serde.Write]: [None] = ErrMsgTooBig (nothing is written) *)
Definition write_frame (m : list Z) : option (list Z) :=
  if max_message_size <? len m then None else Some (uvarint_enc (len m) ++ m).

Inductive frame :=
| FEof                               (* the error is (wraps) io.EOF *)
| FErr                               (* any other error *)
| FOk (m : list Z) (rest : list Z).  (* message bytes handed to Unmarshal, unread rest of the stream *)

(** [serde.Read]: binary.ReadUvarint (io.EOF only when no byte at all could be read), size limit, io.ReadFull — which
    returns io.EOF, not io.ErrUnexpectedEOF, when a non-zero size is announced and the stream ends right there. *)
Definition read_frame (bs : list Z) : frame :=
  match bs with
  | [] => FEof
  | _ =>
    match std_uvarint bs with
    | None => FErr
    | Some (size, rest) =>
      if max_message_size <? size then FErr
      else if size =? 0 then FOk [] rest
      else match rest with
           | [] => FEof
           | _ => match take size rest with None => FErr | Some (m, rest') => FOk m rest' end
           end
    end
  end.

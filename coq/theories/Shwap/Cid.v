(** C10 — content identifiers of the shwap bitswap blocks (share/shwap/p2p/bitswap/cid.go, block_registry.go, *_block.go).

    CIDv1 = uvarint(1) ++ uvarint(codec) ++ multihash, multihash = uvarint(code) ++ uvarint(digest length) ++ digest, where
    the "digest" is the binary shwap identifier (Shwap/Ids.v).  [parse_cid] follows go-cid's [Cast] (CIDv0 special case,
    minimal uvarints only, no trailing bytes) and go-multihash's reader.  Executable; no proofs here (CidProofs.v). *)
From Coq Require Import List ZArith Lia Bool.
From CN Require Import Base.Bytes Shwap.Ids.
Import ListNotations.
Open Scope Z_scope.

(** * unsigned LEB128 (go-varint: at most 9 bytes, minimal encodings only) *)
Fixpoint uvarint_fuel (fuel : nat) (v : Z) : list Z :=
  match fuel with
  | O => []
  | S f => if v <? 128 then [v] else (v mod 128 + 128) :: uvarint_fuel f (v / 128)
  end.
Definition uvarint (v : Z) : list Z := uvarint_fuel 10 v.

(** reads one uvarint: value and the remaining bytes.  [mult] = 128^(bytes consumed), [first] = no byte consumed yet *)
Fixpoint read_uvarint_from (fuel : nat) (first : bool) (mult acc : Z) (bs : list Z) : option (Z * list Z) :=
  match fuel, bs with
  | S f, b :: rest =>
    if b <? 128 then
      if (b =? 0) && negb first then None          (* ErrNotMinimal *)
      else Some (acc + b * mult, rest)
    else read_uvarint_from f false (mult * 128) (acc + (b - 128) * mult) rest
  | _, _ => None                                    (* ErrUnderflow / ErrOverflow *)
  end.
Definition read_uvarint (bs : list Z) : option (Z * list Z) := read_uvarint_from 9 true 1 0 bs.

(** * the four block types *)
Inductive bty := BRow | BSample | BRnd | BRange.

Definition bty_eqb (a b : bty) : bool :=
  match a, b with BRow, BRow | BSample, BSample | BRnd, BRnd | BRange, BRange => true | _, _ => false end.

Definition codec (t : bty) : Z :=
  match t with BRow => 0x7800 | BSample => 0x7810 | BRnd => 0x7820 | BRange => 0x7830 end.
Definition mhcode (t : bty) : Z :=
  match t with BRow => 0x7801 | BSample => 0x7811 | BRnd => 0x7821 | BRange => 0x7831 end.
(** the identifier kind carried by a block type (ranges travel in the 16-bit V0 form) *)
Definition kind_of (t : bty) : kind :=
  match t with BRow => KRow | BSample => KSample | BRnd => KRnd | BRange => KRangeV0 end.
Definition id_size (t : bty) : nat := size (kind_of t).

(** specRegistry lookup by codec *)
Definition spec_of_codec (c : Z) : option bty :=
  if c =? 0x7800 then Some BRow else if c =? 0x7810 then Some BSample else
  if c =? 0x7820 then Some BRnd else if c =? 0x7830 then Some BRange else None.

(** * encodeToCID *)
Definition encode_cid (t : bty) (idb : list Z) : list Z :=
  uvarint 1 ++ uvarint (codec t) ++ uvarint (mhcode t) ++ uvarint (Z.of_nat (length idb)) ++ idb.

(** * cid.Cast *)
Record cidv := mkcid { c_version : Z; c_codec : Z; c_mhtype : Z; c_digest : list Z }.

Definition parse_cid (bs : list Z) : option cidv :=
  (* a 34-byte string starting 0x12 0x20 is a CIDv0 (sha2-256 multihash, dag-pb) *)
  if Nat.eqb (length bs) 34 && (nth 0 bs 0 =? 18) && (nth 1 bs 0 =? 32) then Some (mkcid 0 0x70 18 (skipn 2 bs)) else
  match read_uvarint bs with
  | None => None
  | Some (v, r1) =>
    if negb (v =? 1) then None else               (* only version 1 parses here (0 / 2 / 3 are rejected) *)
    match read_uvarint r1 with
    | None => None
    | Some (cd, r2) =>
      match read_uvarint r2 with
      | None => None
      | Some (mh, r3) =>
        match read_uvarint r3 with
        | None => None
        | Some (ln, r4) =>
          if 2147483647 <? ln then None else      (* multihash: "digest too long" *)
          if Nat.eqb (length r4) (Z.to_nat ln) then Some (mkcid 1 cd mh r4) else None   (* short digest / trailing bytes *)
        end
      end
    end
  end.

(** validateCID + extractFromCID: the block type and the identifier bytes *)
Definition extract_id (c : cidv) : option (bty * list Z) :=
  match spec_of_codec (c_codec c) with
  | None => None                                   (* unsupported codec *)
  | Some t =>
    if (c_version c =? 1) && (c_mhtype c =? mhcode t) && Nat.eqb (length (c_digest c)) (id_size t)
    then Some (t, c_digest c) else None
  end.

Definition extract_bytes (bs : list Z) : option (bty * list Z) :=
  match parse_cid bs with Some c => extract_id c | None => None end.

(** EmptyBlock(cid): the builder decodes the identifier *)
Definition empty_block (bs : list Z) : option (bty * id) :=
  match extract_bytes bs with
  | Some (t, idb) => match dec (kind_of t) idb with Some i => Some (t, i) | None => None end
  | None => None
  end.

(** Block.CID() of a block holding identifier [i] *)
Definition block_cid (t : bty) (i : id) : list Z := encode_cid t (enc (kind_of t) i).

(** * correspondence cases *)
Inductive cop :=
| CEnc (t : bty) (i : id) (out : list Z)                  (* blk.CID().Bytes() of a block built for identifier i *)
| CExtract (bs : list Z) (out : option (bty * list Z))    (* cid.Cast + extractFromCID *)
| CEmpty (bs : list Z) (out : option (bty * id)).         (* cid.Cast + EmptyBlock: type and decoded identifier *)

Definition opt_tb_eqb (a b : option (bty * list Z)) : bool :=
  match a, b with
  | Some (t, x), Some (u, y) => bty_eqb t u && list_eqb x y
  | None, None => true
  | _, _ => false
  end.
Definition opt_ti_eqb (a b : option (bty * id)) : bool :=
  match a, b with
  | Some (t, x), Some (u, y) => bty_eqb t u && id_eqb x y
  | None, None => true
  | _, _ => false
  end.

Definition cagree (c : cop) : bool :=
  match c with
  | CEnc t i out => list_eqb (block_cid t i) out
  | CExtract bs out => opt_tb_eqb (extract_bytes bs) out
  | CEmpty bs out => opt_ti_eqb (empty_block bs) out
  end.

Fixpoint cmism_from (n : N) (cs : list cop) : list N :=
  match cs with
  | [] => []
  | c :: cs' => if cagree c then cmism_from (N.succ n) cs' else n :: cmism_from (N.succ n) cs'
  end.
Definition cid_mismatches (cs : list cop) : list N := cmism_from 0%N cs.

(** Executable model of the shwap container verifiers (share/shwap: sample.go, row.go, row_namespace_data.go,
    namespace_data.go, range_namespace_data.go; share/root.go) over the NMT model (Base/Nmt.v).

    A share is (namespace, id): the id stands for the 512 share bytes (the namespace is their first 29 bytes).
    No proofs in this file. *)
From Coq Require Import List Arith NArith Lia Bool.
From CN Require Import Base.Nmt.
Import ListNotations.

Definition share : Type := (N * N)%type.
Definition share_eqb (x y : share) : bool := (fst x =? fst y)%N && (snd x =? snd y)%N.

(** AxisRoots *)
Record roots := mkroots { row_roots : list dig; col_roots : list dig }.

(** the leaf the erasured NMT wrapper pushes for position (i, j) of an EDS of width [w]: shares outside the first
    quadrant are prefixed with the parity namespace, the others with their own namespace *)
Definition leaf_prefix_at (w i j : nat) (s : share) : N :=
  if (i <? w / 2) && (j <? w / 2) then fst s else maxns.
Definition leaf_at (w i j : nat) (s : share) : dig := leaf_hash (leaf_prefix_at w i j s) (fst s) (snd s).

Fixpoint mapi_from {A B} (f : nat -> A -> B) (j : nat) (l : list A) : list B :=
  match l with [] => [] | x :: t => f j x :: mapi_from f (S j) t end.

(** leaves of the row tree of row [i]: axis index fixed, position varies *)
Definition row_leaves (w i : nat) (row : list share) : list dig := mapi_from (fun j s => leaf_at w i j s) 0 row.
Definition col_leaves (w j : nat) (col : list share) : list dig := mapi_from (fun i s => leaf_at w i j s) 0 col.

(** * Sample (sample.go: Verify, verifyInclusion, inclusionNamespace) *)
Record sample := mksample { sm_share : share; sm_proof : option proof; sm_axis : nat (* 0 = Row, 1 = Col *) }.

Definition sample_verify (R : roots) (s : sample) (row col : nat) : bool :=
  match sm_proof s with
  | None => false
  | Some p =>
    negb (is_empty_proof p) &&
    (Nat.eqb (sm_axis s) 0 || Nat.eqb (sm_axis s) 1) &&
    (if Nat.eqb (sm_axis s) 0
     then Nat.eqb (p_start p) col && Nat.eqb (p_end p) (col + 1)
     else Nat.eqb (p_start p) row && Nat.eqb (p_end p) (row + 1)) &&
    let w := length (row_roots R) in
    let nsp := if (w / 2 <=? col) || (w / 2 <=? row) then maxns else fst (sm_share s) in
    let root := if Nat.eqb (sm_axis s) 0 then nth row (row_roots R) DBad else nth col (col_roots R) DBad in
    verify_inclusion p nsp [sm_share s] root
  end.

(** * Row (row.go).  The erasure code is abstract: [extend] computes the parity half of a left half,
    [reconstruct] the whole row from a right half. *)
Section Row.
  (** [codec.Decode] of a row holding only its left (resp. right) half; None = decoding error *)
  Variable decode_left : list share -> option (list share).
  Variable decode_right : list share -> option (list share).

  (** [Row.Shares()]: the full extended row; side 0 = Left, 1 = Right, 2 = Both *)
  Definition row_shares (side : nat) (shares : list share) : option (list share) :=
    match side with
    | 0 => decode_left shares
    | 1 => decode_right shares
    | 2 => Some shares
    | _ => None
    end.

  (** [Row.Verify(roots, idx)]; the tree is built over the full row with square size len/2 *)
  Definition row_verify (R : roots) (side : nat) (shares : list share) (idx : nat) : bool :=
    match shares with [] => false | _ =>
      let expected := if Nat.eqb side 2 then length (row_roots R) else length (row_roots R) / 2 in
      Nat.eqb (length shares) expected && (side <=? 2) &&
      match row_shares side shares with
      | None => false
      | Some full => dig_eqb (tree (Nat.log2 (length full)) (row_leaves (length full) idx full)) (nth idx (row_roots R) DBad)
      end
    end.
End Row.

(** * Row namespace data (row_namespace_data.go: Verify, verifyInclusion; root.go: IsOutsideRange) *)
Record rnd := mkrnd { rnd_shares : list share; rnd_proof : option proof }.

Definition outside_range (ns : N) (root : dig) : bool := (ns <? dmin root)%N || negb (ns <=? dmax root)%N.

Definition rnd_verify (R : roots) (ns : N) (d : rnd) (rowIdx : nat) : bool :=
  match rnd_proof d with
  | None => false
  | Some p =>
    negb (is_empty_proof p) &&
    negb (match rnd_shares d with [] => negb (is_absence p) | _ => false end) &&
    negb (match rnd_shares d with [] => false | _ => is_absence p end) &&
    let root := nth rowIdx (row_roots R) DBad in
    negb (outside_range ns root) &&
    verify_namespace p ns (map (fun s => (fst s, s)) (rnd_shares d)) root
  end.

(** * Namespace data (namespace_data.go: Verify; root.go: RowsWithNamespace) *)
Fixpoint rows_with_ns_from (i : nat) (rs : list dig) (ns : N) : list nat :=
  match rs with
  | [] => []
  | r :: rs' => if outside_range ns r then rows_with_ns_from (S i) rs' ns else i :: rows_with_ns_from (S i) rs' ns
  end.
Definition rows_with_ns (R : roots) (ns : N) : list nat := rows_with_ns_from 0 (row_roots R) ns.

Fixpoint forall2b {A B} (f : A -> B -> bool) (l : list A) (m : list B) : bool :=
  match l, m with
  | [], [] => true
  | x :: l', y :: m' => f x y && forall2b f l' m'
  | _, _ => false
  end.

Definition nd_verify (R : roots) (ns : N) (nd : list rnd) : bool :=
  let idxs := rows_with_ns R ns in
  Nat.eqb (length idxs) (length nd) && forall2b (fun d i => rnd_verify R ns d i) nd idxs.

Definition nd_flatten (nd : list rnd) : list share := flat_map rnd_shares nd.

(** * Range data (range_namespace_data.go: verifyShares, computeRoot, ParseNamespace) *)
Record rngdata := mkrng { rg_shares : list (list share); rg_first : option proof; rg_last : option proof }.

(** [computeRoot(shares, ns, proof, nsCompleteness)]: None = error; Some None = nil root (no proof) *)
Definition rng_compute_root (shares : list share) (ns : N) (p : option proof) (is_ns : bool) : option (option dig) :=
  match p with
  | None => Some None
  | Some p =>
    match shares with [] => None | _ =>
      if is_empty_proof p || is_absence p then None else
      match compute_root_basic p ns (map (fun s => leaf_hash ns (fst s) (snd s)) shares) is_ns with
      | Some r => Some (Some r)
      | None => None
      end
    end
  end.

(** per-row share count: row [r] of [n] carries exactly the columns of the requested range that fall into it *)
Definition row_len_ok (n from_col to_col ods r : nat) (row : list share) : bool :=
  let startc := if Nat.eqb r 0 then from_col else 0 in
  let endc := if Nat.eqb r (n - 1) then to_col else ods - 1 in
  negb (Nat.eqb (length row) 0) && Nat.eqb (length row) (endc + 1 - startc) && (startc <=? endc).

Section Range.
  Variable extend : list share -> list share.

  (** root of a complete row: [ExtendShares] then the erasured tree with square size = len(shares) *)
  Definition full_row_root (rowIdx : nat) (shares : list share) : dig :=
    let full := shares ++ extend shares in
    tree (Nat.log2 (length full)) (row_leaves (length full) rowIdx full).

  Definition range_verify (d : rngdata) (from_row from_col to_row to_col ods : nat)
             (expected : list dig) (is_ns : bool) : bool :=
    let shares := rg_shares d in
    let n := length shares in
    negb (Nat.eqb n 0) && Nat.eqb (to_row + 1 - from_row) n && (from_row <=? to_row) && Nat.eqb (length expected) n &&
    forallb (fun r => row_len_ok n from_col to_col ods r (nth r shares [])) (seq 0 n) &&
    negb (negb (Nat.eqb (length (hd [] shares)) ods) && match rg_first d with None => true | _ => false end) &&
    negb ((1 <? n) && negb (Nat.eqb (length (last shares [])) ods) && match rg_last d with None => true | _ => false end) &&
    match rg_first d with Some p => Nat.eqb (p_start p) from_col | None => true end &&
    match rg_last d with Some p => Nat.eqb (p_end p) (to_col + 1) | None => true end &&
    (from_row <? ods) && (from_col <? ods) && (to_row <? ods) && (to_col <? ods) &&
    (* ParseNamespace: total amount and a single namespace *)
    (from_row * ods + from_col <? to_row * ods + to_col + 1) &&
    Nat.eqb (length (concat shares)) (to_row * ods + to_col + 1 - (from_row * ods + from_col)) &&
    match concat shares with
    | [] => false
    | s0 :: _ =>
      let ns := fst s0 in
      forallb (fun s => (fst s =? ns)%N) (concat shares) &&
      match rng_compute_root (hd [] shares) ns (rg_first d) is_ns, rng_compute_root (last shares []) ns (rg_last d) is_ns with
      | Some c_first, Some c_last =>
        (* computedRoots[0] = first; if len > 1: computedRoots[len-1] = last; the others are rebuilt from the full row *)
        let comp r := if Nat.eqb r 0 then c_first else if Nat.eqb r (n - 1) then c_last else None in
        forallb (fun r => dig_eqb (match comp r with
                                   | Some rt => rt
                                   | None => full_row_root (from_row + r) (nth r shares [])
                                   end) (nth r expected DBad)) (seq 0 n)
      | _, _ => false
      end
    end.
End Range.

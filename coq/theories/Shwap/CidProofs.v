(** C10 — proofs about the CID codec (Cid.v): identifier <-> CID is a bijection between valid identifiers of a block type
    and the byte strings [extract_bytes] accepts; block types cannot be confused.  No axioms. *)
From Coq Require Import List ZArith Lia Bool.
From CN Require Import Base.Bytes Shwap.Ids Shwap.IdsProofs Shwap.Cid.
Import ListNotations.
Open Scope Z_scope.

(** * uvarint *)
Lemma uvarint_fuel_more : forall n m w, 0 <= w < 128 ^ Z.of_nat (S n) -> (S n <= m)%nat -> uvarint_fuel m w = uvarint_fuel (S n) w.
Proof.
  induction n as [|n IH]; intros m w Hw Hm; (destruct m as [|m]; [lia|]); cbn [uvarint_fuel].
  - assert (E : (w <? 128) = true) by (apply Z.ltb_lt; cbn in Hw; lia). rewrite E. reflexivity.
  - destruct (w <? 128) eqn:E; [reflexivity|]. f_equal.
    apply IH; [|lia]. apply Z.ltb_ge in E.
    rewrite (Nat2Z.inj_succ (S n)), Z.pow_succ_r in Hw by lia.
    split; [apply Z.div_pos; lia|]. apply Z.div_lt_upper_bound; lia.
Qed.

(** what a successful read consumed is the minimal encoding of what it returned *)
Lemma read_uvarint_from_canonical : forall fuel first mult acc bs v rest,
  bytes_ok bs = true -> 0 < mult ->
  read_uvarint_from fuel first mult acc bs = Some (v, rest) ->
  exists w, v = acc + mult * w /\ 0 <= w < 128 ^ Z.of_nat fuel /\ (first = false -> 0 < w) /\
            bs = uvarint_fuel fuel w ++ rest.
Proof.
  induction fuel as [|fuel IH]; intros first mult acc bs v rest Hok Hm H; [discriminate|].
  destruct bs as [|b bs]; [discriminate|]. cbn [read_uvarint_from] in H.
  cbn in Hok. apply andb_true_iff in Hok as [Hb Hok]. unfold byte_ok in Hb. apply andb_true_iff in Hb as [Hb1 Hb2].
  apply Z.leb_le in Hb1. apply Z.ltb_lt in Hb2.
  destruct (b <? 128) eqn:E.
  - apply Z.ltb_lt in E.
    destruct ((b =? 0) && negb first) eqn:E0; [discriminate|]. inversion H; subst; clear H.
    exists b. split; [lia|]. split.
    + split; [lia|]. rewrite Nat2Z.inj_succ, Z.pow_succ_r by lia.
      assert (0 < 128 ^ Z.of_nat fuel) by (apply Z.pow_pos_nonneg; lia). lia.
    + split.
      * intros ->. cbn in E0. rewrite andb_true_r in E0. apply Z.eqb_neq in E0. lia.
      * cbn [uvarint_fuel]. assert (Hlt : (b <? 128) = true) by (apply Z.ltb_lt; lia). rewrite Hlt. reflexivity.
  - apply Z.ltb_ge in E.
    apply IH in H; [|exact Hok|lia]. destruct H as [w' [Hv [Hw' [Hpos Hbs]]]]. specialize (Hpos eq_refl).
    exists ((b - 128) + 128 * w'). split; [lia|]. split.
    + rewrite Nat2Z.inj_succ, Z.pow_succ_r by lia. lia.
    + split; [lia|].
      cbn [uvarint_fuel].
      assert (Hge : ((b - 128 + 128 * w') <? 128) = false) by (apply Z.ltb_ge; lia). rewrite Hge.
      assert (Hmod : (b - 128 + 128 * w') mod 128 = b - 128).
      { symmetry. apply (Z.mod_unique_pos _ 128 w'); lia. }
      assert (Hdiv : (b - 128 + 128 * w') / 128 = w').
      { symmetry. apply (Z.div_unique_pos _ 128 w' (b - 128)); lia. }
      rewrite Hmod, Hdiv. cbn [app]. f_equal; [lia|exact Hbs].
Qed.

Lemma read_uvarint_canonical bs v rest :
  bytes_ok bs = true -> read_uvarint bs = Some (v, rest) -> bs = uvarint v ++ rest /\ 0 <= v < 128 ^ 9.
Proof.
  intros Hok H. unfold read_uvarint in H.
  apply read_uvarint_from_canonical in H; [|exact Hok|lia].
  destruct H as [w [Hv [Hw [_ Hbs]]]]. assert (v = w) by lia. subst w.
  split; [|exact Hw]. unfold uvarint. rewrite (uvarint_fuel_more 8 10) by (try exact Hw; lia). exact Hbs.
Qed.

(** * CIDs *)
Lemma spec_of_codec_spec c t : spec_of_codec c = Some t <-> c = codec t.
Proof.
  unfold spec_of_codec. split.
  - repeat (match goal with |- context [?a =? ?b] => destruct (a =? b) eqn:?E end);
      intros H; inversion H; subst; cbn; apply Z.eqb_eq; assumption.
  - intros ->. destruct t; reflexivity.
Qed.

Lemma id_size_small t : (id_size t < 128)%nat.
Proof. destruct t; cbn; lia. Qed.

Lemma parse_encode t idb :
  length idb = id_size t -> parse_cid (encode_cid t idb) = Some (mkcid 1 (codec t) (mhcode t) idb).
Proof.
  intros H. unfold encode_cid. rewrite H. unfold parse_cid.
  destruct t; cbn -[Nat.eqb Z.to_nat length]; rewrite !andb_false_r, H; reflexivity.
Qed.

(** encode then parse: the type and the identifier bytes come back *)
Theorem cid_roundtrip t idb :
  length idb = id_size t -> extract_bytes (encode_cid t idb) = Some (t, idb).
Proof.
  intros Hl. unfold extract_bytes. rewrite (parse_encode t idb Hl). unfold extract_id. cbn [c_codec c_version c_mhtype c_digest].
  rewrite (proj2 (spec_of_codec_spec (codec t) t) eq_refl), Hl, !Z.eqb_refl, Nat.eqb_refl. reflexivity.
Qed.

(** one CID per identifier, and block types cannot be confused: the encoding determines the type and the identifier *)
Theorem encode_cid_injective t t' a b :
  length a = id_size t -> length b = id_size t' -> encode_cid t a = encode_cid t' b -> t = t' /\ a = b.
Proof.
  intros Ha Hb H.
  pose proof (cid_roundtrip t a Ha) as R1. pose proof (cid_roundtrip t' b Hb) as R2.
  rewrite H in R1. rewrite R1 in R2. inversion R2. auto.
Qed.

Theorem codecs_distinct t t' : codec t = codec t' \/ mhcode t = mhcode t' -> t = t'.
Proof. destruct t, t'; cbn; intros [H|H]; try reflexivity; discriminate. Qed.

Theorem codec_not_mhcode t t' : codec t <> mhcode t'.
Proof. destruct t, t'; cbn; discriminate. Qed.

(** ... and back: the parser accepts nothing but the canonical encoding (no second byte string names the same identifier) *)
Theorem extract_canonical bs t idb :
  bytes_ok bs = true -> extract_bytes bs = Some (t, idb) -> bs = encode_cid t idb /\ length idb = id_size t.
Proof.
  intros Hok H. unfold extract_bytes in H.
  destruct (parse_cid bs) as [c|] eqn:P; [|discriminate].
  unfold extract_id in H. destruct (spec_of_codec (c_codec c)) as [t0|] eqn:S; [|discriminate].
  destruct ((c_version c =? 1) && (c_mhtype c =? mhcode t0) && Nat.eqb (length (c_digest c)) (id_size t0)) eqn:V; [|discriminate].
  inversion H; subst t0 idb; clear H.
  apply andb_true_iff in V as [V V3]. apply andb_true_iff in V as [V1 V2].
  apply Z.eqb_eq in V1, V2. apply Nat.eqb_eq in V3. apply spec_of_codec_spec in S.
  unfold parse_cid in P.
  destruct (Nat.eqb (length bs) 34 && (nth 0 bs 0 =? 18) && (nth 1 bs 0 =? 32)).
  { inversion P; subst c. cbn in V1. discriminate. }
  destruct (read_uvarint bs) as [[v r1]|] eqn:R1; [|discriminate].
  destruct (negb (v =? 1)) eqn:Ev; [discriminate|]. apply negb_false_iff, Z.eqb_eq in Ev. subst v.
  destruct (read_uvarint r1) as [[cd r2]|] eqn:R2; [|discriminate].
  destruct (read_uvarint r2) as [[mh r3]|] eqn:R3; [|discriminate].
  destruct (read_uvarint r3) as [[ln r4]|] eqn:R4; [|discriminate].
  destruct (2147483647 <? ln); [discriminate|].
  destruct (Nat.eqb (length r4) (Z.to_nat ln)) eqn:EL; [|discriminate].
  inversion P; subst c; clear P. cbn [c_version c_codec c_mhtype c_digest] in *. subst cd mh. apply Nat.eqb_eq in EL.
  apply read_uvarint_canonical in R1; [|exact Hok]. destruct R1 as [B1 _].
  assert (Hok1 : bytes_ok r1 = true) by (rewrite B1, bytes_ok_app in Hok; apply andb_true_iff in Hok; tauto).
  apply read_uvarint_canonical in R2; [|exact Hok1]. destruct R2 as [B2 _].
  assert (Hok2 : bytes_ok r2 = true) by (rewrite B2, bytes_ok_app in Hok1; apply andb_true_iff in Hok1; tauto).
  apply read_uvarint_canonical in R3; [|exact Hok2]. destruct R3 as [B3 _].
  assert (Hok3 : bytes_ok r3 = true) by (rewrite B3, bytes_ok_app in Hok2; apply andb_true_iff in Hok2; tauto).
  apply read_uvarint_canonical in R4; [|exact Hok3]. destruct R4 as [B4 Hln].
  split; [|exact V3].
  unfold encode_cid. rewrite B1, B2, B3, B4. repeat f_equal. lia.
Qed.

(** identifiers: with the identifier codec of C18 the whole chain closes — the CID of a block built for a valid
    identifier parses back to the same type and decodes to the same identifier *)
Theorem cid_bij t sz i j :
  height_ok i -> size_ok (kind_of t) sz -> new (kind_of t) sz i = Some j ->
  empty_block (block_cid t j) = Some (t, j).
Proof.
  intros Hh Hs Hn. unfold empty_block, block_cid.
  assert (Hl : length (enc (kind_of t) j) = id_size t).
  { pose proof (id_roundtrip _ _ _ _ Hh Hs Hn) as R.
    destruct (Nat.eq_dec (length (enc (kind_of t) j)) (size (kind_of t))) as [E|E]; [exact E|].
    rewrite (dec_wrong_length _ _ E) in R. discriminate. }
  rewrite (cid_roundtrip t _ Hl). rewrite (id_roundtrip _ _ _ _ Hh Hs Hn). reflexivity.
Qed.

Theorem block_cid_injective t t' sz sz' i i' j j' :
  height_ok i -> height_ok i' -> size_ok (kind_of t) sz -> size_ok (kind_of t') sz' ->
  new (kind_of t) sz i = Some j -> new (kind_of t') sz' i' = Some j' ->
  block_cid t j = block_cid t' j' -> t = t' /\ j = j'.
Proof.
  intros Hh Hh' Hs Hs' Hn Hn' H.
  pose proof (cid_bij t sz i j Hh Hs Hn) as R1. pose proof (cid_bij t' sz' i' j' Hh' Hs' Hn') as R2.
  rewrite H in R1. rewrite R1 in R2. inversion R2. auto.
Qed.

Example cid_nonvacuous :
  block_cid BSample (mkid 7 3 5 []) = [1; 144; 240; 1; 145; 240; 1; 12; 0; 0; 0; 0; 0; 0; 0; 7; 0; 3; 0; 5] /\
  empty_block (block_cid BSample (mkid 7 3 5 [])) = Some (BSample, mkid 7 3 5 []) /\
  extract_bytes (1 :: 144 :: 240 :: 1 :: 129 :: 240 :: 1 :: 12 :: repeat 0 12) = None /\   (* sample codec, row multihash *)
  extract_bytes ([1; 128; 240; 1; 129; 240; 1; 10] ++ repeat 0 10 ++ [0]) = None /\        (* trailing byte *)
  extract_bytes ([1; 128; 240; 1; 129; 240; 1; 138; 0] ++ repeat 0 10) = None.              (* non-minimal length *)
Proof. repeat split; reflexivity. Qed.

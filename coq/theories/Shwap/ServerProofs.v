(** C09 — proofs about the shrex server handler model (Shwap/Server.v).

    Everything is stated for EVERY request byte string, every store, every memory budget and every inner accessor
    (the [Section] variables of Server.v, universally quantified after [End]). *)
From Coq Require Import List ZArith Lia Bool.
From CN Require Import Base.Bytes Shwap.Ids Shwap.IdsProofs Shwap.Server.
Import ListNotations.
Open Scope Z_scope.

(** * Bounds: what "inside the stored square" means for each request type ([eds] = EDS width of the stored block) *)
Definition in_bounds (p : proto) (eds : Z) (i : id) : Prop :=
  match p with
  | PEds | PNd => True
  | PRow => 0 <= a i < eds
  | PSample => 0 <= a i < eds /\ 0 <= b i < eds
  | PRange => 0 <= a i /\ a i < b i /\ b i <= (eds / 2) * (eds / 2)
  end.

Lemma bounds_ok_in_bounds p eds i : bounds_ok p eds i = true -> in_bounds p eds i.
Proof.
  destruct p; unfold bounds_ok, in_bounds, verify, validate, with_h1; cbn [a b h]; intros H; btrue; repeat split; try lia.
Qed.

Lemma in_bounds_bounds_ok p eds i : validate (pkind p) i = true -> in_bounds p eds i -> bounds_ok p eds i = true.
Proof.
  destruct p; unfold bounds_ok, in_bounds, verify, validate, with_h1, pkind; cbn [a b h]; intros Hv H; btrue; try reflexivity.
  - destruct H as [Hx1 Hx2].
    replace (eds =? 0) with false by (symmetry; apply Z.eqb_neq; lia).
    replace (a i <? eds) with true by (symmetry; apply Z.ltb_lt; lia).
    replace (0 <=? a i) with true by (symmetry; apply Z.leb_le; lia). reflexivity.
  - destruct H as [[Hx1 Hx2] [Hx3 Hx4]].
    replace (eds =? 0) with false by (symmetry; apply Z.eqb_neq; lia).
    replace (a i <? eds) with true by (symmetry; apply Z.ltb_lt; lia).
    replace (b i <? eds) with true by (symmetry; apply Z.ltb_lt; lia).
    replace (0 <=? a i) with true by (symmetry; apply Z.leb_le; lia).
    replace (0 <=? b i) with true by (symmetry; apply Z.leb_le; lia). reflexivity.
  - destruct H as [Hx1 [Hx2 Hx3]].
    replace (0 <=? a i) with true by (symmetry; apply Z.leb_le; lia).
    replace (a i <? b i) with true by (symmetry; apply Z.ltb_lt; lia).
    replace (a i <? eds / 2 * (eds / 2)) with true by (symmetry; apply Z.ltb_lt; lia).
    replace (b i <=? eds / 2 * (eds / 2)) with true by (symmetry; apply Z.leb_le; lia). reflexivity.
Qed.

Theorem bounds_exact p eds i :
  (bounds_ok p eds i = true -> in_bounds p eds i) /\
  (validate (pkind p) i = true -> in_bounds p eds i -> bounds_ok p eds i = true).
Proof. split; [apply bounds_ok_in_bounds|apply in_bounds_bounds_ok]. Qed.

(** * Balance of the ghost counters *)

(** [g] differs from [g0] by matched pairs only: as many accessors closed as opened, as many bytes released as reserved *)
Definition bal_from (g0 g : ghost) : Prop :=
  (g_opened g + g_closed g0 = g_closed g + g_opened g0)%nat /\
  g_reserved g + g_released g0 = g_released g + g_reserved g0.

Lemma bal_from_refl g : bal_from g g.
Proof. unfold bal_from; lia. Qed.

(** an acquisition [acq] and the call [rel] deferred right after it cancel *)
Definition paired (acq rel : ghost -> ghost) : Prop := forall g g', bal_from (acq g) g' -> bal_from g (rel g').

Lemma paired_open_close : paired open_acc close_acc.
Proof. intros g g'. unfold bal_from, open_acc, close_acc; cbn. lia. Qed.

Lemma paired_reserve_release n : paired (reserve n) (release n).
Proof. intros g g'. unfold bal_from, reserve, release; cbn. lia. Qed.

(** the reason the handler is balanced: a body that is itself balanced, run between an acquisition and its deferred release,
    is balanced — whatever the body returns, including a panic *)
Lemma deferred_balanced {A} acq rel (body : ghost -> A * ghost) :
  paired acq rel -> (forall g, bal_from g (snd (body g))) -> forall g, bal_from g (snd (deferred rel body (acq g))).
Proof.
  intros Hp Hb g. unfold deferred. specialize (Hb (acq g)). destruct (body (acq g)) as [x g']. cbn in *. apply Hp, Hb.
Qed.

Definition balanced (g : ghost) : Prop := g_opened g = g_closed g /\ g_reserved g = g_released g.

Lemma bal_from_ghost0 g : bal_from ghost0 g -> balanced g.
Proof. unfold bal_from, balanced, ghost0; cbn. lia. Qed.

Section Proofs.
  Context {P : Type}.
  Variable store : Z -> lookup.
  Variable limit : Z.
  Variable build : proto -> id -> built P.

  Notation handle := (handle store limit build).
  Notation handle_body := (handle_body store limit build).

  (** a request is well formed for the store: it is long enough, its first [size] bytes decode to a valid identifier whose
      height is stored with a readable size, and the identifier lies inside that square *)
  Definition wf_request (p : proto) (bs : list Z) (i : id) (eds : Z) : Prop :=
    (size (pkind p) <= length bs)%nat /\
    dec (pkind p) (firstn (size (pkind p)) bs) = Some i /\
    validate (pkind p) i = true /\
    store (h i) = LAcc (Some eds) /\
    in_bounds p eds i.

  Lemma read_id_some p bs i :
    (size (pkind p) <= length bs)%nat -> dec (pkind p) (firstn (size (pkind p)) bs) = Some i -> read_id p bs = Some i.
  Proof.
    intros Hl Hd. unfold read_id. destruct (length bs <? size (pkind p))%nat eqn:E; [apply Nat.ltb_lt in E; lia|exact Hd].
  Qed.

  Lemma read_id_inv p bs i :
    read_id p bs = Some i -> (size (pkind p) <= length bs)%nat /\ dec (pkind p) (firstn (size (pkind p)) bs) = Some i.
  Proof.
    unfold read_id. destruct (length bs <? size (pkind p))%nat eqn:E; [discriminate|]. apply Nat.ltb_ge in E. tauto.
  Qed.

  (** ** serve_complete *)
  Theorem serve_complete p bs i eds pl :
    wf_request p bs i eds -> response_size p eds i <= limit -> build p i = BOk pl ->
    handle p bs = (OPayload pl, mkghost 1 1 (response_size p eds i) (response_size p eds i)).
  Proof.
    intros (Hl & Hd & Hv & Hs & Hb) Hlim Hbd.
    unfold Server.handle, Server.handle_body. rewrite (read_id_some _ _ _ Hl Hd), Hv. cbn [negb]. rewrite Hs.
    unfold deferred. replace (limit <? response_size p eds i) with false by (symmetry; apply Z.ltb_ge; lia).
    rewrite (in_bounds_bounds_ok _ _ _ Hv Hb), Hbd. cbn. reflexivity.
  Qed.

  Theorem serve_complete_explicit p bs i eds pl :
    (size (pkind p) <= length bs)%nat ->
    dec (pkind p) (firstn (size (pkind p)) bs) = Some i ->
    validate (pkind p) i = true ->
    store (h i) = LAcc (Some eds) ->
    in_bounds p eds i ->
    response_size p eds i <= limit ->
    build p i = BOk pl ->
    handle p bs = (OPayload pl, mkghost 1 1 (response_size p eds i) (response_size p eds i)).
  Proof. intros H1 H2 H3 H4 H5. apply serve_complete. repeat split; assumption. Qed.

  (** ** the inversion: a payload goes out only for a well-formed in-bounds request that fits the budget, and it is what the
      accessor built for exactly the decoded identifier *)
  Theorem served_only_wf p bs pl g :
    handle p bs = (OPayload pl, g) ->
    exists i eds, wf_request p bs i eds /\ response_size p eds i <= limit /\ build p i = BOk pl /\
                  g = mkghost 1 1 (response_size p eds i) (response_size p eds i).
  Proof.
    unfold Server.handle, Server.handle_body, deferred.
    destruct (read_id p bs) as [i|] eqn:Er; [|cbn; discriminate].
    destruct (validate (pkind p) i) eqn:Ev; cbn [negb]; [|cbn; discriminate].
    destruct (store (h i)) as [| |[eds|]] eqn:Es; try (cbn; discriminate).
    destruct (limit <? response_size p eds i) eqn:El; [cbn; discriminate|]. apply Z.ltb_ge in El.
    destruct (bounds_ok p eds i) eqn:Eb; [|cbn; discriminate].
    destruct (build p i) as [pl'| |] eqn:Ebd; cbn; try discriminate.
    intros H. inversion H; subst. exists i, eds. apply read_id_inv in Er as [Hl Hd].
    repeat split; auto using bounds_ok_in_bounds.
  Qed.

  (** ** refuse: malformed, truncated, out-of-bounds requests are never answered OK *)
  Theorem never_ok p bs :
    (forall i eds, ~ wf_request p bs i eds) -> forall pl g, handle p bs <> (OPayload pl, g).
  Proof.
    intros Hn pl g H. apply served_only_wf in H as (i & eds & Hw & _). exact (Hn i eds Hw).
  Qed.

  Theorem refuse_short p bs : (length bs < size (pkind p))%nat -> handle p bs = (OReset, ghost0).
  Proof.
    intros H. unfold Server.handle, Server.handle_body, read_id.
    replace (length bs <? size (pkind p))%nat with true by (symmetry; apply Nat.ltb_lt; exact H). reflexivity.
  Qed.

  Theorem refuse_undecodable p bs :
    dec (pkind p) (firstn (size (pkind p)) bs) = None -> handle p bs = (OReset, ghost0).
  Proof.
    intros H. unfold Server.handle, Server.handle_body, read_id.
    destruct (length bs <? size (pkind p))%nat; [reflexivity|]. rewrite H. reflexivity.
  Qed.

  Lemma firstn8 p (bs : list Z) : slice (firstn (size (pkind p)) bs) 0 8 = firstn 8 bs.
  Proof.
    unfold slice. cbn [skipn]. rewrite firstn_firstn. destruct p; reflexivity.
  Qed.

  Theorem refuse_zero_height p bs : unbe (firstn 8 bs) = 0 -> handle p bs = (OReset, ghost0).
  Proof.
    intros H. apply refuse_undecodable. unfold dec.
    destruct (negb (Nat.eqb (length (firstn (size (pkind p)) bs)) (size (pkind p)))); [reflexivity|].
    rewrite firstn8, H. reflexivity.
  Qed.

  Theorem refuse_invalid p bs i :
    read_id p bs = Some i -> validate (pkind p) i = false -> handle p bs = (OReset, ghost0).
  Proof.
    intros Hr Hv. unfold Server.handle, Server.handle_body. rewrite Hr, Hv. reflexivity.
  Qed.

  (** out of bounds for the stored square: an error status (after releasing what was reserved) or, when the declared size
      exceeds the budget, a reset — never data *)
  Theorem refuse_out_of_bounds p bs i eds :
    read_id p bs = Some i -> validate (pkind p) i = true -> store (h i) = LAcc (Some eds) -> ~ in_bounds p eds i ->
    handle p bs = (if limit <? response_size p eds i then OResetLimit else OStatus SInternal,
                   if limit <? response_size p eds i then mkghost 1 1 0 0
                   else mkghost 1 1 (response_size p eds i) (response_size p eds i)).
  Proof.
    intros Hr Hv Hs Hb. unfold Server.handle, Server.handle_body, deferred. rewrite Hr, Hv. cbn [negb]. rewrite Hs.
    destruct (limit <? response_size p eds i); [reflexivity|].
    destruct (bounds_ok p eds i) eqn:Eb; [apply bounds_ok_in_bounds in Eb; contradiction|reflexivity].
  Qed.

  (** bytes after the identifier are not part of the request *)
  Theorem trailing_ignored p bs junk : length bs = size (pkind p) -> handle p (bs ++ junk) = handle p bs.
  Proof.
    intros Hl. unfold Server.handle, Server.handle_body, read_id.
    rewrite app_length, Hl, (firstn_app_exact bs junk _ Hl), (firstn_exact bs _ Hl).
    replace (size (pkind p) + length junk <? size (pkind p))%nat with false by (symmetry; apply Nat.ltb_ge; lia).
    rewrite Nat.ltb_irrefl. reflexivity.
  Qed.

  (** ** notfound and the other store failures *)
  Theorem notfound p bs i wrapped :
    read_id p bs = Some i -> validate (pkind p) i = true -> store (h i) = LNotFound wrapped ->
    handle p bs = (OStatus SNotFound, ghost0).
  Proof. intros Hr Hv Hs. unfold Server.handle, Server.handle_body. rewrite Hr, Hv. cbn [negb]. rewrite Hs. reflexivity. Qed.

  Theorem store_error p bs i :
    read_id p bs = Some i -> validate (pkind p) i = true -> store (h i) = LError ->
    handle p bs = (OStatus SInternal, ghost0).
  Proof. intros Hr Hv Hs. unfold Server.handle, Server.handle_body. rewrite Hr, Hv. cbn [negb]. rewrite Hs. reflexivity. Qed.

  Theorem size_error p bs i :
    read_id p bs = Some i -> validate (pkind p) i = true -> store (h i) = LAcc None ->
    handle p bs = (OStatus SInternal, mkghost 1 1 0 0).
  Proof. intros Hr Hv Hs. unfold Server.handle, Server.handle_body. rewrite Hr, Hv. cbn [negb]. rewrite Hs. reflexivity. Qed.

  Theorem over_budget p bs i eds :
    read_id p bs = Some i -> validate (pkind p) i = true -> store (h i) = LAcc (Some eds) -> limit < response_size p eds i ->
    handle p bs = (OResetLimit, mkghost 1 1 0 0).
  Proof.
    intros Hr Hv Hs Hl. unfold Server.handle, Server.handle_body, deferred. rewrite Hr, Hv. cbn [negb]. rewrite Hs.
    replace (limit <? response_size p eds i) with true by (symmetry; apply Z.ltb_lt; lia). reflexivity.
  Qed.

  Theorem internal_errors p bs i :
    read_id p bs = Some i -> validate (pkind p) i = true ->
    (store (h i) = LError -> handle p bs = (OStatus SInternal, ghost0)) /\
    (store (h i) = LAcc None -> handle p bs = (OStatus SInternal, mkghost 1 1 0 0)) /\
    (forall eds, store (h i) = LAcc (Some eds) -> limit < response_size p eds i ->
       handle p bs = (OResetLimit, mkghost 1 1 0 0)).
  Proof.
    intros Hr Hv. split; [|split]; [exact (store_error p bs i Hr Hv)|exact (size_error p bs i Hr Hv)|].
    intros eds. exact (over_budget p bs i eds Hr Hv).
  Qed.

  (** the accessor fails or panics while building the answer: error status / recovered reset; accessor closed, memory released *)
  Theorem build_failure p bs i eds :
    wf_request p bs i eds -> response_size p eds i <= limit -> build p i <> BPanic -> (forall pl, build p i <> BOk pl) ->
    handle p bs = (OStatus SInternal, mkghost 1 1 (response_size p eds i) (response_size p eds i)).
  Proof.
    intros (Hl & Hd & Hv & Hs & Hb) Hlim Hnp Hno.
    unfold Server.handle, Server.handle_body. rewrite (read_id_some _ _ _ Hl Hd), Hv. cbn [negb]. rewrite Hs.
    unfold deferred. replace (limit <? response_size p eds i) with false by (symmetry; apply Z.ltb_ge; lia).
    rewrite (in_bounds_bounds_ok _ _ _ Hv Hb). destruct (build p i) as [pl| |]; [destruct (Hno pl eq_refl)|reflexivity|contradiction].
  Qed.

  Theorem panic_contained p bs i eds :
    wf_request p bs i eds -> response_size p eds i <= limit -> build p i = BPanic ->
    handle p bs = (OReset, mkghost 1 1 (response_size p eds i) (response_size p eds i)).
  Proof.
    intros (Hl & Hd & Hv & Hs & Hb) Hlim Hbd.
    unfold Server.handle, Server.handle_body. rewrite (read_id_some _ _ _ Hl Hd), Hv. cbn [negb]. rewrite Hs.
    unfold deferred. replace (limit <? response_size p eds i) with false by (symmetry; apply Z.ltb_ge; lia).
    rewrite (in_bounds_bounds_ok _ _ _ Hv Hb), Hbd. reflexivity.
  Qed.

  (** ** balanced: from any ghost state the handler's body adds matched pairs only — on every path, a panic included *)
  Theorem handle_body_balanced p bs g0 : bal_from g0 (snd (handle_body p bs g0)).
  Proof.
    unfold Server.handle_body.
    destruct (read_id p bs) as [i|]; [|apply bal_from_refl].
    destruct (negb (validate (pkind p) i)); [apply bal_from_refl|].
    destruct (store (h i)) as [| |sz]; try apply bal_from_refl.
    apply (deferred_balanced open_acc close_acc); [apply paired_open_close|]. intros g.
    destruct sz as [eds|]; [|apply bal_from_refl].
    destruct (limit <? response_size p eds i); [apply bal_from_refl|].
    apply (deferred_balanced (reserve _) (release _)); [apply paired_reserve_release|]. intros g1.
    destruct (bounds_ok p eds i); [|apply bal_from_refl].
    destruct (build p i); apply bal_from_refl.
  Qed.

  Theorem handle_balanced p bs : balanced (snd (handle p bs)).
  Proof.
    pose proof (handle_body_balanced p bs ghost0) as H. unfold Server.handle.
    destruct (handle_body p bs ghost0) as [r g]. cbn in *. apply bal_from_ghost0, H.
  Qed.

  (** at most one accessor per request, memory only while it is open, and never a negative amount when the stored widths are
      not negative *)
  Theorem handle_at_most_one p bs :
    (g_opened (snd (handle p bs)) <= 1)%nat /\ (g_reserved (snd (handle p bs)) <> 0 -> g_opened (snd (handle p bs)) = 1%nat).
  Proof.
    unfold Server.handle, Server.handle_body, deferred.
    destruct (read_id p bs) as [i|]; [|cbn; split; [lia|congruence]].
    destruct (negb (validate (pkind p) i)); [cbn; split; [lia|congruence]|].
    destruct (store (h i)) as [| |[eds|]]; try (cbn; split; [lia|congruence]).
    destruct (limit <? response_size p eds i); [cbn; split; [lia|congruence]|].
    destruct (bounds_ok p eds i); [destruct (build p i)|]; cbn; split; auto.
  Qed.

  (** the handler is a total function of the request bytes into the four outcomes of its type: no byte string leaves it
      without an outcome, and a panic of the accessor is not one of them *)
  Theorem handle_outcomes p bs :
    (exists g, handle p bs = (OReset, g)) \/ (exists g, handle p bs = (OResetLimit, g)) \/
    (exists s g, handle p bs = (OStatus s, g)) \/ (exists pl g i eds, handle p bs = (OPayload pl, g) /\ wf_request p bs i eds).
  Proof.
    destruct (handle p bs) as [[| |s|pl] g] eqn:E; eauto 6.
    right; right; right. destruct (served_only_wf _ _ _ _ E) as (i & eds & Hw & _). eauto 8.
  Qed.

  (** ** the client *)
  Variable accepts : proto -> id -> P -> bool.

  Theorem client_value_only_served p i o pl :
    client_of accepts p i o = CValue pl -> o = OPayload pl /\ accepts p i pl = true.
  Proof.
    destruct o as [| |[|]|pl']; cbn; try discriminate. destruct (accepts p i pl') eqn:E; [|discriminate].
    intros H; inversion H; subst; auto.
  Qed.

  Theorem client_notfound p i o : client_of accepts p i o = CNotFound <-> o = OStatus SNotFound.
  Proof.
    destruct o as [| |[|]|pl']; cbn; split; intros H; try discriminate; try reflexivity.
    destruct (accepts p i pl'); discriminate.
  Qed.
End Proofs.

(** * The size of the reservation is computed from attacker-controlled fields *)

Theorem size_nonneg p eds i : validate (pkind p) i = true -> 0 <= eds -> 0 <= response_size p eds i.
Proof.
  intros Hv He. assert (0 <= eds / 2) by (apply Z.div_pos; lia).
  destruct p; unfold response_size, share_size, axis_root_size; try nia.
  - pose proof (Z.log2_nonneg eds). lia.
  - unfold validate, pkind in Hv. btrue. replace (0 <? b i) with true by (symmetry; apply Z.ltb_lt; lia). lia.
Qed.

Lemma dec_range_fields bs i :
  bytes_ok bs = true -> dec KRange bs = Some i -> 0 <= a i < 4294967296 /\ 0 <= b i < 4294967296.
Proof.
  intros Hok. unfold dec. destruct (Nat.eqb (length bs) (size KRange)) eqn:El; cbn [negb]; [|discriminate].
  apply Nat.eqb_eq in El. cbn in El.
  destruct (unbe (slice bs 0 8) =? 0); [discriminate|].
  destruct (validate KRange _); [|discriminate]. intros H; inversion H; subst; clear H. cbn [a b].
  pose proof (unbe_range (slice bs 8 4) (slice_ok bs 8 4 Hok)) as H1.
  pose proof (unbe_range (slice bs 12 4) (slice_ok bs 12 4 Hok)) as H2.
  rewrite slice_length in H1 by lia. rewrite slice_length in H2 by lia. rewrite pow32 in *. lia.
Qed.

(** for every byte string the handler reads and every stored width up to the protocol maximum, the amount it asks the resource
    manager for lies in [0, 2^41) *)
Theorem size_bounded p bs i eds :
  bytes_ok bs = true -> read_id p bs = Some i -> 0 <= eds <= 2 * max_ods ->
  0 <= response_size p eds i < 2 ^ 41.
Proof.
  intros Hok Hr He. unfold max_ods in He.
  unfold read_id in Hr. destruct (length bs <? size (pkind p))%nat; [discriminate|].
  assert (Hok' : bytes_ok (firstn (size (pkind p)) bs) = true) by (apply bytes_ok_firstn, Hok).
  pose proof (dec_validates _ _ _ Hok' Hr) as Hv.
  split; [apply size_nonneg; [exact Hv|lia]|].
  assert (0 <= eds / 2 <= 512) by (split; [apply Z.div_pos; lia|apply Z.div_le_upper_bound; lia]).
  change (2 ^ 41) with 2199023255552.
  destruct p; unfold response_size, share_size, axis_root_size; try nia.
  - assert (Z.log2 eds <= Z.log2 1024) by (apply Z.log2_le_mono; lia). change (Z.log2 1024) with 10 in *. lia.
  - cbn [pkind] in *. destruct (dec_range_fields _ _ Hok' Hr) as [Ha Hb].
    unfold validate in Hv. btrue. replace (0 <? b i) with true by (symmetry; apply Z.ltb_lt; lia). lia.
Qed.

(** and what is reserved for a request that is then served never exceeds the stored data square (512 bytes per ODS share) plus,
    for a sample, its proof *)
Theorem served_reservation_bounded p eds i :
  validate (pkind p) i = true -> in_bounds p eds i -> 2 <= eds ->
  0 < response_size p eds i <= (eds / 2) * (eds / 2) * share_size + axis_root_size * Z.log2 eds.
Proof.
  intros Hv Hb He. assert (1 <= eds / 2) by (apply Z.div_le_lower_bound; lia).
  pose proof (Z.log2_nonneg eds). unfold share_size, axis_root_size.
  destruct p; unfold response_size, share_size, axis_root_size, in_bounds in *; try nia.
  unfold validate, pkind in Hv. btrue. replace (0 <? b i) with true by (symmetry; apply Z.ltb_lt; lia). nia.
Qed.

(** * The requests a client builds are well formed *)

(** the square size a client passes to the constructor: the EDS width, except for ranges (ODS width) *)
Definition client_sz (p : proto) (eds : Z) : Z := match p with PRange => eds / 2 | _ => eds end.

Lemma validate_canon k i : validate k (canon k i) = validate k i.
Proof. destruct k; reflexivity. Qed.

Lemma verify_validate k sz i : verify k sz i = true -> validate k i = true.
Proof.
  destruct k; unfold verify; intros H; try exact H; btrue; try assumption.
  all: unfold validate in *; btrue; repeat (apply andb_true_iff; split); auto;
       try (apply Z.leb_le; lia); try (apply Z.ltb_lt; lia); try (apply negb_true_iff; apply Z.eqb_neq; lia).
Qed.

Lemma enc_length k sz i j : height_ok i -> size_ok k sz -> new k sz i = Some j -> length (enc k j) = size k.
Proof.
  intros Hh Hs Hn. pose proof (id_roundtrip k sz i j Hh Hs Hn) as Hd.
  destruct (Nat.eq_dec (length (enc k j)) (size k)) as [E|E]; [exact E|].
  rewrite (dec_wrong_length k _ E) in Hd. discriminate.
Qed.

Section Client.
  Context {P : Type}.
  Variable store : Z -> lookup.
  Variable limit : Z.
  Variable build : proto -> id -> built P.
  Variable accepts : proto -> id -> P -> bool.

  Theorem client_request_wf p eds i j junk :
    height_ok i -> size_ok (pkind p) (client_sz p eds) -> new (pkind p) (client_sz p eds) i = Some j ->
    store (h j) = LAcc (Some eds) ->
    wf_request store p (enc (pkind p) j ++ junk) j eds.
  Proof.
    intros Hh Hs Hn Hst.
    pose proof (enc_length _ _ _ _ Hh Hs Hn) as Hl.
    pose proof (id_roundtrip _ _ _ _ Hh Hs Hn) as Hd.
    unfold new in Hn. destruct (verify (pkind p) (client_sz p eds) i && fits_encoding (pkind p) i) eqn:Hv; [|discriminate].
    apply andb_true_iff in Hv as [Hv _]. inversion Hn; subst j; clear Hn.
    unfold wf_request. rewrite app_length, (firstn_app_exact _ junk _ Hl).
    repeat split; [lia|exact Hd|rewrite validate_canon; eapply verify_validate; exact Hv|exact Hst|].
    apply verify_in_square in Hv. destruct p; unfold in_square, in_bounds, client_sz, pkind, canon in *; cbn [a b]; try tauto; lia.
  Qed.

  (** end to end: the request the client's constructor accepts for the stored square, sent as the client encodes it, is answered
      with the accessor's container for exactly that identifier, which the client returns when its verification accepts it *)
  Theorem serve_client p eds i j pl :
    height_ok i -> size_ok (pkind p) (client_sz p eds) -> new (pkind p) (client_sz p eds) i = Some j ->
    store (h j) = LAcc (Some eds) -> response_size p eds j <= limit -> build p j = BOk pl -> accepts p j pl = true ->
    client_of accepts p j (fst (handle store limit build p (enc (pkind p) j))) = CValue pl.
  Proof.
    intros Hh Hs Hn Hst Hlim Hb Ha.
    pose proof (client_request_wf p eds i j [] Hh Hs Hn Hst) as Hw. rewrite app_nil_r in Hw.
    rewrite (serve_complete store limit build _ _ _ _ _ Hw Hlim Hb). cbn. rewrite Ha. reflexivity.
  Qed.
End Client.

(** * Non-vacuity: a concrete store (height 30, EDS width 8; height 31 unreadable; height 78 reported absent with a wrapped
    error, every other height with the bare sentinel) and concrete requests *)
Definition ex_store (hh : Z) : lookup := if hh =? 30 then LAcc (Some 8) else if hh =? 31 then LAcc None else LNotFound (hh =? 78).
Definition ex_build (p : proto) (i : id) : built Z :=
  match p with PNd => BPanic | PRow => if a i =? 7 then BErr else BOk (a i) | _ => BOk (a i * 1000 + b i) end.
Definition ex_sample_req : list Z := be 8 30 ++ be 2 3 ++ be 2 5.
Definition ex_ns : list Z := 0 :: repeat 0 18 ++ [1;2;3;4;5;6;7;8;9;10].

Example server_nonvacuous :
  wf_request ex_store PSample ex_sample_req (mkid 30 3 5 []) 8 /\
  handle ex_store 1000 ex_build PSample ex_sample_req = (OPayload 3005, mkghost 1 1 782 782) /\
  (* the same with trailing bytes; one byte short *)
  handle ex_store 1000 ex_build PSample (ex_sample_req ++ [9; 9]) = (OPayload 3005, mkghost 1 1 782 782) /\
  handle ex_store 1000 ex_build PSample (firstn 11 ex_sample_req) = (OReset, ghost0) /\
  (* budget too small; column one beyond the square; height zero; unknown height; unreadable block *)
  handle ex_store 781 ex_build PSample ex_sample_req = (OResetLimit, mkghost 1 1 0 0) /\
  handle ex_store 1000 ex_build PSample (be 8 30 ++ be 2 3 ++ be 2 8) = (OStatus SInternal, mkghost 1 1 782 782) /\
  handle ex_store 1000 ex_build PSample (be 8 0 ++ be 2 3 ++ be 2 5) = (OReset, ghost0) /\
  handle ex_store 1000 ex_build PSample (be 8 77 ++ be 2 3 ++ be 2 5) = (OStatus SNotFound, ghost0) /\
  handle ex_store 1000 ex_build PSample (be 8 78 ++ be 2 3 ++ be 2 5) = (OStatus SNotFound, ghost0) /\
  handle ex_store 1000 ex_build PSample (be 8 31 ++ be 2 3 ++ be 2 5) = (OStatus SInternal, mkghost 1 1 0 0) /\
  (* a range of the whole ODS is served; one share beyond is refused; [0, 2^32-1) asks for 2 TiB and is reset; from >= to *)
  handle ex_store (2 ^ 30) ex_build PRange (be 8 30 ++ be 4 0 ++ be 4 16) = (OPayload 16, mkghost 1 1 8192 8192) /\
  handle ex_store (2 ^ 30) ex_build PRange (be 8 30 ++ be 4 0 ++ be 4 17) = (OStatus SInternal, mkghost 1 1 8704 8704) /\
  handle ex_store (2 ^ 30) ex_build PRange (be 8 30 ++ be 4 0 ++ be 4 4294967295) = (OResetLimit, mkghost 1 1 0 0) /\
  handle ex_store (2 ^ 30) ex_build PRange (be 8 30 ++ be 4 5 ++ be 4 5) = (OReset, ghost0) /\
  (* the accessor fails / panics: error status / recovered reset, accessor closed and memory released *)
  handle ex_store (2 ^ 30) ex_build PRow (be 8 30 ++ be 2 7) = (OStatus SInternal, mkghost 1 1 2048 2048) /\
  handle ex_store (2 ^ 30) ex_build PNd (be 8 30 ++ ex_ns) = (OReset, mkghost 1 1 8192 8192) /\
  (* the parity namespace is not a request *)
  handle ex_store (2 ^ 30) ex_build PNd (be 8 30 ++ parity_ns) = (OReset, ghost0) /\
  (* the client's constructor, for the stored square *)
  new KSample 8 (mkid 30 3 5 []) = Some (mkid 30 3 5 []) /\ enc KSample (mkid 30 3 5 []) = ex_sample_req.
Proof.
  split; [unfold wf_request; repeat split; cbn; lia|].
  repeat split; vm_compute; reflexivity.
Qed.

(** Model of the shwap identifiers (share/shwap/*_id.go) — constructors, Validate, Verify, binary
    encoders *with the truncation the Go code performs* ([uint16(x)], [uint32(x)]) and decoders.

    Executable; no proofs here (proofs: IdsProofs.v). The harness harness/share/shwap/zz_verif_c18_test.go runs the
    real constructors / MarshalBinary / XxxFromBinary / ReadFrom on the same inputs and [mismatches] diffs. *)
From Coq Require Import List ZArith Lia Bool.
From CN Require Import Base.Bytes.
Import ListNotations.
Open Scope Z_scope.

(** * Namespaces (go-square/share/namespace.go): 29 bytes = version ++ 28-byte id *)
Definition ns_size : nat := 29.
Definition parity_ns : list Z := repeat 255 29.
Definition tailpad_ns : list Z := repeat 255 28 ++ [254].

Definition all_zero (bs : list Z) : bool := forallb (Z.eqb 0) bs.

(** [Namespace.validate]: supported version (0 or 255); version 0 needs 18 leading zero id bytes *)
Definition ns_valid (n : list Z) : bool :=
  Nat.eqb (length n) ns_size && bytes_ok n &&
  (((hd 0 n =? 0) && all_zero (firstn 18 (tl n))) || (hd 0 n =? 255)).

(** [ValidateForData]: validate, and neither the parity nor the tail-padding namespace *)
Definition ns_valid_for_data (n : list Z) : bool :=
  ns_valid n && negb (list_eqb n parity_ns) && negb (list_eqb n tailpad_ns).

(** * Identifiers, uniformly: height, two integer fields, a namespace *)
Inductive kind := KEds | KRow | KSample | KNd | KRnd | KRange | KRangeV0.

Record id := mkid { h : Z; a : Z; b : Z; nsb : list Z }.
(** KRow: a = RowIndex.  KSample: a = RowIndex, b = ShareIndex.  KNd: nsb.  KRnd: a = RowIndex, nsb.
    KRange/KRangeV0: a = From, b = To.  Unused fields are 0 / []. *)

Definition canon (k : kind) (i : id) : id :=
  match k with
  | KEds => mkid (h i) 0 0 []
  | KRow => mkid (h i) (a i) 0 []
  | KSample => mkid (h i) (a i) (b i) []
  | KNd => mkid (h i) 0 0 (nsb i)
  | KRnd => mkid (h i) (a i) 0 (nsb i)
  | KRange | KRangeV0 => mkid (h i) (a i) (b i) []
  end.

Definition id_eqb (x y : id) : bool :=
  (h x =? h y) && (a x =? a y) && (b x =? b y) && list_eqb (nsb x) (nsb y).

(** field widths in bytes: the [AppendUintNN] calls of the encoders *)
Definition w_height : nat := 8.
Definition w_idx : nat := 2.      (* RowIndex, ShareIndex: AppendUint16(uint16(..)) *)
Definition w_range : nat := 4.    (* RangeNamespaceDataID From/To: AppendUint32 *)
Definition w_range_v0 : nat := 2. (* RangeNamespaceDataIDV0 From/To: AppendUint16 *)

Definition size (k : kind) : nat :=
  match k with
  | KEds => 8 | KRow => 10 | KSample => 12 | KNd => 37 | KRnd => 39 | KRange => 16 | KRangeV0 => 12
  end%nat.

(** ** Validate *)
Definition validate (k : kind) (i : id) : bool :=
  match k with
  | KEds => negb (h i =? 0)
  | KRow => (0 <=? a i) && negb (h i =? 0)
  | KSample => (0 <=? b i) && ((0 <=? a i) && negb (h i =? 0))
  | KNd => negb (h i =? 0) && ns_valid_for_data (nsb i)
  | KRnd => ((0 <=? a i) && negb (h i =? 0)) && ns_valid_for_data (nsb i)
  | KRange | KRangeV0 => negb (h i =? 0) && (0 <=? a i) && (0 <? b i) && (a i <? b i)
  end.

(** ** Verify against a square.  [sz] is the EDS width for Row/Sample/Rnd and the **ODS** width for ranges
    (the argument the Go constructors take).  EdsID and NamespaceDataID have no size-dependent check. *)
Definition verify (k : kind) (sz : Z) (i : id) : bool :=
  match k with
  | KEds | KNd => validate k i
  | KRow => negb (sz =? 0) && (a i <? sz) && validate KRow i
  | KSample => (negb (sz =? 0) && (a i <? sz) && validate KRow i) && (b i <? sz) && validate KSample i
  | KRnd => (negb (sz =? 0) && (a i <? sz) && validate KRow i) && validate KRnd i
  | KRange | KRangeV0 => validate KRange i && (a i <? sz * sz) && (b i <=? sz * sz)
  end.

(** ** Encoders ([AppendBinary] / [appendTo]) *)
Definition enc (k : kind) (i : id) : list Z :=
  match k with
  | KEds => be w_height (h i)
  | KRow => be w_height (h i) ++ be w_idx (a i)
  | KSample => be w_height (h i) ++ be w_idx (a i) ++ be w_idx (b i)
  | KNd => be w_height (h i) ++ nsb i
  | KRnd => be w_height (h i) ++ be w_idx (a i) ++ nsb i
  | KRange => be w_height (h i) ++ be w_range (a i) ++ be w_range (b i)
  | KRangeV0 => be w_height (h i) ++ be w_range_v0 (a i) ++ be w_range_v0 (b i)
  end.

(** ** Constructors: [NewXxxID(.., size)] = build, Verify, return.  Result: the encoding the value marshals to. *)
Definition fits_encoding (k : kind) (i : id) : bool :=
  match k with
  | KRangeV0 => b i <=? 65535   (* NewRangeNamespaceDataIDV0: "does not fit the 16-bit indices of the V0 encoding" *)
  | _ => true
  end.

Definition new (k : kind) (sz : Z) (i : id) : option id :=
  if verify k sz i && fits_encoding k i then Some (canon k i) else None.

(** ** Decoders ([XxxFromBinary]): length, EdsID (height <> 0), fields, then [Validate]. *)
Definition slice (bs : list Z) (from len : nat) : list Z := firstn len (skipn from bs).

Definition dec (k : kind) (bs : list Z) : option id :=
  if negb (Nat.eqb (length bs) (size k)) then None else
  let hh := unbe (slice bs 0 8) in
  if hh =? 0 then None else
  match k with
  | KEds => Some (mkid hh 0 0 [])
  | KRow => Some (mkid hh (unbe (slice bs 8 2)) 0 [])
  | KSample => Some (mkid hh (unbe (slice bs 8 2)) (unbe (slice bs 10 2)) [])
  | KNd => let n := slice bs 8 29 in
           if ns_valid n && ns_valid_for_data n then Some (mkid hh 0 0 n) else None
  | KRnd => let n := slice bs 10 29 in
            let i := mkid hh (unbe (slice bs 8 2)) 0 n in
            if ns_valid n && validate KRnd i then Some i else None
  | KRange => let i := mkid hh (unbe (slice bs 8 4)) (unbe (slice bs 12 4)) [] in
              if validate KRange i then Some i else None
  | KRangeV0 => let i := mkid hh (unbe (slice bs 8 2)) (unbe (slice bs 10 2)) [] in
                if validate KRange i then Some i else None
  end.

(** * Correspondence cases *)
Inductive obs :=
| ONone                       (* the implementation returned an error *)
| OPanic                      (* the implementation panicked *)
| OId (i : id) (e : list Z).  (* value (fields as the implementation reports them) and its MarshalBinary *)

Inductive op :=
| New (k : kind) (sz : Z) (i : id)      (* constructor with these arguments; observed: value + encoding *)
| Dec (k : kind) (bs : list Z)          (* XxxFromBinary(bs);               observed: value + re-encoding *)
| Const (name : nat) (v : Z).           (* a constant of the implementation; model must have the same value *)

Definition case : Type := op * obs.

Definition model_const (name : nat) : Z :=
  match name with
  | 0 => Z.of_nat (size KEds) | 1 => Z.of_nat (size KRow) | 2 => Z.of_nat (size KSample)
  | 3 => Z.of_nat (size KNd) | 4 => Z.of_nat (size KRnd) | 5 => Z.of_nat (size KRange)
  | 6 => Z.of_nat (size KRangeV0) | 7 => Z.of_nat ns_size
  | 8 => 512%Z (* share.MaxSquareSize = appconsts.SquareSizeUpperBound *)
  | _ => (-1)%Z
  end%nat.
Definition max_ods : Z := 512.

Definition obs_eqb (x y : obs) : bool :=
  match x, y with
  | ONone, ONone => true
  | OPanic, OPanic => true
  | OId i e, OId j f => id_eqb i j && list_eqb e f
  | _, _ => false
  end.

Definition model (o : op) : obs :=
  match o with
  | New k sz i => match new k sz i with Some j => OId j (enc k j) | None => ONone end
  | Dec k bs => match dec k bs with Some j => OId j (enc k j) | None => ONone end
  | Const n v => if model_const n =? v then ONone else OPanic
  end.

Definition agree (c : case) : bool :=
  match c with
  | (Const _ _ as o, _) => obs_eqb (model o) ONone
  | (o, r) => obs_eqb (model o) r
  end.

Fixpoint mism_from (n : N) (cs : list case) : list N :=
  match cs with
  | [] => []
  | c :: cs' => if agree c then mism_from (N.succ n) cs' else n :: mism_from (N.succ n) cs'
  end.
Definition mismatches (cs : list case) : list N := mism_from 0%N cs.

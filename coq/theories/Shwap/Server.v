(** C09 — the shrex server's request handler (share/shwap/p2p/shrex/server.go handleDataRequest + streamHandler,
    share/shwap/*_id.go ReadFrom / Validate / ResponseSize / ResponseReader, share/eds/validation.go) and the client's
    reading of the answer (client.go doRequest).

    The handler: read the identifier, validate, open the accessor by height, take its size, reserve memory for the declared
    response size, build the response, write the status, stream the payload — with ghost counters for opened/closed accessors
    and reserved/released memory.  The store, the resource manager's decision and the inner accessor (what the square
    answers for an in-bounds identifier) are parameters.  Executable; no proofs here (ServerProofs.v). *)
From Coq Require Import List ZArith Lia Bool.
From CN Require Import Base.Bytes Shwap.Ids.
Import ListNotations.
Open Scope Z_scope.

(** the five shrex protocols (request.go registry) *)
Inductive proto := PEds | PRow | PSample | PNd | PRange.
Definition pkind (p : proto) : kind :=
  match p with PEds => KEds | PRow => KRow | PSample => KSample | PNd => KNd | PRange => KRange end.

Definition share_size : Z := 512.
Definition axis_root_size : Z := 90.

(** ResponseSize(edsSize) of every identifier type *)
Definition response_size (p : proto) (eds : Z) (i : id) : Z :=
  match p with
  | PEds | PNd => (eds / 2) * (eds / 2) * share_size
  | PRow => eds / 2 * share_size
  | PSample => share_size + axis_root_size * Z.log2 eds     (* int(math.Log2(float64(edsSize))) *)
  | PRange => if 0 <? b i then (b i - a i) * share_size else (eds / 2) * (eds / 2) * share_size
  end.

(** the bounds checks of the validating accessor wrapper (eds/validation.go) for the accessor calls a ResponseReader makes;
    they run with a dummy height 1 *)
Definition with_h1 (i : id) : id := mkid 1 (a i) (b i) (nsb i).
Definition bounds_ok (p : proto) (eds : Z) (i : id) : bool :=
  match p with
  | PEds | PNd => true
  | PRow => verify KRow eds (with_h1 i)
  | PSample => verify KSample eds (with_h1 i)
  | PRange => (0 <=? a i) && (a i <? b i) && (a i <? (eds / 2) * (eds / 2)) && (b i <=? (eds / 2) * (eds / 2))
  end.

Inductive status := SNotFound | SInternal.
Inductive outcome (P : Type) :=
| OReset                 (* stream reset: the request could not be read or is invalid *)
| OResetLimit            (* reset with StreamResourceLimitExceeded: the memory reservation was refused *)
| OStatus (s : status)   (* an error status, stream closed *)
| OPayload (p : P).      (* status OK followed by the payload *)
Arguments OReset {P}. Arguments OResetLimit {P}. Arguments OStatus {P}. Arguments OPayload {P}.

Record ghost := mkghost { g_opened : nat; g_closed : nat; g_reserved : Z; g_released : Z }.
Definition ghost0 : ghost := mkghost 0 0 0 0.

Section Server.
  Context {P : Type}.
  (** what the store says for a height: no such block / another error / an accessor, whose Size() fails or yields the EDS width *)
  Inductive lookup := LNotFound | LError | LAcc (size : option Z).
  Variable store : Z -> lookup.
  Variable limit : Z.                               (* ReserveMemory(n) succeeds iff n <= limit (the resource manager's budget) *)
  Variable build : proto -> id -> option P.         (* the inner accessor's answer for an in-bounds identifier; None = it fails *)

  Definition read_id (p : proto) (bs : list Z) : option id :=
    if (length bs <? size (pkind p))%nat then None              (* io.ReadFull: EOF / unexpected EOF *)
    else dec (pkind p) (firstn (size (pkind p)) bs).            (* bytes after the identifier are never read *)

  Definition handle (p : proto) (bs : list Z) : outcome P * ghost :=
    match read_id p bs with
    | None => (OReset, ghost0)                                   (* statusReadReqErr *)
    | Some i =>
      if negb (validate (pkind p) i) then (OReset, ghost0) else  (* statusBadRequest *)
      match store (h i) with
      | LNotFound => (OStatus SNotFound, ghost0)
      | LError => (OStatus SInternal, ghost0)
      | LAcc None => (OStatus SInternal, mkghost 1 1 0 0)        (* Size() failed; deferred Close *)
      | LAcc (Some eds) =>
        let n := response_size p eds i in
        if limit <? n then (OResetLimit, mkghost 1 1 0 0) else
        if bounds_ok p eds i then
          match build p i with
          | Some pl => (OPayload pl, mkghost 1 1 n n)
          | None => (OStatus SInternal, mkghost 1 1 n n)
          end
        else (OStatus SInternal, mkghost 1 1 n n)
      end
    end.

  (** * the client (doRequest + the caller's verification) *)
  Inductive cres := CValue (p : P) | CNotFound | CInternal | CExhausted | CStreamErr | CInvalid.
  Variable accepts : proto -> id -> P -> bool.     (* the payload decodes and the container verifies for the request *)

  Definition client_of (p : proto) (i : id) (o : outcome P) : cres :=
    match o with
    | OReset => CStreamErr
    | OResetLimit => CExhausted
    | OStatus SNotFound => CNotFound
    | OStatus SInternal => CInternal
    | OPayload pl => if accepts p i pl then CValue pl else CInvalid
    end.
End Server.

(** * correspondence cases *)
Inductive sobs := SReset | SResetLimit | SNF | SINT | SOK.
Definition sobs_eqb (x y : sobs) : bool :=
  match x, y with SReset, SReset | SResetLimit, SResetLimit | SNF, SNF | SINT, SINT | SOK, SOK => true | _, _ => false end.

Inductive scase :=
| SHandle (p : proto) (bs : list Z)
          (heights : list (Z * Z))      (* stored heights and their EDS widths *)
          (limit : Z) (build_ok : bool)
          (obs : sobs) (opened closed : nat) (reserved released : Z)
| SSize (p : proto) (eds : Z) (i : id) (out : Z).        (* ResponseSize *)

Fixpoint assoc (k : Z) (l : list (Z * Z)) : option Z :=
  match l with [] => None | (x, v) :: l' => if x =? k then Some v else assoc k l' end.

Definition model_case (c : scase) : bool :=
  match c with
  | SHandle p bs heights lim bok obs op cl rs rl =>
    let st := fun hh => match assoc hh heights with Some e => LAcc (Some e) | None => LNotFound end in
    let '(o, g) := handle (P := unit) st lim (fun _ _ => if bok then Some tt else None) p bs in
    sobs_eqb (match o with OReset => SReset | OResetLimit => SResetLimit | OStatus SNotFound => SNF
                         | OStatus SInternal => SINT | OPayload _ => SOK end) obs &&
    Nat.eqb (g_opened g) op && Nat.eqb (g_closed g) cl && (g_reserved g =? rs) && (g_released g =? rl)
  | SSize p eds i out => response_size p eds i =? out
  end.

Fixpoint smism_from (n : N) (cs : list scase) : list N :=
  match cs with
  | [] => []
  | c :: cs' => if model_case c then smism_from (N.succ n) cs' else n :: smism_from (N.succ n) cs'
  end.
Definition server_mismatches (cs : list scase) : list N := smism_from 0%N cs.

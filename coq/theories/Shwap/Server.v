(** C09 — the shrex server's request handler (share/shwap/p2p/shrex/server.go handleDataRequest + streamHandler,
    share/shwap/*_id.go ReadFrom / Validate / ResponseSize / ResponseReader, share/eds/validation.go) and the client's
    reading of the answer (client.go doRequest).

    The handler: read the identifier, validate, open the accessor by height (deferring its Close), take its size, reserve
    memory for the declared response size (deferring the release), build the response, write the status, stream the payload —
    with ghost counters for opened/closed accessors and reserved/released memory, and the recovery middleware around it.
    The store, the resource manager's decision and the inner accessor (what the square answers for an in-bounds identifier:
    a container, an error or a panic) are parameters.  Executable; no proofs here (ServerProofs.v). *)
From Coq Require Import List ZArith Lia Bool.
From CN Require Import Base.Bytes Shwap.Ids.
Import ListNotations.
Open Scope Z_scope.

(** the five shrex protocols (request.go registry) *)
Inductive proto := PEds | PRow | PSample | PNd | PRange.
Definition pkind (p : proto) : kind :=
  match p with PEds => KEds | PRow => KRow | PSample => KSample | PNd => KNd | PRange => KRange end.

Definition share_size : Z := 512.
Definition axis_root_size : Z := 90.

(** ResponseSize(edsSize) of every identifier type *)
Definition response_size (p : proto) (eds : Z) (i : id) : Z :=
  match p with
  | PEds | PNd => (eds / 2) * (eds / 2) * share_size
  | PRow => eds / 2 * share_size
  | PSample => share_size + axis_root_size * Z.log2 eds     (* int(math.Log2(float64(edsSize))) *)
  | PRange => if 0 <? b i then (b i - a i) * share_size else (eds / 2) * (eds / 2) * share_size
  end.

(** the bounds checks of the validating accessor wrapper (eds/validation.go) for the accessor calls a ResponseReader makes;
    they run with a dummy height 1 *)
Definition with_h1 (i : id) : id := mkid 1 (a i) (b i) (nsb i).
Definition bounds_ok (p : proto) (eds : Z) (i : id) : bool :=
  match p with
  | PEds | PNd => true
  | PRow => verify KRow eds (with_h1 i)
  | PSample => verify KSample eds (with_h1 i)
  | PRange => (0 <=? a i) && (a i <? b i) && (a i <? (eds / 2) * (eds / 2)) && (b i <=? (eds / 2) * (eds / 2))
  end.

Inductive status := SNotFound | SInternal.
Inductive outcome (P : Type) :=
| OReset                 (* stream reset: the request could not be read or is invalid, or a panic was recovered *)
| OResetLimit            (* reset with StreamResourceLimitExceeded: the memory reservation was refused *)
| OStatus (s : status)   (* an error status, stream closed *)
| OPayload (p : P).      (* status OK followed by the payload *)
Arguments OReset {P}. Arguments OResetLimit {P}. Arguments OStatus {P}. Arguments OPayload {P}.

(** what the handler's body yields before the recovery middleware: the same, or a panic unwinding through the deferred calls *)
Inductive res (P : Type) := RDone (o : outcome P) | RPanic.
Arguments RDone {P}. Arguments RPanic {P}.
(** recovery.go: a recovered panic resets the stream *)
Definition recover {P} (r : res P) : outcome P := match r with RDone o => o | RPanic => OReset end.

(** what the inner accessor does with an in-bounds identifier: a container, an error, or a panic *)
Inductive built (P : Type) := BOk (pl : P) | BErr | BPanic.
Arguments BOk {P}. Arguments BErr {P}. Arguments BPanic {P}.

Record ghost := mkghost { g_opened : nat; g_closed : nat; g_reserved : Z; g_released : Z }.
Definition ghost0 : ghost := mkghost 0 0 0 0.
Definition open_acc (g : ghost) : ghost := mkghost (S (g_opened g)) (g_closed g) (g_reserved g) (g_released g).
Definition close_acc (g : ghost) : ghost := mkghost (g_opened g) (S (g_closed g)) (g_reserved g) (g_released g).
Definition reserve (n : Z) (g : ghost) : ghost := mkghost (g_opened g) (g_closed g) (g_reserved g + n) (g_released g).
Definition release (n : Z) (g : ghost) : ghost := mkghost (g_opened g) (g_closed g) (g_reserved g) (g_released g + n).

(** Go's [defer f()] at the point where the resource was acquired: whatever the rest of the function does — return a status,
    return early, panic — [f] runs when it is left *)
Definition deferred {A} (f : ghost -> ghost) (body : ghost -> A * ghost) (g : ghost) : A * ghost :=
  let '(x, g') := body g in (x, f g').

Section Server.
  Context {P : Type}.
  (** what the server's AccessorGetter says for a height: no such block / another error / an accessor, whose Size() fails or
      yields the EDS width.  "No such block" is any error [e] with [errors.Is(e, store.ErrNotFound)]: the bare sentinel
      (a plain store.Store) or one wrapped with context by a getter in front of the store ([wrapped = true]: store.CachedStore's
      "unable to load accessor: %w", any %w decorator) — the handler must not distinguish them *)
  Inductive lookup := LNotFound (wrapped : bool) | LError | LAcc (size : option Z).
  Variable store : Z -> lookup.
  Variable limit : Z.                               (* ReserveMemory(n) succeeds iff n <= limit (the resource manager's budget) *)
  Variable build : proto -> id -> built P.          (* the inner accessor's answer for an in-bounds identifier *)

  Definition read_id (p : proto) (bs : list Z) : option id :=
    if (length bs <? size (pkind p))%nat then None              (* io.ReadFull: EOF / unexpected EOF *)
    else dec (pkind p) (firstn (size (pkind p)) bs).            (* bytes after the identifier are never read *)

  (** handleDataRequest, from the ghost state [g] *)
  Definition handle_body (p : proto) (bs : list Z) (g : ghost) : res P * ghost :=
    match read_id p bs with
    | None => (RDone OReset, g)                                          (* statusReadReqErr *)
    | Some i =>
      if negb (validate (pkind p) i) then (RDone OReset, g) else         (* statusBadRequest *)
      match store (h i) with
      | LNotFound _ => (RDone (OStatus SNotFound), g)                    (* errors.Is(err, store.ErrNotFound) *)
      | LError => (RDone (OStatus SInternal), g)
      | LAcc sz =>                                                       (* GetByHeight succeeded; defer file.Close() *)
        deferred close_acc (fun g =>
          match sz with
          | None => (RDone (OStatus SInternal), g)                       (* Size() failed *)
          | Some eds =>
            let n := response_size p eds i in
            if limit <? n then (RDone OResetLimit, g) else               (* ReserveMemory refused *)
            deferred (release n) (fun g =>                               (* defer ReleaseMemory(n) *)
              if bounds_ok p eds i then
                match build p i with
                | BOk pl => (RDone (OPayload pl), g)
                | BErr => (RDone (OStatus SInternal), g)
                | BPanic => (RPanic, g)
                end
              else (RDone (OStatus SInternal), g)) (reserve n g)
          end) (open_acc g)
      end
    end.

  (** RecoveryMiddleware (streamHandler (handleDataRequest)) on a fresh stream *)
  Definition handle (p : proto) (bs : list Z) : outcome P * ghost :=
    let '(r, g) := handle_body p bs ghost0 in (recover r, g).

  (** * the client (doRequest + the caller's verification) *)
  Inductive cres := CValue (p : P) | CNotFound | CInternal | CExhausted | CStreamErr | CInvalid.
  Variable accepts : proto -> id -> P -> bool.     (* the payload decodes and the container verifies for the request *)

  Definition client_of (p : proto) (i : id) (o : outcome P) : cres :=
    match o with
    | OReset => CStreamErr
    | OResetLimit => CExhausted
    | OStatus SNotFound => CNotFound
    | OStatus SInternal => CInternal
    | OPayload pl => if accepts p i pl then CValue pl else CInvalid
    end.
End Server.

(** * correspondence cases *)
Inductive sobs := SReset | SResetLimit | SNF | SINT | SOK.
Definition sobs_eqb (x y : sobs) : bool :=
  match x, y with SReset, SReset | SResetLimit, SResetLimit | SNF, SNF | SINT, SINT | SOK, SOK => true | _, _ => false end.

(** faults the harness injects behind the real server: none / GetByHeight fails with another error / Size() fails /
    the accessor call of the ResponseReader fails / it panics *)
Inductive fault := FNone | FStore | FSize | FBuildErr | FBuildPanic.
(** the AccessorGetter the real Server was given: the plain store.Store / store.CachedStore (Store.WithCache) / a decorator wrapping errors with %w *)
Inductive getter := GPlain | GCached | GWrapping.
Definition getter_wraps (gt : getter) : bool := match gt with GPlain => false | _ => true end.

Inductive scase :=
| SHandle (p : proto) (bs : list Z)
          (heights : list (Z * Z))      (* stored heights and their EDS widths *)
          (limit : Z) (build_ok : bool) (f : fault) (gt : getter)
          (obs : sobs) (opened closed : nat) (reserved released : Z)
| SSize (p : proto) (eds : Z) (i : id) (out : Z).        (* ResponseSize *)

Fixpoint assoc (k : Z) (l : list (Z * Z)) : option Z :=
  match l with [] => None | (x, v) :: l' => if x =? k then Some v else assoc k l' end.

Definition case_store (heights : list (Z * Z)) (f : fault) (gt : getter) (hh : Z) : lookup :=
  match assoc hh heights with
  | None => LNotFound (getter_wraps gt)
  | Some e => match f with FStore => LError | FSize => LAcc None | _ => LAcc (Some e) end
  end.
Definition case_build (bok : bool) (f : fault) : proto -> id -> built unit :=
  fun _ _ => match f with FBuildErr => BErr | FBuildPanic => BPanic | _ => if bok then BOk tt else BErr end.

Definition model_case (c : scase) : bool :=
  match c with
  | SHandle p bs heights lim bok f gt obs op cl rs rl =>
    let '(o, g) := handle (case_store heights f gt) lim (case_build bok f) p bs in
    sobs_eqb (match o with OReset => SReset | OResetLimit => SResetLimit | OStatus SNotFound => SNF
                         | OStatus SInternal => SINT | OPayload _ => SOK end) obs &&
    Nat.eqb (g_opened g) op && Nat.eqb (g_closed g) cl && (g_reserved g =? rs) && (g_released g =? rl)
  | SSize p eds i out => response_size p eds i =? out
  end.

Fixpoint smism_from (n : N) (cs : list scase) : list N :=
  match cs with
  | [] => []
  | c :: cs' => if model_case c then smism_from (N.succ n) cs' else n :: smism_from (N.succ n) cs'
  end.
Definition server_mismatches (cs : list scase) : list N := smism_from 0%N cs.

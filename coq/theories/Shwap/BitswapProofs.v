(** C10 — proofs about the bitswap acceptance check (Bitswap.v), for every registry, every body, every sequence of
    bodies.  No axioms. *)
From Coq Require Import List ZArith Lia Bool.
From CN Require Import Base.Bytes Shwap.Ids Shwap.IdsProofs Shwap.Cid Shwap.CidProofs Shwap.Bitswap.
Import ListNotations.
Open Scope Z_scope.

Lemma id_eqb_eq x y : id_eqb x y = true -> x = y.
Proof.
  unfold id_eqb. intros H. repeat (apply andb_true_iff in H; destruct H as [H ?]).
  apply Z.eqb_eq in H. repeat match goal with X : (_ =? _) = true |- _ => apply Z.eqb_eq in X end.
  match goal with X : list_eqb _ _ = true |- _ => apply list_eqb_eq in X end.
  destruct x, y; cbn in *; congruence.
Qed.

Lemma id_eqb_refl x : id_eqb x x = true.
Proof.
  unfold id_eqb. rewrite !Z.eqb_refl. cbn. apply list_eqb_eq. reflexivity.
Qed.

Lemma list_eqb_refl k : list_eqb k k = true. Proof. apply list_eqb_eq; reflexivity. Qed.

Lemma list_eqb_neq k k' : k <> k' -> list_eqb k k' = false.
Proof. intros H. destruct (list_eqb k k') eqn:E; [apply list_eqb_eq in E; contradiction|reflexivity]. Qed.

Lemma enc_length t sz i j :
  height_ok i -> size_ok (kind_of t) sz -> new (kind_of t) sz i = Some j -> length (enc (kind_of t) j) = id_size t.
Proof.
  intros Hh Hs Hn. pose proof (id_roundtrip _ _ _ _ Hh Hs Hn) as R.
  destruct (Nat.eq_dec (length (enc (kind_of t) j)) (size (kind_of t))) as [E|E]; [exact E|].
  rewrite (dec_wrong_length _ _ E) in R. discriminate.
Qed.

Section Proofs.
  Context {root cont cbytes : Type}.
  Variable cdecode : bty -> cbytes -> option cont.
  Variable verify : root -> bty -> id -> cont -> bool.
  Notation entry := (entry root cont).
  Notation registry := (registry root cont).
  Notation hw := (hasher_write cdecode verify false).
  Notation ufn := (unmarshal_fn cdecode verify false).

  (** ** the registry as a map *)
  Lemma lookup_update k k' (e : entry) (r : registry) :
    lookup k (update k' e r) =
    if list_eqb k k' then match lookup k' r with Some _ => Some e | None => None end else lookup k r.
  Proof.
    induction r as [|[k0 e0] r IH]; cbn.
    - destruct (list_eqb k k'); reflexivity.
    - destruct (list_eqb k' k0) eqn:E0; cbn.
      + apply list_eqb_eq in E0. subst k0.
        destruct (list_eqb k k') eqn:E; reflexivity.
      + destruct (list_eqb k k0) eqn:E1.
        * destruct (list_eqb k k') eqn:E; [|reflexivity].
          apply list_eqb_eq in E1, E. subst. rewrite list_eqb_refl in E0. discriminate.
        * exact IH.
  Qed.

  (** ** populate *)
  Lemma populate_fields (e : entry) c :
    e_ty (populate e c) = e_ty e /\ e_id (populate e c) = e_id e /\ e_root (populate e c) = e_root e /\
    e_cont (populate e c) = match e_cont e with Some c0 => Some c0 | None => Some c end.
  Proof. unfold populate. destruct (e_cont e) eqn:E; cbn; rewrite ?E; auto. Qed.

  (** ** UnmarshalFn: an entry changes only by receiving a container that carries the requested identifier, decodes and
      verifies against the entry's own roots *)
  Lemma ufn_sound (e e' : entry) container idb :
    ufn e container idb = Some e' ->
    dec (kind_of (e_ty e)) idb = Some (e_id e) /\
    exists c, cdecode (e_ty e) container = Some c /\ verify (e_root e) (e_ty e) (e_id e) c = true /\ e' = populate e c.
  Proof.
    unfold unmarshal_fn. cbn [andb].
    destruct (dec (kind_of (e_ty e)) idb) as [i|] eqn:D; [|discriminate].
    destruct (id_eqb i (e_id e)) eqn:E; cbn [negb]; [|discriminate].
    apply id_eqb_eq in E. subst i.
    destruct (cdecode (e_ty e) container) as [c|] eqn:Cd; [|discriminate].
    destruct (verify (e_root e) (e_ty e) (e_id e) c) eqn:V; [|discriminate].
    intros H; inversion H. split; [reflexivity|]. exists c. auto.
  Qed.

  (** ** accept_sound *)
  Theorem accept_sound (r r' : registry) b d :
    hw r b = (r', WOk d) ->
    exists cidb container t e c,
      b = Some (cidb, container) /\ extract_bytes cidb = Some (t, d) /\ lookup cidb r = Some e /\
      dec (kind_of (e_ty e)) d = Some (e_id e) /\                   (* the identifier in the block is the requested one *)
      cdecode (e_ty e) container = Some c /\
      verify (e_root e) (e_ty e) (e_id e) c = true /\               (* its container verifies against the requester's roots *)
      r' = update cidb (populate e c) r.                            (* and that container (or the earlier verified one) is what the block holds *)
  Proof.
    unfold hasher_write. destruct b as [[cidb container]|]; [|intros H; inversion H].
    destruct (extract_bytes cidb) as [[t idb]|] eqn:X; [|intros H; inversion H].
    destruct (lookup cidb r) as [e|] eqn:L; [|intros H; inversion H].
    destruct (ufn e container idb) as [e'|] eqn:U; intros H; inversion H; subst; clear H.
    apply ufn_sound in U. destruct U as [D [c [Cd [V ->]]]].
    exists cidb, container, t, e, c. repeat split; auto.
  Qed.

  (** ** reject_leaves_pending: any other bytes leave every request as it was *)
  Theorem reject_leaves_pending (r r' : registry) b : hw r b = (r', WErr) -> r' = r.
  Proof.
    unfold hasher_write. destruct b as [[cidb container]|]; [|intros H; inversion H; reflexivity].
    destruct (extract_bytes cidb) as [[t idb]|]; [|intros H; inversion H; reflexivity].
    destruct (lookup cidb r) as [e|]; [|intros H; inversion H; reflexivity].
    destruct (ufn e container idb); intros H; inversion H; reflexivity.
  Qed.

  (** a write touches at most the entry its inner CID names, and never its type, identifier or roots *)
  Theorem write_frame (r r' : registry) b w k e' :
    hw r b = (r', w) -> lookup k r' = Some e' ->
    exists e, lookup k r = Some e /\ e_ty e' = e_ty e /\ e_id e' = e_id e /\ e_root e' = e_root e /\
              (forall c, e_cont e = Some c -> e_cont e' = Some c).   (* a populated block keeps its container *)
  Proof.
    intros H L. destruct w as [d|].
    - apply accept_sound in H. destruct H as [cidb [container [t [e [c [-> [X [L0 [D [Cd [V ->]]]]]]]]]]].
      rewrite lookup_update in L. destruct (list_eqb k cidb) eqn:E.
      + apply list_eqb_eq in E. subst k. rewrite L0 in L. inversion L; subst e'.
        exists e. destruct (populate_fields e c) as [P1 [P2 [P3 P4]]]. repeat split; auto.
        intros c0 Hc. rewrite P4, Hc. reflexivity.
      + exists e'. repeat split; auto.
    - apply reject_leaves_pending in H. subst r'. exists e'. repeat split; auto.
  Qed.

  (** ** every container a block ever holds verifies for the block's identifier against the block's roots *)
  Definition reg_ok (r : registry) : Prop :=
    forall k e c, lookup k r = Some e -> e_cont e = Some c -> verify (e_root e) (e_ty e) (e_id e) c = true.

  Lemma write_ok (r r' : registry) b w : hw r b = (r', w) -> reg_ok r -> reg_ok r'.
  Proof.
    intros H Hok k e' c' L Hc. destruct w as [d|].
    - apply accept_sound in H. destruct H as [cidb [container [t [e [c [-> [X [L0 [D [Cd [V ->]]]]]]]]]]].
      rewrite lookup_update in L. destruct (list_eqb k cidb) eqn:E.
      + apply list_eqb_eq in E. subst k. rewrite L0 in L. inversion L; subst e'.
        destruct (populate_fields e c) as [P1 [P2 [P3 P4]]]. rewrite P1, P2, P3. rewrite P4 in Hc.
        destruct (e_cont e) as [c0|] eqn:Ec.
        * inversion Hc; subst c'. eapply Hok; eassumption.
        * inversion Hc; subst c'. exact V.
      + eapply Hok; eassumption.
    - apply reject_leaves_pending in H. subst r'. eapply Hok; eassumption.
  Qed.

  Theorem writes_preserve_ok : forall bs (r : registry), reg_ok r -> reg_ok (run_writes cdecode verify false r bs).
  Proof.
    induction bs as [|b bs IH]; intros r H; cbn; [exact H|].
    apply IH. destruct (hw r b) as [r1 w] eqn:E. cbn. eapply write_ok; eassumption.
  Qed.

  (** pending requests verify trivially: whatever bodies arrive, in whatever order, for whatever CIDs, a block that is
      filled afterwards holds a verified container *)
  Corollary filled_only_verified : forall bs (r : registry),
    (forall k e, lookup k r = Some e -> e_cont e = None) ->
    reg_ok (run_writes cdecode verify false r bs).
  Proof.
    intros bs r H. apply writes_preserve_ok. intros k e c L Hc. rewrite (H k e L) in Hc. discriminate.
  Qed.

  (** ** the duplicate path: a duplicate's own check is the same check against the duplicate's roots *)
  Theorem dup_sound (d d' : entry) b :
    dup_unmarshal cdecode verify false d b = Some d' ->
    exists c, verify (e_root d) (e_ty d) (e_id d) c = true /\ d' = populate d c.
  Proof.
    unfold dup_unmarshal. destruct b as [[cidb container]|]; [|discriminate].
    destruct (extract_bytes cidb) as [[t idb]|]; [|discriminate].
    intros U. apply ufn_sound in U. destruct U as [_ [c [_ [V ->]]]]. exists c. auto.
  Qed.

  (** a body the hasher accepted for the registered block is accepted by every duplicate of that block that was fetched
      against the same roots: no error (formerly: no panic) for concurrent fetches of one identifier of one header *)
  Theorem dup_same_root_accepts (r r' : registry) b dg cidb e (d : entry) :
    hw r b = (r', WOk dg) -> (exists container, b = Some (cidb, container)) -> lookup cidb r = Some e ->
    e_ty d = e_ty e -> e_id d = e_id e -> e_root d = e_root e ->
    exists c, dup_unmarshal cdecode verify false d b = Some (populate d c) /\ verify (e_root d) (e_ty d) (e_id d) c = true.
  Proof.
    intros H [container ->] L T I R.
    apply accept_sound in H. destruct H as [cidb' [container' [t [e0 [c [Hb [X [L0 [D [Cd [V _]]]]]]]]]]].
    inversion Hb; subst cidb' container'. rewrite L in L0. inversion L0; subst e0.
    exists c. unfold dup_unmarshal. rewrite X. unfold unmarshal_fn. cbn [andb].
    rewrite T, I, R, D, id_eqb_refl. cbn [negb]. rewrite Cd, V. split; reflexivity.
  Qed.

  (** ** the serving side *)
  Variable populate_from : bty -> id -> option cont.
  Variable cencode : bty -> cont -> cbytes.
  Hypothesis codec_roundtrip : forall t c, cdecode t (cencode t c) = Some c.

  (** serve_accept: for a stored square, what Blockstore.Get builds for the CID of a valid identifier passes the check of a
      pending request for that identifier and fills it with exactly the served container — provided the served container
      verifies against the requester's roots (the completeness half of C01/C05: honest proofs verify) *)
  Theorem serve_accept (r : registry) t sz i j e c :
    height_ok i -> size_ok (kind_of t) sz -> new (kind_of t) sz i = Some j ->
    lookup (block_cid t j) r = Some e -> e_ty e = t -> e_id e = j ->
    populate_from t j = Some c -> verify (e_root e) t j c = true ->
    exists bd, blockstore_get populate_from cencode (block_cid t j) = Some bd /\
               hw r (Some bd) = (update (block_cid t j) (populate e c) r, WOk (enc (kind_of t) j)).
  Proof.
    intros Hh Hs Hn L T I P V.
    exists (block_cid t j, cencode t c). split.
    - unfold blockstore_get. rewrite (cid_bij t sz i j Hh Hs Hn), P. reflexivity.
    - unfold hasher_write, block_cid.
      rewrite (cid_roundtrip t _ (enc_length t sz i j Hh Hs Hn)).
      fold (block_cid t j). rewrite L. unfold unmarshal_fn. cbn [andb].
      rewrite T, (id_roundtrip _ _ _ _ Hh Hs Hn), I, id_eqb_refl. cbn [negb].
      rewrite codec_roundtrip. rewrite <- T, <- I in V |- *. rewrite T in *. rewrite I in *. rewrite V. reflexivity.
  Qed.
End Proofs.

(** in a registry whose keys are the CIDs of its blocks a body can only reach a block of its own type *)
Theorem accept_type {root cont cbytes} (cdecode : bty -> cbytes -> option cont) verify (r r' : registry root cont) b d :
  (forall k e, lookup k r = Some e -> k = block_cid (e_ty e) (e_id e) /\ length (enc (kind_of (e_ty e)) (e_id e)) = id_size (e_ty e)) ->
  hasher_write cdecode verify false r b = (r', WOk d) ->
  exists cidb container e, b = Some (cidb, container) /\ lookup cidb r = Some e /\
    extract_bytes cidb = Some (e_ty e, enc (kind_of (e_ty e)) (e_id e)) /\ d = enc (kind_of (e_ty e)) (e_id e).
Proof.
  intros Hwf H. apply accept_sound in H.
  destruct H as [cidb [container [t [e [c [-> [X [L [D [Cd [V _]]]]]]]]]]].
  destruct (Hwf _ _ L) as [Hk Hl].
  assert (X' : extract_bytes cidb = Some (e_ty e, enc (kind_of (e_ty e)) (e_id e))).
  { rewrite Hk at 1. unfold block_cid. apply cid_roundtrip. exact Hl. }
  rewrite X' in X. inversion X; subst t d.
  exists cidb, container, e. repeat split; auto.
Qed.

(** the code before fix-c10-1: a populated block accepts a body that neither decodes nor verifies — which a duplicate fetch
    of the same CID then fails on (the panic) *)
Theorem early_return_witness :
  let cd := fun (_ : bty) (x : option bool) => x in
  let vf := fun (_ : unit) (_ : bty) (_ : id) (c : bool) => c in
  let k := block_cid BSample (mkid 7 3 5 []) in
  let r := [(k, mkentry BSample (mkid 7 3 5 []) tt (Some true))] in
  hasher_write cd vf true r (Some (k, None)) = (r, WOk (enc KSample (mkid 7 3 5 []))) /\
  hasher_write cd vf false r (Some (k, None)) = (r, WErr) /\
  dup_unmarshal cd vf true (mkentry BSample (mkid 7 3 5 []) tt None) (Some (k, None)) = None.
Proof. repeat split; reflexivity. Qed.

(** * concurrent fetches of one CID (Bitswap.v, Section Conc): every number of fetches, every interleaving *)
Section ConcProofs.
  Context {root cont cbytes : Type}.
  Variable cdecode : bty -> cbytes -> option cont.
  Variable verify : root -> bty -> id -> cont -> bool.
  Variable k : list Z.
  Notation fetcher := (@fetcher root cont cbytes).
  Notation cstate := (@cstate root cont cbytes).
  Notation cbody := (option (list Z * cbytes)).

  Lemma upd_same (fs : nat -> fetcher) i x : upd fs i x i = x.
  Proof. unfold upd. rewrite Nat.eqb_refl. reflexivity. Qed.
  Lemma upd_other (fs : nat -> fetcher) i x j : j <> i -> upd fs i x j = fs j.
  Proof. unfold upd. intros H. apply Nat.eqb_neq in H. rewrite H. reflexivity. Qed.

  Definition blk_ok (x : fetcher) : Prop :=
    forall c, e_cont (f_blk x) = Some c -> verify (e_root (f_blk x)) (e_ty (f_blk x)) (e_id (f_blk x)) c = true.
  Definition populated (x : fetcher) : Prop := e_cont (f_blk x) <> None.

  Lemma populated_verified x : blk_ok x -> populated x -> holds_verified verify x.
  Proof.
    unfold blk_ok, populated, holds_verified. intros Hok Hp.
    destruct (e_cont (f_blk x)) as [c|] eqn:E; [|contradiction]. exists c. split; [reflexivity|]. apply Hok. reflexivity.
  Qed.

  Lemma populate_ok (x : fetcher) c d p :
    blk_ok x -> verify (e_root (f_blk x)) (e_ty (f_blk x)) (e_id (f_blk x)) c = true ->
    blk_ok (mkf (populate (f_blk x) c) d p) /\ populated (mkf (populate (f_blk x) c) d p).
  Proof.
    intros Hok V. destruct (populate_fields (f_blk x) c) as [P1 [P2 [P3 P4]]].
    unfold blk_ok, populated. cbn [f_blk]. rewrite P1, P2, P3, P4. split.
    - intros c'. destruct (e_cont (f_blk x)) as [c0|] eqn:E; intros H; inversion H; subst; [apply Hok; exact E|exact V].
    - destruct (e_cont (f_blk x)); discriminate.
  Qed.

  (** ** what the hasher does to the state *)
  Lemma check_spec (st st' : cstate) b ok :
    check cdecode verify k st b = (st', ok) ->
    (ok = false /\ st' = st) \/
    (ok = true /\ exists o c,
       c_owner st = Some o /\
       verify (e_root (f_blk (c_fs st o))) (e_ty (f_blk (c_fs st o))) (e_id (f_blk (c_fs st o))) c = true /\
       st' = mkc (upd (c_fs st) o (mkf (populate (f_blk (c_fs st o)) c) true (f_pc (c_fs st o)))) (c_owner st) (c_pend st)).
  Proof.
    unfold check. destruct (c_owner st) as [o|] eqn:O; [|intros H; inversion H; left; auto].
    destruct (hasher_write cdecode verify false [(k, f_blk (c_fs st o))] b) as [r' w] eqn:W.
    destruct w as [d|]; [|intros H; inversion H; left; auto].
    apply accept_sound in W. destruct W as [cidb [container [t [e [c [-> [X [L [D [Cd [V ->]]]]]]]]]]].
    cbn in L. destruct (list_eqb cidb k) eqn:E; [|discriminate]. apply list_eqb_eq in E. subst cidb.
    inversion L; subst e. cbn. rewrite list_eqb_refl. cbn. rewrite list_eqb_refl.
    intros H; inversion H; subst. right. split; [reflexivity|]. exists o, c. auto.
  Qed.

  (** ** safety of the repaired code: whatever the registration discipline *)
  Section Safety.
    Variable atomic_reg : bool.
    Variable trust : bool.
    Notation step := (cstep_fn cdecode verify atomic_reg trust k).

    Definition good (x : fetcher) : Prop :=
      blk_ok x /\ (f_done x = true -> populated x) /\ (trust = false -> f_pc x = FRet true -> populated x).
    Definition Inv1 (st : cstate) : Prop := forall j, good (c_fs st j).

    Lemma good_set_pc x p : good x -> (p = FRet true -> trust = false -> populated x) -> good (set_pc x p).
    Proof.
      intros [H1 [H2 H3]] Hp. unfold good, set_pc, blk_ok, populated in *. cbn. repeat split; auto.
    Qed.

    Lemma good_offer b x : good x -> good (offer b x).
    Proof.
      intros H. unfold offer. destruct (f_pc x) as [| | |d [bb|]| | |] eqn:E; try exact H.
      apply good_set_pc; [exact H|discriminate].
    Qed.

    Lemma Inv1_upd (st : cstate) f x o p :
      Inv1 st -> good x -> Inv1 (mkc (upd (c_fs st) f x) o p).
    Proof. intros H Hx j. cbn. unfold upd. destruct (Nat.eqb j f); [exact Hx|apply H]. Qed.

    Lemma Inv1_publish (st : cstate) b o p : Inv1 st -> Inv1 (mkc (publish b (c_fs st)) o p).
    Proof. intros H j. cbn. unfold publish. apply good_offer, H. Qed.

    Lemma Inv1_check (st st' : cstate) b ok : check cdecode verify k st b = (st', ok) -> Inv1 st -> Inv1 st'.
    Proof.
      intros C H. apply check_spec in C. destruct C as [[_ ->]|[_ [o [c [O [V ->]]]]]]; [exact H|].
      apply Inv1_upd; [exact H|]. destruct (H o) as [H1 [H2 H3]].
      destruct (populate_ok (c_fs st o) c true (f_pc (c_fs st o)) H1 V) as [P1 P2].
      repeat split; auto.
    Qed.

    Lemma Inv1_ret (st : cstate) f x d ok :
      Inv1 st -> good x -> (ok = true -> trust = false -> populated x) -> Inv1 (ret st f x d ok).
    Proof.
      intros H Hx Hp. unfold ret. apply Inv1_upd; [exact H|]. apply good_set_pc; [exact Hx|].
      intros E; inversion E; subst. apply Hp. reflexivity.
    Qed.

    Lemma dup_good (x : fetcher) b e' d p :
      good x -> dup_unmarshal cdecode verify false (f_blk x) b = Some e' ->
      good (mkf e' d p) /\ populated (mkf e' d p).
    Proof.
      intros [H1 [H2 H3]] U. apply dup_sound in U. destruct U as [c [V ->]].
      destruct (populate_ok x c d p H1 V) as [P1 P2].
      split; [|exact P2]. repeat split; auto.
    Qed.

    Lemma Inv1_step (st : cstate) s : Inv1 st -> Inv1 (step st s).
    Proof.
      intros H. destruct s as [f|f|f|f|b|i|b|f|f|f]; cbn [cstep_fn].
      - destruct (f_pc (c_fs st f)) eqn:E; try exact H.
        apply Inv1_upd; [exact H|]. apply good_set_pc; [apply H|discriminate].
      - destruct (f_pc (c_fs st f)) eqn:E; try exact H.
        destruct (if atomic_reg then is_some (c_owner st) else hit);
          (apply Inv1_upd; [exact H|]; apply good_set_pc; [apply H|discriminate]).
      - destruct (f_pc (c_fs st f)) eqn:E; try exact H.
        apply Inv1_upd; [exact H|]. apply good_set_pc; [apply H|discriminate].
      - destruct (f_pc (c_fs st f)) eqn:E; try exact H; (apply Inv1_ret; [exact H|apply H|discriminate]).
      - destruct (check cdecode verify k st b) as [st' ok] eqn:C. pose proof (Inv1_check _ _ _ _ C H) as H'.
        destruct ok; [|exact H']. intros j. apply H'.
      - destruct (nth_error (c_pend st) i); [|exact H]. apply Inv1_publish, H.
      - destruct (check cdecode verify k st b) as [st' ok] eqn:C. pose proof (Inv1_check _ _ _ _ C H) as H'.
        destruct ok; [|exact H']. apply Inv1_publish. exact H'.
      - destruct (f_pc (c_fs st f)) as [| | |d [bb|]| | |] eqn:E; try exact H.
        apply Inv1_upd; [exact H|]. apply good_set_pc; [apply H|discriminate].
      - destruct (f_pc (c_fs st f)) eqn:E; try exact H.
        apply (Inv1_publish (mkc (upd (c_fs st) f (set_pc (c_fs st f) (FNotified dup b))) (c_owner st) (c_pend st))).
        apply Inv1_upd; [exact H|]. apply good_set_pc; [apply H|discriminate].
      - destruct (f_pc (c_fs st f)) eqn:E; try exact H.
        destruct (negb dup && (trust || f_done (c_fs st f)))%bool eqn:T.
        + apply Inv1_ret; [exact H|apply H|]. intros _ Ht. rewrite Ht in T. cbn in T.
          apply andb_true_iff in T. destruct T as [_ T]. destruct (H f) as [_ [H2 _]]. apply H2. exact T.
        + destruct (dup_unmarshal cdecode verify false (f_blk (c_fs st f)) b) as [e'|] eqn:U.
          * destruct (dup_good _ _ _ (negb dup || f_done (c_fs st f))%bool (FNotified dup b) (H f) U) as [G P].
            apply Inv1_ret; [exact H|exact G|]. intros _ _. exact P.
          * apply Inv1_ret; [exact H|apply H|discriminate].
    Qed.

    Lemma Inv1_run tr : forall st : cstate, Inv1 st -> Inv1 (crun cdecode verify atomic_reg trust k st tr).
    Proof. induction tr as [|s tr IH]; intros st H; [exact H|]. cbn. apply IH, Inv1_step, H. Qed.

    Lemma Inv1_init blk0 : (forall i, e_cont (blk0 i) = None) -> Inv1 (cinit blk0).
    Proof.
      intros H j. unfold cinit, good, blk_ok, populated. cbn. rewrite H. repeat split; intros; discriminate.
    Qed.
  End Safety.

  (** conc_fetch_sound: with fix-c10-3, for EVERY interleaving of any number of fetches of the CID — registrations, bodies
      decoded and published at any time, re-publications, cancellations — and even if the registration were not atomic:
      a Fetch that returns nil holds a populated Block whose container verifies against ITS OWN roots *)
  Theorem conc_fetch_sound atomic_reg (blk0 : nat -> entry root cont) tr :
    (forall i, e_cont (blk0 i) = None) ->
    fetch_safe verify (crun cdecode verify atomic_reg false k (cinit blk0) tr).
  Proof.
    intros H0 i Hr. pose proof (Inv1_run atomic_reg false tr _ (Inv1_init false blk0 H0) i) as [G1 [G2 G3]].
    apply populated_verified; [exact G1|]. apply G3; [reflexivity|exact Hr].
  Qed.

  (** whatever the variant: no Block ever holds a container that does not verify against its own roots *)
  Theorem conc_blocks_verified atomic_reg trust (blk0 : nat -> entry root cont) tr i c :
    (forall i, e_cont (blk0 i) = None) ->
    let x := c_fs (crun cdecode verify atomic_reg trust k (cinit blk0) tr) i in
    e_cont (f_blk x) = Some c -> verify (e_root (f_blk x)) (e_ty (f_blk x)) (e_id (f_blk x)) c = true.
  Proof.
    intros H0 x. pose proof (Inv1_run atomic_reg trust tr _ (Inv1_init trust blk0 H0) i) as [G1 _]. apply G1.
  Qed.

  (** ** the registry discipline of the atomic registration: the entry of the CID belongs to exactly the fetch that
      registered it and has not returned *)
  Section Registry.
    Variable trust : bool.
    Notation step := (cstep_fn cdecode verify true trust k).

    Definition Inv2 (st : cstate) : Prop :=
      (forall o, c_owner st = Some o -> orig_inflight (f_pc (c_fs st o)) = true) /\
      (forall j, orig_inflight (f_pc (c_fs st j)) = true -> c_owner st = Some j).

    Lemma oi_offer b (x : fetcher) : orig_inflight (f_pc (offer b x)) = orig_inflight (f_pc x).
    Proof. unfold offer. destruct (f_pc x) as [| | |d [bb|]| | |] eqn:E; cbn; rewrite ?E; reflexivity. Qed.

    (** a step of fetch [f] that keeps its "registered it myself and in flight" status *)
    Lemma Inv2_upd_same (st : cstate) f x p :
      Inv2 st -> orig_inflight (f_pc x) = orig_inflight (f_pc (c_fs st f)) ->
      Inv2 (mkc (upd (c_fs st) f x) (c_owner st) p).
    Proof.
      intros [K2 K3] E. split; cbn; intros j; unfold upd; destruct (Nat.eqb j f) eqn:J.
      - apply Nat.eqb_eq in J. subst j. intros O. rewrite E. apply K2, O.
      - apply K2.
      - apply Nat.eqb_eq in J. subst j. rewrite E. apply K3.
      - apply K3.
    Qed.

    Lemma Inv2_publish (st : cstate) b p : Inv2 st -> Inv2 (mkc (publish b (c_fs st)) (c_owner st) p).
    Proof.
      intros [K2 K3]. split; cbn; unfold publish; intros j; rewrite oi_offer; [apply K2|apply K3].
    Qed.

    Lemma Inv2_check (st st' : cstate) b ok : check cdecode verify k st b = (st', ok) -> Inv2 st -> Inv2 st'.
    Proof.
      intros C H. apply check_spec in C. destruct C as [[_ ->]|[_ [o [c [O [V ->]]]]]]; [exact H|].
      apply Inv2_upd_same; [exact H|reflexivity].
    Qed.

    Lemma Inv2_ret (st : cstate) f x d ok :
      Inv2 st -> (d = false -> orig_inflight (f_pc (c_fs st f)) = true) -> (d = true -> orig_inflight (f_pc (c_fs st f)) = false) ->
      Inv2 (ret st f x d ok).
    Proof.
      intros [K2 K3] Hd Hd'. unfold ret. split; cbn; intros j; unfold upd; destruct (Nat.eqb j f) eqn:J.
      - apply Nat.eqb_eq in J. subst j. destruct d; [|discriminate]. intros O. apply K2 in O. rewrite Hd' in O; [discriminate|reflexivity].
      - destruct d; [apply K2|discriminate].
      - cbn. discriminate.
      - intros O. pose proof (K3 _ O) as Oj. destruct d; [exact Oj|].
        pose proof (K3 _ (Hd eq_refl)) as Of. rewrite Oj in Of. inversion Of. subst. rewrite Nat.eqb_refl in J. discriminate.
    Qed.

    Lemma Inv2_step (st : cstate) s : Inv2 st -> Inv2 (step st s).
    Proof.
      intros H. destruct s as [f|f|f|f|b|i|b|f|f|f]; cbn [cstep_fn].
      - destruct (f_pc (c_fs st f)) eqn:E; try exact H. apply Inv2_upd_same; [exact H|rewrite E; reflexivity].
      - destruct (f_pc (c_fs st f)) eqn:E; try exact H. destruct (c_owner st) as [o|] eqn:O; cbn [is_some].
        + rewrite <- O. apply Inv2_upd_same; [exact H|rewrite E; reflexivity].
        + destruct H as [K2 K3]. split; cbn; intros j; unfold upd; destruct (Nat.eqb j f) eqn:J.
          * reflexivity.
          * intros Oj. inversion Oj. subst. rewrite Nat.eqb_refl in J. discriminate.
          * apply Nat.eqb_eq in J. subst. reflexivity.
          * intros Oj. apply K3 in Oj. rewrite O in Oj. discriminate.
      - destruct (f_pc (c_fs st f)) eqn:E; try exact H. apply Inv2_upd_same; [exact H|rewrite E; destruct dup; reflexivity].
      - destruct (f_pc (c_fs st f)) eqn:E; try exact H; (apply Inv2_ret; [exact H|intros ->; rewrite E; reflexivity|intros ->; rewrite E; reflexivity]).
      - destruct (check cdecode verify k st b) as [st' ok] eqn:C. pose proof (Inv2_check _ _ _ _ C H) as H'.
        destruct ok; [|exact H']. exact H'.
      - destruct (nth_error (c_pend st) i); [|exact H]. apply Inv2_publish, H.
      - destruct (check cdecode verify k st b) as [st' ok] eqn:C. pose proof (Inv2_check _ _ _ _ C H) as H'.
        destruct ok; [|exact H']. apply Inv2_publish. exact H'.
      - destruct (f_pc (c_fs st f)) as [| | |d [bb|]| | |] eqn:E; try exact H.
        apply Inv2_upd_same; [exact H|rewrite E; destruct d; reflexivity].
      - destruct (f_pc (c_fs st f)) eqn:E; try exact H.
        apply (Inv2_publish (mkc (upd (c_fs st) f (set_pc (c_fs st f) (FNotified dup b))) (c_owner st) (c_pend st))).
        apply Inv2_upd_same; [exact H|rewrite E; destruct dup; reflexivity].
      - destruct (f_pc (c_fs st f)) eqn:E; try exact H.
        destruct (negb dup && (trust || f_done (c_fs st f)))%bool eqn:T.
        + apply Inv2_ret; [exact H|intros _; rewrite E; destruct dup; [discriminate|reflexivity]|discriminate].
        + destruct (dup_unmarshal cdecode verify false (f_blk (c_fs st f)) b);
            (apply Inv2_ret; [exact H|intros ->; rewrite E; reflexivity|intros ->; rewrite E; reflexivity]).
    Qed.

    Lemma Inv2_run tr : forall st : cstate, Inv2 st -> Inv2 (crun cdecode verify true trust k st tr).
    Proof. induction tr as [|s tr IH]; intros st H; [exact H|]. cbn. apply IH, Inv2_step, H. Qed.

    Lemma Inv2_init blk0 : Inv2 (cinit blk0).
    Proof. split; cbn; intros; discriminate. Qed.
  End Registry.

  (** conc_registry_owner: with the atomic registration, in every reachable state the registry entry of the CID is the
      entry of a fetch that registered it itself and has not returned, and there is at most one such fetch *)
  Theorem conc_registry_owner trust (blk0 : nat -> entry root cont) tr :
    let st := crun cdecode verify true trust k (cinit blk0) tr in
    (forall o, c_owner st = Some o -> orig_inflight (f_pc (c_fs st o)) = true) /\
    (forall j, orig_inflight (f_pc (c_fs st j)) = true -> c_owner st = Some j).
  Proof. exact (Inv2_run trust tr _ (Inv2_init blk0)). Qed.

  (** conc_pending_served: hence the verifier of a pending request is always found — a body that carries the CID, the
      requested identifier and a container that verifies against the roots of the fetch that registered the CID is accepted
      by the hasher and fills exactly that fetch, whatever other fetches of the CID have done before *)
  Theorem conc_pending_served trust (blk0 : nat -> entry root cont) tr f t idb container c :
    (forall i, e_cont (blk0 i) = None) ->
    let st := crun cdecode verify true trust k (cinit blk0) tr in
    let e := f_blk (c_fs st f) in
    orig_inflight (f_pc (c_fs st f)) = true ->
    extract_bytes k = Some (t, idb) -> dec (kind_of (e_ty e)) idb = Some (e_id e) ->
    cdecode (e_ty e) container = Some c -> verify (e_root e) (e_ty e) (e_id e) c = true ->
    exists st', check cdecode verify k st (Some (k, container)) = (st', true) /\
                f_done (c_fs st' f) = true /\ holds_verified verify (c_fs st' f).
  Proof.
    intros H0 st e Ho X D Cd V.
    pose proof (Inv2_run trust tr _ (Inv2_init blk0)) as [_ K3]. fold st in K3. pose proof (K3 f Ho) as O.
    pose proof (Inv1_run true trust tr _ (Inv1_init trust blk0 H0) f) as [G1 _]. fold st in G1.
    unfold check. rewrite O. unfold hasher_write. rewrite X. cbn [lookup]. rewrite list_eqb_refl.
    unfold unmarshal_fn. cbn [andb]. fold e. rewrite D, id_eqb_refl. cbn [negb]. rewrite Cd, V.
    cbn [update]. rewrite list_eqb_refl. cbn [lookup]. rewrite list_eqb_refl.
    eexists. split; [reflexivity|]. cbn [c_fs]. rewrite upd_same. cbn [f_done]. split; [reflexivity|].
    destruct (populate_ok (c_fs st f) c true (f_pc (c_fs st f)) G1 V) as [P1 P2].
    apply populated_verified; assumption.
  Qed.
  (** ** the code before fix-c10-3 (atomic registration, a self-registered fetch trusts the hasher): safe as long as the
      fetches overlap, i.e. nobody registers after somebody has returned *)
  Section Overlap.
    Notation step := (cstep_fn cdecode verify true true k).

    Definition holds_body (p : @fpc cbytes) : bool :=
      match p with FSub _ (Some _) | FGot _ _ | FNotified _ _ => true | _ => false end.
    Definition anydone (st : cstate) : Prop := exists o, f_done (c_fs st o) = true.

    Record Inv3 (st : cstate) : Prop := mkInv3 {
      i3_self : forall i, f_done (c_fs st i) = true ->
                          orig_inflight (f_pc (c_fs st i)) = true \/ returned (f_pc (c_fs st i)) = true;
      i3_uniq : forall i j, f_done (c_fs st i) = true -> orig_inflight (f_pc (c_fs st j)) = true -> i = j;
      i3_pend : c_pend st <> [] -> anydone st;
      i3_body : forall j, holds_body (f_pc (c_fs st j)) = true -> anydone st;
      i3_ret : forall i, f_pc (c_fs st i) = FRet true -> populated (c_fs st i) }.

    Definition reg_step_ok (st : cstate) (s : @cstep cbytes) : Prop :=
      match s with SReg _ => forall j, returned (f_pc (c_fs st j)) = false | _ => True end.

    (** fetch [f] moves on without registering, returning or touching its Block *)
    Lemma Inv3_move (st : cstate) f p' o' :
      Inv3 st ->
      orig_inflight p' = orig_inflight (f_pc (c_fs st f)) -> returned p' = returned (f_pc (c_fs st f)) ->
      (holds_body p' = true -> holds_body (f_pc (c_fs st f)) = true) -> returned p' = false ->
      Inv3 (mkc (upd (c_fs st) f (set_pc (c_fs st f) p')) o' (c_pend st)).
    Proof.
      intros H Eo Er Eb Enr.
      assert (AD : anydone st -> anydone (mkc (upd (c_fs st) f (set_pc (c_fs st f) p')) o' (c_pend st))).
      { intros [o Ho]. exists o. cbn. unfold upd. destruct (Nat.eqb o f) eqn:J; [apply Nat.eqb_eq in J; subst; exact Ho|exact Ho]. }
      split; cbn.
      - intros i. unfold upd. destruct (Nat.eqb i f) eqn:J.
        + apply Nat.eqb_eq in J. subst i. cbn. rewrite Eo, Er. apply (i3_self _ H).
        + apply (i3_self _ H).
      - intros i j. unfold upd. destruct (Nat.eqb i f) eqn:Ji; destruct (Nat.eqb j f) eqn:Jj; cbn;
          try (apply Nat.eqb_eq in Ji; subst i); try (apply Nat.eqb_eq in Jj; subst j); rewrite ?Eo; try apply (i3_uniq _ H); auto.
      - intros Hp. apply AD, (i3_pend _ H), Hp.
      - intros j. unfold upd. destruct (Nat.eqb j f) eqn:J; cbn.
        + apply Nat.eqb_eq in J. subst j. intros Hb. apply AD, (i3_body _ H f), Eb, Hb.
        + intros Hb. apply AD, (i3_body _ H j), Hb.
      - intros i. unfold upd. destruct (Nat.eqb i f) eqn:J; cbn.
        + intros E. rewrite E in Enr. discriminate.
        + apply (i3_ret _ H).
    Qed.

    Lemma offer_fields b (x : fetcher) :
      f_blk (offer b x) = f_blk x /\ f_done (offer b x) = f_done x /\
      orig_inflight (f_pc (offer b x)) = orig_inflight (f_pc x) /\ returned (f_pc (offer b x)) = returned (f_pc x) /\
      (f_pc (offer b x) = FRet true -> f_pc x = FRet true) /\
      (holds_body (f_pc (offer b x)) = true -> holds_body (f_pc x) = true \/ True).
    Proof.
      unfold offer. destruct (f_pc x) as [| | |d [bb|]| | |] eqn:E; cbn; rewrite ?E; repeat split; auto; discriminate.
    Qed.

    (** the exchange publishes a body; [pend'] is what remains decoded-but-unpublished *)
    Lemma Inv3_publish (st : cstate) b pend' :
      Inv3 st -> anydone st -> Inv3 (mkc (publish b (c_fs st)) (c_owner st) pend').
    Proof.
      intros H [o Ho].
      assert (AD : anydone (mkc (publish b (c_fs st)) (c_owner st) pend')).
      { exists o. cbn. unfold publish. destruct (offer_fields b (c_fs st o)) as [_ [-> _]]. exact Ho. }
      split; cbn; unfold publish.
      - intros i. destruct (offer_fields b (c_fs st i)) as [_ [-> [-> [-> _]]]]. apply (i3_self _ H).
      - intros i j. destruct (offer_fields b (c_fs st i)) as [_ [-> _]].
        destruct (offer_fields b (c_fs st j)) as [_ [_ [-> _]]]. apply (i3_uniq _ H).
      - intros _. exact AD.
      - intros j _. exact AD.
      - intros i E. destruct (offer_fields b (c_fs st i)) as [Eb [_ [_ [_ [Hr _]]]]].
        unfold populated. rewrite Eb. apply (i3_ret _ H), Hr, E.
    Qed.

    (** the hasher accepts a body on the entry of the owner *)
    Lemma Inv3_accept (st : cstate) o c pend' :
      Inv3 st -> Inv2 st -> c_owner st = Some o ->
      Inv3 (mkc (upd (c_fs st) o (mkf (populate (f_blk (c_fs st o)) c) true (f_pc (c_fs st o)))) (c_owner st) pend').
    Proof.
      intros H [K2 K3] O.
      assert (AD : anydone (mkc (upd (c_fs st) o (mkf (populate (f_blk (c_fs st o)) c) true (f_pc (c_fs st o)))) (c_owner st) pend')).
      { exists o. cbn. rewrite upd_same. reflexivity. }
      split; cbn.
      - intros i. unfold upd. destruct (Nat.eqb i o) eqn:J; cbn.
        + intros _. left. apply K2, O.
        + apply (i3_self _ H).
      - intros i j. unfold upd. destruct (Nat.eqb i o) eqn:Ji; destruct (Nat.eqb j o) eqn:Jj; cbn;
          try (apply Nat.eqb_eq in Ji; subst i); try (apply Nat.eqb_eq in Jj; subst j); auto.
        + intros _ Hj. apply K3 in Hj. rewrite O in Hj. inversion Hj. reflexivity.
        + intros Hi Hj. apply (i3_uniq _ H i o Hi Hj).
        + apply (i3_uniq _ H).
      - intros _. exact AD.
      - intros j _. exact AD.
      - intros i. unfold upd. destruct (Nat.eqb i o) eqn:J; cbn.
        + apply Nat.eqb_eq in J. subst i. intros E. pose proof (K2 _ O) as Ho. rewrite E in Ho. discriminate.
        + apply (i3_ret _ H).
    Qed.

    (** fetch [f] returns; its Block may have been filled by its own check ([x']) *)
    Lemma Inv3_ret (st : cstate) f (x' : fetcher) d ok :
      Inv3 st -> f_done x' = f_done (c_fs st f) ->
      (f_done (c_fs st f) = true -> d = false) ->
      (ok = true -> populated x') ->
      Inv3 (ret st f x' d ok).
    Proof.
      intros H Ed Hd Hp. unfold ret.
      assert (AD : anydone st -> anydone (mkc (upd (c_fs st) f (set_pc x' (FRet ok))) (if d then c_owner st else None) (c_pend st))).
      { intros [o Ho]. exists o. cbn. unfold upd. destruct (Nat.eqb o f) eqn:J; cbn; [apply Nat.eqb_eq in J; subst; rewrite Ed; exact Ho|exact Ho]. }
      split; cbn.
      - intros i. unfold upd. destruct (Nat.eqb i f) eqn:J; cbn; [intros _; right; reflexivity|apply (i3_self _ H)].
      - intros i j. unfold upd. destruct (Nat.eqb j f) eqn:Jj; cbn; [discriminate|].
        destruct (Nat.eqb i f) eqn:Ji; cbn; [|apply (i3_uniq _ H)].
        apply Nat.eqb_eq in Ji. subst i. rewrite Ed. apply (i3_uniq _ H).
      - intros Hpd. apply AD, (i3_pend _ H), Hpd.
      - intros j. unfold upd. destruct (Nat.eqb j f) eqn:J; cbn; [discriminate|]. intros Hb. apply AD, (i3_body _ H j), Hb.
      - intros i. unfold upd. destruct (Nat.eqb i f) eqn:J; cbn.
        + intros E. inversion E. unfold populated in *. cbn. apply Hp. assumption.
        + apply (i3_ret _ H).
    Qed.

    Lemma Inv3_step (st : cstate) s : reg_step_ok st s -> Inv2 st -> Inv1 true st -> Inv3 st -> Inv3 (step st s).
    Proof.
      intros Hreg H2 H1 H. pose proof H2 as [K2 K3].
      destruct s as [f|f|f|f|b|i|b|f|f|f]; cbn [cstep_fn].
      - (* enter *)
        destruct (f_pc (c_fs st f)) eqn:E; try exact H.
        apply Inv3_move; rewrite ?E; auto; discriminate.
      - (* reg *)
        destruct (f_pc (c_fs st f)) eqn:E; try exact H. destruct (c_owner st) as [o|] eqn:O; cbn [is_some].
        + rewrite <- O. apply Inv3_move; rewrite ?E; auto; discriminate.
        + (* the first to register: nothing has been decoded yet *)
          assert (ND : forall i, f_done (c_fs st i) = true -> False).
          { intros i Hi. destruct (i3_self _ H i Hi) as [Ho|Hr].
            - apply K3 in Ho. congruence.
            - cbn in Hreg. rewrite Hreg in Hr. discriminate. }
          split; cbn.
          * intros i. unfold upd. destruct (Nat.eqb i f); cbn; intros Hi; [left; reflexivity|exfalso; eapply ND; eassumption].
          * intros i j. unfold upd. destruct (Nat.eqb i f) eqn:Ji; cbn; intros Hi; exfalso.
            -- apply Nat.eqb_eq in Ji. subst i. eapply ND; eassumption.
            -- eapply ND; eassumption.
          * intros Hp. destruct (i3_pend _ H Hp) as [o Ho]. exfalso. eapply ND; eassumption.
          * intros j. unfold upd. destruct (Nat.eqb j f); cbn; [discriminate|].
            intros Hb. destruct (i3_body _ H j Hb) as [o Ho]. exfalso. eapply ND; eassumption.
          * intros i. unfold upd. destruct (Nat.eqb i f); cbn; [discriminate|apply (i3_ret _ H)].
      - (* sub *)
        destruct (f_pc (c_fs st f)) eqn:E; try exact H.
        apply Inv3_move; rewrite ?E; auto; try discriminate; try (destruct dup; reflexivity).
      - (* cancel *)
        destruct (f_pc (c_fs st f)) eqn:E; try exact H.
        + apply Inv3_ret; auto; [|discriminate].
          intros Hd. destruct (i3_self _ H f Hd) as [Ho|Hr]; rewrite E in *; [destruct dup; [discriminate|reflexivity]|discriminate].
        + apply Inv3_ret; auto; [|discriminate].
          intros Hd. destruct (i3_self _ H f Hd) as [Ho|Hr]; rewrite E in *; [destruct dup; [discriminate|reflexivity]|discriminate].
      - (* check *)
        destruct (check cdecode verify k st b) as [st' ok] eqn:C. apply check_spec in C.
        destruct C as [[-> ->]|[-> [o [c [O [V ->]]]]]]; [exact H|]. cbn [c_fs c_owner c_pend].
        apply Inv3_accept; assumption.
      - (* publish *)
        destruct (nth_error (c_pend st) i) eqn:N; [|exact H].
        apply Inv3_publish; [exact H|]. apply (i3_pend _ H). intros E. rewrite E in N. destruct i; discriminate.
      - (* deliver *)
        destruct (check cdecode verify k st b) as [st' ok] eqn:C. apply check_spec in C.
        destruct C as [[-> ->]|[-> [o [c [O [V ->]]]]]]; [exact H|]. cbn [c_fs c_owner c_pend].
        pose proof (Inv3_accept st o c (c_pend st) H H2 O) as H'.
        apply (Inv3_publish _ b (c_pend st) H'). exists o. cbn. rewrite upd_same. reflexivity.
      - (* recv *)
        destruct (f_pc (c_fs st f)) as [| | |d [bb|]| | |] eqn:E; try exact H.
        apply Inv3_move; rewrite ?E; auto; try (destruct d; reflexivity).
      - (* notify *)
        destruct (f_pc (c_fs st f)) eqn:E; try exact H.
        assert (AD : anydone st) by (apply (i3_body _ H f); rewrite E; reflexivity).
        apply (Inv3_publish (mkc (upd (c_fs st) f (set_pc (c_fs st f) (FNotified dup b))) (c_owner st) (c_pend st)) b (c_pend st)).
        + apply Inv3_move; rewrite ?E; auto; try (destruct dup; reflexivity).
        + destruct AD as [o Ho]. exists o. cbn. unfold upd. destruct (Nat.eqb o f) eqn:J; [apply Nat.eqb_eq in J; subst; exact Ho|exact Ho].
      - (* finish *)
        destruct (f_pc (c_fs st f)) eqn:E; try exact H.
        assert (Hdd : f_done (c_fs st f) = true -> dup = false).
        { intros Hd. destruct (i3_self _ H f Hd) as [Ho|Hr]; rewrite E in *; [destruct dup; [discriminate|reflexivity]|discriminate]. }
        destruct dup; cbn [negb andb orb].
        + destruct (dup_unmarshal cdecode verify false (f_blk (c_fs st f)) b) as [e'|] eqn:U.
          * apply Inv3_ret; auto. intros _.
            destruct (dup_good true _ _ _ (f_done (c_fs st f)) (FNotified true b) (H1 f) U) as [_ P]. exact P.
          * apply Inv3_ret; auto. discriminate.
        + (* "the block was populated by the hasher": it was, because a body is in flight only after the hasher ran on the
             entry of the one fetch that registered the CID — this one *)
          apply Inv3_ret; auto. intros _.
          destruct (i3_body _ H f) as [o Ho]; [rewrite E; reflexivity|].
          assert (o = f) by (apply (i3_uniq _ H o f Ho); rewrite E; reflexivity). subst o.
          destruct (H1 f) as [_ [G2 _]]. apply G2, Ho.
    Qed.

    Lemma Inv3_init blk0 : Inv3 (cinit blk0).
    Proof. split; cbn; intros; try discriminate; try contradiction. Qed.

    Lemma Inv3_run tr : forall st : cstate,
      overlapping cdecode verify true true k st tr -> Inv2 st -> Inv1 true st -> Inv3 st ->
      Inv3 (crun cdecode verify true true k st tr).
    Proof.
      induction tr as [|s tr IH]; intros st Ho H2 H1 H3; [exact H3|].
      cbn in Ho. destruct Ho as [Hs Ho]. cbn. apply IH; [exact Ho|apply Inv2_step; exact H2|apply Inv1_step; exact H1|].
      apply Inv3_step; auto; destruct s; auto.
    Qed.
  End Overlap.

  (** conc_fetch_sound_overlap: the code before fix-c10-3 — atomic registration, a self-registered fetch trusts the hasher —
      for EVERY interleaving in which the fetches overlap (nobody registers after somebody has returned): a Fetch that
      returns nil holds a populated Block verified against its own roots.  [conc_trust_refuted] shows that the side
      condition is needed, [conc_twostep_refuted] that the atomic registration is. *)
  Theorem conc_fetch_sound_overlap (blk0 : nat -> entry root cont) tr :
    (forall i, e_cont (blk0 i) = None) ->
    overlapping cdecode verify true true k (cinit blk0) tr ->
    fetch_safe verify (crun cdecode verify true true k (cinit blk0) tr).
  Proof.
    intros H0 Ho i Hr.
    pose proof (Inv3_run tr _ Ho (Inv2_init blk0) (Inv1_init true blk0 H0) (Inv3_init blk0)) as H3.
    pose proof (Inv1_run true true tr _ (Inv1_init true blk0 H0) i) as [G1 _].
    apply populated_verified; [exact G1|]. apply (i3_ret _ H3), Hr.
  Qed.
End ConcProofs.

(** ** witnesses: what the two variants break.  One sample identifier; a container is the name of the roots it verifies
    against *)
Definition w_id := mkid 7 3 5 [].
Definition w_k := block_cid BSample w_id.
Definition w_dec (_ : bty) (x : option bool) : option bool := x.
Definition w_ver (r : bool) (_ : bty) (_ : id) (c : bool) : bool := Bool.eqb r c.
Definition w_blk (r : bool) : entry bool bool := mkentry BSample w_id r None.
Definition w_body (c : bool) : option (list Z * option bool) := Some (w_k, Some c).
Definition w_run atomic trust roots tr := crun w_dec w_ver atomic trust w_k (cinit (fun i => w_blk (roots i))) tr.

(** seeded change C10-c (Load, then Store) on the code before fix-c10-3: both fetches are between Load and Store, the
    later Store displaces the earlier entry, the hasher fills fetch 1 only — fetch 0 returns nil with an empty Block.
    The trace is [overlapping]. *)
Definition w_twostep : list (cstep (cbytes := option bool)) :=
  [SEnter 0; SEnter 1; SReg 0; SReg 1; SSub 0; SSub 1; SDeliver (w_body false); SRecv 0; SNotify 0; SFinish 0]%nat.

Theorem conc_twostep_refuted :
  overlapping w_dec w_ver false true w_k (cinit (fun _ => w_blk false)) w_twostep /\
  ~ fetch_safe w_ver (w_run false true (fun _ => false) w_twostep).
Proof.
  split.
  - cbn. repeat split; intros j; unfold upd; repeat (destruct (Nat.eqb j _)); reflexivity.
  - intros H. specialize (H 0%nat eq_refl). destruct H as [c [Hc _]]. vm_compute in Hc. discriminate.
Qed.

(** the same two-step registration on the repaired code no longer returns unverified data, but it still displaces the
    verifier of a pending request: fetch 0 (roots [false]) registered the CID itself and is in flight, yet the registry
    holds the entry of fetch 1 (roots [true]) and the honest body for fetch 0 is rejected *)
Theorem conc_twostep_displaces :
  let st := w_run false false (fun i => Nat.eqb i 1) [SEnter 0; SEnter 1; SReg 0; SReg 1]%nat in
  orig_inflight (f_pc (c_fs st 0%nat)) = true /\ c_owner st = Some 1%nat /\
  snd (check w_dec w_ver w_k st (w_body false)) = false.
Proof. vm_compute. repeat split. Qed.

(** the code before fix-c10-3 with the atomic registration.  (1) A second copy of the block is decoded while fetch 0 is
    registered and published after fetch 0 has returned and fetch 1 has registered and subscribed. *)
Definition w_stale : list (cstep (cbytes := option bool)) :=
  [SEnter 0; SReg 0; SSub 0; SDeliver (w_body false); SCheck (w_body false); SRecv 0; SNotify 0; SFinish 0;
   SEnter 1; SReg 1; SSub 1; SPublish 0; SRecv 1; SNotify 1; SFinish 1]%nat.
(** (2) The duplicate's NotifyNewBlocks re-publishes the block after the original requester has returned and a third
    fetch has registered and subscribed. *)
Definition w_notify : list (cstep (cbytes := option bool)) :=
  [SEnter 0; SReg 0; SSub 0; SEnter 1; SReg 1; SSub 1; SDeliver (w_body false); SRecv 0; SNotify 0; SFinish 0; SRecv 1;
   SEnter 2; SReg 2; SSub 2; SNotify 1; SFinish 1; SRecv 2; SNotify 2; SFinish 2]%nat.

Theorem conc_trust_refuted :
  ~ fetch_safe w_ver (w_run true true (fun _ => false) w_stale) /\
  ~ fetch_safe w_ver (w_run true true (fun _ => false) w_notify).
Proof.
  split; intros H.
  - specialize (H 1%nat eq_refl). destruct H as [c [Hc _]]. vm_compute in Hc. discriminate.
  - specialize (H 2%nat eq_refl). destruct H as [c [Hc _]]. vm_compute in Hc. discriminate.
Qed.

(** non-vacuity: on the repaired code the same three traces end with every fetch returned nil and verified *)
Example conc_nonvacuous :
  let a := w_run true false (fun _ => false) w_stale in
  let b := w_run true false (fun _ => false) w_notify in
  let c := w_run true false (fun _ => false) w_twostep in
  f_pc (c_fs a 1%nat) = FRet true /\ e_cont (f_blk (c_fs a 1%nat)) = Some false /\
  f_pc (c_fs b 2%nat) = FRet true /\ e_cont (f_blk (c_fs b 2%nat)) = Some false /\
  f_pc (c_fs c 0%nat) = FRet true /\ e_cont (f_blk (c_fs c 0%nat)) = Some false /\ c_owner c = None.
Proof. vm_compute. repeat split. Qed.

(** * serving a row from any representation *)
Section ServeRowProofs.
  Context {share : Type}.
  Variable parity recover : list share -> list share.
  Hypothesis recover_parity : forall l, recover (parity l) = l.

  (** serve_row_any_half: whichever half the accessor hands out (and says so), the row RowBlock.Populate builds verifies
      against the committed row and yields exactly its shares *)
  Theorem serve_row_any_half (data : list share) (h : bool * list share) :
    half_of parity data h ->
    row_verifies parity recover (data ++ parity data) (to_row true h) /\
    row_shares parity recover (to_row true h) = data ++ parity data.
  Proof.
    intros [-> | ->]; unfold row_verifies, row_shares, to_row; cbn; rewrite ?recover_parity; auto.
  Qed.
End ServeRowProofs.

(** seeded change C10-d: the flag dropped — the parity half labelled LEFT does not verify *)
Theorem serve_row_flag_dropped_refuted :
  let parity := map Z.succ in let recover := map Z.pred in
  (forall l, recover (parity l) = l) /\
  half_of parity [1] (true, parity [1]) /\
  ~ row_verifies parity recover ([1] ++ parity [1]) (to_row false (true, parity [1])) /\
  row_verifies parity recover ([1] ++ parity [1]) (to_row true (true, parity [1])).
Proof.
  cbn. repeat split.
  - intros l. rewrite map_map. rewrite <- (map_id l) at 2. apply map_ext. intros. lia.
  - right. reflexivity.
  - unfold row_verifies. cbn. discriminate.
Qed.

(** non-vacuity of [conc_fetch_sound_overlap]: the window trace is overlapping for the atomic registration, and there both
    fetches end with nil and verified data (fetch 0 filled by the hasher, fetch 1 by its duplicate path) *)
Example conc_overlap_nonvacuous :
  let tr := (w_twostep ++ [SRecv 1; SNotify 1; SFinish 1])%nat in
  let st := w_run true true (fun _ => false) tr in
  overlapping w_dec w_ver true true w_k (cinit (fun _ => w_blk false)) tr /\
  f_pc (c_fs st 0%nat) = FRet true /\ e_cont (f_blk (c_fs st 0%nat)) = Some false /\
  f_pc (c_fs st 1%nat) = FRet true /\ e_cont (f_blk (c_fs st 1%nat)) = Some false /\ c_owner st = None.
Proof.
  split; [|vm_compute; repeat split].
  cbn. repeat split; intros j; unfold upd; repeat (destruct (Nat.eqb j _)); reflexivity.
Qed.

(** C10 — proofs about the bitswap acceptance check (Bitswap.v), for every registry, every body, every sequence of
    bodies.  No axioms. *)
From Coq Require Import List ZArith Lia Bool.
From CN Require Import Base.Bytes Shwap.Ids Shwap.IdsProofs Shwap.Cid Shwap.CidProofs Shwap.Bitswap.
Import ListNotations.
Open Scope Z_scope.

Lemma id_eqb_eq x y : id_eqb x y = true -> x = y.
Proof.
  unfold id_eqb. intros H. repeat (apply andb_true_iff in H; destruct H as [H ?]).
  apply Z.eqb_eq in H. repeat match goal with X : (_ =? _) = true |- _ => apply Z.eqb_eq in X end.
  match goal with X : list_eqb _ _ = true |- _ => apply list_eqb_eq in X end.
  destruct x, y; cbn in *; congruence.
Qed.

Lemma id_eqb_refl x : id_eqb x x = true.
Proof.
  unfold id_eqb. rewrite !Z.eqb_refl. cbn. apply list_eqb_eq. reflexivity.
Qed.

Lemma list_eqb_refl k : list_eqb k k = true. Proof. apply list_eqb_eq; reflexivity. Qed.

Lemma list_eqb_neq k k' : k <> k' -> list_eqb k k' = false.
Proof. intros H. destruct (list_eqb k k') eqn:E; [apply list_eqb_eq in E; contradiction|reflexivity]. Qed.

Lemma enc_length t sz i j :
  height_ok i -> size_ok (kind_of t) sz -> new (kind_of t) sz i = Some j -> length (enc (kind_of t) j) = id_size t.
Proof.
  intros Hh Hs Hn. pose proof (id_roundtrip _ _ _ _ Hh Hs Hn) as R.
  destruct (Nat.eq_dec (length (enc (kind_of t) j)) (size (kind_of t))) as [E|E]; [exact E|].
  rewrite (dec_wrong_length _ _ E) in R. discriminate.
Qed.

Section Proofs.
  Context {root cont cbytes : Type}.
  Variable cdecode : bty -> cbytes -> option cont.
  Variable verify : root -> bty -> id -> cont -> bool.
  Notation entry := (entry root cont).
  Notation registry := (registry root cont).
  Notation hw := (hasher_write cdecode verify false).
  Notation ufn := (unmarshal_fn cdecode verify false).

  (** ** the registry as a map *)
  Lemma lookup_update k k' (e : entry) (r : registry) :
    lookup k (update k' e r) =
    if list_eqb k k' then match lookup k' r with Some _ => Some e | None => None end else lookup k r.
  Proof.
    induction r as [|[k0 e0] r IH]; cbn.
    - destruct (list_eqb k k'); reflexivity.
    - destruct (list_eqb k' k0) eqn:E0; cbn.
      + apply list_eqb_eq in E0. subst k0.
        destruct (list_eqb k k') eqn:E; reflexivity.
      + destruct (list_eqb k k0) eqn:E1.
        * destruct (list_eqb k k') eqn:E; [|reflexivity].
          apply list_eqb_eq in E1, E. subst. rewrite list_eqb_refl in E0. discriminate.
        * exact IH.
  Qed.

  (** ** populate *)
  Lemma populate_fields (e : entry) c :
    e_ty (populate e c) = e_ty e /\ e_id (populate e c) = e_id e /\ e_root (populate e c) = e_root e /\
    e_cont (populate e c) = match e_cont e with Some c0 => Some c0 | None => Some c end.
  Proof. unfold populate. destruct (e_cont e) eqn:E; cbn; rewrite ?E; auto. Qed.

  (** ** UnmarshalFn: an entry changes only by receiving a container that carries the requested identifier, decodes and
      verifies against the entry's own roots *)
  Lemma ufn_sound (e e' : entry) container idb :
    ufn e container idb = Some e' ->
    dec (kind_of (e_ty e)) idb = Some (e_id e) /\
    exists c, cdecode (e_ty e) container = Some c /\ verify (e_root e) (e_ty e) (e_id e) c = true /\ e' = populate e c.
  Proof.
    unfold unmarshal_fn. cbn [andb].
    destruct (dec (kind_of (e_ty e)) idb) as [i|] eqn:D; [|discriminate].
    destruct (id_eqb i (e_id e)) eqn:E; cbn [negb]; [|discriminate].
    apply id_eqb_eq in E. subst i.
    destruct (cdecode (e_ty e) container) as [c|] eqn:Cd; [|discriminate].
    destruct (verify (e_root e) (e_ty e) (e_id e) c) eqn:V; [|discriminate].
    intros H; inversion H. split; [reflexivity|]. exists c. auto.
  Qed.

  (** ** accept_sound *)
  Theorem accept_sound (r r' : registry) b d :
    hw r b = (r', WOk d) ->
    exists cidb container t e c,
      b = Some (cidb, container) /\ extract_bytes cidb = Some (t, d) /\ lookup cidb r = Some e /\
      dec (kind_of (e_ty e)) d = Some (e_id e) /\                   (* the identifier in the block is the requested one *)
      cdecode (e_ty e) container = Some c /\
      verify (e_root e) (e_ty e) (e_id e) c = true /\               (* its container verifies against the requester's roots *)
      r' = update cidb (populate e c) r.                            (* and that container (or the earlier verified one) is what the block holds *)
  Proof.
    unfold hasher_write. destruct b as [[cidb container]|]; [|intros H; inversion H].
    destruct (extract_bytes cidb) as [[t idb]|] eqn:X; [|intros H; inversion H].
    destruct (lookup cidb r) as [e|] eqn:L; [|intros H; inversion H].
    destruct (ufn e container idb) as [e'|] eqn:U; intros H; inversion H; subst; clear H.
    apply ufn_sound in U. destruct U as [D [c [Cd [V ->]]]].
    exists cidb, container, t, e, c. repeat split; auto.
  Qed.

  (** ** reject_leaves_pending: any other bytes leave every request as it was *)
  Theorem reject_leaves_pending (r r' : registry) b : hw r b = (r', WErr) -> r' = r.
  Proof.
    unfold hasher_write. destruct b as [[cidb container]|]; [|intros H; inversion H; reflexivity].
    destruct (extract_bytes cidb) as [[t idb]|]; [|intros H; inversion H; reflexivity].
    destruct (lookup cidb r) as [e|]; [|intros H; inversion H; reflexivity].
    destruct (ufn e container idb); intros H; inversion H; reflexivity.
  Qed.

  (** a write touches at most the entry its inner CID names, and never its type, identifier or roots *)
  Theorem write_frame (r r' : registry) b w k e' :
    hw r b = (r', w) -> lookup k r' = Some e' ->
    exists e, lookup k r = Some e /\ e_ty e' = e_ty e /\ e_id e' = e_id e /\ e_root e' = e_root e /\
              (forall c, e_cont e = Some c -> e_cont e' = Some c).   (* a populated block keeps its container *)
  Proof.
    intros H L. destruct w as [d|].
    - apply accept_sound in H. destruct H as [cidb [container [t [e [c [-> [X [L0 [D [Cd [V ->]]]]]]]]]]].
      rewrite lookup_update in L. destruct (list_eqb k cidb) eqn:E.
      + apply list_eqb_eq in E. subst k. rewrite L0 in L. inversion L; subst e'.
        exists e. destruct (populate_fields e c) as [P1 [P2 [P3 P4]]]. repeat split; auto.
        intros c0 Hc. rewrite P4, Hc. reflexivity.
      + exists e'. repeat split; auto.
    - apply reject_leaves_pending in H. subst r'. exists e'. repeat split; auto.
  Qed.

  (** ** every container a block ever holds verifies for the block's identifier against the block's roots *)
  Definition reg_ok (r : registry) : Prop :=
    forall k e c, lookup k r = Some e -> e_cont e = Some c -> verify (e_root e) (e_ty e) (e_id e) c = true.

  Lemma write_ok (r r' : registry) b w : hw r b = (r', w) -> reg_ok r -> reg_ok r'.
  Proof.
    intros H Hok k e' c' L Hc. destruct w as [d|].
    - apply accept_sound in H. destruct H as [cidb [container [t [e [c [-> [X [L0 [D [Cd [V ->]]]]]]]]]]].
      rewrite lookup_update in L. destruct (list_eqb k cidb) eqn:E.
      + apply list_eqb_eq in E. subst k. rewrite L0 in L. inversion L; subst e'.
        destruct (populate_fields e c) as [P1 [P2 [P3 P4]]]. rewrite P1, P2, P3. rewrite P4 in Hc.
        destruct (e_cont e) as [c0|] eqn:Ec.
        * inversion Hc; subst c'. eapply Hok; eassumption.
        * inversion Hc; subst c'. exact V.
      + eapply Hok; eassumption.
    - apply reject_leaves_pending in H. subst r'. eapply Hok; eassumption.
  Qed.

  Theorem writes_preserve_ok : forall bs (r : registry), reg_ok r -> reg_ok (run_writes cdecode verify false r bs).
  Proof.
    induction bs as [|b bs IH]; intros r H; cbn; [exact H|].
    apply IH. destruct (hw r b) as [r1 w] eqn:E. cbn. eapply write_ok; eassumption.
  Qed.

  (** pending requests verify trivially: whatever bodies arrive, in whatever order, for whatever CIDs, a block that is
      filled afterwards holds a verified container *)
  Corollary filled_only_verified : forall bs (r : registry),
    (forall k e, lookup k r = Some e -> e_cont e = None) ->
    reg_ok (run_writes cdecode verify false r bs).
  Proof.
    intros bs r H. apply writes_preserve_ok. intros k e c L Hc. rewrite (H k e L) in Hc. discriminate.
  Qed.

  (** ** the duplicate path: a duplicate's own check is the same check against the duplicate's roots *)
  Theorem dup_sound (d d' : entry) b :
    dup_unmarshal cdecode verify false d b = Some d' ->
    exists c, verify (e_root d) (e_ty d) (e_id d) c = true /\ d' = populate d c.
  Proof.
    unfold dup_unmarshal. destruct b as [[cidb container]|]; [|discriminate].
    destruct (extract_bytes cidb) as [[t idb]|]; [|discriminate].
    intros U. apply ufn_sound in U. destruct U as [_ [c [_ [V ->]]]]. exists c. auto.
  Qed.

  (** a body the hasher accepted for the registered block is accepted by every duplicate of that block that was fetched
      against the same roots: no error (formerly: no panic) for concurrent fetches of one identifier of one header *)
  Theorem dup_same_root_accepts (r r' : registry) b dg cidb e (d : entry) :
    hw r b = (r', WOk dg) -> (exists container, b = Some (cidb, container)) -> lookup cidb r = Some e ->
    e_ty d = e_ty e -> e_id d = e_id e -> e_root d = e_root e ->
    exists c, dup_unmarshal cdecode verify false d b = Some (populate d c) /\ verify (e_root d) (e_ty d) (e_id d) c = true.
  Proof.
    intros H [container ->] L T I R.
    apply accept_sound in H. destruct H as [cidb' [container' [t [e0 [c [Hb [X [L0 [D [Cd [V _]]]]]]]]]]].
    inversion Hb; subst cidb' container'. rewrite L in L0. inversion L0; subst e0.
    exists c. unfold dup_unmarshal. rewrite X. unfold unmarshal_fn. cbn [andb].
    rewrite T, I, R, D, id_eqb_refl. cbn [negb]. rewrite Cd, V. split; reflexivity.
  Qed.

  (** ** the serving side *)
  Variable populate_from : bty -> id -> option cont.
  Variable cencode : bty -> cont -> cbytes.
  Hypothesis codec_roundtrip : forall t c, cdecode t (cencode t c) = Some c.

  (** serve_accept: for a stored square, what Blockstore.Get builds for the CID of a valid identifier passes the check of a
      pending request for that identifier and fills it with exactly the served container — provided the served container
      verifies against the requester's roots (the completeness half of C01/C05: honest proofs verify) *)
  Theorem serve_accept (r : registry) t sz i j e c :
    height_ok i -> size_ok (kind_of t) sz -> new (kind_of t) sz i = Some j ->
    lookup (block_cid t j) r = Some e -> e_ty e = t -> e_id e = j ->
    populate_from t j = Some c -> verify (e_root e) t j c = true ->
    exists bd, blockstore_get populate_from cencode (block_cid t j) = Some bd /\
               hw r (Some bd) = (update (block_cid t j) (populate e c) r, WOk (enc (kind_of t) j)).
  Proof.
    intros Hh Hs Hn L T I P V.
    exists (block_cid t j, cencode t c). split.
    - unfold blockstore_get. rewrite (cid_bij t sz i j Hh Hs Hn), P. reflexivity.
    - unfold hasher_write, block_cid.
      rewrite (cid_roundtrip t _ (enc_length t sz i j Hh Hs Hn)).
      fold (block_cid t j). rewrite L. unfold unmarshal_fn. cbn [andb].
      rewrite T, (id_roundtrip _ _ _ _ Hh Hs Hn), I, id_eqb_refl. cbn [negb].
      rewrite codec_roundtrip. rewrite <- T, <- I in V |- *. rewrite T in *. rewrite I in *. rewrite V. reflexivity.
  Qed.
End Proofs.

(** in a registry whose keys are the CIDs of its blocks a body can only reach a block of its own type *)
Theorem accept_type {root cont cbytes} (cdecode : bty -> cbytes -> option cont) verify (r r' : registry root cont) b d :
  (forall k e, lookup k r = Some e -> k = block_cid (e_ty e) (e_id e) /\ length (enc (kind_of (e_ty e)) (e_id e)) = id_size (e_ty e)) ->
  hasher_write cdecode verify false r b = (r', WOk d) ->
  exists cidb container e, b = Some (cidb, container) /\ lookup cidb r = Some e /\
    extract_bytes cidb = Some (e_ty e, enc (kind_of (e_ty e)) (e_id e)) /\ d = enc (kind_of (e_ty e)) (e_id e).
Proof.
  intros Hwf H. apply accept_sound in H.
  destruct H as [cidb [container [t [e [c [-> [X [L [D [Cd [V _]]]]]]]]]]].
  destruct (Hwf _ _ L) as [Hk Hl].
  assert (X' : extract_bytes cidb = Some (e_ty e, enc (kind_of (e_ty e)) (e_id e))).
  { rewrite Hk at 1. unfold block_cid. apply cid_roundtrip. exact Hl. }
  rewrite X' in X. inversion X; subst t d.
  exists cidb, container, e. repeat split; auto.
Qed.

(** the code before fix-c10-1: a populated block accepts a body that neither decodes nor verifies — which a duplicate fetch
    of the same CID then fails on (the panic) *)
Theorem early_return_witness :
  let cd := fun (_ : bty) (x : option bool) => x in
  let vf := fun (_ : unit) (_ : bty) (_ : id) (c : bool) => c in
  let k := block_cid BSample (mkid 7 3 5 []) in
  let r := [(k, mkentry BSample (mkid 7 3 5 []) tt (Some true))] in
  hasher_write cd vf true r (Some (k, None)) = (r, WOk (enc KSample (mkid 7 3 5 []))) /\
  hasher_write cd vf false r (Some (k, None)) = (r, WErr) /\
  dup_unmarshal cd vf true (mkentry BSample (mkid 7 3 5 []) tt None) (Some (k, None)) = None.
Proof. repeat split; reflexivity. Qed.

(** C19 — executable model of how celestia-node decides whether a JSON-RPC call reaches a module implementation.

    What is transcribed (and from where):
    - api/rpc/server.go  [RegisterService]: with authentication disabled the *service* is registered as is and the handler
      stack contains no auth handler; otherwise [auth.PermissionedProxy(perms.AllPerms, perms.DefaultPerms, service,
      &out.Internal)] fills the [Internal] fields of the wrapper struct and the *wrapper* is registered;
      [newHandlerStack]: the auth handler is present exactly when authentication is enabled (CORS / metrics are irrelevant);
    - go-jsonrpc/auth [PermissionedProxy]: a missing / unknown `perm` tag panics at registration; a call goes through iff
      the field's tag is a *member* of the caller's permission list (no hierarchy); a context without a permission list
      gets the default list; [Handler.ServeHTTP]: no Authorization header and no `token` form value -> no list;
      a header without the "Bearer " prefix -> 401; a token that does not verify -> 401;
    - libs/authtoken [ExtractSignedPermissions]: parse + signature, claims, expiry ([ExpiresAt] zero = never;
      expired iff strictly before now), then the token's [Allow] list, verbatim.
    The tables (methods, wrapper methods, permission sets, which sets the server passes) come from [Gen/RpcTable.v],
    regenerated from the source on every run.

    No proofs here (Rpc/PermsProofs.v). The harness harness/api/zz_verif_c19_test.go performs every call on a real
    [rpc.Server] and [mismatches] recomputes each outcome with this model. *)
From Coq Require Import String List Bool BinInt BinNat.
From CN Require Import Rpc.Table.
Import ListNotations.
Open Scope string_scope.

(** * Strings *)
Definition mem (p : string) (l : list string) : bool := existsb (String.eqb p) l.

Fixpoint contains (sub s : string) : bool :=
  match s with
  | EmptyString => String.prefix sub s
  | String _ s' => String.prefix sub s || contains sub s'
  end.

Definition opt_is (o : option string) (s : string) : bool :=
  match o with None => true | Some x => String.eqb x s end.

(** * The description a server is built from *)
Record api := mk_api {
  a_methods  : list method;       (* fields of <T>.Internal, all registered modules *)
  a_wrappers : list wrapper;      (* exported methods of the wrapper structs *)
  a_valid    : list permission;   (* validPerms handed to PermissionedProxy *)
  a_default  : list permission    (* defaultPerms handed to PermissionedProxy *)
}.

Definition find_method (A : api) (mo na : string) : option method :=
  find (fun m => String.eqb (m_module m) mo && String.eqb (m_name m) na) (a_methods A).
Definition find_wrapper (A : api) (mo na : string) : option wrapper :=
  find (fun w => String.eqb (w_module w) mo && String.eqb (w_name w) na) (a_wrappers A).

(** * Tokens (libs/authtoken, cristalhq/jwt as used) *)
Record token := mk_token {
  t_wellformed : bool;              (* three base64 parts, JSON header, claims decode as JWTPayload *)
  t_sig_ok     : bool;              (* header algorithm and HMAC match the node's verifier *)
  t_expiry     : option Z;          (* None = zero ExpiresAt = never expires *)
  t_allow      : list permission    (* the Allow list, verbatim *)
}.

Definition verify (now : Z) (t : token) : option (list permission) :=
  if negb (t_wellformed t) then None
  else if negb (t_sig_ok t) then None
  else match t_expiry t with
       | Some e => if (e <? now)%Z then None else Some (t_allow t)
       | None => Some (t_allow t)
       end.

(** * auth.Handler *)
Inductive authz :=
| ANone                                   (* no Authorization header, no `token` form value *)
| AHeader (bearer : bool) (t : token)     (* Authorization: ["Bearer "] ++ t *)
| AForm (t : token).                      (* ?token=t ; the handler prepends "Bearer " itself *)

Inductive gate := G401 | GNext (caller : option (list permission)).

Definition auth_handler (now : Z) (a : authz) : gate :=
  match a with
  | ANone => GNext None
  | AHeader false _ => G401
  | AHeader true t | AForm t =>
      match verify now t with None => G401 | Some ps => GNext (Some ps) end
  end.

(** auth.HasPerm *)
Definition has_perm (caller : option (list permission)) (default : list permission) (p : permission) : bool :=
  mem p (match caller with Some ps => ps | None => default end).

(** * Registration and dispatch *)
Definition tag_ok (A : api) (m : method) : bool :=
  match m_tag m with None => false | Some p => mem p (a_valid A) end.

(** PermissionedProxy completes without panicking *)
Definition proxy_ok (A : api) : bool := forallb (fun m => tag_ok A m && m_is_func m) (a_methods A).

Inductive outcome :=
| OReached (mo na : string)   (* the module implementation's method mo.na was invoked *)
| ODenied                     (* "missing permission to invoke" *)
| O401
| ONotFound
| OStartupPanic               (* registration panics: the node does not come up *)
| OUnchecked (mo na : string) (* a registered wrapper method whose body does not go through a proxied Internal field *)
| OFault.                     (* the proxy panics at call time (no context parameter) *)

Definition call_enabled (A : api) (now : Z) (a : authz) (mo na : string) : outcome :=
  if negb (proxy_ok A) then OStartupPanic else
  match auth_handler now a with
  | G401 => O401
  | GNext caller =>
      match find_wrapper A mo na with
      | None => ONotFound
      | Some w =>
          match w_forward w with
          | None => OUnchecked mo na
          | Some f =>
              match find_method A mo f with
              | None => OUnchecked mo na
              | Some m =>
                  if negb (m_has_ctx m) then OFault else
                  match m_tag m with
                  | None => OStartupPanic
                  | Some p => if has_perm caller (a_default A) p then OReached mo f else ODenied
                  end
              end
          end
      end
  end.

(** authentication disabled: no auth handler, the service itself is registered *)
Definition call_disabled (A : api) (mo na : string) : outcome :=
  match find_method A mo na with Some _ => OReached mo na | None => ONotFound end.

Definition call (A : api) (auth_enabled : bool) (now : Z) (a : authz) (mo na : string) : outcome :=
  if auth_enabled then call_enabled A now a mo na else call_disabled A mo na.

(** the request reaches exactly the implementation of [m] *)
Definition reaches (A : api) (auth_enabled : bool) (now : Z) (a : authz) (m : method) : bool :=
  match call A auth_enabled now a (m_module m) (m_name m) with
  | OReached mo na => String.eqb mo (m_module m) && String.eqb na (m_name m)
  | _ => false
  end.

(** * Credential classes of the property *)
Record permsets := mk_permsets { ps_default : list permission; ps_read : list permission;
                                 ps_readwrite : list permission; ps_all : list permission }.

Inductive cred :=
| CNone | CPublic | CRead | CReadWrite | CAdmin      (* no token / tokens minted with the four standard sets *)
| CExpired | COtherKey | CGarbage                    (* admin token past its expiry / signed with another key / not a JWT *)
| CCustom (allow : list permission).                 (* any other Allow list, properly signed *)

Definition good_token (allow : list permission) : token := mk_token true true None allow.

Definition cred_authz (S : permsets) (now : Z) (c : cred) : authz :=
  match c with
  | CNone => ANone
  | CPublic => AHeader true (good_token (ps_default S))
  | CRead => AHeader true (good_token (ps_read S))
  | CReadWrite => AHeader true (good_token (ps_readwrite S))
  | CAdmin => AHeader true (good_token (ps_all S))
  | CExpired => AHeader true (mk_token true true (Some (now - 1)%Z) (ps_all S))
  | COtherKey => AHeader true (mk_token true false None (ps_all S))
  | CGarbage => AHeader true (mk_token false false None (ps_all S))
  | CCustom l => AHeader true (good_token l)
  end.

(** what the credential is *supposed* to grant (specification side of the matrix) *)
Definition token_perms (A : api) (S : permsets) (c : cred) : list permission :=
  match c with
  | CNone => a_default A
  | CPublic => ps_default S
  | CRead => ps_read S
  | CReadWrite => ps_readwrite S
  | CAdmin => ps_all S
  | CExpired | COtherKey | CGarbage => []
  | CCustom l => l
  end.

Definition allowed (A : api) (S : permsets) (auth_enabled : bool) (now : Z) (c : cred) (m : method) : bool :=
  reaches A auth_enabled now (cred_authz S now c) m.

Definition the_tag (m : method) : permission := match m_tag m with Some p => p | None => "" end.

(** * Sensitivity policy (reviewed; the property's last sentence) *)
Inductive class := KFunds | KSubmit | KCredentials | KIdentityPeers | KReconfigure | KBenign | KUnclassified.

Definition class_eqb (a b : class) : bool :=
  match a, b with
  | KFunds, KFunds | KSubmit, KSubmit | KCredentials, KCredentials | KIdentityPeers, KIdentityPeers
  | KReconfigure, KReconfigure | KBenign, KBenign | KUnclassified, KUnclassified => true
  | _, _ => false
  end.

(** everything except a reviewed benign read needs write or admin; an unclassified method counts as sensitive *)
Definition sensitive (k : class) : bool := negb (class_eqb k KBenign).

Definition par_mentions (s : string) (m : method) : bool := existsb (contains s) (m_params m).
Definition res_mentions (s : string) (m : method) : bool := existsb (contains s) (m_results m).
Definition sig_mentions (s : string) (m : method) : bool := par_mentions s m || res_mentions s m.
Definition any_sig (_ : method) : bool := true.

Record rule := mk_rule {
  ru_module : option string;   (* None = any module *)
  ru_name   : option string;   (* None = any method *)
  ru_sig    : method -> bool;  (* predicate on the signature *)
  ru_class  : class
}.

Definition rule_matches (r : rule) (m : method) : bool :=
  opt_is (ru_module r) (m_module m) && opt_is (ru_name r) (m_name m) && ru_sig r m.

Definition on (mo na : string) (k : class) : rule := mk_rule (Some mo) (Some na) any_sig k.

(** First matching rule wins. Signature rules come first, so that no name-based entry can declare benign a method
    that signs a transaction, handles credentials or names peers. Benign reads are listed one by one: a method that is
    added later matches nothing and stays [KUnclassified]. *)
Definition policy : list rule := [
  (* --- by signature *)
  mk_rule None None (fun m => res_mentions "TxResponse" m && par_mentions "Blob" m) KSubmit;
  mk_rule None None (res_mentions "TxResponse") KFunds;          (* broadcasts a signed transaction *)
  mk_rule None None (par_mentions "TxConfig") KFunds;            (* signs / pays for a transaction *)
  mk_rule None None (par_mentions "SubmitOptions") KSubmit;
  mk_rule None None (sig_mentions "auth.Permission") KCredentials;
  (* --- node administration *)
  on "blob" "Submit" KSubmit;
  on "node" "AuthVerify" KCredentials;
  on "node" "AuthNew" KCredentials;
  on "node" "AuthNewWithExpiry" KCredentials;
  on "node" "LogLevelSet" KReconfigure;
  on "node" "Info" KIdentityPeers;
  (* --- p2p: peer set manipulation is reconfiguration, everything else reveals identity, peers or topology *)
  on "p2p" "Connect" KReconfigure;
  on "p2p" "ClosePeer" KReconfigure;
  on "p2p" "BlockPeer" KReconfigure;
  on "p2p" "UnblockPeer" KReconfigure;
  on "p2p" "Protect" KReconfigure;
  on "p2p" "Unprotect" KReconfigure;
  mk_rule (Some "p2p") None any_sig KIdentityPeers;
  mk_rule None None (sig_mentions "peer.") KIdentityPeers;       (* libp2p peer identities anywhere else *)
  mk_rule None None (sig_mentions "multiaddr") KIdentityPeers;
  (* --- reviewed benign reads (chain / DA data that every peer of the network serves, and node progress) *)
  on "das" "SamplingStats" KBenign;
  on "das" "WaitCatchUp" KBenign;
  on "header" "LocalHead" KBenign;
  on "header" "GetByHash" KBenign;
  on "header" "GetRangeByHeight" KBenign;
  on "header" "GetByHeight" KBenign;
  on "header" "WaitForHeight" KBenign;
  on "header" "SyncState" KBenign;
  on "header" "SyncWait" KBenign;
  on "header" "NetworkHead" KBenign;
  on "header" "Tail" KBenign;
  on "header" "Subscribe" KBenign;
  (* state queries: balances and staking data are public chain state. AccountAddress is the bech32 address of the
     node's *account* (visible in every transaction it signs); it is not the node's network identity (peer id,
     listen addresses), which p2p.Info / node.Info guard with admin. *)
  on "state" "AccountAddress" KBenign;
  on "state" "Balance" KBenign;
  on "state" "BalanceForAddress" KBenign;
  on "state" "QueryDelegationRewards" KBenign;
  on "state" "QueryDelegation" KBenign;
  on "state" "QueryUnbonding" KBenign;
  on "state" "QueryRedelegations" KBenign;
  on "share" "SharesAvailable" KBenign;
  on "share" "GetShare" KBenign;
  on "share" "GetSamples" KBenign;
  on "share" "GetEDS" KBenign;
  on "share" "GetRow" KBenign;
  on "share" "GetNamespaceData" KBenign;
  on "share" "GetRange" KBenign;
  on "node" "Ready" KBenign;
  on "blob" "Get" KBenign;
  on "blob" "GetAll" KBenign;
  on "blob" "GetProof" KBenign;
  on "blob" "Included" KBenign;
  on "blob" "GetCommitmentProof" KBenign;
  on "blob" "Subscribe" KBenign;
  on "blobstream" "GetDataRootTupleRoot" KBenign;
  on "blobstream" "GetDataRootTupleInclusionProof" KBenign
].

Definition classify (m : method) : class :=
  match find (fun r => rule_matches r m) policy with Some r => ru_class r | None => KUnclassified end.

Definition needs_write (m : method) : bool := sensitive (classify m) || m_returns_tx m || res_mentions "TxResponse" m.

Definition write_or_admin (m : method) : bool :=
  match m_tag m with Some p => String.eqb p "write" || String.eqb p "admin" | None => false end.

(** * Structural checks on the tables *)
Definition key_eqb (a b : string * string) : bool := String.eqb (fst a) (fst b) && String.eqb (snd a) (snd b).
Definition mkey (m : method) := (m_module m, m_name m).
Definition wkey (w : wrapper) := (w_module w, w_name w).
Definition kmem (k : string * string) (l : list (string * string)) : bool := existsb (key_eqb k) l.

Fixpoint nodup_keys (l : list (string * string)) : bool :=
  match l with [] => true | k :: l' => negb (kmem k l') && nodup_keys l' end.
Fixpoint nodup_str (l : list string) : bool :=
  match l with [] => true | k :: l' => negb (mem k l') && nodup_str l' end.

(** wrapper method w is a plain forward to the proxied field of the same name *)
Definition wrapper_ok (A : api) (w : wrapper) : bool :=
  w_ptr_recv w && w_args_ok w &&
  match w_forward w with Some f => String.eqb f (w_name w) | None => false end &&
  match find_method A (w_module w) (w_name w) with Some _ => true | None => false end.

Definition method_ok (A : api) (m : method) : bool :=
  tag_ok A m && m_is_func m && m_has_ctx m &&
  match find_wrapper A (m_module m) (m_name m) with Some _ => true | None => false end.

Definition reg_eqb (a b : registration) : bool :=
  String.eqb (r_namespace a) (r_namespace b) && String.eqb (r_dir a) (r_dir b) && String.eqb (r_type a) (r_type b).
Definition reg_mem (r : registration) (l : list registration) : bool := existsb (reg_eqb r) l.

(** the whole table is well formed: the hypothesis of the general theorems, decided by [vm_compute] on the generated data *)
Definition api_ok (A : api) : bool :=
  forallb (method_ok A) (a_methods A) && forallb (wrapper_ok A) (a_wrappers A) &&
  nodup_keys (map mkey (a_methods A)) && nodup_keys (map wkey (a_wrappers A)).

(** * Correspondence cases written by the harness *)
Inductive obs :=
| ObsReached (mo na : string)   (* exactly this mock method was invoked, once; the response carries no error *)
| ObsDenied                     (* nothing invoked; JSON-RPC error "missing permission to invoke ..." *)
| Obs401                        (* nothing invoked; HTTP 401 (POST) / refused websocket handshake with 401 *)
| ObsNotFound                   (* nothing invoked; JSON-RPC error -32601 *)
| ObsOther.                     (* anything else: the harness could not classify *)

Inductive rcase :=
| RCalls (auth_enabled : bool) (a : authz) (calls : list (string * string * obs))
    (* calls (module, method, observed) made with one credential on one real server; tokens relative to now = 0 *)
| RCoverage (auth_enabled : bool) (served : list (string * string)).
    (* the (namespace, method) pairs the running server has registered *)

Definition obs_of (o : outcome) : obs :=
  match o with
  | OReached mo na => ObsReached mo na
  | ODenied => ObsDenied
  | O401 => Obs401
  | ONotFound => ObsNotFound
  | OStartupPanic | OUnchecked _ _ | OFault => ObsOther
  end.

Definition obs_eqb (a b : obs) : bool :=
  match a, b with
  | ObsReached m n, ObsReached m' n' => String.eqb m m' && String.eqb n n'
  | ObsDenied, ObsDenied | Obs401, Obs401 | ObsNotFound, ObsNotFound => true
  | _, _ => false   (* ObsOther never agrees *)
  end.

Definition agree (A : api) (c : rcase) : bool :=
  match c with
  | RCalls e a calls =>
      forallb (fun c => match c with (mo, na, o) => obs_eqb (obs_of (call A e 0%Z a mo na)) o end) calls
  | RCoverage e served =>
      (* the server serves exactly the table: nothing the translator did not see, nothing missing *)
      forallb (fun k => kmem k served) (map mkey (a_methods A)) &&
      forallb (fun k => kmem k (map mkey (a_methods A))) served &&
      (negb e || (forallb (fun k => kmem k served) (map wkey (a_wrappers A)) &&
                  forallb (fun k => kmem k (map wkey (a_wrappers A))) served))
  end.

Fixpoint mism_from (A : api) (n : N) (cs : list rcase) : list N :=
  match cs with
  | [] => []
  | c :: cs' => if agree A c then mism_from A (N.succ n) cs' else n :: mism_from A (N.succ n) cs'
  end.

(** Types of the tables that the translator /verif/translators/perms regenerates as [Gen/RpcTable.v] on every run.
    Types only: no data, no proofs. *)
From Coq Require Import String List.
Import ListNotations.

(** A permission is the string the Go code compares ([auth.Permission] is [string]). *)
Definition permission := string.

(** One [RegisterService(namespace, service, &pkg.T{})] call / one entry of the client's module map. *)
Record registration := mk_registration {
  r_namespace : string;   (* JSON-RPC namespace, e.g. "state" *)
  r_dir       : string;   (* package directory in the repo, e.g. "nodebuilder/state" *)
  r_type      : string    (* wrapper struct, e.g. "API" *)
}.

(** One field of [<T>.Internal]. *)
Record method := mk_method {
  m_module       : string;
  m_name         : string;
  m_tag          : option permission;  (* raw value of the `perm` struct tag; None = missing or empty *)
  m_is_func      : bool;               (* the field has a func type *)
  m_has_ctx      : bool;               (* first parameter is context.Context *)
  m_params       : list string;        (* parameter types after the context, as written *)
  m_results      : list string;        (* result types, as written *)
  m_returns_tx   : bool;               (* some result type mentions TxResponse *)
  m_returns_chan : bool                (* a result is a channel (subscription; websocket only) *)
}.

(** One exported method declared on the wrapper struct. *)
Record wrapper := mk_wrapper {
  w_module   : string;
  w_name     : string;
  w_ptr_recv : bool;
  w_forward  : option string;  (* Some X: the body is exactly `[return] recv.Internal.X(...)` *)
  w_args_ok  : bool            (* ... and passes exactly its own parameters, in order *)
}.

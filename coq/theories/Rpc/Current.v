(** C19 — the model instantiated with the tables regenerated from the working tree ([Gen/RpcTable.v]). No proofs. *)
From Coq Require Import String List Bool BinInt BinNat.
From CN Require Import Rpc.Table Rpc.Perms Gen.RpcTable.
Import ListNotations.
Open Scope string_scope.

(** a permission set of api/rpc/perms/permissions.go by its Go name; an unknown name is the empty set *)
Definition lookup_set (n : string) : list permission :=
  match find (fun p => String.eqb (fst p) n) perm_sets with Some p => snd p | None => [] end.

(** the sets api/rpc/server.go hands to auth.PermissionedProxy *)
Definition cur_api : api :=
  mk_api methods wrappers (lookup_set proxy_valid_set) (lookup_set proxy_default_set).

(** the sets tokens are minted with (cmd/auth.go, nodebuilder/node/admin.go use these four by name) *)
Definition cur_sets : permsets :=
  mk_permsets (lookup_set "DefaultPerms") (lookup_set "ReadPerms") (lookup_set "ReadWritePerms") (lookup_set "AllPerms").

(** server.go wiring facts extracted syntactically by the translator *)
Definition wiring_ok : bool :=
  auth_disabled_registers_service && auth_enabled_registers_proxy && auth_enabled_proxies_internal &&
  auth_handler_skipped_only_when_disabled.

(** registrations: no namespace twice (a second Register would overwrite), every method's module is registered,
    the client addresses exactly the registered modules, no wrapper struct has a field besides Internal *)
Definition registrations_ok : bool :=
  nodup_str (map r_namespace registered) &&
  forallb (fun m => mem (m_module m) (map r_namespace registered)) methods &&
  forallb (fun w => mem (w_module w) (map r_namespace registered)) wrappers &&
  forallb (fun r => reg_mem r client_modules) registered &&
  forallb (fun r => reg_mem r registered) client_modules &&
  match extra_fields with [] => true | _ => false end.

Definition mismatches (cs : list rcase) : list N := mism_from cur_api 0%N cs.

(** for the driver's policy oracle: "module.Method=class;..." *)
Definition class_name (k : class) : string :=
  match k with
  | KFunds => "funds" | KSubmit => "submit" | KCredentials => "credentials" | KIdentityPeers => "identity-or-peers"
  | KReconfigure => "reconfigure" | KBenign => "benign" | KUnclassified => "unclassified"
  end.
Definition policy_dump : string :=
  fold_right (fun m acc => m_module m ++ "." ++ m_name m ++ "=" ++ class_name (classify m) ++
                           (if needs_write m then "!" else "") ++ ";" ++ acc) "" methods.

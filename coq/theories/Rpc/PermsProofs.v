(** C19 — proofs about the model [Rpc/Perms.v].

    Part 1 is general: for *any* api description that passes the decidable well-formedness check [api_ok], for every
    token, time and request. Part 2 instantiates it with the tables regenerated from the source ([Gen/RpcTable.v]);
    the finite facts about those tables are decided by [vm_compute] and lifted with [forallb_forall]. *)
From Coq Require Import String List Bool ZArith NArith Lia.
From CN Require Import Rpc.Table Rpc.Perms Gen.RpcTable Rpc.Current.
Import ListNotations.
Open Scope string_scope.

(** * Part 1 — general lemmas *)

Lemma mem_In p l : mem p l = true <-> In p l.
Proof.
  unfold mem. rewrite existsb_exists. split.
  - intros [x [Hin He]]. apply String.eqb_eq in He. subst. exact Hin.
  - intros H. exists p. split; [exact H | apply String.eqb_refl].
Qed.

Lemma key_eqb_eq a b : key_eqb a b = true <-> a = b.
Proof.
  destruct a as [a1 a2], b as [b1 b2]. unfold key_eqb. simpl. rewrite andb_true_iff, !String.eqb_eq.
  split; [intros [-> ->]; reflexivity | intros H; inversion H; auto].
Qed.

Lemma kmem_In k l : kmem k l = true <-> In k l.
Proof.
  unfold kmem. rewrite existsb_exists. split.
  - intros [x [Hin He]]. apply key_eqb_eq in He. subst. exact Hin.
  - intros H. exists k. split; [exact H | apply key_eqb_eq; reflexivity].
Qed.

(** with pairwise distinct keys, looking an element up by its own key finds that element *)
Lemma find_key {A} (key : A -> string * string) (l : list A) (x : A) :
  nodup_keys (map key l) = true -> In x l ->
  find (fun y => String.eqb (fst (key y)) (fst (key x)) && String.eqb (snd (key y)) (snd (key x))) l = Some x.
Proof.
  induction l as [|y l IH]; intros Hnd Hin; [inversion Hin|].
  simpl in Hnd. apply andb_true_iff in Hnd. destruct Hnd as [Hny Hnd]. simpl.
  destruct (String.eqb (fst (key y)) (fst (key x)) && String.eqb (snd (key y)) (snd (key x))) eqn:E.
  - destruct Hin as [->|Hin]; [reflexivity|].
    exfalso. apply negb_true_iff in Hny.
    assert (kmem (key y) (map key l) = true) as K.
    { apply kmem_In. apply andb_true_iff in E. destruct E as [E1 E2].
      apply String.eqb_eq in E1. apply String.eqb_eq in E2.
      replace (key y) with (key x) by (destruct (key x), (key y); simpl in *; congruence).
      apply in_map. exact Hin. }
    congruence.
  - destruct Hin as [->|Hin].
    + rewrite !String.eqb_refl in E. discriminate.
    + apply IH; assumption.
Qed.

Section General.
  Variable A : api.
  Hypothesis Aok : api_ok A = true.

  Lemma aok_methods : forall m, In m (a_methods A) -> method_ok A m = true.
  Proof.
    unfold api_ok in Aok. rewrite !andb_true_iff in Aok. destruct Aok as [[[H _] _] _].
    rewrite forallb_forall in H. exact H.
  Qed.

  Lemma aok_wrappers : forall w, In w (a_wrappers A) -> wrapper_ok A w = true.
  Proof.
    unfold api_ok in Aok. rewrite !andb_true_iff in Aok. destruct Aok as [[[_ H] _] _].
    rewrite forallb_forall in H. exact H.
  Qed.

  Lemma aok_nodup_methods : nodup_keys (map mkey (a_methods A)) = true.
  Proof. unfold api_ok in Aok. rewrite !andb_true_iff in Aok. tauto. Qed.

  Lemma aok_nodup_wrappers : nodup_keys (map wkey (a_wrappers A)) = true.
  Proof. unfold api_ok in Aok. rewrite !andb_true_iff in Aok. tauto. Qed.

  Lemma find_method_self m : In m (a_methods A) -> find_method A (m_module m) (m_name m) = Some m.
  Proof. intros H. exact (find_key mkey (a_methods A) m aok_nodup_methods H). Qed.

  Lemma find_wrapper_self w : In w (a_wrappers A) -> find_wrapper A (w_module w) (w_name w) = Some w.
  Proof. intros H. exact (find_key wkey (a_wrappers A) w aok_nodup_wrappers H). Qed.

  Lemma find_method_sound mo na m : find_method A mo na = Some m -> In m (a_methods A) /\ m_module m = mo /\ m_name m = na.
  Proof.
    unfold find_method. intros H. apply find_some in H. destruct H as [Hin He].
    apply andb_true_iff in He. destruct He as [E1 E2]. apply String.eqb_eq in E1. apply String.eqb_eq in E2. auto.
  Qed.

  Lemma find_wrapper_sound mo na w : find_wrapper A mo na = Some w -> In w (a_wrappers A) /\ w_module w = mo /\ w_name w = na.
  Proof.
    unfold find_wrapper. intros H. apply find_some in H. destruct H as [Hin He].
    apply andb_true_iff in He. destruct He as [E1 E2]. apply String.eqb_eq in E1. apply String.eqb_eq in E2. auto.
  Qed.

  Lemma proxy_ok_true : proxy_ok A = true.
  Proof.
    unfold proxy_ok. apply forallb_forall. intros m Hm. pose proof (aok_methods m Hm) as H.
    unfold method_ok in H. rewrite !andb_true_iff in H. destruct H as [[[H1 H2] _] _]. rewrite H1, H2. reflexivity.
  Qed.

  (** every field has a tag accepted at registration, a context parameter and a registered wrapper method *)
  Lemma method_facts m : In m (a_methods A) ->
    exists p w, m_tag m = Some p /\ In p (a_valid A) /\ m_has_ctx m = true /\
                find_wrapper A (m_module m) (m_name m) = Some w.
  Proof.
    intros Hm. pose proof (aok_methods m Hm) as H. unfold method_ok in H. rewrite !andb_true_iff in H.
    destruct H as [[[H1 _] H3] H4]. unfold tag_ok in H1. destruct (m_tag m) as [p|] eqn:T; [|discriminate].
    destruct (find_wrapper A (m_module m) (m_name m)) as [w|] eqn:W; [|discriminate].
    exists p, w. repeat split; auto. apply mem_In. exact H1.
  Qed.

  (** every registered wrapper method is a plain forward to the proxied field of the same name *)
  Lemma wrapper_facts w : In w (a_wrappers A) ->
    w_forward w = Some (w_name w) /\ w_args_ok w = true /\ w_ptr_recv w = true /\
    exists m, find_method A (w_module w) (w_name w) = Some m.
  Proof.
    intros Hw. pose proof (aok_wrappers w Hw) as H. unfold wrapper_ok in H. rewrite !andb_true_iff in H.
    destruct H as [[[H1 H2] H3] H4].
    destruct (w_forward w) as [f|]; [|discriminate]. apply String.eqb_eq in H3. subst f.
    destruct (find_method A (w_module w) (w_name w)) as [m|]; [|discriminate].
    repeat split; auto. exists m. reflexivity.
  Qed.

  (** ** The dispatch, in closed form *)
  Lemma call_enabled_spec now a m : In m (a_methods A) ->
    call_enabled A now a (m_module m) (m_name m) =
    match auth_handler now a with
    | G401 => O401
    | GNext caller => if has_perm caller (a_default A) (the_tag m) then OReached (m_module m) (m_name m) else ODenied
    end.
  Proof.
    intros Hm. unfold call_enabled. rewrite proxy_ok_true. simpl.
    destruct (auth_handler now a) as [|caller]; [reflexivity|].
    destruct (method_facts m Hm) as [p [w [T [_ [C W]]]]]. rewrite W.
    destruct (find_wrapper_sound _ _ _ W) as [Hw [Wm Wn]].
    destruct (wrapper_facts w Hw) as [F _]. rewrite F, Wn.
    rewrite (find_method_self m Hm). rewrite C. simpl. unfold the_tag. rewrite T. reflexivity.
  Qed.

  Lemma reaches_enabled_spec now a m : In m (a_methods A) ->
    reaches A true now a m =
    match auth_handler now a with G401 => false | GNext caller => has_perm caller (a_default A) (the_tag m) end.
  Proof.
    intros Hm. unfold reaches, call. rewrite (call_enabled_spec now a m Hm).
    destruct (auth_handler now a) as [|caller]; [reflexivity|].
    destruct (has_perm caller (a_default A) (the_tag m)); [|reflexivity].
    rewrite !String.eqb_refl. reflexivity.
  Qed.

  Lemma reaches_disabled now a m : In m (a_methods A) -> reaches A false now a m = true.
  Proof.
    intros Hm. unfold reaches, call, call_disabled. rewrite (find_method_self m Hm). rewrite !String.eqb_refl. reflexivity.
  Qed.

  (** ** Tokens that do not verify are answered 401 whatever is asked for *)
  Lemma unverified_401 now t mo na : verify now t = None ->
    call A true now (AHeader true t) mo na = O401 /\ call A true now (AForm t) mo na = O401.
  Proof.
    intros V. unfold call, call_enabled. rewrite proxy_ok_true. simpl. rewrite V. split; reflexivity.
  Qed.

  Lemma no_bearer_401 now t mo na : call A true now (AHeader false t) mo na = O401.
  Proof. unfold call, call_enabled. rewrite proxy_ok_true. reflexivity. Qed.

  (** ** No request ends in an unchecked invocation, a startup panic or a proxy fault *)
  Lemma call_total now e a mo na :
    match call A e now a mo na with
    | OReached mo' na' => mo' = mo /\ na' = na /\ exists m, In m (a_methods A) /\ m_module m = mo /\ m_name m = na
    | ODenied | O401 | ONotFound => True
    | OStartupPanic | OUnchecked _ _ | OFault => False
    end.
  Proof.
    destruct e; unfold call.
    - unfold call_enabled. rewrite proxy_ok_true. simpl.
      destruct (auth_handler now a) as [|caller]; [exact I|].
      destruct (find_wrapper A mo na) as [w|] eqn:W; [|exact I].
      destruct (find_wrapper_sound _ _ _ W) as [Hw [Wm Wn]].
      destruct (wrapper_facts w Hw) as [F [_ [_ [m M]]]]. rewrite F, Wm, Wn in *. rewrite M.
      destruct (find_method_sound _ _ _ M) as [Hm [Mm Mn]].
      destruct (method_facts m Hm) as [p [w' [T [_ [C _]]]]]. rewrite C, T. simpl.
      destruct (has_perm caller (a_default A) p); [|exact I].
      repeat split; auto. exists m. auto.
    - unfold call_disabled. destruct (find_method A mo na) as [m|] eqn:M; [|exact I].
      destruct (find_method_sound _ _ _ M) as [Hm [Mm Mn]]. repeat split; auto. exists m. auto.
  Qed.

  (** ** The matrix *)
  Variable S : permsets.

  Lemma cred_gate now c :
    auth_handler now (cred_authz S now c) =
    match c with
    | CNone => GNext None
    | CExpired | COtherKey | CGarbage => G401
    | _ => GNext (Some (token_perms A S c))
    end.
  Proof.
    destruct c; simpl; try reflexivity.
    unfold verify. simpl. replace (now - 1 <? now)%Z with true by (symmetry; apply Z.ltb_lt; lia). reflexivity.
  Qed.

  Lemma allowed_enabled_spec now c m : In m (a_methods A) ->
    allowed A S true now c m = mem (the_tag m) (token_perms A S c).
  Proof.
    intros Hm. unfold allowed. rewrite (reaches_enabled_spec now _ m Hm). rewrite cred_gate.
    destruct c; reflexivity.
  Qed.

  Theorem matrix_general e now c m : In m (a_methods A) ->
    (allowed A S e now c m = true <-> (e = false \/ In (the_tag m) (token_perms A S c))).
  Proof.
    intros Hm. destruct e.
    - rewrite (allowed_enabled_spec now c m Hm). rewrite mem_In. split; [auto | intros [H|H]; [discriminate|exact H]].
    - unfold allowed. rewrite (reaches_disabled now _ m Hm). split; auto.
  Qed.

  (** the outcome of a refused call says why *)
  Lemma invalid_cred_401 now c mo na : c = CExpired \/ c = COtherKey \/ c = CGarbage ->
    call A true now (cred_authz S now c) mo na = O401.
  Proof.
    intros H. unfold call, call_enabled. rewrite proxy_ok_true. simpl. rewrite cred_gate.
    destruct H as [->|[->| ->]]; reflexivity.
  Qed.
End General.

(** * Part 2 — the tables of the current tree *)

Lemma cur_api_ok : api_ok cur_api = true.
Proof. vm_compute. reflexivity. Qed.

Lemma cur_wiring_ok : wiring_ok = true.
Proof. vm_compute. reflexivity. Qed.

Lemma cur_registrations_ok : registrations_ok = true.
Proof. vm_compute. reflexivity. Qed.

Definition std_perms : list permission := ["public"; "read"; "write"; "admin"].

Lemma cur_permission_sets :
  cur_sets = mk_permsets ["public"] ["public"; "read"] ["public"; "read"; "write"] ["public"; "read"; "write"; "admin"] /\
  a_default cur_api = ["public"] /\ a_valid cur_api = std_perms.
Proof. vm_compute. auto. Qed.

Lemma cur_methods : a_methods cur_api = methods. Proof. reflexivity. Qed.
Lemma cur_wrappers : a_wrappers cur_api = wrappers. Proof. reflexivity. Qed.

Lemma every_method_tagged : forall m, In m methods ->
  exists p, m_tag m = Some p /\ In p std_perms /\ m_is_func m = true /\ m_has_ctx m = true.
Proof.
  assert (forallb (fun m => match m_tag m with Some p => mem p std_perms | None => false end
                            && m_is_func m && m_has_ctx m) methods = true) as H by (vm_compute; reflexivity).
  rewrite forallb_forall in H. intros m Hm. specialize (H m Hm). rewrite !andb_true_iff in H.
  destruct H as [[H1 H2] H3]. destruct (m_tag m) as [p|]; [|discriminate].
  exists p. repeat split; auto. apply mem_In. exact H1.
Qed.

Lemma server_starts : proxy_ok cur_api = true.
Proof. exact (proxy_ok_true cur_api cur_api_ok). Qed.

Lemma matrix : forall e now c m, In m methods ->
  (allowed cur_api cur_sets e now c m = true <-> (e = false \/ In (the_tag m) (token_perms cur_api cur_sets c))).
Proof. intros e now c m Hm. apply (matrix_general cur_api cur_api_ok cur_sets). exact Hm. Qed.

Lemma no_token_public_only : forall now m, In m methods ->
  allowed cur_api cur_sets true now CNone m = true -> m_tag m = Some "public".
Proof.
  intros now m Hm H. apply (matrix true now CNone m Hm) in H. destruct H as [H|H]; [discriminate|].
  change (token_perms cur_api cur_sets CNone) with (a_default cur_api) in H.
  destruct cur_permission_sets as [_ [D _]]. rewrite D in H.
  destruct (every_method_tagged m Hm) as [p [T _]]. unfold the_tag in H. rewrite T in *.
  destruct H as [H|[]]. subst. reflexivity.
Qed.

Lemma invalid_tokens_grant_nothing : forall now t mo na, verify now t = None ->
  call cur_api true now (AHeader true t) mo na = O401 /\ call cur_api true now (AForm t) mo na = O401.
Proof. intros. apply (unverified_401 cur_api cur_api_ok). assumption. Qed.

Lemma missing_bearer_grants_nothing : forall now t mo na, call cur_api true now (AHeader false t) mo na = O401.
Proof. intros. apply (no_bearer_401 cur_api cur_api_ok). Qed.

Lemma invalid_classes_grant_nothing : forall now c mo na, c = CExpired \/ c = COtherKey \/ c = CGarbage ->
  call cur_api true now (cred_authz cur_sets now c) mo na = O401.
Proof. intros. apply (invalid_cred_401 cur_api cur_api_ok). assumption. Qed.

(** what makes a token invalid *)
Lemma verify_none_iff now t :
  verify now t = None <->
  (t_wellformed t = false \/ t_sig_ok t = false \/ exists e, t_expiry t = Some e /\ (e < now)%Z).
Proof.
  unfold verify. destruct (t_wellformed t), (t_sig_ok t); simpl; try (split; auto; fail).
  destruct (t_expiry t) as [e|].
  - destruct (e <? now)%Z eqn:E.
    + split; auto. intros _. right. right. exists e. split; auto. apply Z.ltb_lt. exact E.
    + split; [discriminate|]. intros [H|[H|[e' [H1 H2]]]]; try discriminate.
      inversion H1. subst. apply Z.ltb_lt in H2. congruence.
  - split; [discriminate|]. intros [H|[H|[e' [H1 _]]]]; discriminate.
Qed.

Lemma invalid_tokens_401 : forall now t mo na,
  (t_wellformed t = false \/ t_sig_ok t = false \/ exists e, t_expiry t = Some e /\ (e < now)%Z) ->
  call cur_api true now (AHeader true t) mo na = O401 /\ call cur_api true now (AForm t) mo na = O401.
Proof. intros now t mo na H. apply invalid_tokens_grant_nothing. apply verify_none_iff. exact H. Qed.

Lemma auth_disabled_grants_all : forall now a m, In m methods -> reaches cur_api false now a m = true.
Proof. intros. apply (reaches_disabled cur_api cur_api_ok). assumption. Qed.

Lemma every_method_classified : forall m, In m methods -> classify m <> KUnclassified.
Proof.
  assert (forallb (fun m => negb (class_eqb (classify m) KUnclassified)) methods = true) as H by (vm_compute; reflexivity).
  rewrite forallb_forall in H. intros m Hm E. specialize (H m Hm). rewrite E in H. discriminate.
Qed.

Lemma sensitive_need_write : forall m, In m methods ->
  classify m <> KBenign \/ m_returns_tx m = true ->
  m_tag m = Some "write" \/ m_tag m = Some "admin".
Proof.
  assert (forallb (fun m => negb (needs_write m) || write_or_admin m) methods = true) as H by (vm_compute; reflexivity).
  rewrite forallb_forall in H. intros m Hm Hs. specialize (H m Hm).
  assert (needs_write m = true) as N.
  { unfold needs_write, sensitive. destruct Hs as [Hs|Hs].
    - destruct (classify m); try reflexivity. congruence.
    - rewrite Hs. rewrite orb_true_r. reflexivity. }
  rewrite N in H. simpl in H. unfold write_or_admin in H.
  destruct (m_tag m) as [p|]; [|discriminate]. apply orb_true_iff in H.
  destruct H as [H|H]; apply String.eqb_eq in H; subst; auto.
Qed.

(** the translator's TxResponse flag agrees with the result types it printed *)
Lemma returns_tx_flag : forall m, In m methods -> m_returns_tx m = res_mentions "TxResponse" m.
Proof.
  assert (forallb (fun m => Bool.eqb (m_returns_tx m) (res_mentions "TxResponse" m)) methods = true) as H by (vm_compute; reflexivity).
  rewrite forallb_forall in H. intros m Hm. apply Bool.eqb_prop. apply H. exact Hm.
Qed.

(** consequence: below write, a sensitive method is out of reach *)
Lemma sensitive_unreachable_below_write : forall now c m, In m methods ->
  classify m <> KBenign \/ m_returns_tx m = true ->
  ~ In "write" (token_perms cur_api cur_sets c) -> ~ In "admin" (token_perms cur_api cur_sets c) ->
  allowed cur_api cur_sets true now c m = false.
Proof.
  intros now c m Hm Hs Hw Ha. destruct (allowed cur_api cur_sets true now c m) eqn:E; [|reflexivity].
  apply (matrix true now c m Hm) in E. destruct E as [E|E]; [discriminate|].
  destruct (sensitive_need_write m Hm Hs) as [T|T]; unfold the_tag in E; rewrite T in E; contradiction.
Qed.

Lemma no_unproxied_method : forall w, In w wrappers ->
  w_forward w = Some (w_name w) /\ w_args_ok w = true /\
  exists m, In m methods /\ m_module m = w_module w /\ m_name m = w_name w.
Proof.
  intros w Hw. destruct (wrapper_facts cur_api cur_api_ok w Hw) as [F [G [_ [m M]]]].
  destruct (find_method_sound cur_api _ _ _ M) as [Hm [Mm Mn]]. repeat split; auto. exists m. auto.
Qed.

Lemma every_field_registered : forall m, In m methods ->
  exists w, In w wrappers /\ w_module w = m_module m /\ w_name w = m_name m.
Proof.
  intros m Hm. destruct (method_facts cur_api cur_api_ok m Hm) as [p [w [_ [_ [_ W]]]]].
  destruct (find_wrapper_sound cur_api _ _ _ W) as [Hw [Wm Wn]]. exists w. auto.
Qed.

Lemma no_unchecked_outcome : forall e now a mo na,
  match call cur_api e now a mo na with
  | OReached mo' na' => mo' = mo /\ na' = na /\ exists m, In m methods /\ m_module m = mo /\ m_name m = na
  | ODenied | O401 | ONotFound => True
  | OStartupPanic | OUnchecked _ _ | OFault => False
  end.
Proof. intros. exact (call_total cur_api cur_api_ok now e a mo na). Qed.

Lemma mem_str_In p l : mem p l = true <-> In p l. Proof. apply mem_In. Qed.

Lemma registrations_facts :
  NoDup (map r_namespace registered) /\
  (forall m, In m methods -> In (m_module m) (map r_namespace registered)) /\
  (forall r, In r registered <-> In r client_modules) /\
  extra_fields = [].
Proof.
  pose proof cur_registrations_ok as H. unfold registrations_ok in H. rewrite !andb_true_iff in H.
  destruct H as [[[[[H1 H2] H3] H4] H5] H6].
  assert (forall a b, reg_eqb a b = true -> a = b) as RE.
  { intros [a1 a2 a3] [b1 b2 b3]. unfold reg_eqb. simpl. rewrite !andb_true_iff, !String.eqb_eq.
    intros [[-> ->] ->]. reflexivity. }
  assert (forall r l, reg_mem r l = true -> In r l) as RM.
  { intros r l. unfold reg_mem. rewrite existsb_exists. intros [x [Hx E]]. apply RE in E. subst. exact Hx. }
  split; [|split; [|split]].
  - clear -H1. induction (map r_namespace registered) as [|x l IH]; [constructor|].
    simpl in H1. apply andb_true_iff in H1. destruct H1 as [N R]. constructor; [|apply IH; exact R].
    intros Hin. apply mem_In in Hin. rewrite Hin in N. discriminate.
  - rewrite forallb_forall in H2. intros m Hm. apply mem_In. apply H2. exact Hm.
  - rewrite forallb_forall in H4. rewrite forallb_forall in H5. intros r. split; intros Hr; apply RM; auto.
  - destruct extra_fields; [reflexivity|discriminate].
Qed.

(** * Non-vacuity *)

(** the current table exercises both directions of the matrix at every level *)
Example matrix_nonvacuous :
  (exists m, In m methods /\ allowed cur_api cur_sets true 0 CRead m = true /\ allowed cur_api cur_sets true 0 CPublic m = false) /\
  (exists m, In m methods /\ allowed cur_api cur_sets true 0 CReadWrite m = true /\ allowed cur_api cur_sets true 0 CRead m = false) /\
  (exists m, In m methods /\ allowed cur_api cur_sets true 0 CAdmin m = true /\ allowed cur_api cur_sets true 0 CReadWrite m = false) /\
  (* membership, not hierarchy: a token that lists only "admin" does not reach a read method *)
  (exists m, In m methods /\ allowed cur_api cur_sets true 0 (CCustom ["admin"]) m = false /\ allowed cur_api cur_sets true 0 CRead m = true) /\
  (exists m, In m methods /\ (classify m <> KBenign \/ m_returns_tx m = true)) /\
  (exists m, In m methods /\ classify m = KBenign /\ m_tag m = Some "read").
Proof.
  assert (forall (P : method -> bool), existsb P methods = true -> exists m, In m methods /\ P m = true) as EX.
  { intros P H. apply existsb_exists in H. exact H. }
  repeat split.
  - destruct (EX (fun m => allowed cur_api cur_sets true 0 CRead m && negb (allowed cur_api cur_sets true 0 CPublic m))) as [m [Hm H]];
      [vm_compute; reflexivity|]. apply andb_true_iff in H. destruct H as [H1 H2]. apply negb_true_iff in H2. exists m. auto.
  - destruct (EX (fun m => allowed cur_api cur_sets true 0 CReadWrite m && negb (allowed cur_api cur_sets true 0 CRead m))) as [m [Hm H]];
      [vm_compute; reflexivity|]. apply andb_true_iff in H. destruct H as [H1 H2]. apply negb_true_iff in H2. exists m. auto.
  - destruct (EX (fun m => allowed cur_api cur_sets true 0 CAdmin m && negb (allowed cur_api cur_sets true 0 CReadWrite m))) as [m [Hm H]];
      [vm_compute; reflexivity|]. apply andb_true_iff in H. destruct H as [H1 H2]. apply negb_true_iff in H2. exists m. auto.
  - destruct (EX (fun m => negb (allowed cur_api cur_sets true 0 (CCustom ["admin"]) m) && allowed cur_api cur_sets true 0 CRead m)) as [m [Hm H]];
      [vm_compute; reflexivity|]. apply andb_true_iff in H. destruct H as [H1 H2]. apply negb_true_iff in H1. exists m. auto.
  - destruct (EX (fun m => negb (class_eqb (classify m) KBenign))) as [m [Hm H]]; [vm_compute; reflexivity|].
    exists m. split; auto. left. intros E. rewrite E in H. discriminate.
  - destruct (EX (fun m => class_eqb (classify m) KBenign && match m_tag m with Some p => String.eqb p "read" | None => false end)) as [m [Hm H]];
      [vm_compute; reflexivity|]. apply andb_true_iff in H. destruct H as [H1 H2]. exists m. split; auto. split.
    + destruct (classify m); try discriminate; reflexivity.
    + destruct (m_tag m) as [p|]; [|discriminate]. apply String.eqb_eq in H2. subst. reflexivity.
Qed.

(** a small table with the defects the structural theorems exclude: the model does exhibit them *)
Definition demo_api : api :=
  mk_api
    [ mk_method "x" "Ping" (Some "public") true true [] ["error"] false false;
      mk_method "x" "Pay" (Some "write") true true ["*state.TxConfig"] ["*state.TxResponse"; "error"] true false;
      mk_method "x" "Peers" (Some "read") true true [] ["[]peer.ID"; "error"] false false;
      mk_method "x" "Fresh" (Some "read") true true [] ["error"] false false ]
    [ mk_wrapper "x" "Ping" true (Some "Ping") true;
      mk_wrapper "x" "Pay" true (Some "Pay") true;
      mk_wrapper "x" "Peers" true (Some "Peers") true;
      mk_wrapper "x" "Fresh" true (Some "Fresh") true;
      mk_wrapper "x" "Backdoor" true None false ]
    ["public"; "read"; "write"; "admin"] ["public"].

Definition demo_untagged : api :=
  mk_api [ mk_method "x" "Ping" None true true [] ["error"] false false ] [ mk_wrapper "x" "Ping" true (Some "Ping") true ]
         ["public"; "read"; "write"; "admin"] ["public"].

Example demo_defects_visible :
  (* a public method is the only thing reachable without a token *)
  call demo_api true 0 ANone "x" "Ping" = OReached "x" "Ping" /\
  call demo_api true 0 ANone "x" "Fresh" = ODenied /\
  (* a wrapper method without a proxied field is reachable unchecked: api_ok rejects the table *)
  call demo_api true 0 ANone "x" "Backdoor" = OUnchecked "x" "Backdoor" /\ api_ok demo_api = false /\
  (* a method naming peers tagged read, and a method nobody classified, are caught by the policy *)
  classify (mk_method "x" "Peers" (Some "read") true true [] ["[]peer.ID"; "error"] false false) = KIdentityPeers /\
  classify (mk_method "x" "Fresh" (Some "read") true true [] ["error"] false false) = KUnclassified /\
  classify (mk_method "header" "GetByHeight" (Some "read") true true ["uint64"; "*state.TxConfig"] ["error"] false false) = KFunds /\
  (* a missing tag: the server does not come up *)
  call demo_untagged true 0 ANone "x" "Ping" = OStartupPanic /\
  (* an expired admin token, one second late *)
  call demo_api true 100 (AHeader true (mk_token true true (Some 99%Z) ["admin"])) "x" "Ping" = O401 /\
  call demo_api true 100 (AHeader true (mk_token true true (Some 100%Z) ["admin"])) "x" "Ping" = ODenied.
Proof. vm_compute. repeat split; reflexivity. Qed.

(** C17 — executable model of share/shwap/p2p/shrex/peers/manager.go (peer manager: pools by data hash, the
    validated flag, the general [nodes] pool, peer and hash blacklists, garbage collection).  Built on the pool
    model [Peers.Pool]; transcribed from the Go code method by method; no proofs here.

    Granularity: one event = one call of a Manager entry point (shrex-sub validator, header arrival, Peer, the
    DoneFunc, discovery update, disconnect event, one GC round), executed atomically.  The manager does not hold
    one lock across such a call: interleavings INSIDE a call are the subject of [Peers.Fine] (same state, every call
    split into its critical sections; the events below are its threads run alone from start to finish, and every
    sequential correspondence case is evaluated by both models).

    Go map iteration order: [validatedPool] adds [p.peers()] (a walk over a map) to [nodes], and the GC blacklists
    a set collected in a map; the order decides the order of [nodes.peersList] and the moments lazy cleanups run.  The
    events carry that order ([order]) as an explicit parameter: theorems quantify over every order, correspondence
    cases record the order the implementation used. *)
From Coq Require Import List ZArith NArith Bool.
From CN Require Import Peers.Pool.
Import ListNotations.
Open Scope N_scope.

Definition hash := N.

Record hpool := mkSpool {
  sp_pool : pool;
  sp_valid : bool;      (* isValidatedDataHash *)
  sp_height : N;
  sp_old : bool         (* time.Since(createdAt) > PoolValidationTimeout *)
}.

Record mgr := mkMgr {
  m_pools : list (hash * hpool);   (* pools, most recently created first *)
  m_nodes : pool;
  m_black : list peer;             (* peers blocked in the connection gater *)
  m_bhash : list hash;             (* blacklistedHashes *)
  m_init  : N;                     (* initialHeight (0 = not set) *)
  m_from  : N;                     (* storeFrom *)
  m_enable : bool;                 (* params.EnableBlackListing *)
  m_self  : peer;                  (* host.ID() *)
  m_ttl   : N;                     (* params.PeerCooldown *)
  m_now   : N                      (* the clock shared by all cool-down queues *)
}.

Definition stored_pools_amount : N := 10.

Definition new_mgr (enable : bool) (self : peer) (ttl : N) : mgr :=
  mkMgr [] (new_pool ttl) [] [] 0 0 enable self ttl 0.

Definition set_pools (m : mgr) (ps : list (hash * hpool)) : mgr :=
  mkMgr ps (m_nodes m) (m_black m) (m_bhash m) (m_init m) (m_from m) (m_enable m) (m_self m) (m_ttl m) (m_now m).
Definition set_nodes (m : mgr) (n : pool) : mgr :=
  mkMgr (m_pools m) n (m_black m) (m_bhash m) (m_init m) (m_from m) (m_enable m) (m_self m) (m_ttl m) (m_now m).
Definition set_black (m : mgr) (b : list peer) : mgr :=
  mkMgr (m_pools m) (m_nodes m) b (m_bhash m) (m_init m) (m_from m) (m_enable m) (m_self m) (m_ttl m) (m_now m).
Definition set_bhash (m : mgr) (b : list hash) : mgr :=
  mkMgr (m_pools m) (m_nodes m) (m_black m) b (m_init m) (m_from m) (m_enable m) (m_self m) (m_ttl m) (m_now m).
Definition set_mnow (m : mgr) (t : N) : mgr :=
  mkMgr (m_pools m) (m_nodes m) (m_black m) (m_bhash m) (m_init m) (m_from m) (m_enable m) (m_self m) (m_ttl m) t.
Definition set_heights (m : mgr) (i f : N) : mgr :=
  mkMgr (m_pools m) (m_nodes m) (m_black m) (m_bhash m) i f (m_enable m) (m_self m) (m_ttl m) (m_now m).

Definition mem (x : N) (l : list N) : bool := existsb (N.eqb x) l.

Fixpoint find_pool (ps : list (hash * hpool)) (h : hash) : option hpool :=
  match ps with [] => None | (k, v) :: ps' => if N.eqb k h then Some v else find_pool ps' h end.

Fixpoint put_pool (ps : list (hash * hpool)) (h : hash) (v : hpool) : list (hash * hpool) :=
  match ps with
  | [] => [(h, v)]
  | (k, w) :: ps' => if N.eqb k h then (k, v) :: ps' else (k, w) :: put_pool ps' h v
  end.

Definition is_blacklisted (m : mgr) (x : peer) : bool := mem x (m_black m).

(** pool.has: present and not removed *)
Definition has (p : pool) (x : peer) : bool :=
  match pstat p x with Some Active | Some Cooldown => true | _ => false end.

(** pool.peers(): every peer whose status is not removed; [order] resolves the map iteration order *)
Definition peers_of (p : pool) : list peer := filter (has p) (plist p).

Definition canon (order set : list peer) : list peer :=
  filter (fun x => mem x set) order ++ filter (fun x => negb (mem x order)) set.

(** getOrCreatePool *)
Definition get_or_create (m : mgr) (h : hash) (height : N) : mgr * hpool :=
  match find_pool (m_pools m) h with
  | Some sp => (m, sp)
  | None => let sp := mkSpool (set_now (new_pool (m_ttl m)) (m_now m)) false height false in (set_pools m ((h, sp) :: m_pools m), sp)
  end.

Definition upd_pool (m : mgr) (h : hash) (f : hpool -> hpool) : mgr :=
  match find_pool (m_pools m) h with
  | Some sp => set_pools m (put_pool (m_pools m) h (f sp))
  | None => m
  end.

Definition with_pool (sp : hpool) (p : pool) : hpool := mkSpool p (sp_valid sp) (sp_height sp) (sp_old sp).

(** validatedPool (repaired: blacklisted announcers are not promoted) *)
Definition validated_pool (m : mgr) (h : hash) (height : N) (order : list peer) : mgr :=
  let '(m1, sp) := get_or_create m h height in
  if sp_valid sp then m1 else
  let m2 := upd_pool m1 h (fun s => mkSpool (sp_pool s) true (sp_height s) (sp_old s)) in
  let ps := filter (fun x => negb (is_blacklisted m2 x)) (canon order (peers_of (sp_pool sp))) in
  set_nodes m2 (add (m_nodes m2) ps).

(** Validate (the shrex-sub validator) *)
Inductive vres := VAccept | VReject | VIgnore.

Definition validate (m : mgr) (x : peer) (h : hash) (height : N) : mgr * vres :=
  if N.eqb x (m_self m) then (m, VAccept)
  else if mem h (m_bhash m) then (m, VReject)
  else if is_blacklisted m x then (m, VReject)
  else if height <? m_from m then (m, VIgnore)
  else
    let '(m1, sp) := get_or_create m h height in
    let m2 := upd_pool m1 h (fun s => with_pool s (add (sp_pool s) [x])) in
    let m3 := if sp_valid sp then set_nodes m2 (add (m_nodes m2) [x]) else m2 in
    (m3, VIgnore).

(** header arrival (body of the subscribeHeader loop) *)
Definition header (m : mgr) (h : hash) (height : N) (order : list peer) : mgr :=
  let m1 := validated_pool m h height order in
  let i := if N.eqb (m_init m1) 0 then height else m_init m1 in
  set_heights m1 i (height - stored_pools_amount).

(** Peer: the non-blocking part (hash pool, then nodes); [PWait] = the call would wait for a peer *)
Inductive source := SShrexSub | SDiscovered.
Inductive pres := PRes (x : peer) (src : source) | PWait.

Fixpoint peer_loop (fuel : nat) (m : mgr) (h : hash) : mgr * pres :=
  match fuel with
  | O => (m, PWait)
  | S f =>
    match find_pool (m_pools m) h with
    | None => (m, PWait)
    | Some sp =>
      let '(p', r) := try_get (sp_pool sp) in
      match r with
      | GSome x =>
        let m1 := upd_pool m h (fun s => with_pool s p') in
        (* removeIfUnreachable *)
        if is_blacklisted m1 x || negb (has (m_nodes m1) x)
        then peer_loop f (upd_pool m1 h (fun s => with_pool s (remove (sp_pool s) [x]))) h
        else (m1, PRes x SShrexSub)
      | _ =>
        let m1 := upd_pool m h (fun s => with_pool s p') in
        let '(n', r') := try_get (m_nodes m1) in
        match r' with
        | GSome x =>
          let m2 := set_nodes m1 n' in
          (* repaired: a blacklisted peer found in the general pool is dropped, not handed out *)
          if is_blacklisted m2 x then peer_loop f (set_nodes m2 (remove (m_nodes m2) [x])) h
          else (m2, PRes x SDiscovered)
        | _ => (set_nodes m1 n', PWait)
        end
      end
    end
  end.

Definition peer_fuel (m : mgr) (h : hash) : nat :=
  S (length (plist (m_nodes m)) + match find_pool (m_pools m) h with Some sp => length (plist (sp_pool sp)) | None => 0 end).

Definition get_peer (m : mgr) (h : hash) (height : N) (order : list peer) : mgr * pres :=
  let m1 := validated_pool m h height order in
  peer_loop (peer_fuel m1 h) m1 h.

(** blacklistPeers *)
Definition blacklist1 (m : mgr) (x : peer) : mgr :=
  if m_enable m then
    let m1 := set_nodes m (remove (m_nodes m) [x]) in
    if mem x (m_black m1) then m1 else set_black m1 (x :: m_black m1)
  else m.

Definition blacklist_peers (m : mgr) (xs : list peer) : mgr := fold_left blacklist1 xs m.

(** the DoneFunc *)
Inductive dres := DNoop | DCooldown | DBlacklist.

Definition done (m : mgr) (h : hash) (x : peer) (src : source) (r : dres) : mgr :=
  match r with
  | DNoop => m
  | DCooldown =>
    match src with
    | SDiscovered => set_nodes m (put_on_cooldown (m_nodes m) x)
    | SShrexSub => upd_pool m h (fun s => with_pool s (put_on_cooldown (sp_pool s) x))
    end
  | DBlacklist => blacklist_peers m [x]
  end.

(** UpdateNodePool / disconnect event *)
Definition update_node (m : mgr) (x : peer) (added : bool) : mgr :=
  if added then (if is_blacklisted m x then m else set_nodes m (add (m_nodes m) [x]))
  else set_nodes m (remove (m_nodes m) [x]).

Definition disconnect (m : mgr) (x : peer) : mgr :=
  if has (m_nodes m) x then set_nodes m (remove (m_nodes m) [x]) else m.

(** cleanUp: which pools go, which hashes and peers are to be blacklisted *)
Fixpoint clean_go (m : mgr) (ps : list (hash * hpool)) : list (hash * hpool) * list hash * list peer :=
  match ps with
  | [] => ([], [], [])
  | (h, sp) :: ps' =>
    let '(keep, bh, bp) := clean_go m ps' in
    if sp_valid sp then (if sp_height sp <? m_from m then (keep, bh, bp) else ((h, sp) :: keep, bh, bp))
    else if sp_height sp <? m_init m then (keep, bh, bp)
    else if sp_old sp then (keep, h :: bh, plist (sp_pool sp) ++ bp)
    else ((h, sp) :: keep, bh, bp)
  end.

Fixpoint dedup (l : list N) : list N :=
  match l with [] => [] | x :: l' => if mem x l' then dedup l' else x :: dedup l' end.

Definition gc (m : mgr) (order : list peer) : mgr :=
  if N.eqb (m_init m) 0 then m else
  let '(keep, bh, bp) := clean_go m (m_pools m) in
  let m1 := set_bhash (set_pools m keep) (bh ++ m_bhash m) in
  blacklist_peers m1 (canon order (dedup bp)).

(** test hook: a pool's creation time is moved into the past *)
Definition age (m : mgr) (h : hash) : mgr :=
  upd_pool m h (fun s => mkSpool (sp_pool s) (sp_valid s) (sp_height s) true).

(** the clock shared by all cool-down queues: advance, then release what expired, in every pool *)
Fixpoint expire_n (n : nat) (p : pool) : pool := match n with O => p | S k => expire_n k (expire1 p) end.
Definition tick_pool (d : N) (p : pool) : pool := let p1 := advance p d in expire_n (length (pqueue p1)) p1.

Definition tick (m : mgr) (d : N) : mgr :=
  set_nodes (set_pools (set_mnow m (m_now m + d)) (map (fun '(h, s) => (h, with_pool s (tick_pool d (sp_pool s)))) (m_pools m)))
            (tick_pool d (m_nodes m)).

Inductive mev :=
| MValidate (x : peer) (h : hash) (height : N)
| MHeader (h : hash) (height : N) (order : list peer)
| MPeer (h : hash) (height : N) (order : list peer)
| MDone (h : hash) (x : peer) (src : source) (r : dres)
| MUpdate (x : peer) (added : bool)
| MDisconnect (x : peer)
| MGC (order : list peer)
| MAge (h : hash)
| MTick (d : N).

Inductive mout := OV (r : vres) | OP (r : pres) | ONone.

Definition mstep_out (m : mgr) (e : mev) : mgr * mout :=
  match e with
  | MValidate x h height => let '(m', r) := validate m x h height in (m', OV r)
  | MHeader h height order => (header m h height order, ONone)
  | MPeer h height order => let '(m', r) := get_peer m h height order in (m', OP r)
  | MDone h x src r => (done m h x src r, ONone)
  | MUpdate x added => (update_node m x added, ONone)
  | MDisconnect x => (disconnect m x, ONone)
  | MGC order => (gc m order, ONone)
  | MAge h => (age m h, ONone)
  | MTick d => (tick m d, ONone)
  end.

Definition mstep (m : mgr) (e : mev) : mgr := fst (mstep_out m e).

Fixpoint mrun_out (m : mgr) (es : list mev) : mgr * list mout :=
  match es with
  | [] => (m, [])
  | e :: es' =>
    let '(m1, o) := mstep_out m e in
    let '(m2, os) := mrun_out m1 es' in
    (m2, match o with ONone => os | _ => o :: os end)
  end.

(** ---- correspondence cases (L2) *)
Definition vres_eqb (a b : vres) : bool :=
  match a, b with VAccept, VAccept | VReject, VReject | VIgnore, VIgnore => true | _, _ => false end.
Definition source_eqb (a b : source) : bool :=
  match a, b with SShrexSub, SShrexSub | SDiscovered, SDiscovered => true | _, _ => false end.
Definition pres_eqb (a b : pres) : bool :=
  match a, b with
  | PRes x s, PRes y t => N.eqb x y && source_eqb s t
  | PWait, PWait => true
  | _, _ => false
  end.
Definition mout_eqb (a b : mout) : bool :=
  match a, b with OV x, OV y => vres_eqb x y | OP x, OP y => pres_eqb x y | ONone, ONone => true | _, _ => false end.

(** per-hash projection: absent, or (validated, pool projection) *)
Record mobs := mkMobs {
  mo_nodes : obs;
  mo_pools : list (option (bool * obs));   (* hashes 0..nh-1 *)
  mo_black : list bool;                    (* peers 0..np-1 blocked? *)
  mo_bhash : list bool;                    (* hashes 0..nh-1 blacklisted? *)
  mo_init : N; mo_from : N
}.

Definition popt_eqb (a b : option (bool * obs)) : bool :=
  match a, b with
  | Some (v, o), Some (w, q) => Bool.eqb v w && obs_eqb o q
  | None, None => true
  | _, _ => false
  end.

Definition mobs_of (np nh : nat) (m : mgr) : mobs :=
  mkMobs (obs_of np (m_nodes m))
         (map (fun i => match find_pool (m_pools m) (N.of_nat i) with
                        | Some sp => Some (sp_valid sp, obs_of np (sp_pool sp)) | None => None end) (seq 0 nh))
         (map (fun i => is_blacklisted m (N.of_nat i)) (seq 0 np))
         (map (fun i => mem (N.of_nat i) (m_bhash m)) (seq 0 nh))
         (m_init m) (m_from m).

Definition mobs_eqb (a b : mobs) : bool :=
  obs_eqb (mo_nodes a) (mo_nodes b) && list_eqb popt_eqb (mo_pools a) (mo_pools b) &&
  list_eqb Bool.eqb (mo_black a) (mo_black b) && list_eqb Bool.eqb (mo_bhash a) (mo_bhash b) &&
  N.eqb (mo_init a) (mo_init b) && N.eqb (mo_from a) (mo_from b).

Record mcase := mkMcase {
  mc_enable : bool; mc_self : peer; mc_ttl : N; mc_np : nat; mc_nh : nat;
  mc_events : list mev; mc_outs : list mout; mc_final : mobs
}.

Definition mcase_ok (c : mcase) : bool :=
  let '(m, outs) := mrun_out (new_mgr (mc_enable c) (mc_self c) (mc_ttl c)) (mc_events c) in
  list_eqb mout_eqb outs (mc_outs c) && mobs_eqb (mobs_of (mc_np c) (mc_nh c) m) (mc_final c).

Fixpoint mmism_from (i : N) (cs : list mcase) : list N :=
  match cs with
  | [] => []
  | c :: cs' => if mcase_ok c then mmism_from (i + 1) cs' else i :: mmism_from (i + 1) cs'
  end.

Definition mmismatches (cs : list mcase) : list N := mmism_from 0 cs.

(** C17 — proofs about the pool model [Peers.Pool]: bookkeeping invariant over all event sequences,
    tryGet offers only active peers and never misses one, cool-downs are respected, waiters are woken. *)
From Coq Require Import List ZArith NArith Bool Lia Arith.
From CN Require Import Base.Lts Peers.Pool.
Import ListNotations.
Open Scope N_scope.

(** ** small facts *)
Lemma status_eqb_eq a b : status_eqb a b = true <-> a = b.
Proof. destruct a, b; simpl; split; intro H; try reflexivity; try discriminate. Qed.

Lemma ost_eqb_eq a b : ost_eqb a b = true <-> a = b.
Proof.
  destruct a as [x|], b as [y|]; simpl; try (split; intro H; (reflexivity || discriminate)).
  rewrite status_eqb_eq. split; [intros ->; reflexivity | intro H; inversion H; reflexivity].
Qed.

Lemma upd_same f p v : upd f p v p = v.
Proof. unfold upd. rewrite N.eqb_refl. reflexivity. Qed.

Lemma upd_other f p v q : q <> p -> upd f p v q = f q.
Proof. unfold upd. intro H. apply N.eqb_neq in H. rewrite H. reflexivity. Qed.

Definition is_act (o : option status) : bool := match o with Some Active => true | _ => false end.
Definition b2n (b : bool) : nat := if b then 1%nat else 0%nat.

(** number of listed peers whose status is active *)
Fixpoint nact (st : peer -> option status) (l : list peer) : nat :=
  match l with [] => 0%nat | p :: l' => (b2n (is_act (st p)) + nact st l')%nat end.

Lemma nact_upd_notin st p v l : ~ In p l -> nact (upd st p v) l = nact st l.
Proof.
  induction l as [|q l IH]; simpl; intro H; [reflexivity|].
  rewrite upd_other by (intro E; apply H; left; exact E).
  rewrite IH; [reflexivity|]. intro; apply H; right; assumption.
Qed.

Lemma nact_upd_in st p v l : NoDup l -> In p l ->
  (nact (upd st p v) l + b2n (is_act (st p)) = nact st l + b2n (is_act v))%nat.
Proof.
  induction l as [|q l IH]; simpl; intros Hnd Hin; [contradiction|].
  inversion Hnd as [|? ? Hq Hnd']; subst.
  destruct (N.eq_dec q p) as [->|Hne].
  - rewrite upd_same. rewrite nact_upd_notin by assumption. lia.
  - rewrite upd_other by assumption. destruct Hin as [E|Hin]; [contradiction|].
    specialize (IH Hnd' Hin). lia.
Qed.

Lemma nact_app st l1 l2 : nact st (l1 ++ l2) = (nact st l1 + nact st l2)%nat.
Proof. induction l1; simpl; [reflexivity|]. rewrite IHl1. lia. Qed.

Lemma nact_le_length st l : (nact st l <= length l)%nat.
Proof. induction l as [|p l IH]; simpl; [lia|]. destruct (is_act (st p)); simpl; lia. Qed.

Lemma nact_pos_exists st l : (0 < nact st l)%nat -> exists p, In p l /\ st p = Some Active.
Proof.
  induction l as [|p l IH]; simpl; [lia|]. intro H.
  destruct (st p) as [[| |]|] eqn:E; simpl in H.
  - exists p. split; [left; reflexivity | exact E].
  - destruct (IH H) as [x [Hx1 Hx2]]. exists x. split; [right|]; assumption.
  - destruct (IH H) as [x [Hx1 Hx2]]. exists x. split; [right|]; assumption.
  - destruct (IH H) as [x [Hx1 Hx2]]. exists x. split; [right|]; assumption.
Qed.

Lemma nact_in_pos st l p : In p l -> st p = Some Active -> (0 < nact st l)%nat.
Proof.
  induction l as [|q l IH]; simpl; [contradiction|]. intros [->|Hin] E.
  - rewrite E. simpl. lia.
  - specialize (IH Hin E). lia.
Qed.

Lemma queue_has_true q p : queue_has q p = true <-> In p (map fst q).
Proof.
  unfold queue_has. rewrite existsb_exists, in_map_iff. split.
  - intros [[x t] [Hin E]]. simpl in E. apply N.eqb_eq in E. subst x. exists (p, t). split; [reflexivity|assumption].
  - intros [[x t] [E Hin]]. simpl in E. subst x. exists (p, t). split; [assumption | apply N.eqb_refl].
Qed.

Lemma NoDup_snoc {A} (l : list A) x : NoDup l -> ~ In x l -> NoDup (l ++ [x]).
Proof.
  intros Hnd Hnin. rewrite <- (rev_involutive (l ++ [x])). apply NoDup_rev. rewrite rev_app_distr. simpl.
  constructor; [rewrite <- in_rev; assumption | apply NoDup_rev; assumption].
Qed.

(** ** the bookkeeping invariant *)
Record pinv (s : pool) : Prop := mkInv {
  i_nodup : NoDup (plist s);
  i_keys  : forall p, In p (plist s) <-> pstat s p <> None;
  i_count : pcount s = Z.of_nat (nact (pstat s) (plist s));
  i_has   : phas s = (0 <? pcount s)%Z;
  i_qact  : forall p, In p (map fst (pqueue s)) -> pstat s p <> Some Active;
  i_qcool : forall p, pstat s p = Some Cooldown -> In p (map fst (pqueue s));
  i_qtime : forall p t, In (p, t) (pqueue s) -> t <= pnow s;
  i_qnodup : NoDup (map fst (pqueue s))
}.

Lemma pinv_new ttl : pinv (new_pool ttl).
Proof.
  constructor; simpl.
  - constructor.
  - intro x. split; [contradiction | intro H; exfalso; apply H; reflexivity].
  - reflexivity.
  - reflexivity.
  - intros x [].
  - intros x H; discriminate.
  - intros x t [].
  - constructor.
Qed.

(** check_has only touches hasPeer / the channel and establishes [i_has] whatever it was *)
Lemma check_has_fields s :
  plist (check_has s) = plist s /\ pstat (check_has s) = pstat s /\ pcount (check_has s) = pcount s /\
  pnext (check_has s) = pnext s /\ pqueue (check_has s) = pqueue s /\ pnow (check_has s) = pnow s /\
  pttl (check_has s) = pttl s /\ pthr (check_has s) = pthr s.
Proof.
  unfold check_has. destruct (andb _ _); [simpl; repeat split|]. destruct (andb _ _); simpl; repeat split.
Qed.

Lemma check_has_has s : (0 <= pcount s)%Z -> phas (check_has s) = (0 <? pcount (check_has s))%Z.
Proof.
  intro Hc. unfold check_has.
  destruct (0 <? pcount s)%Z eqn:E1; destruct (phas s) eqn:E2; cbn [andb negb].
  - assert ((pcount s =? 0)%Z = false) as -> by (apply Z.eqb_neq; apply Z.ltb_lt in E1; lia).
    cbn [andb]. rewrite E1, E2. reflexivity.
  - simpl. rewrite E1. reflexivity.
  - assert ((pcount s =? 0)%Z = true) as -> by (apply Z.eqb_eq; apply Z.ltb_ge in E1; lia).
    simpl. rewrite E1. reflexivity.
  - rewrite andb_false_r. rewrite E1, E2. reflexivity.
Qed.

(** an invariant "up to hasPeer": everything but [i_has] *)
Record pinv0 (s : pool) : Prop := mkInv0 {
  j_nodup : NoDup (plist s);
  j_keys  : forall p, In p (plist s) <-> pstat s p <> None;
  j_count : pcount s = Z.of_nat (nact (pstat s) (plist s));
  j_qact  : forall p, In p (map fst (pqueue s)) -> pstat s p <> Some Active;
  j_qcool : forall p, pstat s p = Some Cooldown -> In p (map fst (pqueue s));
  j_qtime : forall p t, In (p, t) (pqueue s) -> t <= pnow s;
  j_qnodup : NoDup (map fst (pqueue s))
}.

Lemma pinv_pinv0 s : pinv s -> pinv0 s.
Proof. intros []. constructor; assumption. Qed.

Lemma check_has_inv s : pinv0 s -> pinv (check_has s).
Proof.
  intros [H1 H2 H3 H4 H5 H6 H7].
  destruct (check_has_fields s) as (El & Es & Ec & _ & Eq & En & _ & _).
  constructor; rewrite ?El, ?Es, ?Eq, ?En; try assumption.
  - rewrite Ec. exact H3.
  - apply check_has_has. rewrite H3. lia.
Qed.

(** *** add *)
Lemma add1_inv0 s p : pinv0 s -> pinv0 (add1 s p).
Proof.
  intros [H1 H2 H3 H4 H5 H6 H7]. unfold add1.
  destruct s as [l st c nx h g q now ttl thr]; simpl in *.
  destruct (st p) as [[| |]|] eqn:E; try (constructor; simpl; assumption).
  - (* Removed: re-activated in place *)
    assert (Hin : In p l) by (apply H2; rewrite E; discriminate).
    destruct (queue_has q p) eqn:Q; constructor; simpl; try assumption.
    + intro x. destruct (N.eq_dec x p) as [->|Hne]; [rewrite upd_same; split; [discriminate|intros _; assumption]|].
      rewrite upd_other by assumption. apply H2.
    + pose proof (nact_upd_in st p (Some Cooldown) l H1 Hin) as Hn. rewrite E in Hn. simpl in Hn. lia.
    + intros x Hx. destruct (N.eq_dec x p) as [->|Hne]; [rewrite upd_same; discriminate|].
      rewrite upd_other by assumption. apply H4, Hx.
    + intros x Hx. destruct (N.eq_dec x p) as [->|Hne]; [apply queue_has_true, Q|].
      rewrite upd_other in Hx by assumption. apply H5, Hx.
    + intro x. destruct (N.eq_dec x p) as [->|Hne]; [rewrite upd_same; split; [discriminate|intros _; assumption]|].
      rewrite upd_other by assumption. apply H2.
    + pose proof (nact_upd_in st p (Some Active) l H1 Hin) as Hn. rewrite E in Hn. simpl in Hn. lia.
    + intros x Hx. destruct (N.eq_dec x p) as [->|Hne].
      * exfalso. apply queue_has_true in Hx. rewrite Hx in Q. discriminate.
      * rewrite upd_other by assumption. apply H4, Hx.
    + intros x Hx. destruct (N.eq_dec x p) as [->|Hne]; [rewrite upd_same in Hx; discriminate|].
      rewrite upd_other in Hx by assumption. apply H5, Hx.
  - (* absent: appended *)
    assert (Hnin : ~ In p l) by (intro Hin; apply H2 in Hin; apply Hin, E).
    assert (Hnd : NoDup (l ++ [p])).
    { apply NoDup_snoc; assumption. }
    assert (Hkeys : forall v, v <> None -> forall x, In x (l ++ [p]) <-> upd st p v x <> None).
    { intros v Hv x. rewrite in_app_iff. simpl. destruct (N.eq_dec x p) as [->|Hne].
      - rewrite upd_same. split; [intros _; assumption | intros _; right; left; reflexivity].
      - rewrite upd_other by assumption. rewrite <- H2. split; [intros [?|[?|[]]]; [assumption|congruence] | intro; left; assumption]. }
    destruct (queue_has q p) eqn:Q; constructor; simpl; try assumption.
    + apply Hkeys. discriminate.
    + rewrite nact_app. simpl. rewrite upd_same. simpl. rewrite nact_upd_notin by assumption. lia.
    + intros x Hx. destruct (N.eq_dec x p) as [->|Hne]; [rewrite upd_same; discriminate|].
      rewrite upd_other by assumption. apply H4, Hx.
    + intros x Hx. destruct (N.eq_dec x p) as [->|Hne]; [apply queue_has_true, Q|].
      rewrite upd_other in Hx by assumption. apply H5, Hx.
    + apply Hkeys. discriminate.
    + rewrite nact_app. simpl. rewrite upd_same. simpl. rewrite nact_upd_notin by assumption. lia.
    + intros x Hx. destruct (N.eq_dec x p) as [->|Hne].
      * exfalso. apply queue_has_true in Hx. rewrite Hx in Q. discriminate.
      * rewrite upd_other by assumption. apply H4, Hx.
    + intros x Hx. destruct (N.eq_dec x p) as [->|Hne]; [rewrite upd_same in Hx; discriminate|].
      rewrite upd_other in Hx by assumption. apply H5, Hx.
Qed.

Lemma fold_inv0 (f : pool -> peer -> pool) :
  (forall s p, pinv0 s -> pinv0 (f s p)) -> forall ps s, pinv0 s -> pinv0 (fold_left f ps s).
Proof. intros Hf ps. induction ps as [|p ps IH]; simpl; intros s Hs; [exact Hs|]. apply IH, Hf, Hs. Qed.

Lemma add_inv s ps : pinv s -> pinv (add s ps).
Proof. intro H. unfold add. apply check_has_inv, fold_inv0; [apply add1_inv0 | apply pinv_pinv0, H]. Qed.

(** *** remove and cleanup *)
Lemma remove1_inv0 s p : pinv0 s -> pinv0 (remove1 s p).
Proof.
  intros [H1 H2 H3 H4 H5 H6 H7]. unfold remove1.
  destruct s as [l st c nx h g q now ttl thr]; simpl in *.
  destruct (st p) as [[| |]|] eqn:E; try (constructor; simpl; assumption).
  - assert (Hin : In p l) by (apply H2; rewrite E; discriminate).
    constructor; simpl; try assumption.
    + intro x. destruct (N.eq_dec x p) as [->|Hne]; [rewrite upd_same; split; [discriminate|intros _; assumption]|].
      rewrite upd_other by assumption. apply H2.
    + pose proof (nact_upd_in st p (Some Removed) l H1 Hin) as Hn. rewrite E in Hn. simpl in Hn. lia.
    + intros x Hx. destruct (N.eq_dec x p) as [->|Hne]; [rewrite upd_same; discriminate|].
      rewrite upd_other by assumption. apply H4, Hx.
    + intros x Hx. destruct (N.eq_dec x p) as [->|Hne]; [rewrite upd_same in Hx; discriminate|].
      rewrite upd_other in Hx by assumption. apply H5, Hx.
  - assert (Hin : In p l) by (apply H2; rewrite E; discriminate).
    constructor; simpl; try assumption.
    + intro x. destruct (N.eq_dec x p) as [->|Hne]; [rewrite upd_same; split; [discriminate|intros _; assumption]|].
      rewrite upd_other by assumption. apply H2.
    + pose proof (nact_upd_in st p (Some Removed) l H1 Hin) as Hn. rewrite E in Hn. simpl in Hn. lia.
    + intros x Hx. destruct (N.eq_dec x p) as [->|Hne]; [rewrite upd_same; discriminate|].
      rewrite upd_other by assumption. apply H4, Hx.
    + intros x Hx. destruct (N.eq_dec x p) as [->|Hne]; [rewrite upd_same in Hx; discriminate|].
      rewrite upd_other in Hx by assumption. apply H5, Hx.
Qed.

(** what cleanup_go computes *)
Definition is_removed (o : option status) : bool := match o with Some Removed => true | _ => false end.

Lemma cleanup_go_snd l : forall st p,
  snd (cleanup_go l st) p = if existsb (N.eqb p) l && is_removed (st p) then None else st p.
Proof.
  induction l as [|a l IH]; intros st p; simpl; [reflexivity|].
  destruct (st a) as [[| |]|] eqn:E.
  - specialize (IH st p). destruct (cleanup_go l st) as [nl st']. simpl in *. rewrite IH.
    destruct (N.eqb_spec p a) as [->|Hne]; simpl; [|reflexivity]. rewrite E. simpl. rewrite andb_false_r. reflexivity.
  - specialize (IH st p). destruct (cleanup_go l st) as [nl st']. simpl in *. rewrite IH.
    destruct (N.eqb_spec p a) as [->|Hne]; simpl; [|reflexivity]. rewrite E. simpl. rewrite andb_false_r. reflexivity.
  - rewrite IH. destruct (N.eqb_spec p a) as [->|Hne]; simpl.
    + rewrite upd_same, E. simpl. rewrite andb_false_r. reflexivity.
    + rewrite upd_other by assumption. reflexivity.
  - specialize (IH st p). destruct (cleanup_go l st) as [nl st']. simpl in *. rewrite IH.
    destruct (N.eqb_spec p a) as [->|Hne]; simpl; [|reflexivity]. rewrite E. simpl. rewrite andb_false_r. reflexivity.
Qed.

Lemma cleanup_go_fst l : forall st, NoDup l ->
  fst (cleanup_go l st) = filter (fun p => negb (is_removed (st p))) l.
Proof.
  induction l as [|a l IH]; intros st Hnd; simpl; [reflexivity|].
  inversion Hnd as [|? ? Ha Hnd']; subst.
  destruct (st a) as [[| |]|] eqn:E; simpl.
  - specialize (IH st Hnd'). destruct (cleanup_go l st). simpl in *. rewrite IH. reflexivity.
  - specialize (IH st Hnd'). destruct (cleanup_go l st). simpl in *. rewrite IH. reflexivity.
  - rewrite IH by assumption. apply filter_ext_in. intros x Hx.
    rewrite upd_other; [reflexivity | intro; subst; contradiction].
  - specialize (IH st Hnd'). destruct (cleanup_go l st). simpl in *. rewrite IH. reflexivity.
Qed.

Lemma nact_ext_in st st' l : (forall p, In p l -> st p = st' p) -> nact st l = nact st' l.
Proof.
  induction l as [|a l IH]; simpl; intro H; [reflexivity|].
  rewrite (H a) by (left; reflexivity). rewrite IH; [reflexivity|]. intros; apply H; right; assumption.
Qed.

Lemma nact_filter st keep l : (forall p, In p l -> keep p = false -> is_act (st p) = false) ->
  nact st (filter keep l) = nact st l.
Proof.
  induction l as [|a l IH]; simpl; intro H; [reflexivity|].
  assert (IH' : nact st (filter keep l) = nact st l) by (apply IH; intros; apply H; [right|]; assumption).
  destruct (keep a) eqn:K; simpl; rewrite IH'; [reflexivity|].
  rewrite (H a) by (auto). reflexivity.
Qed.

Lemma existsb_eqb_in p l : existsb (N.eqb p) l = true <-> In p l.
Proof.
  rewrite existsb_exists. split; [intros [y [Hy Ey]]; apply N.eqb_eq in Ey; subst; assumption|].
  intro Hin. exists p. split; [assumption | apply N.eqb_refl].
Qed.

Lemma cleanup_inv0 s : pinv0 s -> pinv0 (cleanup s).
Proof.
  intros [H1 H2 H3 H4 H5 H6 H7]. unfold cleanup.
  destruct s as [l st c nx h g q now ttl thr]; simpl in *.
  pose proof (cleanup_go_fst l st H1) as F. pose proof (cleanup_go_snd l st) as S.
  destruct (cleanup_go l st) as [nl st']. simpl in F, S. subst nl.
  constructor; simpl; try assumption.
  - apply NoDup_filter, H1.
  - intro p. rewrite filter_In, S. destruct (existsb (N.eqb p) l) eqn:Ex; simpl.
    + apply existsb_eqb_in in Ex. destruct (st p) as [[| |]|] eqn:E; simpl; split; try tauto; try discriminate;
        try (intros _; split; [assumption|reflexivity]); try (intros [_ Hr]; discriminate).
      intros _ . exfalso. apply (proj1 (H2 p) Ex). assumption.
    + assert (~ In p l) by (intro Hin; apply existsb_eqb_in in Hin; congruence).
      split; [tauto|]. intro Hn. exfalso. apply H. apply H2. assumption.
  - rewrite H3. f_equal. rewrite (nact_ext_in st' st).
    + symmetry. apply nact_filter. intros p _ K. destruct (st p) as [[| |]|]; simpl in *; try discriminate; reflexivity.
    + intros p Hp. apply filter_In in Hp. destruct Hp as [_ Hp]. rewrite S.
      destruct (is_removed (st p)); [discriminate|]. rewrite andb_false_r. reflexivity.
  - intros p Hp. rewrite S. specialize (H4 p Hp).
    destruct (existsb (N.eqb p) l && is_removed (st p)); [discriminate | assumption].
  - intros p Hp. apply H5. rewrite S in Hp.
    destruct (existsb (N.eqb p) l && is_removed (st p)); [discriminate | assumption].
Qed.

Lemma remove_inv s ps : pinv s -> pinv (remove s ps).
Proof.
  intro H. unfold remove. apply check_has_inv.
  assert (H1 : pinv0 (fold_left remove1 ps s)) by (apply fold_inv0; [apply remove1_inv0 | apply pinv_pinv0, H]).
  destruct (_ <=? _)%Z; [apply cleanup_inv0|]; assumption.
Qed.

Lemma cleanup_inv s : pinv s -> pinv (cleanup s).
Proof.
  intros H. pose proof (cleanup_inv0 s (pinv_pinv0 s H)) as [J1 J2 J3 J4 J5 J6 J7].
  assert (Ec : pcount (cleanup s) = pcount s /\ phas (cleanup s) = phas s).
  { unfold cleanup. destruct (cleanup_go _ _). simpl. split; reflexivity. }
  destruct Ec as [Ec Eh]. constructor; try assumption. rewrite Eh, Ec. apply H.
Qed.

(** *** cool-down *)
Lemma put_on_cooldown_inv s p : pinv s -> pinv (put_on_cooldown s p).
Proof.
  intros H. unfold put_on_cooldown. destruct (pstat s p) as [[| |]|] eqn:E; try assumption.
  apply check_has_inv. destruct H as [H1 H2 H3 _ H4 H5 H6 H7].
  destruct s as [l st c nx h g q now ttl thr]; simpl in *.
  assert (Hin : In p l) by (apply H2; rewrite E; discriminate).
  constructor; simpl; try assumption.
  - intro x. destruct (N.eq_dec x p) as [->|Hne]; [rewrite upd_same; split; [discriminate|intros _; assumption]|].
    rewrite upd_other by assumption. apply H2.
  - pose proof (nact_upd_in st p (Some Cooldown) l H1 Hin) as Hn. rewrite E in Hn. simpl in Hn. lia.
  - intros x Hx. destruct (N.eq_dec x p) as [->|Hne]; [rewrite upd_same; discriminate|].
    rewrite upd_other by assumption. apply H4. rewrite map_app, in_app_iff in Hx. simpl in Hx.
    destruct Hx as [Hx|[Hx|[]]]; [assumption | congruence].
  - intros x Hx. rewrite map_app, in_app_iff. simpl. destruct (N.eq_dec x p) as [->|Hne]; [right; left; reflexivity|].
    rewrite upd_other in Hx by assumption. left. apply H5, Hx.
  - intros x t Hx. apply in_app_iff in Hx. destruct Hx as [Hx|[Hx|[]]]; [apply (H6 x t Hx)|].
    inversion Hx; subst. lia.
  - rewrite map_app. simpl. apply NoDup_snoc; [assumption|]. intro Hx. apply (H4 p Hx). assumption.
Qed.

(** popping the head of the queue and running afterCooldown on it *)
Lemma expire1_inv s : pinv s -> pinv (expire1 s).
Proof.
  intros H. unfold expire1. destruct (pqueue s) as [|[p created] q'] eqn:Q; [assumption|].
  destruct (expired s created); [|assumption].
  destruct H as [H1 H2 H3 Hh H4 H5 H6 H7].
  destruct s as [l st c nx h g q now ttl thr]; simpl in *. subst q. simpl in *.
  inversion H7 as [|? ? Hp H7']; subst.
  unfold after_cooldown; simpl.
  destruct (st p) as [[| |]|] eqn:E.
  - exfalso. apply (H4 p); [left; reflexivity | assumption].
  - apply check_has_inv.
    assert (Hin : In p l) by (apply H2; rewrite E; discriminate).
    constructor; simpl; try assumption.
    + intro x. destruct (N.eq_dec x p) as [->|Hne]; [rewrite upd_same; split; [discriminate|intros _; assumption]|].
      rewrite upd_other by assumption. apply H2.
    + pose proof (nact_upd_in st p (Some Active) l H1 Hin) as Hn. rewrite E in Hn. simpl in Hn. lia.
    + intros x Hx. destruct (N.eq_dec x p) as [->|Hne]; [contradiction|].
      rewrite upd_other by assumption. apply H4. right. assumption.
    + intros x Hx. destruct (N.eq_dec x p) as [->|Hne]; [rewrite upd_same in Hx; discriminate|].
      rewrite upd_other in Hx by assumption. specialize (H5 x Hx). destruct H5; [congruence|assumption].
    + intros x t Hx. apply (H6 x t). right. assumption.
  - constructor; simpl; try assumption; try reflexivity.
    + intros x Hx. apply H4. right. assumption.
    + intros x Hx. specialize (H5 x Hx). destruct H5 as [<-|]; [congruence|assumption].
    + intros x t Hx. apply (H6 x t). right. assumption.
  - constructor; simpl; try assumption; try reflexivity.
    + intros x Hx. apply H4. right. assumption.
    + intros x Hx. specialize (H5 x Hx). destruct H5 as [<-|]; [congruence|assumption].
    + intros x t Hx. apply (H6 x t). right. assumption.
Qed.

Lemma advance_inv s d : pinv s -> pinv (advance s d).
Proof.
  intros [H1 H2 H3 Hh H4 H5 H6 H7]. destruct s as [l st c nx h g q now ttl thr]; simpl in *.
  constructor; simpl; try assumption. intros p t Hx. specialize (H6 p t Hx). lia.
Qed.


(** ** tryGet *)
Section Scan.
  Variables (l : list peer) (st : peer -> option status) (start : nat).
  Let n := length l.

  Definition inact (m : nat) : Prop := forall p, nth_error l m = Some p -> reads_active (st p) = false.

  (** positions visited before reaching [idx] are inactive *)
  Definition visited (idx : nat) : Prop :=
    (start <= idx /\ forall m, start <= m < idx -> inact m)%nat \/
    (idx < start /\ forall m, (start <= m < n \/ m < idx) -> inact m)%nat.

  Definition remaining (idx : nat) : nat := if (start <=? idx)%nat then (n - idx + start)%nat else (start - idx)%nat.

  Lemma scan_spec fuel : forall idx, (idx < n)%nat -> (start < n)%nat -> visited idx -> (remaining idx <= fuel)%nat ->
    match snd (scan fuel l st idx start) with
    | GSome p => In p l /\ reads_active (st p) = true
    | GNone => forall m, (m < n)%nat -> inact m
    | GPanic => False
    end.
  Proof.
    induction fuel as [|f IH]; intros idx Hi Hs Hv Hr.
    - exfalso. unfold remaining in Hr. destruct (start <=? idx)%nat eqn:E;
        [apply Nat.leb_le in E | apply Nat.leb_gt in E]; lia.
    - cbn [scan]. destruct (nth_error l idx) as [p|] eqn:Ep; [|apply nth_error_None in Ep; fold n in Ep; lia].
      destruct (reads_active (st p)) eqn:Ea.
      + cbn [snd]. split; [eapply nth_error_In; eassumption | assumption].
      + assert (Hidx : inact idx) by (intros p' Hp'; rewrite Ep in Hp'; inversion Hp'; subst; assumption).
        fold n.
        destruct (Nat.eqb_spec (S idx) n) as [En|En].
        * (* wrap to 0 *)
          destruct (Nat.eqb_spec 0%nat start) as [E0|E0].
          -- cbn [snd]. intros m Hm. destruct Hv as [[Hle Hv]|[Hlt Hv]]; [|lia].
             destruct (Nat.eq_dec m idx) as [->|Hne]; [assumption|]. apply Hv. lia.
          -- apply IH; try lia.
             ++ right. split; [lia|]. intros m [Hm|Hm]; [|lia].
                destruct Hv as [[Hle Hv]|[Hlt Hv]]; [|lia].
                destruct (Nat.eq_dec m idx) as [->|Hne]; [assumption|]. apply Hv. lia.
             ++ unfold remaining in *. destruct (start <=? idx)%nat eqn:E1; [apply Nat.leb_le in E1|apply Nat.leb_gt in E1].
                ** destruct (start <=? 0)%nat eqn:E2; [apply Nat.leb_le in E2; lia | lia].
                ** destruct Hv as [[Hle _]|[Hlt _]]; lia.
        * destruct (Nat.eqb_spec (S idx) start) as [E0|E0].
          -- cbn [snd]. intros m Hm. destruct Hv as [[Hle Hv]|[Hlt Hv]]; [lia|].
             destruct (Nat.eq_dec m idx) as [->|Hne]; [assumption|]. apply Hv. lia.
          -- apply IH; try lia.
             ++ destruct Hv as [[Hle Hv]|[Hlt Hv]].
                ** left. split; [lia|]. intros m Hm.
                   destruct (Nat.eq_dec m idx) as [->|Hne]; [assumption|]. apply Hv. lia.
                ** right. split; [lia|]. intros m Hm.
                   destruct (Nat.eq_dec m idx) as [->|Hne]; [assumption|]. apply Hv. lia.
             ++ unfold remaining in *. destruct (start <=? idx)%nat eqn:E1; [apply Nat.leb_le in E1|apply Nat.leb_gt in E1].
                ** assert ((start <=? S idx)%nat = true) as -> by (apply Nat.leb_le; lia). lia.
                ** assert ((start <=? S idx)%nat = false) as -> by (apply Nat.leb_gt; lia). lia.
  Qed.
End Scan.

Definition same_but_next (s s' : pool) : Prop := s' = set_next s (pnext s').

Lemma try_get_frame s : same_but_next s (fst (try_get s)).
Proof.
  unfold same_but_next, try_get. destruct (pcount s =? 0)%Z; [destruct s; reflexivity|].
  destruct (scan _ _ _ _ _) as [i r]. destruct s; reflexivity.
Qed.

Lemma try_get_spec s : pinv s ->
  match snd (try_get s) with
  | GSome p => pstat s p = Some Active /\ In p (plist s)
  | GNone => pcount s = 0%Z
  | GPanic => False
  end.
Proof.
  intros H. unfold try_get. destruct (pcount s =? 0)%Z eqn:Ec; [simpl; apply Z.eqb_eq, Ec|].
  apply Z.eqb_neq in Ec.
  assert (Hpos : (0 < nact (pstat s) (plist s))%nat) by (rewrite (i_count s H) in Ec; lia).
  pose proof (nact_le_length (pstat s) (plist s)) as Hle.
  set (n := length (plist s)) in *.
  set (i0 := if (pnext s <? n)%nat then pnext s else 0%nat).
  assert (Hi0 : (i0 < n)%nat).
  { unfold i0. destruct (pnext s <? n)%nat eqn:E; [apply Nat.ltb_lt in E; assumption | lia]. }
  pose proof (scan_spec (plist s) (pstat s) i0 (S n) i0 Hi0 Hi0) as Hs.
  assert (Hv : visited (plist s) (pstat s) i0 i0) by (left; split; [lia | intros m Hm; lia]).
  assert (Hr : (remaining (plist s) i0 i0 <= S n)%nat).
  { unfold remaining. rewrite Nat.leb_refl. fold n. lia. }
  specialize (Hs Hv Hr).
  destruct (scan (S n) (plist s) (pstat s) i0 i0) as [i r]. simpl in *.
  destruct r as [p| |]; [| |assumption].
  - destruct Hs as [Hin Ha]. split; [|assumption].
    destruct (pstat s p) as [[| |]|] eqn:E; try discriminate; [reflexivity|].
    exfalso. apply (proj1 (i_keys s H p) Hin). assumption.
  - exfalso. destruct (nact_pos_exists _ _ Hpos) as [p [Hin Ea]].
    apply In_nth_error in Hin. destruct Hin as [m Hm].
    assert (Hmn : (m < n)%nat) by (apply nth_error_Some; rewrite Hm; discriminate).
    specialize (Hs m Hmn p Hm). rewrite Ea in Hs. discriminate.
Qed.

Lemma try_get_inv s : pinv s -> pinv (fst (try_get s)).
Proof.
  intro H. rewrite (try_get_frame s). destruct H as [H1 H2 H3 Hh H4 H5 H6 H7].
  destruct s; simpl in *. constructor; simpl; assumption.
Qed.

Lemma try_get_some_pos s : pinv s -> (0 < pcount s)%Z -> exists p, snd (try_get s) = GSome p.
Proof.
  intros H Hc. pose proof (try_get_spec s H) as Hs. destruct (snd (try_get s)) as [p| |].
  - exists p. reflexivity.
  - lia.
  - contradiction.
Qed.

(** ** frames: what each pool operation does to the clock, the ttl, the channel counter and the queue *)
Definition frame (s s' : pool) : Prop :=
  pttl s' = pttl s /\ pnow s' = pnow s /\ (pgen s <= pgen s')%nat.

Lemma frame_refl s : frame s s. Proof. repeat split; lia. Qed.
Lemma frame_trans a b c : frame a b -> frame b c -> frame a c.
Proof. intros (A1 & A2 & A3) (B1 & B2 & B3). repeat split; congruence || lia. Qed.

Lemma check_has_frame s : frame s (check_has s) /\ pqueue (check_has s) = pqueue s.
Proof.
  unfold check_has, frame. destruct (andb _ _); [simpl; repeat split; lia|].
  destruct (andb _ _); simpl; repeat split; lia.
Qed.

Lemma add1_frame s p : frame s (add1 s p) /\ pqueue (add1 s p) = pqueue s.
Proof.
  unfold add1, frame. destruct s as [l st c nx h g q now ttl thr]; simpl. destruct (st p) as [[| |]|]; simpl; try (repeat split; lia);
    destruct (queue_has _ _); simpl; repeat split; lia.
Qed.

Lemma fold_frame (f : pool -> peer -> pool) :
  (forall s p, frame s (f s p) /\ pqueue (f s p) = pqueue s) ->
  forall ps s, frame s (fold_left f ps s) /\ pqueue (fold_left f ps s) = pqueue s.
Proof.
  intros Hf ps. induction ps as [|p ps IH]; simpl; intro s; [split; [apply frame_refl | reflexivity]|].
  destruct (Hf s p) as [F Q]. destruct (IH (f s p)) as [F' Q']. split; [eapply frame_trans; eassumption | congruence].
Qed.

Lemma add_frame s ps : frame s (add s ps) /\ pqueue (add s ps) = pqueue s.
Proof.
  unfold add. destruct (fold_frame add1 add1_frame ps s) as [F Q].
  destruct (check_has_frame (fold_left add1 ps s)) as [F' Q']. split; [eapply frame_trans; eassumption | congruence].
Qed.

Lemma remove1_frame s p : frame s (remove1 s p) /\ pqueue (remove1 s p) = pqueue s.
Proof.
  unfold remove1, frame. destruct s as [l st c nx h g q now ttl thr]; simpl. destruct (st p) as [[| |]|]; simpl; repeat split; lia.
Qed.

Lemma cleanup_frame s : frame s (cleanup s) /\ pqueue (cleanup s) = pqueue s.
Proof. unfold cleanup, frame. destruct (cleanup_go _ _). destruct s; simpl. repeat split; lia. Qed.

Lemma remove_frame s ps : frame s (remove s ps) /\ pqueue (remove s ps) = pqueue s.
Proof.
  unfold remove. destruct (fold_frame remove1 remove1_frame ps s) as [F Q].
  set (s1 := fold_left remove1 ps s) in *.
  assert (H2 : frame s1 (if (pcount s1 + pthr s1 <=? Z.of_nat (length (plist s1)))%Z then cleanup s1 else s1) /\
               pqueue (if (pcount s1 + pthr s1 <=? Z.of_nat (length (plist s1)))%Z then cleanup s1 else s1) = pqueue s1).
  { destruct (_ <=? _)%Z; [apply cleanup_frame | split; [apply frame_refl | reflexivity]]. }
  destruct H2 as [F2 Q2]. destruct (check_has_frame (if (pcount s1 + pthr s1 <=? Z.of_nat (length (plist s1)))%Z then cleanup s1 else s1)) as [F3 Q3].
  split; [eapply frame_trans; [eassumption|eapply frame_trans; eassumption] | congruence].
Qed.

Lemma try_get_frame2 s : frame s (fst (try_get s)) /\ pqueue (fst (try_get s)) = pqueue s.
Proof. rewrite (try_get_frame s). destruct s; simpl. unfold frame; simpl. repeat split; lia. Qed.

Lemma put_on_cooldown_frame s p :
  frame s (put_on_cooldown s p) /\
  pqueue (put_on_cooldown s p) = if ost_eqb (pstat s p) (Some Active) then pqueue s ++ [(p, pnow s)] else pqueue s.
Proof.
  unfold put_on_cooldown. destruct (pstat s p) as [[| |]|]; simpl; try (split; [apply frame_refl | reflexivity]).
  match goal with |- frame _ (check_has ?x) /\ _ => destruct (check_has_frame x) as [F Q] end.
  split; [|rewrite Q; destruct s; reflexivity].
  eapply frame_trans; [|exact F]. destruct s; unfold frame; simpl. repeat split; lia.
Qed.

Lemma after_cooldown_frame s p : frame s (after_cooldown s p) /\ pqueue (after_cooldown s p) = pqueue s.
Proof.
  unfold after_cooldown. destruct (pstat s p) as [[| |]|]; simpl; try (split; [apply frame_refl | reflexivity]).
  match goal with |- frame _ (check_has ?x) /\ _ => destruct (check_has_frame x) as [F Q] end.
  split; [|rewrite Q; destruct s; reflexivity].
  eapply frame_trans; [|exact F]. destruct s; unfold frame; simpl. repeat split; lia.
Qed.

Lemma expire1_frame s :
  frame s (expire1 s) /\
  (pqueue (expire1 s) = pqueue s \/
   exists p t, pqueue s = (p, t) :: pqueue (expire1 s) /\ expired s t = true).
Proof.
  unfold expire1. destruct (pqueue s) as [|[p t] q'] eqn:Q; [split; [apply frame_refl | left; exact Q]|].
  destruct (expired s t) eqn:Ex; [|split; [apply frame_refl | left; exact Q]].
  destruct (after_cooldown_frame (set_queue s q') p) as [F Q2]. split.
  - eapply frame_trans; [|exact F]. destruct s; unfold frame; simpl. repeat split; lia.
  - right. exists p, t. split; [|exact Ex]. rewrite Q2. destruct s; reflexivity.
Qed.

(** ** system level *)
Record sinv (s : sys) : Prop := mkSinv {
  s_pool : pinv (spool s);
  s_hold : forall w g, swait s w = WHolding g -> (g <= pgen (spool s))%nat
}.

Lemma sinv_init ttl : sinv (init ttl).
Proof. constructor; [apply pinv_new | intros w g H; discriminate]. Qed.

Lemma hold_mono (s : sys) (p' : pool) : sinv s -> (pgen (spool s) <= pgen p')%nat ->
  forall w g, swait s w = WHolding g -> (g <= pgen p')%nat.
Proof. intros H Hle w g Hw. pose proof (s_hold s H w g Hw). lia. Qed.

Lemma step_sinv s e : sinv s -> sinv (step s e).
Proof.
  intros H. pose proof (s_pool s H) as Hp. unfold step, step_out.
  destruct e as [ps|ps| |x| |d| |w|w|w|w]; simpl.
  - constructor; simpl; [apply add_inv, Hp | apply hold_mono; [assumption | apply add_frame]].
  - constructor; simpl; [apply remove_inv, Hp | apply hold_mono; [assumption | apply remove_frame]].
  - destruct (try_get (spool s)) as [p' r] eqn:E. simpl.
    assert (p' = fst (try_get (spool s))) as -> by (rewrite E; reflexivity).
    constructor; simpl; [apply try_get_inv, Hp | apply hold_mono; [assumption | apply try_get_frame2]].
  - constructor; simpl; [apply put_on_cooldown_inv, Hp | apply hold_mono; [assumption | apply put_on_cooldown_frame]].
  - constructor; simpl; [apply cleanup_inv, Hp | apply hold_mono; [assumption | apply cleanup_frame]].
  - constructor; simpl; [apply advance_inv, Hp | apply (s_hold s H)].
  - constructor; simpl; [apply expire1_inv, Hp | apply hold_mono; [assumption | apply expire1_frame]].
  - destruct (swait s w) eqn:Ew; try assumption.
    destruct (try_get (spool s)) as [p' r] eqn:E.
    assert (p' = fst (try_get (spool s))) as -> by (rewrite E; reflexivity).
    assert (Hpi : pinv (fst (try_get (spool s)))) by (apply try_get_inv, Hp).
    assert (Hg : (pgen (spool s) <= pgen (fst (try_get (spool s))))%nat) by apply try_get_frame2.
    destruct r; simpl; constructor; simpl; try assumption.
    + intros w' g Hw'. unfold updw in Hw'. destruct (Nat.eqb w' w); [discriminate|].
      eapply hold_mono; eassumption.
    + eapply hold_mono; eassumption.
    + eapply hold_mono; eassumption.
  - destruct (swait s w) eqn:Ew; try assumption. simpl. constructor; simpl; [assumption|].
    intros w' g Hw'. unfold updw in Hw'. destruct (Nat.eqb w' w); [inversion Hw'; lia|]. apply (s_hold s H w' g Hw').
  - destruct (swait s w) eqn:Ew; try assumption. destruct (chan_closed (spool s) g); [|assumption].
    simpl. constructor; simpl; [assumption|].
    intros w' g' Hw'. unfold updw in Hw'. destruct (Nat.eqb w' w); [discriminate|]. apply (s_hold s H w' g' Hw').
  - destruct (swait s w) eqn:Ew; try assumption. simpl. constructor; simpl; [assumption|].
    intros w' g' Hw'. unfold updw in Hw'. destruct (Nat.eqb w' w); [discriminate|]. apply (s_hold s H w' g' Hw').
Qed.

Lemma run_sinv ttl es : sinv (run step (init ttl) es).
Proof. apply run_inv; [intros; apply step_sinv; assumption | apply sinv_init]. Qed.

(** ** the property theorems *)

(** count_inv: in every reachable state activeCount is the number of listed peers whose status is active, the list
    has no duplicates, lists exactly the peers that have a status, and hasPeer <-> activeCount > 0. *)
Theorem count_inv : forall ttl es,
  let s := spool (run step (init ttl) es) in
  pcount s = Z.of_nat (nact (pstat s) (plist s)) /\ NoDup (plist s) /\
  (forall p, In p (plist s) <-> pstat s p <> None) /\ phas s = (0 <? pcount s)%Z.
Proof.
  intros ttl es s. pose proof (s_pool _ (run_sinv ttl es)) as H. fold s in H.
  split; [apply (i_count s H) | split; [apply (i_nodup s H) | split; [apply (i_keys s H) | apply (i_has s H)]]].
Qed.

(** tryGet_active: whatever tryGet (called directly or by a waiter of next) returns in a reachable state is a listed
    peer whose status is active; it never panics, finds a peer whenever one is active, and changes nothing but nextIdx. *)
Theorem tryGet_active : forall ttl es,
  let s := spool (run step (init ttl) es) in
  (forall p, snd (try_get s) = GSome p -> pstat s p = Some Active /\ In p (plist s)) /\
  snd (try_get s) <> GPanic /\
  ((0 < pcount s)%Z -> exists p, snd (try_get s) = GSome p) /\
  same_but_next s (fst (try_get s)).
Proof.
  intros ttl es s. pose proof (s_pool _ (run_sinv ttl es)) as H. fold s in H.
  pose proof (try_get_spec s H) as Hs. repeat split.
  - rewrite H0 in Hs. apply Hs.
  - rewrite H0 in Hs. apply Hs.
  - intro E. rewrite E in Hs. exact Hs.
  - apply try_get_some_pos, H.
  - apply try_get_frame.
Qed.

(** cool-down *)
Definition cd_here (s : sys) (e : ev) (x : peer) : list N :=
  match e with
  | ECooldown y => if andb (N.eqb y x) (ost_eqb (pstat (spool s) x) (Some Active)) then [pnow (spool s)] else []
  | _ => []
  end.

Lemma cooldown_times_snoc es : forall s e x,
  cooldown_times s (es ++ [e]) x = cooldown_times s es x ++ cd_here (run step s es) e x.
Proof.
  induction es as [|a es IH]; intros s e x.
  - simpl. rewrite app_nil_r. reflexivity.
  - change ((a :: es) ++ [e]) with (a :: (es ++ [e])). cbn [cooldown_times]. rewrite IH, app_assoc. reflexivity.
Qed.

Lemma cd_here_not_cooldown s e x : (forall y, e <> ECooldown y) -> cd_here s e x = [].
Proof. destruct e; simpl; intro H; try reflexivity. exfalso. apply (H p). reflexivity. Qed.

Lemma step_tryget s : spool (step s ETryGet) = fst (try_get (spool s)).
Proof. unfold step, step_out. destruct (try_get (spool s)); reflexivity. Qed.

Lemma step_wtry s w : spool (step s (EWTry w)) = spool s \/ spool (step s (EWTry w)) = fst (try_get (spool s)).
Proof.
  unfold step, step_out. destruct (swait s w); try (left; reflexivity).
  destruct (try_get (spool s)) as [p' r]. right. destruct r; reflexivity.
Qed.

Lemma step_wother s e : (exists w, e = EWRead w \/ e = EWWake w \/ e = EWCancel w) -> spool (step s e) = spool s.
Proof.
  intros [w [->|[->| ->]]]; unfold step, step_out; destruct (swait s w); try reflexivity.
  destruct (chan_closed _ _); reflexivity.
Qed.

(** one step: ttl constant, time monotone, a queue entry survives unless its cool-down elapsed, and an effective
    putOnCooldown leaves its entry in the queue *)
Lemma step_queue s e : sinv s ->
  let p := spool s in let p' := spool (step s e) in
  pttl p' = pttl p /\ pnow p <= pnow p' /\
  (forall x t, In (x, t) (pqueue p) -> In (x, t) (pqueue p') \/ t + pttl p <= pnow p') /\
  (forall x t, In t (cd_here s e x) -> t = pnow p /\ In (x, t) (pqueue p')).
Proof.
  intros Hs p p'. pose proof (s_pool s Hs) as Hp. fold p in Hp.
  assert (Hnc : forall q, (forall y, e <> ECooldown y) -> frame p q /\ pqueue q = pqueue p ->
            pttl q = pttl p /\ pnow p <= pnow q /\
            (forall x t, In (x, t) (pqueue p) -> In (x, t) (pqueue q) \/ t + pttl p <= pnow q) /\
            (forall x t, In t (cd_here s e x) -> t = pnow p /\ In (x, t) (pqueue q))).
  { intros q Hne [(F1 & F2 & _) Q]. split; [assumption|]. split; [lia|]. split.
    - intros x t Hin. left. rewrite Q. assumption.
    - intros x t H. rewrite cd_here_not_cooldown in H by assumption. contradiction. }
  assert (Hsame : frame p p /\ pqueue p = pqueue p) by (split; [apply frame_refl | reflexivity]).
  destruct e as [ps|ps| |y| |d| |w|w|w|w]; subst p'.
  - apply Hnc; [intros y; discriminate | apply add_frame].
  - apply Hnc; [intros y; discriminate | apply remove_frame].
  - rewrite step_tryget. apply Hnc; [intros y; discriminate | apply try_get_frame2].
  - (* putOnCooldown *)
    change (spool (step s (ECooldown y))) with (put_on_cooldown p y).
    destruct (put_on_cooldown_frame p y) as [(F1 & F2 & _) Q].
    split; [assumption|]. split; [lia|]. split.
    + intros x t Hin. left. rewrite Q. destruct (ost_eqb _ _); [apply in_app_iff; left|]; assumption.
    + intros x t H. simpl in H. fold p in H. destruct (N.eqb_spec y x) as [->|Hne]; simpl in H; [|contradiction].
      destruct (ost_eqb (pstat p x) (Some Active)) eqn:Ea; [|contradiction]. destruct H as [<-|[]].
      split; [reflexivity|]. rewrite Q. apply in_app_iff. right. left. reflexivity.
  - apply Hnc; [intros y; discriminate | apply cleanup_frame].
  - (* clock *)
    change (spool (step s (EAdvance d))) with (advance p d). destruct p as [l st c nx h g q now ttl thr]; simpl.
    split; [reflexivity|]. split; [lia|]. split; [intros; left; assumption | intros x t []].
  - (* expiry *)
    change (spool (step s EExpire)) with (expire1 p).
    destruct (expire1_frame p) as [(F1 & F2 & _) Q]. split; [assumption|]. split; [lia|]. split; [|intros x t []].
    intros x t Hin. destruct Q as [Q|(y & u & Q & Ex)]; [left; rewrite Q; assumption|].
    rewrite Q in Hin. destruct Hin as [Hin|Hin]; [|left; assumption].
    inversion Hin; subst. right. rewrite F2.
    assert (t <= pnow p) by (apply (i_qtime p Hp x t); rewrite Q; left; reflexivity).
    unfold expired in Ex. apply negb_true_iff, N.ltb_ge in Ex. lia.
  - destruct (step_wtry s w) as [E|E]; rewrite E; apply Hnc; try (intros y; discriminate); [assumption | apply try_get_frame2].
  - rewrite step_wother by (exists w; auto). apply Hnc; [intros y; discriminate | assumption].
  - rewrite step_wother by (exists w; auto). apply Hnc; [intros y; discriminate | assumption].
  - rewrite step_wother by (exists w; auto). apply Hnc; [intros y; discriminate | assumption].
Qed.

(** the ghost invariant: every effective cool-down of x either elapsed or still has its entry in the queue *)
Lemma cooldown_ghost ttl es : forall x t,
  In t (cooldown_times (init ttl) es x) ->
  let p := spool (run step (init ttl) es) in
  pttl p = ttl /\ (t + ttl <= pnow p \/ In (x, t) (pqueue p)).
Proof.
  induction es as [|e es IH] using rev_ind; intros x t Hin.
  - contradiction.
  - rewrite cooldown_times_snoc in Hin. rewrite run_snoc.
    set (s := run step (init ttl) es) in *.
    pose proof (run_sinv ttl es) as Hs. fold s in Hs.
    destruct (step_queue s e Hs) as (T1 & T2 & T3 & T4).
    assert (Httl : pttl (spool s) = ttl).
    { clear -s. subst s. induction es as [|e es IH] using rev_ind; [reflexivity|].
      rewrite run_snoc. destruct (step_queue (run step (init ttl) es) e (run_sinv ttl es)) as (T1 & _). congruence. }
    simpl. split; [congruence|].
    apply in_app_iff in Hin. destruct Hin as [Hin|Hin].
    + destruct (IH x t Hin) as [_ [Hold|Hq]]; [left; fold s in Hold; lia|].
      fold s in Hq. destruct (T3 x t Hq) as [Hq'|Hel]; [right; assumption | left; lia].
    + destruct (T4 x t Hin) as [_ Hq]. right. assumption.
Qed.

(** cooldown_respected: a peer offered by tryGet (or to a waiter of next) in a reachable state has no cool-down
    younger than ttl: every putOnCooldown of it that took effect lies at least ttl in the past. *)
Theorem cooldown_respected : forall ttl es x t,
  let s := run step (init ttl) es in
  snd (try_get (spool s)) = GSome x -> In t (cooldown_times (init ttl) es x) -> t + ttl <= pnow (spool s).
Proof.
  intros ttl es x t s Hget Hin.
  pose proof (s_pool _ (run_sinv ttl es)) as Hp. fold s in Hp.
  pose proof (try_get_spec (spool s) Hp) as Hs. rewrite Hget in Hs. destruct Hs as [Ha _].
  destruct (cooldown_ghost ttl es x t Hin) as [_ [H|H]]; [exact H|].
  exfalso. apply (i_qact (spool s) Hp x); [|assumption].
  apply in_map_iff. exists (x, t). split; [reflexivity | assumption].
Qed.

(** waiters_woken: a caller parked in next() never holds a channel that stays open while a peer is active: as soon
    as activeCount > 0 its receive is enabled and the retry hands it an active peer. *)
Theorem waiters_woken : forall ttl es w g,
  let s := run step (init ttl) es in
  swait s w = WHolding g -> (0 < pcount (spool s))%Z ->
  chan_closed (spool s) g = true /\
  exists x, swait (run step s [EWWake w; EWTry w]) w = WGot x /\ pstat (spool s) x = Some Active.
Proof.
  intros ttl es w g s Hw Hc.
  pose proof (run_sinv ttl es) as Hs. fold s in Hs. pose proof (s_pool s Hs) as Hp.
  assert (Hcl : chan_closed (spool s) g = true).
  { unfold chan_closed. pose proof (s_hold s Hs w g Hw) as Hg.
    rewrite (i_has _ Hp). assert ((0 <? pcount (spool s))%Z = true) as -> by (apply Z.ltb_lt; assumption).
    destruct (Nat.ltb_spec g (pgen (spool s))); [reflexivity|].
    assert (g = pgen (spool s)) as -> by lia. rewrite Nat.eqb_refl. reflexivity. }
  split; [assumption|].
  destruct (try_get_some_pos (spool s) Hp Hc) as [x Hx].
  pose proof (try_get_spec (spool s) Hp) as Hsp. rewrite Hx in Hsp.
  exists x. split; [|apply Hsp].
  simpl. unfold step at 2. unfold step_out. rewrite Hw, Hcl. simpl.
  unfold step, step_out. simpl. unfold updw at 1. rewrite Nat.eqb_refl.
  destruct (try_get (spool s)) as [p' r]. simpl in Hx. subst r. simpl. unfold updw. rewrite Nat.eqb_refl. reflexivity.
Qed.

(** cancel_honoured: a parked caller of next() can always leave through its context (the step is enabled in every
    state, touches nothing else), and a pool step never needs a waiter to move first. *)
Theorem cancel_honoured : forall s w g,
  swait s w = WHolding g ->
  swait (step s (EWCancel w)) w = WGone /\ spool (step s (EWCancel w)) = spool s /\
  forall w', w' <> w -> swait (step s (EWCancel w)) w' = swait s w'.
Proof.
  intros s w g H. unfold step, step_out. rewrite H. simpl. unfold updw. rewrite Nat.eqb_refl.
  split; [reflexivity|]. split; [reflexivity|]. intros w' Hne. apply Nat.eqb_neq in Hne. rewrite Hne. reflexivity.
Qed.

(** ** non-vacuity: concrete reachable states meeting the hypotheses *)
Definition ex_history : list ev :=
  [EAdd [1; 2; 3]; ETryGet; ECooldown 1; ERemove [1]; EAdd [1]; EAdvance 9; EExpire; ETryGet; ETryGet; ETryGet;
   ERemove [3]; EAdvance 1; EExpire].

(** peer 1: cooled down at 0, removed, re-added (stays on cool-down), not offered at t=9, offered from t=10 on;
    the state has an active, a re-activated and a removed-and-cleaned-up peer. *)
Example pool_nonvacuous :
  let s := run step (init 10) ex_history in
  cooldown_times (init 10) ex_history 1 = [0] /\
  snd (run_out (init 10) ex_history) = [GSome 1; GSome 2; GSome 3; GSome 2] /\
  pstat (spool s) 1 = Some Active /\ pstat (spool s) 3 = None /\ pcount (spool s) = 2%Z /\ pnow (spool s) = 10 /\
  snd (try_get (spool s)) = GSome 1.
Proof. vm_compute. repeat split; reflexivity. Qed.

Example waiters_nonvacuous :
  let s := run step (init 10) [EWTry 0; EWRead 0; EAdd [5]; ECooldown 5; EWTry 1; EWRead 1; EAdvance 10; EExpire] in
  swait s 0%nat = WHolding 0 /\ swait s 1%nat = WHolding 1 /\ (0 < pcount (spool s))%Z.
Proof. vm_compute. repeat split; reflexivity. Qed.

(** C17 — deadlock freedom of the peers package's locking, from the lock graph that the translator
    /verif/translators/locks regenerates from the package's source on every run (Gen/LockGraph_peers.v). *)
From Coq Require Import List String.
From CN Require Import Base.LockOrder Gen.LockGraph_peers.
Import ListNotations.
Open Scope string_scope.

(** decided by computation on the GENERATED edge list; also: no function returns with a lock held *)
Theorem peers_lock_acyclic : sacyclic edges = true /\ unbalanced = [].
Proof. vm_compute. split; reflexivity. Qed.

(** any number of threads, each following the package's lock order, never reach a deadlocked state *)
Theorem peers_no_deadlock : forall progs s,
  Forall (ok String.eqb edges []) progs -> reachable String.eqb (init progs) s -> ~ deadlocked s.
Proof. intros progs s H R. exact (sacyclic_no_deadlock edges progs s (proj1 peers_lock_acyclic) H R). Qed.

(** non-vacuity: the lock sequences of the pool's entry points (putOnCooldown / add, the cool-down timer's
    releaseExpired -> afterCooldown, tryGet, Manager.getOrCreatePool) follow the generated order *)
Example peers_programs_ok :
  Forall (ok String.eqb edges [])
    [ [Acq "timedQueue.Mutex"; Acq "pool.m"; Step; Rel "pool.m"; Rel "timedQueue.Mutex"];
      [Acq "timedQueue.Mutex"; Step; Acq "pool.m"; Rel "pool.m"; Acq "pool.m"; Rel "pool.m"; Rel "timedQueue.Mutex"];
      [Acq "pool.m"; Step; Rel "pool.m"];
      [Acq "Manager.lock"; Step; Rel "Manager.lock"; Acq "pool.m"; Rel "pool.m"] ].
Proof. apply sokb_ok. vm_compute. reflexivity. Qed.

(** C17 — proofs about the lock-granularity manager model [Peers.Fine], for EVERY interleaving of the critical sections
    of any number of concurrent Manager calls:
      - [fine_blacklisted_never_offered]: a Peer call that begins after a peer was blacklisted never returns it;
      - [unguarded_refuted]: ... which is false when removeIfUnreachable tests only [nodes.has] (the witness is the
        schedule that re-adds the peer between nodes.remove and BlockPeer of its blacklisting);
      - [fine_done_blacklists]: a misbehaviour report that has returned did blacklist the peer;
      - [fine_no_unvalidated_promotion]: a peer is in the general pool only if a discovery add for it, or an
        announcement by it of a hash whose confirmation has begun, has begun;
      - [hrun_reachable]: the schedules the harness drives on the real Manager are histories of [frun]. *)
From Coq Require Import List ZArith NArith Bool Lia.
From CN Require Import Base.Lts Peers.Pool Peers.PoolProofs Peers.Manager Peers.ManagerProofs Peers.Fine.
Import ListNotations.
Open Scope N_scope.

(** ** frames: what a critical section cannot change *)
Lemma fgoc_frame s h height :
  h_guard (fst (fget_or_create s h height)) = h_guard s /\ h_enable (fst (fget_or_create s h height)) = h_enable s /\
  h_black (fst (fget_or_create s h height)) = h_black s /\ h_nodes (fst (fget_or_create s h height)) = h_nodes s.
Proof. unfold fget_or_create. destruct (find_pid _ _); simpl; auto. Qed.

Definition same_gate (s s' : shared) : Prop :=
  h_guard s' = h_guard s /\ h_enable s' = h_enable s /\ forall x, black s x = true -> black s' x = true.

Lemma same_gate_refl s : same_gate s s.
Proof. repeat split; auto. Qed.

Lemma same_gate_of s s' : h_guard s' = h_guard s -> h_enable s' = h_enable s -> h_black s' = h_black s -> same_gate s s'.
Proof. intros G E B. repeat split; auto. unfold black. rewrite B. auto. Qed.

Ltac dm := repeat match goal with
  | |- context [match ?x with _ => _ end] => destruct x eqn:?
  end.

Lemma tstep_gate s p : same_gate s (fst (tstep s p)).
Proof.
  destruct p; simpl;
    try (destruct (fgoc_frame s h height) as (G & E & B & _); apply same_gate_of; assumption);
    try (destruct (fgoc_frame s (g_h a) (g_height a)) as (G & E & B & _); apply same_gate_of; assumption);
    dm; simpl; try apply same_gate_refl; try (apply same_gate_of; reflexivity).
  (* BlockPeer: the only step that changes the blacklist, and it only adds *)
  repeat split; auto. unfold black. simpl. intros y H. destruct (N.eqb y x); [reflexivity | exact H].
Qed.

Lemma twake_gate s p src : same_gate s (fst (twake s p src)).
Proof. destruct p; simpl; try apply same_gate_refl. destruct src; simpl; apply same_gate_of; reflexivity. Qed.

Lemma fstep_gate s e : same_gate (fs_sh s) (fs_sh (fstep s e)).
Proof.
  destruct e as [t c|t|t src|h|d]; simpl.
  - destruct (fs_thr s t); apply same_gate_refl.
  - destruct (fs_thr s t) as [|p|o]; try apply same_gate_refl.
    pose proof (tstep_gate (fs_sh s) p) as H. destruct (tstep (fs_sh s) p) as [sh r]. exact H.
  - destruct (fs_thr s t) as [|p|o]; try apply same_gate_refl.
    pose proof (twake_gate (fs_sh s) p src) as H. destruct (twake (fs_sh s) p src) as [sh p']. exact H.
  - unfold fage. destruct (find_pid _ _); [apply same_gate_of; reflexivity | apply same_gate_refl].
  - apply same_gate_of; reflexivity.
Qed.

Lemma frun_gate es : forall s, same_gate (fs_sh s) (fs_sh (frun s es)).
Proof.
  induction es as [|e es IH]; intro s; [apply same_gate_refl|]. simpl.
  destruct (fstep_gate s e) as (G1 & E1 & B1). destruct (IH (fstep s e)) as (G2 & E2 & B2).
  repeat split; [congruence | congruence | auto].
Qed.

(** ** a blacklisted peer is never offered *)

(** thread-local fact: the thread is not about to return [x], and has not returned it *)
Definition pc_safe (x : peer) (p : pc) : Prop :=
  match p with
  | PR2 _ _ y => y <> x       (* y passed the blacklist test of removeIfUnreachable *)
  | PRet y _ => y <> x        (* y passed the last test *)
  | _ => True
  end.

Definition tsafe (x : peer) (ts : tstate) : Prop :=
  match ts with
  | TNone => True
  | TRun p => pc_safe x p
  | TDone o => forall src, o <> OP (PRes x src)
  end.

Definition tres_safe (x : peer) (r : tres) : Prop :=
  match r with Go p' => pc_safe x p' | Fin o => forall src, o <> OP (PRes x src) end.

Lemma tstep_safe s p x :
  h_guard s = true -> black s x = true -> pc_safe x p -> tres_safe x (snd (tstep s p)).
Proof.
  intros G B S. destruct p; cbn [tstep]; try rewrite G; cbn [andb]; dm; cbn [snd tres_safe pc_safe]; auto;
    try (intros; discriminate).
  all: try (destruct c; exact I).
  all: try (unfold after_validated; destruct (g_peer a); exact I).
  - (* removeIfUnreachable's blacklist test let the peer through *)
    intro E. subst. congruence.
  - (* removeIfBlacklisted let it through *)
    intro E. subst. congruence.
  - (* newPeer returns the tested peer *)
    intros src0 E. inversion E. subst. apply S. reflexivity.
Qed.

Lemma twake_safe s p src x : pc_safe x p -> pc_safe x (snd (twake s p src)).
Proof. intro S. destruct p; simpl; auto. destruct src; simpl; dm; simpl; auto. Qed.

Definition bsafe (x : peer) (t : nat) (s : fsys) : Prop :=
  h_guard (fs_sh s) = true /\ black (fs_sh s) x = true /\ tsafe x (fs_thr s t).

Lemma updt_same f t v : updt f t v t = v.
Proof. unfold updt. rewrite Nat.eqb_refl. reflexivity. Qed.

Lemma updt_other f t v u : u <> t -> updt f t v u = f u.
Proof. intro H. unfold updt. destruct (Nat.eqb_spec u t); [contradiction | reflexivity]. Qed.

Lemma fstep_bsafe x t s e : bsafe x t s -> bsafe x t (fstep s e).
Proof.
  intros (G & B & S). destruct (fstep_gate s e) as (G' & _ & B').
  split; [congruence|]. split; [auto|].
  destruct e as [u c|u|u src|h|d]; simpl; try exact S.
  - destruct (fs_thr s u) eqn:Eu; try exact S. simpl.
    destruct (Nat.eq_dec t u) as [->|Hn]; [rewrite updt_same; exact I | rewrite updt_other; assumption].
  - destruct (fs_thr s u) as [|p|o] eqn:Eu; try exact S.
    pose proof (tstep_safe (fs_sh s) p x G B) as H. destruct (tstep (fs_sh s) p) as [sh r]. simpl in *.
    destruct (Nat.eq_dec t u) as [->|Hn]; [|rewrite updt_other; assumption].
    rewrite updt_same. rewrite Eu in S. specialize (H S). destruct r; exact H.
  - destruct (fs_thr s u) as [|p|o] eqn:Eu; try exact S.
    pose proof (twake_safe (fs_sh s) p src x) as H. destruct (twake (fs_sh s) p src) as [sh p']. simpl in *.
    destruct (Nat.eq_dec t u) as [->|Hn]; [|rewrite updt_other; assumption].
    rewrite updt_same. rewrite Eu in S. exact (H S).
Qed.

(** from any state of the current code ([h_guard]): once [x] is on the blacklist, a call that has not begun yet never
    returns [x], whatever runs concurrently with it *)
Lemma bsafe_run x t es : forall s, bsafe x t s -> bsafe x t (frun s es).
Proof. exact (run_inv fstep (bsafe x t) (fun s e => fstep_bsafe x t s e) es). Qed.

Theorem fine_blacklisted_never_offered : forall enable self ttl es es' t x src,
  black (fs_sh (frun (finit true enable self ttl) es)) x = true ->
  fs_thr (frun (finit true enable self ttl) es) t = TNone ->
  fs_thr (frun (finit true enable self ttl) (es ++ es')) t <> TDone (OP (PRes x src)).
Proof.
  intros enable self ttl es es' t x src B N.
  assert (H0 : bsafe x t (frun (finit true enable self ttl) es)).
  { split; [|split; [exact B | rewrite N; exact I]].
    destruct (frun_gate es (finit true enable self ttl)) as (G & _). exact G. }
  pose proof (bsafe_run x t es' _ H0) as (_ & _ & S).
  unfold frun in *. rewrite fold_left_app. intro E. rewrite E in S. exact (S src eq_refl).
Qed.

(** ... and the same, seen from the call: whatever a Peer call returns was not blacklisted when the call began *)
Corollary fine_offered_not_blacklisted : forall enable self ttl es es' t x src,
  fs_thr (frun (finit true enable self ttl) es) t = TNone ->
  fs_thr (frun (finit true enable self ttl) (es ++ es')) t = TDone (OP (PRes x src)) ->
  black (fs_sh (frun (finit true enable self ttl) es)) x = false.
Proof.
  intros enable self ttl es es' t x src N D.
  destruct (black (fs_sh (frun (finit true enable self ttl) es)) x) eqn:B; [|reflexivity].
  exfalso. exact (fine_blacklisted_never_offered enable self ttl es es' t x src B N D).
Qed.

(** the test in removeIfUnreachable is what the theorem rests on: without it ([h_guard = false], i.e.
    [if !m.nodes.has(peerID)]) a discovery add between nodes.remove and BlockPeer of the peer's blacklisting leaves
    the peer blacklisted AND in the general pool, and the next Peer call for a hash it announced returns it *)
Definition gap_prefix : list fev :=
  [FSpawn 0 (CValidate 0 0 5)] ++ repeat (FStep 0) 9 ++             (* p0 announces h0 *)
  [FSpawn 1 (CPeer 0 5 [])] ++ repeat (FStep 1) 12 ++              (* a getter confirms h0 and is handed p0 *)
  [FSpawn 2 (CDone 0 0 SShrexSub DBlacklist)] ++ repeat (FStep 2) 3 ++  (* its result: blacklist p0 ... nodes.remove done *)
  [FSpawn 3 (CUpdate 0 true)] ++ repeat (FStep 3) 3 ++             (* discovery finds p0 again *)
  repeat (FStep 2) 3.                                              (* ... BlockPeer, ClosePeer *)

Definition gap_suffix : list fev := [FSpawn 4 (CPeer 0 5 [])] ++ repeat (FStep 4) 40.

Theorem unguarded_refuted : exists es es' t x src,
  black (fs_sh (frun (finit false true 9 10) es)) x = true /\
  fs_thr (frun (finit false true 9 10) es) t = TNone /\
  fs_thr (frun (finit false true 9 10) (es ++ es')) t = TDone (OP (PRes x src)).
Proof. exists gap_prefix, gap_suffix, 4%nat, 0, SShrexSub. vm_compute. repeat split; reflexivity. Qed.

(** non-vacuity: the same schedule on the current code reaches the same intermediate state (p0 blacklisted, in the
    general pool and in its hash pool) and the Peer call drops p0 from both pools instead of returning it *)
Example fine_nonvacuous :
  let s := frun (finit true true 9 10) gap_prefix in
  black (fs_sh s) 0 = true /\ has (h_nodes (fs_sh s)) 0 = true /\ has (pool_of (fs_sh s) 0) 0 = true /\
  fs_thr s 1%nat = TDone (OP (PRes 0 SShrexSub)) /\ fs_thr s 4%nat = TNone /\
  let s' := frun s gap_suffix in
  fs_thr s' 4%nat = TDone (OP PWait) /\ has (h_nodes (fs_sh s')) 0 = false /\ has (pool_of (fs_sh s') 0) 0 = false.
Proof. vm_compute. repeat split; reflexivity. Qed.

(** ** a misbehaviour report blacklists *)
Definition reporting (h : hash) (x : peer) (src : source) (ts : tstate) : Prop :=
  ts = TRun (PStart (CDone h x src DBlacklist)) \/ ts = TRun (PD0 h x src DBlacklist) \/
  ts = TRun (PB0 [x]) \/ ts = TRun (PB1 x []).

Definition dinv (h : hash) (x : peer) (src : source) (t : nat) (s : fsys) : Prop :=
  h_enable (fs_sh s) = true /\ (black (fs_sh s) x = true \/ reporting h x src (fs_thr s t)).

Lemma fstep_dinv h x src t s e : dinv h x src t s -> dinv h x src t (fstep s e).
Proof.
  intros (E & H). destruct (fstep_gate s e) as (_ & E' & B'). split; [congruence|].
  destruct H as [H|H]; [left; auto|].
  destruct e as [u c|u|u sr|k|d]; simpl; try (right; exact H).
  - destruct (fs_thr s u) eqn:Eu; try (right; exact H). simpl.
    destruct (Nat.eq_dec t u) as [->|Hn]; [|right; rewrite updt_other; assumption].
    exfalso. rewrite Eu in H. destruct H as [H|[H|[H|H]]]; discriminate.
  - destruct (fs_thr s u) as [|p|o] eqn:Eu; try (right; exact H).
    destruct (Nat.eq_dec t u) as [->|Hn].
    + rewrite Eu in H. destruct H as [H|[H|[H|H]]]; inversion H; subst; simpl.
      * right. rewrite updt_same. right. left. reflexivity.
      * right. rewrite updt_same. right. right. left. reflexivity.
      * rewrite E. simpl. right. rewrite updt_same. right. right. right. reflexivity.
      * left. unfold black. destruct (mem x (h_black (fs_sh s))) eqn:M; simpl; [exact M|]. rewrite N.eqb_refl. reflexivity.
    + destruct (tstep (fs_sh s) p) as [sh r]. simpl. right. rewrite updt_other; assumption.
  - destruct (fs_thr s u) as [|p|o] eqn:Eu; try (right; exact H).
    destruct (Nat.eq_dec t u) as [->|Hn].
    + rewrite Eu in H. destruct H as [H|[H|[H|H]]]; inversion H; subst; simpl; right; rewrite updt_same;
        unfold reporting; auto.
    + destruct (twake (fs_sh s) p sr) as [sh p']. simpl. right. rewrite updt_other; assumption.
Qed.

(** with blacklisting enabled: once DoneFunc(ResultBlacklistPeer) for [x] has returned, [x] is blacklisted, whatever
    ran between its steps *)
Theorem fine_done_blacklists : forall guard self ttl es es' t h x src o,
  fs_thr (frun (finit guard true self ttl) es) t = TNone ->
  fs_thr (frun (finit guard true self ttl) (es ++ FSpawn t (CDone h x src DBlacklist) :: es')) t = TDone o ->
  black (fs_sh (frun (finit guard true self ttl) (es ++ FSpawn t (CDone h x src DBlacklist) :: es'))) x = true.
Proof.
  intros guard self ttl es es' t h x src o N D.
  set (s0 := frun (finit guard true self ttl) es) in *.
  assert (H0 : dinv h x src t (fstep s0 (FSpawn t (CDone h x src DBlacklist)))).
  { split.
    - destruct (fstep_gate s0 (FSpawn t (CDone h x src DBlacklist))) as (_ & E & _). rewrite E.
      destruct (frun_gate es (finit guard true self ttl)) as (_ & E0 & _). exact E0.
    - right. simpl. rewrite N. simpl. rewrite updt_same. left. reflexivity. }
  pose proof (run_inv fstep (dinv h x src t) (fun s e => fstep_dinv h x src t s e) es' _ H0) as (_ & H).
  unfold frun in *. rewrite fold_left_app in *. simpl in *. fold s0 in D, H |- *.
  unfold run in H. destruct H as [H|H]; [exact H|].
  exfalso. rewrite D in H. destruct H as [H|[H|[H|H]]]; discriminate.
Qed.

(** ** the harness' schedules are histories *)
Lemma run_thread_reachable fuel stop : forall s t, exists es, run_thread fuel stop s t = frun s es.
Proof.
  induction fuel as [|f IH]; intros s t; [exists []; reflexivity|].
  cbn [run_thread]. set (s1 := fstep s (FStep t)).
  assert (E1 : s1 = frun s [FStep t]) by reflexivity.
  destruct (fs_thr s1 t) as [|p|o]; [exists [FStep t]; exact E1 | | exists [FStep t]; exact E1].
  destruct (stop p); [exists [FStep t]; exact E1|].
  destruct (IH s1 t) as [es E]. exists (FStep t :: es). rewrite E. reflexivity.
Qed.

Lemma hstep_reachable s e : exists es, hstep s e = frun s es.
Proof.
  destruct e as [t c|t|t l|h|d]; unfold hstep;
    [exists [FSpawn t c]; reflexivity | apply run_thread_reachable | apply run_thread_reachable
     | exists [FAge h]; reflexivity | exists [FTick d]; reflexivity].
Qed.

Theorem hrun_reachable : forall hs s, exists es, hrun s hs = frun s es.
Proof.
  induction hs as [|e hs IH]; intro s; [exists []; reflexivity|].
  change (hrun s (e :: hs)) with (hrun (hstep s e) hs).
  destruct (hstep_reachable s e) as [es1 E1]. destruct (IH (hstep s e)) as [es2 E2].
  exists (es1 ++ es2). rewrite E2, E1. unfold frun. rewrite fold_left_app. reflexivity.
Qed.

(** ** no promotion of unvalidated announcers, in every interleaving *)
Definition fdiscovered (es : list fev) (x : peer) : Prop := exists t, In (FSpawn t (CUpdate x true)) es.
Definition fannounced (es : list fev) (x : peer) (h : hash) : Prop := exists t height, In (FSpawn t (CValidate x h height)) es.
Definition fconfirmed (es : list fev) (h : hash) : Prop :=
  exists t height order, In (FSpawn t (CHeader h height order)) es \/ In (FSpawn t (CPeer h height order)) es.
Definition flegit (es : list fev) (x : peer) : Prop :=
  fdiscovered es x \/ exists h, fannounced es x h /\ fconfirmed es h.
Definition call_ok (es : list fev) (c : call) : Prop := exists t, In (FSpawn t c) es.

Lemma fdiscovered_mono es e x : fdiscovered es x -> fdiscovered (es ++ [e]) x.
Proof. intros [t H]. exists t. apply in_app_iff. left. exact H. Qed.
Lemma fannounced_mono es e x h : fannounced es x h -> fannounced (es ++ [e]) x h.
Proof. intros [t [k H]]. exists t, k. apply in_app_iff. left. exact H. Qed.
Lemma fconfirmed_mono es e h : fconfirmed es h -> fconfirmed (es ++ [e]) h.
Proof. intros [t [k [o [H|H]]]]; exists t, k, o; [left|right]; apply in_app_iff; left; exact H. Qed.
Lemma flegit_mono es e x : flegit es x -> flegit (es ++ [e]) x.
Proof.
  intros [H|[h [A C]]]; [left; apply fdiscovered_mono, H|].
  right. exists h. split; [apply fannounced_mono | apply fconfirmed_mono]; assumption.
Qed.
Lemma call_ok_mono es e c : call_ok es c -> call_ok (es ++ [e]) c.
Proof. intros [t H]. exists t. apply in_app_iff. left. exact H. Qed.

Definition hash_at (s : shared) (pid : nat) (h : hash) : Prop := exists sp, nth_error (h_heap s) pid = Some (h, sp).

(** what a thread at [p] may rely on *)
Definition pc_ok (es : list fev) (s : shared) (p : pc) : Prop :=
  match p with
  | PStart c => call_ok es c
  | PV0 x h _ | PV1 x h _ | PV2 x h _ | PV3 x h _ => fannounced es x h
  | PV4 x h pid | PV5 x h pid => fannounced es x h /\ hash_at s pid h
  | PV6 x h => fannounced es x h /\ fconfirmed es h
  | PG0 a => fconfirmed es (g_h a)
  | PG1 a pid | PG2 a pid => fconfirmed es (g_h a) /\ hash_at s pid (g_h a)
  | PG3 a pid todo allowed => fconfirmed es (g_h a) /\ forall y, In y (todo ++ allowed) -> fannounced es y (g_h a)
  | PR0 a _ | PR4 a _ | PWaiting a _ | PR1 a _ _ | PR2 a _ _ | PR3 a _ _ | PR5 a _ | PR6 a _ => fconfirmed es (g_h a)
  | PU0 x added => added = true -> fdiscovered es x
  | PU1 x => fdiscovered es x
  | _ => True
  end.

Definition sinv (es : list fev) (s : shared) : Prop :=
  (forall x, member (h_nodes s) x -> flegit es x) /\
  (forall pid h sp, nth_error (h_heap s) pid = Some (h, sp) ->
     (forall x, member (sp_pool sp) x -> fannounced es x h) /\ (sp_valid sp = true -> fconfirmed es h)) /\
  (forall h pid, In (h, pid) (h_table s) -> hash_at s pid h).

Lemma hash_at_mono_pc es s s' p :
  (forall pid h, hash_at s pid h -> hash_at s' pid h) -> pc_ok es s p -> pc_ok es s' p.
Proof. intros M H. destruct p; simpl in *; auto; destruct H as [H1 H2]; split; auto. Qed.

Lemma pc_ok_mono es e s p : pc_ok es s p -> pc_ok (es ++ [e]) s p.
Proof.
  destruct p; simpl; auto using call_ok_mono, fannounced_mono, fconfirmed_mono, fdiscovered_mono;
    try (intros [H1 H2]; split; auto using fannounced_mono, fconfirmed_mono).
  all: try (intros H E; apply fdiscovered_mono, H, E).
Qed.

Lemma sinv_mono es e s : sinv es s -> sinv (es ++ [e]) s.
Proof.
  intros (A & B & C). repeat split; auto.
  - intros x H. apply flegit_mono, A, H.
  - intros x H0. destruct (B _ _ _ H) as [B1 _]. apply fannounced_mono, B1, H0.
  - intros H0. destruct (B _ _ _ H) as [_ B2]. apply fconfirmed_mono, B2, H0.
Qed.

Lemma nth_upd_nth {A} (f : A -> A) : forall l i j,
  nth_error (upd_nth l i f) j = if Nat.eqb i j then option_map f (nth_error l j) else nth_error l j.
Proof.
  induction l as [|a l IH]; intros i j; simpl.
  - destruct (Nat.eqb i j); destruct j; reflexivity.
  - destruct i, j; simpl; try reflexivity. apply IH.
Qed.

Lemma upd_heap_nth s pid f j h sp' :
  nth_error (h_heap (upd_heap s pid f)) j = Some (h, sp') ->
  (j = pid /\ exists sp, nth_error (h_heap s) j = Some (h, sp) /\ sp' = f sp) \/ nth_error (h_heap s) j = Some (h, sp').
Proof.
  unfold upd_heap. simpl. rewrite nth_upd_nth. destruct (Nat.eqb_spec pid j) as [->|Hn]; [|auto].
  destruct (nth_error (h_heap s) j) as [[k sp]|]; simpl; [|discriminate].
  intro H. inversion H; subst. left. split; [reflexivity|]. exists sp. auto.
Qed.

Lemma hash_at_upd_heap s pid f j h : hash_at s j h -> hash_at (upd_heap s pid f) j h.
Proof.
  intros [sp H]. unfold hash_at, upd_heap. simpl. rewrite nth_upd_nth, H. destruct (Nat.eqb pid j); simpl; eauto.
Qed.

Lemma sinv_nodes es s n :
  sinv es s -> (forall x, member n x -> member (h_nodes s) x \/ flegit es x) -> sinv es (hset_nodes s n).
Proof.
  intros (A & B & C) H. repeat split; simpl; try (eapply B; eassumption); [|exact C].
  intros x Hx. destruct (H x Hx) as [H1|H1]; auto.
Qed.

Lemma sinv_heap es s pid f :
  sinv es s ->
  (forall h sp, nth_error (h_heap s) pid = Some (h, sp) ->
     (forall x, member (sp_pool (f sp)) x -> member (sp_pool sp) x \/ fannounced es x h) /\
     (sp_valid (f sp) = true -> sp_valid sp = true \/ fconfirmed es h)) ->
  sinv es (upd_heap s pid f).
Proof.
  intros (A & B & C) H. split; [exact A|]. split.
  - intros j h sp' Hj. destruct (upd_heap_nth _ _ _ _ _ _ Hj) as [[-> [sp [E ->]]]|E]; [|eapply B; exact E].
    destruct (H h sp E) as [H1 H2]. destruct (B _ _ _ E) as [B1 B2]. split.
    + intros x Hx. destruct (H1 x Hx); auto.
    + intros Hv. destruct (H2 Hv); auto.
  - intros h j Hin. apply hash_at_upd_heap. apply C. exact Hin.
Qed.

(** a method that only shrinks the pool behind the pointer *)
Lemma sinv_shrink es s pid g :
  sinv es s -> (forall q x, member (g q) x -> member q x) -> sinv es (on_pool s pid g).
Proof.
  intros H Hg. apply sinv_heap; [exact H|]. intros h sp _. split; [|auto].
  intros x Hx. left. simpl in Hx. apply Hg, Hx.
Qed.

Lemma find_pid_in tb h pid : find_pid tb h = Some pid -> In (h, pid) tb.
Proof.
  induction tb as [|[k v] tb IH]; simpl; [discriminate|].
  destruct (N.eqb_spec k h) as [->|]; [intro H; inversion H; left; reflexivity | intro H; right; apply IH, H].
Qed.

Lemma fgoc_sinv es s h height :
  sinv es s ->
  sinv es (fst (fget_or_create s h height)) /\ hash_at (fst (fget_or_create s h height)) (snd (fget_or_create s h height)) h /\
  (forall j k, hash_at s j k -> hash_at (fst (fget_or_create s h height)) j k).
Proof.
  intros (A & B & C). unfold fget_or_create. destruct (find_pid (h_table s) h) as [pid|] eqn:F; simpl.
  - split; [repeat split; auto; eapply B; eassumption|]. split; [apply C, find_pid_in, F | auto].
  - assert (M : forall j k, hash_at s j k -> hash_at (hset_table (hset_heap s (h_heap s ++ [(h, mkSpool (set_now (new_pool (h_ttl s)) (h_now s)) false height false)])) ((h, length (h_heap s)) :: h_table s)) j k).
    { intros j k [sp Hj]. exists sp. simpl. rewrite nth_error_app1; [exact Hj|]. apply nth_error_Some. congruence. }
    assert (Hnew : hash_at (hset_table (hset_heap s (h_heap s ++ [(h, mkSpool (set_now (new_pool (h_ttl s)) (h_now s)) false height false)])) ((h, length (h_heap s)) :: h_table s)) (length (h_heap s)) h).
    { eexists. simpl. rewrite nth_error_app2; [|lia]. rewrite Nat.sub_diag. reflexivity. }
    split; [|split; [exact Hnew | exact M]].
    split; [exact A|]. split.
    + intros j k sp Hj. simpl in Hj. destruct (Nat.lt_ge_cases j (length (h_heap s))) as [L|L].
      * rewrite nth_error_app1 in Hj by exact L. eapply B; exact Hj.
      * rewrite nth_error_app2 in Hj by exact L. destruct (j - length (h_heap s))%nat as [|d]; simpl in Hj.
        -- inversion Hj; subst. simpl. split; [|discriminate]. intros x Hx. exfalso. apply Hx. reflexivity.
        -- destruct d; discriminate.
    + intros k j [Hin|Hin]; [inversion Hin; subst; exact Hnew | apply M, C, Hin].
Qed.

Lemma pool_of_at s pid h sp : nth_error (h_heap s) pid = Some (h, sp) -> pool_of s pid = sp_pool sp.
Proof. intro H. unfold pool_of, heap_get. rewrite H. reflexivity. Qed.

Lemma fclean_go_sub s tb : forall h pid, In (h, pid) (fst (fst (fclean_go s tb))) -> In (h, pid) tb.
Proof.
  induction tb as [|[k v] tb IH]; simpl; intros h pid H; [assumption|].
  destruct (fclean_go s tb) as [[keep bh] bp]. simpl in *.
  destruct (heap_get s v) as [sp|]; [|right; apply IH, H].
  destruct (sp_valid sp).
  - destruct (sp_height sp <? h_from s); simpl in H.
    + right. apply IH, H.
    + destruct H as [H|H]; [left; assumption | right; apply IH, H].
  - destruct (sp_height sp <? h_init s); simpl in H.
    + right. apply IH, H.
    + destruct (sp_old sp); simpl in H.
      * right. apply IH, H.
      * destruct H as [H|H]; [left; assumption | right; apply IH, H].
Qed.

Definition tres_ok (es : list fev) (s : shared) (r : tres) : Prop :=
  match r with Go p => pc_ok es s p | Fin _ => True end.

Definition stable (s s' : shared) : Prop := forall pid h, hash_at s pid h -> hash_at s' pid h.

Lemma stable_refl s : stable s s. Proof. intros pid h H. exact H. Qed.
Lemma stable_nodes s n : stable s (hset_nodes s n). Proof. intros pid h H. exact H. Qed.
Lemma stable_heap s pid f : stable s (upd_heap s pid f). Proof. intros j h H. apply hash_at_upd_heap, H. Qed.

Lemma after_validated_ok es s a pid : fconfirmed es (g_h a) -> pc_ok es s (after_validated a pid).
Proof. intro H. unfold after_validated. destruct (g_peer a); simpl; auto. Qed.

(** one critical section preserves the invariant and establishes what the thread's next step relies on *)
Lemma tstep_sinv es s p :
  sinv es s -> pc_ok es s p ->
  sinv es (fst (tstep s p)) /\ tres_ok es (fst (tstep s p)) (snd (tstep s p)) /\ stable s (fst (tstep s p)).
Proof.
  intros I K. pose proof I as (A & B & C).
  destruct p; cbn [tstep].
  - (* PStart *) split; [exact I|]. split; [|apply stable_refl]. cbn [snd fst tres_ok]. destruct K as [t K].
    destruct c; simpl; try exact Logic.I.
    + exists t, height. exact K.
    + exists t, height, order. left. exact K.
    + exists t, height, order. right. exact K.
    + intros ->. exists t. exact K.
  - (* PV0 *) dm; simpl; auto using stable_refl.
  - dm; simpl; auto using stable_refl.
  - dm; simpl; auto using stable_refl.
  - (* PV3 *) destruct (fgoc_sinv es s h height I) as (I1 & H1 & M). cbn [fst snd tres_ok pc_ok]. auto.
  - (* PV4 *) destruct K as [Ka [sp0 Kh]]. split; [|split; [|apply stable_heap]].
    + apply sinv_heap; [exact I|]. intros k sp E. rewrite Kh in E. inversion E; subst. split; [|auto].
      intros y Hy. simpl in Hy. apply add_member in Hy. destruct Hy as [Hy|[<-|[]]]; auto.
    + cbn [snd tres_ok pc_ok]. split; [exact Ka|]. apply hash_at_upd_heap. exists sp0. exact Kh.
  - (* PV5 *) destruct K as [Ka [sp0 Kh]]. unfold valid_of, heap_get. rewrite Kh. simpl.
    destruct (sp_valid sp0) eqn:V; simpl; auto using stable_refl.
    split; [exact I|]. split; [|apply stable_refl]. split; [exact Ka|]. destruct (B _ _ _ Kh) as [_ B2]. auto.
  - (* PV6 *) destruct K as [Ka Kc]. split; [|split; [exact Logic.I | apply stable_nodes]].
    apply sinv_nodes; [exact I|]. intros y Hy. apply add_member in Hy. destruct Hy as [Hy|[<-|[]]]; auto.
    right. right. exists h. auto.
  - (* PG0 *) destruct (fgoc_sinv es s (g_h a) (g_height a) I) as (I1 & H1 & M). cbn [fst snd tres_ok pc_ok]. auto.
  - (* PG1 *) destruct K as [Kc [sp0 Kh]]. unfold valid_of, heap_get. rewrite Kh. simpl.
    destruct (sp_valid sp0) eqn:V; cbn [fst snd tres_ok].
    + split; [exact I|]. split; [apply after_validated_ok, Kc | apply stable_refl].
    + split; [|split; [|apply stable_heap]].
      * apply sinv_heap; [exact I|]. intros k sp E. rewrite Kh in E. inversion E; subst. simpl. split; auto.
      * simpl. split; [exact Kc|]. apply hash_at_upd_heap. exists sp0. exact Kh.
  - (* PG2 *) destruct K as [Kc [sp0 Kh]]. split; [exact I|]. split; [|apply stable_refl].
    cbn [snd tres_ok pc_ok]. split; [exact Kc|]. intros y Hy. rewrite app_nil_r in Hy.
    apply in_canon, in_peers_of in Hy. rewrite (pool_of_at _ _ _ _ Kh) in Hy. destruct (B _ _ _ Kh) as [B1 _]. auto.
  - (* PG3 *) destruct K as [Kc Ka]. destruct todo as [|y todo]; cbn [fst snd tres_ok].
    + split; [|split; [apply after_validated_ok, Kc | apply stable_nodes]].
      apply sinv_nodes; [exact I|]. intros y Hy. apply add_member in Hy. destruct Hy as [Hy|Hy]; auto.
      right. right. exists (g_h a). split; [apply Ka; simpl; exact Hy | exact Kc].
    + split; [exact I|]. split; [|apply stable_refl]. simpl. split; [exact Kc|].
      intros z Hz. apply Ka. simpl. destruct (black s y).
      * right. exact Hz.
      * rewrite in_app_iff in *. destruct Hz as [Hz|Hz]; [right; left; exact Hz|].
        rewrite in_app_iff in Hz. destruct Hz as [Hz|[<-|[]]]; [right; right; exact Hz | left; reflexivity].
  - (* PH1 *) destruct (N.eqb (h_init s) 0); simpl; auto using stable_refl.
    split; [repeat split; auto; eapply B; eassumption|]. split; [exact Logic.I|]. intros pid h H. exact H.
  - (* PH2 *) split; [repeat split; auto; eapply B; eassumption|]. split; [exact Logic.I|]. intros pid h H. exact H.
  - (* PR0 *) cbn [fst snd]. split; [|split; [|apply stable_heap]].
    + apply sinv_heap; [exact I|]. intros k sp E. simpl. split; [|auto]. intros y Hy. left.
      rewrite (pool_of_at _ _ _ _ E) in Hy. eapply try_get_member, Hy.
    + destruct (snd (try_get (pool_of s pid))); simpl; exact K.
  - (* PR1 *) dm; simpl; auto using stable_refl.
  - dm; simpl; auto using stable_refl.
  - (* PR3 *) split; [|split; [exact K | apply stable_heap]]. apply sinv_shrink; [exact I|].
    intros q y Hy. eapply remove_member, Hy.
  - (* PR4 *) cbn [fst snd]. split; [|split; [|apply stable_nodes]].
    + apply sinv_nodes; [exact I|]. intros y Hy. left. eapply try_get_member, Hy.
    + destruct (snd (try_get (h_nodes s))); simpl; exact K.
  - (* PR5 *) dm; simpl; auto using stable_refl.
  - (* PR6 *) split; [|split; [exact K | apply stable_nodes]]. apply sinv_nodes; [exact I|].
    intros y Hy. left. eapply remove_member, Hy.
  - simpl; auto using stable_refl.
  - simpl; auto using stable_refl.
  - (* PD0 *) destruct r; [simpl; auto using stable_refl | | simpl; auto using stable_refl].
    destruct src; [destruct (find_pid (h_table s) h); simpl; auto using stable_refl|].
    split; [|split; [exact Logic.I | apply stable_nodes]]. apply sinv_nodes; [exact I|].
    intros y Hy. left. eapply put_on_cooldown_member, Hy.
  - (* PD1 *) split; [|split; [exact Logic.I | apply stable_heap]]. apply sinv_shrink; [exact I|].
    intros q y Hy. eapply put_on_cooldown_member, Hy.
  - (* PB0 *) destruct xs as [|y xs]; [simpl; auto using stable_refl|]. destruct (h_enable s); [|simpl; auto using stable_refl].
    split; [|split; [exact Logic.I | apply stable_nodes]]. apply sinv_nodes; [exact I|].
    intros z Hz. left. eapply remove_member, Hz.
  - (* PB1 *) destruct (black s x); simpl; auto using stable_refl.
    split; [repeat split; auto; eapply B; eassumption|]. split; [exact Logic.I|]. intros pid h H. exact H.
  - simpl; auto using stable_refl.
  - (* PU0 *) destruct added.
    + destruct (black s x); simpl; auto using stable_refl.
    + split; [|split; [exact Logic.I | apply stable_nodes]]. apply sinv_nodes; [exact I|].
      intros y Hy. left. eapply remove_member, Hy.
  - (* PU1 *) split; [|split; [exact Logic.I | apply stable_nodes]]. apply sinv_nodes; [exact I|].
    intros y Hy. apply add_member in Hy. destruct Hy as [Hy|[<-|[]]]; auto. right. left. exact K.
  - (* PC0 *) destruct (has (h_nodes s) x); simpl; auto using stable_refl.
  - (* PC1 *) split; [|split; [exact Logic.I | apply stable_nodes]]. apply sinv_nodes; [exact I|].
    intros y Hy. left. eapply remove_member, Hy.
  - (* PGC0 *) destruct (N.eqb (h_init s) 0); simpl; auto using stable_refl.
  - (* PGC1: cleanUp only deletes map entries; the objects stay *)
    cbn [fst snd tres_ok pc_ok]. split; [|split; [exact Logic.I | intros pid h H; exact H]].
    split; [exact A|]. split; [intros pid h sp H; eapply B; exact H|].
    intros h pid Hin. simpl in Hin. apply fclean_go_sub in Hin. apply C in Hin. exact Hin.
Qed.

Lemma twake_sinv es s p src :
  sinv es s -> pc_ok es s p ->
  sinv es (fst (twake s p src)) /\ pc_ok es (fst (twake s p src)) (snd (twake s p src)) /\ stable s (fst (twake s p src)).
Proof.
  intros I K. destruct p; cbn [twake]; try (split; [exact I | split; [exact K | apply stable_refl]]).
  destruct src; cbn [fst snd].
  - split; [|split; [|apply stable_heap]].
    + apply sinv_heap; [exact I|]. intros k sp E. simpl. split; [|auto]. intros y Hy. left.
      rewrite (pool_of_at _ _ _ _ E) in Hy. eapply try_get_member, Hy.
    + destruct (snd (try_get (pool_of s pid))); simpl; exact K.
  - split; [|split; [|apply stable_nodes]].
    + apply sinv_nodes; [exact I|]. intros y Hy. left. eapply try_get_member, Hy.
    + destruct (snd (try_get (h_nodes s))); simpl; exact K.
Qed.

Record finv (es : list fev) (s : fsys) : Prop := mkFinv {
  i_sh : sinv es (fs_sh s);
  i_thr : forall t p, fs_thr s t = TRun p -> pc_ok es (fs_sh s) p
}.

Lemma fstep_finv es s e : finv es s -> finv (es ++ [e]) (fstep s e).
Proof.
  intros [I0 T0].
  assert (I : sinv (es ++ [e]) (fs_sh s)) by (apply sinv_mono, I0).
  assert (T : forall t p, fs_thr s t = TRun p -> pc_ok (es ++ [e]) (fs_sh s) p) by (intros t p H; apply pc_ok_mono, (T0 t p H)).
  clear I0 T0.
  destruct e as [u c|u|u src|h|d]; simpl.
  - destruct (fs_thr s u) eqn:Eu; try (constructor; assumption).
    constructor; [exact I|]. simpl. intros t p H. destruct (Nat.eq_dec t u) as [->|Hn].
    + rewrite updt_same in H. inversion H; subst. exists u. apply in_app_iff. right. left. reflexivity.
    + rewrite updt_other in H by exact Hn. apply (T t p H).
  - destruct (fs_thr s u) as [|p|o] eqn:Eu; try (constructor; assumption).
    destruct (tstep_sinv _ _ _ I (T u p Eu)) as (I1 & R1 & M1).
    destruct (tstep (fs_sh s) p) as [sh r]. simpl in *. constructor; [exact I1|]. simpl.
    intros t q H. destruct (Nat.eq_dec t u) as [->|Hn].
    + rewrite updt_same in H. destruct r; inversion H; subst. exact R1.
    + rewrite updt_other in H by exact Hn. eapply hash_at_mono_pc; [exact M1 | apply (T t q H)].
  - destruct (fs_thr s u) as [|p|o] eqn:Eu; try (constructor; assumption).
    destruct (twake_sinv _ _ _ src I (T u p Eu)) as (I1 & R1 & M1).
    destruct (twake (fs_sh s) p src) as [sh p']. simpl in *. constructor; [exact I1|]. simpl.
    intros t q H. destruct (Nat.eq_dec t u) as [->|Hn].
    + rewrite updt_same in H. inversion H; subst. exact R1.
    + rewrite updt_other in H by exact Hn. eapply hash_at_mono_pc; [exact M1 | apply (T t q H)].
  - (* ageing touches a flag the invariant does not mention *)
    unfold fage. destruct (find_pid (h_table (fs_sh s)) h) as [pid|]; [|constructor; assumption].
    constructor; simpl.
    + apply sinv_heap; [exact I|]. intros k sp E. simpl. auto.
    + intros t q H. eapply hash_at_mono_pc; [apply stable_heap | apply (T t q H)].
  - (* clock: expiries only move peers between cooldown and active *)
    destruct I as (A & B & C). constructor; simpl.
    + split; [|split].
      * intros x Hx. simpl in Hx. apply A. eapply tick_pool_member, Hx.
      * intros pid k sp Hn. simpl in Hn. rewrite nth_error_map in Hn.
        destruct (nth_error (h_heap (fs_sh s)) pid) as [[k0 sp0]|] eqn:E; simpl in Hn; [|discriminate].
        inversion Hn; subst. simpl. destruct (B _ _ _ E) as [B1 B2]. split; [|exact B2].
        intros x Hx. apply B1. eapply tick_pool_member, Hx.
      * intros k pid Hin. simpl in Hin. destruct (C _ _ Hin) as [sp E]. unfold hash_at. simpl.
        rewrite nth_error_map, E. simpl. eauto.
    + intros t q H. eapply hash_at_mono_pc; [|apply (T t q H)].
      intros pid k [sp E]. unfold hash_at. simpl. rewrite nth_error_map, E. simpl. eauto.
Qed.

Lemma frun_finv guard enable self ttl es : finv es (frun (finit guard enable self ttl) es).
Proof.
  induction es as [|e es IH] using rev_ind.
  - constructor; simpl; [|discriminate]. repeat split.
    + intros x Hx. exfalso. apply Hx. reflexivity.
    + destruct pid; discriminate.
    + destruct pid; discriminate.
    + intros h pid [].
  - unfold frun in *. rewrite fold_left_app. simpl. apply fstep_finv, IH.
Qed.

(** a peer is in the general pool only if a discovery add for it has begun, or it began announcing a hash whose
    confirmation (header arrival, or a getter asking with the header in hand) has begun: announcing unconfirmed
    hashes never gets a peer promoted, whatever the interleaving *)
Theorem fine_no_unvalidated_promotion : forall guard enable self ttl es x,
  has (h_nodes (fs_sh (frun (finit guard enable self ttl) es))) x = true -> flegit es x.
Proof.
  intros guard enable self ttl es x H. destruct (frun_finv guard enable self ttl es) as [(A & _) _].
  apply A, has_member, H.
Qed.

(** ** the two models on a whole-call history: every call run alone, start to finish, gives what [Peers.Manager] gives
    (checked here on the non-vacuity history; the harness re-checks it on every sequential case of every run) *)
Example atomic_agrees_example :
  let es := ex_mhistory ++ [MPeer 3 8 []; MPeer 3 8 []; MPeer 0 6 []; MPeer 0 6 []] in
  mobs_eqb (mobs_of 5 4 (abs (fs_sh (hrun (finit true true 9 10) (atomic_schedule 0 es)))))
           (mobs_of 5 4 (mrun (new_mgr true 9 10) es)) = true /\
  map (thread_out (hrun (finit true true 9 10) (atomic_schedule 0 es))) [7; 8; 9; 10]%nat =
    [Some (OP (PRes 1 SDiscovered)); Some (OP (PRes 3 SDiscovered)); Some (OP (PRes 1 SShrexSub)); Some (OP (PRes 1 SShrexSub))].
Proof. vm_compute. split; reflexivity. Qed.

(** C17 — executable model of share/shwap/p2p/shrex/peers/pool.go + timedqueue.go (the round-robin peer pool
    and its cool-down queue).  Transcribed from the Go code statement by statement; no proofs here.

    Granularity.  Every pool method runs under [pool.m] and every queue method under the queue mutex, so the
    pool's state changes in atomic steps; a concurrent execution is a sequence of these steps (deadlock freedom of
    that locking discipline is the separate theorem [peers_lock_acyclic] + [Base.LockOrder]).  The steps are the
    events [ev] below:
      - the public methods [add], [remove], [tryGet], [putOnCooldown], [cleanup];
      - the clock ([EAdvance d]) and the cool-down timer: [EExpire] is ONE iteration of the loop in
        [timedQueue.releaseUnsafe] (pop the first item if it is expired and run [pool.afterCooldown] on it).
        Other events may be interleaved between two iterations, which is a superset of what the queue mutex allows;
      - the goroutine started by [next(ctx)] ("waiter" [w]): [EWTry] is its [tryGet], [EWRead] reads [hasPeerCh]
        under the read lock, [EWWake] is the receive from that channel (enabled only when it is closed),
        [EWCancel] is [ctx.Done()].
    Channels: [hasPeerCh] values are numbered in order of creation ([pgen]); a channel is closed iff it is an old
    one or it is the current one and [hasPeer] is set ([checkHasPeers] closes exactly when it sets the flag and
    makes a new channel exactly when it clears it). *)
From Coq Require Import List ZArith NArith Bool.
Import ListNotations.
Open Scope N_scope.

Definition peer := N.

Inductive status := Active | Cooldown | Removed.

Definition status_eqb (a b : status) : bool :=
  match a, b with Active, Active | Cooldown, Cooldown | Removed, Removed => true | _, _ => false end.

Definition ost_eqb (a b : option status) : bool :=
  match a, b with Some x, Some y => status_eqb x y | None, None => true | _, _ => false end.

Record pool := mkPool {
  plist  : list peer;              (* peersList *)
  pstat  : peer -> option status;  (* statuses (a Go map: None = no key) *)
  pcount : Z;                      (* activeCount *)
  pnext  : nat;                    (* nextIdx *)
  phas   : bool;                   (* hasPeer *)
  pgen   : nat;                    (* which hasPeerCh is current *)
  pqueue : list (peer * N);        (* cooldown.items : (peer, createdAt) *)
  pnow   : N;                      (* cooldown.clock.Now() *)
  pttl   : N;                      (* cooldown.ttl *)
  pthr   : Z                       (* cleanupThreshold *)
}.

Definition default_threshold : Z := 2.

Definition new_pool (ttl : N) : pool :=
  mkPool [] (fun _ => None) 0%Z 0%nat false 0%nat [] 0 ttl default_threshold.

Definition upd (f : peer -> option status) (p : peer) (v : option status) : peer -> option status :=
  fun q => if N.eqb q p then v else f q.

Definition set_stat (s : pool) (f : peer -> option status) : pool :=
  mkPool (plist s) f (pcount s) (pnext s) (phas s) (pgen s) (pqueue s) (pnow s) (pttl s) (pthr s).
Definition set_list (s : pool) (l : list peer) : pool :=
  mkPool l (pstat s) (pcount s) (pnext s) (phas s) (pgen s) (pqueue s) (pnow s) (pttl s) (pthr s).
Definition set_count (s : pool) (c : Z) : pool :=
  mkPool (plist s) (pstat s) c (pnext s) (phas s) (pgen s) (pqueue s) (pnow s) (pttl s) (pthr s).
Definition set_next (s : pool) (i : nat) : pool :=
  mkPool (plist s) (pstat s) (pcount s) i (phas s) (pgen s) (pqueue s) (pnow s) (pttl s) (pthr s).
Definition set_has (s : pool) (h : bool) (g : nat) : pool :=
  mkPool (plist s) (pstat s) (pcount s) (pnext s) h g (pqueue s) (pnow s) (pttl s) (pthr s).
Definition set_queue (s : pool) (q : list (peer * N)) : pool :=
  mkPool (plist s) (pstat s) (pcount s) (pnext s) (phas s) (pgen s) q (pnow s) (pttl s) (pthr s).
Definition set_now (s : pool) (t : N) : pool :=
  mkPool (plist s) (pstat s) (pcount s) (pnext s) (phas s) (pgen s) (pqueue s) t (pttl s) (pthr s).
Definition set_thr (s : pool) (t : Z) : pool :=
  mkPool (plist s) (pstat s) (pcount s) (pnext s) (phas s) (pgen s) (pqueue s) (pnow s) (pttl s) t.

(** [p.statuses[id] == active]: a missing key reads as the zero value, which is [active]. *)
Definition reads_active (o : option status) : bool :=
  match o with Some Active | None => true | _ => false end.

(** checkHasPeers *)
Definition check_has (s : pool) : pool :=
  if andb (0 <? pcount s)%Z (negb (phas s)) then set_has s true (pgen s)           (* close(hasPeerCh) *)
  else if andb (pcount s =? 0)%Z (phas s) then set_has s false (S (pgen s))      (* new channel *)
  else s.

(** a channel is closed iff ... (see header) *)
Definition chan_closed (s : pool) (g : nat) : bool :=
  orb (Nat.ltb g (pgen s)) (andb (Nat.eqb g (pgen s)) (phas s)).

(** tryGet *)
Inductive getres := GSome (p : peer) | GNone | GPanic.

Definition getres_eqb (a b : getres) : bool :=
  match a, b with GSome x, GSome y => N.eqb x y | GNone, GNone => true | GPanic, GPanic => true | _, _ => false end.

(** the [for] loop of tryGet; [fuel] = len(peersList) iterations suffice for a full circle *)
Fixpoint scan (fuel : nat) (l : list peer) (st : peer -> option status) (idx start : nat) : nat * getres :=
  match fuel with
  | O => (idx, GNone)
  | S f =>
    match nth_error l idx with
    | None => (idx, GPanic)                       (* index out of range *)
    | Some p =>
      let idx' := if Nat.eqb (S idx) (length l) then 0%nat else S idx in
      if reads_active (st p) then (idx', GSome p)
      else if Nat.eqb idx' start then (idx', GNone)
      else scan f l st idx' start
    end
  end.

Definition try_get (s : pool) : pool * getres :=
  if (pcount s =? 0)%Z then (s, GNone) else
  let n := length (plist s) in
  (* if p.nextIdx > len(p.peersList)-1 { p.nextIdx = 0 }   (ints: true for every nextIdx when the list is empty) *)
  let i0 := if Nat.ltb (pnext s) n then pnext s else 0%nat in
  let '(i, r) := scan (S n) (plist s) (pstat s) i0 i0 in
  (set_next s i, r).

(** timedQueue.has (added by the repair fix-c17-2): is there a pending cool-down entry for the peer *)
Definition queue_has (q : list (peer * N)) (p : peer) : bool := existsb (fun it => N.eqb (fst it) p) q.

(** one iteration of the loop in add *)
Definition add1 (s : pool) (p : peer) : pool :=
  match pstat s p with
  | Some Active | Some Cooldown => s
  | o =>
    let s1 := match o with None => set_list s (plist s ++ [p]) | _ => s end in
    if queue_has (pqueue s) p
    then set_stat s1 (upd (pstat s1) p (Some Cooldown))      (* still cooling down: stays unavailable *)
    else set_count (set_stat s1 (upd (pstat s1) p (Some Active))) (pcount s1 + 1)%Z
  end.

Definition add (s : pool) (ps : list peer) : pool := check_has (fold_left add1 ps s).

(** cleanup *)
Fixpoint cleanup_go (l : list peer) (st : peer -> option status) : list peer * (peer -> option status) :=
  match l with
  | [] => ([], st)
  | p :: l' =>
    match st p with
    | Some Removed => cleanup_go l' (upd st p None)
    | Some _ => let '(nl, st') := cleanup_go l' st in (p :: nl, st')
    | None => (* statuses[p] reads as active *) let '(nl, st') := cleanup_go l' st in (p :: nl, st')
    end
  end.

Definition cleanup (s : pool) : pool :=
  let '(nl, st) := cleanup_go (plist s) (pstat s) in set_stat (set_list s nl) st.

Definition remove1 (s : pool) (p : peer) : pool :=
  match pstat s p with
  | Some Active => set_count (set_stat s (upd (pstat s) p (Some Removed))) (pcount s - 1)%Z
  | Some Cooldown => set_stat s (upd (pstat s) p (Some Removed))
  | _ => s
  end.

Definition remove (s : pool) (ps : list peer) : pool :=
  let s1 := fold_left remove1 ps s in
  let s2 := if (pcount s1 + pthr s1 <=? Z.of_nat (length (plist s1)))%Z then cleanup s1 else s1 in
  check_has s2.

(** timedQueue.push + the rest of putOnCooldown *)
Definition put_on_cooldown (s : pool) (p : peer) : pool :=
  match pstat s p with
  | Some Active =>
    let s1 := set_queue s (pqueue s ++ [(p, pnow s)]) in
    check_has (set_count (set_stat s1 (upd (pstat s1) p (Some Cooldown))) (pcount s1 - 1)%Z)
  | _ => s
  end.

Definition after_cooldown (s : pool) (p : peer) : pool :=
  match pstat s p with
  | Some Cooldown => check_has (set_count (set_stat s (upd (pstat s) p (Some Active))) (pcount s + 1)%Z)
  | _ => s
  end.

(** one iteration of releaseUnsafe's loop *)
Definition expired (s : pool) (created : N) : bool := negb (pnow s - created <? pttl s).

Definition expire1 (s : pool) : pool :=
  match pqueue s with
  | (p, created) :: q' => if expired s created then after_cooldown (set_queue s q') p else s
  | [] => s
  end.

Definition advance (s : pool) (d : N) : pool := set_now s (pnow s + d).

(** ---- the waiters of next(ctx) *)
Inductive wstate := WIdle | WHolding (g : nat) | WGot (p : peer) | WGone.

Record sys := mkSys { spool : pool; swait : nat -> wstate }.

Definition updw (f : nat -> wstate) (w : nat) (v : wstate) : nat -> wstate :=
  fun x => if Nat.eqb x w then v else f x.

Inductive ev :=
| EAdd (ps : list peer) | ERemove (ps : list peer) | ETryGet | ECooldown (p : peer) | ECleanup
| EAdvance (d : N) | EExpire
| EWTry (w : nat) | EWRead (w : nat) | EWWake (w : nat) | EWCancel (w : nat).

(** the step function with the value the event returns to its caller (if any) *)
Definition step_out (s : sys) (e : ev) : sys * option getres :=
  let p := spool s in
  match e with
  | EAdd ps => (mkSys (add p ps) (swait s), None)
  | ERemove ps => (mkSys (remove p ps) (swait s), None)
  | ETryGet => let '(p', r) := try_get p in (mkSys p' (swait s), Some r)
  | ECooldown x => (mkSys (put_on_cooldown p x) (swait s), None)
  | ECleanup => (mkSys (cleanup p) (swait s), None)
  | EAdvance d => (mkSys (advance p d) (swait s), None)
  | EExpire => (mkSys (expire1 p) (swait s), None)
  | EWTry w =>
    match swait s w with
    | WIdle =>
      let '(p', r) := try_get p in
      match r with
      | GSome x => (mkSys p' (updw (swait s) w (WGot x)), Some r)
      | _ => (mkSys p' (swait s), Some r)
      end
    | _ => (s, None)
    end
  | EWRead w =>
    match swait s w with
    | WIdle => (mkSys p (updw (swait s) w (WHolding (pgen p))), None)
    | _ => (s, None)
    end
  | EWWake w =>
    match swait s w with
    | WHolding g => if chan_closed p g then (mkSys p (updw (swait s) w WIdle), None) else (s, None)
    | _ => (s, None)
    end
  | EWCancel w =>
    match swait s w with
    | WHolding _ => (mkSys p (updw (swait s) w WGone), None)
    | _ => (s, None)
    end
  end.

Definition step (s : sys) (e : ev) : sys := fst (step_out s e).

Definition init (ttl : N) : sys := mkSys (new_pool ttl) (fun _ => WIdle).

(** run with the list of returned values *)
Fixpoint run_out (s : sys) (es : list ev) : sys * list getres :=
  match es with
  | [] => (s, [])
  | e :: es' =>
    let '(s1, o) := step_out s e in
    let '(s2, os) := run_out s1 es' in
    (s2, match o with Some r => r :: os | None => os end)
  end.

(** times at which a putOnCooldown of [x] took effect in the history [es] (from state [s]) *)
Fixpoint cooldown_times (s : sys) (es : list ev) (x : peer) : list N :=
  match es with
  | [] => []
  | e :: es' =>
    let here :=
      match e with
      | ECooldown y => if andb (N.eqb y x) (ost_eqb (pstat (spool s) x) (Some Active)) then [pnow (spool s)] else []
      | _ => []
      end in
    here ++ cooldown_times (step s e) es' x
  end.

(** ---- correspondence cases (L2): the harness records the events it applied to the real pool, every value the
    real tryGet / next returned, and a projection of the real pool's final state. *)
Record obs := mkObs {
  o_count : Z;                      (* activeCount *)
  o_list  : list peer;              (* peersList *)
  o_stat  : list (option status);   (* statuses of peers 0..n-1 *)
  o_next  : nat;                    (* nextIdx *)
  o_has   : bool;                   (* hasPeer *)
  o_queue : list peer               (* cooldown.items peers in order *)
}.

Definition list_eqb {A} (eqb : A -> A -> bool) : list A -> list A -> bool :=
  fix go a b := match a, b with
                | [], [] => true
                | x :: a', y :: b' => andb (eqb x y) (go a' b')
                | _, _ => false
                end.

Definition obs_of (npeers : nat) (s : pool) : obs :=
  mkObs (pcount s) (plist s) (map (fun i => pstat s (N.of_nat i)) (seq 0 npeers)) (pnext s) (phas s) (map fst (pqueue s)).

Definition obs_eqb (a b : obs) : bool :=
  (o_count a =? o_count b)%Z && list_eqb N.eqb (o_list a) (o_list b) && list_eqb ost_eqb (o_stat a) (o_stat b)
  && Nat.eqb (o_next a) (o_next b) && Bool.eqb (o_has a) (o_has b) && list_eqb N.eqb (o_queue a) (o_queue b).

Record case := mkCase {
  c_ttl : N; c_thr : Z; c_npeers : nat; c_events : list ev; c_outs : list getres; c_final : obs
}.

Definition case_ok (c : case) : bool :=
  let s0 := mkSys (set_thr (new_pool (c_ttl c)) (c_thr c)) (fun _ => WIdle) in
  let '(s, outs) := run_out s0 (c_events c) in
  list_eqb getres_eqb outs (c_outs c) && obs_eqb (obs_of (c_npeers c) (spool s)) (c_final c).

Fixpoint mism_from (i : N) (cs : list case) : list N :=
  match cs with
  | [] => []
  | c :: cs' => if case_ok c then mism_from (i + 1) cs' else i :: mism_from (i + 1) cs'
  end.

Definition mismatches (cs : list case) : list N := mism_from 0 cs.

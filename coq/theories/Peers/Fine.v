(** C17 — the peer manager at LOCK GRANULARITY (share/shwap/p2p/shrex/peers/manager.go).

    [Peers.Manager] executes one whole entry-point call as one event.  The Go Manager holds no lock across a call: a
    call is a sequence of critical sections (Manager.lock in getPool/getOrCreatePool/cleanUp, pool.m (+ the queue
    mutex) in every pool method, the connection gater's RWMutex in BlockPeer / InterceptPeerDial, the LRU's lock,
    atomics for storeFrom / initialHeight / isValidatedDataHash), and any other call may run between two of them.
    This file is the model in which that is visible:

      - every call in progress is a THREAD with a program counter [pc] carrying its local variables (the *syncPool
        pointer it obtained, the peer it is checking, the rest of the blacklist loop ...);
      - one event [FStep t] executes the NEXT critical section of thread [t] (one access to shared state) and nothing
        else; a history is any interleaving of [FSpawn]/[FStep]/[FWake] events of any number of threads, of pool
        ageing and of clock ticks;
      - pools are heap objects: [getOrCreatePool] returns a pointer, and the GC deletes map entries while other
        calls still hold the pointer.  [h_heap] keeps every syncPool ever allocated (index = identity), [h_table]
        is Manager.pools (data hash -> identity).  A thread keeps working on the object it fetched, also after the
        map entry is gone or has been re-created ("orphans").

    Steps, by call (each line = one [FStep]; statement order of manager.go):
      Validate      self / isBlacklistedHash | isBlacklistedPeer | storeFrom.Load | getOrCreatePool | p.add |
                    isValidatedDataHash.Load | nodes.add
      validatedPool getOrCreatePool | CompareAndSwap | p.peers() | isBlacklistedPeer per collected peer | nodes.add
      header        validatedPool ... | initialHeight.CompareAndSwap | storeFrom.Store
      Peer          validatedPool ... | p.tryGet | isBlacklistedPeer | nodes.has | p.remove + restart |
                    nodes.tryGet | isBlacklistedPeer | nodes.remove + restart | newPeer | the blocking select
      DoneFunc      getPool | putOnCooldown   /   blacklistPeers ...
      blacklistPeers per peer: nodes.remove | connGater.BlockPeer | Network().ClosePeer
      UpdateNodePool isBlacklistedPeer | nodes.add     /   nodes.remove
      disconnect    nodes.has | nodes.remove
      GC round      initialHeight.Load | cleanUp (ONE step: it runs under Manager.lock; its unlocked reads of the
                    atomics and of peersList are not split further) | blacklistPeers ...

    [h_guard] selects the code under test: [true] = the current tree (removeIfUnreachable tests
    [isBlacklistedPeer(p) || !nodes.has(p)]); [false] = the variant that tests [!nodes.has(p)] only, kept executable
    so that the theorem that needs the blacklist test can be shown sharp ([FineProofs.unguarded_refuted]).

    No proofs here. *)
From Coq Require Import List ZArith NArith Bool.
From CN Require Import Peers.Pool Peers.Manager.
Import ListNotations.
Open Scope N_scope.

Record shared := mkSh {
  h_heap  : list (hash * hpool);   (* every syncPool ever allocated with the data hash it was created for *)
  h_table : list (hash * nat);     (* Manager.pools, most recently created first *)
  h_nodes : pool;
  h_black : list peer;             (* peers blocked in the connection gater *)
  h_bhash : list hash;
  h_init  : N;
  h_from  : N;
  h_enable : bool;
  h_self  : peer;
  h_ttl   : N;
  h_now   : N;
  h_guard : bool
}.

Definition new_shared (guard enable : bool) (self : peer) (ttl : N) : shared :=
  mkSh [] [] (new_pool ttl) [] [] 0 0 enable self ttl 0 guard.

Definition hset_heap (s : shared) (hp : list (hash * hpool)) : shared :=
  mkSh hp (h_table s) (h_nodes s) (h_black s) (h_bhash s) (h_init s) (h_from s) (h_enable s) (h_self s) (h_ttl s) (h_now s) (h_guard s).
Definition hset_table (s : shared) (tb : list (hash * nat)) : shared :=
  mkSh (h_heap s) tb (h_nodes s) (h_black s) (h_bhash s) (h_init s) (h_from s) (h_enable s) (h_self s) (h_ttl s) (h_now s) (h_guard s).
Definition hset_nodes (s : shared) (n : pool) : shared :=
  mkSh (h_heap s) (h_table s) n (h_black s) (h_bhash s) (h_init s) (h_from s) (h_enable s) (h_self s) (h_ttl s) (h_now s) (h_guard s).
Definition hset_black (s : shared) (b : list peer) : shared :=
  mkSh (h_heap s) (h_table s) (h_nodes s) b (h_bhash s) (h_init s) (h_from s) (h_enable s) (h_self s) (h_ttl s) (h_now s) (h_guard s).
Definition hset_bhash (s : shared) (b : list hash) : shared :=
  mkSh (h_heap s) (h_table s) (h_nodes s) (h_black s) b (h_init s) (h_from s) (h_enable s) (h_self s) (h_ttl s) (h_now s) (h_guard s).
Definition hset_init (s : shared) (i : N) : shared :=
  mkSh (h_heap s) (h_table s) (h_nodes s) (h_black s) (h_bhash s) i (h_from s) (h_enable s) (h_self s) (h_ttl s) (h_now s) (h_guard s).
Definition hset_from (s : shared) (f : N) : shared :=
  mkSh (h_heap s) (h_table s) (h_nodes s) (h_black s) (h_bhash s) (h_init s) f (h_enable s) (h_self s) (h_ttl s) (h_now s) (h_guard s).
Definition hset_now (s : shared) (t : N) : shared :=
  mkSh (h_heap s) (h_table s) (h_nodes s) (h_black s) (h_bhash s) (h_init s) (h_from s) (h_enable s) (h_self s) (h_ttl s) t (h_guard s).

(** isBlacklistedPeer = !connGater.InterceptPeerDial *)
Definition black (s : shared) (x : peer) : bool := mem x (h_black s).

Fixpoint find_pid (tb : list (hash * nat)) (h : hash) : option nat :=
  match tb with [] => None | (k, v) :: tb' => if N.eqb k h then Some v else find_pid tb' h end.

Definition heap_get (s : shared) (pid : nat) : option hpool := option_map snd (nth_error (h_heap s) pid).

Fixpoint upd_nth {A} (l : list A) (i : nat) (f : A -> A) : list A :=
  match l, i with
  | [], _ => []
  | a :: l', O => f a :: l'
  | a :: l', S j => a :: upd_nth l' j f
  end.

(** a method call on the syncPool behind a pointer *)
Definition upd_heap (s : shared) (pid : nat) (f : hpool -> hpool) : shared :=
  hset_heap s (upd_nth (h_heap s) pid (fun e => (fst e, f (snd e)))).

Definition on_pool (s : shared) (pid : nat) (f : pool -> pool) : shared :=
  upd_heap s pid (fun sp => with_pool sp (f (sp_pool sp))).

(** getOrCreatePool: the pointer *)
Definition fget_or_create (s : shared) (h : hash) (height : N) : shared * nat :=
  match find_pid (h_table s) h with
  | Some pid => (s, pid)
  | None =>
    let pid := length (h_heap s) in
    let sp := mkSpool (set_now (new_pool (h_ttl s)) (h_now s)) false height false in
    (hset_table (hset_heap s (h_heap s ++ [(h, sp)])) ((h, pid) :: h_table s), pid)
  end.

Definition valid_of (s : shared) (pid : nat) : bool :=
  match heap_get s pid with Some sp => sp_valid sp | None => false end.

Definition pool_of (s : shared) (pid : nat) : pool :=
  match heap_get s pid with Some sp => sp_pool sp | None => new_pool (h_ttl s) end.

(** cleanUp's walk over Manager.pools *)
Fixpoint fclean_go (s : shared) (tb : list (hash * nat)) : list (hash * nat) * list hash * list peer :=
  match tb with
  | [] => ([], [], [])
  | (h, pid) :: tb' =>
    let '(keep, bh, bp) := fclean_go s tb' in
    match heap_get s pid with
    | None => (keep, bh, bp)
    | Some sp =>
      if sp_valid sp then (if sp_height sp <? h_from s then (keep, bh, bp) else ((h, pid) :: keep, bh, bp))
      else if sp_height sp <? h_init s then (keep, bh, bp)
      else if sp_old sp then (keep, h :: bh, plist (sp_pool sp) ++ bp)
      else ((h, pid) :: keep, bh, bp)
    end
  end.

(** ---- calls and program counters *)
Record gargs := mkG { g_peer : bool; g_h : hash; g_height : N; g_order : list peer }.

Inductive call :=
| CValidate (x : peer) (h : hash) (height : N)
| CHeader (h : hash) (height : N) (order : list peer)
| CPeer (h : hash) (height : N) (order : list peer)
| CDone (h : hash) (x : peer) (src : source) (r : dres)
| CUpdate (x : peer) (added : bool)
| CDisconnect (x : peer)
| CGC (order : list peer).

(** what the thread does NEXT *)
Inductive pc :=
| PStart (c : call)                                  (* entered, nothing done yet *)
(* Validate *)
| PV0 (x : peer) (h : hash) (height : N)             (* self? isBlacklistedHash *)
| PV1 (x : peer) (h : hash) (height : N)             (* isBlacklistedPeer *)
| PV2 (x : peer) (h : hash) (height : N)             (* storeFrom.Load *)
| PV3 (x : peer) (h : hash) (height : N)             (* getOrCreatePool *)
| PV4 (x : peer) (h : hash) (pid : nat)              (* p.add(peerID) *)
| PV5 (x : peer) (h : hash) (pid : nat)              (* p.isValidatedDataHash.Load *)
| PV6 (x : peer) (h : hash)                          (* nodes.add(peerID) *)
(* validatedPool, called by the header loop and by Peer *)
| PG0 (a : gargs)                                    (* getOrCreatePool *)
| PG1 (a : gargs) (pid : nat)                        (* CompareAndSwap(false, true) *)
| PG2 (a : gargs) (pid : nat)                        (* p.peers() *)
| PG3 (a : gargs) (pid : nat) (todo allowed : list peer)  (* isBlacklistedPeer(head) ; nodes.add(allowed) when done *)
(* header *)
| PH1 (a : gargs)                                    (* initialHeight.CompareAndSwap(0, height) *)
| PH2 (a : gargs)                                    (* storeFrom.Store *)
(* Peer *)
| PR0 (a : gargs) (pid : nat)                        (* p.tryGet *)
| PR1 (a : gargs) (pid : nat) (x : peer)             (* removeIfUnreachable: isBlacklistedPeer *)
| PR2 (a : gargs) (pid : nat) (x : peer)             (* removeIfUnreachable: nodes.has *)
| PR3 (a : gargs) (pid : nat) (x : peer)             (* pool.remove, then Peer again *)
| PR4 (a : gargs) (pid : nat)                        (* nodes.tryGet *)
| PR5 (a : gargs) (x : peer)                         (* removeIfBlacklisted: isBlacklistedPeer *)
| PR6 (a : gargs) (x : peer)                         (* nodes.remove, then Peer again *)
| PRet (x : peer) (src : source)                     (* newPeer: return *)
| PWaiting (a : gargs) (pid : nat)                   (* the select on p.next / nodes.next / ctx.Done *)
(* DoneFunc *)
| PD0 (h : hash) (x : peer) (src : source) (r : dres)
| PD1 (x : peer) (pid : nat)                         (* p.putOnCooldown *)
(* blacklistPeers *)
| PB0 (xs : list peer)                               (* loop head: nodes.remove(head) *)
| PB1 (x : peer) (xs : list peer)                    (* connGater.BlockPeer *)
| PB2 (x : peer) (xs : list peer)                    (* Network().ClosePeer *)
(* UpdateNodePool, disconnect event *)
| PU0 (x : peer) (added : bool)
| PU1 (x : peer)                                     (* nodes.add *)
| PC0 (x : peer)                                     (* nodes.has *)
| PC1 (x : peer)                                     (* nodes.remove *)
(* one GC round *)
| PGC0 (order : list peer)                           (* initialHeight.Load *)
| PGC1 (order : list peer).                          (* cleanUp *)

Definition start (c : call) : pc :=
  match c with
  | CValidate x h height => PV0 x h height
  | CHeader h height order => PG0 (mkG false h height order)
  | CPeer h height order => PG0 (mkG true h height order)
  | CDone h x src r => PD0 h x src r
  | CUpdate x added => PU0 x added
  | CDisconnect x => PC0 x
  | CGC order => PGC0 order
  end.

Inductive tres := Go (p : pc) | Fin (o : mout).

(** the end of validatedPool: back in the caller *)
Definition after_validated (a : gargs) (pid : nat) : pc := if g_peer a then PR0 a pid else PH1 a.

(** ONE critical section of a thread *)
Definition tstep (s : shared) (p : pc) : shared * tres :=
  match p with
  | PStart c => (s, Go (start c))
  (* ---- Validate *)
  | PV0 x h height =>
    if N.eqb x (h_self s) then (s, Fin (OV VAccept))
    else if mem h (h_bhash s) then (s, Fin (OV VReject)) else (s, Go (PV1 x h height))
  | PV1 x h height => if black s x then (s, Fin (OV VReject)) else (s, Go (PV2 x h height))
  | PV2 x h height => if height <? h_from s then (s, Fin (OV VIgnore)) else (s, Go (PV3 x h height))
  | PV3 x h height => let r := fget_or_create s h height in (fst r, Go (PV4 x h (snd r)))
  | PV4 x h pid => (on_pool s pid (fun q => add q [x]), Go (PV5 x h pid))
  | PV5 x h pid => if valid_of s pid then (s, Go (PV6 x h)) else (s, Fin (OV VIgnore))
  | PV6 x h => (hset_nodes s (add (h_nodes s) [x]), Fin (OV VIgnore))
  (* ---- validatedPool *)
  | PG0 a => let r := fget_or_create s (g_h a) (g_height a) in (fst r, Go (PG1 a (snd r)))
  | PG1 a pid =>
    if valid_of s pid then (s, Go (after_validated a pid))
    else (upd_heap s pid (fun sp => mkSpool (sp_pool sp) true (sp_height sp) (sp_old sp)), Go (PG2 a pid))
  | PG2 a pid => (s, Go (PG3 a pid (canon (g_order a) (peers_of (pool_of s pid))) []))
  | PG3 a pid (y :: todo) allowed =>
    (s, Go (PG3 a pid todo (if black s y then allowed else allowed ++ [y])))
  | PG3 a pid [] allowed => (hset_nodes s (add (h_nodes s) allowed), Go (after_validated a pid))
  (* ---- header *)
  | PH1 a => ((if N.eqb (h_init s) 0 then hset_init s (g_height a) else s), Go (PH2 a))
  | PH2 a => (hset_from s (g_height a - stored_pools_amount), Fin ONone)
  (* ---- Peer *)
  | PR0 a pid =>
    let r := try_get (pool_of s pid) in
    (on_pool s pid (fun _ => fst r), Go (match snd r with GSome x => PR1 a pid x | _ => PR4 a pid end))
  | PR1 a pid x =>
    if h_guard s && black s x then (s, Go (PR3 a pid x)) else (s, Go (PR2 a pid x))
  | PR2 a pid x => if has (h_nodes s) x then (s, Go (PRet x SShrexSub)) else (s, Go (PR3 a pid x))
  | PR3 a pid x => (on_pool s pid (fun q => remove q [x]), Go (PG0 a))
  | PR4 a pid =>
    let r := try_get (h_nodes s) in
    (hset_nodes s (fst r), Go (match snd r with GSome x => PR5 a x | _ => PWaiting a pid end))
  | PR5 a x => if black s x then (s, Go (PR6 a x)) else (s, Go (PRet x SDiscovered))
  | PR6 a x => (hset_nodes s (remove (h_nodes s) [x]), Go (PG0 a))
  | PRet x src => (s, Fin (OP (PRes x src)))
  | PWaiting a pid => (s, Fin (OP PWait))                      (* ctx.Done() *)
  (* ---- DoneFunc *)
  | PD0 h x src r =>
    match r with
    | DNoop => (s, Fin ONone)
    | DCooldown =>
      match src with
      | SDiscovered => (hset_nodes s (put_on_cooldown (h_nodes s) x), Fin ONone)
      | SShrexSub => match find_pid (h_table s) h with Some pid => (s, Go (PD1 x pid)) | None => (s, Fin ONone) end
      end
    | DBlacklist => (s, Go (PB0 [x]))
    end
  | PD1 x pid => (on_pool s pid (fun q => put_on_cooldown q x), Fin ONone)
  (* ---- blacklistPeers *)
  | PB0 [] => (s, Fin ONone)
  | PB0 (x :: xs) =>
    if h_enable s then (hset_nodes s (remove (h_nodes s) [x]), Go (PB1 x xs)) else (s, Go (PB0 xs))
  | PB1 x xs => ((if black s x then s else hset_black s (x :: h_black s)), Go (PB2 x xs))
  | PB2 x xs => (s, Go (PB0 xs))
  (* ---- UpdateNodePool / disconnect *)
  | PU0 x added =>
    if added then (if black s x then (s, Fin ONone) else (s, Go (PU1 x)))
    else (hset_nodes s (remove (h_nodes s) [x]), Fin ONone)
  | PU1 x => (hset_nodes s (add (h_nodes s) [x]), Fin ONone)
  | PC0 x => if has (h_nodes s) x then (s, Go (PC1 x)) else (s, Fin ONone)
  | PC1 x => (hset_nodes s (remove (h_nodes s) [x]), Fin ONone)
  (* ---- GC round *)
  | PGC0 order => if N.eqb (h_init s) 0 then (s, Fin ONone) else (s, Go (PGC1 order))
  | PGC1 order =>
    let r := fclean_go s (h_table s) in
    (hset_bhash (hset_table s (fst (fst r))) (snd (fst r) ++ h_bhash s), Go (PB0 (canon order (dedup (snd r)))))
  end.

(** a waiting Peer call is handed a peer by one of its two next() goroutines *)
Definition twake (s : shared) (p : pc) (src : source) : shared * pc :=
  match p with
  | PWaiting a pid =>
    match src with
    | SShrexSub =>
      let r := try_get (pool_of s pid) in
      (on_pool s pid (fun _ => fst r), match snd r with GSome x => PR1 a pid x | _ => p end)
    | SDiscovered =>
      let r := try_get (h_nodes s) in
      (hset_nodes s (fst r), match snd r with GSome x => PR5 a x | _ => p end)
    end
  | _ => (s, p)
  end.

(** ---- the system: shared state + threads *)
Inductive tstate := TNone | TRun (p : pc) | TDone (o : mout).

Record fsys := mkFsys { fs_sh : shared; fs_thr : nat -> tstate }.

Definition updt (f : nat -> tstate) (t : nat) (v : tstate) : nat -> tstate :=
  fun u => if Nat.eqb u t then v else f u.

Inductive fev :=
| FSpawn (t : nat) (c : call)        (* a call begins (thread id [t] must be unused) *)
| FStep (t : nat)                    (* its next critical section *)
| FWake (t : nat) (src : source)     (* a waiting Peer call receives from p.next / nodes.next *)
| FAge (h : hash)                    (* test hook: the pool's createdAt moves past the validation timeout *)
| FTick (d : N).                     (* the clock of all cool-down queues advances *)

Definition ftick (s : shared) (d : N) : shared :=
  hset_nodes (hset_heap (hset_now s (h_now s + d))
                        (map (fun e => (fst e, with_pool (snd e) (tick_pool d (sp_pool (snd e))))) (h_heap s)))
             (tick_pool d (h_nodes s)).

Definition fage (s : shared) (h : hash) : shared :=
  match find_pid (h_table s) h with
  | Some pid => upd_heap s pid (fun sp => mkSpool (sp_pool sp) (sp_valid sp) (sp_height sp) true)
  | None => s
  end.

Definition fstep (s : fsys) (e : fev) : fsys :=
  match e with
  | FSpawn t c =>
    match fs_thr s t with
    | TNone => mkFsys (fs_sh s) (updt (fs_thr s) t (TRun (PStart c)))
    | _ => s
    end
  | FStep t =>
    match fs_thr s t with
    | TRun p =>
      let '(sh, r) := tstep (fs_sh s) p in
      mkFsys sh (updt (fs_thr s) t (match r with Go p' => TRun p' | Fin o => TDone o end))
    | _ => s
    end
  | FWake t src =>
    match fs_thr s t with
    | TRun p => let '(sh, p') := twake (fs_sh s) p src in mkFsys sh (updt (fs_thr s) t (TRun p'))
    | _ => s
    end
  | FAge h => mkFsys (fage (fs_sh s) h) (fs_thr s)
  | FTick d => mkFsys (ftick (fs_sh s) d) (fs_thr s)
  end.

Definition finit (guard enable : bool) (self : peer) (ttl : N) : fsys :=
  mkFsys (new_shared guard enable self ttl) (fun _ => TNone).

Definition frun (s : fsys) (es : list fev) : fsys := fold_left fstep es s.

(** ---- the view of [Peers.Manager]: the map with the objects it points to *)
Definition abs (s : shared) : mgr :=
  mkMgr (flat_map (fun e => match heap_get s (snd e) with Some sp => [(fst e, sp)] | None => [] end) (h_table s))
        (h_nodes s) (h_black s) (h_bhash s) (h_init s) (h_from s) (h_enable s) (h_self s) (h_ttl s) (h_now s).

(** ---- harness-level schedules (L2).  The harness cannot count critical sections of the real code; it parks a real
    call at named points ("labels": a log statement, the gater's datastore write, Network().ClosePeer, the queue
    mutex of the general pool) and lets other calls run meanwhile.  [HRunTo t l] = resume thread [t] and let it run
    until it is about to execute a step labelled [l] (or returns); [HRun t] = let it run until it returns.  Both are
    iterations of [FStep t], so every state they reach is a state of [frun]. *)
Inductive label :=
| LBlacklisting      (* log "blacklisting peer": before nodes.remove of the next peer *)
| LBlock             (* the gater persists the peer: after nodes.remove, before BlockPeer takes effect *)
| LClose             (* Network().ClosePeer: after BlockPeer *)
| LValidateAdd       (* log "got hash from shrex-sub": all of Validate's checks passed, before p.add *)
| LMarked            (* log "pool marked validated": after the CompareAndSwap, before p.peers() *)
| LRemoveOutdated    (* log "removing outdated peer from pool": before pool.remove *)
| LRemoveBlack       (* log "removing blacklisted peer ...": before nodes.remove *)
| LGotPeer           (* log "got peer": after the last check, before Peer returns *)
| LDisconnect        (* log "peer disconnected ...": between nodes.has and nodes.remove *)
| LNodesQ.           (* about to take the general pool's queue mutex: nodes.add / nodes.putOnCooldown *)

Definition at_label (l : label) (p : pc) : bool :=
  match l, p with
  | LBlacklisting, PB0 (_ :: _) => true
  | LBlock, PB1 _ _ => true
  | LClose, PB2 _ _ => true
  | LValidateAdd, PV4 _ _ _ => true
  | LMarked, PG2 _ _ => true
  | LRemoveOutdated, PR3 _ _ _ => true
  | LRemoveBlack, PR6 _ _ => true
  | LGotPeer, PRet _ _ => true
  | LDisconnect, PC1 _ => true
  | LNodesQ, PV6 _ _ => true
  | LNodesQ, PG3 _ _ [] _ => true
  | LNodesQ, PU1 _ => true
  | LNodesQ, PD0 _ _ SDiscovered DCooldown => true
  | _, _ => false
  end.

Inductive hev :=
| HSpawn (t : nat) (c : call)
| HRun (t : nat)
| HRunTo (t : nat) (l : label)
| HAge (h : hash)
| HTick (d : N).

(** at least one step, then until the label is next / the thread has returned *)
Fixpoint run_thread (fuel : nat) (stop : pc -> bool) (s : fsys) (t : nat) : fsys :=
  match fuel with
  | O => s
  | S f =>
    let s1 := fstep s (FStep t) in
    match fs_thr s1 t with
    | TRun p => if stop p then s1 else run_thread f stop s1 t
    | _ => s1
    end
  end.

Definition heap_size (s : shared) : nat :=
  fold_left (fun n e => (n + length (plist (sp_pool (snd e))))%nat) (h_heap s) 0%nat.

(** more steps than any call can take from this state: every round of Peer's retry removes a peer from a pool *)
Definition call_fuel (s : shared) : nat :=
  (64 + 16 * (length (plist (h_nodes s)) + heap_size s + length (h_heap s)))%nat.

Definition hstep (s : fsys) (e : hev) : fsys :=
  match e with
  | HSpawn t c => fstep s (FSpawn t c)
  | HRun t => run_thread (call_fuel (fs_sh s)) (fun _ => false) s t
  | HRunTo t l => run_thread (call_fuel (fs_sh s)) (at_label l) s t
  | HAge h => fstep s (FAge h)
  | HTick d => fstep s (FTick d)
  end.

Definition hrun (s : fsys) (es : list hev) : fsys := fold_left hstep es s.

(** a whole call executed without anything in between: the events of [Peers.Manager] *)
Definition call_of (e : mev) : option call :=
  match e with
  | MValidate x h height => Some (CValidate x h height)
  | MHeader h height order => Some (CHeader h height order)
  | MPeer h height order => Some (CPeer h height order)
  | MDone h x src r => Some (CDone h x src r)
  | MUpdate x added => Some (CUpdate x added)
  | MDisconnect x => Some (CDisconnect x)
  | MGC order => Some (CGC order)
  | MAge _ | MTick _ => None
  end.

(** the coarse history [es] as a schedule: call number i runs alone, start to finish, as thread i *)
Fixpoint atomic_schedule (t : nat) (es : list mev) : list hev :=
  match es with
  | [] => []
  | e :: es' =>
    match e with
    | MAge h => HAge h :: atomic_schedule t es'
    | MTick d => HTick d :: atomic_schedule t es'
    | _ => match call_of e with
           | Some c => HSpawn t c :: HRun t :: atomic_schedule (S t) es'
           | None => atomic_schedule t es'
           end
    end
  end.

(** ---- correspondence cases (L2) *)
Record fcase := mkFcase {
  fc_enable : bool; fc_self : peer; fc_ttl : N; fc_np : nat; fc_nh : nat;
  fc_events : list hev;
  fc_outs : list mout;          (* what call 0, 1, 2 ... returned (ONone: nothing to return) *)
  fc_final : mobs
}.

Definition thread_out (s : fsys) (t : nat) : option mout :=
  match fs_thr s t with TDone o => Some o | _ => None end.

Definition omout_eqb (a b : option mout) : bool :=
  match a, b with Some x, Some y => mout_eqb x y | _, _ => false end.

Definition fcase_ok (c : fcase) : bool :=
  let s := hrun (finit true (fc_enable c) (fc_self c) (fc_ttl c)) (fc_events c) in
  list_eqb omout_eqb (map (thread_out s) (seq 0 (length (fc_outs c)))) (map Some (fc_outs c)) &&
  mobs_eqb (mobs_of (fc_np c) (fc_nh c) (abs (fs_sh s))) (fc_final c).

Fixpoint fmism_from (i : N) (cs : list fcase) : list N :=
  match cs with
  | [] => []
  | c :: cs' => if fcase_ok c then fmism_from (i + 1) cs' else i :: fmism_from (i + 1) cs'
  end.

Definition fmismatches (cs : list fcase) : list N := fmism_from 0 cs.

(** the sequential cases of [Peers.Manager] are also run through this model (every call alone) *)
Definition mcase_ok_fine (c : mcase) : bool :=
  let s := hrun (finit true (mc_enable c) (mc_self c) (mc_ttl c)) (atomic_schedule 0 (mc_events c)) in
  let n := length (filter (fun e => match call_of e with Some _ => true | None => false end) (mc_events c)) in
  let outs := flat_map (fun t => match thread_out s t with Some ONone | None => [] | Some o => [o] end) (seq 0 n) in
  forallb (fun t => match thread_out s t with Some _ => true | None => false end) (seq 0 n) &&
  list_eqb mout_eqb outs (mc_outs c) && mobs_eqb (mobs_of (mc_np c) (mc_nh c) (abs (fs_sh s))) (mc_final c).

Fixpoint mfmism_from (i : N) (cs : list mcase) : list N :=
  match cs with
  | [] => []
  | c :: cs' => if mcase_ok c && mcase_ok_fine c then mfmism_from (i + 1) cs' else i :: mfmism_from (i + 1) cs'
  end.

(** both models on the sequential cases *)
Definition mfmismatches (cs : list mcase) : list N := mfmism_from 0 cs.

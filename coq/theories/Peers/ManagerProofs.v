(** C17 — proofs about the manager model [Peers.Manager]: a blacklisted peer is never offered again, and a peer is in
    the general pool only if discovery added it or a hash it announced was confirmed. *)
From Coq Require Import List ZArith NArith Bool Lia.
From CN Require Import Base.Lts Peers.Pool Peers.PoolProofs Peers.Manager.
Import ListNotations.
Open Scope N_scope.

Definition mrun := run mstep.

(** ** membership of a peer in a pool (any status) and how the pool operations change it *)
Definition member (p : pool) (x : peer) : Prop := pstat p x <> None.

Lemma has_member p x : has p x = true -> member p x.
Proof. unfold has, member. destruct (pstat p x); [discriminate | discriminate]. Qed.

Lemma check_has_stat s : pstat (check_has s) = pstat s.
Proof. apply check_has_fields. Qed.

Lemma add1_member s p x : member (add1 s p) x -> member s x \/ x = p.
Proof.
  unfold member, add1. destruct s as [l st c nx h g q now ttl thr]; simpl.
  destruct (st p) as [[| |]|] eqn:E; simpl; auto;
    destruct (queue_has q p); simpl; unfold upd; destruct (N.eqb_spec x p); auto.
Qed.

Lemma fold_add1_member ps : forall s x, member (fold_left add1 ps s) x -> member s x \/ In x ps.
Proof.
  induction ps as [|p ps IH]; simpl; intros s x H; [left; assumption|].
  destruct (IH _ _ H) as [H1|H1]; [|right; right; assumption].
  destruct (add1_member _ _ _ H1) as [H2| ->]; [left; assumption | right; left; reflexivity].
Qed.

Lemma add_member s ps x : member (add s ps) x -> member s x \/ In x ps.
Proof. unfold add, member. rewrite check_has_stat. apply fold_add1_member. Qed.

Lemma remove1_member s p x : member (remove1 s p) x -> member s x.
Proof.
  unfold member, remove1. destruct s as [l st c nx h g q now ttl thr]; simpl.
  destruct (st p) as [[| |]|] eqn:E; simpl; auto; unfold upd; destruct (N.eqb_spec x p); subst; auto; congruence.
Qed.

Lemma fold_remove1_member ps : forall s x, member (fold_left remove1 ps s) x -> member s x.
Proof. induction ps as [|p ps IH]; simpl; intros s x H; [assumption|]. eapply remove1_member, IH, H. Qed.

Lemma cleanup_member s x : member (cleanup s) x -> member s x.
Proof.
  unfold member, cleanup. pose proof (cleanup_go_snd (plist s) (pstat s) x) as S.
  destruct (cleanup_go (plist s) (pstat s)) as [nl st']. simpl in *. rewrite S.
  destruct (existsb (N.eqb x) (plist s) && is_removed (pstat s x)); [intro H; exfalso; apply H; reflexivity | auto].
Qed.

Lemma remove_member s ps x : member (remove s ps) x -> member s x.
Proof.
  unfold remove, member. rewrite check_has_stat. intro H. apply (fold_remove1_member ps s x).
  destruct (_ <=? _)%Z; [apply cleanup_member|]; exact H.
Qed.

Lemma try_get_member s x : member (fst (try_get s)) x -> member s x.
Proof. rewrite (try_get_frame s). destruct s; simpl. auto. Qed.

Lemma put_on_cooldown_member s p x : member (put_on_cooldown s p) x -> member s x.
Proof.
  unfold member, put_on_cooldown. destruct (pstat s p) as [[| |]|] eqn:E; auto.
  rewrite check_has_stat. destruct s; simpl in *. unfold upd. destruct (N.eqb_spec x p); subst; auto; congruence.
Qed.

Lemma after_cooldown_member s p x : member (after_cooldown s p) x -> member s x.
Proof.
  unfold member, after_cooldown. destruct (pstat s p) as [[| |]|] eqn:E; auto.
  rewrite check_has_stat. destruct s; simpl in *. unfold upd. destruct (N.eqb_spec x p); subst; auto; congruence.
Qed.

Lemma expire1_member s x : member (expire1 s) x -> member s x.
Proof.
  unfold expire1. destruct (pqueue s) as [|[p t] q'] eqn:Q; auto. destruct (expired s t); auto.
  intro H. apply after_cooldown_member in H. destruct s; exact H.
Qed.

Lemma expire_n_member n : forall s x, member (expire_n n s) x -> member s x.
Proof. induction n as [|n IH]; simpl; intros s x H; [assumption|]. apply expire1_member, IH, H. Qed.

Lemma tick_pool_member d s x : member (tick_pool d s) x -> member s x.
Proof. unfold tick_pool. intro H. apply expire_n_member in H. destruct s; exact H. Qed.

(** ** the pool table *)
Lemma find_pool_in ps h sp : find_pool ps h = Some sp -> In (h, sp) ps.
Proof.
  induction ps as [|[k v] ps IH]; simpl; [discriminate|].
  destruct (N.eqb_spec k h) as [->|]; [intro H; inversion H; left; reflexivity | intro H; right; apply IH, H].
Qed.

Lemma put_pool_in ps h v h' sp' : In (h', sp') (put_pool ps h v) -> (h' = h /\ sp' = v) \/ In (h', sp') ps.
Proof.
  induction ps as [|[k w] ps IH]; simpl.
  - intros [H|[]]. inversion H. left. split; reflexivity.
  - destruct (N.eqb_spec k h) as [->|].
    + intros [H|H]; [inversion H; left; split; reflexivity | right; right; assumption].
    + intros [H|H]; [right; left; assumption|]. destruct (IH H) as [?|?]; [left; assumption | right; right; assumption].
Qed.

Lemma upd_pool_in m h f h' sp' : In (h', sp') (m_pools (upd_pool m h f)) ->
  In (h', sp') (m_pools m) \/ exists sp, In (h, sp) (m_pools m) /\ h' = h /\ sp' = f sp.
Proof.
  unfold upd_pool. destruct (find_pool (m_pools m) h) as [sp|] eqn:E; [|left; assumption].
  simpl. intro H. destruct (put_pool_in _ _ _ _ _ H) as [[-> ->]|H']; [|left; assumption].
  right. exists sp. split; [apply find_pool_in, E | split; reflexivity].
Qed.

Lemma upd_pool_frame m h f :
  m_nodes (upd_pool m h f) = m_nodes m /\ m_black (upd_pool m h f) = m_black m /\
  m_enable (upd_pool m h f) = m_enable m.
Proof. unfold upd_pool. destruct (find_pool _ _); simpl; repeat split. Qed.

(** ** blacklisted peers are never offered *)
Lemma peer_loop_black fuel : forall m h, m_black (fst (peer_loop fuel m h)) = m_black m.
Proof.
  induction fuel as [|f IH]; intros m h; simpl; [reflexivity|].
  destruct (find_pool (m_pools m) h) as [sp|]; [|reflexivity].
  destruct (try_get (sp_pool sp)) as [p' r]. destruct r as [x| |].
  - destruct (_ || _).
    + rewrite IH. destruct (upd_pool_frame (upd_pool m h (fun s => with_pool s p')) h
                             (fun s => with_pool s (remove (sp_pool s) [x]))) as (_ & -> & _).
      apply upd_pool_frame.
    + simpl. apply upd_pool_frame.
  - destruct (try_get (m_nodes _)) as [n' r']. destruct r' as [x| |]; simpl; try apply upd_pool_frame.
    destruct (is_blacklisted _ x); [rewrite IH|]; simpl; apply upd_pool_frame.
  - destruct (try_get (m_nodes _)) as [n' r']. destruct r' as [x| |]; simpl; try apply upd_pool_frame.
    destruct (is_blacklisted _ x); [rewrite IH|]; simpl; apply upd_pool_frame.
Qed.

Lemma peer_loop_not_black fuel : forall m h x src,
  snd (peer_loop fuel m h) = PRes x src -> is_blacklisted m x = false.
Proof.
  induction fuel as [|f IH]; intros m h x src; simpl; [discriminate|].
  destruct (find_pool (m_pools m) h) as [sp|]; [|discriminate].
  destruct (try_get (sp_pool sp)) as [p' r].
  assert (Hb : forall m0 g, m_black (upd_pool m0 h g) = m_black m0) by (intros m0 g; apply upd_pool_frame).
  destruct r as [y| |].
  - destruct (is_blacklisted (upd_pool m h (fun s => with_pool s p')) y) eqn:B; simpl.
    + intro H. apply IH in H. unfold is_blacklisted in *. rewrite !Hb in H. exact H.
    + destruct (negb _).
      * intro H. apply IH in H. unfold is_blacklisted in *. rewrite !Hb in H. exact H.
      * simpl. intro H. inversion H; subst. unfold is_blacklisted in *. rewrite Hb in B. exact B.
  - destruct (try_get (m_nodes _)) as [n' r']. destruct r' as [y| |]; simpl; try discriminate.
    destruct (is_blacklisted _ y) eqn:B.
    + intro H. apply IH in H. unfold is_blacklisted in *. simpl in H. rewrite Hb in H. exact H.
    + simpl. intro H. inversion H; subst. unfold is_blacklisted in *. simpl in B. rewrite Hb in B. exact B.
  - destruct (try_get (m_nodes _)) as [n' r']. destruct r' as [y| |]; simpl; try discriminate.
    destruct (is_blacklisted _ y) eqn:B.
    + intro H. apply IH in H. unfold is_blacklisted in *. simpl in H. rewrite Hb in H. exact H.
    + simpl. intro H. inversion H; subst. unfold is_blacklisted in *. simpl in B. rewrite Hb in B. exact B.
Qed.

Lemma get_or_create_black m h height : m_black (fst (get_or_create m h height)) = m_black m.
Proof. unfold get_or_create. destruct (find_pool _ _); reflexivity. Qed.

Lemma validated_pool_black m h height order : m_black (validated_pool m h height order) = m_black m.
Proof.
  unfold validated_pool. pose proof (get_or_create_black m h height) as G.
  destruct (get_or_create m h height) as [m1 sp]. simpl in G. destruct (sp_valid sp); [assumption|].
  simpl. destruct (upd_pool_frame m1 h (fun s => mkSpool (sp_pool s) true (sp_height s) (sp_old s))) as (_ & -> & _).
  assumption.
Qed.

Lemma get_peer_not_black m h height order x src :
  snd (get_peer m h height order) = PRes x src -> is_blacklisted m x = false.
Proof.
  unfold get_peer. intro H. apply peer_loop_not_black in H.
  unfold is_blacklisted in *. rewrite validated_pool_black in H. exact H.
Qed.

Lemma blacklist1_mono m y x : is_blacklisted m x = true -> is_blacklisted (blacklist1 m y) x = true.
Proof.
  unfold blacklist1, is_blacklisted. destruct (m_enable m); [|auto]. simpl.
  destruct (mem y (m_black m)); simpl; [auto|]. intro H. destruct (N.eqb x y); [reflexivity | assumption].
Qed.

Lemma blacklist_peers_mono xs : forall m x, is_blacklisted m x = true -> is_blacklisted (blacklist_peers m xs) x = true.
Proof. induction xs as [|y xs IH]; simpl; intros m x H; [assumption|]. apply IH, blacklist1_mono, H. Qed.

Lemma blacklist1_enable m y : m_enable (blacklist1 m y) = m_enable m.
Proof. unfold blacklist1. destruct (m_enable m) eqn:E; [|assumption]. destruct (mem _ _); simpl; assumption. Qed.

Lemma blacklist_peers_enable xs : forall m, m_enable (blacklist_peers m xs) = m_enable m.
Proof. induction xs as [|y xs IH]; simpl; intro m; [reflexivity|]. rewrite IH. apply blacklist1_enable. Qed.

(** the blacklist only grows *)
Lemma step_black_mono m e x : is_blacklisted m x = true -> is_blacklisted (mstep m e) x = true.
Proof.
  intro H. unfold mstep, mstep_out. destruct e as [y h height|h height order|h height order|h y src r|y added|y|order|h|d]; simpl.
  - unfold validate. destruct (N.eqb y (m_self m)); [assumption|]. destruct (mem h (m_bhash m)); [assumption|].
    destruct (is_blacklisted m y); [assumption|]. destruct (height <? m_from m); [assumption|].
    pose proof (get_or_create_black m h height) as G. destruct (get_or_create m h height) as [m1 sp]. simpl in *.
    unfold is_blacklisted in *. destruct (sp_valid sp); simpl;
      destruct (upd_pool_frame m1 h (fun s => with_pool s (add (sp_pool s) [y]))) as (_ & -> & _); rewrite G; assumption.
  - unfold header, is_blacklisted in *. simpl. rewrite validated_pool_black. assumption.
  - destruct (get_peer m h height order) as [m' r] eqn:E. simpl.
    assert (m' = fst (get_peer m h height order)) as -> by (rewrite E; reflexivity).
    unfold get_peer, is_blacklisted in *. rewrite peer_loop_black, validated_pool_black. assumption.
  - unfold done. destruct r; [assumption | | apply blacklist_peers_mono; assumption].
    destruct src; unfold is_blacklisted in *; simpl; [|assumption].
    destruct (upd_pool_frame m h (fun s => with_pool s (put_on_cooldown (sp_pool s) y))) as (_ & -> & _). assumption.
  - unfold update_node. destruct added; [destruct (is_blacklisted m y)|]; assumption.
  - unfold disconnect. destruct (has _ _); assumption.
  - unfold gc. destruct (N.eqb (m_init m) 0); [assumption|]. destruct (clean_go m (m_pools m)) as [[keep bh] bp].
    apply blacklist_peers_mono. assumption.
  - unfold age, is_blacklisted in *. destruct (upd_pool_frame m h (fun s => mkSpool (sp_pool s) (sp_valid s) (sp_height s) true)) as (_ & -> & _).
    assumption.
  - assumption.
Qed.

Lemma run_black_mono es : forall m x, is_blacklisted m x = true -> is_blacklisted (mrun m es) x = true.
Proof.
  induction es as [|e es IH]; intros m x H; [assumption|]. unfold mrun in *. rewrite run_cons. apply IH, step_black_mono, H.
Qed.

(** blacklisted_never_offered: once a peer is on the blacklist (at any point [es] of any history), no later Peer call
    (after any further events [es']) returns it, from either pool. *)
Theorem blacklisted_never_offered : forall enable self ttl es es' h height order x src,
  is_blacklisted (mrun (new_mgr enable self ttl) es) x = true ->
  snd (get_peer (mrun (new_mgr enable self ttl) (es ++ es')) h height order) <> PRes x src.
Proof.
  intros enable self ttl es es' h height order x src Hb Hget.
  apply get_peer_not_black in Hget. unfold mrun in *. rewrite run_app in Hget.
  pose proof (run_black_mono es' _ x Hb) as H. unfold mrun in H. congruence.
Qed.

(** with blacklisting enabled, a misbehaviour report puts the peer on the blacklist (so the hypothesis above is met) *)
Lemma done_blacklists m h x src : m_enable m = true -> is_blacklisted (done m h x src DBlacklist) x = true.
Proof.
  intro E. unfold done, blacklist_peers. simpl. unfold blacklist1. rewrite E. simpl.
  unfold is_blacklisted. destruct (mem x (m_black m)) eqn:B; simpl; [assumption|]. rewrite N.eqb_refl. reflexivity.
Qed.

Lemma step_enable m e : m_enable (mstep m e) = m_enable m.
Proof.
  unfold mstep, mstep_out. destruct e as [y h height|h height order|h height order|h y src r|y added|y|order|h|d]; simpl.
  - unfold validate. destruct (N.eqb y (m_self m)); [reflexivity|]. destruct (mem h (m_bhash m)); [reflexivity|].
    destruct (is_blacklisted m y); [reflexivity|]. destruct (height <? m_from m); [reflexivity|].
    unfold get_or_create. destruct (find_pool (m_pools m) h) as [sp|]; simpl;
      [destruct (sp_valid sp) | ]; simpl;
      match goal with |- context [upd_pool ?a ?b ?c] => destruct (upd_pool_frame a b c) as (_ & _ & ->) end; reflexivity.
  - unfold header, validated_pool, get_or_create. destruct (find_pool (m_pools m) h) as [sp|]; simpl;
      [destruct (sp_valid sp) | ]; simpl; try reflexivity;
      match goal with |- context [upd_pool ?a ?b ?c] => destruct (upd_pool_frame a b c) as (_ & _ & ->) end; reflexivity.
  - destruct (get_peer m h height order) as [m' r] eqn:E. simpl.
    assert (m' = fst (get_peer m h height order)) as -> by (rewrite E; reflexivity).
    unfold get_peer.
    assert (L : forall fuel m0 h0, m_enable (fst (peer_loop fuel m0 h0)) = m_enable m0).
    { induction fuel as [|f IH]; intros m0 h0; simpl; [reflexivity|].
      destruct (find_pool (m_pools m0) h0) as [sp|]; [|reflexivity].
      destruct (try_get (sp_pool sp)) as [p' r0]. destruct r0 as [x| |].
      - destruct (_ || _); [rewrite IH|]; simpl;
          repeat match goal with |- context [upd_pool ?a ?b ?c] => destruct (upd_pool_frame a b c) as (_ & _ & ->) end; reflexivity.
      - destruct (try_get (m_nodes _)) as [n' r']. destruct r' as [x| |]; simpl;
          try (destruct (is_blacklisted _ x); [rewrite IH|]; simpl);
          repeat match goal with |- context [upd_pool ?a ?b ?c] => destruct (upd_pool_frame a b c) as (_ & _ & ->) end; reflexivity.
      - destruct (try_get (m_nodes _)) as [n' r']. destruct r' as [x| |]; simpl;
          try (destruct (is_blacklisted _ x); [rewrite IH|]; simpl);
          repeat match goal with |- context [upd_pool ?a ?b ?c] => destruct (upd_pool_frame a b c) as (_ & _ & ->) end; reflexivity. }
    rewrite L. unfold validated_pool, get_or_create. destruct (find_pool (m_pools m) h) as [sp|]; simpl;
      [destruct (sp_valid sp) | ]; simpl; try reflexivity;
      match goal with |- context [upd_pool ?a ?b ?c] => destruct (upd_pool_frame a b c) as (_ & _ & ->) end; reflexivity.
  - unfold done. destruct r; [reflexivity | | apply blacklist_peers_enable].
    destruct src; simpl; [|reflexivity]. apply upd_pool_frame.
  - unfold update_node. destruct added; [destruct (is_blacklisted m y)|]; reflexivity.
  - unfold disconnect. destruct (has _ _); reflexivity.
  - unfold gc. destruct (N.eqb (m_init m) 0); [reflexivity|]. destruct (clean_go m (m_pools m)) as [[keep bh] bp].
    rewrite blacklist_peers_enable. reflexivity.
  - unfold age. apply upd_pool_frame.
  - reflexivity.
Qed.

(** ** no promotion of unvalidated announcers *)
Definition discovered (es : list mev) (x : peer) : Prop := In (MUpdate x true) es.
Definition announced (es : list mev) (x : peer) (h : hash) : Prop := exists height, In (MValidate x h height) es.
Definition confirmed (es : list mev) (h : hash) : Prop :=
  exists height order, In (MHeader h height order) es \/ In (MPeer h height order) es.
Definition legit (es : list mev) (x : peer) : Prop :=
  discovered es x \/ exists h, announced es x h /\ confirmed es h.

Lemma announced_mono es e x h : announced es x h -> announced (es ++ [e]) x h.
Proof. intros [k H]. exists k. apply in_app_iff. left. exact H. Qed.
Lemma confirmed_mono es e h : confirmed es h -> confirmed (es ++ [e]) h.
Proof. intros [k [o [H|H]]]; exists k, o; [left|right]; apply in_app_iff; left; exact H. Qed.
Lemma legit_mono es e x : legit es x -> legit (es ++ [e]) x.
Proof.
  intros [H|[h [A C]]]; [left; apply in_app_iff; left; exact H|].
  right. exists h. split; [apply announced_mono | apply confirmed_mono]; assumption.
Qed.

Record minv (es : list mev) (m : mgr) : Prop := mkMinv {
  v_nodes : forall x, member (m_nodes m) x -> legit es x;
  v_pool  : forall h sp x, In (h, sp) (m_pools m) -> member (sp_pool sp) x -> announced es x h;
  v_valid : forall h sp, In (h, sp) (m_pools m) -> sp_valid sp = true -> confirmed es h
}.

Lemma minv_weaken es e m : minv es m -> minv (es ++ [e]) m.
Proof.
  intros [H1 H2 H3]. constructor.
  - intros x Hx. apply legit_mono, H1, Hx.
  - intros h sp x Hin Hx. eapply announced_mono, H2; eassumption.
  - intros h sp Hin Hv. eapply confirmed_mono, H3; eassumption.
Qed.

(** a change that only shrinks memberships and keeps the flags preserves the invariant *)
Lemma minv_shrink es m m' :
  minv es m ->
  (forall x, member (m_nodes m') x -> member (m_nodes m) x) ->
  (forall h sp', In (h, sp') (m_pools m') -> exists sp, In (h, sp) (m_pools m) /\ sp_valid sp' = sp_valid sp /\
       forall x, member (sp_pool sp') x -> member (sp_pool sp) x) ->
  minv es m'.
Proof.
  intros [H1 H2 H3] Hn Hp. constructor.
  - intros x Hx. apply H1, Hn, Hx.
  - intros h sp' x Hin Hx. destruct (Hp h sp' Hin) as [sp [Hin' [_ Hm]]]. eapply H2; [exact Hin' | apply Hm, Hx].
  - intros h sp' Hin Hv. destruct (Hp h sp' Hin) as [sp [Hin' [Ev _]]]. eapply H3; [exact Hin' | congruence].
Qed.

Lemma upd_pool_shrink es m h f :
  minv es m -> (forall s, sp_valid (f s) = sp_valid s) ->
  (forall s x, member (sp_pool (f s)) x -> member (sp_pool s) x) -> minv es (upd_pool m h f).
Proof.
  intros H Hv Hm. eapply minv_shrink; [exact H | |].
  - destruct (upd_pool_frame m h f) as (-> & _). auto.
  - intros h' sp' Hin. destruct (upd_pool_in _ _ _ _ _ Hin) as [Hin'|[sp [Hin' [-> ->]]]].
    + exists sp'. auto.
    + exists sp. split; [assumption|]. split; [apply Hv | apply Hm].
Qed.

Lemma set_nodes_shrink es m n :
  minv es m -> (forall x, member n x -> member (m_nodes m) x) -> minv es (set_nodes m n).
Proof.
  intros H Hn. eapply minv_shrink; [exact H | exact Hn |]. simpl. intros h sp' Hin. exists sp'. auto.
Qed.

Lemma peer_loop_minv es fuel : forall m h, minv es m -> minv es (fst (peer_loop fuel m h)).
Proof.
  induction fuel as [|f IH]; intros m h H; simpl; [assumption|].
  destruct (find_pool (m_pools m) h) as [sp|] eqn:F; [|assumption].
  destruct (try_get (sp_pool sp)) as [p' r] eqn:E.
  assert (Hp' : forall x, member p' x -> member (sp_pool sp) x).
  { intros x Hx. apply try_get_member. rewrite E. exact Hx. }
  (* storing p' back into the table: the stored pool is the one found, so this is a shrink only for that entry;
     phrase it through a general update that ignores its argument's pool is not possible, so use membership of the found one *)
  assert (H1 : minv es (upd_pool m h (fun s => with_pool s p'))).
  { destruct H as [A1 A2 A3]. constructor.
    - destruct (upd_pool_frame m h (fun s => with_pool s p')) as (-> & _). exact A1.
    - intros h' sp' x Hin Hx. destruct (upd_pool_in _ _ _ _ _ Hin) as [Hin'|[sp0 [Hin' [-> ->]]]]; [eapply A2; eassumption|].
      simpl in Hx. apply (A2 h sp x); [apply find_pool_in, F | apply Hp', Hx].
    - intros h' sp' Hin Hv. destruct (upd_pool_in _ _ _ _ _ Hin) as [Hin'|[sp0 [Hin' [-> ->]]]]; [eapply A3; eassumption|].
      simpl in Hv. eapply A3; eassumption. }
  destruct r as [x| |].
  - destruct (_ || _); [|exact H1]. apply IH. apply upd_pool_shrink; [exact H1 | reflexivity |].
    intros s y Hy. simpl in Hy. eapply remove_member, Hy.
  - destruct (try_get (m_nodes _)) as [n' r'] eqn:En.
    assert (Hn' : forall y, member n' y -> member (m_nodes (upd_pool m h (fun s => with_pool s p'))) y).
    { intros y Hy. apply try_get_member. rewrite En. exact Hy. }
    destruct r' as [x| |]; simpl; try (apply set_nodes_shrink; assumption).
    destruct (is_blacklisted _ x); simpl; [|apply set_nodes_shrink; assumption].
    apply IH. apply set_nodes_shrink; [apply set_nodes_shrink; assumption|].
    simpl. intros y Hy. apply remove_member in Hy. exact Hy.
  - destruct (try_get (m_nodes _)) as [n' r'] eqn:En.
    assert (Hn' : forall y, member n' y -> member (m_nodes (upd_pool m h (fun s => with_pool s p'))) y).
    { intros y Hy. apply try_get_member. rewrite En. exact Hy. }
    destruct r' as [x| |]; simpl; try (apply set_nodes_shrink; assumption).
    destruct (is_blacklisted _ x); simpl; [|apply set_nodes_shrink; assumption].
    apply IH. apply set_nodes_shrink; [apply set_nodes_shrink; assumption|].
    simpl. intros y Hy. apply remove_member in Hy. exact Hy.
Qed.

Lemma get_or_create_minv es m h height :
  minv es m -> minv es (fst (get_or_create m h height)) /\
  In (h, snd (get_or_create m h height)) (m_pools (fst (get_or_create m h height))) /\
  m_nodes (fst (get_or_create m h height)) = m_nodes m.
Proof.
  intro H. unfold get_or_create. destruct (find_pool (m_pools m) h) as [sp|] eqn:E; simpl.
  - split; [assumption|]. split; [apply find_pool_in, E | reflexivity].
  - split; [|split; [left; reflexivity | reflexivity]].
    destruct H as [A1 A2 A3]. constructor; simpl.
    + exact A1.
    + intros h' sp' x [Hin|Hin] Hx; [|eapply A2; eassumption]. inversion Hin; subst. simpl in Hx.
      exfalso. apply Hx. reflexivity.
    + intros h' sp' [Hin|Hin] Hv; [|eapply A3; eassumption]. inversion Hin; subst. discriminate.
Qed.

Lemma in_canon x order set : In x (canon order set) -> In x set.
Proof.
  unfold canon. rewrite in_app_iff, !filter_In. intros [[_ H]|[H _]]; [|assumption].
  unfold mem in H. apply existsb_exists in H. destruct H as [y [Hy E]]. apply N.eqb_eq in E. subst. assumption.
Qed.

Lemma in_peers_of p x : In x (peers_of p) -> member p x.
Proof. unfold peers_of. rewrite filter_In. intros [_ H]. apply has_member, H. Qed.

(** validatedPool: the event [e] that triggers it confirms [h] *)
Lemma validated_pool_minv es e m h height order :
  confirmed (es ++ [e]) h -> minv (es ++ [e]) m -> minv (es ++ [e]) (validated_pool m h height order).
Proof.
  intros Hc H. unfold validated_pool.
  destruct (get_or_create_minv _ m h height H) as (G1 & G2 & G3).
  destruct (get_or_create m h height) as [m1 sp]. simpl in *. destruct (sp_valid sp) eqn:V; [assumption|].
  set (f := fun s => mkSpool (sp_pool s) true (sp_height s) (sp_old s)).
  assert (H2 : minv (es ++ [e]) (upd_pool m1 h f)).
  { destruct G1 as [A1 A2 A3]. constructor.
    - destruct (upd_pool_frame m1 h f) as (-> & _). exact A1.
    - intros h' sp' x Hin Hx. destruct (upd_pool_in _ _ _ _ _ Hin) as [Hin'|[sp0 [Hin' [-> ->]]]]; eapply A2; eassumption.
    - intros h' sp' Hin Hv. destruct (upd_pool_in _ _ _ _ _ Hin) as [Hin'|[sp0 [Hin' [-> ->]]]]; [eapply A3; eassumption | exact Hc]. }
  destruct H2 as [B1 B2 B3]. constructor; simpl; [|exact B2|exact B3].
  intros x Hx. apply add_member in Hx. destruct Hx as [Hx|Hx]; [apply B1, Hx|].
  apply filter_In in Hx. destruct Hx as [Hx _]. apply in_canon, in_peers_of in Hx.
  right. exists h. split; [|exact Hc]. destruct G1 as [_ A2 _]. eapply A2; eassumption.
Qed.

Lemma blacklist_peers_minv es xs : forall m, minv es m -> minv es (blacklist_peers m xs).
Proof.
  induction xs as [|y xs IH]; simpl; intros m H; [assumption|]. apply IH.
  unfold blacklist1. destruct (m_enable m); [|assumption].
  assert (H1 : minv es (set_nodes m (remove (m_nodes m) [y]))).
  { apply set_nodes_shrink; [assumption|]. intros x Hx. eapply remove_member, Hx. }
  destruct (mem y _); [assumption|]. destruct H1 as [A1 A2 A3]. constructor; assumption.
Qed.

Lemma clean_go_sub m ps : forall h sp, In (h, sp) (fst (fst (clean_go m ps))) -> In (h, sp) ps.
Proof.
  induction ps as [|[k v] ps IH]; simpl; intros h sp H; [assumption|].
  destruct (clean_go m ps) as [[keep bh] bp]. simpl in *.
  destruct (sp_valid v).
  - destruct (sp_height v <? m_from m); simpl in H.
    + right. apply IH, H.
    + destruct H as [H|H]; [left; assumption | right; apply IH, H].
  - destruct (sp_height v <? m_init m); simpl in H.
    + right. apply IH, H.
    + destruct (sp_old v); simpl in H.
      * right. apply IH, H.
      * destruct H as [H|H]; [left; assumption | right; apply IH, H].
Qed.

Lemma step_minv es m e : minv es m -> minv (es ++ [e]) (mstep m e).
Proof.
  intro H0. pose proof (minv_weaken es e m H0) as H. clear H0.
  unfold mstep, mstep_out. destruct e as [y h height|h height order|h height order|h y src r|y added|y|order|h|d]; simpl.
  - (* Validate *)
    unfold validate. destruct (N.eqb y (m_self m)); [assumption|]. destruct (mem h (m_bhash m)); [assumption|].
    destruct (is_blacklisted m y); [assumption|]. destruct (height <? m_from m); [assumption|].
    destruct (get_or_create_minv _ m h height H) as (G1 & G2 & G3).
    destruct (get_or_create m h height) as [m1 sp]. simpl in *.
    assert (Ha : announced (es ++ [MValidate y h height]) y h).
    { exists height. apply in_app_iff. right. left. reflexivity. }
    set (f := fun s => with_pool s (add (sp_pool s) [y])).
    assert (H2 : minv (es ++ [MValidate y h height]) (upd_pool m1 h f)).
    { destruct G1 as [A1 A2 A3]. constructor.
      - destruct (upd_pool_frame m1 h f) as (-> & _). exact A1.
      - intros h' sp' x Hin Hx. destruct (upd_pool_in _ _ _ _ _ Hin) as [Hin'|[sp0 [Hin' [-> ->]]]]; [eapply A2; eassumption|].
        simpl in Hx. apply add_member in Hx. destruct Hx as [Hx|[<-|[]]]; [eapply A2; eassumption | exact Ha].
      - intros h' sp' Hin Hv. destruct (upd_pool_in _ _ _ _ _ Hin) as [Hin'|[sp0 [Hin' [-> ->]]]]; eapply A3; eassumption. }
    destruct (sp_valid sp) eqn:V; [|exact H2].
    destruct H2 as [B1 B2 B3]. constructor; simpl; [|exact B2|exact B3].
    intros x Hx. apply add_member in Hx. destruct Hx as [Hx|[<-|[]]]; [apply B1, Hx|].
    right. exists h. split; [exact Ha|]. destruct G1 as [_ _ A3]. eapply A3; eassumption.
  - (* header *)
    unfold header.
    assert (Hc : confirmed (es ++ [MHeader h height order]) h).
    { exists height, order. left. apply in_app_iff. right. left. reflexivity. }
    pose proof (validated_pool_minv es _ m h height order Hc H) as [A1 A2 A3]. constructor; assumption.
  - (* Peer *)
    destruct (get_peer m h height order) as [m' r] eqn:E. simpl.
    assert (m' = fst (get_peer m h height order)) as -> by (rewrite E; reflexivity).
    unfold get_peer. apply peer_loop_minv. apply validated_pool_minv; [|assumption].
    exists height, order. right. apply in_app_iff. right. left. reflexivity.
  - (* DoneFunc *)
    unfold done. destruct r; [assumption | | apply blacklist_peers_minv; assumption].
    destruct src.
    + apply upd_pool_shrink; [assumption | reflexivity |]. intros s x Hx. simpl in Hx. eapply put_on_cooldown_member, Hx.
    + apply set_nodes_shrink; [assumption|]. intros x Hx. eapply put_on_cooldown_member, Hx.
  - (* discovery *)
    unfold update_node. destruct added.
    + destruct (is_blacklisted m y); [assumption|]. destruct H as [A1 A2 A3]. constructor; simpl; [|assumption|assumption].
      intros x Hx. apply add_member in Hx. destruct Hx as [Hx|[<-|[]]]; [apply A1, Hx|].
      left. apply in_app_iff. right. left. reflexivity.
    + apply set_nodes_shrink; [assumption|]. intros x Hx. eapply remove_member, Hx.
  - unfold disconnect. destruct (has _ _); [|assumption].
    apply set_nodes_shrink; [assumption|]. intros x Hx. eapply remove_member, Hx.
  - (* GC *)
    unfold gc. destruct (N.eqb (m_init m) 0); [assumption|].
    pose proof (clean_go_sub m (m_pools m)) as Hs. destruct (clean_go m (m_pools m)) as [[keep bh] bp]. simpl in Hs.
    apply blacklist_peers_minv. destruct H as [A1 A2 A3]. constructor; simpl.
    + exact A1.
    + intros h sp x Hin Hx. eapply A2; [apply Hs, Hin | exact Hx].
    + intros h sp Hin Hv. eapply A3; [apply Hs, Hin | exact Hv].
  - unfold age. apply upd_pool_shrink; [assumption | reflexivity | auto].
  - (* clock *)
    unfold tick. destruct H as [A1 A2 A3]. constructor; simpl.
    + intros x Hx. apply A1. eapply tick_pool_member, Hx.
    + intros h sp x Hin Hx. apply in_map_iff in Hin. destruct Hin as [[h0 s0] [E Hin]]. inversion E; subst.
      simpl in Hx. eapply A2; [exact Hin | eapply tick_pool_member, Hx].
    + intros h sp Hin Hv. apply in_map_iff in Hin. destruct Hin as [[h0 s0] [E Hin]]. inversion E; subst.
      simpl in Hv. eapply A3; eassumption.
Qed.

Lemma run_minv enable self ttl es : minv es (mrun (new_mgr enable self ttl) es).
Proof.
  induction es as [|e es IH] using rev_ind.
  - constructor; simpl; [intros x Hx; exfalso; apply Hx; reflexivity | intros h sp x [] | intros h sp []].
  - unfold mrun in *. rewrite run_snoc. apply step_minv, IH.
Qed.

(** no_unvalidated_promotion: a peer is in the general pool only if discovery added it or it announced a hash that a
    header (or a getter holding the header, through Peer) confirmed: announcing unconfirmed hashes alone never gets a
    peer promoted.  [has] = present with status active or cooldown, what Peer and removeIfUnreachable look at. *)
Theorem no_unvalidated_promotion : forall enable self ttl es x,
  has (m_nodes (mrun (new_mgr enable self ttl) es)) x = true -> legit es x.
Proof. intros enable self ttl es x H. apply (v_nodes _ _ (run_minv enable self ttl es)). apply has_member, H. Qed.

(** ** non-vacuity *)
Definition ex_mhistory : list mev :=
  [MHeader 2 5 []; MValidate 0 0 6; MValidate 1 0 6; MValidate 0 1 7; MAge 1; MGC [0]; MHeader 0 6 [1; 0]; MUpdate 3 true].

(** peer 0 announced hashes 0 and 1, hash 1 timed out unconfirmed, the GC blacklisted peer 0; the header for hash 0
    then promotes only peer 1; Peer for another hash hands out 1 and 3 but never 0. *)
Example manager_nonvacuous :
  let m := mrun (new_mgr true 9 10) ex_mhistory in
  is_blacklisted m 0 = true /\ has (m_nodes m) 1 = true /\ has (m_nodes m) 3 = true /\ has (m_nodes m) 0 = false /\
  snd (mrun_out (new_mgr true 9 10) (ex_mhistory ++ [MPeer 3 8 []; MPeer 3 8 []; MPeer 0 6 []; MPeer 0 6 []])) =
    [OV VIgnore; OV VIgnore; OV VIgnore; OP (PRes 1 SDiscovered); OP (PRes 3 SDiscovered); OP (PRes 1 SShrexSub); OP (PRes 1 SShrexSub)].
Proof. vm_compute. repeat split; reflexivity. Qed.

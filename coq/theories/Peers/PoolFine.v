(** C17 — the cool-down timer of the peer pool at LOCK GRANULARITY (timedqueue.go: releaseExpired / releaseUnsafe,
    pool.go: afterCooldown).

    [Peers.Pool] executes one iteration of the expiry loop as ONE event [EExpire]: "the head item leaves the queue and
    pool.afterCooldown flips its peer from cooldown to active".  In the code these are two critical sections of the
    timer goroutine: the item is found expired under the queue mutex, then the callback [onPop = pool.afterCooldown]
    takes pool.m.  This file splits them and makes the locking visible:

      [QLock]  the timer goroutine takes the queue mutex (releaseExpired)
      [QPop]   one iteration of the scan in releaseUnsafe: the head item is expired -> it leaves the queue and its
               callback is due; not expired / queue empty -> the timer is re-armed, the scan ends and the queue mutex
               is released
      [QCall]  one due callback: pool.afterCooldown under pool.m
      [QE e]   any event of [Peers.Pool] (the atomic [EExpire] itself is not an event of this model).  [add] and
               [putOnCooldown] take the queue mutex first (lock order: queue, then pool), so they are NOT enabled while
               the timer goroutine holds it; [remove], [tryGet], [cleanup], the clock and the steps of next()'s
               waiters take pool.m only (or nothing) and may run between any two timer steps.

    The parameter [under] says WHERE the callback runs:
      [true]  = the code under test: releaseUnsafe calls onPop inside its loop, i.e. with the queue mutex held
                ([TmCall]); the mutex is released when the scan ends;
      [false] = the variant "collect the expired ids, trim, unlock, then call onPop": the scan only accumulates
                ([TmScan acc]) and the callbacks run after the unlock ([TmOut acc]), when add / putOnCooldown are
                enabled again.  Kept executable so that the theorem that needs the lock can be shown sharp
                ([PoolFineProofs.cooldown_respected_after_unlock_refuted]).
    One timer goroutine at a time (a second releaseExpired would wait for the queue mutex; in the [false] variant it
    could overlap the callbacks of the first, which this model does not represent).

    (The code trims [items] after the loop; nothing but holders of the queue mutex reads [items], so trimming at each
    iteration is indistinguishable.)  No proofs here. *)
From Coq Require Import List ZArith NArith Bool.
From CN Require Import Peers.Pool.
Import ListNotations.
Open Scope N_scope.

Inductive timer :=
| TmIdle
| TmScan (acc : list (peer * N))   (* holds the queue mutex, scanning; [acc] = popped items whose callback is due after the unlock *)
| TmCall (it : peer * N)           (* holds the queue mutex, about to call onPop(it) *)
| TmOut (acc : list (peer * N)).   (* queue mutex released, callbacks due *)

Definition holds_queue (t : timer) : bool :=
  match t with TmScan _ | TmCall _ => true | _ => false end.

Record qsys := mkQ { q_sys : sys; q_tm : timer }.

Inductive qev := QE (e : ev) | QLock | QPop | QCall.

(** [add] and [putOnCooldown] begin with [p.cooldown.Lock()] *)
Definition needs_queue (e : ev) : bool :=
  match e with EAdd _ | ECooldown _ => true | _ => false end.

Definition is_expire (e : ev) : bool := match e with EExpire => true | _ => false end.

Definition out_of (acc : list (peer * N)) : timer := match acc with [] => TmIdle | _ => TmOut acc end.

Definition sys_with (s : sys) (p : pool) : sys := mkSys p (swait s).

Definition qstep_out (under : bool) (s : qsys) (e : qev) : qsys * option getres :=
  match e with
  | QE e0 =>
    if is_expire e0 || (needs_queue e0 && holds_queue (q_tm s)) then (s, None)      (* not enabled *)
    else (mkQ (fst (step_out (q_sys s) e0)) (q_tm s), snd (step_out (q_sys s) e0))
  | QLock =>
    match q_tm s with TmIdle => (mkQ (q_sys s) (TmScan []), None) | _ => (s, None) end
  | QPop =>
    match q_tm s with
    | TmScan acc =>
      let p := spool (q_sys s) in
      match pqueue p with
      | (x, c) :: q' =>
        if expired p c then
          let sy := sys_with (q_sys s) (set_queue p q') in
          (mkQ sy (if under then TmCall (x, c) else TmScan (acc ++ [(x, c)])), None)
        else (mkQ (q_sys s) (out_of acc), None)
      | [] => (mkQ (q_sys s) (out_of acc), None)
      end
    | _ => (s, None)
    end
  | QCall =>
    match q_tm s with
    | TmCall (x, _) => (mkQ (sys_with (q_sys s) (after_cooldown (spool (q_sys s)) x)) (TmScan []), None)
    | TmOut ((x, _) :: acc) => (mkQ (sys_with (q_sys s) (after_cooldown (spool (q_sys s)) x)) (out_of acc), None)
    | _ => (s, None)
    end
  end.

Definition qstep (under : bool) (s : qsys) (e : qev) : qsys := fst (qstep_out under s e).

Definition qinit (ttl : N) : qsys := mkQ (init ttl) TmIdle.

Definition qrun (under : bool) (s : qsys) (es : list qev) : qsys := fold_left (qstep under) es s.

Fixpoint qrun_out (under : bool) (s : qsys) (es : list qev) : qsys * list getres :=
  match es with
  | [] => (s, [])
  | e :: es' =>
    let '(s1, o) := qstep_out under s e in
    let '(s2, os) := qrun_out under s1 es' in
    (s2, match o with Some r => r :: os | None => os end)
  end.

(** times at which a putOnCooldown of [x] took effect *)
Fixpoint qcooldown_times (under : bool) (s : qsys) (es : list qev) (x : peer) : list N :=
  match es with
  | [] => []
  | e :: es' =>
    let here :=
      match e with
      | QE (ECooldown y) =>
        if negb (holds_queue (q_tm s)) && N.eqb y x && ost_eqb (pstat (spool (q_sys s)) x) (Some Active)
        then [pnow (spool (q_sys s))] else []
      | _ => []
      end in
    here ++ qcooldown_times under (qstep under s e) es' x
  end.

(** ---- correspondence cases (L2): the harness parks the real expiry callback, runs pool calls meanwhile, and records
    which of them returned before the callback was let go *)
Record qcase := mkQcase {
  qc_ttl : N; qc_thr : Z; qc_npeers : nat; qc_events : list qev; qc_outs : list getres; qc_final : obs
}.

Definition timer_idle (t : timer) : bool := match t with TmIdle => true | _ => false end.

Definition qcase_ok (c : qcase) : bool :=
  let s0 := mkQ (mkSys (set_thr (new_pool (qc_ttl c)) (qc_thr c)) (fun _ => WIdle)) TmIdle in
  let '(s, outs) := qrun_out true s0 (qc_events c) in
  list_eqb getres_eqb outs (qc_outs c) && obs_eqb (obs_of (qc_npeers c) (spool (q_sys s))) (qc_final c) &&
  timer_idle (q_tm s).

Fixpoint qmism_from (i : N) (cs : list qcase) : list N :=
  match cs with
  | [] => []
  | c :: cs' => if qcase_ok c then qmism_from (i + 1) cs' else i :: qmism_from (i + 1) cs'
  end.

Definition qmismatches (cs : list qcase) : list N := qmism_from 0 cs.

(** C17 — proofs about the lock-granularity model of the cool-down timer [Peers.PoolFine].

    With the callback under the queue mutex ([under = true], the code under test) every history of the finer model is
    simulated by a history of [Peers.Pool] (the popped item is put back in front of the queue until its callback has
    run: nothing that can run in between reads the queue), so the pool theorems carry over to EVERY interleaving of
    the timer's critical sections with the other calls: [fine_cooldown_respected], [fine_pool_count_inv].
    With the callback after the unlock ([under = false]) [cooldown_respected_after_unlock_refuted]:
    remove + add + putOnCooldown between the unlock and the callback, and the stale callback re-activates the peer. *)
From Coq Require Import List ZArith NArith Bool Lia.
From CN Require Import Base.Lts Peers.Pool Peers.PoolProofs Peers.PoolFine.
Import ListNotations.
Open Scope N_scope.

(** ** [set_queue] commutes with everything that does not read the queue *)
Lemma set_queue_id s : set_queue s (pqueue s) = s.
Proof. destruct s; reflexivity. Qed.

Lemma sys_eta (s : sys) : mkSys (spool s) (swait s) = s.
Proof. destruct s; reflexivity. Qed.

Lemma check_has_sq s q : check_has (set_queue s q) = set_queue (check_has s) q.
Proof. unfold check_has. simpl. destruct (andb _ _); [reflexivity|]. destruct (andb _ _); reflexivity. Qed.

Lemma remove1_sq s q p : remove1 (set_queue s q) p = set_queue (remove1 s p) q.
Proof. unfold remove1. simpl. destruct (pstat s p) as [[| |]|]; reflexivity. Qed.

Lemma fold_remove1_sq ps : forall s q, fold_left remove1 ps (set_queue s q) = set_queue (fold_left remove1 ps s) q.
Proof. induction ps as [|p ps IH]; intros s q; simpl; [reflexivity|]. rewrite remove1_sq. apply IH. Qed.

Lemma cleanup_sq s q : cleanup (set_queue s q) = set_queue (cleanup s) q.
Proof. unfold cleanup. simpl. destruct (cleanup_go (plist s) (pstat s)). reflexivity. Qed.

Lemma remove_sq s q ps : remove (set_queue s q) ps = set_queue (remove s ps) q.
Proof.
  unfold remove. rewrite fold_remove1_sq. set (s1 := fold_left remove1 ps s). simpl.
  destruct (_ <=? _)%Z; [rewrite cleanup_sq|]; apply check_has_sq.
Qed.

Lemma try_get_sq s q : try_get (set_queue s q) = (set_queue (fst (try_get s)) q, snd (try_get s)).
Proof.
  unfold try_get. cbn [set_queue pcount plist pstat pnext]. destruct (pcount s =? 0)%Z; [reflexivity|].
  destruct (scan _ _ _ _ _) as [i r]. reflexivity.
Qed.

Lemma after_cooldown_sq s q p : after_cooldown (set_queue s q) p = set_queue (after_cooldown s p) q.
Proof.
  unfold after_cooldown. simpl. destruct (pstat s p) as [[| |]|]; try reflexivity.
  rewrite <- check_has_sq. reflexivity.
Qed.

Lemma expired_sq s q c : expired (set_queue s q) c = expired s c.
Proof. reflexivity. Qed.

(** ** the events that take pool.m only *)
Definition free_ev (e : ev) : Prop := needs_queue e = false /\ is_expire e = false.

Lemma step_sq sy q e : free_ev e ->
  step (mkSys (set_queue (spool sy) q) (swait sy)) e = mkSys (set_queue (spool (step sy e)) q) (swait (step sy e)).
Proof.
  intros [Hq He]. destruct e as [ps|ps| |x| |d| |w|w|w|w]; try discriminate; unfold step, step_out; simpl.
  - rewrite remove_sq. reflexivity.
  - rewrite try_get_sq. destruct (try_get (spool sy)) as [p' r]. reflexivity.
  - rewrite cleanup_sq. reflexivity.
  - reflexivity.
  - destruct (swait sy w); try reflexivity. rewrite try_get_sq. destruct (try_get (spool sy)) as [p' r].
    destruct r; reflexivity.
  - destruct (swait sy w); reflexivity.
  - destruct (swait sy w) as [|g| |]; try reflexivity.
    change (chan_closed (set_queue (spool sy) q) g) with (chan_closed (spool sy) g).
    destruct (chan_closed (spool sy) g); reflexivity.
  - destruct (swait sy w); reflexivity.
Qed.

(** they leave the queue alone, keep the ttl and do not turn the clock back *)
Lemma step_free sy e : free_ev e ->
  pqueue (spool (step sy e)) = pqueue (spool sy) /\ pttl (spool (step sy e)) = pttl (spool sy) /\
  pnow (spool sy) <= pnow (spool (step sy e)).
Proof.
  intros [Hq He].
  assert (F : forall p', frame (spool sy) p' /\ pqueue p' = pqueue (spool sy) ->
              pqueue p' = pqueue (spool sy) /\ pttl p' = pttl (spool sy) /\ pnow (spool sy) <= pnow p').
  { intros p' [(F1 & F2 & _) Q]. repeat split; [assumption | assumption | lia]. }
  destruct e as [ps|ps| |x| |d| |w|w|w|w]; try discriminate.
  - apply F, remove_frame.
  - rewrite step_tryget. apply F, try_get_frame2.
  - apply F, cleanup_frame.
  - unfold step, step_out. simpl. destruct (spool sy); simpl. repeat split; lia.
  - destruct (step_wtry sy w) as [E|E]; rewrite E; apply F; [split; [apply frame_refl | reflexivity] | apply try_get_frame2].
  - rewrite step_wother by (exists w; auto). apply F. split; [apply frame_refl | reflexivity].
  - rewrite step_wother by (exists w; auto). apply F. split; [apply frame_refl | reflexivity].
  - rewrite step_wother by (exists w; auto). apply F. split; [apply frame_refl | reflexivity].
Qed.

Lemma expired_mono s s' c : pttl s' = pttl s -> pnow s <= pnow s' -> expired s c = true -> expired s' c = true.
Proof.
  unfold expired. intros T Hn H. apply negb_true_iff, N.ltb_ge in H. apply negb_true_iff, N.ltb_ge. rewrite T. lia.
Qed.

(** ** simulation by [Peers.Pool] when the callback runs under the queue mutex *)
Definition pend (t : timer) : list (peer * N) := match t with TmCall it => [it] | _ => [] end.

(** the pool with the popped item back in front of the queue *)
Definition vpool (s : qsys) : pool := set_queue (spool (q_sys s)) (pend (q_tm s) ++ pqueue (spool (q_sys s))).
Definition absq (s : qsys) : sys := mkSys (vpool s) (swait (q_sys s)).

Definition tm_ok (s : qsys) : Prop :=
  match q_tm s with
  | TmIdle => True
  | TmScan acc => acc = []
  | TmCall (_, c) => expired (spool (q_sys s)) c = true
  | TmOut _ => False
  end.

(** the [Peers.Pool] events a finer event amounts to *)
Definition cev (s : qsys) (e : qev) : list ev :=
  match e with
  | QE e0 => if is_expire e0 || (needs_queue e0 && holds_queue (q_tm s)) then [] else [e0]
  | QCall => match q_tm s with TmCall _ => [EExpire] | _ => [] end
  | _ => []
  end.

Lemma absq_idle sy : absq (mkQ sy TmIdle) = sy.
Proof. unfold absq, vpool. simpl. rewrite set_queue_id. apply sys_eta. Qed.

Lemma sim_step s e : tm_ok s -> absq (qstep true s e) = run step (absq s) (cev s e) /\ tm_ok (qstep true s e).
Proof.
  intro J. destruct s as [sy tm]. unfold qstep. destruct e as [e0| | |]; cbn [qstep_out cev q_tm q_sys].
  - (* an event of Peers.Pool *)
    destruct (is_expire e0) eqn:He; [simpl; auto|]. simpl orb.
    destruct (needs_queue e0) eqn:Hq.
    + (* add / putOnCooldown: enabled only when the timer does not hold the queue mutex, i.e. is idle *)
      destruct (holds_queue tm) eqn:Hh; [simpl; auto|]. simpl.
      destruct tm as [|acc|it|acc]; try discriminate; [|contradiction].
      split; [|exact I]. rewrite !absq_idle. reflexivity.
    + simpl andb. cbn [fst snd]. assert (Fr : free_ev e0) by (split; assumption).
      destruct (step_free sy e0 Fr) as (Q & T & Hn). fold (step sy e0). split.
      * unfold absq, vpool. simpl. rewrite Q. rewrite (step_sq sy _ e0 Fr). reflexivity.
      * unfold tm_ok in *. simpl in *. destruct tm as [|acc|[x c]|acc]; auto. eapply expired_mono; eassumption.
  - (* QLock *)
    destruct tm; simpl; auto. split; [|reflexivity]. reflexivity.
  - (* QPop *)
    destruct tm as [|acc|it|acc]; simpl; auto. unfold tm_ok in J. simpl in J. subst acc.
    destruct (pqueue (spool sy)) as [|[x c] q'] eqn:Q.
    + simpl. split; [|exact I]. unfold absq, vpool. simpl. rewrite Q. reflexivity.
    + destruct (expired (spool sy) c) eqn:Ex; simpl.
      * split; [|unfold tm_ok; simpl; exact Ex]. unfold absq, vpool. simpl. rewrite Q. reflexivity.
      * split; [|exact I]. unfold absq, vpool. simpl. rewrite Q. reflexivity.
  - (* QCall *)
    destruct tm as [|acc|[x c]|acc]; simpl; auto; [|contradiction].
    unfold tm_ok in J. simpl in J. split; [|reflexivity].
    unfold absq, vpool, step, step_out. simpl. rewrite set_queue_id.
    unfold expire1. simpl. rewrite expired_sq, J.
    change (set_queue (set_queue (spool sy) ((x, c) :: pqueue (spool sy))) (pqueue (spool sy)))
      with (set_queue (spool sy) (pqueue (spool sy))).
    rewrite set_queue_id. reflexivity.
Qed.

Fixpoint coarsen (s : qsys) (es : list qev) : list ev :=
  match es with
  | [] => []
  | e :: es' => cev s e ++ coarsen (qstep true s e) es'
  end.

Lemma sim_run es : forall s, tm_ok s ->
  absq (qrun true s es) = run step (absq s) (coarsen s es) /\ tm_ok (qrun true s es).
Proof.
  induction es as [|e es IH]; intros s J; [split; [reflexivity | exact J]|].
  destruct (sim_step s e J) as [E J']. destruct (IH _ J') as [E2 J2]. simpl.
  split; [|exact J2]. unfold qrun in *. rewrite E2, run_app, E. reflexivity.
Qed.

Lemma cooldown_times_app l1 : forall s l2 x,
  cooldown_times s (l1 ++ l2) x = cooldown_times s l1 x ++ cooldown_times (run step s l1) l2 x.
Proof.
  induction l1 as [|e l1 IH]; intros s l2 x; [reflexivity|]. simpl. rewrite IH, app_assoc. reflexivity.
Qed.

Lemma qcooldown_coarsen es : forall s x, tm_ok s ->
  qcooldown_times true s es x = cooldown_times (absq s) (coarsen s es) x.
Proof.
  induction es as [|e es IH]; intros s x J; [reflexivity|].
  destruct (sim_step s e J) as [E J']. cbn [qcooldown_times coarsen].
  rewrite cooldown_times_app, <- E, <- (IH _ x J'). f_equal.
  destruct e as [e0| | |]; cbn [cev]; try reflexivity.
  - destruct (is_expire e0) eqn:He; [destruct e0; try discriminate; reflexivity|]. simpl orb.
    destruct (needs_queue e0 && holds_queue (q_tm s)) eqn:B.
    + destruct e0; try reflexivity. simpl in B. rewrite B. reflexivity.
    + destruct e0; try reflexivity. simpl in B. rewrite B. simpl. rewrite app_nil_r. reflexivity.
  - destruct (q_tm s); reflexivity.
Qed.

(** cooldown_respected for the finer model: in every interleaving of the timer's critical sections (lock, scan
    iteration, callback) with the other calls, a peer offered by tryGet has no cool-down younger than ttl *)
Theorem fine_cooldown_respected : forall ttl es x t,
  let s := qrun true (qinit ttl) es in
  snd (try_get (spool (q_sys s))) = GSome x -> In t (qcooldown_times true (qinit ttl) es x) ->
  t + ttl <= pnow (spool (q_sys s)).
Proof.
  intros ttl es x t s Hget Hin.
  destruct (sim_run es (qinit ttl) I) as [E _]. fold s in E.
  rewrite (qcooldown_coarsen es (qinit ttl) x I) in Hin.
  change (absq (qinit ttl)) with (init ttl) in *.
  pose proof (cooldown_respected ttl (coarsen (qinit ttl) es) x t) as H. cbv zeta in H. rewrite <- E in H.
  unfold absq in H. simpl in H. unfold vpool in H. rewrite try_get_sq in H. simpl in H. apply H; assumption.
Qed.

(** ... and the pool still counts its peers correctly in every such interleaving *)
Theorem fine_pool_count_inv : forall ttl es,
  let s := spool (q_sys (qrun true (qinit ttl) es)) in
  pcount s = Z.of_nat (nact (pstat s) (plist s)) /\ NoDup (plist s) /\
  (forall p, In p (plist s) <-> pstat s p <> None) /\ phas s = (0 <? pcount s)%Z.
Proof.
  intros ttl es. destruct (sim_run es (qinit ttl) I) as [E _].
  change (absq (qinit ttl)) with (init ttl) in E.
  pose proof (count_inv ttl (coarsen (qinit ttl) es)) as H. cbv zeta in H. rewrite <- E in H. exact H.
Qed.

(** ** the callback after the unlock: the theorem fails *)
Definition window_history : list qev :=
  [QE (EAdd [0]); QE (ECooldown 0);          (* p0 is put on cool-down at t = 0 *)
   QE (EAdvance 10); QLock; QPop; QPop;        (* t = 10: the timer pops p0's item, ends its scan and unlocks *)
   QE (ERemove [0]); QE (EAdd [0]);            (* disconnect + rediscovery: no pending item, so p0 is active *)
   QE (ECooldown 0);                           (* and put on cool-down again, at t = 10 *)
   QCall].                                     (* the stale callback: status cooldown -> active *)

Theorem cooldown_respected_after_unlock_refuted : exists ttl es x t,
  let s := qrun false (qinit ttl) es in
  snd (try_get (spool (q_sys s))) = GSome x /\ In t (qcooldown_times false (qinit ttl) es x) /\
  ~ (t + ttl <= pnow (spool (q_sys s))).
Proof.
  exists 10, window_history, 0, 10. cbv zeta. split; [vm_compute; reflexivity|].
  split; [vm_compute; right; left; reflexivity|]. vm_compute. intro H. apply H. reflexivity.
Qed.

(** non-vacuity: the same calls against the code under test.  While the callback is due the timer holds the queue
    mutex: remove gets through, add and putOnCooldown are not enabled until the scan has ended; the second cool-down
    then starts from an active peer and lasts its full ttl. *)
Definition window_history_locked : list qev :=
  [QE (EAdd [0]); QE (ECooldown 0); QE (EAdvance 10); QLock; QPop;
   QE (ERemove [0]); QE (EAdd [0]); QE (ECooldown 0);     (* remove runs; add / putOnCooldown wait for the queue mutex *)
   QCall; QPop;
   QE (EAdd [0]); QE (ECooldown 0)].

Example fine_pool_nonvacuous :
  let s := qrun true (qinit 10) window_history_locked in
  qcooldown_times true (qinit 10) window_history_locked 0 = [0; 10] /\
  snd (try_get (spool (q_sys s))) = GNone /\ pstat (spool (q_sys s)) 0 = Some Cooldown /\ q_tm s = TmIdle /\
  snd (try_get (spool (q_sys (qrun true s [QE (EAdvance 10); QLock; QPop; QCall; QPop])))) = GSome 0.
Proof. vm_compute. repeat split; reflexivity. Qed.

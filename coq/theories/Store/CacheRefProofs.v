(** C08 (b) — proofs about level 1 of Store/CacheRef.v (the entry protocol in an arbitrary environment).

    For EVERY sequence of level-1 events (any number of goroutines, any interleaving of reference attempts, releases,
    close attempts, waits and timeouts on any number of entries):
      - the reference counter equals the number of goroutines holding a reference (never negative);
      - the done channel is closed exactly while there is no reference, so close(done) never panics;
      - Close() of the wrapped accessor is called at most once per entry;
      - it is called with no reference outstanding, unless the timeout fired for that entry;
      - hence a goroutine holding a reference reads an accessor that is not closed (unless the timeout fired);
      - no reference is handed out after isClosed;
      - a closer waits only while somebody holds a reference. *)
From Coq Require Import List ZArith NArith Bool Arith Lia.
From CN Require Import Base.Lts Store.CacheRef.
Import ListNotations.
Open Scope Z_scope.
Local Arguments Z.add : simpl never.
Local Arguments Z.sub : simpl never.
Local Arguments Z.of_nat : simpl never.
Local Arguments Z.leb : simpl never.
Local Arguments Z.eqb : simpl never.

(** * list update and counting *)

Lemma upd_length {A} (l : list A) i x : length (upd l i x) = length l.
Proof. revert i. induction l as [|y l IH]; intros [|i]; simpl; auto. Qed.

Lemma nth_error_upd_eq {A} (l : list A) i x y : nth_error l i = Some y -> nth_error (upd l i x) i = Some x.
Proof. revert i. induction l as [|z l IH]; intros [|i] H; simpl in *; try discriminate; auto. Qed.

Lemma nth_error_upd_ne {A} (l : list A) i j x : i <> j -> nth_error (upd l i x) j = nth_error l j.
Proof.
  revert i j. induction l as [|z l IH]; intros [|i] [|j] H; simpl; auto; try congruence.
Qed.

Lemma nth_error_upd {A} (l : list A) i j x :
  nth_error (upd l i x) j = if Nat.eqb i j then (match nth_error l i with Some _ => Some x | None => None end) else nth_error l j.
Proof.
  destruct (Nat.eqb_spec i j) as [->|Hne].
  - destruct (nth_error l j) eqn:E.
    + eapply nth_error_upd_eq; eassumption.
    + apply nth_error_None. rewrite upd_length. apply nth_error_None. assumption.
  - apply nth_error_upd_ne; assumption.
Qed.

Lemma nth_error_app_last {A} (l : list A) x : nth_error (l ++ [x]) (length l) = Some x.
Proof. rewrite nth_error_app2 by lia. rewrite Nat.sub_diag. reflexivity. Qed.

Lemma nth_error_snoc {A} (l : list A) x j y :
  nth_error (l ++ [x]) j = Some y -> nth_error l j = Some y \/ (j = length l /\ y = x).
Proof.
  intro H. destruct (Nat.lt_ge_cases j (length l)) as [Hlt|Hge].
  - rewrite nth_error_app1 in H by assumption. left. assumption.
  - rewrite nth_error_app2 in H by assumption.
    destruct (j - length l)%nat as [|k] eqn:E; simpl in H.
    + inversion H; subst. right. split; [lia | reflexivity].
    + destruct k; discriminate.
Qed.

Definition b2z (b : bool) : Z := if b then 1 else 0.

Fixpoint cnt {A} (P : A -> bool) (l : list A) : Z :=
  match l with [] => 0 | x :: l' => b2z (P x) + cnt P l' end.

Lemma cnt_nonneg {A} (P : A -> bool) l : 0 <= cnt P l.
Proof. induction l as [|x l IH]; simpl; [lia|]. destruct (P x); simpl; lia. Qed.

Lemma cnt_upd {A} (P : A -> bool) l i x y :
  nth_error l i = Some y -> cnt P (upd l i x) = cnt P l - b2z (P y) + b2z (P x).
Proof.
  revert i. induction l as [|z l IH]; intros [|i] H; simpl in *; try discriminate.
  - inversion H; subst. lia.
  - rewrite (IH i H). lia.
Qed.

Lemma cnt_app {A} (P : A -> bool) l l' : cnt P (l ++ l') = cnt P l + cnt P l'.
Proof. induction l as [|x l IH]; simpl; [lia|]. rewrite IH. lia. Qed.

Lemma cnt_ge1 {A} (P : A -> bool) l i y : nth_error l i = Some y -> P y = true -> 1 <= cnt P l.
Proof.
  revert i. induction l as [|z l IH]; intros [|i] H Hp; simpl in *; try discriminate.
  - inversion H; subst. rewrite Hp. pose proof (cnt_nonneg P l). simpl. lia.
  - specialize (IH i H Hp). destruct (P z); simpl; lia.
Qed.

Lemma cnt_zero {A} (P : A -> bool) l i y : cnt P l = 0 -> nth_error l i = Some y -> P y = false.
Proof.
  intros Hc Hn. destruct (P y) eqn:E; [|reflexivity].
  pose proof (cnt_ge1 P l i y Hn E). lia.
Qed.

Lemma cnt_repeat {A} (P : A -> bool) x n : P x = false -> cnt P (repeat x n) = 0.
Proof. intro H. induction n; simpl; [reflexivity|]. rewrite H, IHn. reflexivity. Qed.

(** * the invariant *)

Definition holdsb (e : nat) (p : pc1) : bool := match p with Hold e' => Nat.eqb e' e | _ => false end.
Definition waitsb (e : nat) (p : pc1) : bool := match p with Wait e' _ => Nat.eqb e' e | _ => false end.

Record einv (th : list pc1) (e : nat) (x : entry) : Prop := mkEinv {
  i_refs : refs x = cnt (holdsb e) th;
  i_gen : (0 < gen x)%nat;
  i_dcl : dclosed x = true <-> refs x = 0;
  i_open : isclosed x = false -> cnt (waitsb e) th = 0 /\ closes x = 0%nat /\ forced x = false;
  i_closed : isclosed x = true -> cnt (waitsb e) th + Z.of_nat (closes x) = 1;
  i_quiet : closes x = 1%nat -> forced x = false -> refs x = 0
}.

Definition Inv1 (s : st1) : Prop :=
  (forall e x, nth_error (ents s) e = Some x -> einv (thr s) e x) /\
  (forall t e g, nth_error (thr s) t = Some (Wait e g) ->
     exists x, nth_error (ents s) e = Some x /\ g = gen x /\ isclosed x = true) /\
  (forall t e, nth_error (thr s) t = Some (Hold e) -> (e < length (ents s))%nat) /\
  panics s = 0%nat.

Lemma einv_frame th t p p' e x :
  nth_error th t = Some p -> holdsb e p = holdsb e p' -> waitsb e p = waitsb e p' ->
  einv th e x -> einv (upd th t p') e x.
Proof.
  intros Ht Hh Hw [H1 H2 H3 H4 H5 H6].
  constructor; auto.
  - rewrite (cnt_upd _ _ _ _ _ Ht), <- Hh. lia.
  - intro Hc. rewrite (cnt_upd _ _ _ _ _ Ht), <- Hw. destruct (H4 Hc) as [A [B C]]. repeat split; auto; lia.
  - intro Hc. rewrite (cnt_upd _ _ _ _ _ Ht), <- Hw. specialize (H5 Hc). lia.
Qed.

Lemma einv_snoc th p e x : holdsb e p = false -> waitsb e p = false -> einv th e x -> einv (th ++ [p]) e x.
Proof.
  intros Hh Hw [H1 H2 H3 H4 H5 H6].
  constructor; auto; rewrite ?cnt_app; simpl; rewrite ?Hh, ?Hw; simpl.
  - lia.
  - intro Hc. destruct (H4 Hc) as [A [B C]]. repeat split; auto; lia.
  - intro Hc. specialize (H5 Hc). lia.
Qed.

Lemma einv_addref th t i x x' :
  nth_error th t = Some Idle -> einv th i x -> add_ref x = Some x' -> einv (upd th t (Hold i)) i x'.
Proof.
  intros Ht [H1 H2 H3 H4 H5 H6] Ha. unfold add_ref in Ha.
  destruct (isclosed x) eqn:Hc; [discriminate|].
  destruct (H4 eq_refl) as [W0 [C0 F0]].
  pose proof (cnt_nonneg (holdsb i) th) as Hnn.
  assert (Hcu : cnt (holdsb i) (upd th t (Hold i)) = cnt (holdsb i) th + 1).
  { rewrite (cnt_upd _ _ _ _ _ Ht). simpl. rewrite Nat.eqb_refl. unfold b2z. lia. }
  assert (Hwu : cnt (waitsb i) (upd th t (Hold i)) = cnt (waitsb i) th).
  { rewrite (cnt_upd _ _ _ _ _ Ht). simpl. unfold b2z. lia. }
  destruct (refs x + 1 =? 1) eqn:E1; inversion Ha; subst x'; clear Ha;
    [apply Z.eqb_eq in E1 | apply Z.eqb_neq in E1]; constructor; simpl; rewrite ?Hcu, ?Hwu.
  - lia.
  - lia.
  - split; intro; [discriminate|lia].
  - intros _. repeat split; auto.
  - try rewrite Hc; discriminate.
  - rewrite C0. discriminate.
  - lia.
  - assumption.
  - split; intro A; [apply H3 in A; lia | lia].
  - intros _. repeat split; auto.
  - try rewrite Hc; discriminate.
  - rewrite C0. discriminate.
Qed.

Lemma einv_release th t i x :
  nth_error th t = Some (Hold i) -> einv th i x ->
  snd (remove_ref x) = false /\ einv (upd th t Idle) i (fst (remove_ref x)).
Proof.
  intros Ht [H1 H2 H3 H4 H5 H6].
  assert (Hge : 1 <= refs x).
  { rewrite H1. eapply cnt_ge1; [exact Ht|]. simpl. apply Nat.eqb_refl. }
  assert (Hdc : dclosed x = false).
  { destruct (dclosed x) eqn:E; [|reflexivity]. assert (refs x = 0) by (apply H3; reflexivity). lia. }
  assert (Hg0 : Nat.eqb (gen x) 0 = false) by (apply Nat.eqb_neq; lia).
  assert (Hcu : cnt (holdsb i) (upd th t Idle) = cnt (holdsb i) th - 1).
  { rewrite (cnt_upd _ _ _ _ _ Ht). simpl. rewrite Nat.eqb_refl. unfold b2z. lia. }
  assert (Hwu : cnt (waitsb i) (upd th t Idle) = cnt (waitsb i) th).
  { rewrite (cnt_upd _ _ _ _ _ Ht). simpl. unfold b2z. lia. }
  assert (Hq : closes x = 1%nat -> forced x = false -> False).
  { intros A B. specialize (H6 A B). lia. }
  unfold remove_ref. rewrite Hdc, Hg0. simpl.
  destruct (refs x - 1 <=? 0) eqn:E0; simpl; (split; [reflexivity|]);
    [apply Z.leb_le in E0 | apply Z.leb_gt in E0]; constructor; simpl; rewrite ?Hcu, ?Hwu.
  - lia.
  - assumption.
  - split; intro; [lia|reflexivity].
  - assumption.
  - assumption.
  - intros; lia.
  - lia.
  - assumption.
  - split; intro A; [congruence|lia].
  - assumption.
  - assumption.
  - intros A B. exfalso. auto.
Qed.

Lemma einv_close1 th t i x :
  nth_error th t = Some Idle -> einv th i x -> isclosed x = false ->
  einv (upd th t (Wait i (gen x))) i (set_closed x).
Proof.
  intros Ht [H1 H2 H3 H4 H5 H6] Hc.
  destruct (H4 Hc) as [W0 [C0 F0]].
  assert (Hcu : cnt (holdsb i) (upd th t (Wait i (gen x))) = cnt (holdsb i) th).
  { rewrite (cnt_upd _ _ _ _ _ Ht). simpl. unfold b2z. lia. }
  assert (Hwu : cnt (waitsb i) (upd th t (Wait i (gen x))) = cnt (waitsb i) th + 1).
  { rewrite (cnt_upd _ _ _ _ _ Ht). simpl. rewrite Nat.eqb_refl. unfold b2z. lia. }
  constructor; simpl; rewrite ?Hcu, ?Hwu.
  - assumption.
  - assumption.
  - assumption.
  - discriminate.
  - intros _. rewrite C0. lia.
  - rewrite C0. discriminate.
Qed.

Lemma einv_doclose th t i g x tmo :
  nth_error th t = Some (Wait i g) -> einv th i x -> isclosed x = true -> (tmo = false -> refs x = 0) ->
  closes x = 0%nat /\ einv (upd th t Idle) i (do_close x tmo).
Proof.
  intros Ht [H1 H2 H3 H4 H5 H6] Hc Hr.
  assert (Hw1 : 1 <= cnt (waitsb i) th) by (eapply cnt_ge1; [exact Ht | simpl; apply Nat.eqb_refl]).
  specialize (H5 Hc).
  assert (Hcl0 : closes x = 0%nat) by lia.
  assert (Hcu : cnt (holdsb i) (upd th t Idle) = cnt (holdsb i) th).
  { rewrite (cnt_upd _ _ _ _ _ Ht). simpl. unfold b2z. lia. }
  assert (Hwu : cnt (waitsb i) (upd th t Idle) = cnt (waitsb i) th - 1).
  { rewrite (cnt_upd _ _ _ _ _ Ht). simpl. rewrite Nat.eqb_refl. unfold b2z. lia. }
  split; [assumption|].
  constructor; simpl; rewrite ?Hcu, ?Hwu.
  - assumption.
  - assumption.
  - assumption.
  - intro A. congruence.
  - intros _. rewrite Hcl0 in *. lia.
  - intros _ A. destruct tmo; [rewrite orb_true_r in A; discriminate | auto].
Qed.

Lemma cnt_pos_witness {A} (P : A -> bool) l : cnt P l <> 0 -> exists j q, nth_error l j = Some q /\ P q = true.
Proof.
  induction l as [|p l IH]; simpl; intro H; [congruence|].
  destruct (P p) eqn:E.
  - exists 0%nat, p. auto.
  - unfold b2z in H. destruct IH as [j [q [A1 B]]]; [lia|]. exists (S j), q. auto.
Qed.

Lemma einv_new th t n :
  nth_error th t = Some Idle -> cnt (holdsb n) th = 0 -> cnt (waitsb n) th = 0 ->
  einv (upd th t (Hold n)) n fresh.
Proof.
  intros Ht Hc0 Hw0.
  constructor; simpl; rewrite ?(cnt_upd _ _ _ _ _ Ht); simpl; rewrite ?Nat.eqb_refl; unfold b2z.
  - lia.
  - lia.
  - split; intro; [discriminate|lia].
  - intros _. repeat split; lia.
  - discriminate.
  - discriminate.
Qed.

Lemma init1_inv n : Inv1 (init1 n).
Proof.
  unfold Inv1, init1; simpl. split; [|split; [|split]].
  - intros e x H. destruct e; discriminate.
  - intros t e g H. apply nth_error_In in H. apply repeat_spec in H. discriminate.
  - intros t e H. apply nth_error_In in H. apply repeat_spec in H. discriminate.
  - reflexivity.
Qed.

Lemma neqb_false a b : a <> b -> Nat.eqb a b = false.
Proof. intro H. apply Nat.eqb_neq. assumption. Qed.

(** the thread table after [upd] *)
Lemma thr_upd_cases {A} (th : list A) t p j q :
  nth_error (upd th t p) j = Some q -> (j = t /\ q = p) \/ (j <> t /\ nth_error th j = Some q).
Proof.
  intro H. destruct (Nat.eq_dec t j) as [->|Hne].
  - left. destruct (nth_error th j) eqn:E.
    + rewrite (nth_error_upd_eq _ _ _ _ E) in H. inversion H. auto.
    + assert (nth_error (upd th j p) j = None) by (apply nth_error_None; rewrite upd_length; apply nth_error_None; assumption).
      congruence.
  - right. rewrite nth_error_upd_ne in H by assumption. split; [congruence|assumption].
Qed.

Definition only_on (i : nat) (p : pc1) : Prop :=
  match p with Idle => True | Hold e => e = i | Wait e _ => e = i end.

Lemma only_on_other i p e : only_on i p -> e <> i -> holdsb e p = false /\ waitsb e p = false.
Proof.
  intros H Hne. destruct p; simpl in *; auto; subst; rewrite neqb_false by congruence; auto.
Qed.

(** goroutine [t] moves from [p] to [p'] and entry [i] from [x] to [x'], nothing else changes *)
Lemma inv_update s t p p' i x x' pn :
  Inv1 s -> nth_error (thr s) t = Some p -> nth_error (ents s) i = Some x ->
  only_on i p -> only_on i p' ->
  einv (upd (thr s) t p') i x' ->
  (isclosed x = true -> isclosed x' = true /\ gen x' = gen x) ->
  (forall g', p' = Wait i g' -> g' = gen x' /\ isclosed x' = true) ->
  pn = panics s ->
  Inv1 (mkSt1 (upd (ents s) i x') (upd (thr s) t p') pn).
Proof.
  intros [Hall [Hwait [Hhold Hpan]]] Ht Hi Hp Hp' Hnew Hsticky Hw' ->.
  unfold Inv1; simpl. split; [|split; [|split]].
  - intros e y. destruct (Nat.eq_dec i e) as [<-|Hne].
    + rewrite (nth_error_upd_eq _ _ _ _ Hi). intro Hy. inversion Hy; subst y. exact Hnew.
    + rewrite nth_error_upd_ne by assumption. intro Hy.
      destruct (only_on_other i p e Hp) as [A1 A2]; [congruence|].
      destruct (only_on_other i p' e Hp') as [B1 B2]; [congruence|].
      eapply einv_frame; [exact Ht | congruence | congruence | apply Hall; exact Hy].
  - intros j e g Hj. apply thr_upd_cases in Hj. destruct Hj as [[_ Hq]|[_ Hj]].
    + subst p'. simpl in Hp'. subst e. destruct (Hw' g eq_refl) as [A B].
      exists x'. rewrite (nth_error_upd_eq _ _ _ _ Hi). auto.
    + destruct (Hwait j e g Hj) as [y [Hy [Hg Hcl]]].
      destruct (Nat.eq_dec i e) as [<-|Hne].
      * rewrite Hi in Hy. inversion Hy; subst y. destruct (Hsticky Hcl) as [A B].
        exists x'. rewrite (nth_error_upd_eq _ _ _ _ Hi). split; [reflexivity|]. split; congruence.
      * exists y. rewrite nth_error_upd_ne by assumption. auto.
  - intros j e Hj. rewrite upd_length. apply thr_upd_cases in Hj. destruct Hj as [[_ Hq]|[_ Hj]].
    + subst p'. simpl in Hp'. subst e. apply nth_error_Some. congruence.
    + eapply Hhold; eassumption.
  - assumption.
Qed.

Theorem step1_inv s ev : Inv1 s -> Inv1 (step1 s ev).
Proof.
  intros Hinv. pose proof Hinv as [Hall [Hwait [Hhold Hpan]]].
  destruct ev as [t|t i|t|t i|t|t|]; simpl.
  - (* ENew *)
    destruct (nth_error (thr s) t) as [[| |]|] eqn:Ht; try exact Hinv.
    assert (Hc0 : cnt (holdsb (length (ents s))) (thr s) = 0).
    { destruct (Z.eq_dec (cnt (holdsb (length (ents s))) (thr s)) 0) as [|Hn]; [assumption|exfalso].
      destruct (cnt_pos_witness _ _ Hn) as [j [q [Hj Hq]]].
      destruct q; simpl in Hq; try discriminate. apply Nat.eqb_eq in Hq; subst.
      specialize (Hhold j _ Hj). lia. }
    assert (Hw0 : cnt (waitsb (length (ents s))) (thr s) = 0).
    { destruct (Z.eq_dec (cnt (waitsb (length (ents s))) (thr s)) 0) as [|Hn]; [assumption|exfalso].
      destruct (cnt_pos_witness _ _ Hn) as [j [q [Hj Hq]]].
      destruct q; simpl in Hq; try discriminate. apply Nat.eqb_eq in Hq; subst.
      destruct (Hwait j _ _ Hj) as [x [Hx _]].
      assert (length (ents s) < length (ents s))%nat by (apply nth_error_Some; congruence). lia. }
    unfold Inv1; simpl. split; [|split; [|split]].
    + intros e x Hx. apply nth_error_snoc in Hx. destruct Hx as [Hx|[-> ->]].
      * assert (e < length (ents s))%nat by (apply nth_error_Some; congruence).
        eapply einv_frame; [exact Ht | simpl; rewrite neqb_false by lia; reflexivity | reflexivity | apply Hall; exact Hx].
      * apply einv_new; assumption.
    + intros j e g Hj. apply thr_upd_cases in Hj. destruct Hj as [[_ Hq]|[_ Hj]]; [discriminate|].
      destruct (Hwait j e g Hj) as [x [Hx Hr]]. exists x. split; [|exact Hr].
      rewrite nth_error_app1; [assumption | apply nth_error_Some; congruence].
    + intros j e Hj. rewrite app_length. simpl. apply thr_upd_cases in Hj. destruct Hj as [[_ Hq]|[_ Hj]].
      * inversion Hq. lia.
      * specialize (Hhold j e Hj). lia.
    + assumption.
  - (* EAddRef *)
    destruct (nth_error (thr s) t) as [[| |]|] eqn:Ht; try exact Hinv.
    destruct (nth_error (ents s) i) as [x|] eqn:Hi; try exact Hinv.
    destruct (add_ref x) as [x'|] eqn:Ha; try exact Hinv.
    eapply inv_update; try eassumption; simpl; auto.
    + eapply einv_addref; eauto.
    + intro Hc. unfold add_ref in Ha. rewrite Hc in Ha. discriminate.
    + intros; discriminate.
  - (* ERelease *)
    destruct (nth_error (thr s) t) as [[|i|]|] eqn:Ht; try exact Hinv.
    destruct (nth_error (ents s) i) as [x|] eqn:Hi; try exact Hinv.
    destruct (einv_release _ _ _ _ Ht (Hall i x Hi)) as [Hp He].
    destruct (remove_ref x) as [x' p] eqn:Hr. simpl in Hp, He. subst p.
    eapply inv_update; try eassumption; simpl; auto.
    + intro Hc. unfold remove_ref in Hr.
      destruct (refs x - 1 <=? 0); [destruct (dclosed x || Nat.eqb (gen x) 0)|]; inversion Hr; subst x'; simpl; auto.
    + intros; discriminate.
  - (* EClose1 *)
    destruct (nth_error (thr s) t) as [[| |]|] eqn:Ht; try exact Hinv.
    destruct (nth_error (ents s) i) as [x|] eqn:Hi; try exact Hinv.
    destruct (isclosed x) eqn:Hc; try exact Hinv.
    eapply inv_update; try eassumption; simpl; auto.
    + apply einv_close1; auto.
    + intros g' Hg. inversion Hg. auto.
  - (* EWait *)
    destruct (nth_error (thr s) t) as [[| |i g]|] eqn:Ht; try exact Hinv.
    destruct (nth_error (ents s) i) as [x|] eqn:Hi; try exact Hinv.
    destruct (done_closed x g) eqn:Hd; try exact Hinv.
    destruct (Hwait t i g Ht) as [x0 [Hx0 [Hg Hc]]]. rewrite Hi in Hx0. inversion Hx0; subst x0. clear Hx0.
    assert (Hr0 : refs x = 0).
    { destruct (Hall i x Hi) as [_ _ H3 _ _ _].
      unfold done_closed in Hd. apply andb_true_iff in Hd. destruct Hd as [_ Hd]. apply orb_true_iff in Hd.
      destruct Hd as [Hd|Hd]; [apply Nat.ltb_lt in Hd; lia|]. apply andb_true_iff in Hd. destruct Hd as [_ Hd].
      apply H3. assumption. }
    destruct (einv_doclose _ _ _ _ _ false Ht (Hall i x Hi) Hc (fun _ => Hr0)) as [_ He].
    eapply inv_update; try eassumption; simpl; auto.
    intros; discriminate.
  - (* ETimeout *)
    destruct (nth_error (thr s) t) as [[| |i g]|] eqn:Ht; try exact Hinv.
    destruct (nth_error (ents s) i) as [x|] eqn:Hi; try exact Hinv.
    destruct (Hwait t i g Ht) as [x0 [Hx0 [Hg Hc]]]. rewrite Hi in Hx0. inversion Hx0; subst x0. clear Hx0.
    assert (Hf : true = false -> refs x = 0) by discriminate.
    destruct (einv_doclose _ _ _ _ _ true Ht (Hall i x Hi) Hc Hf) as [_ He].
    eapply inv_update; try eassumption; simpl; auto.
    intros; discriminate.
  - (* ESpawn *)
    unfold Inv1; simpl. split; [|split; [|split]].
    + intros e x Hx. apply einv_snoc; [reflexivity|reflexivity|]. apply Hall. assumption.
    + intros j e g Hj. apply nth_error_snoc in Hj. destruct Hj as [Hj|[_ Hq]]; [|discriminate]. eapply Hwait; eassumption.
    + intros j e Hj. apply nth_error_snoc in Hj. destruct Hj as [Hj|[_ Hq]]; [|discriminate]. eapply Hhold; eassumption.
    + assumption.
Qed.

Theorem reach1_inv n es : Inv1 (run step1 (init1 n) es).
Proof. apply run_inv; [intros; apply step1_inv; assumption | apply init1_inv]. Qed.

(** * consequences, for every reachable state *)

Section Reach.
  Variables (n : nat) (es : list ev1).
  Notation s := (run step1 (init1 n) es).

  Theorem refs_count e x : nth_error (ents s) e = Some x ->
    refs x = cnt (holdsb e) (thr s) /\ 0 <= refs x.
  Proof.
    intro H. destruct (reach1_inv n es) as [Hall _]. destruct (Hall e x H) as [H1 _ _ _ _ _].
    split; [exact H1|]. rewrite H1. apply cnt_nonneg.
  Qed.

  Theorem close_at_most_once e x : nth_error (ents s) e = Some x -> (closes x <= 1)%nat.
  Proof.
    intro H. destruct (reach1_inv n es) as [Hall _]. destruct (Hall e x H) as [_ _ _ H4 H5 _].
    destruct (isclosed x) eqn:E.
    - specialize (H5 eq_refl). pose proof (cnt_nonneg (waitsb e) (thr s)). lia.
    - destruct (H4 eq_refl) as [_ [C _]]. lia.
  Qed.

  Theorem closed_means_no_refs e x : nth_error (ents s) e = Some x ->
    closes x = 1%nat -> forced x = false -> refs x = 0 /\ forall t, nth_error (thr s) t <> Some (Hold e).
  Proof.
    intros H Hc Hf. destruct (reach1_inv n es) as [Hall _]. destruct (Hall e x H) as [H1 _ _ _ _ H6].
    specialize (H6 Hc Hf). split; [assumption|]. intros t Ht.
    assert (1 <= cnt (holdsb e) (thr s)) by (eapply cnt_ge1; [exact Ht | simpl; apply Nat.eqb_refl]). lia.
  Qed.

  (** a goroutine holding a reference reads an accessor on which Close() has not been called *)
  Theorem holder_reads_open t e : nth_error (thr s) t = Some (Hold e) ->
    exists x, nth_error (ents s) e = Some x /\ (closes x = 0%nat \/ forced x = true) /\ 1 <= refs x.
  Proof.
    intro Ht. destruct (reach1_inv n es) as [Hall [_ [Hhold _]]].
    specialize (Hhold t e Ht). destruct (nth_error (ents s) e) as [x|] eqn:Hx; [|apply nth_error_None in Hx; lia].
    exists x. split; [reflexivity|].
    destruct (Hall e x Hx) as [H1 _ _ _ _ H6].
    assert (Hge : 1 <= refs x) by (rewrite H1; eapply cnt_ge1; [exact Ht | simpl; apply Nat.eqb_refl]).
    split; [|assumption].
    pose proof (close_at_most_once e x Hx) as Hle.
    destruct (closes x) as [|[|k]] eqn:Ec; [left; reflexivity | | lia].
    destruct (forced x) eqn:Ef; [right; reflexivity|]. specialize (H6 eq_refl eq_refl). lia.
  Qed.

  Theorem no_panic : panics s = 0%nat.
  Proof. destruct (reach1_inv n es) as [_ [_ [_ H]]]. exact H. Qed.

  (** the done channel is open exactly while somebody holds a reference *)
  Theorem done_tracks_refs e x : nth_error (ents s) e = Some x -> (dclosed x = true <-> refs x = 0) /\ (0 < gen x)%nat.
  Proof. intro H. destruct (reach1_inv n es) as [Hall _]. destruct (Hall e x H) as [_ H2 H3 _ _ _]. auto. Qed.

  (** a waiting closer is the only one, waits on the entry's current channel, and can go on as soon as there is no
      reference left: nobody waits forever once the readers are gone *)
  Theorem waiter_progress t e g : nth_error (thr s) t = Some (Wait e g) ->
    exists x, nth_error (ents s) e = Some x /\ g = gen x /\ isclosed x = true /\ closes x = 0%nat /\
              cnt (waitsb e) (thr s) = 1 /\ (refs x = 0 -> done_closed x g = true).
  Proof.
    intro Ht. destruct (reach1_inv n es) as [Hall [Hwait _]].
    destruct (Hwait t e g Ht) as [x [Hx [Hg Hc]]]. exists x. repeat split; auto.
    - destruct (Hall e x Hx) as [_ _ _ _ H5 _]. specialize (H5 Hc).
      assert (1 <= cnt (waitsb e) (thr s)) by (eapply cnt_ge1; [exact Ht | simpl; apply Nat.eqb_refl]). lia.
    - destruct (Hall e x Hx) as [_ _ _ _ H5 _]. specialize (H5 Hc).
      assert (1 <= cnt (waitsb e) (thr s)) by (eapply cnt_ge1; [exact Ht | simpl; apply Nat.eqb_refl]). lia.
    - intro Hr. destruct (Hall e x Hx) as [_ H2 H3 _ _ _]. unfold done_closed. subst g.
      assert (dclosed x = true) by (apply H3; assumption).
      rewrite H, Nat.eqb_refl. simpl. rewrite orb_true_r. rewrite andb_true_r. apply Nat.ltb_lt. assumption.
  Qed.
End Reach.

(** * step-level statements: what a single step can do to an entry, in any reachable state *)

(** Close() is called on an entry only by a step that found no reference outstanding — or by the timeout *)
Theorem close_only_without_refs n es ev e x x' :
  let s := run step1 (init1 n) es in
  nth_error (ents s) e = Some x -> nth_error (ents (step1 s ev)) e = Some x' ->
  closes x' <> closes x ->
  closes x = 0%nat /\ closes x' = 1%nat /\
  ((exists t, ev = EWait t) /\ refs x = 0 /\ refs x' = 0 /\ forced x' = forced x
   \/ (exists t, ev = ETimeout t) /\ forced x' = true).
Proof.
  intros s Hx Hx' Hne.
  pose proof (reach1_inv n es) as Hinv. fold s in Hinv.
  pose proof (step1_inv s ev Hinv) as Hinv'.
  assert (Hle' : (closes x' <= 1)%nat).
  { destruct Hinv' as [Hall _]. destruct (Hall e x' Hx') as [_ _ _ H4 H5 _].
    destruct (isclosed x') eqn:E.
    - specialize (H5 eq_refl). pose proof (cnt_nonneg (waitsb e) (thr (step1 s ev))). lia.
    - destruct (H4 eq_refl) as [_ [C _]]. lia. }
  destruct Hinv as [Hall [Hwait _]].
  destruct ev as [t|t i|t|t i|t|t|]; simpl in Hx'.
  - destruct (nth_error (thr s) t) as [[| |]|]; simpl in Hx'; try congruence.
    rewrite nth_error_app1 in Hx' by (apply nth_error_Some; congruence). congruence.
  - destruct (nth_error (thr s) t) as [[| |]|]; try congruence.
    destruct (nth_error (ents s) i) as [y|] eqn:Hi; try congruence.
    unfold add_ref in Hx'. destruct (isclosed y); try congruence. simpl in Hx'.
    destruct (Nat.eq_dec i e) as [->|Hd].
    + rewrite (nth_error_upd_eq _ _ _ _ Hi) in Hx'. rewrite Hx in Hi. inversion Hi; subst y.
      destruct (refs x + 1 =? 1); inversion Hx'; subst x'; simpl in Hne; congruence.
    + rewrite nth_error_upd_ne in Hx' by assumption. congruence.
  - destruct (nth_error (thr s) t) as [[|i|]|]; try congruence.
    destruct (nth_error (ents s) i) as [y|] eqn:Hi; try congruence.
    destruct (remove_ref y) as [y' p] eqn:Hr. simpl in Hx'.
    destruct (Nat.eq_dec i e) as [->|Hd].
    + rewrite (nth_error_upd_eq _ _ _ _ Hi) in Hx'. rewrite Hx in Hi. inversion Hi; subst y.
      unfold remove_ref in Hr.
      destruct (refs x - 1 <=? 0); [destruct (dclosed x || Nat.eqb (gen x) 0)|]; inversion Hr; subst y'; inversion Hx'; subst x'; simpl in Hne; congruence.
    + rewrite nth_error_upd_ne in Hx' by assumption. congruence.
  - destruct (nth_error (thr s) t) as [[| |]|]; try congruence.
    destruct (nth_error (ents s) i) as [y|] eqn:Hi; try congruence.
    destruct (isclosed y); try congruence. simpl in Hx'.
    destruct (Nat.eq_dec i e) as [->|Hd].
    + rewrite (nth_error_upd_eq _ _ _ _ Hi) in Hx'. rewrite Hx in Hi. inversion Hi; subst y.
      inversion Hx'; subst x'; simpl in Hne; congruence.
    + rewrite nth_error_upd_ne in Hx' by assumption. congruence.
  - destruct (nth_error (thr s) t) as [[| |i g]|] eqn:Ht; try congruence.
    destruct (nth_error (ents s) i) as [y|] eqn:Hi; try congruence.
    destruct (done_closed y g) eqn:Hd; try congruence. simpl in Hx'.
    destruct (Nat.eq_dec i e) as [->|Hd'].
    + rewrite (nth_error_upd_eq _ _ _ _ Hi) in Hx'. rewrite Hx in Hi. inversion Hi; subst y.
      inversion Hx'; subst x'. simpl in *.
      destruct (Hwait t e g Ht) as [x0 [Hx0 [Hg Hc]]]. rewrite Hx in Hx0. inversion Hx0; subst x0.
      destruct (Hall e x Hx) as [_ _ H3 _ _ _].
      assert (refs x = 0).
      { unfold done_closed in Hd. apply andb_true_iff in Hd. destruct Hd as [_ Hd]. apply orb_true_iff in Hd.
        destruct Hd as [Hd|Hd]; [apply Nat.ltb_lt in Hd; lia|]. apply andb_true_iff in Hd. destruct Hd as [_ Hd].
        apply H3. assumption. }
      repeat split; try lia. left. repeat split; eauto. apply orb_false_r.
    + rewrite nth_error_upd_ne in Hx' by assumption. congruence.
  - destruct (nth_error (thr s) t) as [[| |i g]|] eqn:Ht; try congruence.
    destruct (nth_error (ents s) i) as [y|] eqn:Hi; try congruence. simpl in Hx'.
    destruct (Nat.eq_dec i e) as [->|Hd'].
    + rewrite (nth_error_upd_eq _ _ _ _ Hi) in Hx'. rewrite Hx in Hi. inversion Hi; subst y.
      inversion Hx'; subst x'. simpl in *. repeat split; try lia. right. split; [eauto|apply orb_true_r].
    + rewrite nth_error_upd_ne in Hx' by assumption. congruence.
  - simpl in Hx'. congruence.
Qed.

(** a reference is handed out only on an entry whose isClosed is still false; and a step that does not take a
    reference never increases the counter *)
Theorem no_addref_after_closed n es ev e x x' :
  let s := run step1 (init1 n) es in
  nth_error (ents s) e = Some x -> nth_error (ents (step1 s ev)) e = Some x' ->
  refs x < refs x' -> isclosed x = false /\ refs x' = refs x + 1 /\ exists t, ev = EAddRef t e.
Proof.
  intros s Hx Hx' Hlt.
  destruct ev as [t|t i|t|t i|t|t|]; simpl in Hx'.
  - destruct (nth_error (thr s) t) as [[| |]|]; simpl in Hx'; try (rewrite Hx in Hx'; inversion Hx'; subst; lia).
    rewrite nth_error_app1 in Hx' by (apply nth_error_Some; congruence). rewrite Hx in Hx'; inversion Hx'; subst; lia.
  - destruct (nth_error (thr s) t) as [[| |]|]; try (rewrite Hx in Hx'; inversion Hx'; subst; lia).
    destruct (nth_error (ents s) i) as [y|] eqn:Hi; try (rewrite Hx in Hx'; inversion Hx'; subst; lia).
    unfold add_ref in Hx'. destruct (isclosed y) eqn:Hc; try (rewrite Hx in Hx'; inversion Hx'; subst; lia). simpl in Hx'.
    destruct (Nat.eq_dec i e) as [->|Hd].
    + rewrite (nth_error_upd_eq _ _ _ _ Hi) in Hx'. rewrite Hx in Hi. inversion Hi; subst y.
      split; [assumption|]. split; [|eauto].
      destruct (refs x + 1 =? 1); inversion Hx'; subst x'; reflexivity.
    + rewrite nth_error_upd_ne in Hx' by assumption. rewrite Hx in Hx'; inversion Hx'; subst; lia.
  - destruct (nth_error (thr s) t) as [[|i|]|]; try (rewrite Hx in Hx'; inversion Hx'; subst; lia).
    destruct (nth_error (ents s) i) as [y|] eqn:Hi; try (rewrite Hx in Hx'; inversion Hx'; subst; lia).
    destruct (remove_ref y) as [y' p] eqn:Hr. simpl in Hx'.
    destruct (Nat.eq_dec i e) as [->|Hd].
    + rewrite (nth_error_upd_eq _ _ _ _ Hi) in Hx'. rewrite Hx in Hi. inversion Hi; subst y.
      unfold remove_ref in Hr.
      destruct (refs x - 1 <=? 0); [destruct (dclosed x || Nat.eqb (gen x) 0)|]; inversion Hr; subst y'; inversion Hx'; subst x'; simpl in Hlt; lia.
    + rewrite nth_error_upd_ne in Hx' by assumption. rewrite Hx in Hx'; inversion Hx'; subst; lia.
  - destruct (nth_error (thr s) t) as [[| |]|]; try (rewrite Hx in Hx'; inversion Hx'; subst; lia).
    destruct (nth_error (ents s) i) as [y|] eqn:Hi; try (rewrite Hx in Hx'; inversion Hx'; subst; lia).
    destruct (isclosed y); try (rewrite Hx in Hx'; inversion Hx'; subst; lia). simpl in Hx'.
    destruct (Nat.eq_dec i e) as [->|Hd].
    + rewrite (nth_error_upd_eq _ _ _ _ Hi) in Hx'. rewrite Hx in Hi. inversion Hi; subst y.
      inversion Hx'; subst x'; simpl in Hlt; lia.
    + rewrite nth_error_upd_ne in Hx' by assumption. rewrite Hx in Hx'; inversion Hx'; subst; lia.
  - destruct (nth_error (thr s) t) as [[| |i g]|] eqn:Ht; try (rewrite Hx in Hx'; inversion Hx'; subst; lia).
    destruct (nth_error (ents s) i) as [y|] eqn:Hi; try (rewrite Hx in Hx'; inversion Hx'; subst; lia).
    destruct (done_closed y g) eqn:Hd; try (rewrite Hx in Hx'; inversion Hx'; subst; lia). simpl in Hx'.
    destruct (Nat.eq_dec i e) as [->|Hd'].
    + rewrite (nth_error_upd_eq _ _ _ _ Hi) in Hx'. rewrite Hx in Hi. inversion Hi; subst y.
      inversion Hx'; subst x'; simpl in Hlt; lia.
    + rewrite nth_error_upd_ne in Hx' by assumption. rewrite Hx in Hx'; inversion Hx'; subst; lia.
  - destruct (nth_error (thr s) t) as [[| |i g]|] eqn:Ht; try (rewrite Hx in Hx'; inversion Hx'; subst; lia).
    destruct (nth_error (ents s) i) as [y|] eqn:Hi; try (rewrite Hx in Hx'; inversion Hx'; subst; lia). simpl in Hx'.
    destruct (Nat.eq_dec i e) as [->|Hd'].
    + rewrite (nth_error_upd_eq _ _ _ _ Hi) in Hx'. rewrite Hx in Hi. inversion Hi; subst y.
      inversion Hx'; subst x'; simpl in Hlt; lia.
    + rewrite nth_error_upd_ne in Hx' by assumption. rewrite Hx in Hx'; inversion Hx'; subst; lia.
  - simpl in Hx'. rewrite Hx in Hx'; inversion Hx'; subst; lia.
Qed.

(** and isClosed is final *)
Theorem isclosed_sticky s ev e x : nth_error (ents s) e = Some x -> isclosed x = true ->
  exists x', nth_error (ents (step1 s ev)) e = Some x' /\ isclosed x' = true /\ refs x' <= refs x.
Proof.
  intros Hx Hc.
  assert (Hsame : exists x', nth_error (ents s) e = Some x' /\ isclosed x' = true /\ refs x' <= refs x) by (exists x; repeat split; auto; lia).
  destruct ev as [t|t i|t|t i|t|t|]; simpl.
  - destruct (nth_error (thr s) t) as [[| |]|]; simpl; auto.
    rewrite nth_error_app1 by (apply nth_error_Some; congruence). assumption.
  - destruct (nth_error (thr s) t) as [[| |]|]; auto.
    destruct (nth_error (ents s) i) as [y|] eqn:Hi; auto.
    unfold add_ref. destruct (isclosed y) eqn:Hcy; auto. simpl.
    destruct (Nat.eq_dec i e) as [->|Hd]; [congruence|]. rewrite nth_error_upd_ne by assumption. assumption.
  - destruct (nth_error (thr s) t) as [[|i|]|]; auto.
    destruct (nth_error (ents s) i) as [y|] eqn:Hi; auto.
    destruct (remove_ref y) as [y' p] eqn:Hr. simpl.
    destruct (Nat.eq_dec i e) as [->|Hd]; [|rewrite nth_error_upd_ne by assumption; assumption].
    rewrite (nth_error_upd_eq _ _ _ _ Hi). rewrite Hx in Hi. inversion Hi; subst y. exists y'. split; [reflexivity|].
    unfold remove_ref in Hr.
    destruct (refs x - 1 <=? 0); [destruct (dclosed x || Nat.eqb (gen x) 0)|]; inversion Hr; subst y'; simpl; split; auto; lia.
  - destruct (nth_error (thr s) t) as [[| |]|]; auto.
    destruct (nth_error (ents s) i) as [y|] eqn:Hi; auto.
    destruct (isclosed y) eqn:Hcy; auto. simpl.
    destruct (Nat.eq_dec i e) as [->|Hd]; [congruence|]. rewrite nth_error_upd_ne by assumption. assumption.
  - destruct (nth_error (thr s) t) as [[| |i g]|]; auto.
    destruct (nth_error (ents s) i) as [y|] eqn:Hi; auto.
    destruct (done_closed y g); auto. simpl.
    destruct (Nat.eq_dec i e) as [->|Hd]; [|rewrite nth_error_upd_ne by assumption; assumption].
    rewrite (nth_error_upd_eq _ _ _ _ Hi). rewrite Hx in Hi. inversion Hi; subst y. eexists. split; [reflexivity|]. simpl. split; auto; lia.
  - destruct (nth_error (thr s) t) as [[| |i g]|]; auto.
    destruct (nth_error (ents s) i) as [y|] eqn:Hi; auto. simpl.
    destruct (Nat.eq_dec i e) as [->|Hd]; [|rewrite nth_error_upd_ne by assumption; assumption].
    rewrite (nth_error_upd_eq _ _ _ _ Hi). rewrite Hx in Hi. inversion Hi; subst y. eexists. split; [reflexivity|]. simpl. split; auto; lia.
  - assumption.
Qed.

(** * non-vacuity: two readers, a remover that has to wait for both, a late reader that is refused *)
Definition ex_events : list ev1 :=
  [ENew 0; EAddRef 1 0; EClose1 2 0; EWait 2; EAddRef 3 0; ERelease 0; EWait 2; ERelease 1; EWait 2].

Example ex_run :
  let s := run step1 (init1 4) ex_events in
  ents s = [mkE 0 1 true true 1 false] /\ thr s = [Idle; Idle; Idle; Idle] /\ panics s = 0%nat /\
  (* before the last release the closer is still waiting and the accessor is open *)
  let s' := run step1 (init1 4) (firstn 7 ex_events) in
  ents s' = [mkE 1 1 false true 0 false] /\ thr s' = [Idle; Hold 0; Wait 0 1; Idle].
Proof. vm_compute. repeat split; reflexivity. Qed.

(** the timeout is the only way Close() can meet a reader: the forced close is reachable and it is flagged *)
Example ex_forced :
  let s := run step1 (init1 2) [ENew 0; EClose1 1 0; ETimeout 1] in
  ents s = [mkE 1 1 false true 1 true] /\ thr s = [Hold 0; Idle].
Proof. vm_compute. split; reflexivity. Qed.

(** a reference that comes and goes re-creates the channel; the closer captures the latest one *)
Example ex_regen :
  let s := run step1 (init1 2) [ENew 0; ERelease 0; EAddRef 0 0; EClose1 1 0; EWait 1; ERelease 0; EWait 1] in
  ents s = [mkE 0 2 true true 1 false] /\
  thr (run step1 (init1 2) [ENew 0; ERelease 0; EAddRef 0 0; EClose1 1 0; EWait 1]) = [Hold 0; Wait 0 2].
Proof. vm_compute. split; reflexivity. Qed.

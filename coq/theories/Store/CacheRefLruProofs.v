(** C08 (b) — proofs about level 2 of Store/CacheRef.v (the accessor cache: LRU, stripe locks, Get / GetOrLoad / Remove and
    the eviction goroutines).

    1. Refinement: every level-2 step is a sequence of level-1 steps on the same entries ([refine]), so the invariant
       of the entry protocol (CacheRefProofs.v) holds in every reachable state of the cache.
    2. A cache-level invariant ([Inv2]: LRU well formed, every entry accounted for, GetOrLoad only replaces entries that
       are being closed, the stripe write lock is exclusive) gives [no_leak]: once every operation has returned, every
       reference is released and the eviction goroutines have finished, every entry that left the LRU has been closed
       exactly once. *)
From Coq Require Import List ZArith NArith Bool Arith Lia.
From CN Require Import Base.Lts Store.CacheRef Store.CacheRefProofs.
Import ListNotations.
Local Open Scope nat_scope.

Definition wf_lru (l : list (N * nat)) : Prop := NoDup (map fst l) /\ NoDup (map snd l).

Lemma lru_find_in h l i : lru_find h l = Some i -> In (h, i) l.
Proof.
  induction l as [|[k e] l IH]; simpl; [discriminate|].
  destruct (N.eqb_spec k h) as [->|Hne]; intro H.
  - inversion H; subst. left. reflexivity.
  - right. apply IH. assumption.
Qed.

Lemma in_lru_find h l i : NoDup (map fst l) -> In (h, i) l -> lru_find h l = Some i.
Proof.
  induction l as [|[k e] l IH]; simpl; intros Hnd Hin; [contradiction|].
  inversion Hnd as [|? ? Hnotin Hnd']; subst.
  destruct Hin as [Heq|Hin].
  - inversion Heq; subst. rewrite N.eqb_refl. reflexivity.
  - destruct (N.eqb_spec k h) as [->|Hne].
    + exfalso. apply Hnotin. apply in_map_iff. exists (h, i). auto.
    + apply IH; assumption.
Qed.

Lemma lru_find_none h l : lru_find h l = None -> forall i, ~ In (h, i) l.
Proof.
  induction l as [|[k e] l IH]; simpl; intros H i Hin; [contradiction|].
  destruct (N.eqb_spec k h) as [->|Hne]; [discriminate|].
  destruct Hin as [Heq|Hin]; [inversion Heq; congruence | eapply IH; eassumption].
Qed.

Lemma lru_del_in h l k i : In (k, i) (lru_del h l) -> In (k, i) l.
Proof.
  induction l as [|[k' e] l IH]; simpl; [auto|].
  destruct (N.eqb_spec k' h) as [->|Hne]; intro H; [right; assumption|].
  destruct H as [H|H]; [left; assumption | right; apply IH; assumption].
Qed.

Lemma lru_del_key h l k i : NoDup (map fst l) -> In (k, i) (lru_del h l) -> k <> h.
Proof.
  induction l as [|[k' e] l IH]; simpl; intros Hnd H; [contradiction|].
  inversion Hnd as [|? ? Hnotin Hnd']; subst.
  destruct (N.eqb_spec k' h) as [->|Hne].
  - intro; subst. apply Hnotin. apply in_map_iff. exists (h, i). auto.
  - destruct H as [H|H]; [inversion H; subst; assumption | apply IH; assumption].
Qed.

Lemma lru_del_keep h l k i : In (k, i) l -> k <> h -> In (k, i) (lru_del h l).
Proof.
  induction l as [|[k' e] l IH]; simpl; intros H Hne; [contradiction|].
  destruct (N.eqb_spec k' h) as [->|Hne'].
  - destruct H as [H|H]; [inversion H; congruence | assumption].
  - destruct H as [H|H]; [left; assumption | right; apply IH; assumption].
Qed.

Lemma NoDup_map_sub {A B} (f : A -> B) (l l' : list A) :
  NoDup (map f l) -> (forall x, In x l' -> In x l) -> NoDup l' -> (forall x y, In x l -> In y l -> f x = f y -> x = y) -> NoDup (map f l').
Proof.
  intros _ Hsub Hnd Hinj. induction l' as [|a l' IH]; simpl; [constructor|].
  inversion Hnd; subst. constructor.
  - intro Hin. apply in_map_iff in Hin. destruct Hin as [b [Hfb Hb]].
    assert (b = a) by (apply Hinj; auto with datatypes). subst. contradiction.
  - apply IH; auto with datatypes.
Qed.

Lemma lru_del_wf h l : wf_lru l -> wf_lru (lru_del h l).
Proof.
  unfold wf_lru. induction l as [|[k e] l IH]; simpl; intros [H1 H2]; [auto|].
  inversion H1 as [|? ? Hn1 H1']; inversion H2 as [|? ? Hn2 H2']; subst.
  destruct (N.eqb_spec k h) as [->|Hne]; [auto|].
  destruct (IH (conj H1' H2')) as [A B]. simpl. split; constructor; auto.
  - intro Hin. apply Hn1. apply in_map_iff in Hin. destruct Hin as [[k' e'] [E Hin]]. simpl in E; subst.
    apply in_map_iff. exists (k, e'). split; [reflexivity|]. eapply lru_del_in; eassumption.
  - intro Hin. apply Hn2. apply in_map_iff in Hin. destruct Hin as [[k' e'] [E Hin]]. simpl in E; subst.
    apply in_map_iff. exists (k', e). split; [reflexivity|]. eapply lru_del_in; eassumption.
Qed.

Lemma wf_val_inj l k i k' : wf_lru l -> In (k, i) l -> In (k', i) l -> k = k'.
Proof.
  intros [_ H]. induction l as [|[a b] l IH]; simpl; intros H1 H2; [contradiction|].
  simpl in H. inversion H as [|? ? Hn H']; subst.
  destruct H1 as [H1|H1], H2 as [H2|H2].
  - congruence.
  - inversion H1; subst. exfalso. apply Hn. apply in_map_iff. exists (k', i). auto.
  - inversion H2; subst. exfalso. apply Hn. apply in_map_iff. exists (k, i). auto.
  - apply IH; assumption.
Qed.

Lemma wf_key_inj l k i i' : wf_lru l -> In (k, i) l -> In (k, i') l -> i = i'.
Proof.
  intros [H _] H1 H2. pose proof (in_lru_find _ _ _ H H1). pose proof (in_lru_find _ _ _ H H2). congruence.
Qed.

Lemma lru_touch_in h l k i : wf_lru l -> (In (k, i) (lru_touch h l) <-> In (k, i) l).
Proof.
  intros Hwf. unfold lru_touch. destruct (lru_find h l) as [e|] eqn:E; [|tauto].
  pose proof (lru_find_in _ _ _ E) as He. split.
  - intros [H|H]; [inversion H; subst; assumption | eapply lru_del_in; eassumption].
  - intro H. destruct (N.eq_dec k h) as [->|Hne].
    + left. f_equal. eapply wf_key_inj; eassumption.
    + right. apply lru_del_keep; assumption.
Qed.

Lemma lru_touch_wf h l : wf_lru l -> wf_lru (lru_touch h l).
Proof.
  intro Hwf. unfold lru_touch. destruct (lru_find h l) as [e|] eqn:E; [|assumption].
  pose proof (lru_find_in _ _ _ E) as He.
  destruct (lru_del_wf h l Hwf) as [A B]. split; simpl; constructor; auto.
  - intro Hin. apply in_map_iff in Hin. destruct Hin as [[k' e'] [Ek Hin]]. simpl in Ek; subst.
    eapply lru_del_key; [apply Hwf | exact Hin | reflexivity].
  - intro Hin. apply in_map_iff in Hin. destruct Hin as [[k' e'] [Ek Hin]]. simpl in Ek; subst.
    pose proof (lru_del_key _ _ _ _ (proj1 Hwf) Hin) as Hk.
    apply Hk. eapply wf_val_inj; [exact Hwf | eapply lru_del_in; exact Hin | exact He].
Qed.

Lemma NoDup_app_l {A} (l1 l2 : list A) : NoDup (l1 ++ l2) -> NoDup l1.
Proof.
  induction l1 as [|a l1 IH]; simpl; intro H; [constructor|]. inversion H; subst.
  constructor; [|apply IH; assumption]. intro Hin. apply H2. apply in_app_iff. left. assumption.
Qed.

(** lru_add: where the pairs of the result come from, and who left *)
Lemma lru_add_spec cap h n l l' ev :
  wf_lru l -> (forall k, ~ In (k, n) l) -> lru_add cap h n l = (l', ev) ->
  wf_lru l' /\
  (forall k i, In (k, i) l' -> (k = h /\ i = n) \/ (In (k, i) l /\ k <> h)) /\
  (forall k i, In (k, i) l -> In (k, i) l' \/ (k = h) \/ ev = Some (k, i)) /\
  (forall k i, ev = Some (k, i) -> (In (k, i) l /\ k <> h \/ (k = h /\ i = n)) /\ ~ In (k, i) l').
Proof.
  intros Hwf Hfresh Hadd. unfold lru_add in Hadd.
  destruct (lru_find h l) as [e|] eqn:E.
  - inversion Hadd; subst. clear Hadd.
    destruct (lru_del_wf h l Hwf) as [A B].
    split; [|split; [|split]].
    + split; simpl; constructor; auto.
      * intro Hin. apply in_map_iff in Hin. destruct Hin as [[k' e'] [Ek Hin]]. simpl in Ek; subst.
        eapply lru_del_key; [apply Hwf | exact Hin | reflexivity].
      * intro Hin. apply in_map_iff in Hin. destruct Hin as [[k' e'] [Ek Hin]]. simpl in Ek; subst.
        apply (Hfresh k'). eapply lru_del_in; eassumption.
    + intros k i [H|H]; [inversion H; auto|]. right. split; [eapply lru_del_in; eassumption|].
      eapply lru_del_key; [apply Hwf | exact H].
    + intros k i H. destruct (N.eq_dec k h) as [->|Hne]; [auto|]. left. right. apply lru_del_keep; assumption.
    + intros k i H. discriminate.
  - assert (Hnk : forall i, ~ In (h, i) l) by (apply lru_find_none; assumption).
    assert (Hwf' : wf_lru ((h, n) :: l)).
    { destruct Hwf as [A B]. split; simpl; constructor; auto.
      - intro Hin. apply in_map_iff in Hin. destruct Hin as [[k' e'] [Ek Hin]]. simpl in Ek; subst. eapply Hnk; eassumption.
      - intro Hin. apply in_map_iff in Hin. destruct Hin as [[k' e'] [Ek Hin]]. simpl in Ek; subst. eapply Hfresh; eassumption. }
    destruct (Nat.ltb cap (length ((h, n) :: l))) eqn:Ec.
    + inversion Hadd; subst. clear Hadd.
      set (L := (h, n) :: l) in *.
      assert (HL : L = removelast L ++ [last L (h, n)]) by (apply app_removelast_last; discriminate).
      assert (Hsplit : forall x, In x L <-> In x (removelast L) \/ x = last L (h, n)).
      { intro x. rewrite HL at 1. rewrite in_app_iff. simpl. intuition. }
      assert (Hnd : NoDup L).
      { destruct Hwf' as [A _]. clear -A. induction L as [|[a b] L IH]; [constructor|]. simpl in A. inversion A; subst.
        constructor; [|apply IH; assumption]. intro Hin. apply H1. apply in_map_iff. exists (a, b). auto. }
      assert (Hlast_notin : ~ In (last L (h, n)) (removelast L)).
      { rewrite HL in Hnd. apply NoDup_remove_2 in Hnd. rewrite app_nil_r in Hnd. exact Hnd. }
      split; [|split; [|split]].
      * destruct Hwf' as [A B]. rewrite HL in A, B. rewrite map_app in A, B.
        split; eapply NoDup_app_l; eassumption.
      * intros k i H. assert (HinL : In (k, i) L) by (apply Hsplit; auto).
        destruct HinL as [Heq|Hin]; [inversion Heq; auto|]. right. split; [assumption|]. intro; subst. eapply Hnk; eassumption.
      * intros k i H. assert (HinL : In (k, i) L) by (right; assumption).
        apply Hsplit in HinL. destruct HinL as [Hr|Hl]; [auto|]. right. right. rewrite Hl. reflexivity.
      * intros k i H. injection H as Hl. split.
        -- assert (HinL : In (k, i) L) by (apply Hsplit; right; symmetry; exact Hl).
           destruct HinL as [Heq|Hin]; [inversion Heq; auto|]. left. split; [assumption|]. intro; subst. eapply Hnk; eassumption.
        -- rewrite <- Hl. exact Hlast_notin.
    + inversion Hadd; subst. clear Hadd.
      split; [exact Hwf'|]. split; [|split].
      * intros k i [H|H]; [inversion H; auto|]. right. split; [assumption|]. intro; subst. eapply Hnk; eassumption.
      * intros k i H. left. right. assumption.
      * intros; discriminate.
Qed.

(** * every level-2 step is a sequence of level-1 steps *)

Definition trace (s : st2) (e : ev2) : list ev1 :=
  match e with
  | CGet _ _ | CGol _ _ | CRm _ _ => []
  | CStep t ok =>
    match nth_error (c_thr s) t with
    | Some (PGetL _ i) | Some (PGolL _ i) => [EAddRef t i]
    | Some (PGolM h) =>
      if ok then ENew t :: match snd (lru_add (c_cap s) h (length (c_ents s)) (c_lru s)) with Some _ => [ESpawn] | None => [] end
      else []
    | Some (PRmL _ i) | Some (PClN i) => [EClose1 t i]
    | Some (PRmW _ _ _) | Some (PClW _ _) => [EWait t]
    | Some (PRmR h) => match lru_find h (c_lru s) with Some _ => [ESpawn] | None => [] end
    | _ => []
    end
  | CRelease t => [ERelease t]
  | CTimeout t => [ETimeout t]
  end.

Lemma map_upd {A B} (f : A -> B) l t x : map f (upd l t x) = upd (map f l) t (f x).
Proof. revert t. induction l as [|y l IH]; intros [|t]; simpl; auto. rewrite IH. reflexivity. Qed.

Lemma upd_same {A} (l : list A) t x : nth_error l t = Some x -> upd l t x = l.
Proof. revert t. induction l as [|y l IH]; intros [|t] H; simpl in *; try discriminate; [inversion H; reflexivity | rewrite IH; auto]. Qed.

Lemma map_upd_same {A B} (f : A -> B) l t p p' : nth_error l t = Some p -> f p' = f p -> map f (upd l t p') = map f l.
Proof.
  intros H E. rewrite map_upd, E. apply upd_same. rewrite nth_error_map, H. reflexivity.
Qed.

Lemma abs_nth s t p : nth_error (c_thr s) t = Some p -> nth_error (map abs_pc (c_thr s)) t = Some (abs_pc p).
Proof. intro H. rewrite nth_error_map, H. reflexivity. Qed.

Lemma st1_eq a b c a' b' c' : a = a' -> b = b' -> c = c' -> mkSt1 a b c = mkSt1 a' b' c'.
Proof. intros; subst; reflexivity. Qed.

Theorem refine s e : abs_st (step2 s e) = run step1 (abs_st s) (trace s e).
Proof.
  destruct e as [t h|t h|t h|t ok|t|t]; simpl.
  - (* CGet *)
    destruct (nth_error (c_thr s) t) as [[]|] eqn:Ht; try reflexivity.
    destruct (existsb (writer_on (stripe h)) (c_thr s)); try reflexivity.
    destruct (lru_find h (c_lru s)); try reflexivity.
    unfold abs_st; simpl. apply st1_eq; auto. eapply map_upd_same; [exact Ht|reflexivity].
  - destruct (nth_error (c_thr s) t) as [[]|] eqn:Ht; try reflexivity.
    destruct (existsb (writer_on (stripe h)) (c_thr s) || existsb (reader_on (stripe h)) (c_thr s)); try reflexivity.
    destruct (lru_find h (c_lru s)); unfold abs_st; simpl; apply st1_eq; auto; eapply map_upd_same; try exact Ht; reflexivity.
  - destruct (nth_error (c_thr s) t) as [[]|] eqn:Ht; try reflexivity.
    destruct (existsb (writer_on (stripe h)) (c_thr s)); try reflexivity.
    destruct (lru_find h (c_lru s)); try reflexivity.
    unfold abs_st; simpl. apply st1_eq; auto. eapply map_upd_same; [exact Ht|reflexivity].
  - (* CStep *)
    destruct (nth_error (c_thr s) t) as [[|h i|h i|h|i|h i|h i g|h|i|i g]|] eqn:Ht; try reflexivity; simpl.
    + (* PGetL *)
      rewrite (abs_nth _ _ _ Ht). simpl.
      destruct (nth_error (c_ents s) i) as [x|] eqn:Hi.
      * destruct (add_ref x) as [x'|]; unfold abs_st; simpl; apply st1_eq; auto.
        -- rewrite map_upd; reflexivity.
        -- eapply map_upd_same; [exact Ht|reflexivity].
      * unfold abs_st; simpl. apply st1_eq; auto. eapply map_upd_same; [exact Ht|reflexivity].
    + (* PGolL *)
      rewrite (abs_nth _ _ _ Ht). simpl.
      destruct (nth_error (c_ents s) i) as [x|] eqn:Hi.
      * destruct (add_ref x) as [x'|]; unfold abs_st; simpl; apply st1_eq; auto.
        -- rewrite map_upd; reflexivity.
        -- eapply map_upd_same; [exact Ht|reflexivity].
      * unfold abs_st; simpl. apply st1_eq; auto. eapply map_upd_same; [exact Ht|reflexivity].
    + (* PGolM *)
      destruct ok; simpl.
      * rewrite (abs_nth _ _ _ Ht). simpl.
        destruct (lru_add (c_cap s) h (length (c_ents s)) (c_lru s)) as [l' ev] eqn:Ea. simpl.
        destruct ev as [[k j]|]; simpl.
        -- unfold abs_st; simpl. apply st1_eq; auto. rewrite map_app, map_upd. reflexivity.
        -- unfold abs_st; simpl. apply st1_eq; auto. rewrite map_upd; reflexivity.
      * unfold abs_st; simpl. apply st1_eq; auto. eapply map_upd_same; [exact Ht|reflexivity].
    + (* PRmL *)
      rewrite (abs_nth _ _ _ Ht). simpl.
      destruct (nth_error (c_ents s) i) as [x|] eqn:Hi.
      * destruct (isclosed x); unfold abs_st; simpl; apply st1_eq; auto.
        -- eapply map_upd_same; [exact Ht|reflexivity].
        -- rewrite map_upd; reflexivity.
      * unfold abs_st; simpl. apply st1_eq; auto. eapply map_upd_same; [exact Ht|reflexivity].
    + (* PRmW *)
      rewrite (abs_nth _ _ _ Ht). simpl.
      destruct (nth_error (c_ents s) i) as [x|] eqn:Hi; [|reflexivity].
      destruct (done_closed x g); [|reflexivity].
      unfold abs_st; simpl. apply st1_eq; auto. rewrite map_upd; reflexivity.
    + (* PRmR *)
      destruct (lru_find h (c_lru s)) as [j|]; simpl.
      * unfold abs_st; simpl. apply st1_eq; auto. rewrite map_app. simpl. f_equal. eapply map_upd_same; [exact Ht|reflexivity].
      * unfold abs_st; simpl. apply st1_eq; auto. eapply map_upd_same; [exact Ht|reflexivity].
    + (* PClN *)
      rewrite (abs_nth _ _ _ Ht). simpl.
      destruct (nth_error (c_ents s) i) as [x|] eqn:Hi.
      * destruct (isclosed x); unfold abs_st; simpl; apply st1_eq; auto.
        -- eapply map_upd_same; [exact Ht|reflexivity].
        -- rewrite map_upd; reflexivity.
      * unfold abs_st; simpl. apply st1_eq; auto. eapply map_upd_same; [exact Ht|reflexivity].
    + (* PClW *)
      rewrite (abs_nth _ _ _ Ht). simpl.
      destruct (nth_error (c_ents s) i) as [x|] eqn:Hi; [|reflexivity].
      destruct (done_closed x g); [|reflexivity].
      unfold abs_st; simpl. apply st1_eq; auto. rewrite map_upd; reflexivity.
  - (* CRelease *)
    destruct (nth_error (c_thr s) t) as [[|h i|h i|h|i|h i|h i g|h|i|i g]|] eqn:Ht;
      rewrite ?(abs_nth _ _ _ Ht); simpl; try reflexivity.
    + destruct (nth_error (c_ents s) i) as [x|] eqn:Hi; [|reflexivity].
      destruct (remove_ref x) as [x' p]. unfold abs_st; simpl. apply st1_eq; auto. rewrite map_upd; reflexivity.
    + rewrite nth_error_map. destruct (nth_error (c_thr s) t); [discriminate|reflexivity].
  - (* CTimeout *)
    destruct (nth_error (c_thr s) t) as [[|h i|h i|h|i|h i|h i g|h|i|i g]|] eqn:Ht;
      rewrite ?(abs_nth _ _ _ Ht); simpl; try reflexivity.
    + destruct (nth_error (c_ents s) i) as [x|] eqn:Hi; [|reflexivity].
      unfold abs_st; simpl. apply st1_eq; auto. rewrite map_upd; reflexivity.
    + destruct (nth_error (c_ents s) i) as [x|] eqn:Hi; [|reflexivity].
      unfold abs_st; simpl. apply st1_eq; auto. rewrite map_upd; reflexivity.
    + rewrite nth_error_map. destruct (nth_error (c_thr s) t); [discriminate|reflexivity].
Qed.

Lemma map_repeat {A B} (f : A -> B) x n : map f (repeat x n) = repeat (f x) n.
Proof. induction n; simpl; [reflexivity | rewrite IHn; reflexivity]. Qed.

Theorem reach2_abs cap n es : exists es1, abs_st (run step2 (init2 cap n) es) = run step1 (init1 n) es1.
Proof.
  induction es as [|e es IH] using rev_ind.
  - exists []. unfold abs_st, init2, init1; simpl. rewrite map_repeat. reflexivity.
  - destruct IH as [es1 IH]. exists (es1 ++ trace (run step2 (init2 cap n) es) e).
    rewrite run_snoc, refine, IH, run_app. reflexivity.
Qed.

Corollary reach2_inv1 cap n es : Inv1 (abs_st (run step2 (init2 cap n) es)).
Proof. destruct (reach2_abs cap n es) as [es1 ->]. apply reach1_inv. Qed.

(** * no leak: the cache-level invariant *)

Definition is_golm (h : N) (p : pc2) : Prop := p = PGolM h.

Record Inv2 (s : st2) : Prop := mkInv2 {
  v_wf : wf_lru (c_lru s);
  v_bound : forall h i, In (h, i) (c_lru s) -> i < length (c_ents s);
  (* every entry is cached, or somebody has started closing it, or its eviction goroutine has not started yet *)
  v_acct : forall i x, nth_error (c_ents s) i = Some x ->
           in_lru s i \/ isclosed x = true \/ exists t, nth_error (c_thr s) t = Some (PClN i);
  (* a GetOrLoad that is about to load only ever replaces an entry that is being closed *)
  v_golm : forall t h, nth_error (c_thr s) t = Some (PGolM h) ->
           forall i x, In (h, i) (c_lru s) -> nth_error (c_ents s) i = Some x -> isclosed x = true;
  v_goll : forall t h i, nth_error (c_thr s) t = Some (PGolL h i) -> forall i', In (h, i') (c_lru s) -> i' = i;
  (* the stripe's write lock is exclusive *)
  v_excl : forall t t' p p' st, t <> t' -> nth_error (c_thr s) t = Some p -> nth_error (c_thr s) t' = Some p' ->
           writer_on st p = true -> writer_on st p' = false
}.

Lemma init2_inv2 cap n : Inv2 (init2 cap n).
Proof.
  constructor; simpl.
  - split; constructor.
  - intros h i [].
  - intros i x H. destruct i; discriminate.
  - intros t h H. apply nth_error_In in H. apply repeat_spec in H. discriminate.
  - intros t h i H. apply nth_error_In in H. apply repeat_spec in H. discriminate.
  - intros t t' p p' st _ H _ Hw. apply nth_error_In in H. apply repeat_spec in H. subst. discriminate.
Qed.

Definition writerb (p : pc2) : bool := match p with PGolL _ _ | PGolM _ => true | _ => false end.

Lemma writer_on_writerb st p : writer_on st p = true -> writerb p = true.
Proof. destruct p; simpl; auto. Qed.

(** entries only ever go from open to closed *)
Definition ent_mono (x x' : entry) : Prop := isclosed x = true -> isclosed x' = true.

Lemma ents_upd_nth (l : list entry) i x' j y :
  nth_error (upd l i x') j = Some y ->
  (j = i /\ y = x' /\ exists x, nth_error l i = Some x) \/ (j <> i /\ nth_error l j = Some y).
Proof.
  intro H. destruct (Nat.eq_dec i j) as [->|Hne].
  - left. destruct (nth_error l j) as [x|] eqn:E.
    + rewrite (nth_error_upd_eq _ _ _ _ E) in H. inversion H. eauto.
    + assert (nth_error (upd l j x') j = None) by (apply nth_error_None; rewrite upd_length; apply nth_error_None; assumption).
      congruence.
  - right. rewrite nth_error_upd_ne in H by assumption. split; [congruence|assumption].
Qed.

(** G1: goroutine [t] moves from [p] to [p'] (not becoming a lock holder it was not), entry [i] is updated
    monotonically, the LRU is untouched *)
Lemma inv2_move s t p p' i x x' :
  Inv2 s -> nth_error (c_thr s) t = Some p -> nth_error (c_ents s) i = Some x -> ent_mono x x' ->
  (forall st, writer_on st p' = true -> writer_on st p = true) ->
  (forall h, p' = PGolM h -> p = PGolM h \/ (exists j, p = PGolL h j /\ (j = i -> isclosed x' = true) /\
                                             (j <> i -> forall y, nth_error (c_ents s) j = Some y -> isclosed y = true))) ->
  (forall h j, p' = PGolL h j -> p = PGolL h j) ->
  (forall j, p = PClN j -> p' = PClN j \/ (j = i /\ isclosed x' = true) \/
                           (j <> i /\ forall y, nth_error (c_ents s) j = Some y -> isclosed y = true)) ->
  Inv2 (set_thr (set_ent s i x') t p').
Proof.
  intros [Hwf Hb Hacct Hgolm Hgoll Hexcl] Ht Hi Hmono Hw Hm Hl Hc.
  constructor; simpl.
  - exact Hwf.
  - intros h j Hin. rewrite upd_length. eapply Hb; eassumption.
  - intros j y Hy. apply ents_upd_nth in Hy. destruct Hy as [[-> [-> _]]|[Hne Hy]].
    + destruct (Hacct i x Hi) as [A|[A|[u Hu]]].
      * left. exact A.
      * right. left. apply Hmono. exact A.
      * destruct (Nat.eq_dec u t) as [->|Hut].
        -- rewrite Ht in Hu. inversion Hu; subst p.
           destruct (Hc i eq_refl) as [E|[[_ E]|[E _]]]; [|right; left; exact E|congruence].
           right. right. exists t. rewrite E. eapply nth_error_upd_eq; eassumption.
        -- right. right. exists u. rewrite nth_error_upd_ne by congruence. exact Hu.
    + destruct (Hacct j y Hy) as [A|[A|[u Hu]]]; [left; exact A | right; left; exact A|].
      destruct (Nat.eq_dec u t) as [->|Hut].
      * rewrite Ht in Hu. inversion Hu; subst p.
        destruct (Hc j eq_refl) as [E|[[E _]|[_ E]]]; [|congruence|right; left; apply E; exact Hy].
        right. right. exists t. rewrite E. eapply nth_error_upd_eq; eassumption.
      * right. right. exists u. rewrite nth_error_upd_ne by congruence. exact Hu.
  - intros u h Hu j y Hin Hy. apply thr_upd_cases in Hu. destruct Hu as [[-> Hp']|[Hne Hu]].
    + subst p'. destruct (Hm h eq_refl) as [E|[j0 [E [E1 E2]]]].
      * subst p. apply ents_upd_nth in Hy. destruct Hy as [[-> [-> _]]|[Hne Hy]].
        -- apply Hmono. eapply Hgolm; eassumption.
        -- eapply Hgolm; eassumption.
      * subst p. pose proof (Hgoll t h j0 Ht j Hin) as Ej. subst j.
        apply ents_upd_nth in Hy. destruct Hy as [[-> [-> _]]|[Hne Hy]]; [apply E1; reflexivity | eapply E2; eassumption].
    + apply ents_upd_nth in Hy. destruct Hy as [[-> [-> _]]|[Hne' Hy]].
      * apply Hmono. eapply Hgolm; eassumption.
      * eapply Hgolm; eassumption.
  - intros u h j Hu j' Hin. apply thr_upd_cases in Hu. destruct Hu as [[-> Hp']|[Hne Hu]].
    + subst p'. specialize (Hl h j eq_refl). subst p. eapply Hgoll; eassumption.
    + eapply Hgoll; eassumption.
  - intros u u' q q' st Hne Hu Hu' Hwq.
    apply thr_upd_cases in Hu. apply thr_upd_cases in Hu'.
    destruct Hu as [[-> ->]|[Hnu Hu]], Hu' as [[-> ->]|[Hnu' Hu']]; try congruence.
    + eapply Hexcl; [exact Hne | exact Ht | exact Hu' | apply Hw; exact Hwq].
    + destruct (writer_on st p') eqn:E; [|reflexivity].
      assert (writer_on st p = true) by (apply Hw; exact E).
      assert (writer_on st q = false) by (eapply (Hexcl t u p q st); [congruence | exact Ht | exact Hu | assumption]).
      congruence.
    + eapply (Hexcl u u' q q' st); eassumption.
Qed.

(** the same without touching an entry *)
Lemma inv2_move_thr s t p p' :
  Inv2 s -> nth_error (c_thr s) t = Some p ->
  (forall st, writer_on st p' = true -> writer_on st p = true) ->
  (forall h, p' = PGolM h -> p = PGolM h \/
             exists j, p = PGolL h j /\ forall y, nth_error (c_ents s) j = Some y -> isclosed y = true) ->
  (forall h j, p' = PGolL h j -> p = PGolL h j) ->
  (forall j, p = PClN j -> p' = PClN j \/ forall y, nth_error (c_ents s) j = Some y -> isclosed y = true) ->
  Inv2 (set_thr s t p').
Proof.
  intros [Hwf Hb Hacct Hgolm Hgoll Hexcl] Ht Hw Hm Hl Hc.
  constructor; simpl.
  - exact Hwf.
  - exact Hb.
  - intros j y Hy. destruct (Hacct j y Hy) as [A|[A|[u Hu]]]; [left; exact A | right; left; exact A|].
    destruct (Nat.eq_dec u t) as [->|Hut].
    + rewrite Ht in Hu. inversion Hu; subst p.
      destruct (Hc j eq_refl) as [E|E]; [|right; left; apply E; exact Hy].
      right. right. exists t. rewrite E. eapply nth_error_upd_eq; eassumption.
    + right. right. exists u. rewrite nth_error_upd_ne by congruence. exact Hu.
  - intros u h Hu j y Hin Hy. apply thr_upd_cases in Hu. destruct Hu as [[-> Hp']|[Hne Hu]].
    + subst p'. destruct (Hm h eq_refl) as [E|[j0 [E E2]]].
      * subst p. eapply Hgolm; eassumption.
      * subst p. pose proof (Hgoll t h j0 Ht j Hin) as Ej. subst j. eapply E2; eassumption.
    + eapply Hgolm; eassumption.
  - intros u h j Hu j' Hin. apply thr_upd_cases in Hu. destruct Hu as [[-> Hp']|[Hne Hu]].
    + subst p'. specialize (Hl h j eq_refl). subst p. eapply Hgoll; eassumption.
    + eapply Hgoll; eassumption.
  - intros u u' q q' st Hne Hu Hu' Hwq.
    apply thr_upd_cases in Hu. apply thr_upd_cases in Hu'.
    destruct Hu as [[-> ->]|[Hnu Hu]], Hu' as [[-> ->]|[Hnu' Hu']]; try congruence.
    + eapply Hexcl; [exact Hne | exact Ht | exact Hu' | apply Hw; exact Hwq].
    + destruct (writer_on st p') eqn:E; [|reflexivity].
      assert (writer_on st p = true) by (apply Hw; exact E).
      assert (writer_on st q = false) by (eapply (Hexcl t u p q st); [congruence | exact Ht | exact Hu | assumption]).
      congruence.
    + eapply (Hexcl u u' q q' st); eassumption.
Qed.

Lemma inv2_touch s h : Inv2 s -> Inv2 (set_lru s (lru_touch h (c_lru s))).
Proof.
  intros [Hwf Hb Hacct Hgolm Hgoll Hexcl].
  constructor; simpl.
  - apply lru_touch_wf. exact Hwf.
  - intros k i Hin. apply lru_touch_in in Hin; [|exact Hwf]. eapply Hb; eassumption.
  - intros i x Hx. destruct (Hacct i x Hx) as [[k A]|[A|A]]; [left|right; left; exact A|right; right; exact A].
    exists k. apply lru_touch_in; assumption.
  - intros t k Ht i x Hin Hx. apply lru_touch_in in Hin; [|exact Hwf]. eapply Hgolm; eassumption.
  - intros t k i Ht i' Hin. apply lru_touch_in in Hin; [|exact Hwf]. eapply Hgoll; eassumption.
  - exact Hexcl.
Qed.

Lemma existsb_false_nth {A} (f : A -> bool) l t p : existsb f l = false -> nth_error l t = Some p -> f p = false.
Proof.
  intros H Hn. destruct (f p) eqn:E; [|reflexivity].
  assert (existsb f l = true) by (apply existsb_exists; exists p; split; [eapply nth_error_In; eassumption | assumption]).
  congruence.
Qed.

(** an idle goroutine takes the write lock of a free stripe *)
Lemma inv2_lock s t h p' :
  Inv2 s -> nth_error (c_thr s) t = Some PIdle ->
  existsb (writer_on (stripe h)) (c_thr s) = false ->
  ((exists i, p' = PGolL h i /\ forall i', In (h, i') (c_lru s) -> i' = i) \/
   (p' = PGolM h /\ forall i, ~ In (h, i) (c_lru s))) ->
  Inv2 (set_thr s t p').
Proof.
  intros [Hwf Hb Hacct Hgolm Hgoll Hexcl] Ht Hfree Hp'.
  assert (Hwp : forall st, writer_on st p' = true -> st = stripe h).
  { intros st H. destruct Hp' as [[i [-> _]]|[-> _]]; simpl in H; apply N.eqb_eq in H; congruence. }
  constructor; simpl.
  - exact Hwf.
  - exact Hb.
  - intros j y Hy. destruct (Hacct j y Hy) as [A|[A|[u Hu]]]; [left; exact A | right; left; exact A|].
    right. right. exists u. rewrite nth_error_upd_ne; [exact Hu|]. intro; subst. congruence.
  - intros u k Hu j y Hin Hy. apply thr_upd_cases in Hu. destruct Hu as [[-> Hq]|[Hne Hu]].
    + destruct Hp' as [[i [-> _]]|[E Hno]]; [discriminate|]. rewrite E in Hq. inversion Hq; subst k.
      exfalso. eapply Hno; eassumption.
    + eapply Hgolm; eassumption.
  - intros u k j Hu j' Hin. apply thr_upd_cases in Hu. destruct Hu as [[-> Hq]|[Hne Hu]].
    + destruct Hp' as [[i [E Hi]]|[E _]]; [|rewrite E in Hq; discriminate].
      rewrite E in Hq. inversion Hq; subst. apply Hi. exact Hin.
    + eapply Hgoll; eassumption.
  - intros u u' q q' st Hne Hu Hu' Hwq.
    apply thr_upd_cases in Hu. apply thr_upd_cases in Hu'.
    destruct Hu as [[-> ->]|[Hnu Hu]], Hu' as [[-> ->]|[Hnu' Hu']]; try congruence.
    + rewrite (Hwp st Hwq). eapply existsb_false_nth; eassumption.
    + destruct (writer_on st p') eqn:E; [|reflexivity].
      rewrite (Hwp st E) in Hwq. rewrite (existsb_false_nth _ _ _ _ Hfree Hu) in Hwq. discriminate.
    + eapply (Hexcl u u' q q' st); eassumption.
Qed.

Lemma lru_add_has cap h n l l' ev : lru_add cap h n l = (l', ev) -> In (h, n) l' \/ ev = Some (h, n).
Proof.
  unfold lru_add. destruct (lru_find h l).
  - intro H. inversion H; subst. left. left. reflexivity.
  - destruct (Nat.ltb cap (length ((h, n) :: l))).
    + intro H. inversion H; subst. clear H.
      set (L := (h, n) :: l).
      assert (HL : L = removelast L ++ [last L (h, n)]) by (apply app_removelast_last; discriminate).
      assert (Hin : In (h, n) L) by (left; reflexivity).
      rewrite HL in Hin. apply in_app_iff in Hin. destruct Hin as [Hin|[Hin|[]]]; [left; exact Hin | right; f_equal; exact Hin].
    + intro H. inversion H; subst. left. left. reflexivity.
Qed.

Lemma nth_error_app_l {A} (l : list A) x j y : nth_error l j = Some y -> nth_error (l ++ [x]) j = Some y.
Proof. intro H. rewrite nth_error_app1; [exact H | apply nth_error_Some; congruence]. Qed.

(** GetOrLoad loads: new entry, lru.Add, possibly an eviction goroutine *)
Lemma inv2_add s t h :
  Inv2 s -> nth_error (c_thr s) t = Some (PGolM h) ->
  Inv2 (let n := length (c_ents s) in
        let '(l', ev) := lru_add (c_cap s) h n (c_lru s) in
        let s1 := mkSt2 (c_ents s ++ [fresh]) (upd (c_thr s) t (PHold n)) l' (c_cap s) (c_panics s) in
        match ev with Some (_, j) => spawn s1 (PClN j) | None => s1 end).
Proof.
  intros [Hwf Hb Hacct Hgolm Hgoll Hexcl] Ht. cbv zeta.
  set (n := length (c_ents s)).
  assert (Hfresh : forall k, ~ In (k, n) (c_lru s)).
  { intros k Hin. specialize (Hb k n Hin). unfold n in Hb. lia. }
  destruct (lru_add (c_cap s) h n (c_lru s)) as [l' ev] eqn:Ea.
  destruct (lru_add_spec _ _ _ _ _ _ Hwf Hfresh Ea) as [Hwf' [Hfrom [Hto Hev]]].
  pose proof (lru_add_has _ _ _ _ _ _ Ea) as Hhas.
  (* the properties that do not depend on whether a goroutine is spawned *)
  assert (Hthr : forall u q, nth_error (upd (c_thr s) t (PHold n)) u = Some q -> (u = t /\ q = PHold n) \/ (u <> t /\ nth_error (c_thr s) u = Some q))
    by (intros u q H; apply thr_upd_cases in H; exact H).
  assert (Hacct' : forall i x, nth_error (c_ents s ++ [fresh]) i = Some x ->
            (exists k, In (k, i) l') \/ isclosed x = true \/ (exists u, nth_error (upd (c_thr s) t (PHold n)) u = Some (PClN i)) \/
            (exists k, ev = Some (k, i))).
  { intros i x Hx. apply nth_error_snoc in Hx. destruct Hx as [Hx|[-> ->]].
    - destruct (Hacct i x Hx) as [[k A]|[A|[u Hu]]].
      + destruct (Hto k i A) as [B|[B|B]].
        * left. exists k. exact B.
        * subst k. right. left. eapply Hgolm; eassumption.
        * right. right. right. exists k. exact B.
      + right. left. exact A.
      + right. right. left. exists u. rewrite nth_error_upd_ne; [exact Hu|]. intro; subst. congruence.
    - destruct Hhas as [A|A]; [left; exists h; exact A | right; right; right; exists h; exact A]. }
  assert (Hgolm' : forall u k, nth_error (upd (c_thr s) t (PHold n)) u = Some (PGolM k) ->
            forall i x, In (k, i) l' -> nth_error (c_ents s ++ [fresh]) i = Some x -> isclosed x = true).
  { intros u k Hu i x Hin Hx. apply Hthr in Hu. destruct Hu as [[_ Hq]|[Hne Hu]]; [discriminate|].
    destruct (Hfrom k i Hin) as [[-> ->]|[Hin' Hk]].
    - (* another goroutine about to load the same height: excluded by the stripe lock *)
      exfalso. assert (writer_on (stripe h) (PGolM h) = false) as E.
      { eapply (Hexcl u t (PGolM h) (PGolM h) (stripe h)); [exact Hne | exact Hu | exact Ht | simpl; apply N.eqb_refl]. }
      simpl in E. rewrite N.eqb_refl in E. discriminate.
    - assert (Hi : i < n) by (eapply Hb; eassumption).
      rewrite nth_error_app1 in Hx by exact Hi. eapply Hgolm; eassumption. }
  assert (Hgoll' : forall u k i, nth_error (upd (c_thr s) t (PHold n)) u = Some (PGolL k i) -> forall i', In (k, i') l' -> i' = i).
  { intros u k i Hu i' Hin. apply Hthr in Hu. destruct Hu as [[_ Hq]|[Hne Hu]]; [discriminate|].
    destruct (Hfrom k i' Hin) as [[-> ->]|[Hin' Hk]].
    - exfalso. assert (writer_on (stripe h) (PGolM h) = false) as E.
      { eapply (Hexcl u t (PGolL h i) (PGolM h) (stripe h)); [exact Hne | exact Hu | exact Ht | simpl; apply N.eqb_refl]. }
      simpl in E. rewrite N.eqb_refl in E. discriminate.
    - eapply Hgoll; eassumption. }
  assert (Hexcl' : forall u u' q q' st, u <> u' -> nth_error (upd (c_thr s) t (PHold n)) u = Some q ->
            nth_error (upd (c_thr s) t (PHold n)) u' = Some q' -> writer_on st q = true -> writer_on st q' = false).
  { intros u u' q q' st Hne Hu Hu' Hwq. apply Hthr in Hu. apply Hthr in Hu'.
    destruct Hu as [[-> ->]|[Hnu Hu]], Hu' as [[-> ->]|[Hnu' Hu']]; try congruence; try discriminate; try reflexivity.
    eapply (Hexcl u u' q q' st); eassumption. }
  assert (Hb' : forall k i, In (k, i) l' -> i < length (c_ents s ++ [fresh])).
  { intros k i Hin. rewrite app_length. simpl. destruct (Hfrom k i Hin) as [[_ ->]|[Hin' _]]; [unfold n; lia|].
    specialize (Hb k i Hin'). lia. }
  destruct ev as [[k j]|]; simpl.
  - constructor; simpl; [exact Hwf' | exact Hb' | | | |].
    + intros i x Hx. destruct (Hacct' i x Hx) as [A|[A|[[u Hu]|[k' A]]]].
      * left. exact A.
      * right. left. exact A.
      * right. right. exists u. apply nth_error_app_l. exact Hu.
      * inversion A; subst. right. right. exists (length (upd (c_thr s) t (PHold n))). apply nth_error_app_last.
    + intros u k' Hu. apply nth_error_snoc in Hu. destruct Hu as [Hu|[_ Hq]]; [|discriminate]. eapply Hgolm'; eassumption.
    + intros u k' i Hu. apply nth_error_snoc in Hu. destruct Hu as [Hu|[_ Hq]]; [|discriminate]. eapply Hgoll'; eassumption.
    + intros u u' q q' st Hne Hu Hu' Hwq.
      apply nth_error_snoc in Hu. apply nth_error_snoc in Hu'.
      destruct Hu as [Hu|[_ ->]]; [|discriminate]. destruct Hu' as [Hu'|[_ ->]]; [|reflexivity].
      eapply Hexcl'; eassumption.
  - constructor; simpl; [exact Hwf' | exact Hb' | | exact Hgolm' | exact Hgoll' | exact Hexcl'].
    intros i x Hx. destruct (Hacct' i x Hx) as [A|[A|[A|[k' A]]]]; [left; exact A | right; left; exact A | right; right; exact A | discriminate].
Qed.

(** Remove's lru.Remove: the pair under h leaves, its eviction goroutine starts *)
Lemma inv2_del s t h :
  Inv2 s -> nth_error (c_thr s) t = Some (PRmR h) ->
  Inv2 (match lru_find h (c_lru s) with
        | Some j => spawn (set_thr (set_lru s (lru_del h (c_lru s))) t PIdle) (PClN j)
        | None => set_thr s t PIdle
        end).
Proof.
  intros Hinv Ht. destruct (lru_find h (c_lru s)) as [j|] eqn:Ef.
  - destruct Hinv as [Hwf Hb Hacct Hgolm Hgoll Hexcl].
    pose proof (lru_find_in _ _ _ Ef) as Hj.
    constructor; simpl.
    + apply lru_del_wf. exact Hwf.
    + intros k i Hin. eapply Hb. eapply lru_del_in. exact Hin.
    + intros i x Hx. destruct (Hacct i x Hx) as [[k A]|[A|[u Hu]]].
      * destruct (N.eq_dec k h) as [->|Hne].
        -- assert (i = j) by (eapply wf_key_inj; eassumption). subst i.
           right. right. exists (length (upd (c_thr s) t PIdle)). apply nth_error_app_last.
        -- left. exists k. apply lru_del_keep; assumption.
      * right. left. exact A.
      * right. right. exists u. apply nth_error_app_l. rewrite nth_error_upd_ne; [exact Hu|]. intro; subst. congruence.
    + intros u k Hu i x Hin Hx. apply nth_error_snoc in Hu. destruct Hu as [Hu|[_ Hq]]; [|discriminate].
      apply thr_upd_cases in Hu. destruct Hu as [[_ Hq]|[_ Hu]]; [discriminate|].
      eapply Hgolm; [exact Hu | eapply lru_del_in; exact Hin | exact Hx].
    + intros u k i Hu i' Hin. apply nth_error_snoc in Hu. destruct Hu as [Hu|[_ Hq]]; [|discriminate].
      apply thr_upd_cases in Hu. destruct Hu as [[_ Hq]|[_ Hu]]; [discriminate|].
      eapply Hgoll; [exact Hu | eapply lru_del_in; exact Hin].
    + intros u u' q q' st Hne Hu Hu' Hwq.
      apply nth_error_snoc in Hu. apply nth_error_snoc in Hu'.
      destruct Hu as [Hu|[_ ->]]; [|discriminate]. destruct Hu' as [Hu'|[_ ->]]; [|reflexivity].
      apply thr_upd_cases in Hu. apply thr_upd_cases in Hu'.
      destruct Hu as [[-> ->]|[Hnu Hu]], Hu' as [[-> ->]|[Hnu' Hu']]; try congruence; try discriminate; try reflexivity.
      eapply (Hexcl u u' q q' st); eassumption.
  - eapply inv2_move_thr; [exact Hinv | exact Ht | | | |]; simpl; intros; try discriminate.
Qed.

Lemma inv2_panics e th l c p1 p2 : Inv2 (mkSt2 e th l c p1) -> Inv2 (mkSt2 e th l c p2).
Proof. intros [A B C D E F]. constructor; assumption. Qed.

Lemma add_ref_mono x x' : add_ref x = Some x' -> ent_mono x x' /\ isclosed x = false.
Proof.
  unfold add_ref, ent_mono. destruct (isclosed x) eqn:E; [discriminate|]. intro H. split; [congruence|reflexivity].
Qed.

Lemma add_ref_none x : add_ref x = None -> isclosed x = true.
Proof. unfold add_ref. destruct (isclosed x); [reflexivity|discriminate]. Qed.

Lemma remove_ref_mono x : ent_mono x (fst (remove_ref x)).
Proof.
  unfold remove_ref, ent_mono. destruct (refs x - 1 <=? 0)%Z; [destruct (dclosed x || Nat.eqb (gen x) 0)|]; simpl; auto.
Qed.

Theorem step2_inv2 s e : Inv2 s -> Inv2 (step2 s e).
Proof.
  intro Hinv. destruct e as [t h|t h|t h|t ok|t|t]; simpl.
  - (* CGet *)
    destruct (nth_error (c_thr s) t) as [[]|] eqn:Ht; try exact Hinv.
    destruct (existsb (writer_on (stripe h)) (c_thr s)); try exact Hinv.
    destruct (lru_find h (c_lru s)) as [i|]; try exact Hinv.
    apply (inv2_move_thr (set_lru s (lru_touch h (c_lru s))) t PIdle); [apply inv2_touch; exact Hinv | exact Ht | | | |];
      simpl; intros; discriminate.
  - (* CGol *)
    destruct (nth_error (c_thr s) t) as [[]|] eqn:Ht; try exact Hinv.
    destruct (existsb (writer_on (stripe h)) (c_thr s) || existsb (reader_on (stripe h)) (c_thr s)) eqn:Eg; try exact Hinv.
    apply orb_false_iff in Eg. destruct Eg as [Eg _].
    destruct (lru_find h (c_lru s)) as [i|] eqn:Ef.
    + apply (inv2_lock (set_lru s (lru_touch h (c_lru s))) t h); [apply inv2_touch; exact Hinv | exact Ht | exact Eg |].
      left. exists i. split; [reflexivity|]. simpl. intros i' Hin.
      apply lru_touch_in in Hin; [|apply Hinv]. eapply wf_key_inj; [apply Hinv | exact Hin | apply lru_find_in; exact Ef].
    + apply (inv2_lock s t h); [exact Hinv | exact Ht | exact Eg |]. right. split; [reflexivity|]. apply lru_find_none. exact Ef.
  - (* CRm *)
    destruct (nth_error (c_thr s) t) as [[]|] eqn:Ht; try exact Hinv.
    destruct (existsb (writer_on (stripe h)) (c_thr s)); try exact Hinv.
    destruct (lru_find h (c_lru s)) as [i|]; try exact Hinv.
    apply (inv2_move_thr (set_lru s (lru_touch h (c_lru s))) t PIdle); [apply inv2_touch; exact Hinv | exact Ht | | | |];
      simpl; intros; discriminate.
  - (* CStep *)
    destruct (nth_error (c_thr s) t) as [[|h i|h i|h|i|h i|h i g|h|i|i g]|] eqn:Ht; try exact Hinv.
    + (* PGetL *)
      destruct (nth_error (c_ents s) i) as [x|] eqn:Hi.
      * destruct (add_ref x) as [x'|] eqn:Ha.
        -- destruct (add_ref_mono _ _ Ha) as [Hm _].
           eapply inv2_move; try eassumption; simpl; intros; discriminate.
        -- eapply inv2_move_thr; try eassumption; simpl; intros; discriminate.
      * eapply inv2_move_thr; try eassumption; simpl; intros; discriminate.
    + (* PGolL *)
      destruct (nth_error (c_ents s) i) as [x|] eqn:Hi.
      * destruct (add_ref x) as [x'|] eqn:Ha.
        -- destruct (add_ref_mono _ _ Ha) as [Hm _].
           eapply inv2_move; try eassumption; simpl; intros; discriminate.
        -- eapply inv2_move_thr; try eassumption; simpl.
           ++ intros st H. exact H.
           ++ intros h' E. inversion E; subst h'. right. exists i. split; [reflexivity|].
              intros y Hy. rewrite Hi in Hy. inversion Hy; subst y. apply add_ref_none. exact Ha.
           ++ intros; discriminate.
           ++ intros; discriminate.
      * eapply inv2_move_thr; try eassumption; simpl.
        -- intros st H. exact H.
        -- intros h' E. inversion E; subst h'. right. exists i. split; [reflexivity|]. intros y Hy. congruence.
        -- intros; discriminate.
        -- intros; discriminate.
    + (* PGolM *)
      destruct ok.
      * apply inv2_add; assumption.
      * eapply inv2_move_thr; try eassumption; simpl; intros; discriminate.
    + (* PRmL *)
      destruct (nth_error (c_ents s) i) as [x|] eqn:Hi.
      * destruct (isclosed x) eqn:Hc.
        -- eapply inv2_move_thr; try eassumption; simpl; intros; discriminate.
        -- eapply inv2_move; try eassumption; simpl; try (intros; discriminate). intro; reflexivity.
      * eapply inv2_move_thr; try eassumption; simpl; intros; discriminate.
    + (* PRmW *)
      destruct (nth_error (c_ents s) i) as [x|] eqn:Hi; try exact Hinv.
      destruct (done_closed x g); try exact Hinv.
      eapply inv2_move; try eassumption; simpl; try (intros; discriminate). intro H; exact H.
    + (* PRmR *)
      apply inv2_del; assumption.
    + (* PClN *)
      destruct (nth_error (c_ents s) i) as [x|] eqn:Hi.
      * destruct (isclosed x) eqn:Hc.
        -- eapply inv2_move_thr; try eassumption; simpl; try (intros; discriminate).
           intros j E. inversion E; subst j. right. intros y Hy. congruence.
        -- eapply inv2_move; try eassumption; simpl; try (intros; discriminate).
           ++ intro; reflexivity.
           ++ intros j E. inversion E; subst j. right. left. split; reflexivity.
      * eapply inv2_move_thr; try eassumption; simpl; try (intros; discriminate).
        intros j E. inversion E; subst j. right. intros y Hy. congruence.
    + (* PClW *)
      destruct (nth_error (c_ents s) i) as [x|] eqn:Hi; try exact Hinv.
      destruct (done_closed x g); try exact Hinv.
      eapply inv2_move; try eassumption; simpl; try (intros; discriminate). intro H; exact H.
  - (* CRelease *)
    destruct (nth_error (c_thr s) t) as [[|h i|h i|h|i|h i|h i g|h|i|i g]|] eqn:Ht; try exact Hinv.
    destruct (nth_error (c_ents s) i) as [x|] eqn:Hi; try exact Hinv.
    pose proof (remove_ref_mono x) as Hm. destruct (remove_ref x) as [x' p]. simpl in Hm.
    eapply inv2_panics.
    apply (inv2_move s t (PHold i) PIdle i x x'); try assumption; simpl; intros; discriminate.
  - (* CTimeout *)
    destruct (nth_error (c_thr s) t) as [[|h i|h i|h|i|h i|h i g|h|i|i g]|] eqn:Ht; try exact Hinv.
    + destruct (nth_error (c_ents s) i) as [x|] eqn:Hi; try exact Hinv.
      eapply inv2_move; try eassumption; simpl; try (intros; discriminate). intro H; exact H.
    + destruct (nth_error (c_ents s) i) as [x|] eqn:Hi; try exact Hinv.
      eapply inv2_move; try eassumption; simpl; try (intros; discriminate). intro H; exact H.
Qed.

Theorem reach2_inv2 cap n es : Inv2 (run step2 (init2 cap n) es).
Proof. apply run_inv; [intros; apply step2_inv2; assumption | apply init2_inv2]. Qed.

(** * consequences for the cache *)

Lemma cnt_all_idle (P : pc1 -> bool) s : P Idle = false -> all_idle s -> cnt P (map abs_pc (c_thr s)) = 0%Z.
Proof.
  intros HP Hidle. unfold all_idle in Hidle. induction (c_thr s) as [|p l IH]; simpl; [reflexivity|].
  rewrite (Hidle p) by (left; reflexivity). simpl. rewrite HP. simpl.
  apply IH. intros q Hq. apply Hidle. right. exact Hq.
Qed.

Section Cache.
  Variables (cap n : nat) (es : list ev2).
  Notation s := (run step2 (init2 cap n) es).

  (** when every operation has returned, every reference is released and every eviction goroutine has finished:
      no entry has a reference, no accessor was closed twice, an entry that left the LRU (removed, evicted, replaced)
      has been closed exactly once, and an entry that nobody started closing is open *)
  Theorem no_leak : all_idle s -> forall i x, nth_error (c_ents s) i = Some x ->
    refs x = 0%Z /\ (closes x <= 1) /\ (~ in_lru s i -> isclosed x = true /\ closes x = 1) /\
    (isclosed x = false -> closes x = 0).
  Proof.
    intros Hidle i x Hx.
    destruct (reach2_inv1 cap n es) as [Hall _]. simpl in Hall.
    destruct (Hall i x Hx) as [H1 _ _ H4 H5 _].
    pose proof (cnt_all_idle (holdsb i) s eq_refl Hidle) as Hh.
    pose proof (cnt_all_idle (waitsb i) s eq_refl Hidle) as Hw.
    rewrite Hh in H1. rewrite Hw in H4, H5.
    assert (Hcl : isclosed x = true -> closes x = 1) by (intro E; specialize (H5 E); lia).
    assert (Hop : isclosed x = false -> closes x = 0) by (intro E; destruct (H4 E) as [_ [C _]]; exact C).
    split; [exact H1|]. split; [|split; [|exact Hop]].
    - destruct (isclosed x) eqn:E; [rewrite Hcl; auto | rewrite Hop; auto].
    - intro Hnot. destruct (v_acct _ (reach2_inv2 cap n es) i x Hx) as [A|[A|[t Ht]]].
      + contradiction.
      + split; [exact A | apply Hcl; exact A].
      + apply nth_error_In in Ht. apply Hidle in Ht. discriminate.
  Qed.

  (** a goroutine holding a refCloser reads an accessor on which Close() has not been called, unless the close
      timeout fired for that entry *)
  Theorem cache_holder_reads_open t e : nth_error (c_thr s) t = Some (PHold e) ->
    exists x, nth_error (c_ents s) e = Some x /\ (closes x = 0 \/ forced x = true) /\ (1 <= refs x)%Z.
  Proof.
    intro Ht. destruct (reach2_abs cap n es) as [es1 E].
    pose proof (holder_reads_open n es1 t e) as H. rewrite <- E in H. simpl in H.
    apply H. rewrite nth_error_map, Ht. reflexivity.
  Qed.

  Theorem cache_refs_closes i x : nth_error (c_ents s) i = Some x ->
    (0 <= refs x)%Z /\ closes x <= 1 /\ (closes x = 1 -> forced x = false -> refs x = 0%Z) /\ c_panics s = 0.
  Proof.
    intro Hx. destruct (reach2_abs cap n es) as [es1 E].
    pose proof (refs_count n es1 i x) as H1. pose proof (close_at_most_once n es1 i x) as H2.
    pose proof (closed_means_no_refs n es1 i x) as H3. pose proof (no_panic n es1) as H4.
    rewrite <- E in H1, H2, H3, H4. simpl in *.
    split; [apply H1; exact Hx|]. split; [apply H2; exact Hx|]. split; [|exact H4].
    intros A B. apply (H3 Hx A B).
  Qed.

  (** Remove and the eviction goroutines wait only while a reference is out: with none left their next step is
      enabled and calls Close() *)
  Theorem cache_waiter_enabled t h e g :
    nth_error (c_thr s) t = Some (PRmW h e g) \/ nth_error (c_thr s) t = Some (PClW e g) ->
    exists x, nth_error (c_ents s) e = Some x /\ closes x = 0 /\ isclosed x = true /\
              (refs x = 0%Z -> done_closed x g = true).
  Proof.
    intro Ht. destruct (reach2_abs cap n es) as [es1 E].
    pose proof (waiter_progress n es1 t e g) as H. rewrite <- E in H. simpl in H.
    destruct H as [x [Hx [Hg [Hc [Hcl [_ Hd]]]]]].
    { rewrite nth_error_map. destruct Ht as [-> | ->]; reflexivity. }
    exists x. auto.
  Qed.
End Cache.

(** * non-vacuity: capacity 1; a reader holds height 7, a second height evicts it (the eviction goroutine has to
      wait), Remove of the second height closes at once; after the reader lets go everything is closed once *)
Definition ex2 : list ev2 :=
  [CGol 0 7; CStep 0 true;            (* g0 loads 7 and holds it *)
   CGol 1 263; CStep 1 true;          (* g1 loads 263: 7 is evicted, goroutine 3 is spawned *)
   CStep 3 true; CStep 3 true;        (* the eviction goroutine closes (1) and waits: g0 still reads *)
   CGet 2 7;                          (* 7 is no longer cached *)
   CRelease 1; CRm 2 263; CStep 2 true; CStep 2 true; CStep 2 true;   (* Remove(263): goroutine 4 spawned *)
   CStep 4 true;
   CRelease 0; CStep 3 true]%N.

Example ex2_run :
  let s := run step2 (init2 1 3) ex2 in
  all_idle s /\ c_lru s = [] /\ c_ents s = [mkE 0 1 true true 1 false; mkE 0 1 true true 1 false] /\
  let s' := run step2 (init2 1 3) (firstn 6 ex2) in
  c_thr s' = [PHold 0; PHold 1; PIdle; PClW 0 1] /\ c_lru s' = [(263%N, 1)] /\
  c_ents s' = [mkE 1 1 false true 0 false; mkE 1 1 false false 0 false].
Proof.
  vm_compute. repeat split; try reflexivity.
  intros p [<-|[<-|[<-|[<-|[<-|[]]]]]]; reflexivity.
Qed.

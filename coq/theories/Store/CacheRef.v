(** C08 (b) — the reference-counted entries of the accessor cache (store/cache/accessor_cache.go), executable model.

    Two levels.

    LEVEL 1, the entry protocol ([accessor]: [refs], [done], [isClosed]; [addRef], [removeRef], [close]) in an
    arbitrary environment: any thread may try to take a reference of any entry, or start closing any entry, at any
    time.  Steps are the critical sections of [accessor.lock] plus the wait of [close()]:

      addRef     { if isClosed -> miss;  refs++;  if refs == 1 { done = make(chan) } }
      removeRef  { refs--;  if refs <= 0 { close(done) } }                      (close of a closed / nil channel panics)
      close  (1) { if isClosed -> return;  isClosed = true;  d := done }
             (2) wait until d is closed, or the timeout (defaultCloseTimeout) fires;  then Close() the accessor.

    The [done] channel is modelled by a generation counter: [gen] = number of channels made so far (0: nil) and
    [dclosed] = the current one has been closed.  A captured channel of generation [g] is closed iff [g < gen], or
    [g = gen] and [dclosed]; a nil channel ([g = 0]) never is.

    LEVEL 2, the cache around the entries ([AccessorCache]): the LRU with its eviction callback (which spawns a
    goroutine that closes the evicted entry), the striped RW locks ([height mod 256]), and [Get], [GetOrLoad] (replace
    an entry that is being closed), [Remove] cut at the points where other goroutines can interleave.  Level 2 is built
    from the level-1 primitives, and every level-2 step is a (possibly empty) sequence of level-1 steps
    (CacheRefLruProofs.v), so everything proved for level 1 holds inside the cache. *)
From Coq Require Import List ZArith NArith Bool Arith.
From CN Require Import Base.Lts.
Import ListNotations.
Open Scope Z_scope.

(** * Level 1 *)

Record entry := mkE {
  refs : Z;           (* accessor.refs *)
  gen : nat;          (* number of [done] channels made; 0 = nil *)
  dclosed : bool;     (* the current [done] channel is closed *)
  isclosed : bool;    (* accessor.isClosed *)
  closes : nat;       (* calls of Close() on the wrapped accessor made by accessor.close() *)
  forced : bool       (* the close timeout fired for this entry *)
}.

(** as built by GetOrLoad: &accessor{..} followed at once by newRefCloser -> addRef *)
Definition fresh : entry := mkE 1 1 false false 0 false.

Definition add_ref (x : entry) : option entry :=
  if isclosed x then None
  else let r := refs x + 1 in
       Some (if r =? 1 then mkE r (S (gen x)) false (isclosed x) (closes x) (forced x)
             else mkE r (gen x) (dclosed x) (isclosed x) (closes x) (forced x)).

(** returns the new entry and whether close(done) panicked *)
Definition remove_ref (x : entry) : entry * bool :=
  let r := refs x - 1 in
  if r <=? 0 then
    if dclosed x || Nat.eqb (gen x) 0 then (mkE r (gen x) (dclosed x) (isclosed x) (closes x) (forced x), true)
    else (mkE r (gen x) true (isclosed x) (closes x) (forced x), false)
  else (mkE r (gen x) (dclosed x) (isclosed x) (closes x) (forced x), false).

Definition set_closed (x : entry) : entry := mkE (refs x) (gen x) (dclosed x) true (closes x) (forced x).
Definition do_close (x : entry) (timeout : bool) : entry :=
  mkE (refs x) (gen x) (dclosed x) (isclosed x) (S (closes x)) (forced x || timeout).

Definition done_closed (x : entry) (g : nat) : bool :=
  Nat.ltb 0 g && (Nat.ltb g (gen x) || (Nat.eqb g (gen x) && dclosed x)).

Inductive pc1 := Idle | Hold (e : nat) | Wait (e g : nat).

Record st1 := mkSt1 { ents : list entry; thr : list pc1; panics : nat }.

Fixpoint upd {A} (l : list A) (i : nat) (x : A) : list A :=
  match l, i with
  | [], _ => []
  | _ :: l', O => x :: l'
  | y :: l', S i' => y :: upd l' i' x
  end.

Inductive ev1 :=
| ENew (t : nat)              (* load a new accessor and take its first reference *)
| EAddRef (t e : nat)         (* newRefCloser on an existing entry *)
| ERelease (t : nat)          (* refCloser.Close *)
| EClose1 (t e : nat)         (* accessor.close, first critical section *)
| EWait (t : nat)             (* accessor.close, the wait ends because done is closed; Close() *)
| ETimeout (t : nat)          (* accessor.close, the wait ends by timeout; Close() *)
| ESpawn.                     (* a new goroutine *)

Definition step1 (s : st1) (e : ev1) : st1 :=
  match e with
  | ENew t =>
    match nth_error (thr s) t with
    | Some Idle => mkSt1 (ents s ++ [fresh]) (upd (thr s) t (Hold (length (ents s)))) (panics s)
    | _ => s
    end
  | EAddRef t i =>
    match nth_error (thr s) t, nth_error (ents s) i with
    | Some Idle, Some x =>
      match add_ref x with
      | Some x' => mkSt1 (upd (ents s) i x') (upd (thr s) t (Hold i)) (panics s)
      | None => s
      end
    | _, _ => s
    end
  | ERelease t =>
    match nth_error (thr s) t with
    | Some (Hold i) =>
      match nth_error (ents s) i with
      | Some x => let '(x', p) := remove_ref x in
                  mkSt1 (upd (ents s) i x') (upd (thr s) t Idle) (if p then S (panics s) else panics s)
      | None => s
      end
    | _ => s
    end
  | EClose1 t i =>
    match nth_error (thr s) t, nth_error (ents s) i with
    | Some Idle, Some x =>
      if isclosed x then s
      else mkSt1 (upd (ents s) i (set_closed x)) (upd (thr s) t (Wait i (gen x))) (panics s)
    | _, _ => s
    end
  | EWait t =>
    match nth_error (thr s) t with
    | Some (Wait i g) =>
      match nth_error (ents s) i with
      | Some x => if done_closed x g
                  then mkSt1 (upd (ents s) i (do_close x false)) (upd (thr s) t Idle) (panics s)
                  else s
      | None => s
      end
    | _ => s
    end
  | ETimeout t =>
    match nth_error (thr s) t with
    | Some (Wait i g) =>
      match nth_error (ents s) i with
      | Some x => mkSt1 (upd (ents s) i (do_close x true)) (upd (thr s) t Idle) (panics s)
      | None => s
      end
    | _ => s
    end
  | ESpawn => mkSt1 (ents s) (thr s ++ [Idle]) (panics s)
  end.

(** [n] goroutines, no entry *)
Definition init1 (n : nat) : st1 := mkSt1 [] (repeat Idle n) 0.

(** * Level 2 *)

Open Scope N_scope.

Definition stripe (h : N) : N := h mod 256.

Inductive pc2 :=
| PIdle
| PGetL (h : N) (e : nat)        (* Get: stripe RLocked, lru.Get found e; next: addRef, unlock *)
| PGolL (h : N) (e : nat)        (* GetOrLoad: stripe Locked, lru.Get found e; next: addRef *)
| PGolM (h : N)                  (* GetOrLoad: stripe Locked, miss or e is closed; next: load, addRef, lru.Add, unlock *)
| PHold (e : nat)                (* the caller holds a refCloser of e *)
| PRmL (h : N) (e : nat)         (* Remove: lru.Get found e (lock released); next: close (1) *)
| PRmW (h : N) (e g : nat)       (* Remove: in close (2), waiting on the done channel of generation g *)
| PRmR (h : N)                   (* Remove: close returned; next: lru.Remove *)
| PClN (e : nat)                 (* eviction goroutine: next: close (1) *)
| PClW (e g : nat).              (* eviction goroutine: in close (2) *)

Record st2 := mkSt2 {
  c_ents : list entry;
  c_thr : list pc2;
  c_lru : list (N * nat);        (* most recently used first *)
  c_cap : nat;
  c_panics : nat
}.

Fixpoint lru_find (h : N) (l : list (N * nat)) : option nat :=
  match l with [] => None | (k, e) :: l' => if k =? h then Some e else lru_find h l' end.
Fixpoint lru_del (h : N) (l : list (N * nat)) : list (N * nat) :=
  match l with [] => [] | (k, e) :: l' => if k =? h then l' else (k, e) :: lru_del h l' end.
Definition lru_touch (h : N) (l : list (N * nat)) : list (N * nat) :=
  match lru_find h l with Some e => (h, e) :: lru_del h l | None => l end.
(** simplelru.Add: an existing key is updated and moved to the front WITHOUT the eviction callback; a new key is
    pushed and the oldest element evicted (callback) when the size is exceeded *)
Definition lru_add (cap : nat) (h : N) (e : nat) (l : list (N * nat)) : list (N * nat) * option (N * nat) :=
  match lru_find h l with
  | Some _ => ((h, e) :: lru_del h l, None)
  | None =>
    let l' := (h, e) :: l in
    if Nat.ltb cap (length l') then (removelast l', Some (last l' (h, e))) else (l', None)
  end.

Definition writer_on (s : N) (p : pc2) : bool :=
  match p with PGolL h _ | PGolM h => stripe h =? s | _ => false end.
Definition reader_on (s : N) (p : pc2) : bool :=
  match p with PGetL h _ => stripe h =? s | _ => false end.

Inductive ev2 :=
| CGet (t : nat) (h : N)          (* Get: RLock stripe; lru.Get *)
| CGol (t : nat) (h : N)          (* GetOrLoad: Lock stripe; lru.Get *)
| CRm (t : nat) (h : N)           (* Remove: RLock; lru.Get; RUnlock *)
| CStep (t : nat) (loadok : bool) (* the next atomic step of goroutine t; loadok: the loader succeeds (PGolM only) *)
| CRelease (t : nat)              (* refCloser.Close *)
| CTimeout (t : nat).             (* the close timeout of a waiting goroutine fires *)

Definition set_thr (s : st2) (t : nat) (p : pc2) : st2 := mkSt2 (c_ents s) (upd (c_thr s) t p) (c_lru s) (c_cap s) (c_panics s).
Definition set_ent (s : st2) (i : nat) (x : entry) : st2 := mkSt2 (upd (c_ents s) i x) (c_thr s) (c_lru s) (c_cap s) (c_panics s).
Definition set_lru (s : st2) (l : list (N * nat)) : st2 := mkSt2 (c_ents s) (c_thr s) l (c_cap s) (c_panics s).
Definition spawn (s : st2) (p : pc2) : st2 := mkSt2 (c_ents s) (c_thr s ++ [p]) (c_lru s) (c_cap s) (c_panics s).

Definition step2 (s : st2) (e : ev2) : st2 :=
  match e with
  | CGet t h =>
    match nth_error (c_thr s) t with
    | Some PIdle =>
      if existsb (writer_on (stripe h)) (c_thr s) then s
      else match lru_find h (c_lru s) with
           | Some i => set_thr (set_lru s (lru_touch h (c_lru s))) t (PGetL h i)
           | None => s
           end
    | _ => s
    end
  | CGol t h =>
    match nth_error (c_thr s) t with
    | Some PIdle =>
      if existsb (writer_on (stripe h)) (c_thr s) || existsb (reader_on (stripe h)) (c_thr s) then s
      else match lru_find h (c_lru s) with
           | Some i => set_thr (set_lru s (lru_touch h (c_lru s))) t (PGolL h i)
           | None => set_thr s t (PGolM h)
           end
    | _ => s
    end
  | CRm t h =>
    match nth_error (c_thr s) t with
    | Some PIdle =>
      if existsb (writer_on (stripe h)) (c_thr s) then s
      else match lru_find h (c_lru s) with
           | Some i => set_thr (set_lru s (lru_touch h (c_lru s))) t (PRmL h i)
           | None => s
           end
    | _ => s
    end
  | CStep t loadok =>
    match nth_error (c_thr s) t with
    | Some (PGetL h i) =>
      match nth_error (c_ents s) i with
      | Some x => match add_ref x with
                  | Some x' => set_thr (set_ent s i x') t (PHold i)
                  | None => set_thr s t PIdle
                  end
      | None => set_thr s t PIdle
      end
    | Some (PGolL h i) =>
      match nth_error (c_ents s) i with
      | Some x => match add_ref x with
                  | Some x' => set_thr (set_ent s i x') t (PHold i)
                  | None => set_thr s t (PGolM h)
                  end
      | None => set_thr s t (PGolM h)
      end
    | Some (PGolM h) =>
      if loadok then
        let n := length (c_ents s) in
        let '(l', ev) := lru_add (c_cap s) h n (c_lru s) in
        let s1 := mkSt2 (c_ents s ++ [fresh]) (upd (c_thr s) t (PHold n)) l' (c_cap s) (c_panics s) in
        match ev with Some (_, j) => spawn s1 (PClN j) | None => s1 end
      else set_thr s t PIdle
    | Some (PRmL h i) =>
      match nth_error (c_ents s) i with
      | Some x => if isclosed x then set_thr s t (PRmR h)
                  else set_thr (set_ent s i (set_closed x)) t (PRmW h i (gen x))
      | None => set_thr s t (PRmR h)
      end
    | Some (PRmW h i g) =>
      match nth_error (c_ents s) i with
      | Some x => if done_closed x g then set_thr (set_ent s i (do_close x false)) t (PRmR h) else s
      | None => s
      end
    | Some (PRmR h) =>
      match lru_find h (c_lru s) with
      | Some j => spawn (set_thr (set_lru s (lru_del h (c_lru s))) t PIdle) (PClN j)
      | None => set_thr s t PIdle
      end
    | Some (PClN i) =>
      match nth_error (c_ents s) i with
      | Some x => if isclosed x then set_thr s t PIdle
                  else set_thr (set_ent s i (set_closed x)) t (PClW i (gen x))
      | None => set_thr s t PIdle
      end
    | Some (PClW i g) =>
      match nth_error (c_ents s) i with
      | Some x => if done_closed x g then set_thr (set_ent s i (do_close x false)) t PIdle else s
      | None => s
      end
    | _ => s
    end
  | CRelease t =>
    match nth_error (c_thr s) t with
    | Some (PHold i) =>
      match nth_error (c_ents s) i with
      | Some x => let '(x', p) := remove_ref x in
                  mkSt2 (upd (c_ents s) i x') (upd (c_thr s) t PIdle) (c_lru s) (c_cap s)
                        (if p then S (c_panics s) else c_panics s)
      | None => s
      end
    | _ => s
    end
  | CTimeout t =>
    match nth_error (c_thr s) t with
    | Some (PRmW h i g) =>
      match nth_error (c_ents s) i with
      | Some x => set_thr (set_ent s i (do_close x true)) t (PRmR h)
      | None => s
      end
    | Some (PClW i g) =>
      match nth_error (c_ents s) i with
      | Some x => set_thr (set_ent s i (do_close x true)) t PIdle
      | None => s
      end
    | _ => s
    end
  end.

Definition init2 (cap n : nat) : st2 := mkSt2 [] (repeat PIdle n) [] cap 0.

(** every level-2 goroutine seen by level 1 *)
Definition abs_pc (p : pc2) : pc1 :=
  match p with
  | PHold e => Hold e
  | PRmW _ e g | PClW e g => Wait e g
  | _ => Idle
  end.
Definition abs_st (s : st2) : st1 := mkSt1 (c_ents s) (map abs_pc (c_thr s)) (c_panics s).

Definition all_idle (s : st2) : Prop := forall p, In p (c_thr s) -> p = PIdle.
Definition in_lru (s : st2) (i : nat) : Prop := exists h, In (h, i) (c_lru s).

(** * correspondence cases (L2): a scripted schedule of atomic steps run against the real AccessorCache; after every
      step the harness records the LRU order and, per entry, (refs, isClosed, Close() calls of the mock accessor). *)

Definition snapshot : Type := (list (N * nat) * list (Z * bool * nat))%type.

Definition snap (s : st2) : snapshot :=
  (c_lru s, map (fun x => (refs x, isclosed x, closes x)) (c_ents s)).

(** capacity, goroutines, steps; a step without snapshot is one whose end the harness cannot observe because the real
    operation runs on to its next blocking point *)
Definition cache_case : Type := (nat * nat * list (ev2 * option snapshot))%type.

Fixpoint list_eqb {A} (eqb : A -> A -> bool) (a b : list A) : bool :=
  match a, b with
  | [], [] => true
  | x :: a', y :: b' => eqb x y && list_eqb eqb a' b'
  | _, _ => false
  end.

Definition snap_eqb (a b : snapshot) : bool :=
  list_eqb (fun x y => (fst x =? fst y) && Nat.eqb (snd x) (snd y)) (fst a) (fst b) &&
  list_eqb (fun x y => Z.eqb (fst (fst x)) (fst (fst y)) && Bool.eqb (snd (fst x)) (snd (fst y)) && Nat.eqb (snd x) (snd y))
           (snd a) (snd b).

Fixpoint check_steps (s : st2) (l : list (ev2 * option snapshot)) : bool :=
  match l with
  | [] => Nat.eqb (c_panics s) 0
  | (e, o) :: l' =>
    let s' := step2 s e in
    match o with Some o => snap_eqb (snap s') o | None => true end && check_steps s' l'
  end.

Definition check_case (c : cache_case) : bool :=
  let '(cap, n, l) := c in check_steps (init2 cap n) l.

Fixpoint mism_from (i : N) (cs : list cache_case) : list N :=
  match cs with
  | [] => []
  | c :: cs' => if check_case c then mism_from (i + 1) cs' else i :: mism_from (i + 1) cs'
  end.
Definition mismatches (cs : list cache_case) : list N := mism_from 0 cs.

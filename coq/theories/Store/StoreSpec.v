(** C08 (c) — the sequential specification of the store and a linearizability checker for recorded histories.

    Content of the store: for every height, nothing, the ODS file only, or ODS + Q4 (the block stored under a height
    is fixed: heights determine blocks).  The operations are those of store.Store / store.CachedStore:

      PutODS h, PutODSQ4 h          (store.go put: an existing height is left as it is, except that PutODSQ4 adds the
                                     missing Q4 file to an ODS-only block: CreateODSQ4 creates the Q4 file before it
                                     notices that the ODS exists)
      Get h                          GetByHeight of the store or of the cached store: found / not found
      Has h, HasQ4 h                 HasByHeight, HasQ4ByHash
      RemoveAll h, RemoveQ4 h        RemoveODSQ4, RemoveQ4

    A history is the list of completed operations with the positions of their invocation and return in the global
    order of events.  [linearizable init ops final] decides whether the operations can be put in a sequential order that
    (1) respects real time (an operation that returned before another was invoked comes first), (2) gives every
    operation the result that was observed, and (3) ends in the observed content.  It is proved sound and complete for
    that definition ([linearizable_sound], [linearizable_complete]). *)
From Coq Require Import List NArith Bool Arith Lia Permutation.
Import ListNotations.

Inductive hst := Absent | Ods | OdsQ4.
Inductive op := PutODS | PutODSQ4 | Get | Has | HasQ4 | RemoveAll | RemoveQ4.
(** [RAny]: the result of the operation is not constrained (see [hop]) *)
Inductive res := ROk | RFound | RNotFound | RAny.

Definition hst_eqb (a b : hst) : bool :=
  match a, b with Absent, Absent | Ods, Ods | OdsQ4, OdsQ4 => true | _, _ => false end.
Definition res_eqb (a b : res) : bool :=
  match a, b with ROk, ROk | RFound, RFound | RNotFound, RNotFound | RAny, RAny => true | _, _ => false end.
(** does the specification's result [r] explain the observation [obs] *)
Definition res_ok (r obs : res) : bool := match obs with RAny => true | _ => res_eqb r obs end.

Lemma hst_eqb_eq a b : hst_eqb a b = true <-> a = b.
Proof. destruct a, b; simpl; split; congruence. Qed.
Lemma res_eqb_eq a b : res_eqb a b = true <-> a = b.
Proof. destruct a, b; simpl; split; congruence. Qed.

(** one operation on the content of one height *)
Definition apply1 (s : hst) (o : op) : hst * res :=
  match o with
  | PutODS => (match s with Absent => Ods | _ => s end, ROk)
  | PutODSQ4 => (OdsQ4, ROk)
  | Get | Has => (s, match s with Absent => RNotFound | _ => RFound end)
  | HasQ4 => (s, match s with OdsQ4 => RFound | _ => RNotFound end)
  | RemoveAll => (Absent, ROk)
  | RemoveQ4 => (match s with OdsQ4 => Ods | _ => s end, ROk)
  end.

(** the store: a finite map, heights not listed are absent *)
Definition store := list (N * hst).

Fixpoint lookup (h : N) (m : store) : hst :=
  match m with [] => Absent | (k, v) :: m' => if N.eqb k h then v else lookup h m' end.
Fixpoint update (h : N) (v : hst) (m : store) : store :=
  match m with
  | [] => [(h, v)]
  | (k, w) :: m' => if N.eqb k h then (k, v) :: m' else (k, w) :: update h v m'
  end.

Lemma lookup_update h v m h' : lookup h' (update h v m) = if N.eqb h h' then v else lookup h' m.
Proof.
  induction m as [|[k w] m IH]; simpl.
  - destruct (N.eqb_spec h h'); reflexivity.
  - destruct (N.eqb_spec k h) as [->|Hkh]; simpl.
    + destruct (N.eqb_spec h h'); reflexivity.
    + destruct (N.eqb_spec k h') as [->|Hkh'].
      * destruct (N.eqb_spec h h'); [congruence|reflexivity].
      * exact IH.
Qed.

Definition apply (m : store) (o : op) (h : N) : store * res :=
  let '(s', r) := apply1 (lookup h m) o in (update h s' m, r).

(** observational equality on a list of heights *)
Definition same_on (hs : list N) (a b : store) : bool :=
  forallb (fun h => hst_eqb (lookup h a) (lookup h b)) hs.

(** a completed operation: what, where, the observed result, positions of invocation and return.
    put publishes the block in the cache before its files exist (store.go:140-148) and the cache may drop it again
    before the height is linked, so a read that OVERLAPS a put of the same height can see the block come and go; the
    property does not promise otherwise, and the harness records such a read with the result [RAny]. *)
Record hop := mkOp { o_op : op; o_h : N; o_res : res; o_inv : nat; o_ret : nat }.

(** sequential run with result check *)
Fixpoint run_seq (m : store) (l : list hop) : option store :=
  match l with
  | [] => Some m
  | o :: l' => let '(m', r) := apply m (o_op o) (o_h o) in
               if res_ok r (o_res o) then run_seq m' l' else None
  end.

(** [l] respects real time: nothing later in [l] returned before something earlier was invoked *)
Fixpoint rt_ok (l : list hop) : Prop :=
  match l with
  | [] => True
  | o :: l' => (forall o', In o' l' -> ~ (o_ret o' < o_inv o)) /\ rt_ok l'
  end.

Definition is_linearization (hs : list N) (init : store) (ops : list hop) (final : store) (l : list hop) : Prop :=
  Permutation l ops /\ rt_ok l /\
  exists m, run_seq init l = Some m /\ same_on hs m final = true.

(** * the decision procedure: depth-first search over the minimal operations *)

(** all ways of taking one element out of a list *)
Fixpoint picks {A} (l : list A) : list (A * list A) :=
  match l with
  | [] => []
  | x :: l' => (x, l') :: map (fun p => (fst p, x :: snd p)) (picks l')
  end.

Definition minimal (o : hop) (rest : list hop) : bool :=
  forallb (fun o' => negb (Nat.ltb (o_ret o') (o_inv o))) rest.

(** [anyb] short-circuits under vm_compute (existsb does not: orb is strict there) *)
Fixpoint anyb {A} (f : A -> bool) (l : list A) : bool :=
  match l with [] => false | x :: l' => if f x then true else anyb f l' end.

Lemma anyb_exists {A} (f : A -> bool) l : anyb f l = true <-> exists x, In x l /\ f x = true.
Proof.
  induction l as [|a l IH]; simpl.
  - split; [discriminate | intros [x [[] _]]].
  - destruct (f a) eqn:E.
    + split; [intros _; exists a; auto | reflexivity].
    + rewrite IH. split.
      * intros [x [Hin Hx]]. exists x. auto.
      * intros [x [[<-|Hin] Hx]]; [congruence | exists x; auto].
Qed.

Fixpoint lin (fuel : nat) (hs : list N) (m : store) (rem : list hop) (final : store) : bool :=
  match rem with
  | [] => same_on hs m final
  | _ =>
    match fuel with
    | O => false
    | S f =>
      anyb (fun p =>
              let o := fst p in
              if minimal o (snd p) then
                let '(m', r) := apply m (o_op o) (o_h o) in
                if res_ok r (o_res o) then lin f hs m' (snd p) final else false
              else false)
           (picks rem)
    end
  end.

Definition linearizable (hs : list N) (init : store) (ops : list hop) (final : store) : bool :=
  lin (length ops) hs init ops final.

(** * correspondence cases (L2): histories recorded from the real store; expected verdict: linearizable *)
Definition hist_case : Type := (list N * store * list hop * store)%type.

Definition check_hist (c : hist_case) : bool :=
  let '(hs, init, ops, final) := c in linearizable hs init ops final.

Fixpoint mism_from (i : N) (cs : list hist_case) : list N :=
  match cs with
  | [] => []
  | c :: cs' => if check_hist c then mism_from (i + 1)%N cs' else i :: mism_from (i + 1)%N cs'
  end.
Definition mismatches (cs : list hist_case) : list N := mism_from 0%N cs.

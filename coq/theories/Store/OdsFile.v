(** C05 — model of the on-disk block format of the EDS store (store/file/header.go, ods.go, q4.go, square.go,
    share/eds/read.go) at share granularity.

    A share is an opaque payload id plus its namespace; the constant tail-padding share is [tail_share].
    The erasure code is abstract: [parity] (data half -> parity half) and [recover] (parity half -> data half) are
    parameters of every definition that needs them.  A file is a list of atoms with exact byte sizes (header bytes,
    90-byte axis roots, 512-byte shares); readers address it by *byte offset*, exactly as the Go code does
    ([OffsetWithRoots], row/column offsets, [ReadAt] semantics at end of file), so a wrong offset or size constant
    shows up as a misaligned read.

    Executable, no proofs (proofs: OdsFileProofs.v). *)
From Coq Require Import List ZArith NArith Lia Bool.
Import ListNotations.
Open Scope Z_scope.

(** * Shares and namespaces *)
Record share := mkS { sid : N; sns : N }.

(** namespaces are 29 bytes read as a big-endian number: TailPaddingNamespace = ff..fe, ParitySharesNamespace = ff..ff *)
Definition tail_ns : N := Eval vm_compute in (2 ^ 232 - 2)%N.
Definition parity_ns : N := Eval vm_compute in (2 ^ 232 - 1)%N.
Definition tail_share : share := mkS 0 tail_ns.          (* libshare.TailPaddingShare(): a constant *)

Definition share_eqb (a b : share) : bool := N.eqb (sid a) (sid b) && N.eqb (sns a) (sns b).
Definition is_tail (s : share) : bool := N.eqb (sns s) tail_ns.   (* ns.Equals(TailPaddingNamespace) *)

Fixpoint shares_eqb (a b : list share) : bool :=
  match a, b with
  | [], [] => true
  | x :: a', y :: b' => share_eqb x y && shares_eqb a' b'
  | _, _ => false
  end.

(** [Namespace.ValidateForData] on the numeric value: version 0 needs 18 leading zero id bytes (value < 2^80);
    version 255 is supported; neither parity nor tail padding. *)
Definition ns_valid_for_data (n : N) : bool :=
  ((n <? 2 ^ 80) || (255 * 2 ^ 224 <=? n))%N && (n <? 2 ^ 232)%N && negb (N.eqb n parity_ns) && negb (N.eqb n tail_ns).

(** * Squares *)
(** an axis root: opaque digest id plus the min/max namespace prefix the NMT root carries *)
Record root := mkR { rid : N; rmin : N; rmax : N }.
Definition root_eqb (a b : root) : bool := N.eqb (rid a) (rid b) && N.eqb (rmin a) (rmin b) && N.eqb (rmax a) (rmax b).

Record square := mkSq {
  sq_k : nat;               (* ODS width *)
  sq_ods : list share;      (* k*k shares, row-major *)
  sq_roots : list root;     (* 2k row roots then 2k column roots *)
  sq_hash : list Z          (* 32-byte data hash *)
}.

(** shares before the first tail-padding share — what [writeODS] writes and [filledSharesAmount] counts *)
Fixpoint filled (l : list share) : list share :=
  match l with
  | [] => []
  | s :: l' => if is_tail s then [] else s :: filled l'
  end.

Definition byte_ok (b : Z) : bool := (0 <=? b) && (b <? 256).

Fixpoint sorted_ns (l : list share) : bool :=
  match l with
  | [] => true
  | a :: l' => match l' with [] => true | b :: _ => (sns a <=? sns b)%N && sorted_ns l' end
  end.

Definition row_of (k : nat) (m : list share) (i : nat) : list share := firstn k (skipn (i * k) m).
Definition col_of (k : nat) (m : list share) (j : nat) : list share :=
  map (fun i => nth (i * k + j) m tail_share) (seq 0 k).

(** the min/max namespaces an honest row root carries: first and last share of an ODS row (parity leaves are ignored
    for the maximum), the parity namespace for the rows of the lower half *)
Definition row_root_ok (k : nat) (ods : list share) (roots : list root) (i : nat) : bool :=
  let r := nth i roots (mkR 0 0 0) in
  if (i <? k)%nat then N.eqb (rmin r) (sns (hd tail_share (row_of k ods i))) && N.eqb (rmax r) (sns (last (row_of k ods i) tail_share))
  else N.eqb (rmin r) parity_ns && N.eqb (rmax r) parity_ns.

(** valid block: k*k shares; tail padding is the constant share and contiguous at the end (any amount, none to all);
    no share carries the parity namespace; every row is namespace-ordered; the row roots carry the rows' namespace
    ranges; width fits the 16-bit header field. *)
Definition wf (sq : square) : bool :=
  let k := sq_k sq in
  (0 <? k)%nat && (Z.of_nat k <=? 32767) &&
  Nat.eqb (length (sq_ods sq)) (k * k) &&
  Nat.eqb (length (sq_roots sq)) (4 * k) &&
  Nat.eqb (length (sq_hash sq)) 32 && forallb byte_ok (sq_hash sq) &&
  forallb (share_eqb tail_share) (skipn (length (filled (sq_ods sq))) (sq_ods sq)) &&
  forallb (fun s => negb (N.eqb (sns s) parity_ns)) (sq_ods sq) &&
  forallb (fun i => sorted_ns (row_of k (sq_ods sq) i)) (seq 0 k) &&
  forallb (row_root_ok k (sq_ods sq) (sq_roots sq)) (seq 0 (2 * k)).

(** * Files as atoms with byte sizes *)
Inductive atom := AByte (b : Z) | ARoot (r : root) | AShare (s : share).

Definition share_size : Z := 512.       (* libshare.ShareSize *)
Definition root_size : Z := 90.         (* share.AxisRootSize = 2*29 + 32 *)
Definition header_v0_size : Z := 64.    (* headerVOSize *)

Definition asize (a : atom) : Z :=
  match a with AByte _ => 1 | ARoot _ => root_size | AShare _ => share_size end.

Fixpoint fsize (f : list atom) : Z :=
  match f with [] => 0 | a :: f' => asize a + fsize f' end.

(** position the file at byte [off]: [None] = the offset falls inside an atom (garbage would be read) *)
Fixpoint seek (f : list atom) (off : Z) : option (list atom) :=
  match f with
  | [] => if off <? 0 then None else Some []
  | a :: f' =>
      if off =? 0 then Some f
      else if off <? 0 then None
      else if asize a <=? off then seek f' (off - asize a) else None
  end.

(** read up to [len] bytes: whole atoms read and the number of bytes read (a partially read atom contributes bytes only) *)
Fixpoint take (f : list atom) (len : Z) : list atom * Z :=
  match f with
  | [] => ([], 0)
  | a :: f' =>
      if len <=? 0 then ([], 0)
      else if asize a <=? len then let '(l, n) := take f' (len - asize a) in (a :: l, asize a + n)
      else ([], len)
  end.

(** [ReadAt(buf[:len], off)]: atoms and byte count; EOF is not an error for the callers modelled here *)
Definition read_at (f : list atom) (off len : Z) : option (list atom * Z) :=
  match seek f off with
  | Some g => Some (take g len)
  | None => None
  end.

Definition as_byte (a : atom) : option Z := match a with AByte b => Some b | _ => None end.
Definition as_root (a : atom) : option root := match a with ARoot r => Some r | _ => None end.
Definition as_share (a : atom) : option share := match a with AShare s => Some s | _ => None end.

Fixpoint all_some {A B} (f : A -> option B) (l : list A) : option (list B) :=
  match l with
  | [] => Some []
  | a :: l' => match f a, all_some f l' with Some b, Some r => Some (b :: r) | _, _ => None end
  end.

(** * Header (header.go) *)
Record header := mkH { h_version : Z; h_share_size : Z; h_square_size : Z; h_hash : list Z }.

Definition le16 (x : Z) : list Z := [x mod 256; (x / 256) mod 256].
Definition unle16 (bs : list Z) : Z := nth 0 bs 0 + 256 * nth 1 bs 0.

(** [writeHeader]: version byte [headerVersionV0 = 1], then the 64-byte [headerV0.WriteTo] buffer:
    [0] fileVersion, [28..30) shareSize LE, [30..32) squareSize LE, [32..64) data hash. *)
Definition encode_header (h : header) : list Z :=
  [1] ++ [h_version h mod 256] ++ repeat 0 27 ++ le16 (h_share_size h) ++ le16 (h_square_size h)
      ++ firstn 32 (h_hash h ++ repeat 0 32).

(** [readHeader]: one version byte (must be 1), then exactly 64 bytes *)
Definition decode_header (bs : list Z) : option header :=
  match bs with
  | [] => None
  | v :: rest =>
      if negb (v =? 1) then None
      else if (length rest <? 64)%nat then None
      else Some (mkH (nth 0 rest 0) (unle16 (firstn 2 (skipn 28 rest))) (unle16 (firstn 2 (skipn 30 rest)))
                     (firstn 32 (skipn 32 rest)))
  end.

Definition hdr_size : Z := header_v0_size + 1.                                   (* headerV0.Size() *)
Definition roots_size (h : header) : Z := root_size * h_square_size h * 2.        (* RootsSize() *)
Definition offset_with_roots (h : header) : Z := roots_size h + hdr_size.         (* OffsetWithRoots() *)

(** * Readers that work on any file by byte offset (ods.go:424-499, used for both the ODS and the Q4 file) *)

(** the loop of [readRowHalf]: slot [i] is tail padding when [i > shrsRead-1], otherwise the share read *)
Fixpoint fill_row (cnt : nat) (i shrs_read : Z) (atoms : list atom) : option (list share) :=
  match cnt with
  | O => Some []
  | S c =>
      if shrs_read - 1 <? i then option_map (cons tail_share) (fill_row c (i + 1) shrs_read (tl atoms))
      else match atoms with
           | AShare s :: rest => option_map (cons s) (fill_row c (i + 1) shrs_read rest)
           | _ => None
           end
  end.

Definition read_row_half (f : list atom) (h : header) (base : Z) (row : nat) : option (list share) :=
  let ods_ln := h_square_size h / 2 in
  let off := base + Z.of_nat row * ods_ln * h_share_size h in
  match read_at f off (ods_ln * h_share_size h) with
  | None => None
  | Some (atoms, n) => fill_row (Z.to_nat ods_ln) 0 (n / h_share_size h) atoms
  end.

(** the loop of [readColHalf]: one [ReadAt] per share; the first empty read fills the rest with tail padding *)
Fixpoint read_col_loop (f : list atom) (h : header) (base : Z) (col : nat) (cnt : nat) (i : Z) : option (list share) :=
  match cnt with
  | O => Some []
  | S c =>
      let ods_ln := h_square_size h / 2 in
      let pos := Z.of_nat col + i * ods_ln in
      match read_at f (base + pos * h_share_size h) (h_share_size h) with
      | None => None
      | Some (atoms, n) =>
          if n =? 0 then Some (repeat tail_share cnt)
          else match atoms with
               | [AShare s] => option_map (cons s) (read_col_loop f h base col c (i + 1))
               | _ => None            (* short read: NewShare on a partially filled buffer *)
               end
      end
  end.

Definition read_col_half (f : list atom) (h : header) (base : Z) (col : nat) : option (list share) :=
  read_col_loop f h base col (Z.to_nat (h_square_size h / 2)) 0.

Inductive axis := Row | Col.
Definition opposite (a : axis) : axis := match a with Row => Col | Col => Row end.

Definition read_axis_half (f : list atom) (a : axis) (idx : nat) (h : header) (base : Z) : option (list share) :=
  match a with Row => read_row_half f h base idx | Col => read_col_half f h base idx end.

(** [eds.ReadShares(r, shareSize, odsSize)] over a sequential stream: [io.ReadFull] of one share at a time;
    a clean EOF fills the rest with tail padding, a short read is an error. *)
Fixpoint read_shares_loop (stream : list atom) (rest_bytes : Z) (cnt : nat) : option (list share) :=
  match cnt with
  | O => Some []
  | S c =>
      match stream with
      | [] => if rest_bytes =? 0 then Some (repeat tail_share cnt) else None
      | AShare s :: st' => option_map (cons s) (read_shares_loop st' rest_bytes c)
      | _ => None
      end
  end.

(** [io.NewSectionReader(fl, off, len)] drained by [ReadShares] *)
Definition read_shares_section (f : list atom) (off len : Z) (cnt : nat) : option (list share) :=
  match read_at f off len with
  | None => None
  | Some (atoms, n) => read_shares_loop atoms (n - fsize atoms) cnt
  end.

(** cut a row-major list into rows of width k ([readSquare]) *)
Fixpoint chunks (k : nat) (n : nat) (l : list share) : list (list share) :=
  match n with
  | O => []
  | S n' => firstn k l :: chunks k n' (skipn k l)
  end.

(** * The erasure code and the extended square *)
Section Codec.
  Variable parity : list share -> list share.     (* codec.Encode: data half -> parity half *)

  Definition extend (half : list share) : list share := half ++ parity half.      (* share.ExtendShares *)

  Definition ods_row (sq : square) (i : nat) : list share := row_of (sq_k sq) (sq_ods sq) i.
  Definition ods_col (sq : square) (j : nat) : list share := col_of (sq_k sq) (sq_ods sq) j.

  (** quadrant naming of the Go code: Q1 = ODS, Q2 top-right, Q3 bottom-left, Q4 bottom-right.
      rsmt2d extends the rows and columns of Q1, then the rows of Q3. *)
  Definition q2_row (sq : square) (i : nat) : list share := parity (ods_row sq i).
  Definition q3_col (sq : square) (j : nat) : list share := parity (ods_col sq j).
  Definition q3_row (sq : square) (i : nat) : list share :=
    map (fun j => nth i (q3_col sq j) tail_share) (seq 0 (sq_k sq)).
  Definition q4_row (sq : square) (i : nat) : list share := parity (q3_row sq i).

  Definition ext_row (sq : square) (i : nat) : list share :=
    if (i <? sq_k sq)%nat then ods_row sq i ++ q2_row sq i
    else q3_row sq (i - sq_k sq) ++ q4_row sq (i - sq_k sq).

  (** the whole extended square, 2k rows of 2k shares *)
  Definition ext (sq : square) : list (list share) := map (ext_row sq) (seq 0 (2 * sq_k sq)).

  Definition cell_of (e : list (list share)) (i j : nat) : share := nth j (nth i e []) tail_share.
  Definition col_of_ext (e : list (list share)) (j : nat) : list share := map (fun r => nth j r tail_share) e.

  (** ** Writers *)
  Definition header_of (sq : square) : header := mkH 1 share_size (2 * Z.of_nat (sq_k sq)) (sq_hash sq).

  (** [CreateODS]: header, row roots, column roots, shares up to the first tail-padding share *)
  Definition encode_ods (sq : square) : list atom :=
    map AByte (encode_header (header_of sq)) ++ map ARoot (sq_roots sq) ++ map AShare (filled (sq_ods sq)).

  (** [createQ4]: all k*k shares of the bottom-right quadrant, row-major, no header *)
  Definition encode_q4 (sq : square) : list atom :=
    map AShare (concat (map (q4_row sq) (seq 0 (sq_k sq)))).

  (** expected size used by [ValidateODSSize] / [validateQ4Size] *)
  Definition expected_ods_size (sq : square) : Z :=
    offset_with_roots (header_of sq) + Z.of_nat (length (filled (sq_ods sq))) * share_size.
  Definition expected_q4_size (sq : square) : Z := share_size * Z.of_nat (sq_k sq) * Z.of_nat (sq_k sq).

  (** ** Opening and decoding an ODS file *)
  Definition open_ods (f : list atom) : option header :=
    match all_some as_byte (firstn (Z.to_nat hdr_size) f) with
    | Some bs => decode_header bs
    | None => None
    end.

  (** [ODS.AxisRoots]: [RootsSize] bytes at offset [hdr.Size()], all of them must be there *)
  Definition read_roots (f : list atom) (h : header) : option (list root) :=
    match read_at f hdr_size (roots_size h) with
    | Some (atoms, n) => if n =? roots_size h then all_some as_root atoms else None
    | None => None
    end.

  (** [ODS.readODS]: the whole first quadrant through a section reader and [ReadShares] *)
  Definition read_ods_shares (f : list atom) (h : header) : option (list share) :=
    let k := Z.to_nat (h_square_size h / 2) in
    read_shares_section f (offset_with_roots h) (h_share_size h * (h_square_size h / 2) * (h_square_size h / 2)) (k * k).

  (** everything the file says about the block *)
  Definition decode_ods (f : list atom) : option square :=
    match open_ods f with
    | None => None
    | Some h =>
        match read_roots f h, read_ods_shares f h with
        | Some rs, Some shs => Some (mkSq (Z.to_nat (h_square_size h / 2)) shs rs (h_hash h))
        | _, _ => None
        end
    end.
End Codec.

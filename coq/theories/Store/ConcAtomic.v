(** C08 (c) — operations made atomic per height by the stripe lock are linearizable.

    The store's mutators are not atomic on disk: a put creates the ODS file, the Q4 file and finally the height link; a
    removal unlinks and deletes file by file.  They run while holding the (exclusive) lock of the height's stripe
    (part (a): every mutator takes the height stripe; no deadlock).  This file models exactly that: any number of
    goroutines, each with a program of operations; an operation locks the stripe of its height ([EBegin], enabled only
    when no other goroutine holds a lock on that stripe), performs its file-system effects one at a time ([EMicro]),
    interleaved arbitrarily with the steps of the others, and unlocks.

    Theorem [atomic_linearizable]: for EVERY schedule, the operations in the order of their lock acquisitions are a
    sequential execution of the specification (Store/StoreSpec.v) which (1) gives every operation the result it observed,
    (2) is an interleaving of the goroutines' programs, and (3) whenever no operation is in flight the files on disk
    are exactly the content that sequential execution ends in.

    Not in this model: the caches in front of the files (reads that overlap a put can see the block come and go, see
    StoreSpec.v) — they are exercised by the harness. *)
From Coq Require Import List NArith Bool Arith Lia.
From CN Require Import Base.Lts Store.StoreSpec Store.StoreSpecProofs.
Import ListNotations.

(** files of one height: the height link, the ODS file, the Q4 file *)
Record files := mkF { f_link : bool; f_ods : bool; f_q4 : bool }.

Definition conc (s : hst) : files :=
  match s with Absent => mkF false false false | Ods => mkF true true false | OdsQ4 => mkF true true true end.

Inductive mstep := MOds | MQ4 | MLink | MUnlink | MRmOds | MRmQ4.

Definition mrun1 (f : files) (m : mstep) : files :=
  match m with
  | MOds => mkF (f_link f) true (f_q4 f)
  | MQ4 => mkF (f_link f) (f_ods f) true
  | MLink => mkF true (f_ods f) (f_q4 f)
  | MUnlink => mkF false (f_ods f) (f_q4 f)
  | MRmOds => mkF (f_link f) false (f_q4 f)
  | MRmQ4 => mkF (f_link f) (f_ods f) false
  end.

(** store.go: createODSFile / createODSQ4File (files, then the link), removeODSQ4 (link, ODS, Q4), removeQ4 *)
Definition micro (o : op) : list mstep :=
  match o with
  | PutODS => [MOds; MLink]
  | PutODSQ4 => [MQ4; MOds; MLink]
  | RemoveAll => [MUnlink; MRmOds; MRmQ4]
  | RemoveQ4 => [MRmQ4]
  | Get | Has | HasQ4 => []
  end.

(** what a read sees on disk *)
Definition observe (o : op) (f : files) : res :=
  match o with
  | Get | Has => if f_link f then RFound else RNotFound
  | HasQ4 => if f_q4 f then RFound else RNotFound
  | _ => ROk
  end.

Lemma micro_correct s o : fold_left mrun1 (micro o) (conc s) = conc (fst (apply1 s o)).
Proof. destruct s, o; reflexivity. Qed.

Lemma observe_correct s o : observe o (conc s) = snd (apply1 s o).
Proof. destruct s, o; reflexivity. Qed.

Section Atomic.
  Variable stripe_of : N -> N.

  (** a goroutine: the operation in flight (height, effects left) and the rest of its program *)
  Definition gor := (option (N * list mstep) * list (op * N))%type.

  Record cst := mkC {
    g_thr : list gor;
    g_files : N -> files;
    g_log : list (nat * op * N * res)       (* ghost: lock acquisitions in order, with the observed result *)
  }.

  Definition fupd (fs : N -> files) (h : N) (f : files) : N -> files := fun k => if N.eqb k h then f else fs k.

  Definition holds_stripe (st : N) (g : gor) : bool :=
    match fst g with Some (h, _) => N.eqb (stripe_of h) st | None => false end.

  Fixpoint upd {A} (l : list A) (i : nat) (x : A) : list A :=
    match l, i with
    | [], _ => []
    | _ :: l', O => x :: l'
    | y :: l', S i' => y :: upd l' i' x
    end.

  Inductive cev := EBegin (t : nat) | EMicro (t : nat).

  Definition cstep (s : cst) (e : cev) : cst :=
    match e with
    | EBegin t =>
      match nth_error (g_thr s) t with
      | Some (None, (o, h) :: rest) =>
        if existsb (holds_stripe (stripe_of h)) (g_thr s) then s
        else mkC (upd (g_thr s) t (Some (h, micro o), rest)) (g_files s)
                 (g_log s ++ [(t, o, h, observe o (g_files s h))])
      | _ => s
      end
    | EMicro t =>
      match nth_error (g_thr s) t with
      | Some (Some (h, m :: ms), rest) =>
        mkC (upd (g_thr s) t (Some (h, ms), rest)) (fupd (g_files s) h (mrun1 (g_files s h) m)) (g_log s)
      | Some (Some (h, []), rest) => mkC (upd (g_thr s) t (None, rest)) (g_files s) (g_log s)   (* unlock *)
      | _ => s
      end
    end.

  Definition cinit (init : store) (progs : list (list (op * N))) : cst :=
    mkC (map (fun p => (None, p)) progs) (fun h => conc (lookup h init)) [].

  (** sequential replay of the log *)
  Fixpoint replay (m : store) (l : list (nat * op * N * res)) : option store :=
    match l with
    | [] => Some m
    | (_, o, h, r) :: l' => let '(m', r') := apply m o h in if res_eqb r' r then replay m' l' else None
    end.

  Lemma replay_snoc m l t o h r m1 :
    replay m l = Some m1 -> snd (apply m1 o h) = r -> replay m (l ++ [(t, o, h, r)]) = Some (fst (apply m1 o h)).
  Proof.
    revert m. induction l as [|[[[t' o'] h'] r'] l IH]; intros m H Hr; simpl in *.
    - inversion H; subst m. destruct (apply m1 o h) as [m' r0]. simpl in Hr. simpl. rewrite Hr.
      assert (E : res_eqb r r = true) by (apply res_eqb_eq; reflexivity). rewrite E. reflexivity.
    - destruct (apply m o' h') as [m' r0]. destruct (res_eqb r0 r'); [|discriminate]. apply IH; assumption.
  Qed.

  (** operations of goroutine [t] in the log, in order *)
  Definition log_of (t : nat) (l : list (nat * op * N * res)) : list (op * N) :=
    map (fun e => (snd (fst (fst e)), snd (fst e))) (filter (fun e => Nat.eqb (fst (fst (fst e))) t) l).

  Lemma log_of_snoc t l t' o h r :
    log_of t (l ++ [(t', o, h, r)]) = log_of t l ++ (if Nat.eqb t' t then [(o, h)] else []).
  Proof.
    unfold log_of. rewrite filter_app, map_app. simpl. destruct (Nat.eqb t' t); reflexivity.
  Qed.

  Lemma nth_upd_eq {A} (l : list A) i x y : nth_error l i = Some y -> nth_error (upd l i x) i = Some x.
  Proof. revert i. induction l as [|z l IH]; intros [|i] H; simpl in *; try discriminate; auto. Qed.
  Lemma nth_upd_ne {A} (l : list A) i j x : i <> j -> nth_error (upd l i x) j = nth_error l j.
  Proof. revert i j. induction l as [|z l IH]; intros [|i] [|j] H; simpl; auto; congruence. Qed.
  Lemma nth_upd_cases {A} (l : list A) i x j y :
    nth_error (upd l i x) j = Some y -> (j = i /\ y = x) \/ (j <> i /\ nth_error l j = Some y).
  Proof.
    intro H. destruct (Nat.eq_dec i j) as [->|Hne].
    - left. destruct (nth_error l j) eqn:E.
      + rewrite (nth_upd_eq _ _ _ _ E) in H. inversion H. auto.
      + exfalso. assert (Hlen : length (upd l j x) = length l).
        { clear. revert j. induction l as [|z l IH]; intros [|j]; simpl; auto. }
        assert (nth_error (upd l j x) j = None) by (apply nth_error_None; rewrite Hlen; apply nth_error_None; assumption).
        congruence.
    - right. rewrite nth_upd_ne in H by assumption. split; [congruence|assumption].
  Qed.

  Section Run.
    Variables (init : store) (progs : list (list (op * N))).

    (** the invariant *)
    Record cinv (s : cst) : Prop := mkCinv {
      (* the log replays on the specification *)
      ci_replay : exists m, replay init (g_log s) = Some m /\
        (* the files of a height that nobody has locked are the specified content; the files of a locked height
           become the specified content (which already includes the operation in flight) once its remaining effects
           have been performed *)
        forall h, (forall t k ms rest, nth_error (g_thr s) t = Some (Some (k, ms), rest) -> k <> h) ->
                  g_files s h = conc (lookup h m);
      ci_flight : forall t h ms rest, nth_error (g_thr s) t = Some (Some (h, ms), rest) ->
                  exists m, replay init (g_log s) = Some m /\ fold_left mrun1 ms (g_files s h) = conc (lookup h m);
      (* one lock holder per stripe *)
      ci_excl : forall t t' h ms rest h' ms' rest', t <> t' ->
                nth_error (g_thr s) t = Some (Some (h, ms), rest) -> nth_error (g_thr s) t' = Some (Some (h', ms'), rest') ->
                stripe_of h <> stripe_of h';
      (* program order *)
      ci_prog : forall t g, nth_error (g_thr s) t = Some g ->
                exists p, nth_error progs t = Some p /\ log_of t (g_log s) ++ snd g = p;
      ci_len : length (g_thr s) = length progs
    }.

    Lemma log_of_nil t : log_of t [] = [].
    Proof. reflexivity. Qed.

    Lemma cinit_inv : cinv (cinit init progs).
    Proof.
      constructor; simpl.
      - exists init. split; [reflexivity|]. intros; reflexivity.
      - intros t h ms rest H. rewrite nth_error_map in H. destruct (nth_error progs t); discriminate.
      - intros t t' h ms rest h' ms' rest' _ H. rewrite nth_error_map in H. destruct (nth_error progs t); discriminate.
      - intros t g H. rewrite nth_error_map in H. destruct (nth_error progs t) as [p|] eqn:E; [|discriminate].
        inversion H; subst. exists p. auto.
      - apply map_length.
    Qed.

    Lemma replay_det l m1 m2 : replay init l = Some m1 -> replay init l = Some m2 -> m1 = m2.
    Proof. congruence. Qed.

    Lemma upd_len {A} (l : list A) i x : length (upd l i x) = length l.
    Proof. revert i. induction l as [|z l IH]; intros [|i]; simpl; auto. Qed.

    Lemma cstep_inv s e : cinv s -> cinv (cstep s e).
    Proof.
      intros Hinv. pose proof Hinv as [[m [Hrep Hfree]] Hfl Hex Hpr Hlen].
      destruct e as [t|t]; simpl.
      - (* EBegin *)
        destruct (nth_error (g_thr s) t) as [[[cur|] [|[o h] rest]]|] eqn:Ht; try exact Hinv.
        destruct (existsb (holds_stripe (stripe_of h)) (g_thr s)) eqn:Eg; try exact Hinv.
        assert (Hnone : forall u k ms r, nth_error (g_thr s) u = Some (Some (k, ms), r) -> stripe_of k <> stripe_of h).
        { intros u k ms r Hu E.
          assert (existsb (holds_stripe (stripe_of h)) (g_thr s) = true).
          { apply existsb_exists. exists (Some (k, ms), r). split; [eapply nth_error_In; exact Hu|].
            unfold holds_stripe. simpl. apply N.eqb_eq. exact E. }
          congruence. }
        assert (Hfh : g_files s h = conc (lookup h m)).
        { apply Hfree. intros u k ms r Hu E. subst k. eapply Hnone; [exact Hu|reflexivity]. }
        assert (Hrep' : replay init (g_log s ++ [(t, o, h, observe o (g_files s h))]) = Some (fst (apply m o h))).
        { apply replay_snoc; [exact Hrep|]. rewrite Hfh, observe_correct. apply (apply_same m o h). }
        constructor; simpl.
        + exists (fst (apply m o h)). split; [exact Hrep'|].
          intros k Hk. assert (k <> h).
          { intro; subst k. eapply (Hk t h (micro o) rest); [eapply nth_upd_eq; exact Ht | reflexivity]. }
          rewrite apply_other by congruence. apply Hfree.
          intros u k' ms r Hu. apply (Hk u k' ms r). rewrite nth_upd_ne; [exact Hu|]. intro; subst. congruence.
        + intros u k ms r Hu. apply nth_upd_cases in Hu. destruct Hu as [[-> Hq]|[Hne Hu]].
          * inversion Hq; subst. exists (fst (apply m o h)). split; [exact Hrep'|].
            rewrite Hfh, micro_correct. rewrite (proj1 (apply_same m o h)). reflexivity.
          * destruct (Hfl u k ms r Hu) as [m' [Hm' Hf]]. assert (m' = m) by congruence. subst m'.
            exists (fst (apply m o h)). split; [exact Hrep'|]. rewrite Hf.
            rewrite apply_other; [reflexivity|]. intro; subst k. eapply Hnone; [exact Hu|reflexivity].
        + intros u u' k ms r k' ms' r' Hne Hu Hu'.
          apply nth_upd_cases in Hu. apply nth_upd_cases in Hu'.
          destruct Hu as [[-> Hq]|[Hnu Hu]], Hu' as [[-> Hq']|[Hnu' Hu']]; try congruence.
          * inversion Hq; subst. intro E. eapply Hnone; [exact Hu' | symmetry; exact E].
          * inversion Hq'; subst. eapply Hnone; exact Hu.
          * eapply (Hex u u'); eassumption.
        + intros u g Hu. apply nth_upd_cases in Hu. destruct Hu as [[-> Hq]|[Hne Hu]].
          * subst g. destruct (Hpr t _ Ht) as [p [Hp Hl]]. exists p. split; [exact Hp|].
            rewrite log_of_snoc, Nat.eqb_refl. simpl in *. rewrite <- app_assoc. exact Hl.
          * destruct (Hpr u g Hu) as [p [Hp Hl]]. exists p. split; [exact Hp|].
            rewrite log_of_snoc. rewrite (proj2 (Nat.eqb_neq t u)) by congruence. rewrite app_nil_r. exact Hl.
        + rewrite upd_len. exact Hlen.
      - (* EMicro *)
        destruct (nth_error (g_thr s) t) as [[[[h [|mm ms]]|] rest]|] eqn:Ht; try exact Hinv.
        + (* unlock *)
          destruct (Hfl t h [] rest Ht) as [m' [Hm' Hf]]. assert (m' = m) by congruence. subst m'. simpl in Hf.
          constructor; simpl.
          * exists m. split; [exact Hrep|]. intros k Hk.
            destruct (N.eq_dec k h) as [->|Hne]; [exact Hf|].
            apply Hfree. intros u k' ms r Hu. destruct (Nat.eq_dec u t) as [->|Hut].
            -- rewrite Ht in Hu. inversion Hu; subst. congruence.
            -- apply (Hk u k' ms r). rewrite nth_upd_ne by congruence. exact Hu.
          * intros u k ms r Hu. apply nth_upd_cases in Hu. destruct Hu as [[_ Hq]|[_ Hu]]; [discriminate|]. eapply Hfl; exact Hu.
          * intros u u' k ms r k' ms' r' Hne Hu Hu'.
            apply nth_upd_cases in Hu. apply nth_upd_cases in Hu'.
            destruct Hu as [[_ Hq]|[_ Hu]]; [discriminate|]. destruct Hu' as [[_ Hq']|[_ Hu']]; [discriminate|].
            eapply (Hex u u'); eassumption.
          * intros u g Hu. apply nth_upd_cases in Hu. destruct Hu as [[-> Hq]|[Hne Hu]].
            -- subst g. destruct (Hpr t _ Ht) as [p [Hp Hl]]. exists p. auto.
            -- apply Hpr. exact Hu.
          * rewrite upd_len. exact Hlen.
        + (* one effect *)
          constructor; simpl.
          * exists m. split; [exact Hrep|]. intros k Hk.
            assert (k <> h) by (intro; subst k; eapply (Hk t h ms rest); [eapply nth_upd_eq; exact Ht | reflexivity]).
            unfold fupd. rewrite (proj2 (N.eqb_neq k h)) by assumption.
            apply Hfree. intros u k' ms' r Hu. destruct (Nat.eq_dec u t) as [->|Hut].
            -- rewrite Ht in Hu. inversion Hu; subst. congruence.
            -- apply (Hk u k' ms' r). rewrite nth_upd_ne by congruence. exact Hu.
          * intros u k ms' r Hu. apply nth_upd_cases in Hu. destruct Hu as [[-> Hq]|[Hne Hu]].
            -- inversion Hq; subst k ms' r. destruct (Hfl t h (mm :: ms) rest Ht) as [m' [Hm' Hf]]. exists m'. split; [exact Hm'|].
               unfold fupd. rewrite N.eqb_refl. exact Hf.
            -- destruct (Hfl u k ms' r Hu) as [m' [Hm' Hf]]. exists m'. split; [exact Hm'|].
               unfold fupd. assert (k <> h).
               { intro; subst k. eapply (Hex u t h ms' r h (mm :: ms) rest); [exact Hne | exact Hu | exact Ht | reflexivity]. }
               rewrite (proj2 (N.eqb_neq k h)) by assumption. exact Hf.
          * intros u u' k ms1 r k' ms' r' Hne Hu Hu'.
            apply nth_upd_cases in Hu. apply nth_upd_cases in Hu'.
            destruct Hu as [[-> Hq]|[Hnu Hu]], Hu' as [[-> Hq']|[Hnu' Hu']]; try congruence.
            -- inversion Hq; subst k ms1 r. eapply (Hex t u' h (mm :: ms) rest k' ms' r'); eassumption.
            -- inversion Hq'; subst k' ms' r'. eapply (Hex u t k ms1 r h (mm :: ms) rest); eassumption.
            -- eapply (Hex u u'); eassumption.
          * intros u g Hu. apply nth_upd_cases in Hu. destruct Hu as [[-> Hq]|[Hne Hu]].
            -- subst g. destruct (Hpr t _ Ht) as [p [Hp Hl]]. exists p. auto.
            -- apply Hpr. exact Hu.
          * rewrite upd_len. exact Hlen.
    Qed.

    Theorem creach_inv es : cinv (run cstep (cinit init progs) es).
    Proof. apply run_inv; [intros; apply cstep_inv; assumption | apply cinit_inv]. Qed.

    Definition no_flight (s : cst) : Prop := forall g, In g (g_thr s) -> fst g = None.
    Definition finished (s : cst) : Prop := forall g, In g (g_thr s) -> g = (None, []).

    (** for every schedule *)
    Theorem atomic_linearizable es :
      let s := run cstep (cinit init progs) es in
      exists m,
        (* (1) the lock-acquisition order is a sequential execution that explains every observed result *)
        replay init (g_log s) = Some m /\
        (* (2) it keeps every goroutine's program order: what goroutine t has done so far is a prefix of its program *)
        (forall t p, nth_error progs t = Some p -> exists rest, log_of t (g_log s) ++ rest = p /\
                                                       (finished s -> rest = [])) /\
        (* (3) with no operation in flight the files are the content that execution ends in *)
        (no_flight s -> forall h, g_files s h = conc (lookup h m)).
    Proof.
      intros s. destruct (creach_inv es) as [[m [Hrep Hfree]] _ _ Hpr Hlen]. fold s in Hrep, Hfree, Hpr, Hlen.
      exists m. split; [exact Hrep|]. split.
      - intros t p Hp. assert (Ht : t < length (g_thr s)) by (rewrite Hlen; apply nth_error_Some; congruence).
        destruct (nth_error (g_thr s) t) as [g|] eqn:Eg; [|apply nth_error_None in Eg; lia].
        destruct (Hpr t g Eg) as [p' [Hp' Hl]]. assert (Epp : p' = p) by congruence. rewrite Epp in Hl.
        exists (snd g). split; [exact Hl|]. intro Hfin. rewrite (Hfin g) by (eapply nth_error_In; exact Eg). reflexivity.
      - intros Hnf h. apply Hfree. intros t k ms rest Ht.
        apply nth_error_In in Ht. specialize (Hnf _ Ht). discriminate.
    Qed.
  End Run.
End Atomic.

(** non-vacuity: a removal and a put of one height interleaved with a put of another height on another stripe; the
    removal's effects are spread over the schedule, the put of the same height has to wait for the unlock *)
Example atomic_example :
  let progs := [[(RemoveAll, 5%N)]; [(PutODSQ4, 5%N); (HasQ4, 5%N)]; [(PutODS, 6%N)]] in
  let es := [EBegin 0; EMicro 0; EBegin 1 (* refused: stripe held *); EBegin 2; EMicro 0; EMicro 2; EMicro 0; EMicro 0;
             EBegin 1; EMicro 2; EMicro 1; EMicro 1; EMicro 2; EMicro 1; EMicro 1; EBegin 1; EMicro 1] in
  let s := run (cstep (fun h => N.modulo h 1024)) (cinit [(5%N, Ods)] progs) es in
  g_log s = [(0, RemoveAll, 5%N, ROk); (2, PutODS, 6%N, ROk); (1, PutODSQ4, 5%N, ROk); (1, HasQ4, 5%N, RFound)] /\
  g_files s 5%N = conc OdsQ4 /\ g_files s 6%N = conc Ods /\ g_thr s = [(None, []); (None, []); (None, [])].
Proof. vm_compute. repeat split; reflexivity. Qed.

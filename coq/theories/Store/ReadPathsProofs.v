(** C05 — proofs about the read paths (ReadPaths.v): every request, on every representation, after any history of
    earlier requests on the same accessor, returns what the request means on the block itself. *)
From Coq Require Import List ZArith NArith Lia Bool Arith ZifyBool.
From CN Require Import Store.OdsFile Store.OdsFileProofs Store.ReadPaths.
Import ListNotations.
Open Scope Z_scope.

(** * More list facts *)
Lemma all_some_ext {A B} (f : A -> option B) (g : A -> B) l :
  (forall x, In x l -> f x = Some (g x)) -> all_some f l = Some (map g l).
Proof.
  induction l as [|a l IH]; intros H; cbn; [reflexivity|].
  rewrite H by (left; reflexivity). rewrite IH by (intros x Hx; apply H; right; exact Hx). reflexivity.
Qed.

Lemma firstn_map_seq {A} (f : nat -> A) a n m : (n <= m)%nat -> firstn n (map f (seq a m)) = map f (seq a n).
Proof.
  intros H. replace m with (n + (m - n))%nat by lia. rewrite seq_app, map_app, firstn_app.
  rewrite map_length, seq_length, Nat.sub_diag, firstn_O, app_nil_r.
  rewrite firstn_all2 by (rewrite map_length, seq_length; lia). reflexivity.
Qed.

Lemma skipn_map_seq {A} (f : nat -> A) a n m : (n <= m)%nat -> skipn n (map f (seq a m)) = map f (seq (a + n) (m - n)).
Proof.
  intros H. replace m with (n + (m - n))%nat at 1 by lia. rewrite seq_app, map_app, skipn_app.
  rewrite map_length, seq_length, Nat.sub_diag. rewrite skipn_all2 by (rewrite map_length, seq_length; lia). reflexivity.
Qed.

Lemma map_seq_shift {A} (f : nat -> A) a n : map f (seq a n) = map (fun i => f (a + i)%nat) (seq 0 n).
Proof.
  revert a; induction n as [|n IH]; intros a; [reflexivity|]. cbn [seq map]. f_equal; [f_equal; lia|].
  rewrite IH. rewrite <- seq_shift, map_map. apply map_ext. intros i. f_equal. lia.
Qed.

Lemma chunks_eq_map k n l : chunks k n l = map (row_of k l) (seq 0 n).
Proof.
  apply nth_ext with (d := []) (d' := []).
  - rewrite chunks_length, map_length, seq_length. reflexivity.
  - intros i Hi. rewrite chunks_length in Hi. rewrite nth_chunks by exact Hi. rewrite nth_map_seq by exact Hi. reflexivity.
Qed.

Lemma filter_none {A} (p : A -> bool) l : (forall x, In x l -> p x = false) -> filter p l = [].
Proof.
  induction l as [|a l IH]; intros H; cbn; [reflexivity|].
  rewrite H by (left; reflexivity). apply IH. intros x Hx. apply H. right. exact Hx.
Qed.

Lemma div2_double n : Nat.div (2 * n) 2 = n.
Proof. rewrite Nat.mul_comm. apply Nat.div_mul. lia. Qed.

Section Reads.
  Variable parity : list share -> list share.
  Variable recover : list share -> list share.
  Hypothesis parity_length : forall l, length (parity l) = length l.
  Hypothesis recover_parity : forall l, recover (parity l) = l.

  Variable sq : square.
  Hypothesis Hwf : wf sq = true.

  Let k := sq_k sq.
  Let E := ext parity sq.
  Let h := header_of sq.
  Let ods := sq_ods sq.

  Local Notation erow := (ext_row parity sq).

  Lemma k_pos : (0 < k)%nat.
  Proof. destruct (wf_facts sq Hwf) as (H & _). exact H. Qed.

  Lemma ods_length : length ods = (k * k)%nat.
  Proof. destruct (wf_facts sq Hwf) as (_ & _ & H & _). exact H. Qed.

  Lemma ods_row_length i : (i < k)%nat -> length (ods_row sq i) = k.
  Proof. intros H. unfold ods_row. apply row_of_length. fold ods k. rewrite ods_length. nia. Qed.

  Lemma ods_col_length j : length (ods_col sq j) = k.
  Proof. apply col_of_length. Qed.

  Lemma q2_row_length i : (i < k)%nat -> length (q2_row parity sq i) = k.
  Proof. intros H. unfold q2_row. rewrite parity_length. apply ods_row_length. exact H. Qed.

  (** ** rows of the extended square *)
  Lemma erow_top i : (i < k)%nat -> erow i = ods_row sq i ++ q2_row parity sq i.
  Proof. intros H. unfold ext_row. fold k. apply Nat.ltb_lt in H. rewrite H. reflexivity. Qed.

  Lemma erow_bottom i : (k <= i)%nat -> erow i = q3_row parity sq (i - k) ++ q4_row parity sq (i - k).
  Proof. intros H. unfold ext_row. fold k. apply Nat.ltb_ge in H. rewrite H. reflexivity. Qed.

  Lemma erow_length i : (i < 2 * k)%nat -> length (erow i) = (2 * k)%nat.
  Proof.
    intros H. destruct (Nat.lt_ge_cases i k) as [Hlt|Hge].
    - rewrite erow_top, app_length, ods_row_length, q2_row_length by exact Hlt. lia.
    - rewrite erow_bottom, app_length, (q3_row_length parity sq), (q4_row_length parity parity_length sq) by exact Hge. fold k. lia.
  Qed.

  Lemma firstn_erow i : (i < 2 * k)%nat ->
    firstn k (erow i) = if (i <? k)%nat then ods_row sq i else q3_row parity sq (i - k).
  Proof.
    intros H. destruct (i <? k)%nat eqn:Ei.
    - apply Nat.ltb_lt in Ei. rewrite erow_top by exact Ei.
      rewrite firstn_app, ods_row_length, Nat.sub_diag, firstn_O, app_nil_r by exact Ei.
      apply firstn_all2. rewrite ods_row_length by exact Ei. lia.
    - apply Nat.ltb_ge in Ei. rewrite erow_bottom by exact Ei.
      rewrite firstn_app, (q3_row_length parity sq). fold k. rewrite Nat.sub_diag, firstn_O, app_nil_r.
      apply firstn_all2. rewrite (q3_row_length parity sq). fold k. lia.
  Qed.

  Lemma skipn_erow i : (i < 2 * k)%nat ->
    skipn k (erow i) = if (i <? k)%nat then q2_row parity sq i else q4_row parity sq (i - k).
  Proof.
    intros H. destruct (i <? k)%nat eqn:Ei.
    - apply Nat.ltb_lt in Ei. rewrite erow_top by exact Ei.
      rewrite skipn_app, ods_row_length, Nat.sub_diag by exact Ei. cbn [skipn].
      rewrite skipn_all2 by (rewrite ods_row_length by exact Ei; lia). reflexivity.
    - apply Nat.ltb_ge in Ei. rewrite erow_bottom by exact Ei.
      rewrite skipn_app, (q3_row_length parity sq). fold k. rewrite Nat.sub_diag. cbn [skipn].
      rewrite skipn_all2 by (rewrite (q3_row_length parity sq); fold k; lia). reflexivity.
  Qed.

  Lemma E_length : length E = (2 * k)%nat.
  Proof. unfold E, ext. rewrite map_length, seq_length. reflexivity. Qed.

  Lemma nth_E i : (i < 2 * k)%nat -> nth i E [] = erow i.
  Proof. intros H. unfold E, ext. fold k. rewrite nth_map_seq by exact H. reflexivity. Qed.

  (** ** columns of the extended square *)
  Lemma col_E j : col_of_ext E j = map (fun i => nth j (erow i) tail_share) (seq 0 (2 * k)).
  Proof. unfold col_of_ext, E, ext. fold k. rewrite map_map. reflexivity. Qed.

  Lemma firstn_col_E j : firstn k (col_of_ext E j) = map (fun i => nth j (erow i) tail_share) (seq 0 k).
  Proof. rewrite col_E. apply firstn_map_seq. lia. Qed.

  Lemma skipn_col_E j : skipn k (col_of_ext E j) = map (fun i => nth j (erow (k + i)) tail_share) (seq 0 k).
  Proof.
    rewrite col_E. rewrite skipn_map_seq by lia. replace (2 * k - k)%nat with k by lia.
    rewrite map_seq_shift. reflexivity.
  Qed.

  (** ** a served half, extended, is the axis (rows) *)
  Lemma extended_row_half i p : (i < 2 * k)%nat -> extended parity recover (p, half_of parity sq Row i p) = erow i.
  Proof.
    intros H. unfold extended, half_of. fold k. destruct p.
    - rewrite <- (firstn_skipn k (erow i)) at 3. f_equal.
      rewrite skipn_erow by exact H. destruct (i <? k)%nat eqn:Ei.
      + unfold q2_row. rewrite recover_parity. rewrite firstn_erow, Ei by exact H. reflexivity.
      + unfold q4_row. rewrite recover_parity. rewrite firstn_erow, Ei by exact H. reflexivity.
    - rewrite <- (firstn_skipn k (erow i)) at 3. f_equal.
      rewrite firstn_erow, skipn_erow by exact H. destruct (i <? k)%nat; reflexivity.
  Qed.

  (** * The accessors below the wrappers *)
  Definition cache_ok (c : option (list (list share))) : Prop := c = None \/ c = Some (chunks k k ods).

  Definition inner_ok (r : rep) (x : inner) : Prop :=
    match x with
    | IMem m => r = RepMem /\ m = mkMem E (sq_roots sq) (sq_hash sq)
    | IFile a => r <> RepMem /\ fa_ods a = encode_ods sq /\ fa_hdr a = h /\
                 fa_q4 a = (if has_q4 r then Some (encode_q4 parity sq) else None) /\ cache_ok (fa_cache a)
    end.

  Lemma hdr_k : Z.to_nat (h_square_size h / 2) = k.
  Proof. destruct (hdr_fields sq Hwf) as (_ & _ & Hd). fold h k in Hd. rewrite Hd. apply Nat2Z.id. Qed.

  Lemma open_inner_ok r x : open_inner parity sq r = Some x -> inner_ok r x.
  Proof.
    unfold open_inner. destruct r; cbn [has_q4].
    - intros [= <-]. cbn. split; reflexivity.
    - rewrite (open_encode sq Hwf). intros [= <-]. cbn. repeat split; try discriminate. left; reflexivity.
    - rewrite (open_encode sq Hwf). intros [= <-]. cbn. repeat split; try discriminate. left; reflexivity.
    - rewrite (open_encode sq Hwf). intros [= <-]. cbn. repeat split; try discriminate. left; reflexivity.
  Qed.

  Lemma open_inner_some r : exists x, open_inner parity sq r = Some x.
  Proof.
    unfold open_inner. destruct r; cbn [has_q4]; try rewrite (open_encode sq Hwf); eexists; reflexivity.
  Qed.

  (** the first quadrant: a row / a column of the ODS is the data half of the extended axis *)
  Lemma row_is_half i : (i < k)%nat -> row_of k ods i = half_of parity sq Row i false.
  Proof.
    intros H. unfold half_of. fold k. rewrite firstn_erow by lia. apply Nat.ltb_lt in H. rewrite H. reflexivity.
  Qed.

  Lemma col_is_half j : (j < k)%nat -> col_of k ods j = half_of parity sq Col j false.
  Proof.
    intros H. unfold half_of. fold k E. rewrite firstn_col_E. unfold col_of.
    apply map_ext_in. intros i Hi. apply in_seq in Hi.
    rewrite erow_top by lia. rewrite app_nth1 by (rewrite ods_row_length; lia).
    unfold ods_row. fold k ods. rewrite nth_row_of by exact H. reflexivity.
  Qed.

  Lemma square_row s i : s = chunks k k ods -> (i < k)%nat -> square_axis_half s Row i = Some (row_of k ods i).
  Proof.
    intros -> H. unfold square_axis_half. rewrite chunks_length.
    replace (k <=? i)%nat with false by (symmetry; apply Nat.leb_gt; exact H).
    rewrite nth_chunks by exact H. reflexivity.
  Qed.

  Lemma square_col s j : s = chunks k k ods -> (j < k)%nat -> square_axis_half s Col j = Some (col_of k ods j).
  Proof.
    intros -> H. unfold square_axis_half. rewrite chunks_length.
    replace (k <=? j)%nat with false by (symmetry; apply Nat.leb_gt; exact H).
    rewrite chunks_eq_map, map_map. f_equal. unfold col_of. apply map_ext_in. intros i Hi. apply in_seq in Hi.
    apply nth_row_of. exact H.
  Qed.

  Lemma square_axis s ax i : s = chunks k k ods -> (i < k)%nat ->
    square_axis_half s ax i = Some (half_of parity sq ax i false).
  Proof.
    intros Hs H. destruct ax.
    - rewrite (square_row s i Hs H), row_is_half by exact H. reflexivity.
    - rewrite (square_col s i Hs H), col_is_half by exact H. reflexivity.
  Qed.

  (** [ODS.readAxisHalf] for an axis of the first half, with or without the cached square *)
  Lemma ods_read_axis_half_ok a ax i :
    fa_ods a = encode_ods sq -> fa_hdr a = h -> cache_ok (fa_cache a) -> (i < k)%nat ->
    ods_read_axis_half a ax i = Some (half_of parity sq ax i false).
  Proof.
    intros Hf Hh Hc Hi. unfold ods_read_axis_half. destruct Hc as [-> | ->].
    - rewrite Hf, Hh. destruct ax; cbn [read_axis_half].
      + unfold h. rewrite (read_row_half_ods sq Hwf i Hi). fold k ods. rewrite row_is_half by exact Hi. reflexivity.
      + unfold h. rewrite (read_col_half_ods sq Hwf i Hi). fold k ods. rewrite col_is_half by exact Hi. reflexivity.
    - apply square_axis; [reflexivity|exact Hi].
  Qed.

  (** [ODS.readODS] *)
  Lemma ods_read_ods_ok a r :
    inner_ok r (IFile a) ->
    exists a', ods_read_ods a = (Some (chunks k k ods), a') /\ inner_ok r (IFile a').
  Proof.
    intros (Hr & Hf & Hh & Hq & Hc). unfold ods_read_ods. destruct Hc as [Hc | Hc]; rewrite Hc.
    - rewrite Hf, Hh. unfold h. rewrite (read_ods_shares_encode sq Hwf). unfold fa_k. rewrite Hh, hdr_k.
      eexists. split; [reflexivity|]. cbn. repeat split; try assumption. right. reflexivity.
    - exists a. split; [reflexivity|]. cbn. repeat split; try assumption. right. exact Hc.
  Qed.

  (** [square.computeAxisHalf] for an axis of the second half *)
  Lemma compute_axis_half_ok ax i :
    (k <= i < 2 * k)%nat -> compute_axis_half parity (chunks k k ods) ax i = Some (half_of parity sq ax i false).
  Proof.
    intros Hi. unfold compute_axis_half. rewrite chunks_length.
    rewrite all_some_ext with (g := fun i' => nth (i - k) (parity (half_of parity sq (opposite ax) i' false)) tail_share).
    2:{ intros i' Hin. apply in_seq in Hin. rewrite square_axis by (try reflexivity; lia). reflexivity. }
    f_equal. unfold half_of at 2. fold k E. destruct ax; cbn [opposite].
    - (* a row of the lower half: from the columns of the ODS *)
      rewrite firstn_erow by lia. replace (i <? k)%nat with false by (symmetry; apply Nat.ltb_ge; lia).
      unfold q3_row. fold k. apply map_ext_in. intros j Hj. apply in_seq in Hj.
      rewrite <- col_is_half by lia. reflexivity.
    - (* a column of the right half: from the rows of the ODS *)
      rewrite firstn_col_E. apply map_ext_in. intros r Hr. apply in_seq in Hr.
      rewrite <- row_is_half by lia. rewrite erow_top by lia.
      rewrite app_nth2 by (rewrite ods_row_length; lia). rewrite ods_row_length by lia. reflexivity.
  Qed.

  Lemma fa_k_ok a : fa_hdr a = h -> fa_k a = k.
  Proof. intros H. unfold fa_k. rewrite H. apply hdr_k. Qed.

  (** [ODS.AxisHalf] *)
  Lemma ods_axis_half_ok a r ax i :
    inner_ok r (IFile a) -> (i < 2 * k)%nat ->
    exists a', ods_axis_half parity a ax i = (Some (false, half_of parity sq ax i false), a') /\ inner_ok r (IFile a').
  Proof.
    intros Hok Hi. pose proof Hok as (Hr & Hf & Hh & Hq & Hc). unfold ods_axis_half. rewrite (fa_k_ok a Hh).
    destruct (i <? k)%nat eqn:Ei.
    - apply Nat.ltb_lt in Ei. rewrite (ods_read_axis_half_ok a ax i Hf Hh Hc Ei). exists a. split; [reflexivity|exact Hok].
    - apply Nat.ltb_ge in Ei. destruct (ods_read_ods_ok a r Hok) as (a' & Ha' & Hok'). rewrite Ha'.
      rewrite compute_axis_half_ok by lia. exists a'. split; [reflexivity|exact Hok'].
  Qed.

  (** [q4.axisHalf] *)
  Lemma q4_axis_half_ok a ax i :
    fa_hdr a = h -> (k <= i < 2 * k)%nat ->
    q4_axis_half a (encode_q4 parity sq) ax i = Some (true, half_of parity sq ax i true).
  Proof.
    intros Hh Hi. unfold q4_axis_half. rewrite (fa_k_ok a Hh), Hh. destruct ax; cbn [read_axis_half].
    - unfold h. rewrite (read_row_half_q4 parity parity_length sq Hwf) by (fold k; lia). cbn [option_map]. f_equal. f_equal.
      unfold half_of. fold k. rewrite skipn_erow by lia.
      replace (i <? k)%nat with false by (symmetry; apply Nat.ltb_ge; lia). reflexivity.
    - unfold h. rewrite (read_col_half_q4 parity parity_length sq Hwf) by (fold k; lia). cbn [option_map]. f_equal. f_equal.
      unfold half_of. fold k E. rewrite skipn_col_E. apply map_ext_in. intros r Hr. apply in_seq in Hr.
      rewrite erow_bottom by lia. replace (k + r - k)%nat with r by lia.
      rewrite app_nth2 by (rewrite (q3_row_length parity sq); fold k; lia).
      rewrite (q3_row_length parity sq). reflexivity.
  Qed.

  (** [ODSQ4.AxisHalf] / [Rsmt2D.AxisHalf]: whatever the representation, a correct half; never the parity half for an
      axis of the first half *)
  Lemma in_axis_half_ok r x ax i :
    inner_ok r x -> (i < 2 * k)%nat ->
    exists p x', in_axis_half parity x ax i = (Some (p, half_of parity sq ax i p), x') /\ inner_ok r x' /\
                 ((i < k)%nat -> p = false).
  Proof.
    intros Hok Hi. destruct x as [m | a].
    - destruct Hok as (Hr & ->). exists false, (IMem (mkMem E (sq_roots sq) (sq_hash sq))).
      split; [|split; [split; [exact Hr|reflexivity]|reflexivity]].
      cbn [in_axis_half]. unfold mem_axis_half, m_k, m_axis. cbn [m_eds]. rewrite E_length, div2_double.
      f_equal. f_equal. f_equal. unfold half_of. fold k E. destruct ax; [rewrite nth_E by exact Hi|]; reflexivity.
    - pose proof Hok as (Hr & Hf & Hh & Hq & Hc). cbn [in_axis_half]. unfold file_axis_half. rewrite Hq.
      destruct (has_q4 r) eqn:Eq.
      + rewrite (fa_k_ok a Hh). destruct (k <=? i)%nat eqn:Ei.
        * apply Nat.leb_le in Ei. rewrite q4_axis_half_ok by (try exact Hh; lia).
          exists true, (IFile a). split; [reflexivity|]. split; [exact Hok|lia].
        * destruct (ods_axis_half_ok a r ax i Hok Hi) as (a' & Ha' & Hok'). rewrite Ha'.
          exists false, (IFile a'). split; [reflexivity|]. split; [exact Hok'|reflexivity].
      + destruct (ods_axis_half_ok a r ax i Hok Hi) as (a' & Ha' & Hok'). rewrite Ha'.
        exists false, (IFile a'). split; [reflexivity|]. split; [exact Hok'|reflexivity].
  Qed.

  (** * The proofs cache is a memo: entries are always correct halves / correct extended rows *)
  Definition entry_ok (e : pentry) : Prop :=
    (pe_idx e < 2 * k)%nat /\
    snd (pe_half e) = half_of parity sq (pe_axis e) (pe_idx e) (fst (pe_half e)) /\
    ((pe_idx e < k)%nat -> fst (pe_half e) = false) /\
    (pe_shares e = None \/ (pe_axis e = Row /\ pe_shares e = Some (erow (pe_idx e)))).

  Definition winv (r : rep) (w : wstate) : Prop := inner_ok r (w_inner w) /\ Forall entry_ok (w_cache w).

  Lemma axis_eqb_eq a b : axis_eqb a b = true -> a = b.
  Proof. destruct a, b; cbn; intros; congruence. Qed.

  Lemma pc_find_some c ax i e : pc_find c ax i = Some e -> In e c /\ pe_axis e = ax /\ pe_idx e = i.
  Proof.
    induction c as [|x c IH]; cbn; [discriminate|].
    destruct (axis_eqb (pe_axis x) ax && Nat.eqb (pe_idx x) i) eqn:Ex.
    - intros [= <-]. apply andb_true_iff in Ex as [E1 E2]. apply axis_eqb_eq in E1. apply Nat.eqb_eq in E2.
      split; [left; reflexivity|split; assumption].
    - intros H. destruct (IH H) as (Hin & Ha & Hi). split; [right; exact Hin|split; assumption].
  Qed.

  Lemma open_wrapped_inv r w : open_wrapped parity sq r = Some w -> winv r w.
  Proof.
    unfold open_wrapped. destruct (open_inner parity sq r) as [x|] eqn:Ex; [|discriminate].
    intros [= <-]. split; [apply open_inner_ok; exact Ex|constructor].
  Qed.

  (** [proofsCache.AxisHalf] *)
  Lemma pc_axis_half_ok r w ax i :
    winv r w -> (i < 2 * k)%nat ->
    exists p w', pc_axis_half parity w ax i = (Some (p, half_of parity sq ax i p), w') /\ winv r w' /\
                 ((i < k)%nat -> p = false).
  Proof.
    intros (Hin & Hc) Hi. unfold pc_axis_half. destruct (pc_find (w_cache w) ax i) as [e|] eqn:Ef.
    - apply pc_find_some in Ef as (He & Ha & Hidx). rewrite Forall_forall in Hc. destruct (Hc e He) as (_ & Hh & Hp & _).
      subst ax i. exists (fst (pe_half e)), w. split.
      + f_equal. f_equal. rewrite <- Hh. destruct (pe_half e); reflexivity.
      + split; [split; [exact Hin|apply Forall_forall; exact Hc]|exact Hp].
    - destruct (in_axis_half_ok r (w_inner w) ax i Hin Hi) as (p & x' & Hx & Hok' & Hp). rewrite Hx.
      exists p. eexists. split; [reflexivity|]. split; [|exact Hp].
      split; [exact Hok'|]. cbn [w_cache]. unfold pc_store. constructor; [|exact Hc].
      repeat split; cbn; try assumption. left. reflexivity.
  Qed.

  (** [proofsCache.axisWithProofs] / [axisShares] for a row: the extended row *)
  Lemma pc_axis_with_proofs_ok r w i :
    winv r w -> (i < 2 * k)%nat ->
    exists w', pc_axis_with_proofs parity recover w Row i = (Some (erow i), w') /\ winv r w'.
  Proof.
    intros (Hin & Hc) Hi. unfold pc_axis_with_proofs. destruct (pc_find (w_cache w) Row i) as [e|] eqn:Ef.
    - apply pc_find_some in Ef as (He & Ha & Hidx). pose proof Hc as Hc'. rewrite Forall_forall in Hc'.
      destruct (Hc' e He) as (Hlt & Hh & Hp & Hs). destruct e as [eax eidx [ep el] esh].
      cbn [pe_axis pe_idx pe_half pe_shares fst snd] in *. subst eax eidx.
      destruct esh as [shs|].
      + destruct Hs as [Hs|(_ & Hs)]; [discriminate|]. injection Hs as ->. exists w. split; [reflexivity|split; assumption].
      + subst el. rewrite extended_row_half by exact Hi. eexists. split; [reflexivity|].
        split; [exact Hin|]. cbn [w_cache]. constructor; [|exact Hc].
        repeat split; cbn; try assumption. right. split; reflexivity.
    - destruct (in_axis_half_ok r (w_inner w) Row i Hin Hi) as (p & x' & Hx & Hok' & Hp). rewrite Hx.
      rewrite extended_row_half by exact Hi. eexists. split; [reflexivity|].
      split; [exact Hok'|]. cbn [w_cache]. constructor; [|exact Hc].
      repeat split; cbn; try assumption. right. split; reflexivity.
  Qed.

  Lemma pc_axis_shares_ok r w i :
    winv r w -> (i < 2 * k)%nat ->
    exists w', pc_axis_shares parity recover w Row i = (Some (erow i), w') /\ winv r w'.
  Proof. exact (pc_axis_with_proofs_ok r w i). Qed.

  Lemma in_size_ok r x : inner_ok r x -> in_size x = 2 * Z.of_nat k.
  Proof.
    destruct x as [m|a]; cbn [inner_ok in_size].
    - intros (_ & ->). cbn [m_eds]. rewrite E_length. lia.
    - intros (_ & _ & -> & _). destruct (hdr_fields sq Hwf) as (_ & Hq & _). exact Hq.
  Qed.

  Lemma in_k_ok r x : inner_ok r x -> in_k x = k.
  Proof.
    destruct x as [m|a]; cbn [inner_ok in_k].
    - intros (_ & ->). unfold m_k. cbn [m_eds]. rewrite E_length. apply div2_double.
    - intros (_ & _ & Hh & _). apply fa_k_ok. exact Hh.
  Qed.

  Lemma in_roots_ok r x : inner_ok r x -> in_roots x = Some (sq_roots sq).
  Proof.
    destruct x as [m|a]; cbn [inner_ok in_roots].
    - intros (_ & ->). reflexivity.
    - intros (_ & -> & -> & _). apply (read_roots_encode sq Hwf).
  Qed.

  Lemma in_hash_ok r x : inner_ok r x -> in_hash x = sq_hash sq.
  Proof.
    destruct x as [m|a]; cbn [inner_ok in_hash].
    - intros (_ & ->). reflexivity.
    - intros (_ & _ & -> & _). reflexivity.
  Qed.

  Lemma concat_rows_ods : concat (map (row_of k ods) (seq 0 k)) = ods.
  Proof. rewrite <- chunks_eq_map. apply concat_chunks. apply ods_length. Qed.

  (** [proofsCache.Shares] *)
  Lemma pc_shares_loop_ok r rows : forall w acc,
    winv r w -> (forall i, In i rows -> (i < k)%nat) ->
    exists w', pc_shares_loop parity recover w k rows acc = (Some (acc ++ concat (map (row_of k ods) rows)), w') /\ winv r w'.
  Proof.
    induction rows as [|i rows IH]; intros w acc Hw Hrows.
    - exists w. cbn. rewrite app_nil_r. split; [reflexivity|exact Hw].
    - assert (Hi : (i < k)%nat) by (apply Hrows; left; reflexivity).
      cbn [pc_shares_loop]. destruct (pc_axis_half_ok r w Row i Hw ltac:(lia)) as (p & w' & Hp & Hw' & Hpf).
      rewrite Hp. rewrite (Hpf Hi). rewrite <- row_is_half by exact Hi.
      destruct (IH w' (acc ++ row_of k ods i) Hw' (fun j Hj => Hrows j (or_intror Hj))) as (w'' & Hl & Hw'').
      rewrite Hl. exists w''. split; [|exact Hw'']. cbn [map concat]. rewrite app_assoc. reflexivity.
  Qed.

  (** [proofsCache.Reader]: the ShareReader over [getShare] *)
  Lemma pc_get_share_ok r w n :
    winv r w -> (n < k * k)%nat ->
    exists w', pc_get_share parity recover w k (Nat.div n k) (Nat.modulo n k) = (Some (nth n ods tail_share), w') /\ winv r w'.
  Proof.
    intros Hw Hn. pose proof k_pos as Hk.
    assert (Hrow : (Nat.div n k < k)%nat) by (apply Nat.div_lt_upper_bound; lia).
    assert (Hcol : (Nat.modulo n k < k)%nat) by (apply Nat.mod_upper_bound; lia).
    unfold pc_get_share. destruct (pc_axis_half_ok r w Row (Nat.div n k) Hw ltac:(lia)) as (p & w' & Hp & Hw' & Hpf).
    rewrite Hp, (Hpf Hrow).
    replace (k <? Nat.modulo n k)%nat with false by (symmetry; apply Nat.ltb_ge; lia). cbn [Bool.eqb].
    exists w'. split; [|exact Hw']. f_equal. f_equal.
    rewrite <- row_is_half by exact Hrow. rewrite nth_row_of by exact Hcol.
    f_equal. rewrite (Nat.div_mod n k) at 3 by lia. lia.
  Qed.

  Lemma pc_reader_loop_ok r idxs : forall w,
    winv r w -> (forall n, In n idxs -> (n < k * k)%nat) ->
    exists w', pc_reader_loop parity recover w k idxs = (Some (map (fun n => nth n ods tail_share) idxs), w') /\ winv r w'.
  Proof.
    induction idxs as [|n idxs IH]; intros w Hw Hidx.
    - exists w. split; [reflexivity|exact Hw].
    - cbn [pc_reader_loop]. destruct (pc_get_share_ok r w n Hw (Hidx n (or_introl eq_refl))) as (w' & Hg & Hw'). rewrite Hg.
      destruct (IH w' Hw' (fun m Hm => Hidx m (or_intror Hm))) as (w'' & Hl & Hw''). rewrite Hl.
      exists w''. split; [reflexivity|exact Hw''].
  Qed.

  (** * One request on the accessor the store hands out *)
  Lemma in_range_nat i : in_range_z i (2 * Z.of_nat k) = true -> (Z.to_nat i < 2 * k)%nat.
  Proof. unfold in_range_z. intros H. apply andb_true_iff in H as [H1 H2]. lia. Qed.

  Lemma size_nonzero : negb (2 * Z.of_nat k =? 0) = true.
  Proof. pose proof k_pos. apply negb_true_iff. apply Z.eqb_neq. lia. Qed.

  Definition step_spec (r : rep) (w : wstate) (p : path) : Prop :=
    let '(res, w') := step parity recover w p in res_ok parity sq p res /\ winv r w'.

  Lemma step_sample r w i j : winv r w -> step_spec r w (PSample i j).
  Proof.
    intros Hw. unfold step_spec, step. rewrite (in_size_ok r _ (proj1 Hw)), size_nonzero. cbn [andb res_ok reference]. fold k.
    destruct (in_range_z i (2 * Z.of_nat k)) eqn:Ei; cbn [andb]; [|split; [reflexivity|exact Hw]].
    destruct (in_range_z j (2 * Z.of_nat k)) eqn:Ej; cbn [andb]; [|split; [reflexivity|exact Hw]].
    unfold pc_sample. destruct (pc_axis_with_proofs_ok r w (Z.to_nat i) Hw (in_range_nat i Ei)) as (w' & Hp & Hw').
    rewrite Hp. split; [reflexivity|exact Hw'].
  Qed.

  Lemma step_half r w ax i : winv r w -> step_spec r w (PAxisHalf ax i).
  Proof.
    intros Hw. unfold step_spec, step. rewrite (in_size_ok r _ (proj1 Hw)), size_nonzero. cbn [andb].
    destruct (in_range_z i (2 * Z.of_nat k)) eqn:Ei.
    - destruct (pc_axis_half_ok r w ax (Z.to_nat i) Hw (in_range_nat i Ei)) as (p & w' & Hp & Hw' & _).
      rewrite Hp. split; [|exact Hw']. cbn [res_ok]. split; [exact Ei|reflexivity].
    - split; [|exact Hw]. cbn [res_ok reference]. fold k. rewrite Ei. reflexivity.
  Qed.

  Lemma v_row_nd_ok r w ns i :
    winv r w -> let '(res, w') := v_row_nd parity recover w ns i in res = reference parity sq (PRowNd ns i) /\ winv r w'.
  Proof.
    intros Hw. unfold v_row_nd. rewrite (in_size_ok r _ (proj1 Hw)), size_nonzero. cbn [andb reference]. fold k.
    destruct (in_range_z i (2 * Z.of_nat k)) eqn:Ei; cbn [andb]; [|split; [reflexivity|exact Hw]].
    destruct (ns_valid_for_data ns) eqn:Ev; [|split; [reflexivity|exact Hw]].
    pose proof (in_range_nat i Ei) as Hi.
    unfold pc_row_nd. destruct (pc_axis_with_proofs_ok r w (Z.to_nat i) Hw Hi) as (w' & Hp & Hw').
    rewrite Hp. split; [|exact Hw'].
    rewrite (in_k_ok r _ (proj1 Hw)). unfold row_nd_from_tree, ref_row_nd. rewrite Ev. cbn [negb]. fold k.
    destruct (outside ns (row_range k (Z.to_nat i) (erow (Z.to_nat i)))); [reflexivity|].
    destruct (Z.to_nat i <? k)%nat eqn:Elt; [|reflexivity].
    rewrite firstn_erow, Elt by exact Hi. reflexivity.
  Qed.

  Lemma step_rownd r w ns i : winv r w -> step_spec r w (PRowNd ns i).
  Proof.
    intros Hw. unfold step_spec. cbn [step]. pose proof (v_row_nd_ok r w ns i Hw) as H.
    destruct (v_row_nd parity recover w ns i) as [res w']. destruct H as [-> Hw']. split; [reflexivity|exact Hw'].
  Qed.

  Lemma step_shares r w : winv r w -> step_spec r w PShares.
  Proof.
    intros Hw. unfold step_spec. cbn [step]. unfold pc_shares. rewrite (in_k_ok r _ (proj1 Hw)).
    destruct (pc_shares_loop_ok r (seq 0 k) w [] Hw) as (w' & Hl & Hw').
    { intros i Hi. apply in_seq in Hi. lia. }
    rewrite Hl. cbn [app ores res_ok reference]. rewrite concat_rows_ods. split; [reflexivity|exact Hw'].
  Qed.

  Lemma step_reader r w : winv r w -> step_spec r w PReader.
  Proof.
    intros Hw. unfold step_spec. cbn [step]. unfold pc_reader. rewrite (in_k_ok r _ (proj1 Hw)).
    destruct (pc_reader_loop_ok r (seq 0 (k * k)) w Hw) as (w' & Hl & Hw').
    { intros n Hn. apply in_seq in Hn. lia. }
    rewrite Hl. cbn [ores res_ok reference]. rewrite map_nth_seq by apply ods_length. split; [reflexivity|exact Hw'].
  Qed.

  Lemma step_meta r w p : (p = PRoots \/ p = PHash \/ p = PSize) -> winv r w -> step_spec r w p.
  Proof.
    intros Hp Hw. unfold step_spec. destruct Hp as [-> | [-> | ->]]; cbn [step res_ok reference].
    - rewrite (in_roots_ok r _ (proj1 Hw)). split; [reflexivity|exact Hw].
    - rewrite (in_hash_ok r _ (proj1 Hw)). split; [reflexivity|exact Hw].
    - rewrite (in_size_ok r _ (proj1 Hw)). split; [reflexivity|exact Hw].
  Qed.

  (** * Share ranges *)
  Lemma sub_sub_app (l : list share) a b c : (a <= b <= c)%nat -> sub l a b ++ sub l b c = sub l a c.
  Proof.
    intros H. unfold sub. replace (c - a)%nat with ((b - a) + (c - b))%nat by lia.
    rewrite <- (firstn_skipn (b - a) (firstn (b - a + (c - b)) (skipn a l))).
    rewrite firstn_firstn. replace (Nat.min (b - a) (b - a + (c - b))) with (b - a)%nat by lia. f_equal.
    rewrite skipn_firstn_comm. replace (b - a + (c - b) - (b - a))%nat with (c - b)%nat by lia.
    rewrite skipn_skipn_add. replace (a + (b - a))%nat with b by lia. reflexivity.
  Qed.

  Lemma forallb_concat {A} (p : A -> bool) (L : list (list A)) : forallb (forallb p) L = forallb p (concat L).
  Proof. induction L as [|l L IH]; cbn; [reflexivity|]. rewrite forallb_app, IH. reflexivity. Qed.

  (** a window of a row of the first half is a window of the original square *)
  Lemma window r a b : (r < k)%nat -> (a <= b <= k)%nat ->
    firstn (b - a) (skipn a (erow r)) = sub ods (r * k + a) (r * k + b).
  Proof.
    intros Hr Hab. rewrite erow_top by exact Hr.
    rewrite skipn_app, ods_row_length by exact Hr. replace (a - k)%nat with 0%nat by lia. cbn [skipn].
    rewrite firstn_app, skipn_length, ods_row_length by exact Hr.
    replace (b - a - (k - a))%nat with 0%nat by lia. rewrite firstn_O, app_nil_r.
    unfold ods_row, row_of. fold k ods. rewrite skipn_firstn_comm, firstn_firstn, skipn_skipn_add.
    replace (Nat.min (b - a) (k - a)) with (b - a)%nat by lia.
    unfold sub. f_equal. lia.
  Qed.

  Lemma map_first_length {A} (g : A -> A) l : length (map_first g l) = length l.
  Proof. destruct l; reflexivity. Qed.

  Lemma map_last_length {A} (g : A -> A) l : length (map_last g l) = length l.
  Proof.
    induction l as [|x l IH]; [reflexivity|]. destruct l as [|y l]; [reflexivity|].
    change (map_last g (x :: y :: l)) with (x :: map_last g (y :: l)). cbn [length] in *. rewrite IH. reflexivity.
  Qed.

  Lemma nth_map_first {A} (g : A -> A) l i d :
    nth i (map_first g l) d = if Nat.eqb i 0 then match l with [] => d | x :: _ => g x end else nth i l d.
  Proof. destruct l as [|x l]; destruct i; reflexivity. Qed.

  Lemma nth_map_first_cons {A} (g : A -> A) l x rest i d :
    l = x :: rest -> nth i (map_first g l) d = if Nat.eqb i 0 then g x else nth i l d.
  Proof. intros ->. destruct i; reflexivity. Qed.

  Lemma nth_map_last {A} (g : A -> A) l : forall i d,
    nth i (map_last g l) d = if Nat.eqb (S i) (length l) then g (nth i l d) else nth i l d.
  Proof.
    induction l as [|x l IH]; intros i d; [destruct i; reflexivity|].
    destruct l as [|y l].
    - destruct i as [|i]; [reflexivity|]. cbn. destruct i; reflexivity.
    - change (map_last g (x :: y :: l)) with (x :: map_last g (y :: l)).
      destruct i as [|i]; [reflexivity|]. cbn [nth]. rewrite IH. reflexivity.
  Qed.

  Lemma trim_short (l : list share) : (length l < k)%nat -> (if (k <=? length l)%nat then firstn k l else l) = l.
  Proof. intros H. replace (k <=? length l)%nat with false by (symmetry; apply Nat.leb_gt; exact H). reflexivity. Qed.

  Lemma trim_row r : (r < 2 * k)%nat -> (if (k <=? length (erow r))%nat then firstn k (erow r) else erow r) = firstn k (erow r).
  Proof. intros H. rewrite erow_length by exact H. replace (k <=? 2 * k)%nat with true by (symmetry; apply Nat.leb_le; lia). reflexivity. Qed.

  Section Range.
    Variables f t : nat.
    Hypothesis Hft : (f < t <= k * k)%nat.

    Let fr := Nat.div f k.
    Let fc := Nat.modulo f k.
    Let tr := Nat.div (t - 1) k.
    Let tc := Nat.modulo (t - 1) k.
    Let n := (tr - fr + 1)%nat.

    Lemma range_idx :
      (f = fr * k + fc /\ fc < k /\ t = tr * k + tc + 1 /\ tc < k /\ fr <= tr /\ tr < k)%nat.
    Proof.
      pose proof k_pos as Hk. unfold fr, fc, tr, tc.
      pose proof (Nat.div_mod f k ltac:(lia)). pose proof (Nat.div_mod (t - 1) k ltac:(lia)).
      pose proof (Nat.mod_upper_bound f k ltac:(lia)). pose proof (Nat.mod_upper_bound (t - 1) k ltac:(lia)).
      assert (Nat.div f k <= Nat.div (t - 1) k)%nat by (apply Nat.div_le_mono; lia).
      assert (Nat.div (t - 1) k < k)%nat by (apply Nat.div_lt_upper_bound; lia).
      repeat split; try lia.
    Qed.

    Let tgt (r : nat) : list share := sub ods (Nat.max f (r * k)) (Nat.min t ((r + 1) * k)).

    Lemma range_rows_eq : range_rows k ods f t = map tgt (seq fr n).
    Proof. unfold range_rows, coords. fold fr fc tr tc. reflexivity. Qed.

    (** the windows of consecutive rows tile the range *)
    Lemma concat_tgt m : forall r a,
      (1 <= m)%nat -> (r * k <= a)%nat -> (a <= (r + 1) * k)%nat -> ((r + m - 1) * k < t <= (r + m) * k)%nat -> (a <= t)%nat ->
      concat (map (fun r' => sub ods (Nat.max a (r' * k)) (Nat.min t ((r' + 1) * k))) (seq r m)) = sub ods a t.
    Proof.
      induction m as [|m IH]; intros r a Hm Hra Har Ht Hat; [lia|].
      destruct m as [|m].
      - cbn [seq map concat]. rewrite app_nil_r. f_equal; lia.
      - rewrite <- (cons_seq (S m) r). cbn [map concat].
        replace (Nat.max a (r * k)) with a by lia. replace (Nat.min t ((r + 1) * k)) with ((r + 1) * k)%nat by nia.
        rewrite <- (sub_sub_app ods a ((r + 1) * k) t) by nia. f_equal.
        rewrite <- (IH (S r) ((r + 1) * k)%nat) by nia.
        f_equal. apply map_ext_in. intros r' Hr'. apply in_seq in Hr'. f_equal. nia.
    Qed.

    Lemma concat_range_rows : concat (range_rows k ods f t) = sub ods f t.
    Proof.
      destruct range_idx as (Hf & Hfc & Ht & Htc & Hrr & Htr). rewrite range_rows_eq. unfold tgt, n.
      apply concat_tgt; nia.
    Qed.

    Lemma range_first_share : nth fc (erow fr) tail_share = hd tail_share (sub ods f t).
    Proof.
      destruct range_idx as (Hf & Hfc & Ht & Htc & Hrr & Htr).
      rewrite erow_top by lia. rewrite app_nth1 by (rewrite ods_row_length; lia).
      unfold ods_row. fold k ods. rewrite nth_row_of by exact Hfc. rewrite <- Hf.
      unfold sub. destruct (t - f)%nat as [|c] eqn:Ec; [lia|].
      rewrite <- (Nat.add_0_r f) at 1. rewrite <- nth_skipn.
      destruct (skipn f ods); reflexivity.
    Qed.

    (** the heart: what [RangeNamespaceDataFromShares] cuts out of the extended rows is, row by row, the range *)
    Lemma range_rows3 :
      let rows := map erow (seq fr n) in
      let multi := (1 <? tr - fr + 1)%nat in
      let starts_mid := negb (Nat.eqb fc 0) in
      let ends_mid := negb (Nat.eqb tc (k - 1)) in
      let start_proof := starts_mid || (negb multi && ends_mid) in
      let end_proof := ends_mid && multi in
      let rows1 := if start_proof then map_first (fun r => slice r fc (if multi then k else tc + 1)) rows else rows in
      let rows2 := if end_proof then map_last (fun r => firstn (tc + 1) r) rows1 else rows1 in
      map (fun r => if (k <=? length r)%nat then firstn k r else r) rows2 = range_rows k ods f t.
    Proof.
      destruct range_idx as (Hf & Hfc & Ht & Htc & Hrr & Htr). pose proof k_pos as Hk.
      cbv zeta. rewrite range_rows_eq.
      assert (Hn : n = S (tr - fr)) by (unfold n; lia).
      set (rows := map erow (seq fr n)).
      assert (Hrl : length rows = n) by (unfold rows; rewrite map_length, seq_length; reflexivity).
      assert (Hrn : forall idx, (idx < n)%nat -> nth idx rows [] = erow (fr + idx)).
      { intros idx Hidx. unfold rows. rewrite nth_map_seq by exact Hidx. reflexivity. }
      assert (Hr0 : rows = erow fr :: map erow (seq (S fr) (tr - fr))).
      { unfold rows. rewrite Hn. cbn [seq map]. reflexivity. }
      apply nth_ext with (d := []) (d' := []).
      { rewrite !map_length, seq_length.
        destruct (negb (Nat.eqb fc 0) || negb (1 <? tr - fr + 1)%nat && negb (Nat.eqb tc (k - 1)));
          destruct (negb (Nat.eqb tc (k - 1)) && (1 <? tr - fr + 1)%nat);
          rewrite ?map_last_length, ?map_first_length; exact Hrl. }
      intros idx Hidx. rewrite map_length in Hidx.
      assert (Hidx' : (idx < n)%nat).
      { destruct (negb (Nat.eqb fc 0) || negb (1 <? tr - fr + 1)%nat && negb (Nat.eqb tc (k - 1)));
          destruct (negb (Nat.eqb tc (k - 1)) && (1 <? tr - fr + 1)%nat);
          rewrite ?map_last_length, ?map_first_length in Hidx; rewrite <- Hrl; exact Hidx. }
      clear Hidx.
      rewrite nth_map_seq by exact Hidx'.
      rewrite (nth_indep _ [] (if (k <=? length (@nil share))%nat then firstn k [] else []))
        by (rewrite map_length;
            destruct (negb (Nat.eqb fc 0) || negb (1 <? tr - fr + 1)%nat && negb (Nat.eqb tc (k - 1)));
            destruct (negb (Nat.eqb tc (k - 1)) && (1 <? tr - fr + 1)%nat);
            rewrite ?map_last_length, ?map_first_length; rewrite Hrl; exact Hidx').
      rewrite (map_nth (fun r => if (k <=? length r)%nat then firstn k r else r)).
      unfold tgt.
      (* the four shapes a served row can have *)
      assert (Wfull : forall r, (r < k)%nat -> firstn k (erow r) = sub ods (r * k) (r * k + k)).
      { intros r Hr. pose proof (window r 0 k Hr ltac:(lia)) as W. rewrite Nat.sub_0_r, Nat.add_0_r in W. exact W. }
      assert (Wpre : forall r c, (r < k)%nat -> (c <= k)%nat -> firstn c (erow r) = sub ods (r * k) (r * k + c)).
      { intros r c Hr Hc. pose proof (window r 0 c Hr ltac:(lia)) as W. rewrite Nat.sub_0_r, Nat.add_0_r in W. exact W. }
      assert (Wmid : forall r a b, (r < k)%nat -> (a <= b <= k)%nat -> slice (erow r) a b = sub ods (r * k + a) (r * k + b)).
      { intros r a b Hr Hab. unfold slice. apply window; assumption. }
      assert (Lsub : forall a b, (a <= b <= k * k)%nat -> length (sub ods a b) = (b - a)%nat).
      { intros a b Hab. unfold sub. rewrite firstn_length, skipn_length. fold ods. rewrite ods_length. lia. }
      destruct (1 <? tr - fr + 1)%nat eqn:Emulti.
      - (* several rows *)
        apply Nat.ltb_lt in Emulti. cbn [negb andb orb]. rewrite orb_false_r, andb_true_r.
        destruct (Nat.eqb_spec fc 0) as [Efc|Efc]; destruct (Nat.eqb_spec tc (k - 1)) as [Etc|Etc]; cbn [negb].
        + (* whole rows *)
          rewrite Hrn by exact Hidx'. rewrite trim_row by lia. rewrite Wfull by lia. f_equal; nia.
        + (* last row cut *)
          rewrite nth_map_last, Hrl, Hrn by exact Hidx'.
          destruct (Nat.eqb_spec (S idx) n) as [El|El].
          * rewrite Wpre by lia. rewrite trim_short by (rewrite Lsub by nia; lia). f_equal; nia.
          * rewrite trim_row by lia. rewrite Wfull by lia. f_equal; nia.
        + (* first row cut *)
          rewrite (nth_map_first_cons _ rows _ _ _ _ Hr0), Hrn by exact Hidx'.
          destruct (Nat.eqb_spec idx 0) as [E0|E0].
          * rewrite Wmid by lia. rewrite trim_short by (rewrite Lsub by nia; lia). subst idx. f_equal; nia.
          * rewrite trim_row by lia. rewrite Wfull by lia. f_equal; nia.
        + (* both cut *)
          rewrite nth_map_last, map_first_length, Hrl, (nth_map_first_cons _ rows _ _ _ _ Hr0), Hrn by exact Hidx'.
          destruct (Nat.eqb_spec (S idx) n) as [El|El]; destruct (Nat.eqb_spec idx 0) as [E0|E0].
          * lia.
          * rewrite Wpre by lia. rewrite trim_short by (rewrite Lsub by nia; lia). f_equal; nia.
          * rewrite Wmid by lia. rewrite trim_short by (rewrite Lsub by nia; lia). subst idx. f_equal; nia.
          * rewrite trim_row by lia. rewrite Wfull by lia. f_equal; nia.
      - (* one row *)
        apply Nat.ltb_ge in Emulti. assert (tr = fr) by lia. assert (idx = 0%nat) by lia. subst idx.
        cbn [negb andb orb]. rewrite andb_false_r.
        destruct (Nat.eqb_spec fc 0) as [Efc|Efc]; destruct (Nat.eqb_spec tc (k - 1)) as [Etc|Etc]; cbn [negb orb].
        + rewrite Hrn by exact Hidx'. rewrite trim_row by lia. rewrite Wfull by lia. f_equal; nia.
        + rewrite (nth_map_first_cons _ rows _ _ _ _ Hr0). cbn [Nat.eqb]. rewrite Wmid by lia.
          rewrite trim_short by (rewrite Lsub by nia; lia). f_equal; nia.
        + rewrite (nth_map_first_cons _ rows _ _ _ _ Hr0). cbn [Nat.eqb]. rewrite Wmid by lia.
          rewrite trim_short by (rewrite Lsub by nia; lia). f_equal; nia.
        + rewrite (nth_map_first_cons _ rows _ _ _ _ Hr0). cbn [Nat.eqb]. rewrite Wmid by lia.
          rewrite trim_short by (rewrite Lsub by nia; lia). f_equal; nia.
    Qed.

    Theorem range_from_rows_ok :
      range_from_rows (map erow (seq fr n)) fr fc tr tc =
      (let l := sub ods f t in
       if forallb (fun s => N.eqb (sns s) (sns (hd tail_share l))) l then RRows (range_rows k ods f t) else RErr).
    Proof.
      destruct range_idx as (Hf & Hfc & Ht & Htc & Hrr & Htr).
      assert (Hn : n = S (tr - fr)) by (unfold n; lia).
      remember (map erow (seq fr n)) as rows eqn:Erows.
      assert (Hr0 : exists rest, rows = erow fr :: rest).
      { subst rows. rewrite Hn. cbn [seq map]. eexists; reflexivity. }
      destruct Hr0 as (rest & Hr0).
      assert (Hrl : length rows = n) by (subst rows; rewrite map_length, seq_length; reflexivity).
      unfold range_from_rows. rewrite Hr0 at 1. cbv iota.
      rewrite erow_length by lia.
      replace (Nat.eqb (2 * k) 0) with false by (symmetry; apply Nat.eqb_neq; pose proof k_pos; lia).
      rewrite Hrl. unfold n at 1. rewrite Nat.eqb_refl. cbn [negb].
      rewrite div2_double. subst rows. rewrite range_rows3. rewrite range_first_share.
      cbv zeta. rewrite forallb_concat, concat_range_rows. reflexivity.
    Qed.
  End Range.

  (** the accessor's own range reader, on any representation, sees the extended rows *)
  Lemma in_range_ok r x f t :
    inner_ok r x -> (f < t <= k * k)%nat ->
    in_range parity recover x f t =
    range_from_rows (map erow (seq (Nat.div f k) (Nat.div (t - 1) k - Nat.div f k + 1)))
                    (Nat.div f k) (Nat.modulo f k) (Nat.div (t - 1) k) (Nat.modulo (t - 1) k).
  Proof.
    intros Hok Hft. destruct (range_idx f t Hft) as (Hf & Hfc & Ht & Htc & Hrr & Htr).
    destruct x as [m|a]; cbn [in_range].
    - destruct Hok as (_ & ->). unfold mem_range, m_k, coords. cbn [m_eds]. rewrite E_length, div2_double.
      f_equal. apply map_ext_in. intros i Hi. apply in_seq in Hi. apply nth_E. lia.
    - destruct Hok as (Hr & Hf' & Hh & Hq & Hc). unfold file_range, coords. rewrite (fa_k_ok a Hh).
      rewrite all_some_ext with (g := erow); [reflexivity|].
      intros i Hi. apply in_seq in Hi.
      rewrite (ods_read_axis_half_ok a Row i Hf' Hh Hc) by lia. cbn [option_map]. f_equal.
      apply (extended_row_half i false). lia.
  Qed.

  Lemma step_range r w f t : winv r w -> step_spec r w (PRange f t).
  Proof.
    intros Hw. unfold step_spec. cbn [step]. rewrite (in_size_ok r _ (proj1 Hw)).
    replace (2 * Z.of_nat k / 2) with (Z.of_nat k) by (rewrite Z.mul_comm, Z.div_mul by lia; reflexivity).
    cbn [res_ok reference]. fold k ods.
    destruct (0 <=? f) eqn:E0; cbn [andb]; [|split; [reflexivity|exact Hw]].
    destruct (f <? t) eqn:E1; cbn [andb]; [|split; [reflexivity|exact Hw]].
    destruct (t <=? Z.of_nat (k * k)) eqn:E2.
    - replace (f <? Z.of_nat k * Z.of_nat k) with true by (symmetry; apply Z.ltb_lt; lia).
      replace (t <=? Z.of_nat k * Z.of_nat k) with true by (symmetry; apply Z.leb_le; lia). cbn [andb].
      split; [|exact Hw].
      assert (Hft : (Z.to_nat f < Z.to_nat t <= k * k)%nat) by lia.
      rewrite (in_range_ok r _ _ _ (proj1 Hw) Hft). apply (range_from_rows_ok _ _ Hft).
    - replace (t <=? Z.of_nat k * Z.of_nat k) with false by (symmetry; apply Z.leb_gt; lia).
      rewrite andb_false_r. split; [reflexivity|exact Hw].
  Qed.

  (** * Namespace data of the whole block *)
  Lemma pow232 : (2 ^ 232 = parity_ns + 1)%N.
  Proof. vm_compute. reflexivity. Qed.

  Lemma valid_below_parity ns : ns_valid_for_data ns = true -> (ns < parity_ns)%N.
  Proof.
    unfold ns_valid_for_data. rewrite pow232. intros H.
    repeat rewrite andb_true_iff in H. destruct H as (((_ & H1) & H2) & _).
    apply N.ltb_lt in H1. apply negb_true_iff in H2. apply N.eqb_neq in H2. lia.
  Qed.

  Lemma root_range i :
    (i < 2 * k)%nat ->
    (rmin (nth i (sq_roots sq) (mkR 0 0 0)), rmax (nth i (sq_roots sq) (mkR 0 0 0))) = row_range k i (erow i).
  Proof.
    intros Hi. destruct (wf_rows sq Hwf) as (Hroot & _). specialize (Hroot i Hi). fold k in Hroot.
    unfold row_root_ok in Hroot. unfold row_range. destruct (i <? k)%nat eqn:Ei.
    - apply andb_true_iff in Hroot as [H1 H2]. apply N.eqb_eq in H1, H2.
      rewrite firstn_erow, Ei by exact Hi. unfold ods_row. fold k ods. rewrite H1, H2. reflexivity.
    - apply andb_true_iff in Hroot as [H1 H2]. apply N.eqb_eq in H1, H2. rewrite H1, H2. reflexivity.
  Qed.

  Definition has_ns (ns : N) (i : nat) : bool := negb (outside ns (row_range k i (erow i))).

  Lemma rows_with_ns_ok ns :
    ns_valid_for_data ns = true ->
    rows_with_ns (sq_roots sq) (Nat.div (length (sq_roots sq)) 2) ns = filter (has_ns ns) (seq 0 k).
  Proof.
    intros Hv. destruct (wf_facts sq Hwf) as (_ & _ & _ & Hroots & _). fold k in Hroots.
    unfold rows_with_ns. rewrite Hroots. replace (4 * k)%nat with (2 * (2 * k))%nat by lia. rewrite div2_double.
    rewrite (filter_ext_in _ (has_ns ns)).
    2:{ intros i Hi. apply in_seq in Hi. unfold has_ns. rewrite root_range by lia. reflexivity. }
    replace (2 * k)%nat with (k + k)%nat by lia. rewrite seq_app, filter_app.
    rewrite (filter_none (has_ns ns) (seq (0 + k) k)); [apply app_nil_r|].
    intros i Hi. apply in_seq in Hi.
    unfold has_ns, row_range. replace (i <? k)%nat with false by (symmetry; apply Nat.ltb_ge; lia).
    unfold outside. cbn [fst snd]. pose proof (valid_below_parity ns Hv) as Hlt.
    apply N.ltb_lt in Hlt. rewrite Hlt. reflexivity.
  Qed.

  Lemma nd_loop_ok r ns rows : forall w,
    winv r w -> ns_valid_for_data ns = true -> (forall i, In i rows -> (i < k)%nat /\ has_ns ns i = true) ->
    exists w', nd_loop parity recover w ns rows =
               (Some (map (fun i => filter (fun s => N.eqb (sns s) ns) (ods_row sq i)) rows), w') /\ winv r w'.
  Proof.
    induction rows as [|i rows IH]; intros w Hw Hv Hrows.
    - exists w. split; [reflexivity|exact Hw].
    - destruct (Hrows i (or_introl eq_refl)) as (Hi & Hns).
      cbn [nd_loop]. pose proof (v_row_nd_ok r w ns (Z.of_nat i) Hw) as Hstep.
      destruct (v_row_nd parity recover w ns (Z.of_nat i)) as [res w']. destruct Hstep as (-> & Hw').
      cbn [reference]. fold k.
      replace (in_range_z (Z.of_nat i) (2 * Z.of_nat k)) with true by (symmetry; unfold in_range_z; lia).
      rewrite Hv. cbn [andb]. rewrite Nat2Z.id. unfold ref_row_nd. fold k.
      unfold has_ns in Hns. apply negb_true_iff in Hns. rewrite Hns.
      replace (i <? k)%nat with true by (symmetry; apply Nat.ltb_lt; exact Hi).
      destruct (IH w' Hw' Hv (fun j Hj => Hrows j (or_intror Hj))) as (w'' & Hl & Hw''). rewrite Hl.
      exists w''. split; [reflexivity|exact Hw''].
  Qed.

  Lemma step_nd r w ns : ns_valid_for_data ns = true -> winv r w -> step_spec r w (PNd ns).
  Proof.
    intros Hv Hw. unfold step_spec. cbn [step]. rewrite (in_roots_ok r _ (proj1 Hw)).
    rewrite rows_with_ns_ok by exact Hv.
    destruct (nd_loop_ok r ns (filter (has_ns ns) (seq 0 k)) w Hw Hv) as (w' & Hl & Hw').
    { intros i Hi. apply filter_In in Hi as (Hi & Hns). apply in_seq in Hi. split; [lia|exact Hns]. }
    rewrite Hl. split; [|exact Hw']. cbn [res_ok reference]. rewrite Hv. reflexivity.
  Qed.

  (** * Every request, after any history *)
  Definition nd_valid (p : path) : Prop := match p with PNd ns => ns_valid_for_data ns = true | _ => True end.

  Theorem step_ok r w p : nd_valid p -> winv r w -> step_spec r w p.
  Proof.
    intros Hp Hw. destruct p.
    - apply step_sample; exact Hw.
    - apply step_half; exact Hw.
    - apply step_rownd; exact Hw.
    - apply step_nd; assumption.
    - apply step_range; exact Hw.
    - apply step_shares; exact Hw.
    - apply step_reader; exact Hw.
    - apply step_meta; [left; reflexivity|exact Hw].
    - apply step_meta; [right; left; reflexivity|exact Hw].
    - apply step_meta; [right; right; reflexivity|exact Hw].
  Qed.

  Theorem run_reads_ok r ps : forall w,
    Forall nd_valid ps -> winv r w -> Forall2 (res_ok parity sq) ps (run_reads parity recover w ps).
  Proof.
    induction ps as [|p ps IH]; intros w Hps Hw; [constructor|].
    apply Forall_cons_iff in Hps as [Hp Hps]. cbn [run_reads].
    pose proof (step_ok r w p Hp Hw) as Hs. unfold step_spec in Hs.
    destruct (step parity recover w p) as [res w']. destruct Hs as [Hres Hw'].
    constructor; [exact Hres|apply IH; assumption].
  Qed.

  Lemma run_state_inv r ps : forall w, Forall nd_valid ps -> winv r w -> winv r (run_state parity recover w ps).
  Proof.
    induction ps as [|p ps IH]; intros w Hps Hw; [exact Hw|].
    apply Forall_cons_iff in Hps as [Hp Hps]. cbn [run_state].
    pose proof (step_ok r w p Hp Hw) as Hs. unfold step_spec in Hs.
    destruct (step parity recover w p) as [res w']. apply IH; [exact Hps|exact (proj2 Hs)].
  Qed.

  (** * Out-of-bounds arguments are refused, whatever was read before *)
  Lemma nd_loop_invalid r ns rows : forall w,
    winv r w -> ns_valid_for_data ns = false ->
    fst (nd_loop parity recover w ns rows) = None \/ (rows = [] /\ fst (nd_loop parity recover w ns rows) = Some []).
  Proof.
    intros w Hw Hv. destruct rows as [|i rows]; [right; split; reflexivity|]. left.
    cbn [nd_loop]. unfold v_row_nd. rewrite Hv, !andb_false_r. reflexivity.
  Qed.

  Theorem oob_rejected r w p :
    winv r w -> in_bounds sq p = false -> nothing_served (fst (step parity recover w p)).
  Proof.
    intros Hw Hb. destruct p; cbn [in_bounds] in Hb; try discriminate.
    - (* sample *) pose proof (step_sample r w i j Hw) as Hs. unfold step_spec in Hs.
      destruct (step parity recover w (PSample i j)) as [res w']. cbn [fst]. destruct Hs as [Hs _].
      cbn [res_ok reference] in Hs. fold k in Hs, Hb. rewrite Hb in Hs. left. exact Hs.
    - (* axis half *) pose proof (step_half r w a i Hw) as Hs. unfold step_spec in Hs.
      destruct (step parity recover w (PAxisHalf a i)) as [res w']. cbn [fst]. destruct Hs as [Hs _]. fold k in Hb.
      destruct res; cbn [res_ok reference] in Hs; fold k in Hs; rewrite ?Hb in Hs;
        try (left; exact Hs); try discriminate Hs.
      destruct Hs as [Hs _]. discriminate Hs.
    - (* row namespace data *) pose proof (step_rownd r w ns i Hw) as Hs. unfold step_spec in Hs.
      destruct (step parity recover w (PRowNd ns i)) as [res w']. cbn [fst]. destruct Hs as [Hs _].
      cbn [res_ok reference] in Hs. fold k in Hs, Hb. rewrite Hb in Hs. left. exact Hs.
    - (* namespace data for a namespace that cannot hold data *)
      cbn [step]. rewrite (in_roots_ok r _ (proj1 Hw)).
      destruct (nd_loop_invalid r ns (rows_with_ns (sq_roots sq) (Nat.div (length (sq_roots sq)) 2) ns) w Hw Hb) as [Hn | [_ Hn]];
        destruct (nd_loop parity recover w ns _) as [[rows|] w']; cbn [fst] in *; try discriminate.
      + left. reflexivity.
      + injection Hn as ->. right. reflexivity.
    - (* range *) pose proof (step_range r w from to Hw) as Hs. unfold step_spec in Hs.
      destruct (step parity recover w (PRange from to)) as [res w']. cbn [fst]. destruct Hs as [Hs _].
      cbn [res_ok reference] in Hs. fold k in Hs, Hb. rewrite Hb in Hs. left. exact Hs.
  Qed.
End Reads.

(** * Closed statements *)
Section Closed.
  Variable parity : list share -> list share.
  Variable recover : list share -> list share.
  Hypothesis parity_length : forall l, length (parity l) = length l.
  Hypothesis recover_parity : forall l, recover (parity l) = l.

  Theorem read_paths_correct sq r :
    wf sq = true ->
    exists w, open_wrapped parity sq r = Some w /\
              forall ps, Forall nd_valid ps -> Forall2 (res_ok parity sq) ps (run_reads parity recover w ps).
  Proof.
    intros Hwf. destruct (open_inner_some parity sq Hwf r) as (x & Hx).
    exists (mkW x []). split; [unfold open_wrapped; rewrite Hx; reflexivity|].
    intros ps Hps. apply (run_reads_ok parity recover parity_length recover_parity sq Hwf r ps); [exact Hps|].
    apply (open_wrapped_inv parity sq Hwf). unfold open_wrapped. rewrite Hx. reflexivity.
  Qed.

  Theorem validation_rejects_oob sq r w ps p :
    wf sq = true -> open_wrapped parity sq r = Some w -> Forall nd_valid ps -> in_bounds sq p = false ->
    nothing_served (fst (step parity recover (run_state parity recover w ps) p)).
  Proof.
    intros Hwf Ho Hps Hb. apply (oob_rejected parity recover parity_length recover_parity sq Hwf r); [|exact Hb].
    apply (run_state_inv parity recover parity_length recover_parity sq Hwf r ps); [exact Hps|].
    apply (open_wrapped_inv parity sq Hwf). exact Ho.
  Qed.

  (** the same request on two representations of the same block: the same answer (for axis halves: the same axis) *)
  Theorem representation_independent sq r1 r2 w1 w2 ps1 ps2 p :
    wf sq = true -> open_wrapped parity sq r1 = Some w1 -> open_wrapped parity sq r2 = Some w2 ->
    Forall nd_valid ps1 -> Forall nd_valid ps2 -> nd_valid p ->
    match p with
    | PAxisHalf _ _ => True
    | _ => fst (step parity recover (run_state parity recover w1 ps1) p) = fst (step parity recover (run_state parity recover w2 ps2) p)
    end.
  Proof.
    intros Hwf Ho1 Ho2 Hps1 Hps2 Hp.
    pose proof (run_state_inv parity recover parity_length recover_parity sq Hwf r1 ps1 w1 Hps1 (open_wrapped_inv parity sq Hwf r1 w1 Ho1)) as Hw1.
    pose proof (run_state_inv parity recover parity_length recover_parity sq Hwf r2 ps2 w2 Hps2 (open_wrapped_inv parity sq Hwf r2 w2 Ho2)) as Hw2.
    pose proof (step_ok parity recover parity_length recover_parity sq Hwf r1 _ p Hp Hw1) as H1.
    pose proof (step_ok parity recover parity_length recover_parity sq Hwf r2 _ p Hp Hw2) as H2.
    unfold step_spec in H1, H2.
    destruct (step parity recover (run_state parity recover w1 ps1) p) as [res1 w1'].
    destruct (step parity recover (run_state parity recover w2 ps2) p) as [res2 w2'].
    destruct H1 as [H1 _], H2 as [H2 _]. cbn [fst].
    destruct p; try exact I; cbn [res_ok] in H1, H2; congruence.
  Qed.
End Closed.

(** * Non-vacuity: a concrete codec and concrete blocks meet every hypothesis, and the reads are not trivial *)
Definition ex_parity (l : list share) : list share := map (fun s => mkS (2 * sid s + 101) (sns s)) l.
Definition ex_recover (l : list share) : list share := map (fun s => mkS ((sid s - 101) / 2) (sns s)) l.

Lemma ex_parity_length l : length (ex_parity l) = length l.
Proof. apply map_length. Qed.

Lemma ex_recover_parity l : ex_recover (ex_parity l) = l.
Proof.
  unfold ex_recover, ex_parity. rewrite map_map. rewrite <- (map_id l) at 2. apply map_ext. intros [i n].
  cbn [sid sns]. f_equal. replace (2 * i + 101 - 101)%N with (i * 2)%N by lia. apply N.div_mul. lia.
Qed.

(** width 2, three data shares of two namespaces and one tail-padding share *)
Definition ex_sq : square :=
  mkSq 2 [mkS 1 10; mkS 2 10; mkS 3 20; tail_share]
       [mkR 1 10 10; mkR 2 20 tail_ns; mkR 3 parity_ns parity_ns; mkR 4 parity_ns parity_ns; mkR 5 0 0; mkR 6 0 0; mkR 7 0 0; mkR 8 0 0]
       (repeat 7%Z 32).
(** the empty block: width 1, one tail-padding share *)
Definition ex_empty : square :=
  mkSq 1 [tail_share] [mkR 1 tail_ns tail_ns; mkR 2 parity_ns parity_ns; mkR 3 0 0; mkR 4 0 0] (repeat 0%Z 32).
(** width 2 without padding, and with all but one share padding *)
Definition ex_full : square :=
  mkSq 2 [mkS 1 10; mkS 2 11; mkS 3 11; mkS 4 30]
       [mkR 1 10 11; mkR 2 11 30; mkR 3 parity_ns parity_ns; mkR 4 parity_ns parity_ns; mkR 5 0 0; mkR 6 0 0; mkR 7 0 0; mkR 8 0 0]
       (repeat 1%Z 32).
Definition ex_one : square :=
  mkSq 2 [mkS 1 10; tail_share; tail_share; tail_share]
       [mkR 1 10 tail_ns; mkR 2 tail_ns tail_ns; mkR 3 parity_ns parity_ns; mkR 4 parity_ns parity_ns; mkR 5 0 0; mkR 6 0 0; mkR 7 0 0; mkR 8 0 0]
       (repeat 2%Z 32).

Example examples_wf : wf ex_sq = true /\ wf ex_empty = true /\ wf ex_full = true /\ wf ex_one = true.
Proof. vm_compute. repeat split. Qed.

(** only three of the four shares are written; the padding is read back *)
Example ex_file_layout :
  length (encode_ods ex_sq) = (65 + 8 + 3)%nat /\ fsize (encode_ods ex_sq) = (65 + 8 * 90 + 3 * 512)%Z /\
  decode_ods (encode_ods ex_sq) = Some ex_sq /\ length (encode_ods ex_empty) = (65 + 4 + 0)%nat.
Proof. vm_compute. repeat split. Qed.

Definition ex_paths : list path :=
  [PSample 3 3; PSample 1 1; PSample 0 2; PAxisHalf Row 3; PAxisHalf Col 2; PRowNd 10 0; PRowNd 25 1; PRowNd 20 0;
   PNd 10; PRange 0 2; PRange 0 3; PRange 2 4; PShares; PReader; PSample 4 0; PRange 3 5; PRowNd parity_ns 0; PSize]%Z.

(** the four representations answer the example requests alike, the answers are the block's data (a parity share of
    Q4, the tail-padding share that is not on disk, present / absent / out-of-range namespaces, a range across
    namespaces refused, out-of-bounds refused) *)
Example ex_reads :
  forall r, option_map (fun w => map obs_of (run_reads ex_parity ex_recover w ex_paths)) (open_wrapped ex_parity ex_sq r) =
  Some (map obs_of (map (reference ex_parity ex_sq) [PSample 3 3; PSample 1 1; PSample 0 2]%Z) ++
        [match r with RepOdsQ4 => OHalf true [315; 303]%N | _ => OHalf false [107; 101]%N end;
         match r with RepOdsQ4 => OHalf true [307; 315]%N | _ => OHalf false [103; 107]%N end;
         OShares [1; 2]%N; OShares []; OErr; ORows [[1; 2]]%N; ORows [[1; 2]]%N; OErr; OErr;
         OShares [1; 2; 3; 0]%N; OShares [1; 2; 3; 0]%N; OErr; OErr; OErr; OSize 4]).
Proof. intros []; vm_compute; reflexivity. Qed.

Theorem nonvacuous :
  (forall l, length (ex_parity l) = length l) /\ (forall l, ex_recover (ex_parity l) = l) /\
  (wf ex_sq = true /\ wf ex_empty = true /\ wf ex_full = true /\ wf ex_one = true) /\
  (length (encode_ods ex_sq) = (65 + 8 + 3)%nat /\ fsize (encode_ods ex_sq) = (65 + 8 * 90 + 3 * 512)%Z /\
   decode_ods (encode_ods ex_sq) = Some ex_sq /\ length (encode_ods ex_empty) = (65 + 4 + 0)%nat).
Proof. exact (conj ex_parity_length (conj ex_recover_parity (conj examples_wf ex_file_layout))). Qed.

(** C05 — proofs about the file format model (OdsFile.v): what the writers put on disk is exactly what the readers,
    working by byte offset, hand back — including the tail padding that is never written. *)
From Coq Require Import List ZArith NArith Lia Bool Arith ZifyBool.
From CN Require Import Store.OdsFile.
Import ListNotations.
Open Scope Z_scope.

(** * Lists *)
Lemma repeat_app_len {A} (x : A) a b : repeat x a ++ repeat x b = repeat x (a + b).
Proof. induction a; cbn; [reflexivity|]. rewrite IHa. reflexivity. Qed.

Lemma firstn_repeat {A} (x : A) n m : firstn n (repeat x m) = repeat x (Nat.min n m).
Proof. revert m; induction n; intros [|m]; cbn; try reflexivity. rewrite IHn. reflexivity. Qed.

Lemma skipn_repeat {A} (x : A) n m : skipn n (repeat x m) = repeat x (m - n).
Proof. revert m; induction n; intros [|m]; cbn; try reflexivity. apply IHn. Qed.

Lemma skipn_skipn_add {A} (l : list A) m n : skipn n (skipn m l) = skipn (m + n) l.
Proof.
  revert l; induction m as [|m IH]; intros l; [reflexivity|].
  destruct l as [|x l]; [cbn; destruct n; reflexivity|]. cbn [skipn Nat.add]. apply IH.
Qed.

Lemma nth_firstn {A} (l : list A) n i d : (i < n)%nat -> nth i (firstn n l) d = nth i l d.
Proof.
  revert l i; induction n; intros l i H; [lia|].
  destruct l; [destruct i; reflexivity|]. destruct i; cbn; [reflexivity|]. apply IHn. lia.
Qed.

Lemma nth_skipn {A} (l : list A) n i d : nth i (skipn n l) d = nth (n + i) l d.
Proof.
  revert l; induction n; intros l; [reflexivity|].
  destruct l; [cbn; destruct i; reflexivity|]. cbn. apply IHn.
Qed.

Lemma map_nth_seq {A} (l : list A) d n : length l = n -> map (fun i => nth i l d) (seq 0 n) = l.
Proof.
  intros <-. apply nth_ext with (d := d) (d' := d).
  - rewrite map_length, seq_length. reflexivity.
  - intros i Hi. rewrite map_length, seq_length in Hi.
    rewrite (nth_indep _ d (nth 0 l d)) by (rewrite map_length, seq_length; lia).
    rewrite (map_nth (fun i => nth i l d) (seq 0 (length l)) 0%nat i). rewrite seq_nth by lia. reflexivity.
Qed.

Lemma nth_map_seq {A} (f : nat -> A) a n i d : (i < n)%nat -> nth i (map f (seq a n)) d = f (a + i)%nat.
Proof.
  intros H. rewrite (nth_indep _ d (f 0%nat)) by (rewrite map_length, seq_length; lia).
  rewrite (map_nth f (seq a n) 0%nat i). rewrite seq_nth by lia. reflexivity.
Qed.

(** * Tail padding *)
Lemma filled_prefix l : firstn (length (filled l)) l = filled l.
Proof. induction l as [|s l IH]; cbn; [reflexivity|]. destruct (is_tail s); cbn; [reflexivity|]. rewrite IH. reflexivity. Qed.

Lemma filled_length l : (length (filled l) <= length l)%nat.
Proof. induction l as [|s l IH]; cbn; [lia|]. destruct (is_tail s); cbn; lia. Qed.

Lemma share_eqb_eq a b : share_eqb a b = true -> a = b.
Proof.
  destruct a, b; unfold share_eqb; cbn. intros H. apply andb_true_iff in H as [H1 H2].
  apply N.eqb_eq in H1, H2. congruence.
Qed.

Lemma share_eqb_refl a : share_eqb a a = true.
Proof. destruct a; unfold share_eqb; cbn. rewrite !N.eqb_refl. reflexivity. Qed.

Lemma forallb_eq_repeat l : forallb (share_eqb tail_share) l = true -> l = repeat tail_share (length l).
Proof.
  induction l as [|s l IH]; cbn; intros H; [reflexivity|].
  apply andb_true_iff in H as [H1 H2]. apply share_eqb_eq in H1. subst s. rewrite <- IH by assumption. reflexivity.
Qed.

(** a square whose padding is the constant share, contiguous at the end, is its written prefix plus padding *)
Lemma tail_split l :
  forallb (share_eqb tail_share) (skipn (length (filled l)) l) = true ->
  l = filled l ++ repeat tail_share (length l - length (filled l)).
Proof.
  intros H. apply forallb_eq_repeat in H. rewrite skipn_length in H.
  rewrite <- H. transitivity (firstn (length (filled l)) l ++ skipn (length (filled l)) l).
  - symmetry. apply firstn_skipn.
  - rewrite filled_prefix. reflexivity.
Qed.

Lemma filled_app_tail l n : forallb (fun s => negb (is_tail s)) l = true -> filled (l ++ repeat tail_share n) = l.
Proof.
  induction l as [|s l IH]; cbn; intros H.
  - destruct n; reflexivity.
  - apply andb_true_iff in H as [H1 H2]. destruct (is_tail s); [discriminate|]. rewrite IH by assumption. reflexivity.
Qed.

(** reading [c] slots at position [a] of the written prefix and topping up with padding = reading the square *)
Lemma padded_window (fl : list share) p a c :
  (a + c <= length fl + p)%nat ->
  firstn c (skipn a (fl ++ repeat tail_share p)) =
  firstn c (skipn a fl) ++ repeat tail_share (c - length (firstn c (skipn a fl))).
Proof.
  intros H. rewrite skipn_app, firstn_app, skipn_repeat, firstn_repeat.
  rewrite firstn_length, !skipn_length.
  f_equal. f_equal. lia.
Qed.

(** * Sizes and seeking *)
Lemma asize_pos a : 0 < asize a.
Proof. destruct a; cbn; unfold root_size, share_size; lia. Qed.

Lemma fsize_nonneg f : 0 <= fsize f.
Proof. induction f as [|a f IH]; cbn; [lia|]. pose proof (asize_pos a). lia. Qed.

Lemma fsize_app a b : fsize (a ++ b) = fsize a + fsize b.
Proof. induction a as [|x a IH]; cbn; [reflexivity|]. rewrite IH. lia. Qed.

Lemma fsize_bytes l : fsize (map AByte l) = Z.of_nat (length l).
Proof. induction l as [|x l IH]; cbn [map fsize length asize]; [reflexivity|]. rewrite IH. lia. Qed.

Lemma fsize_roots l : fsize (map ARoot l) = root_size * Z.of_nat (length l).
Proof. induction l as [|x l IH]; cbn [map fsize length asize]; [lia|]. rewrite IH. lia. Qed.

Lemma fsize_shares l : fsize (map AShare l) = share_size * Z.of_nat (length l).
Proof. induction l as [|x l IH]; cbn [map fsize length asize]; [lia|]. rewrite IH. lia. Qed.

Lemma seek_app a b d : 0 <= d -> seek (a ++ b) (fsize a + d) = seek b d.
Proof.
  intros Hd. induction a as [|x a IH]; [cbn; f_equal; lia|].
  cbn [app fsize seek]. pose proof (asize_pos x). pose proof (fsize_nonneg a).
  destruct (asize x + fsize a + d =? 0) eqn:E0; [lia|].
  destruct (asize x + fsize a + d <? 0) eqn:E1; [lia|].
  destruct (asize x <=? asize x + fsize a + d) eqn:E2; [|lia].
  replace (asize x + fsize a + d - asize x) with (fsize a + d) by lia. apply IH.
Qed.

Lemma seek_zero f : seek f 0 = Some f.
Proof. destruct f; reflexivity. Qed.

Lemma seek_past f off : fsize f <= off -> seek f off = Some [].
Proof.
  revert off; induction f as [|x f IH]; intros off H; cbn in *.
  - destruct (off <? 0) eqn:E; [lia|reflexivity].
  - pose proof (asize_pos x). pose proof (fsize_nonneg f).
    destruct (off =? 0) eqn:E0; [lia|]. destruct (off <? 0) eqn:E1; [lia|].
    destruct (asize x <=? off) eqn:E2; [|lia]. apply IH. lia.
Qed.

Lemma seek_shares l i : seek (map AShare l) (share_size * Z.of_nat i) = Some (map AShare (skipn i l)).
Proof.
  destruct (Nat.le_gt_cases i (length l)) as [Hle|Hgt].
  - rewrite <- (firstn_skipn i l) at 1. rewrite map_app.
    replace (share_size * Z.of_nat i) with (fsize (map AShare (firstn i l)) + 0)
      by (rewrite fsize_shares, firstn_length, Nat.min_l by lia; lia).
    rewrite seek_app by lia. apply seek_zero.
  - rewrite skipn_all2 by lia. apply seek_past. rewrite fsize_shares. unfold share_size. lia.
Qed.

Lemma take_app_exact a b : take (a ++ b) (fsize a) = (a, fsize a).
Proof.
  induction a as [|x a IH]; cbn [app fsize take].
  - destruct b; reflexivity.
  - pose proof (asize_pos x). pose proof (fsize_nonneg a).
    destruct (asize x + fsize a <=? 0) eqn:E0; [lia|].
    destruct (asize x <=? asize x + fsize a) eqn:E1; [|lia].
    replace (asize x + fsize a - asize x) with (fsize a) by lia. rewrite IH. reflexivity.
Qed.

Lemma take_shares l c :
  take (map AShare l) (share_size * Z.of_nat c) = (map AShare (firstn c l), share_size * Z.of_nat (Nat.min c (length l))).
Proof.
  revert c; induction l as [|s l IH]; intros c.
  - cbn. rewrite firstn_nil, Nat.min_0_r. reflexivity.
  - destruct c as [|c]; [cbn; reflexivity|].
    cbn [map take asize firstn length Nat.min].
    destruct (share_size * Z.of_nat (S c) <=? 0) eqn:E0; [unfold share_size in E0; lia|].
    destruct (share_size <=? share_size * Z.of_nat (S c)) eqn:E1; [|unfold share_size in E1; lia].
    replace (share_size * Z.of_nat (S c) - share_size) with (share_size * Z.of_nat c) by (unfold share_size; lia).
    rewrite IH. cbn [map]. f_equal. unfold share_size. lia.
Qed.

Lemma all_some_map {A B} (f : A -> option B) (g : B -> A) l : (forall b, f (g b) = Some b) -> all_some f (map g l) = Some l.
Proof. intros H. induction l as [|b l IH]; cbn; [reflexivity|]. rewrite H, IH. reflexivity. Qed.

(** * Header *)
Lemma unle16_le16 x : 0 <= x < 65536 -> unle16 (le16 x) = x.
Proof.
  intros H. unfold unle16, le16. cbn [nth].
  pose proof (Z.div_mod x 256 ltac:(lia)). pose proof (Z.mod_pos_bound x 256 ltac:(lia)).
  assert (0 <= x / 256 < 256) by (split; [apply Z.div_pos; lia|apply Z.div_lt_upper_bound; lia]).
  rewrite (Z.mod_small (x / 256)) by lia. lia.
Qed.

Lemma encode_header_length h : length (encode_header h) = 65%nat.
Proof.
  unfold encode_header. rewrite !app_length, repeat_length, firstn_length, app_length, repeat_length. cbn [length le16]. lia.
Qed.

Lemma decode_header_shape pre x y hash :
  length pre = 28%nat -> length x = 2%nat -> length y = 2%nat -> length hash = 32%nat ->
  decode_header (1 :: pre ++ x ++ y ++ hash) = Some (mkH (nth 0 pre 0) (unle16 x) (unle16 y) hash).
Proof.
  intros Hp Hx Hy Hh. unfold decode_header. cbn [Z.eqb Pos.eqb negb].
  replace (length (pre ++ x ++ y ++ hash) <? 64)%nat with false
    by (symmetry; apply Nat.ltb_ge; rewrite !app_length; lia).
  assert (E1 : skipn 28 (pre ++ x ++ y ++ hash) = x ++ y ++ hash).
  { rewrite skipn_app, skipn_all2 by lia. rewrite Hp, Nat.sub_diag. reflexivity. }
  assert (E2 : skipn 30 (pre ++ x ++ y ++ hash) = y ++ hash).
  { replace 30%nat with (28 + 2)%nat by reflexivity. rewrite <- skipn_skipn_add, E1.
    rewrite skipn_app, skipn_all2 by lia. rewrite Hx, Nat.sub_diag. reflexivity. }
  assert (E3 : skipn 32 (pre ++ x ++ y ++ hash) = hash).
  { replace 32%nat with (30 + 2)%nat by reflexivity. rewrite <- skipn_skipn_add, E2.
    rewrite skipn_app, skipn_all2 by lia. rewrite Hy, Nat.sub_diag. reflexivity. }
  rewrite E1, E2, E3.
  rewrite <- Hx at 1. rewrite firstn_app, Nat.sub_diag, firstn_all, firstn_O, app_nil_r.
  rewrite <- Hy at 1. rewrite firstn_app, Nat.sub_diag, firstn_all, firstn_O, app_nil_r.
  rewrite <- Hh, firstn_all.
  destruct pre; [discriminate|]. reflexivity.
Qed.

Lemma decode_encode_header h :
  h_version h = 1 -> 0 <= h_share_size h < 65536 -> 0 <= h_square_size h < 65536 -> length (h_hash h) = 32%nat ->
  decode_header (encode_header h) = Some h.
Proof.
  intros Hv Hs Hq Hh. destruct h as [v ss qs hash]; cbn [h_version h_share_size h_square_size h_hash] in *. subst v.
  unfold encode_header. cbn [h_version h_share_size h_square_size h_hash].
  assert (Hhash : firstn 32 (hash ++ repeat 0 32) = hash).
  { rewrite firstn_app, Hh, Nat.sub_diag. change (firstn 0 (repeat 0 32)) with (@nil Z). rewrite app_nil_r. rewrite <- Hh. apply firstn_all. }
  rewrite Hhash.
  change ([1] ++ [1 mod 256] ++ repeat 0 27 ++ le16 ss ++ le16 qs ++ hash)
    with (1 :: (1 :: repeat 0 27) ++ le16 ss ++ le16 qs ++ hash).
  rewrite decode_header_shape; try reflexivity; try assumption.
  cbn [nth]. rewrite !unle16_le16 by lia. reflexivity.
Qed.

(** * Readers over a region of whole shares *)
Lemma fill_row_pad cnt i sr atoms : sr <= i -> fill_row cnt i sr atoms = Some (repeat tail_share cnt).
Proof.
  revert i atoms; induction cnt as [|c IH]; intros i atoms H; cbn [fill_row repeat]; [reflexivity|].
  destruct (sr - 1 <? i) eqn:E; [|lia]. rewrite IH by lia. reflexivity.
Qed.

Lemma fill_row_shares cnt l i :
  fill_row cnt i (i + Z.of_nat (length l)) (map AShare l) = Some (firstn cnt l ++ repeat tail_share (cnt - length l)).
Proof.
  revert cnt i; induction l as [|s l IH]; intros cnt i.
  - cbn [length map]. rewrite fill_row_pad by lia. rewrite firstn_nil, Nat.sub_0_r. reflexivity.
  - destruct cnt as [|c]; [reflexivity|].
    cbn [fill_row map length firstn].
    destruct (i + Z.of_nat (S (length l)) - 1 <? i) eqn:E; [lia|].
    replace (i + Z.of_nat (S (length l))) with ((i + 1) + Z.of_nat (length l)) by lia.
    rewrite IH. cbn [option_map app Nat.sub]. reflexivity.
Qed.

Lemma read_shares_loop_pad l cnt :
  (length l <= cnt)%nat -> read_shares_loop (map AShare l) 0 cnt = Some (l ++ repeat tail_share (cnt - length l)).
Proof.
  revert cnt; induction l as [|s l IH]; intros cnt H.
  - cbn [map length]. rewrite Nat.sub_0_r. destruct cnt; reflexivity.
  - destruct cnt as [|c]; [cbn in H; lia|]. cbn [map read_shares_loop length].
    rewrite IH by (cbn in H; lia). reflexivity.
Qed.

(** * Matrices *)
Lemma row_of_length k m i : (i * k + k <= length m)%nat -> length (row_of k m i) = k.
Proof. intros H. unfold row_of. rewrite firstn_length, skipn_length. lia. Qed.

Lemma col_of_length k m j : length (col_of k m j) = k.
Proof. unfold col_of. rewrite map_length, seq_length. reflexivity. Qed.

Lemma nth_row_of k m i j d : (j < k)%nat -> nth j (row_of k m i) d = nth (i * k + j) m d.
Proof. intros H. unfold row_of. rewrite nth_firstn by assumption. apply nth_skipn. Qed.

Lemma chunks_length k n l : length (chunks k n l) = n.
Proof. revert l; induction n; intros l; cbn; [reflexivity|]. rewrite IHn. reflexivity. Qed.

Lemma nth_chunks k n l i : (i < n)%nat -> nth i (chunks k n l) [] = row_of k l i.
Proof.
  revert l i; induction n as [|n IH]; intros l i H; [lia|].
  destruct i as [|i]; cbn [chunks nth].
  - unfold row_of. reflexivity.
  - rewrite IH by lia. unfold row_of. rewrite skipn_skipn_add. reflexivity.
Qed.

Lemma concat_chunks k n l : length l = (n * k)%nat -> concat (chunks k n l) = l.
Proof.
  revert l; induction n as [|n IH]; intros l H; cbn [chunks concat].
  - destruct l; [reflexivity|cbn in H; lia].
  - rewrite IH by (rewrite skipn_length; lia). apply firstn_skipn.
Qed.

Lemma row_of_concat k (rows : list (list share)) i :
  Forall (fun r => length r = k) rows -> (i < length rows)%nat -> row_of k (concat rows) i = nth i rows [].
Proof.
  revert i; induction rows as [|r rows IH]; intros i HF Hi; [cbn in Hi; lia|].
  apply Forall_cons_iff in HF as [Hr HF']. unfold row_of. destruct i as [|i]; cbn [concat nth].
  - cbn [Nat.mul skipn]. rewrite firstn_app, Hr, Nat.sub_diag. cbn [firstn]. rewrite app_nil_r. rewrite <- Hr. apply firstn_all.
  - replace (S i * k)%nat with (length r + i * k)%nat by (rewrite Hr; lia).
    rewrite <- skipn_skipn_add. rewrite skipn_app, Nat.sub_diag, skipn_all. cbn [app skipn].
    apply IH; [assumption|cbn in Hi; lia].
Qed.

Lemma concat_length_rows k (rows : list (list share)) :
  Forall (fun r => length r = k) rows -> length (concat rows) = (length rows * k)%nat.
Proof. induction 1 as [|r rows Hr HF IH]; cbn; [reflexivity|]. rewrite app_length, IH, Hr. lia. Qed.

(** * The ODS file *)
Section File.
  Variable parity : list share -> list share.
  Hypothesis parity_length : forall l, length (parity l) = length l.

  Variable sq : square.
  Hypothesis Hwf : wf sq = true.

  Let k := sq_k sq.
  Let h := header_of sq.
  Let fl := filled (sq_ods sq).

  (** facts packed into [wf] *)
  Lemma wf_facts :
    (0 < k)%nat /\ Z.of_nat k <= 32767 /\ length (sq_ods sq) = (k * k)%nat /\ length (sq_roots sq) = (4 * k)%nat /\
    length (sq_hash sq) = 32%nat /\
    sq_ods sq = fl ++ repeat tail_share (k * k - length fl).
  Proof.
    pose proof Hwf as W. unfold wf in W. fold k in W.
    repeat rewrite andb_true_iff in W.
    destruct W as (((((((((H1 & H2) & H3) & H4) & H5) & H6) & H7) & H8) & H9) & H10).
    apply Nat.ltb_lt in H1. apply Z.leb_le in H2. apply Nat.eqb_eq in H3, H4, H5.
    repeat split; try assumption.
    rewrite <- H3. apply tail_split. assumption.
  Qed.

  Lemma wf_rows :
    (forall i, (i < 2 * k)%nat -> row_root_ok k (sq_ods sq) (sq_roots sq) i = true) /\
    (forall i, (i < k)%nat -> sorted_ns (row_of k (sq_ods sq) i) = true).
  Proof.
    pose proof Hwf as W. unfold wf in W. fold k in W.
    repeat rewrite andb_true_iff in W.
    destruct W as (((((((((H1 & H2) & H3) & H4) & H5) & H6) & H7) & H8) & H9) & H10).
    rewrite forallb_forall in H9, H10. split; intros i Hi.
    - apply H10. apply in_seq. lia.
    - apply H9. apply in_seq. lia.
  Qed.

  Lemma fl_length : (length fl <= k * k)%nat.
  Proof. destruct wf_facts as (_ & _ & H & _). rewrite <- H. apply filled_length. Qed.

  Lemma hdr_fields : h_share_size h = 512 /\ h_square_size h = 2 * Z.of_nat k /\ h_square_size h / 2 = Z.of_nat k.
  Proof.
    unfold h, header_of; cbn [h_share_size h_square_size]. fold k. repeat split.
    rewrite Z.mul_comm. apply Z.div_mul. lia.
  Qed.

  Lemma hdr_bytes_len : fsize (map AByte (encode_header h)) = hdr_size.
  Proof. rewrite fsize_bytes, encode_header_length. reflexivity. Qed.

  Lemma open_encode : open_ods (encode_ods sq) = Some h.
  Proof.
    destruct wf_facts as (Hk & Hk2 & Hods & Hroots & Hhash & _).
    unfold open_ods, encode_ods. fold h.
    replace (Z.to_nat hdr_size) with (length (map AByte (encode_header h))) by (rewrite map_length, encode_header_length; reflexivity).
    rewrite firstn_app, Nat.sub_diag, firstn_all. cbn [firstn]. rewrite app_nil_r.
    rewrite all_some_map by reflexivity.
    apply decode_encode_header; unfold h, header_of; cbn [h_version h_share_size h_square_size h_hash]; fold k;
      try reflexivity; try assumption; unfold share_size; lia.
  Qed.

  Lemma base_is_prefix :
    offset_with_roots h = fsize (map AByte (encode_header h) ++ map ARoot (sq_roots sq)).
  Proof.
    destruct wf_facts as (_ & _ & _ & Hroots & _).
    destruct hdr_fields as (_ & Hq & _).
    rewrite fsize_app, hdr_bytes_len, fsize_roots, Hroots. unfold offset_with_roots, roots_size. rewrite Hq. lia.
  Qed.

  Lemma read_roots_encode : read_roots (encode_ods sq) h = Some (sq_roots sq).
  Proof.
    destruct wf_facts as (_ & _ & _ & Hroots & _). destruct hdr_fields as (_ & Hq & _).
    unfold read_roots, read_at, encode_ods. fold h.
    rewrite <- hdr_bytes_len. replace (fsize (map AByte (encode_header h))) with (fsize (map AByte (encode_header h)) + 0) by lia.
    rewrite seek_app by lia. rewrite seek_zero.
    assert (Hrs : roots_size h = fsize (map ARoot (sq_roots sq))).
    { rewrite fsize_roots, Hroots. unfold roots_size. rewrite Hq. lia. }
    rewrite Hrs, take_app_exact, Z.eqb_refl. apply all_some_map. reflexivity.
  Qed.

  (** seeking to share slot [i] of the ODS region *)
  Lemma seek_slot i :
    seek (encode_ods sq) (offset_with_roots h + Z.of_nat i * share_size) = Some (map AShare (skipn i fl)).
  Proof.
    unfold encode_ods. fold h fl. rewrite app_assoc, base_is_prefix.
    rewrite seek_app by (unfold share_size; lia). rewrite Z.mul_comm. apply seek_shares.
  Qed.

  Lemma read_slots i c :
    read_at (encode_ods sq) (offset_with_roots h + Z.of_nat i * share_size) (Z.of_nat c * share_size) =
    Some (map AShare (firstn c (skipn i fl)), share_size * Z.of_nat (Nat.min c (length (skipn i fl)))).
  Proof. unfold read_at. rewrite seek_slot. rewrite (Z.mul_comm (Z.of_nat c)), take_shares. reflexivity. Qed.

  (** ** a row half: the shares on disk, then tail padding — i.e. the row of the square *)
  Theorem read_row_half_ods i :
    (i < k)%nat -> read_row_half (encode_ods sq) h (offset_with_roots h) i = Some (row_of k (sq_ods sq) i).
  Proof.
    intros Hi. destruct wf_facts as (Hk & _ & Hods & _ & _ & Hsplit). destruct hdr_fields as (Hs & Hq & Hd).
    unfold read_row_half. rewrite Hd, Hs.
    replace (offset_with_roots h + Z.of_nat i * Z.of_nat k * 512) with (offset_with_roots h + Z.of_nat (i * k) * share_size)
      by (unfold share_size; lia).
    replace (Z.of_nat k * 512) with (Z.of_nat k * share_size) by reflexivity.
    rewrite read_slots. rewrite Nat2Z.id.
    set (w := firstn k (skipn (i * k) fl)).
    assert (Hw : length w = Nat.min k (length (skipn (i * k) fl))) by (unfold w; apply firstn_length).
    replace (share_size * Z.of_nat (Nat.min k (length (skipn (i * k) fl))) / 512) with (0 + Z.of_nat (length w))
      by (rewrite Hw; unfold share_size; rewrite Z.mul_comm, Z.div_mul by lia; lia).
    rewrite fill_row_shares. f_equal.
    unfold row_of. rewrite Hsplit. rewrite padded_window by (pose proof fl_length; nia).
    fold w. rewrite firstn_all2 by (rewrite Hw; lia). reflexivity.
  Qed.

  (** ** a column half *)
  Lemma read_col_loop_ods j cnt i :
    (j < k)%nat -> (i + cnt <= k)%nat ->
    read_col_loop (encode_ods sq) h (offset_with_roots h) j cnt (Z.of_nat i) =
    Some (map (fun r => nth (r * k + j) (sq_ods sq) tail_share) (seq i cnt)).
  Proof.
    intros Hj. destruct wf_facts as (Hk & _ & Hods & _ & _ & Hsplit). destruct hdr_fields as (Hs & Hq & Hd).
    revert i; induction cnt as [|c IH]; intros i Hic; [reflexivity|].
    cbn [read_col_loop seq map]. rewrite Hd, Hs.
    replace (offset_with_roots h + (Z.of_nat j + Z.of_nat i * Z.of_nat k) * 512)
      with (offset_with_roots h + Z.of_nat (i * k + j) * share_size) by (unfold share_size; lia).
    replace 512 with (Z.of_nat 1 * share_size) at 1 by reflexivity.
    rewrite read_slots.
    destruct (skipn (i * k + j) fl) as [|s rest] eqn:Esk.
    - (* past the end of the file: this and every later slot of the column is padding *)
      cbn [length Nat.min firstn map]. rewrite Z.mul_0_r. cbn [Z.eqb].
      f_equal. change (tail_share :: repeat tail_share c) with (repeat tail_share (S c)).
      assert (Hlen : (length fl <= i * k + j)%nat).
      { destruct (Nat.le_gt_cases (length fl) (i * k + j)) as [Hle|Hgt]; [exact Hle|].
        exfalso. assert (length (skipn (i * k + j) fl) = 0%nat) by (rewrite Esk; reflexivity).
        rewrite skipn_length in H. lia. }
      change (nth (i * k + j) (sq_ods sq) tail_share :: map (fun r => nth (r * k + j) (sq_ods sq) tail_share) (seq (S i) c))
        with (map (fun r => nth (r * k + j) (sq_ods sq) tail_share) (seq i (S c))).
      apply nth_ext with (d := tail_share) (d' := tail_share).
      + rewrite repeat_length, map_length, seq_length. reflexivity.
      + intros n Hn. rewrite repeat_length in Hn. rewrite nth_repeat.
        rewrite nth_map_seq by assumption. rewrite Hsplit. fold fl.
        rewrite app_nth2 by nia. rewrite nth_repeat. reflexivity.
    - cbn [length Nat.min firstn map].
      replace (share_size * Z.of_nat 1 =? 0) with false by reflexivity.
      replace (Z.of_nat i + 1) with (Z.of_nat (S i)) by lia.
      rewrite IH by lia. cbn [option_map]. f_equal. f_equal.
      rewrite Hsplit. fold fl.
      assert (Hlt : (i * k + j < length fl)%nat).
      { destruct (Nat.le_gt_cases (length fl) (i * k + j)) as [Hle|Hgt]; [|exact Hgt].
        rewrite skipn_all2 in Esk by exact Hle. discriminate. }
      rewrite app_nth1 by exact Hlt.
      rewrite <- (Nat.add_0_r (i * k + j)), <- nth_skipn, Esk. reflexivity.
  Qed.

  Theorem read_col_half_ods j :
    (j < k)%nat -> read_col_half (encode_ods sq) h (offset_with_roots h) j = Some (col_of k (sq_ods sq) j).
  Proof.
    intros Hj. destruct hdr_fields as (_ & _ & Hd). unfold read_col_half. rewrite Hd, Nat2Z.id.
    change 0 with (Z.of_nat 0). rewrite read_col_loop_ods by lia. reflexivity.
  Qed.

  (** ** the whole first quadrant through [ReadShares] *)
  Theorem read_ods_shares_encode : read_ods_shares (encode_ods sq) h = Some (sq_ods sq).
  Proof.
    destruct wf_facts as (Hk & _ & Hods & _ & _ & Hsplit). destruct hdr_fields as (Hs & Hq & Hd).
    unfold read_ods_shares, read_shares_section. rewrite Hd, Hs, Nat2Z.id.
    replace (offset_with_roots h) with (offset_with_roots h + Z.of_nat 0 * share_size) by lia.
    replace (512 * Z.of_nat k * Z.of_nat k) with (Z.of_nat (k * k) * share_size) by (unfold share_size; lia).
    rewrite read_slots. cbn [skipn].
    pose proof fl_length as Hfl.
    rewrite firstn_all2 by exact Hfl. rewrite Nat.min_r by exact Hfl.
    rewrite fsize_shares, Z.sub_diag.
    rewrite read_shares_loop_pad by exact Hfl. f_equal. symmetry. exact Hsplit.
  Qed.

  (** ** the file size [ValidateODSSize] expects is the size of what [CreateODS] writes *)
  Theorem encode_ods_size : fsize (encode_ods sq) = expected_ods_size sq.
  Proof.
    unfold encode_ods, expected_ods_size. fold h fl. rewrite app_assoc, fsize_app, <- base_is_prefix, fsize_shares. lia.
  Qed.

  (** ** round trip *)
  Theorem decode_encode_ods : decode_ods (encode_ods sq) = Some sq.
  Proof.
    destruct hdr_fields as (_ & _ & Hd).
    unfold decode_ods. rewrite open_encode, read_roots_encode, read_ods_shares_encode.
    rewrite Hd, Nat2Z.id. unfold h, header_of; cbn [h_hash]. fold k. destruct sq; reflexivity.
  Qed.

  (** * The Q4 file *)
  Let q4s := concat (map (q4_row parity sq) (seq 0 k)).

  Lemma q3_row_length i : length (q3_row parity sq i) = k.
  Proof. unfold q3_row. rewrite map_length, seq_length. reflexivity. Qed.

  Lemma q4_row_length i : length (q4_row parity sq i) = k.
  Proof. unfold q4_row. rewrite parity_length. apply q3_row_length. Qed.

  Lemma q4_rows_ok : Forall (fun r => length r = k) (map (q4_row parity sq) (seq 0 k)).
  Proof. apply Forall_forall. intros r Hr. apply in_map_iff in Hr as (i & <- & _). apply q4_row_length. Qed.

  Lemma q4s_length : length q4s = (k * k)%nat.
  Proof. unfold q4s. rewrite (concat_length_rows k) by apply q4_rows_ok. rewrite map_length, seq_length. reflexivity. Qed.

  Lemma q4s_row i : (i < k)%nat -> row_of k q4s i = q4_row parity sq i.
  Proof.
    intros Hi. unfold q4s. rewrite row_of_concat; [|apply q4_rows_ok|rewrite map_length, seq_length; exact Hi].
    rewrite nth_map_seq with (d := []) by exact Hi. reflexivity.
  Qed.

  Lemma encode_q4_eq : encode_q4 parity sq = map AShare q4s.
  Proof. reflexivity. Qed.

  Lemma read_q4_slots i c :
    read_at (encode_q4 parity sq) (0 + Z.of_nat i * share_size) (Z.of_nat c * share_size) =
    Some (map AShare (firstn c (skipn i q4s)), share_size * Z.of_nat (Nat.min c (length (skipn i q4s)))).
  Proof.
    unfold read_at. rewrite encode_q4_eq. rewrite Z.add_0_l, (Z.mul_comm (Z.of_nat i)), seek_shares.
    rewrite (Z.mul_comm (Z.of_nat c)), take_shares. reflexivity.
  Qed.

  Theorem read_row_half_q4 i :
    (i < k)%nat -> read_row_half (encode_q4 parity sq) h 0 i = Some (q4_row parity sq i).
  Proof.
    intros Hi. destruct hdr_fields as (Hs & Hq & Hd).
    unfold read_row_half. rewrite Hd, Hs.
    replace (0 + Z.of_nat i * Z.of_nat k * 512) with (0 + Z.of_nat (i * k) * share_size) by (unfold share_size; lia).
    replace (Z.of_nat k * 512) with (Z.of_nat k * share_size) by reflexivity.
    rewrite read_q4_slots, Nat2Z.id.
    fold (row_of k q4s i). rewrite q4s_row by exact Hi.
    assert (Hl : length (skipn (i * k) q4s) = (k * k - i * k)%nat) by (rewrite skipn_length, q4s_length; reflexivity).
    rewrite Hl. replace (Nat.min k (k * k - i * k)) with k by nia.
    replace (share_size * Z.of_nat k / 512) with (0 + Z.of_nat (length (q4_row parity sq i)))
      by (rewrite q4_row_length; unfold share_size; rewrite Z.mul_comm, Z.div_mul by lia; lia).
    rewrite fill_row_shares. rewrite q4_row_length, Nat.sub_diag. cbn [repeat]. rewrite app_nil_r.
    rewrite firstn_all2 by (rewrite q4_row_length; lia). reflexivity.
  Qed.

  Lemma read_col_loop_q4 j cnt i :
    (j < k)%nat -> (i + cnt <= k)%nat ->
    read_col_loop (encode_q4 parity sq) h 0 j cnt (Z.of_nat i) =
    Some (map (fun r => nth j (q4_row parity sq r) tail_share) (seq i cnt)).
  Proof.
    intros Hj. destruct hdr_fields as (Hs & Hq & Hd).
    revert i; induction cnt as [|c IH]; intros i Hic; [reflexivity|].
    cbn [read_col_loop seq map]. rewrite Hd, Hs.
    replace (0 + (Z.of_nat j + Z.of_nat i * Z.of_nat k) * 512) with (0 + Z.of_nat (i * k + j) * share_size)
      by (unfold share_size; lia).
    replace 512 with (Z.of_nat 1 * share_size) at 1 by reflexivity.
    rewrite read_q4_slots.
    assert (Hlt : (i * k + j < length q4s)%nat) by (rewrite q4s_length; nia).
    destruct (skipn (i * k + j) q4s) as [|s rest] eqn:Esk.
    { exfalso. assert (length (skipn (i * k + j) q4s) = 0%nat) by (rewrite Esk; reflexivity).
      rewrite skipn_length in H. lia. }
    cbn [length Nat.min firstn map].
    replace (share_size * Z.of_nat 1 =? 0) with false by reflexivity.
    replace (Z.of_nat i + 1) with (Z.of_nat (S i)) by lia.
    rewrite IH by lia. cbn [option_map]. f_equal. f_equal.
    rewrite <- q4s_row by lia. rewrite nth_row_of by exact Hj.
    rewrite <- (Nat.add_0_r (i * k + j)), <- nth_skipn, Esk. reflexivity.
  Qed.

  Theorem read_col_half_q4 j :
    (j < k)%nat -> read_col_half (encode_q4 parity sq) h 0 j =
                   Some (map (fun r => nth j (q4_row parity sq r) tail_share) (seq 0 k)).
  Proof.
    intros Hj. destruct hdr_fields as (_ & _ & Hd). unfold read_col_half. rewrite Hd, Nat2Z.id.
    change 0 with (Z.of_nat 0) at 2. apply read_col_loop_q4; lia.
  Qed.

  Theorem encode_q4_size : fsize (encode_q4 parity sq) = expected_q4_size sq.
  Proof. rewrite encode_q4_eq, fsize_shares, q4s_length. unfold expected_q4_size. fold k. lia. Qed.
End File.

(** * Closed statements (no assumption on the code beyond length preservation, and only for the Q4 file) *)
Theorem file_sizes : forall parity, (forall l, length (parity l) = length l) -> forall sq, wf sq = true ->
  fsize (encode_ods sq) = expected_ods_size sq /\ fsize (encode_q4 parity sq) = expected_q4_size sq /\
  open_ods (encode_ods sq) = Some (header_of sq) /\ read_roots (encode_ods sq) (header_of sq) = Some (sq_roots sq).
Proof.
  intros parity Hp sq Hwf. repeat split.
  - exact (encode_ods_size sq Hwf).
  - exact (encode_q4_size parity Hp sq Hwf).
  - exact (open_encode sq Hwf).
  - exact (read_roots_encode sq Hwf).
Qed.

Theorem file_readers : forall parity, (forall l, length (parity l) = length l) -> forall sq, wf sq = true ->
  (forall i, (i < sq_k sq)%nat ->
     read_row_half (encode_ods sq) (header_of sq) (offset_with_roots (header_of sq)) i = Some (row_of (sq_k sq) (sq_ods sq) i) /\
     read_col_half (encode_ods sq) (header_of sq) (offset_with_roots (header_of sq)) i = Some (col_of (sq_k sq) (sq_ods sq) i) /\
     read_row_half (encode_q4 parity sq) (header_of sq) 0 i = Some (q4_row parity sq i) /\
     read_col_half (encode_q4 parity sq) (header_of sq) 0 i =
       Some (map (fun r => nth i (q4_row parity sq r) tail_share) (seq 0 (sq_k sq)))) /\
  read_ods_shares (encode_ods sq) (header_of sq) = Some (sq_ods sq).
Proof.
  intros parity Hp sq Hwf. split; [intros i Hi; repeat split|].
  - exact (read_row_half_ods sq Hwf i Hi).
  - exact (read_col_half_ods sq Hwf i Hi).
  - exact (read_row_half_q4 parity Hp sq Hwf i Hi).
  - exact (read_col_half_q4 parity Hp sq Hwf i Hi).
  - exact (read_ods_shares_encode sq Hwf).
Qed.

(** C05 — model of every way the EDS store reads a block back:
    the in-memory accessor (share/eds/rsmt2d.go), the ODS file accessor (store/file/ods.go, square.go), the ODS+Q4
    accessor (ods_q4.go, q4.go), and the wrappers the store puts around each of them (store.go:558-564):
    proofs cache (share/eds/proofs_cache.go, a memo), close-once (pass-through while open) and bounds validation
    (share/eds/validation.go).  Accessors are state machines: the ODS accessor caches the square once it was read
    in full, the proofs cache memoises axis halves and extended axes; every operation returns a result and the next
    state, so theorems quantify over arbitrary histories of reads.

    Proof *production* (NMT paths) is not modelled; results are the shares served.  Executable, no proofs. *)
From Coq Require Import List ZArith NArith Lia Bool.
From CN Require Import Store.OdsFile.
Import ListNotations.
Open Scope Z_scope.

(** * What a read returns *)
Inductive res :=
| RErr                                         (* an error was returned (nothing served) *)
| RShare (s : share)                           (* Sample *)
| RHalf (is_parity : bool) (l : list share)    (* AxisHalf *)
| RShares (l : list share)                     (* RowNamespaceData, Shares, Reader *)
| RRows (l : list (list share))                (* RangeNamespaceData, NamespaceData: shares per row *)
| RRoots (l : list root)
| RHash (l : list Z)
| RSize (n : Z).

(** * Read requests (arguments as the Go API takes them: any int) *)
Inductive path :=
| PSample (i j : Z)
| PAxisHalf (a : axis) (i : Z)
| PRowNd (ns : N) (i : Z)
| PNd (ns : N)                 (* eds.NamespaceData: all rows whose root range contains ns *)
| PRange (from to : Z)
| PShares
| PReader
| PRoots
| PHash
| PSize.

Section Accessors.
  Variable parity : list share -> list share.     (* codec.Encode *)
  Variable recover : list share -> list share.    (* codec.Decode on a parity half: the data half *)

  (** [AxisHalf.Extended] *)
  Definition extended (h : bool * list share) : list share :=
    let '(p, l) := h in if p then recover l ++ l else l ++ parity l.

  (** ** Namespace data of one row *)

  (** min/max namespace of the row's NMT root: leaves of the ODS part carry their own namespace, everything else
      the parity namespace, which is ignored for the maximum *)
  Definition row_range (k idx : nat) (shares : list share) : N * N :=
    if (idx <? k)%nat then (sns (hd tail_share (firstn k shares)), sns (last (firstn k shares) tail_share))
    else (parity_ns, parity_ns).

  Definition outside (ns : N) (r : N * N) : bool := (ns <? fst r)%N || (snd r <? ns)%N.    (* share.IsOutsideRange *)

  (** the scan of [RowNamespaceDataFromShares]: the first contiguous run of [ns] in the first half *)
  Fixpoint first_run (ns : N) (l : list share) (started : bool) : list share :=
    match l with
    | [] => []
    | s :: l' => if N.eqb (sns s) ns then s :: first_run ns l' true
                 else if started then [] else first_run ns l' false
    end.

  (** [shwap.RowNamespaceDataFromShares(shares, ns, rowIdx)]; [tree.Push] fails on unordered leaves *)
  Definition row_nd_from_shares (k : nat) (shares : list share) (ns : N) (idx : nat) : res :=
    if negb (sorted_ns (firstn k shares)) && (idx <? k)%nat then RErr
    else if outside ns (row_range k idx shares) then RErr
    else RShares (first_run ns (firstn k shares) false).

  (** [ipld.GetSharesByNamespace] over the cached tree of the row: validate, outside-range, then every leaf of [ns] *)
  Definition row_nd_from_tree (k : nat) (shares : list share) (ns : N) (idx : nat) : res :=
    if negb (ns_valid_for_data ns) then RErr
    else if outside ns (row_range k idx shares) then RErr
    else RShares (filter (fun s => N.eqb (sns s) ns) (if (idx <? k)%nat then firstn k shares else [])).

  (** ** Share ranges: [shwap.RangeNamespaceDataFromShares(rows, from, to)] *)
  Definition slice (l : list share) (a b : nat) : list share := firstn (b - a) (skipn a l).

  Fixpoint map_last {A} (f : A -> A) (l : list A) : list A :=
    match l with [] => [] | [x] => [f x] | x :: l' => x :: map_last f l' end.
  Definition map_first {A} (f : A -> A) (l : list A) : list A :=
    match l with [] => [] | x :: l' => f x :: l' end.

  Definition range_from_rows (rows : list (list share)) (fr fc tr tc : nat) : res :=
    match rows with
    | [] => RErr
    | r0 :: _ =>
        if Nat.eqb (length r0) 0 then RErr
        else if negb (Nat.eqb (length rows) (tr - fr + 1)) then RErr
        else
          let ns := sns (nth fc r0 tail_share) in
          let k := Nat.div (length r0) 2 in
          let multi := (1 <? tr - fr + 1)%nat in
          let starts_mid := negb (Nat.eqb fc 0) in
          let ends_mid := negb (Nat.eqb tc (k - 1)) in
          let start_proof := starts_mid || (negb multi && ends_mid) in
          let end_proof := ends_mid && multi in
          let rows1 := if start_proof then map_first (fun r => slice r fc (if multi then k else tc + 1)) rows else rows in
          let rows2 := if end_proof then map_last (fun r => firstn (tc + 1) r) rows1 else rows1 in
          let rows3 := map (fun r => if (k <=? length r)%nat then firstn k r else r) rows2 in
          if forallb (forallb (fun s => N.eqb (sns s) ns)) rows3 then RRows rows3 else RErr
    end.

  (** [SampleCoordsFrom1DIndex(idx, k)] for an in-range idx *)
  Definition coords (k idx : nat) : nat * nat := (Nat.div idx k, Nat.modulo idx k).

  (** * The in-memory accessor [eds.Rsmt2D]: holds all 2k x 2k shares *)
  Record mem := mkMem { m_eds : list (list share); m_roots : list root; m_hash : list Z }.

  Definition m_k (m : mem) : nat := Nat.div (length (m_eds m)) 2.
  Definition m_axis (m : mem) (a : axis) (i : nat) : list share :=
    match a with Row => nth i (m_eds m) [] | Col => col_of_ext (m_eds m) i end.

  Definition mem_axis_half (m : mem) (a : axis) (i : nat) : option (bool * list share) :=
    Some (false, firstn (m_k m) (m_axis m a i)).
  Definition mem_shares (m : mem) : list share := concat (map (firstn (m_k m)) (firstn (m_k m) (m_eds m))).
  Definition mem_range (m : mem) (f t : nat) : res :=
    let k := m_k m in
    let '(fr, fc) := coords k f in
    let '(tr, tc) := coords k (t - 1) in
    range_from_rows (map (fun r => nth r (m_eds m) []) (seq fr (tr - fr + 1))) fr fc tr tc.

  (** * The ODS file accessor [file.ODS] and its Q4 companion [file.ODSQ4] *)
  Record fileacc := mkF {
    fa_ods : list atom;                      (* the ODS file *)
    fa_hdr : header;                         (* decoded by OpenODS *)
    fa_q4 : option (list atom);              (* the Q4 file if it can be opened *)
    fa_cache : option (list (list share))    (* [ODS.ods]: the first quadrant, once it was read in full *)
  }.

  Definition fa_k (a : fileacc) : nat := Z.to_nat (h_square_size (fa_hdr a) / 2).

  (** [square.axisHalf] *)
  Definition square_axis_half (s : list (list share)) (a : axis) (i : nat) : option (list share) :=
    if (length s <=? i)%nat then None
    else Some (match a with Row => nth i s [] | Col => map (fun r => nth i r tail_share) s end).

  (** [ODS.readAxisHalf]: from the cached square if there is one, else from the file *)
  Definition ods_read_axis_half (a : fileacc) (ax : axis) (i : nat) : option (list share) :=
    match fa_cache a with
    | Some s => square_axis_half s ax i
    | None => read_axis_half (fa_ods a) ax i (fa_hdr a) (offset_with_roots (fa_hdr a))
    end.

  (** [ODS.readODS]: cached, or read through [ReadShares] and cached *)
  Definition ods_read_ods (a : fileacc) : option (list (list share)) * fileacc :=
    match fa_cache a with
    | Some s => (Some s, a)
    | None =>
        match read_ods_shares (fa_ods a) (fa_hdr a) with
        | Some shs => let s := chunks (fa_k a) (fa_k a) shs in
                      (Some s, mkF (fa_ods a) (fa_hdr a) (fa_q4 a) (Some s))
        | None => (None, a)
        end
    end.

  (** [square.computeAxisHalf]: share [idx] of every opposite axis, reconstructed from that axis' data half *)
  Definition compute_axis_half (s : list (list share)) (ax : axis) (idx : nat) : option (list share) :=
    let k := length s in
    all_some (fun i => match square_axis_half s (opposite ax) i with
                       | Some half => Some (nth (idx - k) (parity half) tail_share)
                       | None => None
                       end) (seq 0 k).

  (** [ODS.AxisHalf] *)
  Definition ods_axis_half (a : fileacc) (ax : axis) (i : nat) : option (bool * list share) * fileacc :=
    if (i <? fa_k a)%nat then (option_map (pair false) (ods_read_axis_half a ax i), a)
    else match ods_read_ods a with
         | (Some s, a') => (option_map (pair false) (compute_axis_half s ax i), a')
         | (None, a') => (None, a')
         end.

  (** [q4.axisHalf] *)
  Definition q4_axis_half (a : fileacc) (q : list atom) (ax : axis) (i : nat) : option (bool * list share) :=
    option_map (pair true) (read_axis_half q ax (i - fa_k a) (fa_hdr a) 0).

  (** [ODSQ4.AxisHalf]: the Q4 file when the axis lies in the second half and the file is there *)
  Definition file_axis_half (a : fileacc) (ax : axis) (i : nat) : option (bool * list share) * fileacc :=
    match fa_q4 a with
    | Some q => if (fa_k a <=? i)%nat then (q4_axis_half a q ax i, a) else ods_axis_half a ax i
    | None => ods_axis_half a ax i
    end.

  Definition file_shares (a : fileacc) : option (list share) * fileacc :=
    match ods_read_ods a with
    | (Some s, a') => (Some (concat s), a')
    | (None, a') => (None, a')
    end.

  (** [ODS.Reader]: the cached square through a ShareReader, or a section of the file — which simply ends where the
      file ends (tail padding is not stored) *)
  Definition file_reader (a : fileacc) : option (list share) :=
    match fa_cache a with
    | Some s => Some (concat s)
    | None =>
        let h := fa_hdr a in
        match read_at (fa_ods a) (offset_with_roots h) (h_share_size h * (h_square_size h * h_square_size h / 4)) with
        | Some (atoms, _) => all_some as_share atoms
        | None => None
        end
    end.

  (** [ODS.RangeNamespaceData]: the rows through [readAxisHalf], extended *)
  Definition file_range (a : fileacc) (f t : nat) : res :=
    let k := fa_k a in
    let '(fr, fc) := coords k f in
    let '(tr, tc) := coords k (t - 1) in
    match all_some (fun r => option_map (fun l => extended (false, l)) (ods_read_axis_half a Row r)) (seq fr (tr - fr + 1)) with
    | Some rows => range_from_rows rows fr fc tr tc
    | None => RErr
    end.

  (** * The accessor below the wrappers *)
  Inductive inner := IMem (m : mem) | IFile (a : fileacc).

  Definition in_size (x : inner) : Z :=
    match x with IMem m => Z.of_nat (length (m_eds m)) | IFile a => h_square_size (fa_hdr a) end.
  Definition in_k (x : inner) : nat := match x with IMem m => m_k m | IFile a => fa_k a end.

  Definition in_axis_half (x : inner) (ax : axis) (i : nat) : option (bool * list share) * inner :=
    match x with
    | IMem m => (mem_axis_half m ax i, x)
    | IFile a => let '(r, a') := file_axis_half a ax i in (r, IFile a')
    end.

  Definition in_shares (x : inner) : option (list share) * inner :=
    match x with
    | IMem m => (Some (mem_shares m), x)
    | IFile a => let '(r, a') := file_shares a in (r, IFile a')
    end.

  Definition in_reader (x : inner) : option (list share) :=
    match x with IMem m => Some (mem_shares m) | IFile a => file_reader a end.

  Definition in_range (x : inner) (f t : nat) : res :=
    match x with IMem m => mem_range m f t | IFile a => file_range a f t end.

  Definition in_roots (x : inner) : option (list root) :=
    match x with IMem m => Some (m_roots m) | IFile a => read_roots (fa_ods a) (fa_hdr a) end.

  Definition in_hash (x : inner) : list Z :=
    match x with IMem m => m_hash m | IFile a => h_hash (fa_hdr a) end.

  (** ** The accessors' own Sample / RowNamespaceData (used when no proofs cache is in front) *)
  Definition in_sample (x : inner) (i j : nat) : res * inner :=
    match x with
    | IMem m => (RShare (cell_of (m_eds m) i j), x)
    | IFile a =>
        match fa_q4 a with
        | Some _ =>                                            (* ODSQ4.Sample: always the row *)
            match file_axis_half a Row i with
            | (Some h, a') => (RShare (nth j (extended h) tail_share), IFile a')
            | (None, a') => (RErr, IFile a')
            end
        | None =>                                              (* ODS.Sample: the column for the third quadrant *)
            let k := fa_k a in
            let '(ax, ai, si) := if (j <? k)%nat && (k <=? i)%nat then (Col, j, i) else (Row, i, j) in
            match ods_axis_half a ax ai with
            | (Some h, a') => (RShare (nth si (extended h) tail_share), IFile a')
            | (None, a') => (RErr, IFile a')
            end
        end
    end.

  Definition in_row_nd (x : inner) (ns : N) (i : nat) : res * inner :=
    match x with
    | IMem m => (row_nd_from_shares (m_k m) (nth i (m_eds m) []) ns i, x)
    | IFile a =>
        match file_axis_half a Row i with
        | (Some h, a') => (row_nd_from_shares (fa_k a) (extended h) ns i, IFile a')
        | (None, a') => (RErr, IFile a')
        end
    end.

  (** * The proofs cache: a memo of axis halves and of extended axes (the NMT built from them is not modelled) *)
  Record pentry := mkPE { pe_axis : axis; pe_idx : nat; pe_half : bool * list share; pe_shares : option (list share) }.

  Definition axis_eqb (a b : axis) : bool := match a, b with Row, Row | Col, Col => true | _, _ => false end.

  Fixpoint pc_find (c : list pentry) (ax : axis) (i : nat) : option pentry :=
    match c with
    | [] => None
    | e :: c' => if axis_eqb (pe_axis e) ax && Nat.eqb (pe_idx e) i then Some e else pc_find c' ax i
    end.

  (** [storeAxisInCache]: a map update — the newest entry shadows older ones *)
  Definition pc_store (c : list pentry) (e : pentry) : list pentry := e :: c.

  Record wstate := mkW { w_inner : inner; w_cache : list pentry }.

  (** [proofsCache.AxisHalf] *)
  Definition pc_axis_half (w : wstate) (ax : axis) (i : nat) : option (bool * list share) * wstate :=
    match pc_find (w_cache w) ax i with
    | Some e => (Some (pe_half e), w)
    | None =>
        match in_axis_half (w_inner w) ax i with
        | (Some h, x') => (Some h, mkW x' (pc_store (w_cache w) (mkPE ax i h None)))
        | (None, x') => (None, mkW x' (w_cache w))
        end
    end.

  (** [proofsCache.axisWithProofs]: the extended axis (and its tree) for a row, memoised *)
  Definition pc_axis_with_proofs (w : wstate) (ax : axis) (i : nat) : option (list share) * wstate :=
    match pc_find (w_cache w) ax i with
    | Some (mkPE _ _ h (Some shs)) => (Some shs, w)
    | Some (mkPE _ _ h None) =>
        let shs := extended h in (Some shs, mkW (w_inner w) (pc_store (w_cache w) (mkPE ax i h (Some shs))))
    | None =>
        match in_axis_half (w_inner w) ax i with
        | (Some h, x') => let shs := extended h in (Some shs, mkW x' (pc_store (w_cache w) (mkPE ax i h (Some shs))))
        | (None, x') => (None, mkW x' (w_cache w))
        end
    end.

  (** [proofsCache.axisShares] *)
  Definition pc_axis_shares (w : wstate) (ax : axis) (i : nat) : option (list share) * wstate :=
    match pc_find (w_cache w) ax i with
    | Some (mkPE _ _ h (Some shs)) => (Some shs, w)
    | Some (mkPE _ _ h None) =>
        let shs := extended h in (Some shs, mkW (w_inner w) (pc_store (w_cache w) (mkPE ax i h (Some shs))))
    | None =>
        match in_axis_half (w_inner w) ax i with
        | (Some h, x') => let shs := extended h in (Some shs, mkW x' (pc_store (w_cache w) (mkPE ax i h (Some shs))))
        | (None, x') => (None, mkW x' (w_cache w))
        end
    end.

  Definition pc_sample (w : wstate) (i j : nat) : res * wstate :=
    match pc_axis_with_proofs w Row i with
    | (Some shs, w') => (RShare (nth j shs tail_share), w')
    | (None, w') => (RErr, w')
    end.

  Definition pc_row_nd (w : wstate) (ns : N) (i : nat) : res * wstate :=
    match pc_axis_with_proofs w Row i with
    | (Some shs, w') => (row_nd_from_tree (in_k (w_inner w)) shs ns i, w')
    | (None, w') => (RErr, w')
    end.

  (** [proofsCache.Shares]: row halves one by one; the parity branch re-assigns the accumulator (as the code does) *)
  Fixpoint pc_shares_loop (w : wstate) (k : nat) (rows : list nat) (acc : list share) : option (list share) * wstate :=
    match rows with
    | [] => (Some acc, w)
    | i :: rows' =>
        match pc_axis_half w Row i with
        | (Some (false, l), w') => pc_shares_loop w' k rows' (acc ++ l)
        | (Some (true, _), w') =>
            match pc_axis_shares w' Row i with
            | (Some shs, w'') => pc_shares_loop w'' k rows' (shs ++ firstn k shs)
            | (None, w'') => (None, w'')
            end
        | (None, w') => (None, w')
        end
    end.

  Definition pc_shares (w : wstate) : option (list share) * wstate :=
    let k := in_k (w_inner w) in pc_shares_loop w k (seq 0 k) [].

  (** [proofsCache.getShare] as used by the ShareReader of [proofsCache.Reader] *)
  Definition pc_get_share (w : wstate) (k row col : nat) : option share * wstate :=
    match pc_axis_half w Row row with
    | (Some (p, l), w') =>
        if Bool.eqb (k <? col)%nat p
        then (Some (nth (if p then col - k else col) l tail_share), w')
        else match pc_axis_shares w' Row row with
             | (Some shs, w'') => (Some (nth col shs tail_share), w'')
             | (None, w'') => (None, w'')
             end
    | (None, w') => (None, w')
    end.

  Fixpoint pc_reader_loop (w : wstate) (k : nat) (idxs : list nat) : option (list share) * wstate :=
    match idxs with
    | [] => (Some [], w)
    | n :: idxs' =>
        match pc_get_share w k (Nat.div n k) (Nat.modulo n k) with
        | (Some s, w') => match pc_reader_loop w' k idxs' with
                          | (Some l, w'') => (Some (s :: l), w'')
                          | (None, w'') => (None, w'')
                          end
        | (None, w') => (None, w')
        end
    end.

  Definition pc_reader (w : wstate) : option (list share) * wstate :=
    let k := in_k (w_inner w) in pc_reader_loop w k (seq 0 (k * k)).

  (** * Bounds validation (share/eds/validation.go) in front of the proofs cache: the accessor the store hands out *)
  Definition in_range_z (i size : Z) : bool := (0 <=? i) && (i <? size).

  Definition ores (o : option (list share)) : res := match o with Some l => RShares l | None => RErr end.

  (** rows whose root range contains [ns] ([share.RowsWithNamespace]) *)
  Definition rows_with_ns (roots : list root) (size : nat) (ns : N) : list nat :=
    filter (fun i => negb (outside ns (rmin (nth i roots (mkR 0 0 0)), rmax (nth i roots (mkR 0 0 0))))) (seq 0 size).

  Definition v_row_nd (w : wstate) (ns : N) (i : Z) : res * wstate :=
    let size := in_size (w_inner w) in
    if negb (size =? 0) && in_range_z i size && ns_valid_for_data ns then pc_row_nd w ns (Z.to_nat i) else (RErr, w).

  Fixpoint nd_loop (w : wstate) (ns : N) (rows : list nat) : option (list (list share)) * wstate :=
    match rows with
    | [] => (Some [], w)
    | i :: rows' =>
        match v_row_nd w ns (Z.of_nat i) with
        | (RShares l, w') => match nd_loop w' ns rows' with
                             | (Some r, w'') => (Some (l :: r), w'')
                             | (None, w'') => (None, w'')
                             end
        | (_, w') => (None, w')
        end
    end.

  Definition step (w : wstate) (p : path) : res * wstate :=
    let size := in_size (w_inner w) in
    match p with
    | PSample i j =>
        if negb (size =? 0) && in_range_z i size && in_range_z j size then pc_sample w (Z.to_nat i) (Z.to_nat j) else (RErr, w)
    | PAxisHalf ax i =>
        if negb (size =? 0) && in_range_z i size
        then match pc_axis_half w ax (Z.to_nat i) with
             | (Some (p, l), w') => (RHalf p l, w')
             | (None, w') => (RErr, w')
             end
        else (RErr, w)
    | PRowNd ns i => v_row_nd w ns i
    | PNd ns =>
        match in_roots (w_inner w) with
        | Some roots =>
            match nd_loop w ns (rows_with_ns roots (Nat.div (length roots) 2) ns) with
            | (Some rows, w') => (RRows rows, w')
            | (None, w') => (RErr, w')
            end
        | None => (RErr, w)
        end
    | PRange f t =>
        let k := size / 2 in
        if (0 <=? f) && (f <? t) && (f <? k * k) && (t <=? k * k) then (in_range (w_inner w) (Z.to_nat f) (Z.to_nat t), w) else (RErr, w)
    | PShares => let '(o, w') := pc_shares w in (ores o, w')
    | PReader => let '(o, w') := pc_reader w in (ores o, w')
    | PRoots => (match in_roots (w_inner w) with Some r => RRoots r | None => RErr end, w)
    | PHash => (RHash (in_hash (w_inner w)), w)
    | PSize => (RSize size, w)
    end.

  (** results of a history of reads on one accessor *)
  Fixpoint run_reads (w : wstate) (ps : list path) : list res :=
    match ps with
    | [] => []
    | p :: ps' => let '(r, w') := step w p in r :: run_reads w' ps'
    end.

  (** the accessor's state after a history of reads *)
  Fixpoint run_state (w : wstate) (ps : list path) : wstate :=
    match ps with
    | [] => w
    | p :: ps' => run_state (snd (step w p)) ps'
    end.

  (** ** The same requests on the accessor *without* wrappers (in-bounds arguments only: nothing checks them) *)
  Definition plain_step (x : inner) (p : path) : res * inner :=
    match p with
    | PSample i j => in_sample x (Z.to_nat i) (Z.to_nat j)
    | PAxisHalf ax i =>
        match in_axis_half x ax (Z.to_nat i) with
        | (Some (p, l), x') => (RHalf p l, x')
        | (None, x') => (RErr, x')
        end
    | PRowNd ns i => in_row_nd x ns (Z.to_nat i)
    | PNd _ => (RErr, x)
    | PRange f t => (in_range x (Z.to_nat f) (Z.to_nat t), x)
    | PShares => let '(o, x') := in_shares x in (ores o, x')
    | PReader => (ores (in_reader x), x)
    | PRoots => (match in_roots x with Some r => RRoots r | None => RErr end, x)
    | PHash => (RHash (in_hash x), x)
    | PSize => (RSize (in_size x), x)
    end.

  Fixpoint run_plain (x : inner) (ps : list path) : list res :=
    match ps with
    | [] => []
    | p :: ps' => let '(r, x') := plain_step x p in r :: run_plain x' ps'
    end.

  (** * Representations of a stored block *)
  Inductive rep :=
  | RepMem          (* just put: the rsmt2d square sits in the recent cache *)
  | RepOds          (* reopened from an ODS file written without a Q4 file *)
  | RepOdsQ4        (* reopened, Q4 file present *)
  | RepQ4Removed.   (* reopened after the Q4 file was pruned *)

  Definition has_q4 (r : rep) : bool := match r with RepOdsQ4 => true | _ => false end.

  (** what [Store.GetByHeight] opens for a block stored as [r]; [None] if the file cannot be opened *)
  Definition open_inner (sq : square) (r : rep) : option inner :=
    match r with
    | RepMem => Some (IMem (mkMem (ext parity sq) (sq_roots sq) (sq_hash sq)))
    | _ =>
        let f := encode_ods sq in
        match open_ods f with
        | Some h => Some (IFile (mkF f h (if has_q4 r then Some (encode_q4 parity sq) else None) None))
        | None => None
        end
    end.

  Definition open_wrapped (sq : square) (r : rep) : option wstate :=
    option_map (fun x => mkW x []) (open_inner sq r).

  (** * Reference: what each request means on the block itself (no files, no accessors) *)
  Definition sub (l : list share) (a b : nat) : list share := firstn (b - a) (skipn a l).

  (** the shares [from, to) of the ODS, cut at row boundaries *)
  Definition range_rows (k : nat) (ods : list share) (f t : nat) : list (list share) :=
    let '(fr, fc) := coords k f in
    let '(tr, tc) := coords k (t - 1) in
    map (fun r => sub ods (Nat.max f (r * k)) (Nat.min t ((r + 1) * k))) (seq fr (tr - fr + 1)).

  Definition ref_row_nd (sq : square) (ns : N) (i : nat) : res :=
    if outside ns (row_range (sq_k sq) i (ext_row parity sq i)) then RErr
    else RShares (filter (fun s => N.eqb (sns s) ns) (if (i <? sq_k sq)%nat then ods_row sq i else [])).

  Definition reference (sq : square) (p : path) : res :=
    let k := sq_k sq in
    let size := 2 * Z.of_nat k in
    match p with
    | PSample i j =>
        if in_range_z i size && in_range_z j size then RShare (nth (Z.to_nat j) (ext_row parity sq (Z.to_nat i)) tail_share) else RErr
    | PAxisHalf ax i =>
        if in_range_z i size
        then RHalf false (firstn k (match ax with Row => ext_row parity sq (Z.to_nat i) | Col => col_of_ext (ext parity sq) (Z.to_nat i) end))
        else RErr
    | PRowNd ns i =>
        if in_range_z i size && ns_valid_for_data ns then ref_row_nd sq ns (Z.to_nat i) else RErr
    | PNd ns =>
        if ns_valid_for_data ns
        then RRows (map (fun i => filter (fun s => N.eqb (sns s) ns) (ods_row sq i))
                        (filter (fun i => negb (outside ns (row_range k i (ext_row parity sq i)))) (seq 0 k)))
        else RErr
    | PRange f t =>
        if (0 <=? f) && (f <? t) && (t <=? Z.of_nat (k * k))
        then let l := sub (sq_ods sq) (Z.to_nat f) (Z.to_nat t) in
             if forallb (fun s => N.eqb (sns s) (sns (hd tail_share l))) l
             then RRows (range_rows k (sq_ods sq) (Z.to_nat f) (Z.to_nat t)) else RErr
        else RErr
    | PShares => RShares (sq_ods sq)
    | PReader => RShares (sq_ods sq)
    | PRoots => RRoots (sq_roots sq)
    | PHash => RHash (sq_hash sq)
    | PSize => RSize size
    end.

  (** a served axis half is right when it is the half it claims to be; everything else must be the reference *)
  Definition half_of (sq : square) (ax : axis) (i : nat) (p : bool) : list share :=
    let full := match ax with Row => ext_row parity sq i | Col => col_of_ext (ext parity sq) i end in
    if p then skipn (sq_k sq) full else firstn (sq_k sq) full.

  Definition res_ok (sq : square) (p : path) (r : res) : Prop :=
    match p, r with
    | PAxisHalf ax i, RHalf par l => in_range_z i (2 * Z.of_nat (sq_k sq)) = true /\ l = half_of sq ax (Z.to_nat i) par
    | PAxisHalf ax i, _ => r = reference sq p
    | _, _ => r = reference sq p
    end.

  (** an answer that hands out no data *)
  Definition nothing_served (r : res) : Prop := r = RErr \/ r = RRows [].

  (** in-bounds arguments *)
  Definition in_bounds (sq : square) (p : path) : bool :=
    let k := sq_k sq in
    let size := 2 * Z.of_nat k in
    match p with
    | PSample i j => in_range_z i size && in_range_z j size
    | PAxisHalf _ i => in_range_z i size
    | PRowNd ns i => in_range_z i size && ns_valid_for_data ns
    | PNd ns => ns_valid_for_data ns
    | PRange f t => (0 <=? f) && (f <? t) && (t <=? Z.of_nat (k * k))
    | _ => true
    end.
End Accessors.

(** * Correspondence cases (harness/store/zz_verif_c05_test.go)

    A block as the harness saw it: the square plus the parity table of the real codec restricted to the axes of this
    block (rows and columns of Q1, rows of Q3), shares as dictionary ids. *)
Record blk := mkBlk { b_sq : square; b_tbl : list (list share * list share) }.

Definition tbl_parity (t : list (list share * list share)) (l : list share) : list share :=
  match find (fun e => shares_eqb (fst e) l) t with Some e => snd e | None => [] end.
Definition tbl_recover (t : list (list share * list share)) (l : list share) : list share :=
  match find (fun e => shares_eqb (snd e) l) t with Some e => fst e | None => [] end.

(** observed results: shares by id only *)
Inductive obs :=
| OErr
| OShare (id : N)
| OHalf (p : bool) (ids : list N)
| OShares (ids : list N)
| ORows (l : list (list N))
| ORoots (ids : list N)
| OHash (l : list Z)
| OSize (n : Z).

Definition ids (l : list share) : list N := map sid l.

Definition obs_of (r : res) : obs :=
  match r with
  | RErr => OErr
  | RShare s => OShare (sid s)
  | RHalf p l => OHalf p (ids l)
  | RShares l => OShares (ids l)
  | RRows l => ORows (map ids l)
  | RRoots l => ORoots (map rid l)
  | RHash l => OHash l
  | RSize n => OSize n
  end.

Fixpoint ns_eqb (a b : list N) : bool :=
  match a, b with
  | [], [] => true
  | x :: a', y :: b' => N.eqb x y && ns_eqb a' b'
  | _, _ => false
  end.
Fixpoint nss_eqb (a b : list (list N)) : bool :=
  match a, b with
  | [], [] => true
  | x :: a', y :: b' => ns_eqb x y && nss_eqb a' b'
  | _, _ => false
  end.
Fixpoint zs_eqb (a b : list Z) : bool :=
  match a, b with
  | [], [] => true
  | x :: a', y :: b' => Z.eqb x y && zs_eqb a' b'
  | _, _ => false
  end.

Definition obs_eqb (x y : obs) : bool :=
  match x, y with
  | OErr, OErr => true
  | OShare a, OShare b => N.eqb a b
  | OHalf p a, OHalf q b => Bool.eqb p q && ns_eqb a b
  | OShares a, OShares b => ns_eqb a b
  | ORows a, ORows b => nss_eqb a b
  | ORoots a, ORoots b => ns_eqb a b
  | OHash a, OHash b => zs_eqb a b
  | OSize a, OSize b => Z.eqb a b
  | _, _ => false
  end.

Fixpoint obss_eqb (a b : list obs) : bool :=
  match a, b with
  | [], [] => true
  | x :: a', y :: b' => obs_eqb x y && obss_eqb a' b'
  | _, _ => false
  end.

Definition atom_eqb (a b : atom) : bool :=
  match a, b with
  | AByte x, AByte y => Z.eqb x y
  | ARoot x, ARoot y => root_eqb x y
  | AShare x, AShare y => share_eqb x y
  | _, _ => false
  end.
Fixpoint atoms_eqb (a b : list atom) : bool :=
  match a, b with
  | [], [] => true
  | x :: a', y :: b' => atom_eqb x y && atoms_eqb a' b'
  | _, _ => false
  end.

Fixpoint all_shares_of (f : list atom) : list share :=
  match f with [] => [] | AShare x :: f' => x :: all_shares_of f' | _ :: f' => all_shares_of f' end.

Inductive layer := LStore | LPlain.

Inductive ccase :=
(** a history of reads on one accessor instance, with what the implementation returned *)
| CReads (b : nat) (r : rep) (l : layer) (reads : list (path * obs))
(** the files the real store wrote for the block: atoms of the .ods file (header bytes, roots, shares), its size in
    bytes, atoms of the .q4 file and its size *)
| CFiles (b : nat) (ods : list atom) (ods_size : Z) (q4 : list atom) (q4_size : Z)
(** the same in compact form: the .ods file cut into 65 header bytes, 4k 90-byte roots (dictionary ids) and 512-byte
    shares (dictionary ids) plus the number of bytes left over; the .q4 file cut into shares *)
| CFilesRaw (b : nat) (hdr : list N) (roots : list N) (shares : list N) (rest : N) (ods_size : Z)
            (q4 : list N) (q4_rest : N) (q4_size : Z).

Definition agree (blks : list blk) (c : ccase) : bool :=
  match c with
  | CReads bi r l reads =>
      match nth_error blks bi with
      | None => false
      | Some b =>
          let par := tbl_parity (b_tbl b) in
          let rec := tbl_recover (b_tbl b) in
          wf (b_sq b) &&
          match l with
          | LStore => match open_wrapped par (b_sq b) r with
                      | Some w => obss_eqb (map obs_of (run_reads par rec w (map fst reads))) (map snd reads)
                      | None => false
                      end
          | LPlain => match open_inner par (b_sq b) r with
                      | Some x => obss_eqb (map obs_of (run_plain par rec x (map fst reads))) (map snd reads)
                      | None => false
                      end
          end
      end
  | CFiles bi ods ods_size q4 q4_size =>
      match nth_error blks bi with
      | None => false
      | Some b =>
          let par := tbl_parity (b_tbl b) in
          wf (b_sq b) &&
          atoms_eqb (encode_ods (b_sq b)) ods && Z.eqb (fsize ods) ods_size && Z.eqb (expected_ods_size (b_sq b)) ods_size &&
          atoms_eqb (encode_q4 par (b_sq b)) q4 && Z.eqb (fsize q4) q4_size && Z.eqb (expected_q4_size (b_sq b)) q4_size &&
          match decode_ods ods with
          | Some sq' => shares_eqb (sq_ods sq') (sq_ods (b_sq b)) && Nat.eqb (sq_k sq') (sq_k (b_sq b))
          | None => false
          end
      end
  | CFilesRaw bi hdr roots shares rest ods_size q4 q4_rest q4_size =>
      match nth_error blks bi with
      | None => false
      | Some b =>
          let par := tbl_parity (b_tbl b) in
          let sq := b_sq b in
          let f := encode_ods sq in
          let fq := encode_q4 par sq in
          wf sq && N.eqb rest 0 && N.eqb q4_rest 0 &&
          (* the model's file is exactly: these header bytes, these roots, these shares *)
          atoms_eqb f (map (fun x => AByte (Z.of_N x)) hdr ++ map ARoot (firstn (length roots) (sq_roots sq)) ++
                       map AShare (firstn (length shares) (sq_ods sq))) &&
          ns_eqb (map rid (sq_roots sq)) roots && ns_eqb (ids (firstn (length shares) (sq_ods sq))) shares &&
          Z.eqb (fsize f) ods_size && Z.eqb (expected_ods_size sq) ods_size &&
          ns_eqb (ids (all_shares_of fq)) q4 && Nat.eqb (length fq) (length q4) &&
          Z.eqb (fsize fq) q4_size && Z.eqb (expected_q4_size sq) q4_size &&
          match decode_ods f with
          | Some sq' => shares_eqb (sq_ods sq') (sq_ods sq) && Nat.eqb (sq_k sq') (sq_k sq)
          | None => false
          end
      end
  end.

Fixpoint mism_from (blks : list blk) (n : N) (cs : list ccase) : list N :=
  match cs with
  | [] => []
  | c :: cs' => if agree blks c then mism_from blks (N.succ n) cs' else n :: mism_from blks (N.succ n) cs'
  end.
Definition mismatches (blks : list blk) (cs : list ccase) : list N := mism_from blks 0%N cs.

(** Blocks arrive in a compact form (big literals are slow to elaborate): the ids of all 2k x 2k shares row-major, the
    namespaces of the k x k original shares, roots as (id, min, max) triples.  Namespace code 0 stands for the
    tail-padding namespace, 1 for the parity namespace (the harness generates no data share with these values). *)
Record rawblk := mkRaw { rb_k : nat; rb_eds : list N; rb_ns : list N; rb_roots : list N; rb_hash : list N }.

Definition ns_of_code (c : N) : N := if N.eqb c 0 then tail_ns else if N.eqb c 1 then parity_ns else c.

Fixpoint nchunks (w : nat) (n : nat) (l : list N) : list (list N) :=
  match n with O => [] | S n' => firstn w l :: nchunks w n' (skipn w l) end.

Fixpoint triples (l : list N) : list root :=
  match l with a :: b :: c :: l' => mkR a (ns_of_code b) (ns_of_code c) :: triples l' | _ => [] end.

Definition blk_of_raw (r : rawblk) : blk :=
  let k := rb_k r in
  let rows := nchunks (2 * k) (2 * k) (rb_eds r) in
  let par := map (fun i => mkS i parity_ns) in
  let nsrows := nchunks k k (rb_ns r) in
  let q1 := map (fun i => map (fun c => mkS (fst c) (ns_of_code (snd c))) (combine (firstn k (nth i rows [])) (nth i nsrows []))) (seq 0 k) in
  let q1col j := map (fun row => nth j row tail_share) q1 in
  let q3row i := par (firstn k (nth (k + i) rows [])) in
  let tbl :=
    map (fun i => (nth i q1 [], par (skipn k (nth i rows [])))) (seq 0 k) ++
    map (fun j => (q1col j, par (map (fun i => nth j (nth (k + i) rows []) 0%N) (seq 0 k)))) (seq 0 k) ++
    map (fun i => (q3row i, par (skipn k (nth (k + i) rows [])))) (seq 0 k) in
  mkBlk (mkSq k (concat q1) (triples (rb_roots r)) (map Z.of_N (rb_hash r))) tbl.

Definition mismatches_raw (raws : list rawblk) (cs : list ccase) : list N :=
  let blks := map blk_of_raw raws in mism_from blks 0%N cs.

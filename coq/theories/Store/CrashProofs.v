(** C07 — proofs about the crash model (Crash.v). *)
From Coq Require Import List NArith Lia Bool Arith.
From CN Require Import Base.Lts Store.Crash.
Import ListNotations.
Open Scope N_scope.

(** * Lists: interleavings and prefixes *)
Lemma interleave_in {A} (a b l : list A) : interleave a b l -> forall x, In x l <-> In x a \/ In x b.
Proof.
  induction 1 as [|x a b l H IH|x a b l H IH]; intros y; cbn.
  - tauto.
  - rewrite IH. tauto.
  - rewrite IH. tauto.
Qed.

Lemma interleave_nil_l {A} (b l : list A) : interleave [] b l -> l = b.
Proof.
  remember [] as a eqn:Ea. induction 1 as [|x a b l H IH|x a b l H IH]; [reflexivity|discriminate|].
  rewrite IH by assumption. reflexivity.
Qed.

Lemma interleave_nil_r {A} (a l : list A) : interleave a [] l -> l = a.
Proof.
  remember [] as b eqn:Eb. induction 1 as [|x a b l H IH|x a b l H IH]; [reflexivity| |discriminate].
  rewrite IH by assumption. reflexivity.
Qed.

Lemma prefix_app {A} (pre a b : list A) :
  prefix pre (a ++ b) -> prefix pre a \/ exists pre', pre = a ++ pre' /\ prefix pre' b.
Proof.
  revert pre; induction a as [|x a IH]; intros pre H; cbn in H.
  - right. exists pre. split; [reflexivity|exact H].
  - inversion H as [|y p l Hp]; subst.
    + left. constructor.
    + destruct (IH p Hp) as [Hl | (pre' & -> & Hr)].
      * left. constructor. exact Hl.
      * right. exists pre'. split; [reflexivity|exact Hr].
Qed.

Lemma prefix_refl {A} (l : list A) : prefix l l.
Proof. induction l; constructor; assumption. Qed.

Lemma prefix_in {A} (pre l : list A) : prefix pre l -> forall x, In x pre -> In x l.
Proof. induction 1 as [|x a l H IH]; intros y Hy; [destruct Hy|]. destruct Hy as [->|Hy]; [left; reflexivity|right; apply IH; exact Hy]. Qed.

Lemma prefix_app_r {A} (a pre b : list A) : prefix pre b -> prefix (a ++ pre) (a ++ b).
Proof. intros H. induction a; cbn; [exact H|constructor; assumption]. Qed.

Lemma exec_app s a b : exec s (a ++ b) = exec (exec s a) b.
Proof. apply run_app. Qed.

Lemma exec_cons s e l : exec s (e :: l) = exec (apply s e) l.
Proof. reflexivity. Qed.

Lemma exec_single s e : exec s [e] = apply s e.
Proof. reflexivity. Qed.

(** * How single fields evolve *)
Lemma path_eqb_eq p q : path_eqb p q = true <-> p = q.
Proof. destruct p, q; cbn; split; intros; congruence. Qed.

(** effects that write a file: create, append, close *)
Definition benign (e : effect) : Prop := match e with Create _ | Append _ _ | Close _ => True | _ => False end.

Definition touches (p : path) (e : effect) : bool :=
  match e with Create q | Append q _ | Unlink q => path_eqb p q | _ => false end.

(** the content of the file named [p] under a list of effects *)
Definition file_step (p : path) (v : option N) (e : effect) : option N :=
  match e with
  | Create q => if path_eqb p q then match v with None => Some 0 | Some n => Some n end else v
  | Append q c => if path_eqb p q then option_map (fun n => n + c) v else v
  | Unlink q => if path_eqb p q then None else v
  | _ => v
  end.
Definition file_eval (p : path) (v : option N) (l : list effect) : option N := fold_left (file_step p) l v.

Lemma get_file_apply s e p : p <> PLink -> get_file (apply s e) p = file_step p (get_file s p) e.
Proof.
  intros Hp. destruct e as [q|q c|q|a b|a b|q]; cbn [file_step].
  - destruct q, p; try congruence; cbn; destruct s as [o qq l eo eq]; cbn; try reflexivity;
      repeat match goal with |- context [match ?x with _ => _ end] => destruct x end; reflexivity.
  - destruct q, p; try congruence; cbn; destruct s as [o qq l eo eq]; cbn; try reflexivity;
      repeat match goal with |- context [match ?x with _ => _ end] => destruct x end; reflexivity.
  - reflexivity.
  - destruct a, b; try reflexivity. cbn. destruct (link s), (ods s); destruct p; reflexivity.
  - destruct a, b; try reflexivity. cbn. destruct (link s); destruct p; reflexivity.
  - destruct q, p; try congruence; cbn; reflexivity.
Qed.

Lemma get_file_exec p : p <> PLink -> forall l s, get_file (exec s l) p = file_eval p (get_file s p) l.
Proof.
  intros Hp. induction l as [|e l IH]; intros s; [reflexivity|].
  rewrite exec_cons, IH, get_file_apply by exact Hp. reflexivity.
Qed.

Lemma file_eval_untouched p l : forall v, (forall e, In e l -> touches p e = false) -> file_eval p v l = v.
Proof.
  induction l as [|e l IH]; intros v H; [reflexivity|]. cbn [file_eval fold_left].
  assert (He : touches p e = false) by (apply H; left; reflexivity).
  replace (file_step p v e) with v.
  - apply IH. intros x Hx. apply H. right. exact Hx.
  - destruct e; cbn in He |- *; try rewrite He; reflexivity.
Qed.

Lemma file_eval_app p v a b : file_eval p v (a ++ b) = file_eval p (file_eval p v a) b.
Proof. apply fold_left_app. Qed.

Lemma file_eval_interleave p a b l :
  interleave a b l -> (forall e, In e b -> touches p e = false) -> forall v, file_eval p v l = file_eval p v a.
Proof.
  induction 1 as [|x a b l H IH|x a b l H IH]; intros Hb v.
  - reflexivity.
  - cbn [file_eval fold_left]. apply IH. exact Hb.
  - cbn [file_eval fold_left]. replace (file_step p v x) with v.
    + apply IH. intros e He. apply Hb. right. exact He.
    + assert (Hx : touches p x = false) by (apply Hb; left; reflexivity).
      destruct x; cbn in Hx |- *; try rewrite Hx; reflexivity.
Qed.

Lemma file_eval_appends p n cs : file_eval p (Some n) (map (Append p) cs) = Some (n + sumN cs).
Proof.
  revert n; induction cs as [|c cs IH]; intros n; cbn [map file_eval fold_left sumN].
  - f_equal. lia.
  - change (fold_left (file_step p) (map (Append p) cs) (file_step p (Some n) (Append p c)))
      with (file_eval p (file_step p (Some n) (Append p c)) (map (Append p) cs)).
    cbn [file_step]. replace (path_eqb p p) with true by (symmetry; apply path_eqb_eq; reflexivity).
    cbn [option_map]. rewrite IH. f_equal. lia.
Qed.

Lemma file_eval_stream p cs : file_eval p None (stream p cs) = Some (sumN cs).
Proof.
  unfold stream. cbn [file_eval fold_left file_step].
  replace (path_eqb p p) with true by (symmetry; apply path_eqb_eq; reflexivity).
  change (fold_left (file_step p) (map (Append p) cs ++ [Close p]) (Some 0))
    with (file_eval p (Some 0) (map (Append p) cs ++ [Close p])).
  rewrite file_eval_app, file_eval_appends. reflexivity.
Qed.

Lemma stream_benign p cs : Forall benign (stream p cs).
Proof.
  unfold stream. constructor; [exact I|]. apply Forall_app. split.
  - apply Forall_forall. intros e He. apply in_map_iff in He as (c & <- & _). exact I.
  - constructor; [exact I|constructor].
Qed.

Lemma stream_touches p q cs : p <> q -> forall e, In e (stream q cs) -> touches p e = false.
Proof.
  intros Hpq e He. assert (Hb : path_eqb p q = false).
  { destruct (path_eqb p q) eqn:E; [apply path_eqb_eq in E; congruence|reflexivity]. }
  unfold stream in He. destruct He as [<- | He]; [exact Hb|].
  apply in_app_iff in He as [He | [<- | []]]; [|reflexivity].
  apply in_map_iff in He as (c & <- & _). exact Hb.
Qed.

(** the height link under benign effects *)
Lemma link_apply_benign s e : benign e -> link (apply s e) = link s.
Proof.
  destruct e as [q|q c|q|a b|a b|q]; cbn [benign]; intros H; try contradiction.
  - destruct q; cbn; try reflexivity; destruct s as [o qq l eo eq]; cbn;
      repeat match goal with |- context [match ?x with _ => _ end] => destruct x end; reflexivity.
  - destruct q; cbn; destruct s as [o qq l eo eq]; cbn;
      repeat match goal with |- context [match ?x with _ => _ end] => destruct x end; reflexivity.
  - reflexivity.
Qed.

Lemma link_exec_benign l : forall s, Forall benign l -> link (exec s l) = link s.
Proof.
  induction l as [|e l IH]; intros s H; [reflexivity|]. apply Forall_cons_iff in H as [He Hl].
  rewrite exec_cons, IH, link_apply_benign by assumption. reflexivity.
Qed.

Section Safe.
  Variable to tq : N.
  Hypothesis to_hdr : 65 <= to.

  Local Notation lookup := (lookup to tq true 0 0).
  Local Notation put_trace := (put_trace to tq).
  Local Notation put_final := (put_final to tq).

  (** * The invariant: a height link only ever names a complete ODS file *)
  Definition Inv (s : fs) : Prop :=
    match link s with
    | LNone => True
    | LShared => ods s = Some to
    | LOwn n => n = to
    | LSym => False
    end.

  Lemma inv_unlink s p : Inv s -> Inv (apply s (Unlink p)).
  Proof.
    unfold Inv. destruct s as [o qq l eo eq]. destruct p; cbn; try (intros H; exact H); try exact (fun _ => I).
    destruct l; cbn; try (intros H; exact H). intros ->. reflexivity.
  Qed.

  Lemma inv_benign s e : Inv s -> benign e -> (touches POds e = true -> link s <> LShared) -> Inv (apply s e).
  Proof.
    intros Hi Hb Ht. unfold Inv. rewrite link_apply_benign by exact Hb.
    unfold Inv in Hi. destruct (link s) eqn:El; try exact Hi.
    (* shared: the ODS file must not change *)
    assert (Hnt : touches POds e = false).
    { destruct (touches POds e) eqn:E; [exfalso; apply Ht; reflexivity|reflexivity]. }
    change (ods (apply s e)) with (get_file (apply s e) POds). rewrite get_file_apply by discriminate.
    change (get_file s POds) with (ods s). rewrite Hi.
    destruct e; cbn in Hb, Hnt |- *; try contradiction; try rewrite Hnt; reflexivity.
  Qed.

  (** every prefix of a list of file writes keeps the invariant, provided the ODS file is only written while the link
      does not share its inode *)
  Lemma inv_benign_prefix l : forall s pre,
    Inv s -> Forall benign l -> ((exists e, In e l /\ touches POds e = true) -> link s <> LShared) ->
    prefix pre l -> Inv (exec s pre).
  Proof.
    induction l as [|e l IH]; intros s pre Hi Hb Ht Hp.
    - inversion Hp; subst. exact Hi.
    - inversion Hp as [|x p l' Hp']; subst; [exact Hi|].
      apply Forall_cons_iff in Hb as [He Hl]. rewrite exec_cons. apply (IH (apply s e)).
      + apply inv_benign; [exact Hi|exact He|]. intros Hte. apply Ht. exists e. split; [left; reflexivity|exact Hte].
      + exact Hl.
      + rewrite link_apply_benign by exact He. intros (x & Hx & Htx). apply Ht. exists x. split; [right; exact Hx|exact Htx].
      + exact Hp'.
  Qed.

  Lemma inv_unlinks_prefix l : forall s pre,
    Inv s -> (forall e, In e l -> exists p, e = Unlink p) -> prefix pre l -> Inv (exec s pre).
  Proof.
    induction l as [|e l IH]; intros s pre Hi Hu Hp.
    - inversion Hp; subst. exact Hi.
    - inversion Hp as [|x p l' Hp']; subst; [exact Hi|].
      destruct (Hu e (or_introl eq_refl)) as (q & ->). rewrite exec_cons. apply IH.
      + apply inv_unlink. exact Hi.
      + intros x Hx. apply Hu. right. exact Hx.
      + exact Hp'.
  Qed.

  (** * Lookups in consistent states: absent or the full block *)
  Lemma lookup_inv s : Inv s -> lookup s = Absent \/ lookup s = Full.
  Proof.
    unfold Inv, Crash.lookup, link_content, q4_used. destruct (link s) eqn:El; intros Hi.
    - left. reflexivity.
    - right. rewrite Hi. replace (to <? hdr) with false by (symmetry; apply N.ltb_ge; unfold hdr; lia).
      rewrite N.eqb_refl. cbn [andb]. destruct (size_is (q4 s) tq); reflexivity.
    - right. subst n. replace (to <? hdr) with false by (symmetry; apply N.ltb_ge; unfold hdr; lia).
      rewrite N.eqb_refl. cbn [andb]. destruct (size_is (q4 s) tq); reflexivity.
    - contradiction.
  Qed.

  Lemma lookup_full s : Inv s -> link s <> LNone -> lookup s = Full /\ has s = true.
  Proof.
    intros Hi Hl. destruct (lookup_inv s Hi) as [Ha | Hf].
    - exfalso. unfold Crash.lookup, link_content in Ha. unfold Inv in Hi. destruct (link s) eqn:El; try congruence.
      + rewrite Hi in Ha. destruct (to <? hdr); [discriminate|]. destruct (_ && _); discriminate.
      + destruct (n <? hdr); [discriminate|]. destruct (_ && _); discriminate.
    - split; [exact Hf|]. unfold has, link_content. unfold Inv in Hi. destruct (link s) eqn:El; try congruence; try contradiction.
      + rewrite Hi. reflexivity.
      + reflexivity.
  Qed.

  (** * The put program *)

  (** phase A: the writers; afterwards both files exist, a freshly written one is complete *)
  Lemma phaseA_files s co cq la :
    sumN co = to -> sumN cq = tq ->
    interleave (if is_some (ods s) then [] else stream POds co) (if is_some (q4 s) then [] else stream PQ4 cq) la ->
    ods (exec s la) = (match ods s with Some n => Some n | None => Some to end) /\
    q4 (exec s la) = (match q4 s with Some n => Some n | None => Some tq end) /\
    link (exec s la) = link s /\ Forall benign la /\
    ((exists e, In e la /\ touches POds e = true) -> ods s = None).
  Proof.
    intros Ho Hq Hil.
    assert (Hben : Forall benign la).
    { apply Forall_forall. intros e He. apply (interleave_in _ _ _ Hil) in He as [He | He].
      - destruct (is_some (ods s)); [destruct He|]. exact (proj1 (Forall_forall _ _) (stream_benign POds co) e He).
      - destruct (is_some (q4 s)); [destruct He|]. exact (proj1 (Forall_forall _ _) (stream_benign PQ4 cq) e He). }
    split; [|split; [|split; [|split]]].
    - change (ods (exec s la)) with (get_file (exec s la) POds). rewrite get_file_exec by discriminate.
      rewrite (file_eval_interleave POds _ _ _ Hil).
      + change (get_file s POds) with (ods s). destruct (ods s) as [n|]; cbn [is_some]; [reflexivity|].
        rewrite file_eval_stream, Ho. reflexivity.
      + intros e He. destruct (is_some (q4 s)); [destruct He|]. apply (stream_touches POds PQ4 cq); [discriminate|exact He].
    - change (q4 (exec s la)) with (get_file (exec s la) PQ4). rewrite get_file_exec by discriminate.
      assert (Hil' : interleave (if is_some (q4 s) then [] else stream PQ4 cq) (if is_some (ods s) then [] else stream POds co) la).
      { clear -Hil. induction Hil; constructor; assumption. }
      rewrite (file_eval_interleave PQ4 _ _ _ Hil').
      + change (get_file s PQ4) with (q4 s). destruct (q4 s) as [n|]; cbn [is_some]; [reflexivity|].
        rewrite file_eval_stream, Hq. reflexivity.
      + intros e He. destruct (is_some (ods s)); [destruct He|]. apply (stream_touches PQ4 POds co); [discriminate|exact He].
    - apply link_exec_benign. exact Hben.
    - exact Hben.
    - intros (e & He & Ht). apply (interleave_in _ _ _ Hil) in He as [He | He].
      + destruct (ods s); [destruct He|reflexivity].
      + destruct (is_some (q4 s)); [destruct He|]. rewrite (stream_touches POds PQ4 cq) in Ht by (try discriminate; exact He). discriminate.
  Qed.

  (** phase B when both files are rewritten *)
  Lemma phaseC_files s co cq lc :
    sumN co = to -> sumN cq = tq -> interleave (stream POds co) (stream PQ4 cq) lc ->
    ods s = None -> q4 s = None ->
    ods (exec s lc) = Some to /\ q4 (exec s lc) = Some tq /\ link (exec s lc) = link s /\ Forall benign lc.
  Proof.
    intros Ho Hq Hil Hon Hqn.
    destruct (phaseA_files s co cq lc Ho Hq) as (H1 & H2 & H3 & H4 & _).
    { rewrite Hon, Hqn. exact Hil. }
    rewrite Hon in H1. rewrite Hqn in H2. repeat split; assumption.
  Qed.

  Lemma recover_q4_state s :
    let s' := exec s (recover_effects MQ4) in ods s' = None /\ q4 s' = None /\ link s' = LNone.
  Proof. destruct s as [o qq l eo eq]. cbn. repeat split. Qed.

  Lemma recover_ods_state s :
    let s' := exec s (recover_effects MOds) in ods s' = None /\ q4 s' = q4 s /\ link s' = LNone.
  Proof. destruct s as [o qq l eo eq]. cbn. repeat split. Qed.

  Lemma inv_link_ods s : Inv s -> ods s = None -> link s <> LShared.
  Proof. unfold Inv. intros Hi Ho El. rewrite El in Hi. congruence. Qed.

  Lemma size_is_eq o n : size_is o n = true -> o = Some n.
  Proof. destruct o as [m|]; cbn; [|discriminate]. intros H. apply N.eqb_eq in H. congruence. Qed.

  (** the state before the final link: consistent, and the ODS file is complete; all earlier crash points consistent *)
  Lemma put_body_safe m s body :
    Inv s ->
    (exists tr, put_trace m s tr /\ tr = body ++ [Link POds PLink]) ->
    (forall pre, prefix pre body -> Inv (exec s pre)) /\ ods (exec s body) = Some to.
  Proof.
    intros Hi (tr & Ht & Etr). destruct Ht as [s co cq co' cq' la lc Ho Hq Ho' Hq' Hla Hlc | s co co' Ho Ho'].
    - (* PutODSQ4 *)
      rewrite app_assoc in Etr. apply app_inj_tail in Etr as [Eb _]. subst body.
      destruct (phaseA_files s co cq la Ho Hq Hla) as (Ho1 & Hq1 & Hl1 & Hben & Htouch).
      assert (HA : forall pre, prefix pre la -> Inv (exec s pre)).
      { intros pre Hp. apply (inv_benign_prefix la); try assumption.
        intros Hex. apply inv_link_ods; [exact Hi|]. apply Htouch. exact Hex. }
      pose proof (HA la (prefix_refl la)) as Hi1.
      destruct (existed MQ4 s && negb (sizes_ok to tq MQ4 (exec s la))) eqn:Erec.
      + (* sizes do not validate: remove everything, write both again *)
        destruct (recover_q4_state (exec s la)) as (Ho2 & Hq2 & Hl2).
        assert (HB : forall pre, prefix pre (recover_effects MQ4) -> Inv (exec (exec s la) pre)).
        { intros pre Hp. apply (inv_unlinks_prefix (recover_effects MQ4)); [exact Hi1| |exact Hp].
          intros e He. cbn in He. destruct He as [<-|[<-|[<-|[]]]]; eexists; reflexivity. }
        pose proof (HB _ (prefix_refl _)) as Hi2.
        destruct (phaseC_files _ co' cq' lc Ho' Hq' Hlc Ho2 Hq2) as (Ho3 & Hq3 & Hl3 & Hbenc).
        split.
        * intros pre Hp. apply prefix_app in Hp as [Hp | (pre1 & -> & Hp)]; [apply HA; exact Hp|].
          rewrite exec_app. apply prefix_app in Hp as [Hp | (pre2 & -> & Hp)]; [apply HB; exact Hp|].
          rewrite exec_app. apply (inv_benign_prefix lc); try assumption.
          intros _. rewrite Hl2. discriminate.
        * rewrite !exec_app. exact Ho3.
      + (* no file existed, or the sizes validate *)
        rewrite app_nil_r. split; [exact HA|].
        rewrite Ho1. destruct (ods s) as [n|] eqn:Eo; [|reflexivity].
        (* the ODS file existed: its size was validated *)
        unfold existed in Erec. rewrite Eo in Erec. cbn [is_some orb andb] in Erec. apply negb_false_iff in Erec.
        unfold sizes_ok in Erec. apply andb_true_iff in Erec as [E1 _]. apply size_is_eq in E1.
        rewrite Ho1 in E1. exact E1.
    - (* PutODS *)
      rewrite app_assoc in Etr. apply app_inj_tail in Etr as [Eb _]. subst body.
      unfold existed, sizes_ok. destruct (ods s) as [n|] eqn:Eo; cbn [is_some].
      + (* the ODS file exists *)
        cbn [app andb]. destruct (negb (size_is (Some n) to)) eqn:Erec.
        * destruct (recover_ods_state s) as (Ho2 & Hq2 & Hl2).
          assert (HB : forall pre, prefix pre (recover_effects MOds) -> Inv (exec s pre)).
          { intros pre Hp. apply (inv_unlinks_prefix (recover_effects MOds)); [exact Hi| |exact Hp].
            intros e He. cbn in He. destruct He as [<-|[<-|[]]]; eexists; reflexivity. }
          pose proof (HB _ (prefix_refl _)) as Hi2.
          split.
          -- intros pre Hp. apply prefix_app in Hp as [Hp | (pre2 & -> & Hp)]; [apply HB; exact Hp|].
             rewrite exec_app. apply (inv_benign_prefix (stream POds co')); try assumption.
             ++ apply stream_benign.
             ++ intros _. rewrite Hl2. discriminate.
          -- rewrite exec_app. change (ods (exec (exec s (recover_effects MOds)) (stream POds co')))
               with (get_file (exec (exec s (recover_effects MOds)) (stream POds co')) POds).
             rewrite get_file_exec by discriminate. change (get_file (exec s (recover_effects MOds)) POds) with (ods (exec s (recover_effects MOds))).
             rewrite Ho2, file_eval_stream, Ho'. reflexivity.
        * split; [intros pre Hp; inversion Hp; subst; exact Hi|].
          apply negb_false_iff in Erec. apply size_is_eq in Erec. cbn [exec run fold_left]. rewrite Eo. exact Erec.
      + (* fresh ODS file *)
        cbn [andb app]. rewrite app_nil_r. split.
        * intros pre Hp. apply (inv_benign_prefix (stream POds co)); try assumption; [apply stream_benign|].
          intros _. apply inv_link_ods; assumption.
        * change (ods (exec s (stream POds co))) with (get_file (exec s (stream POds co)) POds).
          rewrite get_file_exec by discriminate. change (get_file s POds) with (ods s).
          rewrite Eo, file_eval_stream, Ho. reflexivity.
  Qed.

  Lemma put_trace_shape m s tr : put_trace m s tr -> exists body, tr = body ++ [Link POds PLink].
  Proof.
    destruct 1.
    - eexists. rewrite app_assoc. reflexivity.
    - eexists. rewrite app_assoc. reflexivity.
  Qed.

  Lemma inv_link_final s : Inv s -> ods s = Some to -> Inv (apply s (Link POds PLink)) /\ link (apply s (Link POds PLink)) <> LNone.
  Proof.
    intros Hi Ho. unfold Inv in *. destruct s as [o qq l eo eq]. cbn in *. subst o.
    destruct l; cbn; split; try assumption; try reflexivity; try discriminate.
  Qed.

  (** ** every crash point of a put leaves a consistent state *)
  Theorem put_prefix_safe m s tr pre : Inv s -> put_trace m s tr -> prefix pre tr -> Inv (exec s pre).
  Proof.
    intros Hi Ht Hp. destruct (put_trace_shape m s tr Ht) as (body & ->).
    destruct (put_body_safe m s body Hi (ex_intro _ _ (conj Ht eq_refl))) as (Hsafe & Hods).
    apply prefix_app in Hp as [Hp | (pre' & -> & Hp)]; [apply Hsafe; exact Hp|].
    inversion Hp as [|x p l Hp']; subst.
    - rewrite app_nil_r. apply Hsafe. apply prefix_refl.
    - inversion Hp'; subst. rewrite exec_app. cbn [exec run fold_left].
      apply inv_link_final; [apply Hsafe; apply prefix_refl|exact Hods].
  Qed.

  (** ** a completed put leaves the block linked and fully readable *)
  Theorem put_complete m s tr :
    Inv s -> put_trace m s tr -> Inv (exec s tr) /\ lookup (exec s tr) = Full /\ has (exec s tr) = true.
  Proof.
    intros Hi Ht. destruct (put_trace_shape m s tr Ht) as (body & ->).
    destruct (put_body_safe m s body Hi (ex_intro _ _ (conj Ht eq_refl))) as (Hsafe & Hods).
    rewrite exec_app. cbn [exec run fold_left].
    destruct (inv_link_final _ (Hsafe body (prefix_refl body)) Hods) as (Hi' & Hl').
    split; [exact Hi'|]. apply lookup_full; assumption.
  Qed.

  (** ** removal *)
  Theorem remove_prefix_safe s pre : Inv s -> prefix pre remove_effects -> Inv (exec s pre).
  Proof.
    intros Hi Hp. apply (inv_unlinks_prefix remove_effects); [exact Hi| |exact Hp].
    intros e He. cbn in He. destruct He as [<-|[<-|[<-|[]]]]; eexists; reflexivity.
  Qed.

  Theorem remove_complete s : lookup (exec s remove_effects) = Absent /\ has (exec s remove_effects) = false.
  Proof. destruct s as [o qq l eo eq]. cbn. unfold Crash.lookup, has, link_content. cbn. destruct l, o; split; reflexivity. Qed.

  (** * The property *)
  Theorem crash_safe s m tr pre :
    Inv s -> (put_trace m s tr \/ tr = remove_effects) -> prefix pre tr ->
    let s' := exec s pre in
    (* after restart: the block is absent or complete and correct; a partial file is never linked *)
    Inv s' /\ (lookup s' = Absent \/ lookup s' = Full) /\
    (* storing the same block again (either way), from the crash state, succeeds and leaves it fully readable *)
    (forall m' tr', put_trace m' s' tr' ->
       let s'' := exec s' tr' in
       Inv s'' /\ lookup s'' = Full /\ has s'' = true /\
       (* ... and removing it then leaves nothing behind at that height *)
       lookup (exec s'' remove_effects) = Absent /\ has (exec s'' remove_effects) = false).
  Proof.
    intros Hi Htr Hp s'.
    assert (Hi' : Inv s').
    { destruct Htr as [Ht | ->]; [exact (put_prefix_safe m s tr pre Hi Ht Hp)|exact (remove_prefix_safe s pre Hi Hp)]. }
    split; [exact Hi'|]. split; [apply lookup_inv; exact Hi'|].
    intros m' tr' Ht' s''. destruct (put_complete m' s' tr' Hi' Ht') as (H1 & H2 & H3).
    destruct (remove_complete s'') as (H4 & H5). repeat split; assumption.
  Qed.

  (** consistent states are reachable and closed: the empty directory is one, and so is every crash state *)
  Lemma inv_init : Inv (mkFs None None LNone None None).
  Proof. exact I. Qed.
End Safe.

(** * The state a completed put leaves does not depend on interleaving or buffering *)
Lemma fs_eq a b : ods a = ods b -> q4 a = q4 b -> link a = link b -> eods a = eods b -> eq4 a = eq4 b -> a = b.
Proof. destruct a, b; cbn; intros; subst; reflexivity. Qed.

Definition block_only (e : effect) : Prop := touches PEOds e = false /\ touches PEQ4 e = false.

Lemma empty_files_untouched l s : Forall block_only l -> eods (exec s l) = eods s /\ eq4 (exec s l) = eq4 s.
Proof.
  intros H. split.
  - change (eods (exec s l)) with (get_file (exec s l) PEOds). rewrite get_file_exec by discriminate.
    apply file_eval_untouched. intros e He. exact (proj1 (proj1 (Forall_forall _ _) H e He)).
  - change (eq4 (exec s l)) with (get_file (exec s l) PEQ4). rewrite get_file_exec by discriminate.
    apply file_eval_untouched. intros e He. exact (proj2 (proj1 (Forall_forall _ _) H e He)).
Qed.

Lemma stream_block_only p cs : p = POds \/ p = PQ4 -> Forall block_only (stream p cs).
Proof.
  intros Hp. apply Forall_forall. intros e He. split.
  - apply (stream_touches PEOds p cs); [destruct Hp; subst; discriminate|exact He].
  - apply (stream_touches PEQ4 p cs); [destruct Hp; subst; discriminate|exact He].
Qed.

Lemma interleave_forall {A} (P : A -> Prop) a b l : interleave a b l -> Forall P a -> Forall P b -> Forall P l.
Proof.
  intros Hil Ha Hb. apply Forall_forall. intros x Hx. apply (interleave_in _ _ _ Hil) in Hx as [Hx|Hx].
  - exact (proj1 (Forall_forall _ _) Ha x Hx).
  - exact (proj1 (Forall_forall _ _) Hb x Hx).
Qed.

Section Final.
  Variable to tq : N.
  Local Notation put_trace := (put_trace to tq).
  Local Notation put_final := (put_final to tq).

  Theorem put_final_ok m s tr : put_trace m s tr -> exec s tr = put_final m s.
  Proof.
    destruct 1 as [s co cq co' cq' la lc Ho Hq Ho' Hq' Hla Hlc | s co co' Ho Ho'].
    - destruct (phaseA_files to tq s co cq la Ho Hq Hla) as (Ho1 & Hq1 & Hl1 & Hben & _).
      assert (Hbo : Forall block_only la).
      { apply (interleave_forall _ _ _ _ Hla).
        - destruct (is_some (ods s)); [constructor|apply stream_block_only; left; reflexivity].
        - destruct (is_some (q4 s)); [constructor|apply stream_block_only; right; reflexivity]. }
      destruct (empty_files_untouched la s Hbo) as (He1 & Hf1).
      unfold put_final.
      assert (Hs1 : exec s la = mkFs (match ods s with Some n => Some n | None => Some to end)
                                      (match q4 s with Some n => Some n | None => Some tq end) (link s) (eods s) (eq4 s))
        by (apply fs_eq; cbn; assumption).
      rewrite !exec_app, exec_single. rewrite Hs1.
      destruct (existed MQ4 s && negb (sizes_ok to tq MQ4 _)) eqn:Erec.
      + rewrite exec_app.
        set (s1 := mkFs _ _ (link s) (eods s) (eq4 s)).
        destruct (recover_q4_state s1) as (Ho2 & Hq2 & Hl2).
        destruct (phaseC_files to tq _ co' cq' lc Ho' Hq' Hlc Ho2 Hq2) as (Ho3 & Hq3 & Hl3 & Hbenc).
        assert (Hboc : Forall block_only lc)
          by (apply (interleave_forall _ _ _ _ Hlc); apply stream_block_only; [left|right]; reflexivity).
        destruct (empty_files_untouched lc (exec s1 (recover_effects MQ4)) Hboc) as (He3 & Hf3).
        f_equal. apply fs_eq; cbn [ods q4 link eods eq4]; try assumption; try (rewrite Hl3; exact Hl2).
      + reflexivity.
    - unfold put_final, existed, sizes_ok. destruct (ods s) as [n|] eqn:Eo; cbn [is_some].
      + cbn [app andb ods]. destruct (negb (size_is (Some n) to)) eqn:Erec.
        * rewrite !exec_app, exec_single. destruct (recover_ods_state s) as (Ho2 & Hq2 & Hl2).
          f_equal.
          assert (Hb : Forall benign (stream POds co')) by apply stream_benign.
          destruct (empty_files_untouched (stream POds co') (exec s (recover_effects MOds)) (stream_block_only POds co' (or_introl eq_refl))) as (He3 & Hf3).
          apply fs_eq; cbn [ods q4 link eods eq4].
          -- change (ods (exec (exec s (recover_effects MOds)) (stream POds co')))
               with (get_file (exec (exec s (recover_effects MOds)) (stream POds co')) POds).
             rewrite get_file_exec by discriminate.
             change (get_file (exec s (recover_effects MOds)) POds) with (ods (exec s (recover_effects MOds))).
             rewrite Ho2, file_eval_stream, Ho'. reflexivity.
          -- change (q4 (exec (exec s (recover_effects MOds)) (stream POds co')))
               with (get_file (exec (exec s (recover_effects MOds)) (stream POds co')) PQ4).
             rewrite get_file_exec by discriminate. rewrite file_eval_untouched.
             ++ exact Hq2.
             ++ intros e He. apply (stream_touches PQ4 POds co'); [discriminate|exact He].
          -- rewrite link_exec_benign by exact Hb. exact Hl2.
          -- rewrite He3. destruct s; reflexivity.
          -- rewrite Hf3. destruct s; reflexivity.
        * cbn [app exec run fold_left]. f_equal. destruct s as [o qq l eo eq]. cbn in Eo. subst o. reflexivity.
      + cbn [andb app]. rewrite exec_app, exec_single. f_equal.
        assert (Hb : Forall benign (stream POds co)) by apply stream_benign.
        destruct (empty_files_untouched (stream POds co) s (stream_block_only POds co (or_introl eq_refl))) as (He3 & Hf3).
        apply fs_eq; cbn [ods q4 link eods eq4]; try assumption.
        * change (ods (exec s (stream POds co))) with (get_file (exec s (stream POds co)) POds).
          rewrite get_file_exec by discriminate. change (get_file s POds) with (ods s).
          rewrite Eo, file_eval_stream, Ho. reflexivity.
        * change (q4 (exec s (stream POds co))) with (get_file (exec s (stream POds co)) PQ4).
          rewrite get_file_exec by discriminate. apply file_eval_untouched.
          intros e He. apply (stream_touches PQ4 POds co); [discriminate|exact He].
        * apply link_exec_benign. exact Hb.
  Qed.
End Final.

(** * The empty block *)
Section EmptyBlock.
  Variable to tq eo eq : N.
  Hypothesis eo_hdr : 65 <= eo.
  Local Notation lookup := (lookup to tq true eo eq).

  Definition InvE (s : fs) : Prop := link s = LNone \/ link s = LSym.

  Lemma restart_files s rt :
    restart_trace eo eq rt -> eods (exec s rt) = Some eo /\ eq4 (exec s rt) = Some eq /\ link (exec s rt) = link s.
  Proof.
    destruct 1 as [co cq l Ho Hq Hil]. rewrite exec_app.
    set (s0 := exec s [Unlink PEOds; Unlink PEQ4]).
    assert (H0 : eods s0 = None /\ eq4 s0 = None /\ link s0 = link s) by (destruct s; cbn; repeat split).
    destruct H0 as (He0 & Hf0 & Hl0).
    assert (Hben : Forall benign l) by (apply (interleave_forall _ _ _ _ Hil); apply stream_benign).
    repeat split.
    - change (eods (exec s0 l)) with (get_file (exec s0 l) PEOds). rewrite get_file_exec by discriminate.
      rewrite (file_eval_interleave PEOds _ _ _ Hil).
      + change (get_file s0 PEOds) with (eods s0). rewrite He0, file_eval_stream, Ho. reflexivity.
      + intros e He. apply (stream_touches PEOds PEQ4 cq); [discriminate|exact He].
    - change (eq4 (exec s0 l)) with (get_file (exec s0 l) PEQ4). rewrite get_file_exec by discriminate.
      assert (Hil' : interleave (stream PEQ4 cq) (stream PEOds co) l) by (clear -Hil; induction Hil; constructor; assumption).
      rewrite (file_eval_interleave PEQ4 _ _ _ Hil').
      + change (get_file s0 PEQ4) with (eq4 s0). rewrite Hf0, file_eval_stream, Hq. reflexivity.
      + intros e He. apply (stream_touches PEQ4 PEOds co); [discriminate|exact He].
    - rewrite link_exec_benign by exact Hben. exact Hl0.
  Qed.

  Lemma lookup_empty s : InvE s -> eods s = Some eo -> eq4 s = Some eq ->
    (link s = LNone -> lookup s = Absent /\ has s = false) /\ (link s = LSym -> lookup s = Full /\ has s = true).
  Proof.
    intros Hi He Hf. unfold Crash.lookup, has, link_content, q4_used. split; intros El; rewrite El.
    - split; reflexivity.
    - rewrite He, Hf. replace (eo <? hdr) with false by (symmetry; apply N.ltb_ge; unfold hdr; lia).
      cbn. rewrite !N.eqb_refl. split; reflexivity.
  Qed.

  Lemma put_empty_state s : InvE s ->
    link (exec s put_empty_effects) = LSym /\ eods (exec s put_empty_effects) = eods s /\ eq4 (exec s put_empty_effects) = eq4 s.
  Proof. destruct s as [o qq l eo' eq']. unfold InvE. cbn. intros [-> | ->]; repeat split. Qed.

  (** a crash while the empty block is linked to / unlinked from a height: after the restart (which rewrites the
      empty-block files) the height is absent or the empty block; linking again gives the block; removing gives absent *)
  Theorem crash_safe_empty s tr pre rt rt' :
    InvE s -> (tr = put_empty_effects \/ tr = remove_empty_effects) -> prefix pre tr ->
    restart_trace eo eq rt -> restart_trace eo eq rt' ->
    let s' := exec (exec s pre) rt in
    InvE s' /\ (lookup s' = Absent \/ lookup s' = Full) /\
    (let s'' := exec s' put_empty_effects in
     lookup s'' = Full /\ has s'' = true /\
     (let s3 := exec (exec s'' remove_empty_effects) rt' in lookup s3 = Absent /\ has s3 = false)).
  Proof.
    intros Hi Htr Hp Hrt Hrt' s'.
    assert (Hpre : InvE (exec s pre)).
    { destruct Htr as [-> | ->]; inversion Hp as [|x p l Hp']; subst; try exact Hi; inversion Hp'; subst.
      - right. exact (proj1 (put_empty_state s Hi)).
      - left. destruct s; reflexivity. }
    destruct (restart_files (exec s pre) rt Hrt) as (He & Hf & Hl).
    assert (Hi' : InvE s') by (unfold InvE; fold s' in Hl; rewrite Hl; exact Hpre).
    destruct (lookup_empty s' Hi' He Hf) as (HN & HS).
    split; [exact Hi'|]. split.
    { destruct Hi' as [El | El]; [left; apply HN; exact El|right; apply HS; exact El]. }
    cbv zeta.
    assert (He' : eods s' = Some eo) by exact He. assert (Hf' : eq4 s' = Some eq) by exact Hf.
    destruct (put_empty_state s' Hi') as (El'' & He'' & Hf''). rewrite He' in He''. rewrite Hf' in Hf''.
    destruct (lookup_empty _ (or_intror El'') He'' Hf'') as (_ & HS'').
    split; [apply HS''; exact El''|]. split; [apply HS''; exact El''|].
    destruct (restart_files (exec (exec s' put_empty_effects) remove_empty_effects) rt' Hrt') as (He3 & Hf3 & Hl3).
    assert (El3 : link (exec (exec (exec s' put_empty_effects) remove_empty_effects) rt') = LNone).
    { rewrite Hl3. destruct (exec s' put_empty_effects); reflexivity. }
    destruct (lookup_empty _ (or_introl El3) He3 Hf3) as (HN3 & _). apply HN3. exact El3.
  Qed.
End EmptyBlock.

(** * Why the size check on the Q4 file matters: on the code without it the property fails *)
Definition fs0 : fs := mkFs None None LNone None None.

Theorem unchecked_q4_unsafe :
  exists pre tr tr',
    put_trace 100 50 MQ4 fs0 tr /\ prefix pre tr /\ put_trace 100 50 MOds (exec fs0 pre) tr' /\
    lookup 100 50 false 0 0 (exec (exec fs0 pre) tr') = Wrong /\
    lookup 100 50 true 0 0 (exec (exec fs0 pre) tr') = Full.
Proof.
  exists (stream POds [65; 35] ++ [Create PQ4; Append PQ4 10]).
  exists ((stream POds [65; 35] ++ stream PQ4 [10; 40]) ++ [] ++ [Link POds PLink]).
  exists ([] ++ [] ++ [Link POds PLink]).
  split; [|split; [|split; [|split]]].
  - apply (PutQ4 100 50 fs0 [65; 35] [10; 40] [100] [50] (stream POds [65; 35] ++ stream PQ4 [10; 40]) (stream POds [100] ++ stream PQ4 [50]));
      try reflexivity; cbn; repeat constructor.
  - cbn. repeat constructor.
  - exact (PutOds 100 50 (exec fs0 (stream POds [65; 35] ++ [Create PQ4; Append PQ4 10])) [100] [100] eq_refl eq_refl).
  - vm_compute. reflexivity.
  - vm_compute. reflexivity.
Qed.

(** * The trace checker used on the observed system-call sequence is sound *)
Section Checker.
  Variable to tq : N.

  Lemma appends_sum_sound p l n : appends_sum p l = Some n -> exists cs, l = map (Append p) cs ++ [Close p] /\ sumN cs = n.
  Proof.
    revert n; induction l as [|e l IH]; intros n H; [discriminate|].
    destruct e as [q|q c|q|a b|a b|q]; cbn in H; try discriminate.
    - destruct (path_eqb p q) eqn:Ep; [|discriminate]. apply path_eqb_eq in Ep. subst q.
      destruct (appends_sum p l) as [m|] eqn:Em; [|discriminate]. cbn in H. injection H as <-.
      destruct (IH m eq_refl) as (cs & -> & Hs). exists (c :: cs). split; [reflexivity|]. cbn. rewrite Hs. reflexivity.
    - destruct l; [|discriminate]. destruct (path_eqb p q) eqn:Ep; [|discriminate]. apply path_eqb_eq in Ep. subst q.
      injection H as <-. exists []. split; reflexivity.
  Qed.

  Lemma is_stream_sound p total l : is_stream p total l = true -> exists cs, l = stream p cs /\ sumN cs = total.
  Proof.
    destruct l as [|e l]; [discriminate|]. destruct e as [q|q c|q|a b|a b|q]; try discriminate. cbn.
    intros H. apply andb_true_iff in H as [Ep H]. apply path_eqb_eq in Ep. subst q.
    destruct (appends_sum p l) as [n|] eqn:En; [|discriminate]. apply N.eqb_eq in H. subst n.
    destruct (appends_sum_sound p l total En) as (cs & -> & Hs). exists cs. split; [reflexivity|exact Hs].
  Qed.

  Lemma on_path_len_le l : (length (on_path POds l) + length (on_path PQ4 l) <= length l)%nat.
  Proof.
    induction l as [|e l IH]; [cbn; lia|]. cbn [on_path].
    destruct e as [q|q c|q|a b|a b|q]; try (cbn [length]; lia); destruct q; cbn [path_eqb length]; lia.
  Qed.

  Lemma on_path_interleave l :
    length l = (length (on_path POds l) + length (on_path PQ4 l))%nat -> interleave (on_path POds l) (on_path PQ4 l) l.
  Proof.
    induction l as [|e l IH]; intros H; [constructor|].
    pose proof (on_path_len_le l) as Hle. cbn [on_path] in *.
    destruct e as [q|q c|q|a b|a b|q]; try (cbn [length] in H; lia);
      destruct q; cbn [path_eqb length] in *; try lia;
      try (apply IL_l; apply IH; lia); try (apply IL_r; apply IH; lia).
  Qed.

  Theorem is_fresh_put_sound m l : is_fresh_put to tq m l = true -> put_trace to tq m fs0 l.
  Proof.
    unfold is_fresh_put. destruct (rev l) as [|e body_rev] eqn:Er; [discriminate|].
    destruct e as [q|q c|q|a b|a b|q]; try discriminate. destruct a; try discriminate. destruct b; try discriminate.
    assert (El : l = rev body_rev ++ [Link POds PLink]).
    { rewrite <- (rev_involutive l), Er. reflexivity. }
    set (body := rev body_rev) in *. intros H.
    apply andb_true_iff in H as [H Hm]. apply andb_true_iff in H as [_ Hso].
    destruct (is_stream_sound POds to _ Hso) as (co & Eco & Hco).
    destruct m.
    - apply andb_true_iff in Hm as [Hsq Hlen]. apply Nat.eqb_eq in Hlen.
      destruct (is_stream_sound PQ4 tq _ Hsq) as (cq & Ecq & Hcq).
      pose proof (on_path_interleave body Hlen) as Hil. rewrite Eco, Ecq in Hil.
      rewrite El. replace (body ++ [Link POds PLink]) with (body ++ [] ++ [Link POds PLink]) by reflexivity.
      exact (PutQ4 to tq fs0 co cq co cq body (stream POds co ++ stream PQ4 cq) Hco Hcq Hco Hcq Hil
               (ltac:(clear; induction (stream POds co); cbn; [induction (stream PQ4 cq); constructor; assumption|constructor; assumption]))).
    - apply Nat.eqb_eq in Hm.
      assert (Eb : body = on_path POds body).
      { clear -Hm. induction body as [|e b IH]; [reflexivity|]. pose proof (on_path_len_le b). cbn [on_path] in *.
        destruct e as [q|q c|q|a b'|a b'|q]; try (cbn [length] in Hm; assert (length (on_path POds b) <= length b)%nat by lia; lia);
          destruct q; cbn [path_eqb length] in *; try (f_equal; apply IH; lia); lia. }
      rewrite El, Eb, Eco. exact (PutOds to tq fs0 co co Hco Hco).
  Qed.
End Checker.

(** * Non-vacuity *)
Example crash_example :
  let to := 65 + 8 * 90 + 3 * 512 in let tq := 4 * 512 in
  (* a crash after the ODS file is complete and 700 bytes of the Q4 file are on disk *)
  let pre := stream POds [65; to - 65] ++ [Create PQ4; Append PQ4 700] in
  Inv to fs0 /\
  (exists tr, put_trace to tq MQ4 fs0 tr /\ prefix pre tr) /\
  lookup to tq true 0 0 (exec fs0 pre) = Absent /\ q4 (exec fs0 pre) = Some 700 /\
  lookup to tq true 0 0 (put_final to tq MQ4 (exec fs0 pre)) = Full /\ q4 (put_final to tq MQ4 (exec fs0 pre)) = Some tq /\
  lookup to tq true 0 0 (put_final to tq MOds (exec fs0 pre)) = Full /\ q4 (put_final to tq MOds (exec fs0 pre)) = Some 700.
Proof.
  cbv zeta. split; [exact I|]. split.
  - eexists. split.
    + apply (PutQ4 _ _ fs0 [65; 2256] [700; 1348] [2321] [2048] (stream POds [65; 2256] ++ stream PQ4 [700; 1348])
               (stream POds [2321] ++ stream PQ4 [2048])); try reflexivity; cbn; repeat constructor.
    + cbn. repeat constructor.
  - vm_compute. repeat split.
Qed.

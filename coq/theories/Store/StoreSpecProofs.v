(** C08 (c) — the linearizability checker of Store/StoreSpec.v decides exactly "some sequential order of the completed
    operations respects real time, explains every observed result and ends in the observed content". *)
From Coq Require Import List NArith Bool Arith Lia Permutation.
From CN Require Import Store.StoreSpec.
Import ListNotations.

Lemma picks_perm {A} (l : list A) x r : In (x, r) (picks l) -> Permutation (x :: r) l.
Proof.
  revert x r. induction l as [|a l IH]; intros x r H; simpl in H; [contradiction|].
  destruct H as [H|H].
  - inversion H; subst. apply Permutation_refl.
  - apply in_map_iff in H. destruct H as [[y r'] [E Hin]]. simpl in E. inversion E; subst.
    specialize (IH _ _ Hin).
    eapply Permutation_trans; [apply perm_swap|]. apply perm_skip. exact IH.
Qed.

Lemma picks_complete {A} (l : list A) x : In x l -> exists r, In (x, r) (picks l).
Proof.
  induction l as [|a l IH]; intro H; [contradiction|]. destruct H as [<-|H].
  - exists l. left. reflexivity.
  - destruct (IH H) as [r Hr]. exists (a :: r). right.
    apply in_map_iff. exists (x, r). auto.
Qed.

Lemma picks_length {A} (l : list A) x r : In (x, r) (picks l) -> S (length r) = length l.
Proof. intro H. apply picks_perm in H. apply Permutation_length in H. exact H. Qed.

Lemma minimal_spec o rest : minimal o rest = true <-> forall o', In o' rest -> ~ (o_ret o' < o_inv o).
Proof.
  unfold minimal. rewrite forallb_forall. split; intros H o' Hin.
  - specialize (H o' Hin). apply negb_true_iff in H. apply Nat.ltb_ge in H. lia.
  - apply negb_true_iff. apply Nat.ltb_ge. specialize (H o' Hin). lia.
Qed.

Lemma lin_sound fuel hs final : forall m rem,
  lin fuel hs m rem final = true ->
  exists l, Permutation l rem /\ rt_ok l /\ exists m', run_seq m l = Some m' /\ same_on hs m' final = true.
Proof.
  induction fuel as [|f IH]; intros m rem H.
  - destruct rem as [|o rem]; simpl in H; [|discriminate].
    exists []. repeat split; auto. exists m. auto.
  - destruct rem as [|o0 rem0].
    + simpl in H. exists []. repeat split; auto. exists m. auto.
    + remember (o0 :: rem0) as rem eqn:Er. simpl in H. rewrite Er in H. rewrite <- Er in H.
      apply anyb_exists in H. destruct H as [[o rest] [Hin Hf]]. simpl in Hf.
      destruct (minimal o rest) eqn:Hmin; [|discriminate].
      destruct (apply m (o_op o) (o_h o)) as [m1 r] eqn:Ha.
      destruct (res_ok r (o_res o)) eqn:Hr; [|discriminate].
      destruct (IH _ _ Hf) as [l [Hp [Hrt [m' [Hrun Hs]]]]].
      exists (o :: l). split; [|split].
      * eapply Permutation_trans; [apply perm_skip; exact Hp|]. apply picks_perm. exact Hin.
      * simpl. split; [|exact Hrt]. intros o' Ho'. apply (proj1 (minimal_spec o rest) Hmin).
        eapply Permutation_in; eassumption.
      * exists m'. split; [|exact Hs]. simpl. rewrite Ha, Hr. exact Hrun.
Qed.

Theorem linearizable_sound hs init ops final :
  linearizable hs init ops final = true -> exists l, is_linearization hs init ops final l.
Proof.
  intro H. destruct (lin_sound _ _ _ _ _ H) as [l [Hp [Hrt Hm]]]. exists l. split; [|split]; assumption.
Qed.

(** the order in which the remaining operations are listed does not matter, and the search is complete *)
Lemma lin_complete hs final : forall l m rem fuel m',
  Permutation l rem -> rt_ok l -> run_seq m l = Some m' -> same_on hs m' final = true ->
  length rem <= fuel -> lin fuel hs m rem final = true.
Proof.
  induction l as [|o l IH]; intros m rem fuel m' Hp Hrt Hrun Hs Hlen.
  - apply Permutation_nil in Hp. subst rem. simpl in Hrun. inversion Hrun; subst.
    destruct fuel; simpl; exact Hs.
  - assert (Hin : In o rem) by (eapply Permutation_in; [exact Hp | left; reflexivity]).
    destruct rem as [|o0 rem0]; [contradiction|].
    destruct fuel as [|f]; [simpl in Hlen; lia|].
    remember (o0 :: rem0) as rem eqn:Er. simpl. rewrite Er. rewrite <- Er.
    destruct (picks_complete rem o Hin) as [rest Hpick].
    apply anyb_exists. exists (o, rest). split; [exact Hpick|]. simpl.
    pose proof (picks_perm _ _ _ Hpick) as Hp2.
    assert (Hlr : Permutation l rest).
    { eapply Permutation_cons_inv. eapply Permutation_trans; [exact Hp|]. apply Permutation_sym. exact Hp2. }
    simpl in Hrt. destruct Hrt as [Hmin Hrt].
    assert (Hm : minimal o rest = true).
    { apply minimal_spec. intros o' Ho'. apply Hmin. eapply Permutation_in; [apply Permutation_sym; exact Hlr | exact Ho']. }
    rewrite Hm. simpl in Hrun.
    destruct (apply m (o_op o) (o_h o)) as [m1 r] eqn:Ha.
    destruct (res_ok r (o_res o)) eqn:Hr; [|discriminate].
    eapply IH; try eassumption.
    apply picks_length in Hpick. rewrite Er in *. simpl in *. lia.
Qed.

Theorem linearizable_complete hs init ops final l :
  is_linearization hs init ops final l -> linearizable hs init ops final = true.
Proof.
  intros [Hp [Hrt [m [Hrun Hs]]]]. unfold linearizable.
  eapply lin_complete; try eassumption. lia.
Qed.

Corollary linearizable_iff hs init ops final :
  linearizable hs init ops final = true <-> exists l, is_linearization hs init ops final l.
Proof. split; [apply linearizable_sound | intros [l H]; eapply linearizable_complete; exact H]. Qed.

(** * the specification itself: what the operations do and what they leave alone *)

Lemma apply_other m o h h' : h <> h' -> lookup h' (fst (apply m o h)) = lookup h' m.
Proof.
  intro Hne. unfold apply. destruct (apply1 (lookup h m) o) as [s r]. simpl.
  rewrite lookup_update. destruct (N.eqb_spec h h'); [congruence|reflexivity].
Qed.

Lemma apply_same m o h : lookup h (fst (apply m o h)) = fst (apply1 (lookup h m) o) /\
                         snd (apply m o h) = snd (apply1 (lookup h m) o).
Proof.
  unfold apply. destruct (apply1 (lookup h m) o) as [s r]. simpl.
  rewrite lookup_update, N.eqb_refl. auto.
Qed.

(** reads change nothing; a put never removes and never downgrades; removal makes absent *)
Lemma apply1_facts s :
  fst (apply1 s Get) = s /\ fst (apply1 s Has) = s /\ fst (apply1 s HasQ4) = s /\
  fst (apply1 s RemoveAll) = Absent /\ fst (apply1 s PutODSQ4) = OdsQ4 /\
  fst (apply1 s PutODS) <> Absent /\ (s = OdsQ4 -> fst (apply1 s PutODS) = OdsQ4) /\
  (fst (apply1 s RemoveQ4) = Absent <-> s = Absent) /\ fst (apply1 s RemoveQ4) <> OdsQ4 /\
  (snd (apply1 s Get) = RFound <-> s <> Absent) /\ (snd (apply1 s HasQ4) = RFound <-> s = OdsQ4).
Proof. destruct s; simpl; repeat split; intros; try congruence; try discriminate. Qed.

(** operations on different heights commute (which is why the harness may check the heights one by one) *)
Lemma apply_commute m o1 h1 o2 h2 h : h1 <> h2 ->
  lookup h (fst (apply (fst (apply m o1 h1)) o2 h2)) = lookup h (fst (apply (fst (apply m o2 h2)) o1 h1)) /\
  snd (apply (fst (apply m o1 h1)) o2 h2) = snd (apply m o2 h2).
Proof.
  intro Hne.
  assert (E2 : lookup h2 (fst (apply m o1 h1)) = lookup h2 m) by (apply apply_other; assumption).
  assert (E1 : lookup h1 (fst (apply m o2 h2)) = lookup h1 m) by (apply apply_other; congruence).
  split.
  - unfold apply at 1 3. rewrite E2, E1.
    destruct (apply1 (lookup h2 m) o2) as [s2 r2] eqn:A2. destruct (apply1 (lookup h1 m) o1) as [s1 r1] eqn:A1. simpl.
    rewrite !lookup_update. unfold apply. rewrite A1, A2. simpl. rewrite !lookup_update.
    destruct (N.eqb_spec h2 h), (N.eqb_spec h1 h); try reflexivity. congruence.
  - unfold apply at 1. rewrite E2. unfold apply. destruct (apply1 (lookup h2 m) o2). reflexivity.
Qed.

(** * non-vacuity: an overlapping history that is linearizable only in one order, and one that is not at all *)
Example lin_example :
  (* a remove overlaps a put; a later Has sees the block: the put comes last *)
  linearizable [5%N] [] [mkOp RemoveAll 5 ROk 0 3; mkOp PutODSQ4 5 ROk 1 2; mkOp Has 5 RFound 4 5] [(5%N, OdsQ4)] = true /\
  (* the same with the block absent at rest is not explained by any order *)
  linearizable [5%N] [] [mkOp RemoveAll 5 ROk 0 3; mkOp PutODSQ4 5 ROk 1 2; mkOp Has 5 RFound 4 5] [] = false /\
  (* real time matters: the put returned before the remove was invoked, so the block cannot be there at rest *)
  linearizable [5%N] [] [mkOp PutODS 5 ROk 0 1; mkOp RemoveAll 5 ROk 2 3] [(5%N, Ods)] = false /\
  (* PutODSQ4 on an ODS-only block adds the Q4 file; RemoveQ4 takes it away again *)
  linearizable [5%N] [] [mkOp PutODS 5 ROk 0 1; mkOp PutODSQ4 5 ROk 2 3; mkOp HasQ4 5 RFound 4 5; mkOp RemoveQ4 5 ROk 6 7;
                         mkOp HasQ4 5 RNotFound 8 9; mkOp Get 5 RFound 10 11] [(5%N, Ods)] = true.
Proof. vm_compute. repeat split; reflexivity. Qed.

(** C08 (a) — lock order of the store, its caches and its file accessors; deadlock freedom.

    The held -> acquired graph [Gen.LockGraph_store.edges] is regenerated from the Go source of store, store/cache,
    store/file and share/eds (analysed as one unit) by /verif/translators/locks on every run.  Striped locks are named
    per FAMILY ("store.striplock.heights[]"): two stripes of one family held at once would be a self edge, hence a
    cycle; the code never does that.  The wait of [accessor.close] for the readers of a cache entry is the pseudo lock
    "wait:cache.accessor.done".

    The generic theory Base/LockOrder.v is reused for the graph ([acyclic], its soundness [acyclic_ranked], and
    [sacyclic_no_deadlock] for plain mutex programs).  Reference counts are not mutexes: taking a reference
    ([addRef]) never blocks and any number of readers hold one at the same time.  The section below therefore extends
    the thread language of LockOrder by one action, [XTake m] (non-blocking, shared), and re-proves the rank argument
    for it; a reader "holds" the pseudo lock of the entry from [addRef] to [removeRef], the closer [XAcq]s it. *)
From Coq Require Import List Arith Bool Lia String.
From CN Require Import Base.LockOrder Gen.LockGraph_store.
Import ListNotations.
Local Open Scope list_scope.

Section XLock.
  Context {M : Type} (eqb : M -> M -> bool).
  Hypothesis eqb_spec : forall a b, reflect (a = b) (eqb a b).

  Inductive xaction := XAcq (m : M) | XRel (m : M) | XStep | XTake (m : M).

  Definition xthread := (list xaction * list M)%type.
  Definition xstate := list xthread.

  Definition xholds (s : xstate) (m : M) : Prop := exists t, In t s /\ In m (snd t).

  Inductive xtstep (s : xstate) : xthread -> xthread -> Prop :=
  | xt_acq m rest held : ~ xholds s m -> xtstep s (XAcq m :: rest, held) (rest, m :: held)
  | xt_take m rest held : xtstep s (XTake m :: rest, held) (rest, m :: held)
  | xt_rel m rest held : xtstep s (XRel m :: rest, held) (rest, remove1 eqb m held)
  | xt_step rest held : xtstep s (XStep :: rest, held) (rest, held).

  Inductive xstep : xstate -> xstate -> Prop :=
  | xstep_at s1 t t' s2 : xtstep (s1 ++ t :: s2) t t' -> xstep (s1 ++ t :: s2) (s1 ++ t' :: s2).

  Inductive xreachable (s0 : xstate) : xstate -> Prop :=
  | xr_refl : xreachable s0 s0
  | xr_step s s' : xreachable s0 s -> xstep s s' -> xreachable s0 s'.

  Definition xinit (progs : list (list xaction)) : xstate := map (fun p => (p, [])) progs.

  Definition xunfinished (t : xthread) : Prop := fst t <> [].
  Definition xblocked (s : xstate) (t : xthread) : Prop := exists m rest, fst t = XAcq m :: rest /\ xholds s m.
  Definition xdeadlocked (s : xstate) : Prop :=
    (exists t, In t s /\ xunfinished t) /\ forall t, In t s -> xunfinished t -> xblocked s t.

  Variable G : list (M * M).

  (** discipline: a BLOCKING acquisition of [m] needs an edge from everything held; [XTake] needs none (it cannot
      wait), but what is taken counts as held for later acquisitions; nothing is held at the end *)
  Fixpoint xok (held : list M) (prog : list xaction) : Prop :=
    match prog with
    | [] => held = []
    | XAcq m :: r => (forall h, In h held -> In (h, m) G) /\ xok (m :: held) r
    | XTake m :: r => xok (m :: held) r
    | XRel m :: r => xok (remove1 eqb m held) r
    | XStep :: r => xok held r
    end.

  Fixpoint xokb (held : list M) (prog : list xaction) : bool :=
    match prog with
    | [] => match held with [] => true | _ => false end
    | XAcq m :: r =>
      forallb (fun h => existsb (fun e => eqb (fst e) h && eqb (snd e) m) G) held && xokb (m :: held) r
    | XTake m :: r => xokb (m :: held) r
    | XRel m :: r => xokb (remove1 eqb m held) r
    | XStep :: r => xokb held r
    end.

  Lemma xokb_ok prog : forall held, xokb held prog = true -> xok held prog.
  Proof.
    induction prog as [|a r IH]; intros held H; simpl in *.
    - destruct held; [reflexivity | discriminate].
    - destruct a as [m|m| |m].
      + apply andb_true_iff in H. destruct H as [H1 H2]. split; [|apply IH, H2].
        intros h Hh. rewrite forallb_forall in H1. specialize (H1 h Hh).
        apply existsb_exists in H1. destruct H1 as [[u v] [Hin Huv]]. simpl in Huv.
        apply andb_true_iff in Huv. destruct Huv as [Hu Hv].
        destruct (eqb_spec u h); [subst|discriminate]. destruct (eqb_spec v m); [subst|discriminate]. exact Hin.
      + apply IH, H.
      + apply IH, H.
      + apply IH, H.
  Qed.

  Definition xall_ok (s : xstate) : Prop := forall t, In t s -> xok (snd t) (fst t).

  Lemma xinit_ok progs : Forall (xok []) progs -> xall_ok (xinit progs).
  Proof.
    intros H t Hin. unfold xinit in Hin. apply in_map_iff in Hin. destruct Hin as [p [<- Hp]]. simpl.
    rewrite Forall_forall in H. apply H, Hp.
  Qed.

  Lemma xstep_ok s s' : xall_ok s -> xstep s s' -> xall_ok s'.
  Proof.
    intros H Hs. destruct Hs as [s1 t t' s2 Ht]. intros u Hu.
    apply in_app_iff in Hu. destruct Hu as [Hu|[<-|Hu]].
    - apply H. apply in_app_iff. left. assumption.
    - assert (Hok : xok (snd t) (fst t)) by (apply H; apply in_app_iff; right; left; reflexivity).
      inversion Ht; subst; simpl in *; [apply Hok | exact Hok | exact Hok | exact Hok].
    - apply H. apply in_app_iff. right. right. assumption.
  Qed.

  Lemma xreachable_ok progs s : Forall (xok []) progs -> xreachable (xinit progs) s -> xall_ok s.
  Proof. intros H Hr. induction Hr; [apply xinit_ok, H | eapply xstep_ok; eassumption]. Qed.

  Definition xawaited (r : M -> nat) (t : xthread) : nat := match fst t with XAcq m :: _ => r m | _ => 0 end.
  Definition xunfinishedb (t : xthread) : bool := match fst t with [] => false | _ => true end.

  Lemma xunfinishedb_spec t : xunfinishedb t = true <-> xunfinished t.
  Proof. unfold xunfinishedb, xunfinished. destruct (fst t); split; congruence. Qed.

  Theorem xranked_no_deadlock r progs s :
    ranked G r -> Forall (xok []) progs -> xreachable (xinit progs) s -> ~ xdeadlocked s.
  Proof.
    intros Hr Hp Hreach [[t0 [Hin0 Hu0]] Hall].
    pose proof (xreachable_ok progs s Hp Hreach) as Hok.
    destruct (max_exists (xawaited r) xunfinishedb s) as [t [Hin [Hu Hmax]]].
    { exists t0. split; [assumption | apply xunfinishedb_spec; assumption]. }
    apply xunfinishedb_spec in Hu.
    destruct (Hall t Hin Hu) as [m [rest [Et [h [Hh Hm]]]]].
    assert (Huh : xunfinished h).
    { intro E. pose proof (Hok h Hh) as Ho. rewrite E in Ho. simpl in Ho. rewrite Ho in Hm. contradiction. }
    destruct (Hall h Hh Huh) as [m' [rest' [Eh _]]].
    pose proof (Hok h Hh) as Ho. rewrite Eh in Ho. simpl in Ho. destruct Ho as [Hedge _].
    specialize (Hr m m' (Hedge m Hm)).
    assert (Hle : xawaited r h <= xawaited r t) by (apply Hmax; [assumption | apply xunfinishedb_spec; assumption]).
    unfold xawaited in Hle. rewrite Eh, Et in Hle. lia.
  Qed.

  Theorem xacyclic_no_deadlock progs s :
    acyclic eqb G = true -> Forall (xok []) progs -> xreachable (xinit progs) s -> ~ xdeadlocked s.
  Proof. intro H. apply (xranked_no_deadlock (lookup eqb (ranks eqb G))). apply acyclic_ranked, H. Qed.
End XLock.

Arguments XAcq {M}. Arguments XRel {M}. Arguments XStep {M}. Arguments XTake {M}.

Local Open Scope string_scope.
Local Open Scope list_scope.

(** * the store's graph *)

Definition hashes := "store.striplock.datahashes[]".
Definition heights := "store.striplock.heights[]".
Definition cstripe := "cache.AccessorCache.stripedLocks[]".
Definition alock := "cache.accessor.lock".
Definition adone := "wait:cache.accessor.done".
Definition pclock := "eds.proofsCache.axisCacheLock".
Definition odslock := "file.ODS.lock".
Definition q4mu := "file.ODSQ4.q4Mu".

(** While a reader holds a reference of a cache entry (the wait [adone] cannot end before it lets go) it reads
    through the accessor and finally releases: these are the locks it takes meanwhile.  They are NOT generated (who
    ends a channel wait is not syntactically visible); they are the locks of the accessor stack below the cache entry
    plus the cache's own locks (a reader may look up other heights in the cache). *)
Definition reader_locks : list string := [alock; cstripe; pclock; odslock; q4mu].
Definition reader_edges : list (string * string) := map (fun l => (adone, l)) reader_locks.

Definition store_edges : list (string * string) := edges ++ reader_edges.

(** the translator found every lock we name, and the wait *)
Lemma store_locks_known :
  forallb (fun l => existsb (String.eqb l) locks) (hashes :: heights :: adone :: reader_locks) = true /\
  existsb (String.eqb adone) waits = true.
Proof. vm_compute. split; reflexivity. Qed.

(** functions of the store packages that return with a lock held: only the helper whose purpose that is
    (multiLock.lock, undone by multiLock.unlock in a defer of every caller — no caller is in the list).  The rsmt2d
    retrieval session of share/eds (retriever.go) is in the analysed unit but is not store code. *)
Definition is_retriever (f : string) : bool := String.prefix "func@retriever.go" f.
Definition store_unbalanced : list (string * string) := filter (fun p => negb (is_retriever (fst p))) unbalanced.

Theorem store_lock_acyclic :
  sacyclic store_edges = true /\
  store_unbalanced = [("store.multiLock.lock", hashes); ("store.multiLock.lock", heights)].
Proof. vm_compute. split; reflexivity. Qed.

(** the order that makes it so: hash stripe before height stripe before the cache's stripe before the entry lock; the
    wait for readers only ever happens below the store's stripes and never under a cache lock *)
Lemma store_order_edges :
  In (hashes, heights) edges /\ In (heights, cstripe) edges /\ In (cstripe, alock) edges /\
  In (heights, adone) edges /\ In (hashes, adone) edges /\
  ~ In (cstripe, adone) edges /\ ~ In (alock, adone) edges /\ ~ In (heights, hashes) edges /\
  ~ In (heights, heights) edges /\ ~ In (hashes, hashes) edges /\ ~ In (cstripe, cstripe) edges.
Proof.
  assert (D : forall (e : string * string) l, existsb (fun x => String.eqb (fst x) (fst e) && String.eqb (snd x) (snd e)) l = false -> ~ In e l).
  { intros e l H Hin. assert (existsb (fun x => String.eqb (fst x) (fst e) && String.eqb (snd x) (snd e)) l = true).
    { apply existsb_exists. exists e. split; [assumption|]. rewrite !String.eqb_refl. reflexivity. }
    congruence. }
  repeat split; try (apply D; vm_compute; reflexivity);
    (apply (existsb_exists (fun x => String.eqb (fst x) _ && String.eqb (snd x) _)) ||
     idtac).
  all: match goal with
       | |- In (?a, ?b) edges =>
         let H := fresh in
         assert (H : existsb (fun x => String.eqb (fst x) a && String.eqb (snd x) b) edges = true) by (vm_compute; reflexivity);
         apply existsb_exists in H; destruct H as [[u v] [Hin Huv]]; simpl in Huv;
         apply andb_true_iff in Huv; destruct Huv as [Hu Hv];
         apply String.eqb_eq in Hu; apply String.eqb_eq in Hv; subst; exact Hin
       end.
Qed.

(** * deadlock freedom, any number of threads *)

Theorem store_no_deadlock : forall progs s,
  Forall (xok String.eqb store_edges []) progs ->
  xreachable String.eqb (xinit progs) s -> ~ xdeadlocked s.
Proof.
  intros progs s H R.
  exact (xacyclic_no_deadlock String.eqb store_edges progs s (proj1 store_lock_acyclic) H R).
Qed.

(** plain mutex programs (no reference counting), through the unchanged theorem of Base/LockOrder.v *)
Theorem store_no_deadlock_mutex : forall progs s,
  Forall (ok String.eqb store_edges []) progs -> reachable String.eqb (init progs) s -> ~ deadlocked s.
Proof. intros progs s H R. exact (sacyclic_no_deadlock store_edges progs s (proj1 store_lock_acyclic) H R). Qed.

(** * the lock programs of the store's operations follow the generated order (non-vacuity, and a second tie: if an
      operation's locking is re-ordered in the source the generated edge list changes and this example fails) *)

(** put (non-empty block): cache.GetOrLoad before any store lock, reference released at once; then hash stripe,
    height stripe, files *)
Definition p_put : list (xaction (M := string)) :=
  [XAcq cstripe; XAcq alock; XTake adone; XRel alock; XRel cstripe;       (* cache.GetOrLoad -> addRef *)
   XAcq alock; XRel adone; XRel alock;                                     (* CloseAndLog -> removeRef *)
   XAcq hashes; XAcq heights; XStep;                                       (* create files, link *)
   XRel hashes; XRel heights].
(** GetByHeight with a cache hit; the reader then reads and closes *)
Definition p_get_hit_read_close : list (xaction (M := string)) :=
  [XAcq heights; XAcq cstripe; XAcq alock; XTake adone; XRel alock; XRel cstripe; XRel heights;
   XAcq pclock; XRel pclock; XAcq q4mu; XRel q4mu; XAcq odslock; XRel odslock; XAcq pclock; XRel pclock;  (* reads *)
   XAcq alock; XRel adone; XRel alock].
(** GetByHeight with a miss: opens the file under the height stripe, no reference counting *)
Definition p_get_miss : list (xaction (M := string)) :=
  [XAcq heights; XAcq cstripe; XRel cstripe; XStep; XRel heights; XAcq pclock; XRel pclock; XAcq q4mu; XRel q4mu].
(** HasByHeight *)
Definition p_has : list (xaction (M := string)) := [XAcq heights; XAcq cstripe; XRel cstripe; XStep; XRel heights].
(** RemoveODSQ4 / RemoveQ4: both stripes, cache.Remove = lookup, close (entry lock, then WAIT for the readers, then
    close the files), lru.Remove *)
Definition p_remove : list (xaction (M := string)) :=
  [XAcq hashes; XAcq heights;
   XAcq cstripe; XRel cstripe; XAcq alock; XRel alock; XAcq adone; XRel adone; XAcq q4mu; XRel q4mu; XStep;
   XRel hashes; XRel heights].
(** CachedStore.GetByHeight: first cache, then GetOrLoad of the second cache with the file opened under the cache's
    stripe (no store lock) *)
Definition p_cached_get : list (xaction (M := string)) :=
  [XAcq cstripe; XRel cstripe; XAcq cstripe; XStep; XAcq alock; XTake adone; XRel alock; XRel cstripe;
   XAcq pclock; XRel pclock; XAcq alock; XRel adone; XRel alock].
(** the eviction goroutine *)
Definition p_evict_close : list (xaction (M := string)) := [XAcq alock; XRel alock; XAcq adone; XRel adone; XAcq q4mu; XRel q4mu].

Definition store_programs := [p_put; p_get_hit_read_close; p_get_miss; p_has; p_remove; p_cached_get; p_evict_close].

Example store_programs_ok : Forall (xok String.eqb store_edges []) store_programs.
Proof.
  apply Forall_forall. intros p Hp.
  apply (xokb_ok String.eqb String.eqb_spec).
  assert (H : forallb (xokb String.eqb store_edges []) store_programs = true) by (vm_compute; reflexivity).
  rewrite forallb_forall in H. apply H, Hp.
Qed.

(** * what the callers must not do (and the theorem's hypothesis excludes): call back into the store while holding
      an accessor.  A reader that holds a reference and then asks the store for a height on the same stripe waits for
      the remover, which waits for the reader: with that edge the graph is cyclic, and the two-thread state below is
      reachable and deadlocked.  (In the implementation the remover's wait gives up after [defaultCloseTimeout] = 1
      minute and force-closes the accessor under the reader: the stall and the forced close are the price.) *)
Theorem reader_reentry_cycle : sacyclic (store_edges ++ [(adone, heights)]) = false.
Proof.
  apply (cycle_not_acyclic String.eqb String.eqb_spec _ adone [heights]). vm_compute. reflexivity.
Qed.

Example reader_reentry_deadlock :
  let reader := [XAcq heights; XTake adone; XRel heights; XAcq heights; XRel heights; XRel adone] in
  let remover := [XAcq hashes; XAcq heights; XAcq adone; XRel adone; XRel hashes; XRel heights] in
  exists s, xreachable String.eqb (xinit [reader; remover]) s /\ xdeadlocked s.
Proof.
  intros reader remover.
  set (r1 := ([XTake adone; XRel heights; XAcq heights; XRel heights; XRel adone], [heights]) : xthread).
  set (r2 := ([XRel heights; XAcq heights; XRel heights; XRel adone], [adone; heights]) : xthread).
  set (r3 := ([XAcq heights; XRel heights; XRel adone], [adone]) : xthread).
  set (m0 := (remover, []) : xthread).
  set (m1 := ([XAcq heights; XAcq adone; XRel adone; XRel hashes; XRel heights], [hashes]) : xthread).
  set (m2 := ([XAcq adone; XRel adone; XRel hashes; XRel heights], [heights; hashes]) : xthread).
  exists [r3; m2]. split.
  - assert (S1 : xreachable String.eqb (xinit [reader; remover]) [r1; m0]).
    { eapply xr_step; [apply xr_refl|]. apply (xstep_at String.eqb [] (reader, []) r1 [m0]).
      apply xt_acq. intros [t [[<-|[<-|[]]] Hm]]; simpl in Hm; contradiction. }
    assert (S2 : xreachable String.eqb (xinit [reader; remover]) [r2; m0]).
    { eapply xr_step; [exact S1|]. apply (xstep_at String.eqb [] r1 r2 [m0]). apply xt_take. }
    assert (S3 : xreachable String.eqb (xinit [reader; remover]) [r3; m0]).
    { eapply xr_step; [exact S2|]. apply (xstep_at String.eqb [] r2 r3 [m0]).
      unfold r2, r3.
      exact (xt_rel String.eqb _ heights [XAcq heights; XRel heights; XRel adone] [adone; heights]). }
    assert (S4 : xreachable String.eqb (xinit [reader; remover]) [r3; m1]).
    { eapply xr_step; [exact S3|]. apply (xstep_at String.eqb [r3] m0 m1 []).
      apply xt_acq. intros [t [[<-|[<-|[]]] Hm]]; simpl in Hm; [destruct Hm as [Hm|[]]; discriminate | contradiction]. }
    eapply xr_step; [exact S4|]. apply (xstep_at String.eqb [r3] m1 m2 []).
    apply xt_acq. intros [t [[<-|[<-|[]]] Hm]]; simpl in Hm; destruct Hm as [Hm|Hm]; try discriminate; destruct Hm.
  - split.
    + exists r3. split; [left; reflexivity | discriminate].
    + intros t [<-|[<-|[]]] _.
      * exists heights, [XRel heights; XRel adone]. split; [reflexivity|].
        exists m2. split; [right; left; reflexivity | left; reflexivity].
      * exists adone, [XRel adone; XRel hashes; XRel heights]. split; [reflexivity|].
        exists r3. split; [left; reflexivity | left; reflexivity].
Qed.

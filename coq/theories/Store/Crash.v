(** C07 — crash model of the EDS store's write / remove path (store/store.go:102-337, 453-538; store/file/ods.go
    CreateODS / ValidateODSSize / OpenODS; q4.go createQ4 / validateQ4Size / openQ4; ods_q4.go CreateODSQ4).

    The on-disk state of one block at one height: blocks/<hash>.ods, blocks/<hash>.q4, heights/<h>.ods (a hard link
    to the ODS file, or a symlink to the shared empty-block file), plus the empty-block files blocks/<emptyhash>.{ods,q4}.
    A file is the number of bytes appended so far: every writer of a path writes the same canonical bytes (the
    encoding of the block that is being put, see OdsFile.v), so a prefix is determined by its length.
    Effects are applied in order, one at a time (process-crash semantics: no torn or reordered writes).

    A hard link shares the inode of the ODS file: [LShared] while blocks/<hash>.ods still names that inode, [LOwn n]
    once that name was unlinked (the link keeps the content alive).

    Executable, no proofs (proofs: CrashProofs.v). *)
From Coq Require Import List NArith Lia Bool.
From CN Require Import Base.Lts.
Import ListNotations.
Open Scope N_scope.

Inductive path := POds | PQ4 | PLink | PEOds | PEQ4.

Inductive lnk :=
| LNone                 (* heights/<h>.ods does not exist *)
| LShared               (* hard link, same inode as blocks/<hash>.ods *)
| LOwn (n : N)          (* hard link whose inode is no longer named by blocks/<hash>.ods; n bytes *)
| LSym.                 (* symlink to ../<emptyhash>.ods *)

Record fs := mkFs { ods : option N; q4 : option N; link : lnk; eods : option N; eq4 : option N }.

Inductive effect :=
| Create (p : path)             (* open(O_CREAT|O_EXCL) *)
| Append (p : path) (c : N)     (* write of c bytes at the end *)
| Close (p : path)
| Link (a b : path)             (* link(a, b) *)
| Symlink (a b : path)          (* symlink(target a, at b) *)
| Unlink (p : path).

Definition path_eqb (p q : path) : bool :=
  match p, q with POds, POds | PQ4, PQ4 | PLink, PLink | PEOds, PEOds | PEQ4, PEQ4 => true | _, _ => false end.

Definition get_file (s : fs) (p : path) : option N :=
  match p with POds => ods s | PQ4 => q4 s | PEOds => eods s | PEQ4 => eq4 s | PLink => None end.

Definition set_file (s : fs) (p : path) (v : option N) : fs :=
  match p with
  | POds => mkFs v (q4 s) (link s) (eods s) (eq4 s)
  | PQ4 => mkFs (ods s) v (link s) (eods s) (eq4 s)
  | PEOds => mkFs (ods s) (q4 s) (link s) v (eq4 s)
  | PEQ4 => mkFs (ods s) (q4 s) (link s) (eods s) v
  | PLink => s
  end.

Definition set_link (s : fs) (l : lnk) : fs := mkFs (ods s) (q4 s) l (eods s) (eq4 s).

(** one effect; an effect whose precondition fails (EEXIST, ENOENT) changes nothing *)
Definition apply (s : fs) (e : effect) : fs :=
  match e with
  | Create PLink => s
  | Create p => match get_file s p with None => set_file s p (Some 0) | Some _ => s end
  | Append p c => match get_file s p with Some n => set_file s p (Some (n + c)) | None => s end
  | Close _ => s
  | Link POds PLink => match link s, ods s with LNone, Some _ => set_link s LShared | _, _ => s end
  | Link _ _ => s
  | Symlink PEOds PLink => match link s with LNone => set_link s LSym | _ => s end
  | Symlink _ _ => s
  | Unlink POds =>
      mkFs None (q4 s) (match link s, ods s with LShared, Some n => LOwn n | LShared, None => LNone | l, _ => l end) (eods s) (eq4 s)
  | Unlink PLink => set_link s LNone
  | Unlink p => set_file s p None
  end.

Definition exec (s : fs) (l : list effect) : fs := run apply s l.

Definition is_some {A} (o : option A) : bool := match o with Some _ => true | None => false end.
Definition size_is (o : option N) (n : N) : bool := match o with Some m => N.eqb m n | None => false end.
Fixpoint sumN (l : list N) : N := match l with [] => 0 | x :: l' => x + sumN l' end.

(** the write of one file: exclusive create, any number of buffered writes, close *)
Definition stream (p : path) (chunks : list N) : list effect := Create p :: map (Append p) chunks ++ [Close p].

(** all ways two goroutines' effects can be ordered *)
Inductive interleave {A} : list A -> list A -> list A -> Prop :=
| IL_nil : interleave [] [] []
| IL_l x a b l : interleave a b l -> interleave (x :: a) b (x :: l)
| IL_r x a b l : interleave a b l -> interleave a (x :: b) (x :: l).

Inductive prefix {A} : list A -> list A -> Prop :=
| Pre_nil l : prefix [] l
| Pre_cons x a l : prefix a l -> prefix (x :: a) (x :: l).

Section Block.
  (** sizes of the complete files of the block being stored; the ODS file starts with a 65-byte header *)
  Variable to tq : N.
  Definition hdr : N := 65.

  (** does the accessor refuse a Q4 file of the wrong size ([openQ4] with the size check of fix commit 209657c)?
      [true] = repaired code, [false] = code before the repair. *)
  Variable q4_size_checked : bool.

  (** * Lookups on a freshly started store (nothing cached) *)
  Inductive lookup_res :=
  | Absent        (* ErrNotFound *)
  | Full          (* every read returns the block that was put *)
  | Wrong         (* the block opens and some read returns other data *)
  | Unreadable.   (* the block is indexed but cannot be opened *)

  (** bytes reachable through heights/<h>.ods *)
  Definition link_content (s : fs) : option N :=
    match link s with LNone => None | LShared => ods s | LOwn n => Some n | LSym => eods s end.

  (** is the Q4 file used for reads: present, and — on the repaired code — of the right size *)
  Definition q4_used (s : fs) : bool :=
    match link s with
    | LSym => is_some (eq4 s)
    | _ => if q4_size_checked then size_is (q4 s) tq else is_some (q4 s)
    end.

  (** [GetByHeight] then reading everything: [OpenODS] needs a complete header; shares past the end of either file
      read as tail padding, so a short file is served as a different block *)
  Definition lookup (eo eq : N) (s : fs) : lookup_res :=
    match link_content s with
    | None => Absent
    | Some n =>
        if n <? hdr then Unreadable
        else
          let '(o_total, q_total, qf) := match link s with LSym => (eo, eq, eq4 s) | _ => (to, tq, q4 s) end in
          if N.eqb n o_total && (negb (q4_used s) || size_is qf q_total) then Full else Wrong
    end.

  (** [HasByHeight]: stat follows the symlink *)
  Definition has (s : fs) : bool := is_some (link_content s).

  (** * The put program (non-empty block) *)
  Inductive mode := MQ4 | MOds.      (* PutODSQ4 / PutODS *)

  Definition recover_effects (m : mode) : list effect :=
    match m with
    | MQ4 => [Unlink PLink; Unlink POds; Unlink PQ4]       (* removeODSQ4: link, ODS file, Q4 file *)
    | MOds => [Unlink PLink; Unlink POds]                   (* removeODS *)
    end.

  (** size validation after "file exists": [ValidateODSQ4Size] / [ValidateODSSize] *)
  Definition sizes_ok (m : mode) (s : fs) : bool :=
    match m with MQ4 => size_is (ods s) to && size_is (q4 s) tq | MOds => size_is (ods s) to end.

  Definition existed (m : mode) (s : fs) : bool :=
    match m with MQ4 => is_some (ods s) || is_some (q4 s) | MOds => is_some (ods s) end.

  (** every effect sequence one call of [Store.put] can produce from state [s] (no I/O errors):
      A. [CreateODSQ4]: the ODS and Q4 writers run concurrently; a writer whose file exists fails at once (ErrExist);
      B. if a file existed and the sizes do not validate: remove link and files, write both again;
      C. link the height (a no-op when the link exists). *)
  Inductive put_trace : mode -> fs -> list effect -> Prop :=
  | PutQ4 s co cq co' cq' la lc :
      sumN co = to -> sumN cq = tq -> sumN co' = to -> sumN cq' = tq ->
      interleave (if is_some (ods s) then [] else stream POds co) (if is_some (q4 s) then [] else stream PQ4 cq) la ->
      interleave (stream POds co') (stream PQ4 cq') lc ->
      put_trace MQ4 s
        (la ++ (if existed MQ4 s && negb (sizes_ok MQ4 (exec s la)) then recover_effects MQ4 ++ lc else []) ++ [Link POds PLink])
  | PutOds s co co' :
      sumN co = to -> sumN co' = to ->
      put_trace MOds s
        ((if is_some (ods s) then [] else stream POds co) ++
         (if existed MOds s && negb (sizes_ok MOds s) then recover_effects MOds ++ stream POds co' else []) ++ [Link POds PLink]).

  (** the state a completed put leaves, whatever the interleaving and the buffering *)
  Definition put_final (m : mode) (s : fs) : fs :=
    let s1 := match m with
              | MQ4 => mkFs (match ods s with Some n => Some n | None => Some to end)
                            (match q4 s with Some n => Some n | None => Some tq end) (link s) (eods s) (eq4 s)
              | MOds => mkFs (match ods s with Some n => Some n | None => Some to end) (q4 s) (link s) (eods s) (eq4 s)
              end in
    let s2 := if existed m s && negb (sizes_ok m s1)
              then match m with
                   | MQ4 => mkFs (Some to) (Some tq) LNone (eods s) (eq4 s)
                   | MOds => mkFs (Some to) (q4 s) LNone (eods s) (eq4 s)
                   end
              else s1 in
    apply s2 (Link POds PLink).

  (** [RemoveODSQ4] *)
  Definition remove_effects : list effect := [Unlink PLink; Unlink POds; Unlink PQ4].

  (** * The empty block: never written per height, only symlinked; its files are rewritten by every [NewStore] *)
  Definition put_empty_effects : list effect := [Symlink PEOds PLink].
  Definition remove_empty_effects : list effect := [Unlink PLink].

  Inductive restart_trace (eo eq : N) : list effect -> Prop :=
  | Restart co cq l :
      sumN co = eo -> sumN cq = eq -> interleave (stream PEOds co) (stream PEQ4 cq) l ->
      restart_trace eo eq ([Unlink PEOds; Unlink PEQ4] ++ l).

  (** * What the real write path was observed to do (T-fs): is a normalised effect list one of the sequences the model
      allows for a put into an empty directory?  Each file's effects are exactly create, writes summing to the file's
      size, close; the link comes last. *)
  Fixpoint on_path (p : path) (l : list effect) : list effect :=
    match l with
    | [] => []
    | e :: l' =>
        let keep := match e with
                    | Create q | Append q _ | Close q | Unlink q => path_eqb p q
                    | Link _ _ | Symlink _ _ => false
                    end in
        if keep then e :: on_path p l' else on_path p l'
    end.

  Fixpoint appends_sum (p : path) (l : list effect) : option N :=     (* Append p c1; ...; Append p cn; Close p *)
    match l with
    | [Close q] => if path_eqb p q then Some 0 else None
    | Append q c :: l' => if path_eqb p q then option_map (N.add c) (appends_sum p l') else None
    | _ => None
    end.

  Definition is_stream (p : path) (total : N) (l : list effect) : bool :=
    match l with
    | Create q :: l' => path_eqb p q && match appends_sum p l' with Some n => N.eqb n total | None => false end
    | _ => false
    end.

  Definition is_fresh_put (m : mode) (l : list effect) : bool :=
    match rev l with
    | Link POds PLink :: body_rev =>
        let body := rev body_rev in
        forallb (fun e => match e with Link _ _ | Symlink _ _ | Unlink _ => false | _ => true end) body &&
        is_stream POds to (on_path POds body) &&
        match m with
        | MQ4 => is_stream PQ4 tq (on_path PQ4 body) && Nat.eqb (length body) (length (on_path POds body) + length (on_path PQ4 body))
        | MOds => Nat.eqb (length body) (length (on_path POds body))
        end
    | _ => false
    end.
End Block.

(** * Correspondence cases (harness/store/zz_verif_c07_test.go)

    A crash state as materialised on disk: sizes of the two block files (if present) and whether the height link
    exists (the harness creates it as a hard link to the ODS file), then what the real store did with it. *)
Inductive obs_lookup := OAbsent | OFull | OWrong | OUnreadable.

Record crash_case := mkCase {
  c_to : N; c_tq : N;                 (* sizes of the complete files *)
  c_ods : option N; c_q4 : option N;  (* bytes of .ods / .q4 present at the crash point *)
  c_link : bool;                      (* heights/<h>.ods exists *)
  c_reput : bool;                     (* re-put with PutODSQ4 (true) or PutODS (false) *)
  o_has : bool; o_lookup : obs_lookup;            (* after restart *)
  o_q4_used : bool;                               (* row k served from Q4 (parity half) *)
  o_reput_ok : bool; o_lookup2 : obs_lookup; o_has2 : bool; o_ods2 : option N; o_q42 : option N;   (* after re-put *)
  o_lookup3 : obs_lookup; o_has3 : bool           (* after RemoveODSQ4 *)
}.

Definition obs_of (r : lookup_res) : obs_lookup :=
  match r with Absent => OAbsent | Full => OFull | Wrong => OWrong | Unreadable => OUnreadable end.

Definition obs_eqb (a b : obs_lookup) : bool :=
  match a, b with OAbsent, OAbsent | OFull, OFull | OWrong, OWrong | OUnreadable, OUnreadable => true | _, _ => false end.

Definition optN_eqb (a b : option N) : bool :=
  match a, b with None, None => true | Some x, Some y => N.eqb x y | _, _ => false end.

(** the model is the repaired code: a Q4 file of the wrong size is not used *)
Definition agree (c : crash_case) : bool :=
  let s := mkFs (c_ods c) (c_q4 c) (if c_link c then LShared else LNone) None None in
  let lk := lookup (c_to c) (c_tq c) true 0 0 in
  let m := if c_reput c then MQ4 else MOds in
  let s2 := put_final (c_to c) (c_tq c) m s in
  let s3 := exec s2 remove_effects in
  Bool.eqb (has s) (o_has c) && obs_eqb (obs_of (lk s)) (o_lookup c) &&
  (* which file serves the parity half is observable only through a block that opens and reads back correctly *)
  (negb (obs_eqb (obs_of (lk s)) OFull) || Bool.eqb (q4_used (c_tq c) true s) (o_q4_used c)) &&
  o_reput_ok c && obs_eqb (obs_of (lk s2)) (o_lookup2 c) && Bool.eqb (has s2) (o_has2 c) &&
  optN_eqb (ods s2) (o_ods2 c) && optN_eqb (q4 s2) (o_q42 c) &&
  obs_eqb (obs_of (lk s3)) (o_lookup3 c) && Bool.eqb (has s3) (o_has3 c).

Fixpoint mism_from (n : N) (cs : list crash_case) : list N :=
  match cs with
  | [] => []
  | c :: cs' => if agree c then mism_from (N.succ n) cs' else n :: mism_from (N.succ n) cs'
  end.
Definition mismatches (cs : list crash_case) : list N := mism_from 0 cs.

(** Soundness of the NMT verifier model (Nmt.v): position binding ([compute_root_sound]) — ported from the
    structure-only development — for every tree depth, every claimed range, every node list. *)
From Coq Require Import List Arith NArith Lia Bool.
From CN Require Import Base.Nmt.
Import ListNotations.

Lemma hash_node_mknode l r t : hash_node l r = Some t -> t = mknode l r.
Proof. unfold hash_node. destruct (fmt_ok l && fmt_ok r && (dmax l <=? dmin r)%N); intros H; inversion H; reflexivity. Qed.

Lemma mknode_inj l r l' r' : mknode l r = mknode l' r' -> l = l' /\ r = r'.
Proof. unfold mknode. intros H. inversion H. split; reflexivity. Qed.

Definition leafk (t : dig) : Prop := match t with DLeaf _ _ _ _ _ => True | _ => False end.

(* number of claimed-range indices inside [start, start+sz) *)
Definition cnt (ps pe start sz : nat) : nat := Nat.min (start + sz) pe - Nat.max start ps.

Fixpoint shallow (n : nat) (t : dig) : bool :=
  match n with
  | 0 => false
  | S n' => match t with DNode _ _ l r => shallow n' l || shallow n' r | _ => true end
  end.

Lemma shallow_tree d l : shallow d (tree d l) = false.
Proof.
  revert l; induction d as [|d IH]; intro l; cbn [tree]; [reflexivity|].
  unfold mknode. cbn [shallow]. now rewrite !IH.
Qed.

Lemma shallow_mono n t : shallow n t = true -> shallow (S n) t = true.
Proof.
  revert t; induction n as [|n IH]; intros t H; [discriminate|].
  cbn [shallow] in *. destruct t; try reflexivity.
  apply orb_true_iff in H. apply orb_true_iff. destruct H; [left|right]; now apply IH.
Qed.

Lemma shallow_le n m t : n <= m -> shallow n t = true -> shallow m t = true.
Proof. induction 1; auto using shallow_mono. Qed.

Lemma pow_pos d : 0 < 2 ^ d. Proof. apply Nat.neq_0_lt_0, Nat.pow_nonzero; lia. Qed.

(* counting: consumption of leaf hashes is exact; an overlapping subtree is never "absent" *)
Lemma go_count d : forall start ps pe lh nodes r lh' n',
  go d start ps pe lh nodes = Some (r, lh', n') ->
  cnt ps pe start (2 ^ d) <= length lh ->
  length lh = cnt ps pe start (2 ^ d) + length lh' /\
  (0 < cnt ps pe start (2 ^ d) -> r <> None).
Proof.
  induction d as [|d IH]; intros start ps pe lh nodes r lh' n' H Hlen.
  - cbn [go] in H. unfold cnt, inr in *. cbn [Nat.pow] in *.
    destruct (Nat.leb_spec ps start) as [E1|E1]; destruct (Nat.ltb_spec start pe) as [E2|E2]; cbn [andb] in H.
    + destruct lh as [|x lh0]; cbn [pop] in H; inversion H; subst; cbn [length] in *.
      * exfalso. revert Hlen. rewrite Nat.min_l, Nat.max_l by lia. lia.
      * rewrite Nat.min_l, Nat.max_l by lia. split; [lia|intros _; discriminate].
    + destruct (pop nodes) as [x nn]; inversion H; subst. split; [lia|lia].
    + destruct (pop nodes) as [x nn]; inversion H; subst. split; [lia|lia].
    + destruct (pop nodes) as [x nn]; inversion H; subst. split; [lia|lia].
  - cbn [go] in H. pose proof (pow_pos d) as Hp.
    assert (E2 : 2 ^ S d = 2 ^ d + 2 ^ d) by (cbn [Nat.pow]; lia).
    unfold noov in H.
    destruct ((pe <=? start) || (start + 2 ^ S d <=? ps)) eqn:EN.
    + destruct (pop nodes) as [x nn]; inversion H; subst.
      apply orb_true_iff in EN. unfold cnt.
      destruct EN as [EN|EN]; apply Nat.leb_le in EN; split; lia.
    + apply orb_false_iff in EN. destruct EN as [EN1 EN2].
      apply Nat.leb_gt in EN1. apply Nat.leb_gt in EN2.
      destruct (go d start ps pe lh nodes) as [[[l lh1] n1]|] eqn:GL; [|discriminate].
      destruct (go d (start + 2 ^ d) ps pe lh1 n1) as [[[rr lh2] n2]|] eqn:GR; [|discriminate].
      assert (Hc : cnt ps pe start (2 ^ S d) = cnt ps pe start (2 ^ d) + cnt ps pe (start + 2 ^ d) (2 ^ d))
        by (unfold cnt; lia).
      destruct (IH _ _ _ _ _ _ _ _ GL) as [HL1 HL2]; [lia|].
      destruct (IH _ _ _ _ _ _ _ _ GR) as [HR1 HR2]; [lia|].
      assert (Hres : lh' = lh2 /\ (0 < cnt ps pe start (2 ^ S d) -> r <> None)).
      { destruct rr as [r0|].
        - destruct l as [l0|]; [|discriminate]. destruct (hash_node l0 r0) as [tt|]; [|discriminate].
          inversion H; subst. split; [reflexivity|intros _; discriminate].
        - inversion H; subst. split; [reflexivity|]. intros Hpos.
          destruct (Nat.eq_dec (cnt ps pe (start + 2 ^ d) (2 ^ d)) 0) as [Z|NZ].
          + apply HL2. lia.
          + exfalso. apply HR2; [lia|reflexivity]. }
      destruct Hres as [-> Hnn]. split; [lia|exact Hnn].
Qed.

Lemma go_suffix d : forall start ps pe lh nodes r lh' n',
  go d start ps pe lh nodes = Some (r, lh', n') ->
  (exists c, lh = c ++ lh') /\ (exists c, nodes = c ++ n').
Proof.
  induction d as [|d IH]; intros start ps pe lh nodes r lh' n' H.
  - cbn [go] in H. destruct (inr ps pe start).
    + destruct lh as [|x l0]; cbn [pop] in H; inversion H; subst; split;
        try (now exists []); try (now exists [x]).
    + destruct nodes as [|x l0]; cbn [pop] in H; inversion H; subst; split;
        try (now exists []); try (now exists [x]).
  - cbn [go] in H. destruct (noov ps pe start (2 ^ S d)).
    + destruct nodes as [|x l0]; cbn [pop] in H; inversion H; subst; split;
        try (now exists []); try (now exists [x]).
    + destruct (go d start ps pe lh nodes) as [[[l lh1] n1]|] eqn:GL; [|discriminate].
      destruct (go d (start + 2 ^ d) ps pe lh1 n1) as [[[rr lh2] n2]|] eqn:GR; [|discriminate].
      destruct (IH _ _ _ _ _ _ _ _ GL) as [[c1 ->] [e1 ->]].
      destruct (IH _ _ _ _ _ _ _ _ GR) as [[c2 ->] [e2 ->]].
      assert (lh' = lh2 /\ n' = n2) as [-> ->].
      { destruct rr as [r0|]; [destruct l as [l0|]; [destruct (hash_node l0 r0)|]|]; inversion H; subst; auto. }
      split; [exists (c1 ++ c2)|exists (e1 ++ e2)]; now rewrite app_assoc.
Qed.

Lemma Forall_suffix {A} (P : A -> Prop) c l : Forall P (c ++ l) -> Forall P l.
Proof. intro H. apply Forall_app in H. tauto. Qed.

Lemma go_shallow d : forall start ps pe lh nodes t lh' n',
  go d start ps pe lh nodes = Some (Some t, lh', n') ->
  0 < cnt ps pe start (2 ^ d) ->
  cnt ps pe start (2 ^ d) <= length lh ->
  Forall leafk lh ->
  shallow (S d) t = true.
Proof.
  induction d as [|d IH]; intros start ps pe lh nodes t lh' n' H Hpos Hlen HF.
  - cbn [go] in H. unfold cnt, inr in *. cbn [Nat.pow] in *.
    destruct (Nat.leb_spec ps start) as [E1|E1]; destruct (Nat.ltb_spec start pe) as [E2|E2];
      cbn [andb] in H; try (exfalso; lia).
    destruct lh as [|x l0]; cbn [pop] in H; inversion H; subst.
    inversion HF as [|? ? Hx _]; subst. destruct t; try contradiction. reflexivity.
  - cbn [go] in H. pose proof (pow_pos d) as Hp.
    assert (E2 : 2 ^ S d = 2 ^ d + 2 ^ d) by (cbn [Nat.pow]; lia).
    unfold noov in H.
    destruct ((pe <=? start) || (start + 2 ^ S d <=? ps)) eqn:EN.
    + exfalso. apply orb_true_iff in EN. unfold cnt in Hpos.
      destruct EN as [EN|EN]; apply Nat.leb_le in EN; lia.
    + apply orb_false_iff in EN. destruct EN as [EN1 EN2].
      apply Nat.leb_gt in EN1. apply Nat.leb_gt in EN2.
      destruct (go d start ps pe lh nodes) as [[[l lh1] n1]|] eqn:GL; [|discriminate].
      destruct (go d (start + 2 ^ d) ps pe lh1 n1) as [[[rr lh2] n2]|] eqn:GR; [|discriminate].
      assert (Hc : cnt ps pe start (2 ^ S d) = cnt ps pe start (2 ^ d) + cnt ps pe (start + 2 ^ d) (2 ^ d))
        by (unfold cnt; lia).
      destruct (go_count _ _ _ _ _ _ _ _ _ GL) as [HL1 HL2]; [lia|].
      destruct (go_count _ _ _ _ _ _ _ _ _ GR) as [HR1 HR2]; [lia|].
      destruct (go_suffix _ _ _ _ _ _ _ _ _ GL) as [[c1 Hc1] _].
      assert (HF1 : Forall leafk lh1) by (subst lh; eapply Forall_suffix; eauto).
      destruct rr as [r0|].
      * destruct l as [l0|]; [|discriminate]. destruct (hash_node l0 r0) as [tt|] eqn:HN; [|discriminate].
        apply hash_node_mknode in HN. inversion H; subst t lh2 n2 tt.
        change (shallow (S (S d)) (mknode l0 r0)) with (shallow (S d) l0 || shallow (S d) r0).
        apply orb_true_iff.
        destruct (Nat.eq_dec (cnt ps pe start (2 ^ d)) 0) as [Z|NZ].
        -- right. eapply IH; eauto; lia.
        -- left. eapply IH; eauto; lia.
      * inversion H; subst l lh2 n2.
        destruct (Nat.eq_dec (cnt ps pe (start + 2 ^ d) (2 ^ d)) 0) as [Z|NZ].
        -- apply shallow_mono. eapply IH; eauto; lia.
        -- exfalso. apply HR2; [lia|reflexivity].
Qed.

Definition sub {A} (l : list A) (a n : nat) : list A := firstn n (skipn a l).

Lemma sub_app {A} (x1 x2 : list A) a n :
  sub (x1 ++ x2) a n = sub x1 a n ++ sub x2 (a - length x1) (n - (length x1 - a)).
Proof. unfold sub. rewrite skipn_app, firstn_app, skipn_length. reflexivity. Qed.

Lemma sub_nil_beyond {A} (x : list A) a n : length x <= a -> sub x a n = [].
Proof. intro H. unfold sub. rewrite skipn_all2 by exact H. now destruct n. Qed.

Lemma sub_all_tail {A} (x : list A) a n : length x - a <= n -> sub x a n = skipn a x.
Proof. intro H. unfold sub. apply firstn_all2. rewrite skipn_length. exact H. Qed.

Lemma go_zero d : forall start ps pe lh nodes,
  ps < pe -> cnt ps pe start (2 ^ d) = 0 ->
  go d start ps pe lh nodes = let '(x, n') := pop nodes in Some (x, lh, n').
Proof.
  intros start ps pe lh nodes Hv Hz. pose proof (pow_pos d) as Hp. unfold cnt in Hz.
  destruct d as [|d]; cbn [go].
  - unfold inr. cbn [Nat.pow] in *.
    destruct (Nat.leb_spec ps start); destruct (Nat.ltb_spec start pe); cbn [andb]; try reflexivity.
    exfalso; lia.
  - unfold noov.
    destruct (Nat.leb_spec pe start); destruct (Nat.leb_spec (start + 2 ^ S d) ps); cbn [orb]; try reflexivity.
    exfalso; lia.
Qed.

Lemma tree_S_inv D1 X l0 r0 :
  mknode l0 r0 = tree (S D1) X ->
  l0 = tree D1 (firstn (2 ^ D1) X) /\ r0 = tree D1 (skipn (2 ^ D1) X).
Proof. cbn [tree]. intro H. now apply mknode_inj in H. Qed.

Lemma tree_0_leaf X : Forall leafk X -> length X = 1 -> leafk (tree 0 X).
Proof. destruct X as [|x [|? ?]]; cbn; intros HF HL; try discriminate. now inversion HF. Qed.

Lemma go_content d : forall start ps pe lh nodes t lh' n' D0 X,
  ps < pe ->
  go d start ps pe lh nodes = Some (Some t, lh', n') ->
  0 < cnt ps pe start (2 ^ d) ->
  cnt ps pe start (2 ^ d) <= length lh ->
  Forall leafk lh ->
  length X = 2 ^ D0 -> Forall leafk X -> t = tree D0 X ->
  (D0 = d /\ lh = sub X (Nat.max start ps - start) (cnt ps pe start (2 ^ d)) ++ lh')
  \/ (D0 < d /\ n' = []).
Proof.
  induction d as [|d IH]; intros start ps pe lh nodes t lh' n' D0 X Hv H Hpos Hlen HF HX HFX Ht.
  - (* D0 <= 0 by shallowness *)
    assert (HD : D0 = 0).
    { pose proof (go_shallow _ _ _ _ _ _ _ _ _ H Hpos Hlen HF) as Hs.
      destruct D0 as [|D0]; [reflexivity|]. exfalso.
      apply (shallow_le 1 (S D0)) in Hs; [|lia]. subst t. now rewrite shallow_tree in Hs. }
    subst D0. left. split; [reflexivity|].
    cbn [go] in H. unfold cnt, inr in *. cbn [Nat.pow] in *.
    destruct (Nat.leb_spec ps start) as [E1|E1]; destruct (Nat.ltb_spec start pe) as [E2|E2];
      cbn [andb] in H; try (exfalso; lia).
    destruct lh as [|x l0]; cbn [pop] in H; inversion H; subst.
    destruct X as [|x0 [|? ?]]; cbn in HX; try discriminate.
    rewrite Nat.min_l, Nat.max_l by lia.
    replace (start - start) with 0 by lia. replace (start + 1 - start) with 1 by lia. reflexivity.
  - subst t. pose proof (go_shallow _ _ _ _ _ _ _ _ _ H Hpos Hlen HF) as Hs.
    assert (HDle : D0 <= S d).
    { destruct (Nat.le_gt_cases D0 (S d)) as [|Hgt]; [assumption|]. exfalso.
      apply (shallow_le (S (S d)) D0) in Hs; [|lia]. now rewrite shallow_tree in Hs. }
    cbn [go] in H. pose proof (pow_pos d) as Hp.
    assert (E2 : 2 ^ S d = 2 ^ d + 2 ^ d) by (cbn [Nat.pow]; lia).
    unfold noov in H.
    destruct ((pe <=? start) || (start + 2 ^ S d <=? ps)) eqn:EN.
    { exfalso. apply orb_true_iff in EN. unfold cnt in Hpos.
      destruct EN as [EN|EN]; apply Nat.leb_le in EN; lia. }
    apply orb_false_iff in EN. destruct EN as [EN1 EN2].
    apply Nat.leb_gt in EN1. apply Nat.leb_gt in EN2.
    destruct (go d start ps pe lh nodes) as [[[l lh1] n1]|] eqn:GL; [|discriminate].
    destruct (go d (start + 2 ^ d) ps pe lh1 n1) as [[[rr lh2] n2]|] eqn:GR; [|discriminate].
    set (cl := cnt ps pe start (2 ^ d)) in *.
    set (cr := cnt ps pe (start + 2 ^ d) (2 ^ d)) in *.
    assert (Hc : cnt ps pe start (2 ^ S d) = cl + cr) by (unfold cl, cr, cnt; lia).
    destruct (go_count _ _ _ _ _ _ _ _ _ GL) as [HL1 HL2]; [fold cl; lia|fold cl in HL1, HL2].
    destruct (go_count _ _ _ _ _ _ _ _ _ GR) as [HR1 HR2]; [fold cr; lia|fold cr in HR1, HR2].
    destruct (go_suffix _ _ _ _ _ _ _ _ _ GL) as [[c1 Hc1] _].
    assert (HF1 : Forall leafk lh1) by (subst lh; eapply Forall_suffix; eauto).
    destruct rr as [r0|].
    + (* both children present *)
      destruct l as [l0|]; [|discriminate]. destruct (hash_node l0 r0) as [tt|] eqn:HN; [|discriminate].
      apply hash_node_mknode in HN. injection H as Ht Hl2 Hn2. subst lh2 n2 tt.
      destruct D0 as [|D1].
      { exfalso. pose proof (tree_0_leaf X HFX HX) as Hk. rewrite <- Ht in Hk. exact Hk. }
      apply tree_S_inv in Ht. destruct Ht as [Htl Htr].
      pose proof (firstn_skipn (2 ^ D1) X) as HXs.
      set (X1 := firstn (2 ^ D1) X) in *. set (X2 := skipn (2 ^ D1) X) in *.
      assert (HX1 : length X1 = 2 ^ D1).
      { unfold X1. rewrite firstn_length. cbn [Nat.pow] in HX. pose proof (pow_pos D1). lia. }
      assert (HX2 : length X2 = 2 ^ D1).
      { unfold X2. rewrite skipn_length. cbn [Nat.pow] in HX. lia. }
      assert (HFX1 : Forall leafk X1) by (rewrite <- HXs in HFX; apply Forall_app in HFX; tauto).
      assert (HFX2 : Forall leafk X2) by (rewrite <- HXs in HFX; apply Forall_app in HFX; tauto).
      destruct (Nat.eq_dec cl 0) as [Zl|NZl]; destruct (Nat.eq_dec cr 0) as [Zr|NZr]; try (exfalso; lia).
      * (* only the right half overlaps *)
        rewrite (go_zero d start ps pe lh nodes Hv Zl) in GL.
        destruct (pop nodes) as [xl nl] eqn:EP. inversion GL; subst l0 lh1 n1. clear GL.
        destruct (IH _ _ _ _ _ _ _ _ _ _ Hv GR ltac:(fold cr; lia) ltac:(fold cr; lia) HF HX2 HFX2 Htr)
          as [[HD Hlh]|[HD Hn]].
        -- left. split; [lia|]. fold cr in Hlh. rewrite Hc, Zl. cbn [Nat.add].
           rewrite <- HXs, sub_app, HX1. subst D1.
           rewrite (sub_nil_beyond X1) by (rewrite HX1; unfold cl, cnt in Zl; lia). cbn [app].
           rewrite Hlh at 1. f_equal. f_equal; unfold cl, cnt in Zl; lia.
        -- right. split; [lia|exact Hn].
      * (* only the left half overlaps *)
        rewrite (go_zero d (start + 2 ^ d) ps pe lh1 n1 Hv Zr) in GR.
        destruct (pop n1) as [xr nr] eqn:EP. inversion GR; subst xr lh' nr. clear GR.
        destruct (IH _ _ _ _ _ _ _ _ _ _ Hv GL ltac:(fold cl; lia) ltac:(fold cl; lia) HF HX1 HFX1 Htl)
          as [[HD Hlh]|[HD Hn]].
        -- left. split; [lia|]. fold cl in Hlh. rewrite Hc, Zr, Nat.add_0_r.
           rewrite <- HXs, sub_app, HX1. subst D1.
           replace (cl - (2 ^ d - (Nat.max start ps - start))) with 0 by (unfold cl, cr, cnt in *; lia).
           assert (Hn0 : forall (l : list dig) a, sub l a 0 = []) by reflexivity.
           rewrite Hn0, app_nil_r. exact Hlh.
        -- exfalso. subst n1. discriminate EP.
      * (* both halves overlap *)
        destruct (IH _ _ _ _ _ _ _ _ _ _ Hv GL ltac:(fold cl; lia) ltac:(fold cl; lia) HF HX1 HFX1 Htl)
          as [[HDl Hlhl]|[HDl Hnl]];
        destruct (IH _ _ _ _ _ _ _ _ _ _ Hv GR ltac:(fold cr; lia) ltac:(fold cr; lia) HF1 HX2 HFX2 Htr)
          as [[HDr Hlhr]|[HDr Hnr]]; try (exfalso; lia).
        -- left. split; [lia|]. fold cl in Hlhl. fold cr in Hlhr. rewrite Hc.
           rewrite <- HXs, sub_app, HX1. subst D1.
           rewrite Hlhl at 1. rewrite Hlhr at 1. rewrite app_assoc. f_equal. f_equal.
           ++ rewrite !sub_all_tail; [reflexivity| |]; rewrite HX1; unfold cl, cr, cnt in *; lia.
           ++ f_equal; unfold cl, cr, cnt in *; lia.
        -- right. split; [lia|exact Hnr].
    + (* right absent: promotion *)
      injection H as Hl Hl2 Hn2. subst l lh2 n2.
      assert (Zr : cr = 0).
      { destruct (Nat.eq_dec cr 0) as [|NZ]; [assumption|]. exfalso. apply HR2; [lia|reflexivity]. }
      right. split.
      * destruct (Nat.eq_dec D0 (S d)) as [EqD|]; [|lia]. exfalso. subst D0.
        pose proof (go_shallow _ _ _ _ _ _ _ _ _ GL ltac:(fold cl; lia) ltac:(fold cl; lia) HF) as Hs'.
        now rewrite shallow_tree in Hs'.
      * rewrite (go_zero d (start + 2 ^ d) ps pe lh1 n1 Hv Zr) in GR.
        destruct n1 as [|y n1']; cbn [pop] in GR; inversion GR. reflexivity.
Qed.

Lemma tree_node_inv D L a b :
  Forall leafk L -> length L = 2 ^ D -> mknode a b = tree D L ->
  exists D', D = S D' /\ a = tree D' (firstn (2 ^ D') L) /\ b = tree D' (skipn (2 ^ D') L).
Proof.
  intros HF HL H. destruct D as [|D'].
  - exfalso. pose proof (tree_0_leaf L HF HL) as Hk. rewrite <- H in Hk. exact Hk.
  - exists D'. split; [reflexivity|]. now apply tree_S_inv.
Qed.

Lemma fold_nodes_app t0 a b :
  fold_nodes t0 (a ++ b) = match fold_nodes t0 a with Some t => fold_nodes t b | None => None end.
Proof.
  revert t0; induction a as [|x a IH]; intros t0; cbn [app fold_nodes]; [reflexivity|].
  destruct (hash_node t0 x); [apply IH|reflexivity].
Qed.

Lemma spine rest : forall t0 D L,
  Forall leafk L -> length L = 2 ^ D ->
  fold_nodes t0 rest = Some (tree D L) ->
  length rest <= D /\ t0 = tree (D - length rest) (firstn (2 ^ (D - length rest)) L).
Proof.
  induction rest as [|r rs IH] using rev_ind; intros t0 D L HF HL H.
  - cbn in *. inversion H; subst. rewrite Nat.sub_0_r, firstn_all2 by lia. split; [lia|reflexivity].
  - rewrite fold_nodes_app in H. destruct (fold_nodes t0 rs) as [t1|] eqn:F1; [|discriminate].
    cbn [fold_nodes] in H. destruct (hash_node t1 r) as [t2|] eqn:HN; [|discriminate].
    apply hash_node_mknode in HN. inversion H; subst t2. clear H. rename H1 into H.
    destruct (tree_node_inv D L _ _ HF HL H) as [D' [-> [Ha _]]].
    pose proof (pow_pos D') as Hp.
    assert (HL' : length (firstn (2 ^ D') L) = 2 ^ D').
    { rewrite firstn_length. cbn [Nat.pow] in HL. lia. }
    assert (HF' : Forall leafk (firstn (2 ^ D') L)).
    { rewrite <- (firstn_skipn (2 ^ D') L) in HF. apply Forall_app in HF. tauto. }
    rewrite Ha in F1.
    destruct (IH _ _ _ HF' HL' F1) as [Hle Ht0].
    rewrite app_length. cbn [length]. split; [lia|].
    replace (S D' - (length rs + 1)) with (D' - length rs) by lia.
    rewrite Ht0. f_equal. rewrite firstn_firstn. f_equal.
    apply Nat.min_l. apply Nat.pow_le_mono_r; lia.
Qed.

Lemma sub_firstn {A} (l : list A) a n m : a + n <= m -> sub (firstn m l) a n = sub l a n.
Proof.
  intro H. unfold sub. rewrite skipn_firstn_comm, firstn_firstn. f_equal. lia.
Qed.

Theorem compute_root_sound : forall D L dE ps pe lh nodes t0 lh' rest,
  Forall leafk L -> length L = 2 ^ D ->
  Forall leafk lh -> length lh = pe - ps ->
  ps < pe -> pe <= 2 ^ D ->
  pe <= 2 ^ dE -> (dE = 0 \/ 2 ^ (dE - 1) < pe) ->
  go dE 0 ps pe lh nodes = Some (Some t0, lh', rest) ->
  fold_nodes t0 rest = Some (tree D L) ->
  lh = sub L ps (pe - ps).
Proof.
  intros D L dE ps pe lh nodes t0 lh' rest HFL HL HFlh Hlh Hv HpeD HpeE HdE Hgo Hroot.
  destruct (spine _ _ _ _ HFL HL Hroot) as [Hle Ht0].
  set (D0 := D - length rest) in *.
  set (X := firstn (2 ^ D0) L) in *.
  assert (HD0 : 2 ^ D0 <= 2 ^ D) by (apply Nat.pow_le_mono_r; unfold D0; lia).
  assert (HX : length X = 2 ^ D0) by (unfold X; rewrite firstn_length; lia).
  assert (HFX : Forall leafk X).
  { unfold X. rewrite <- (firstn_skipn (2 ^ D0) L) in HFL. apply Forall_app in HFL. tauto. }
  assert (Hcnt : cnt ps pe 0 (2 ^ dE) = pe - ps) by (unfold cnt; lia).
  destruct (go_count _ _ _ _ _ _ _ _ _ Hgo) as [Hlen _]; [lia|].
  destruct (go_content _ _ _ _ _ _ _ _ _ _ X Hv Hgo ltac:(lia) ltac:(lia) HFlh HX HFX Ht0)
    as [[HDE Heq]|[HDlt Hnil]].
  - rewrite Hcnt in Heq, Hlen. assert (lh' = []) by (destruct lh'; cbn in *; [reflexivity|lia]).
    subst lh'. rewrite app_nil_r in Heq. rewrite Heq.
    replace (Nat.max 0 ps - 0) with ps by lia.
    unfold X. apply sub_firstn. rewrite HDE. lia.
  - exfalso. subst rest. cbn [length] in *. unfold D0 in *. rewrite Nat.sub_0_r in *.
    destruct HdE as [->|HdE]; [lia|].
    assert (2 ^ D <= 2 ^ (dE - 1)) by (apply Nat.pow_le_mono_r; lia). lia.
Qed.

(** the estimate depth of [computeRoot] *)
Lemma log2_up_est pe : 0 < pe -> pe <= 2 ^ Nat.log2_up pe /\ (Nat.log2_up pe = 0 \/ 2 ^ (Nat.log2_up pe - 1) < pe).
Proof.
  intros H. destruct (Nat.eq_dec pe 1) as [->|Hn].
  - cbn. split; [lia|left; reflexivity].
  - pose proof (Nat.log2_up_spec pe ltac:(lia)) as [H1 H2]. split; [exact H2|]. right.
    replace (Nat.log2_up pe - 1) with (Nat.pred (Nat.log2_up pe)) by lia. exact H1.
Qed.

(** ** Position binding, packaged for [compute_root]: if the claimed range lies inside the tree, the leaf hashes are
    exactly the tree's leaf hashes at the claimed positions.  The bound [p_end p <= 2 ^ D] is a hypothesis: the verifier
    does not know the tree size, and the real library accepts leaf 1 of a 2-leaf tree under the claimed ranges
    [2,3), [4,5), [8,9) (promotion when the node list runs out).  Each caller discharges it from its own checks. *)
Theorem compute_root_pos : forall D L p lh,
  Forall leafk L -> length L = 2 ^ D ->
  Forall leafk lh -> length lh = p_end p - p_start p ->
  p_start p < p_end p -> p_end p <= 2 ^ D ->
  compute_root p lh = Some (tree D L) ->
  lh = sub L (p_start p) (p_end p - p_start p).
Proof.
  intros D L p lh HFL HL HFlh Hlen Hv Hb Hc. unfold compute_root in Hc.
  destruct (go (Nat.log2_up (p_end p)) 0 (p_start p) (p_end p) lh (p_nodes p)) as [[[[t0|] lh'] rest]|] eqn:G; try discriminate.
  destruct (log2_up_est (p_end p) ltac:(lia)) as [E1 E2].
  eapply compute_root_sound; eauto.
Qed.

(** Lock-order discipline => deadlock freedom, for any number of threads and programs of any length.

    Generic in the type [M] of lock names (instantiated with [string] for the generated lock graphs
    [Gen/LockGraph_<pkg>.v]; reusable for any package's lock graph).

    Model.  A thread is the list of lock-relevant actions it still has to perform, [Acq m | Rel m | Step], together
    with the locks it holds.  Threads interleave arbitrarily; [Acq m] can only be taken when no thread holds [m]
    (mutexes are exclusive and not re-entrant; an RWMutex is treated as exclusive, which is conservative and, for Go's
    writer-preferring RWMutex, what a second RLock behind a waiting writer amounts to).  A state is [deadlocked] if
    some thread is unfinished and every unfinished thread's next action is [Acq] of a lock that is currently held
    (by another thread or by itself).

    Discipline [ok G]: a thread acquires [m'] while holding [m] only if [(m, m')] is in the edge list [G], and it
    holds nothing when it finishes.  Theorem [acyclic_no_deadlock]: if every thread follows [ok G] and the boolean
    check [acyclic G] succeeds, no reachable state is deadlocked. *)
From Coq Require Import List Arith Bool Lia.
Import ListNotations.

Section LockOrder.
  Context {M : Type} (eqb : M -> M -> bool).
  Hypothesis eqb_spec : forall a b, reflect (a = b) (eqb a b).

  Inductive action := Acq (m : M) | Rel (m : M) | Step.

  (** (remaining program, held locks) *)
  Definition thread := (list action * list M)%type.
  Definition state := list thread.

  Fixpoint remove1 (m : M) (l : list M) : list M :=
    match l with [] => [] | x :: l' => if eqb x m then l' else x :: remove1 m l' end.

  Definition holds (s : state) (m : M) : Prop := exists t, In t s /\ In m (snd t).

  Inductive tstep (s : state) : thread -> thread -> Prop :=
  | t_acq m rest held : ~ holds s m -> tstep s (Acq m :: rest, held) (rest, m :: held)
  | t_rel m rest held : tstep s (Rel m :: rest, held) (rest, remove1 m held)
  | t_step rest held : tstep s (Step :: rest, held) (rest, held).

  Inductive step : state -> state -> Prop :=
  | step_at s1 t t' s2 : tstep (s1 ++ t :: s2) t t' -> step (s1 ++ t :: s2) (s1 ++ t' :: s2).

  Inductive reachable (s0 : state) : state -> Prop :=
  | r_refl : reachable s0 s0
  | r_step s s' : reachable s0 s -> step s s' -> reachable s0 s'.

  Definition init (progs : list (list action)) : state := map (fun p => (p, [])) progs.

  Definition unfinished (t : thread) : Prop := fst t <> [].
  Definition blocked (s : state) (t : thread) : Prop := exists m rest, fst t = Acq m :: rest /\ holds s m.
  Definition deadlocked (s : state) : Prop :=
    (exists t, In t s /\ unfinished t) /\ forall t, In t s -> unfinished t -> blocked s t.

  (** the discipline, as a check of a thread's remaining program against the locks it holds *)
  Variable G : list (M * M).

  Fixpoint ok (held : list M) (prog : list action) : Prop :=
    match prog with
    | [] => held = []
    | Acq m :: r => (forall h, In h held -> In (h, m) G) /\ ok (m :: held) r
    | Rel m :: r => ok (remove1 m held) r
    | Step :: r => ok held r
    end.

  (** boolean version, for checking concrete programs by computation *)
  Fixpoint okb (held : list M) (prog : list action) : bool :=
    match prog with
    | [] => match held with [] => true | _ => false end
    | Acq m :: r =>
      forallb (fun h => existsb (fun e => eqb (fst e) h && eqb (snd e) m) G) held && okb (m :: held) r
    | Rel m :: r => okb (remove1 m held) r
    | Step :: r => okb held r
    end.

  Lemma okb_ok prog : forall held, okb held prog = true -> ok held prog.
  Proof.
    induction prog as [|a r IH]; intros held H; simpl in *.
    - destruct held; [reflexivity | discriminate].
    - destruct a as [m|m|].
      + apply andb_true_iff in H. destruct H as [H1 H2]. split; [|apply IH, H2].
        intros h Hh. rewrite forallb_forall in H1. specialize (H1 h Hh).
        apply existsb_exists in H1. destruct H1 as [[u v] [Hin Huv]]. simpl in Huv.
        apply andb_true_iff in Huv. destruct Huv as [Hu Hv].
        destruct (eqb_spec u h); [subst|discriminate]. destruct (eqb_spec v m); [subst|discriminate]. exact Hin.
      + apply IH, H.
      + apply IH, H.
  Qed.

  Definition all_ok (s : state) : Prop := forall t, In t s -> ok (snd t) (fst t).

  Lemma init_ok progs : Forall (ok []) progs -> all_ok (init progs).
  Proof.
    intros H t Hin. unfold init in Hin. apply in_map_iff in Hin. destruct Hin as [p [<- Hp]]. simpl.
    rewrite Forall_forall in H. apply H, Hp.
  Qed.

  Lemma step_ok s s' : all_ok s -> step s s' -> all_ok s'.
  Proof.
    intros H Hs. destruct Hs as [s1 t t' s2 Ht]. intros u Hu.
    apply in_app_iff in Hu. destruct Hu as [Hu|[<-|Hu]].
    - apply H. apply in_app_iff. left. assumption.
    - assert (Hok : ok (snd t) (fst t)) by (apply H; apply in_app_iff; right; left; reflexivity).
      inversion Ht; subst; simpl in *; [apply Hok | exact Hok | exact Hok].
    - apply H. apply in_app_iff. right. right. assumption.
  Qed.

  Lemma reachable_ok progs s : Forall (ok []) progs -> reachable (init progs) s -> all_ok s.
  Proof. intros H Hr. induction Hr; [apply init_ok, H | eapply step_ok; eassumption]. Qed.

  (** the awaited lock's rank; an unfinished thread of maximal awaited rank exists *)
  Definition awaited (r : M -> nat) (t : thread) : nat := match fst t with Acq m :: _ => r m | _ => 0 end.
  Definition unfinishedb (t : thread) : bool := match fst t with [] => false | _ => true end.

  Lemma unfinishedb_spec t : unfinishedb t = true <-> unfinished t.
  Proof. unfold unfinishedb, unfinished. destruct (fst t); split; congruence. Qed.

  Lemma max_exists {A} (f : A -> nat) (P : A -> bool) (l : list A) :
    (exists x, In x l /\ P x = true) ->
    exists x, In x l /\ P x = true /\ forall y, In y l -> P y = true -> f y <= f x.
  Proof.
    induction l as [|a l IH]; intros [x [Hin Hp]]; [contradiction|].
    destruct (existsb P l) eqn:E.
    - apply existsb_exists in E. destruct (IH E) as [z [Hz [Pz Hmax]]].
      destruct (P a) eqn:Pa.
      + destruct (le_lt_dec (f a) (f z)) as [Hle|Hlt].
        * exists z. split; [right; assumption|]. split; [assumption|].
          intros y [<-|Hy] Py; [assumption | apply Hmax; assumption].
        * exists a. split; [left; reflexivity|]. split; [assumption|].
          intros y [<-|Hy] Py; [lia | specialize (Hmax y Hy Py); lia].
      + exists z. split; [right; assumption|]. split; [assumption|].
        intros y [<-|Hy] Py; [congruence | apply Hmax; assumption].
    - assert (Hnone : forall y, In y l -> P y = false).
      { intros y Hy. destruct (P y) eqn:Py; [|reflexivity].
        assert (existsb P l = true) by (apply existsb_exists; exists y; auto). congruence. }
      destruct Hin as [<-|Hin]; [|rewrite (Hnone x Hin) in Hp; discriminate].
      exists a. split; [left; reflexivity|]. split; [assumption|].
      intros y [<-|Hy] Py; [lia | rewrite (Hnone y Hy) in Py; discriminate].
  Qed.

  (** ** ranked graphs have no deadlock *)
  Definition ranked (r : M -> nat) : Prop := forall a b, In (a, b) G -> r a < r b.

  Theorem ranked_no_deadlock r progs s :
    ranked r -> Forall (ok []) progs -> reachable (init progs) s -> ~ deadlocked s.
  Proof.
    intros Hr Hp Hreach [[t0 [Hin0 Hu0]] Hall].
    pose proof (reachable_ok progs s Hp Hreach) as Hok.
    destruct (max_exists (awaited r) unfinishedb s) as [t [Hin [Hu Hmax]]].
    { exists t0. split; [assumption | apply unfinishedb_spec; assumption]. }
    apply unfinishedb_spec in Hu.
    destruct (Hall t Hin Hu) as [m [rest [Et [h [Hh Hm]]]]].
    (* the holder h of m holds something, so it is unfinished, so it is blocked on some m' with (m, m') in G *)
    assert (Huh : unfinished h).
    { intro E. pose proof (Hok h Hh) as Ho. rewrite E in Ho. simpl in Ho. rewrite Ho in Hm. contradiction. }
    destruct (Hall h Hh Huh) as [m' [rest' [Eh _]]].
    pose proof (Hok h Hh) as Ho. rewrite Eh in Ho. simpl in Ho. destruct Ho as [Hedge _].
    specialize (Hr m m' (Hedge m Hm)).
    assert (Hle : awaited r h <= awaited r t) by (apply Hmax; [assumption | apply unfinishedb_spec; assumption]).
    unfold awaited in Hle. rewrite Eh, Et in Hle. lia.
  Qed.

  (** ** the boolean acyclicity check
      Longest-path ranks are computed by relaxation ([S (length G)] rounds over the node list) and then CHECKED:
      the answer is [true] only if every edge strictly increases the computed rank.  Soundness therefore does not
      depend on how the ranks were obtained. *)
  Fixpoint lookup (tbl : list (M * nat)) (v : M) : nat :=
    match tbl with [] => 0 | (k, n) :: tbl' => if eqb k v then n else lookup tbl' v end.

  Definition nodes : list M := map fst G ++ map snd G.

  Definition relax (tbl : list (M * nat)) : list (M * nat) :=
    map (fun v => (v, fold_left (fun acc e => if eqb (snd e) v then Nat.max acc (S (lookup tbl (fst e))) else acc) G 0)) nodes.

  Fixpoint iter (k : nat) (tbl : list (M * nat)) : list (M * nat) :=
    match k with O => tbl | S k' => iter k' (relax tbl) end.

  Definition ranks : list (M * nat) := iter (S (length G)) [].

  Definition acyclic : bool := forallb (fun e => lookup ranks (fst e) <? lookup ranks (snd e)) G.

  Lemma acyclic_ranked : acyclic = true -> ranked (lookup ranks).
  Proof.
    unfold acyclic, ranked. intros H a b Hin. rewrite forallb_forall in H.
    specialize (H (a, b) Hin). simpl in H. apply Nat.ltb_lt in H. exact H.
  Qed.

  Theorem acyclic_no_deadlock progs s :
    acyclic = true -> Forall (ok []) progs -> reachable (init progs) s -> ~ deadlocked s.
  Proof. intro H. apply (ranked_no_deadlock (lookup ranks)). apply acyclic_ranked, H. Qed.

  (** ** the negative answer is meaningful: a cycle in G defeats every ranking, so [acyclic] is false on it *)
  Fixpoint is_path (c : list M) : bool :=
    match c with
    | a :: ((b :: _) as c') => existsb (fun e => eqb (fst e) a && eqb (snd e) b) G && is_path c'
    | _ => true
    end.

  (** [a :: c ++ [a]] is a closed walk *)
  Definition is_cycle (a : M) (c : list M) : bool := is_path (a :: c ++ [a]).

  Lemma is_path_ranked r c : ranked r -> is_path c = true ->
    forall a, hd_error c = Some a -> forall z, In z (tl c) -> r a < r z.
  Proof.
    intros Hr. induction c as [|x c IH]; intros Hp a Ha z Hz; [discriminate|].
    simpl in Ha. inversion Ha; subst. simpl in Hz. destruct c as [|y c']; [contradiction|].
    simpl in Hp. apply andb_true_iff in Hp. destruct Hp as [He Hp].
    apply existsb_exists in He. destruct He as [[u v] [Hin Huv]]. simpl in Huv.
    apply andb_true_iff in Huv. destruct Huv as [Hu Hv].
    destruct (eqb_spec u a); [subst|discriminate]. destruct (eqb_spec v y); [subst|discriminate].
    specialize (Hr a y Hin). destruct Hz as [<-|Hz]; [assumption|].
    specialize (IH Hp y eq_refl z Hz). lia.
  Qed.

  Theorem cycle_not_acyclic a c : is_cycle a c = true -> acyclic = false.
  Proof.
    intro Hc. destruct acyclic eqn:E; [|reflexivity]. exfalso.
    pose proof (is_path_ranked (lookup ranks) (a :: c ++ [a]) (acyclic_ranked E) Hc a eq_refl a) as H.
    assert (In a (tl (a :: c ++ [a]))) by (simpl; apply in_app_iff; right; left; reflexivity).
    specialize (H H0). lia.
  Qed.
End LockOrder.

Arguments Acq {M}. Arguments Rel {M}. Arguments Step {M}.

(** ** instance for string lock names, and two sanity examples of the checker *)
From Coq Require Import String.

Definition sacyclic (G : list (string * string)) : bool := acyclic String.eqb G.

Lemma sokb_ok (G : list (string * string)) progs :
  forallb (okb String.eqb G []) progs = true -> Forall (ok String.eqb G []) progs.
Proof.
  intro H. apply Forall_forall. intros p Hp. rewrite forallb_forall in H.
  apply (okb_ok String.eqb String.eqb_spec). apply H, Hp.
Qed.

Theorem sacyclic_no_deadlock (G : list (string * string)) progs s :
  sacyclic G = true -> Forall (ok String.eqb G []) progs -> reachable String.eqb (init progs) s ->
  ~ deadlocked s.
Proof. apply acyclic_no_deadlock. Qed.

Example acyclic_accepts_dag :
  sacyclic [("a", "b"); ("b", "c"); ("a", "c"); ("c", "d"); ("e", "d")]%string = true.
Proof. vm_compute. reflexivity. Qed.

Example acyclic_rejects_cycle :
  sacyclic [("a", "b"); ("b", "c"); ("c", "a"); ("c", "d")]%string = false /\
  sacyclic [("a", "a")]%string = false.
Proof. vm_compute. split; reflexivity. Qed.

(** the discipline is satisfiable and the semantics can actually block: two threads taking a/b in opposite orders
    reach a deadlocked state (so the theorem's conclusion is not vacuous), and that pair violates [ok] for every
    acyclic G. *)
Example deadlock_exists :
  let p1 := [Acq "a"; Acq "b"; Rel "b"; Rel "a"]%string in
  let p2 := [Acq "b"; Acq "a"; Rel "a"; Rel "b"]%string in
  exists s, reachable String.eqb (init [p1; p2]) s /\ deadlocked s.
Proof.
  intros p1 p2.
  exists [([Acq "b"; Rel "b"; Rel "a"], ["a"]); ([Acq "a"; Rel "a"; Rel "b"], ["b"])]%string.
  split.
  - apply r_step with (s := [([Acq "b"; Rel "b"; Rel "a"], ["a"]); (p2, [])]%string).
    + apply r_step with (s := init [p1; p2]); [apply r_refl|].
      apply (step_at String.eqb [] (p1, []) ([Acq "b"; Rel "b"; Rel "a"], ["a"])%string [(p2, [])]).
      apply t_acq. intros [t [[<-|[<-|[]]] Hm]]; simpl in Hm; contradiction.
    + apply (step_at String.eqb [([Acq "b"; Rel "b"; Rel "a"], ["a"])]%string (p2, [])
                     ([Acq "a"; Rel "a"; Rel "b"], ["b"])%string []).
      apply t_acq. intros [t [[<-|[<-|[]]] Hm]]; simpl in Hm; [destruct Hm as [Hm|[]]; discriminate | contradiction].
  - split.
    + eexists. split; [left; reflexivity | discriminate].
    + intros t [<-|[<-|[]]] _.
      * exists "b"%string, [Rel "b"; Rel "a"]%string. split; [reflexivity|].
        eexists. split; [right; left; reflexivity | left; reflexivity].
      * exists "a"%string, [Rel "a"; Rel "b"]%string. split; [reflexivity|].
        eexists. split; [left; reflexivity | left; reflexivity].
Qed.

Example discipline_satisfiable :
  ok String.eqb [("q", "p")]%string [] [Acq "q"; Acq "p"; Step; Rel "p"; Rel "q"; Acq "p"; Rel "p"]%string.
Proof.
  simpl. repeat split; try reflexivity; intros h Hh; simpl in Hh; try contradiction;
    destruct Hh as [<-|[]]; left; reflexivity.
Qed.

(** Base-128 unsigned varints over byte lists ([list Z], bytes in [0,256)) and the 64/32-bit two's-complement
    conversions the protobuf code performs around them.

    Three functions of the Go side are transcribed:
    - the ENCODER of gogo-proto's generated code ([encodeVarintShwap] / [encodeVarintProof]) and of
      [encoding/binary.PutUvarint] (identical output): [uvarint_enc];
    - the DECODER loop that gogo-proto generates in every [Unmarshal] and in [skipXxx]
      ([for shift := uint(0); ; shift += 7 { if shift >= 64 {overflow}; if iNdEx >= l {EOF}; b := ..; v |= uint64(b&0x7F) << shift;
      if b < 0x80 {break} }]): at most 10 bytes; the bits of the 10th byte above bit 63 are silently DROPPED (no check);
      over-long encodings ([0x80 0x00]) are accepted: [pb_uvarint];
    - [encoding/binary.ReadUvarint], used by serde.Read for the length prefix of the delimited stream: at most 10 bytes and
      the 10th byte must be 0 or 1: [std_uvarint].
    Executable definitions only; proofs are in VarintProofs.v. *)
From Coq Require Import List ZArith Bool.
From CN Require Import Base.Bytes.
Import ListNotations.
Open Scope Z_scope.

Definition two64 : Z := 18446744073709551616.   (* 2^64 *)
Definition two63 : Z := 9223372036854775808.    (* 2^63 *)
Definition two32 : Z := 4294967296.
Definition two31 : Z := 2147483648.

(** ** Encoder: [for v >= 1<<7 { out = v&0x7f | 0x80; v >>= 7 }; out = v].  [fuel] = number of continuation bytes allowed;
    9 suffice for every [v < 2^64] (the 10th byte then holds bit 63). *)
Fixpoint uvarint_enc_fuel (fuel : nat) (v : Z) : list Z :=
  match fuel with
  | O => [v]
  | S f => if v <? 128 then [v] else (v mod 128 + 128) :: uvarint_enc_fuel f (v / 128)
  end.
Definition uvarint_enc (v : Z) : list Z := uvarint_enc_fuel 9 v.

(** [sovShwap]: the number of bytes the encoder emits *)
Definition sov (v : Z) : nat :=
  if v <? 128 then 1 else if v <? 16384 then 2 else if v <? 2097152 then 3 else if v <? 268435456 then 4
  else if v <? 34359738368 then 5 else if v <? 4398046511104 then 6 else if v <? 562949953421312 then 7
  else if v <? 72057594037927936 then 8 else if v <? 9223372036854775808 then 9 else 10.

(** ** gogo-proto decoder loop.  [fuel] = bytes still allowed (10 at the start; [shift >= 64] <-> fuel exhausted).
    Result: value as the uint64 the Go code ends up with, and the unread rest; [None] = error
    (io.ErrUnexpectedEOF or ErrIntOverflow — never distinguished by any caller modelled here). *)
Fixpoint pb_uvarint_go (fuel : nat) (shift : Z) (acc : Z) (bs : list Z) : option (Z * list Z) :=
  match fuel with
  | O => None
  | S f =>
    match bs with
    | [] => None
    | b :: bs' =>
      let acc' := acc + ((b mod 128) * 2 ^ shift) mod two64 in   (* uint64(b&0x7F) << shift, OR-ed into disjoint bits *)
      if b <? 128 then Some (acc', bs') else pb_uvarint_go f (shift + 7) acc' bs'
    end
  end.
Definition pb_uvarint (bs : list Z) : option (Z * list Z) := pb_uvarint_go 10 0 0 bs.

(** ** encoding/binary.ReadUvarint *)
Fixpoint std_uvarint_go (fuel : nat) (shift : Z) (acc : Z) (bs : list Z) : option (Z * list Z) :=
  match fuel with
  | O => None                                                      (* errOverflow after MaxVarintLen64 bytes *)
  | S f =>
    match bs with
    | [] => None                                                   (* io.EOF / io.ErrUnexpectedEOF *)
    | b :: bs' =>
      if b <? 128 then
        (if Nat.eqb f 0 && (1 <? b) then None                      (* i == MaxVarintLen64-1 && b > 1 *)
         else Some (acc + b * 2 ^ shift, bs'))
      else std_uvarint_go f (shift + 7) (acc + (b - 128) * 2 ^ shift) bs'
    end
  end.
Definition std_uvarint (bs : list Z) : option (Z * list Z) := std_uvarint_go 10 0 0 bs.

(** ** Two's complement.  Go: [uint64(x)] for [x : int64|int32|int] (sign extension), [int64(u)], [int32(u)]. *)
Definition u64_of_int (z : Z) : Z := z mod two64.
Definition i64_of_u64 (u : Z) : Z := let w := u mod two64 in if w <? two63 then w else w - two64.
Definition i32_of_u64 (u : Z) : Z := let w := u mod two32 in if w <? two31 then w else w - two32.
(** a Go [int] (64-bit) converted to an [int32]-based enum type: [pb.AxisType(x)] *)
Definition i32_wrap (z : Z) : Z := i32_of_u64 (u64_of_int z).

Definition in_i64 (z : Z) : bool := (- two63 <=? z) && (z <? two63).
Definition in_i32 (z : Z) : bool := (- two31 <=? z) && (z <? two31).

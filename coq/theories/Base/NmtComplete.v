(** Namespace completeness of the NMT verifier model: whatever range a proof claims, if the computed root equals the
    root of a well-formed tree then every leaf of that tree is either one of the supplied leaf hashes (in order) or
    lies under one of the proof's nodes, every node is a subtree of the honest tree, and the completeness check
    excludes the queried namespace from every node.  Hence the supplied leaves are *all* leaves of the namespace.
    No bound on the claimed range is needed here (contrast [compute_root_pos]). *)
From Coq Require Import List Arith NArith Lia Bool.
From CN Require Import Base.Nmt Base.NmtProofs.
Import ListNotations.

Fixpoint leaves_of (t : dig) : list dig :=
  match t with DNode _ _ l r => leaves_of l ++ leaves_of r | _ => [t] end.

Fixpoint subt (x t : dig) : Prop :=
  x = t \/ match t with DNode _ _ l r => subt x l \/ subt x r | _ => False end.

Lemma subt_refl t : subt t t. Proof. destruct t; cbn; auto. Qed.

Lemma subt_trans x y z : subt x y -> subt y z -> subt x z.
Proof.
  revert x y. induction z as [| mn mx l IHl r IHr | |]; intros x y Hxy Hyz; cbn in Hyz.
  - destruct Hyz as [->|[]]. exact Hxy.
  - destruct Hyz as [->|[H|H]]; [exact Hxy| |]; cbn; right; [left|right]; eauto.
  - destruct Hyz as [->|[]]. exact Hxy.
  - destruct Hyz as [->|[]]. exact Hxy.
Qed.

Lemma subt_mknode_l l r : subt l (mknode l r). Proof. unfold mknode; cbn. right; left; apply subt_refl. Qed.
Lemma subt_mknode_r l r : subt r (mknode l r). Proof. unfold mknode; cbn. right; right; apply subt_refl. Qed.

Lemma leaves_of_mknode l r : leaves_of (mknode l r) = leaves_of l ++ leaves_of r.
Proof. reflexivity. Qed.

(** pieces: the leaf hashes (tag true) and proof nodes (tag false) in the order they are consumed *)
Definition piece : Type := bool * dig.
Definition lh_of (pcs : list piece) : list dig := map snd (filter (fun p => fst p) pcs).
Definition nodes_of (pcs : list piece) : list dig := map snd (filter (fun p => negb (fst p)) pcs).
Definition flat (pcs : list piece) : list dig := flat_map (fun p => leaves_of (snd p)) pcs.

Lemma lh_of_app a b : lh_of (a ++ b) = lh_of a ++ lh_of b.
Proof. unfold lh_of. rewrite filter_app, map_app. reflexivity. Qed.
Lemma nodes_of_app a b : nodes_of (a ++ b) = nodes_of a ++ nodes_of b.
Proof. unfold nodes_of. rewrite filter_app, map_app. reflexivity. Qed.
Lemma flat_app a b : flat (a ++ b) = flat a ++ flat b.
Proof. unfold flat. apply flat_map_app. Qed.

Definition res_ok (r : option dig) (pcs : list piece) : Prop :=
  match r with
  | Some t => leaves_of t = flat pcs /\ Forall (fun p => subt (snd p) t) pcs
  | None => pcs = []
  end.

Lemma pop_lh_pieces (lh nodes : list dig) x lh' :
  pop lh = (x, lh') ->
  exists pcs, lh = lh_of pcs ++ lh' /\ nodes = nodes_of pcs ++ nodes /\ res_ok x pcs /\ nodes_of pcs = [].
Proof.
  destruct lh as [|h t]; cbn [pop]; intros H; inversion H; subst.
  - exists []. cbn. auto.
  - exists [(true, h)]. cbn. repeat split; auto.
    + destruct h; cbn; rewrite ?app_nil_r; reflexivity.
    + constructor; [apply subt_refl|constructor].
Qed.

Lemma pop_node_pieces (lh nodes : list dig) x n' :
  pop nodes = (x, n') ->
  exists pcs, lh = lh_of pcs ++ lh /\ nodes = nodes_of pcs ++ n' /\ res_ok x pcs.
Proof.
  destruct nodes as [|h t]; cbn [pop]; intros H; inversion H; subst.
  - exists []. cbn. auto.
  - exists [(false, h)]. cbn. repeat split; auto.
    + destruct h; cbn; rewrite ?app_nil_r; reflexivity.
    + constructor; [apply subt_refl|constructor].
Qed.

Lemma Forall_subt_weaken (pcs : list piece) t t' :
  subt t t' -> Forall (fun p => subt (snd p) t) pcs -> Forall (fun p => subt (snd p) t') pcs.
Proof. intros Ht H. eapply Forall_impl; [|exact H]. intros a Ha. cbn beta in *. exact (subt_trans _ _ _ Ha Ht). Qed.

Lemma go_pieces d : forall start ps pe lh nodes r lh' n',
  go d start ps pe lh nodes = Some (r, lh', n') ->
  exists pcs, lh = lh_of pcs ++ lh' /\ nodes = nodes_of pcs ++ n' /\ res_ok r pcs.
Proof.
  induction d as [|d IH]; intros start ps pe lh nodes r lh' n' H.
  - cbn [go] in H. destruct (inr ps pe start).
    + destruct (pop lh) as [x l0] eqn:EP. injection H as E1 E2 E3; subst r lh' n'.
      destruct (pop_lh_pieces lh nodes x l0 EP) as [pcs [H1 [_ [H3 H4]]]].
      exists pcs. rewrite H4. auto.
    + destruct (pop nodes) as [x l0] eqn:EP. injection H as E1 E2 E3; subst r lh' n'.
      destruct (pop_node_pieces lh nodes x l0 EP) as [pcs [H1 [H2 H3]]]. exists pcs. auto.
  - cbn [go] in H. destruct (noov ps pe start (2 ^ S d)).
    + destruct (pop nodes) as [x l0] eqn:EP. injection H as E1 E2 E3; subst r lh' n'.
      destruct (pop_node_pieces lh nodes x l0 EP) as [pcs [H1 [H2 H3]]]. exists pcs. auto.
    + destruct (go d start ps pe lh nodes) as [[[l lh1] n1]|] eqn:GL; [|discriminate].
      destruct (go d (start + 2 ^ d) ps pe lh1 n1) as [[[rr lh2] n2]|] eqn:GR; [|discriminate].
      destruct (IH _ _ _ _ _ _ _ _ GL) as [p1 [A1 [B1 C1]]].
      destruct (IH _ _ _ _ _ _ _ _ GR) as [p2 [A2 [B2 C2]]].
      exists (p1 ++ p2). rewrite lh_of_app, nodes_of_app, <- !app_assoc.
      destruct rr as [r0|].
      * destruct l as [l0|]; [|discriminate]. destruct (hash_node l0 r0) as [tt|] eqn:HN; [|discriminate].
        apply hash_node_mknode in HN. inversion H; subst r lh2 n2 tt.
        split; [rewrite A1, A2; reflexivity|]. split; [rewrite B1, B2; reflexivity|].
        cbn [res_ok] in *. destruct C1 as [C1 D1]. destruct C2 as [C2 D2]. split.
        -- rewrite leaves_of_mknode, flat_app, C1, C2. reflexivity.
        -- apply Forall_app. split;
             [apply (Forall_subt_weaken p1 l0 _ (subt_mknode_l l0 r0) D1)
             |apply (Forall_subt_weaken p2 r0 _ (subt_mknode_r l0 r0) D2)].
      * inversion H; subst l lh2 n2. cbn [res_ok] in C2. subst p2. rewrite !app_nil_r in *. cbn in A2, B2.
        subst lh1 n1. auto.
Qed.

Lemma fold_nodes_pieces rest : forall t0 T,
  fold_nodes t0 rest = Some T ->
  leaves_of T = leaves_of t0 ++ flat_map leaves_of rest /\ subt t0 T /\ Forall (fun n => subt n T) rest.
Proof.
  induction rest as [|n rest IH]; intros t0 T H; cbn [fold_nodes] in H.
  - inversion H; subst. cbn. rewrite app_nil_r. auto using subt_refl.
  - destruct (hash_node t0 n) as [t1|] eqn:HN; [|discriminate]. apply hash_node_mknode in HN. subst t1.
    destruct (IH _ _ H) as [A [B C]]. cbn [flat_map]. rewrite A, leaves_of_mknode, <- app_assoc.
    split; [reflexivity|]. split; [eapply subt_trans; [apply subt_mknode_l|exact B]|].
    constructor; [eapply subt_trans; [apply subt_mknode_r|exact B]|exact C].
Qed.

(** the covering lemma *)
Theorem compute_root_covers p lh T :
  p_start p < p_end p -> length lh = p_end p - p_start p ->
  compute_root p lh = Some T ->
  exists pcs, lh = lh_of pcs /\ p_nodes p = nodes_of pcs /\
              leaves_of T = flat pcs /\ Forall (fun pc => subt (snd pc) T) pcs.
Proof.
  unfold compute_root. intros Hse Hlen H.
  destruct (go (Nat.log2_up (p_end p)) 0 (p_start p) (p_end p) lh (p_nodes p)) as [[[[t0|] lh'] rest]|] eqn:G; try discriminate.
  destruct (go_pieces _ _ _ _ _ _ _ _ _ G) as [pcs [A [B [C D]]]].
  destruct (fold_nodes_pieces _ _ _ H) as [E [F K]].
  (* every leaf hash is consumed *)
  destruct (log2_up_est (p_end p) ltac:(lia)) as [E1 _].
  assert (Hcnt : cnt (p_start p) (p_end p) 0 (2 ^ Nat.log2_up (p_end p)) = p_end p - p_start p) by (unfold cnt; lia).
  destruct (go_count _ _ _ _ _ _ _ _ _ G) as [Hq _]; [lia|].
  assert (lh' = []) by (destruct lh'; [reflexivity|cbn in Hq; lia]). subst lh'. rewrite app_nil_r in A.
  exists (pcs ++ map (fun n => (false, n)) rest).
  assert (L1 : forall xs : list dig, lh_of (map (fun n : dig => (false, n)) xs) = [])
    by (induction xs as [|x xs IHx]; [reflexivity|exact IHx]).
  assert (L2 : forall xs : list dig, nodes_of (map (fun n : dig => (false, n)) xs) = xs)
    by (induction xs as [|x xs IHx]; [reflexivity|cbn; f_equal; exact IHx]).
  assert (L3 : forall xs : list dig, flat (map (fun n : dig => (false, n)) xs) = flat_map leaves_of xs)
    by (induction xs as [|x xs IHx]; [reflexivity|cbn; f_equal; exact IHx]).
  rewrite lh_of_app, nodes_of_app, flat_app, L1, L2, L3, app_nil_r.
  repeat split; auto.
  - rewrite E, C. reflexivity.
  - apply Forall_app. split; [eapply Forall_subt_weaken; eauto|].
    apply Forall_forall. intros pc Hin. apply in_map_iff in Hin as [n [<- Hn]]. cbn.
    rewrite Forall_forall in K. apply K, Hn.
Qed.

(** ** Well-formed trees: every inner digest is what HashNode computes from its children *)
Fixpoint valid (t : dig) : Prop :=
  match t with
  | DLeaf mn mx p _ _ => mn = p /\ mx = p
  | DNode mn mx l r => valid l /\ valid r /\ hash_node l r = Some t
  | _ => False
  end.

Lemma valid_subt x t : valid t -> subt x t -> valid x.
Proof.
  induction t as [| mn mx l IHl r IHr | |]; intros Hv Hs; cbn in Hs.
  - destruct Hs as [->|[]]. exact Hv.
  - destruct Hs as [->|[H|H]]; [exact Hv| |]; cbn in Hv; destruct Hv as [Hl [Hr _]]; auto.
  - destruct Hs as [->|[]]. exact Hv.
  - destruct Hs as [->|[]]. exact Hv.
Qed.

Definition leaf_prefix (d : dig) : option N := match d with DLeaf _ _ p _ _ => Some p | _ => None end.

(** a well-formed subtree containing a leaf of a data namespace has that namespace within its [min,max] *)
Lemma valid_range t : valid t -> forall nid lf, (nid < maxns)%N -> In lf (leaves_of t) -> leaf_prefix lf = Some nid ->
  (dmin t <= nid <= dmax t)%N.
Proof.
  induction t as [mn mx p sn sid | mn mx l IHl r IHr | |]; intros Hv nid lf Hn Hin Hp; cbn in Hv; try contradiction.
  - cbn in Hin. destruct Hin as [<-|[]]. cbn in Hp. inversion Hp; subst. destruct Hv as [-> ->]. cbn. lia.
  - destruct Hv as [Hl [Hr Hh]]. unfold hash_node in Hh.
    destruct (fmt_ok l && fmt_ok r && (dmax l <=? dmin r)%N) eqn:E; [|discriminate].
    apply andb_true_iff in E as [E E3]. apply andb_true_iff in E as [E1 E2]. apply N.leb_le in E3.
    assert (F1 : (dmin l <= dmax l)%N) by (destruct l; cbn in E1; try discriminate; apply N.leb_le in E1; exact E1).
    assert (F2 : (dmin r <= dmax r)%N) by (destruct r; cbn in E2; try discriminate; apply N.leb_le in E2; exact E2).
    unfold mknode in Hh. inversion Hh as [[Hmn Hmx]]. cbn [dmin dmax]. cbn [leaves_of] in Hin.
    apply in_app_or in Hin as [Hin|Hin].
    + specialize (IHl Hl nid lf Hn Hin Hp). rewrite Hmn.
      destruct (dmin r =? maxns)%N eqn:Em; lia.
    + specialize (IHr Hr nid lf Hn Hin Hp). rewrite Hmn.
      destruct (dmin r =? maxns)%N eqn:Em; [apply N.eqb_eq in Em; lia|lia].
Qed.

Lemma dig_eqb_eq x y : dig_eqb x y = true -> x = y.
Proof.
  revert y; induction x as [a b c d e | a b l IHl r IHr | a b c |]; intros [a' b' c' d' e' | a' b' l' r' | a' b' c' |]; cbn; intros H; try discriminate.
  - repeat (apply andb_true_iff in H as [H ?]). repeat match goal with E : (_ =? _)%N = true |- _ => apply N.eqb_eq in E end. subst. reflexivity.
  - repeat (apply andb_true_iff in H as [H ?]). repeat match goal with E : (_ =? _)%N = true |- _ => apply N.eqb_eq in E end.
    subst. f_equal; auto.
  - repeat (apply andb_true_iff in H as [H ?]). repeat match goal with E : (_ =? _)%N = true |- _ => apply N.eqb_eq in E end. subst. reflexivity.
  - reflexivity.
Qed.

Lemma dig_eqb_refl x : dig_eqb x x = true.
Proof. induction x; cbn; rewrite ?N.eqb_refl, ?IHx1, ?IHx2; reflexivity. Qed.

Lemma leaves_of_tree D X : Forall leafk X -> length X = 2 ^ D -> leaves_of (tree D X) = X.
Proof.
  revert X; induction D as [|D IH]; intros X HF HL.
  - destruct X as [|x [|? ?]]; cbn in HL; try discriminate. inversion HF; subst. destruct x; cbn in *; try contradiction. reflexivity.
  - cbn [tree]. rewrite leaves_of_mknode. pose proof (pow_pos D). cbn [Nat.pow] in HL.
    rewrite !IH.
    + apply firstn_skipn.
    + rewrite <- (firstn_skipn (2 ^ D) X) in HF. apply Forall_app in HF. tauto.
    + rewrite skipn_length. lia.
    + rewrite <- (firstn_skipn (2 ^ D) X) in HF. apply Forall_app in HF. tauto.
    + rewrite firstn_length. lia.
Qed.

(** completeness check: every node is tested on one side or the other *)
Lemma left_split_parts fuel : forall i s nodes ls rs,
  left_split fuel i s nodes = Some (ls, rs) -> nodes = ls ++ rs.
Proof.
  induction fuel as [|fuel IH]; intros i s nodes ls rs H; cbn [left_split] in H.
  - destruct (Nat.eqb i s); inversion H; reflexivity.
  - destruct (Nat.eqb i s); [inversion H; reflexivity|].
    destruct nodes as [|n nodes']; [discriminate|].
    destruct (left_split fuel (i + next_size i s) s nodes') as [[ls' rs']|] eqn:E; [|discriminate].
    inversion H; subst. cbn. f_equal. eapply IH; eauto.
Qed.

Definition excludes (nid : N) (n : dig) : Prop := (dmax n < nid)%N \/ (nid < dmin n)%N.

Lemma completeness_excludes p nid :
  validate_completeness p nid = true -> Forall (excludes nid) (p_nodes p).
Proof.
  unfold validate_completeness. destruct (left_split _ _ _ _) as [[ls rs]|] eqn:E; [|discriminate].
  intros H. apply andb_true_iff in H as [H1 H2]. rewrite (left_split_parts _ _ _ _ _ _ E).
  apply Forall_app. split; apply Forall_forall; intros n Hn.
  - rewrite forallb_forall in H1. left. apply N.ltb_lt, H1, Hn.
  - rewrite forallb_forall in H2. right. apply N.ltb_lt, H2, Hn.
Qed.

Definition has_prefix (nid : N) (d : dig) : bool :=
  match leaf_prefix d with Some p => (p =? nid)%N | None => false end.

Lemma filter_flat_nodes nid T (pcs : list piece) :
  valid T -> (nid < maxns)%N ->
  Forall (fun pc => subt (snd pc) T) pcs ->
  Forall (fun pc => fst pc = true -> has_prefix nid (snd pc) = true /\ leafk (snd pc)) pcs ->
  Forall (fun pc => fst pc = false -> excludes nid (snd pc)) pcs ->
  filter (has_prefix nid) (flat pcs) = lh_of pcs.
Proof.
  intros Hv Hn. induction pcs as [|[b n] pcs IH]; intros Hs Hl He; [reflexivity|].
  inversion Hs as [|? ? Hs1 Hs2]; subst. inversion Hl as [|? ? Hl1 Hl2]; subst. inversion He as [|? ? He1 He2]; subst.
  cbn [flat flat_map snd]. rewrite filter_app. fold (flat pcs). rewrite (IH Hs2 Hl2 He2). cbn in Hs1, Hl1, He1.
  destruct b.
  - destruct (Hl1 eq_refl) as [Hp Hk]. destruct n; cbn in Hk; try contradiction.
    cbn [leaves_of filter]. rewrite Hp. reflexivity.
  - specialize (He1 eq_refl).
    assert (Hnone : filter (has_prefix nid) (leaves_of n) = []).
    { pose proof (valid_subt _ _ Hv Hs1) as Hvn.
      destruct (filter (has_prefix nid) (leaves_of n)) as [|x xs] eqn:EF; [reflexivity|exfalso].
      assert (Hx : In x (filter (has_prefix nid) (leaves_of n))) by (rewrite EF; left; reflexivity).
      apply filter_In in Hx as [Hx1 Hx2]. unfold has_prefix in Hx2.
      destruct (leaf_prefix x) as [q|] eqn:Eq; [|discriminate]. apply N.eqb_eq in Hx2. subst q.
      pose proof (valid_range n Hvn nid x Hn Hx1 Eq) as R. destruct He1; lia. }
    rewrite Hnone. reflexivity.
Qed.

(** ** The completeness theorem.  [X]: the 2^D honest leaf digests of a row, [root] its well-formed root.
    If [VerifyLeafHashes] with completeness accepts leaf hashes [lh] that are genuine leaf hashes of namespace [nid]
    (what [ComputeAndValidateLeafHashes] produces), then [lh] is *exactly* the sub-list of all leaves of [X] with namespace
    [nid], in order. *)
Theorem verify_leaf_hashes_complete D X p nid lh :
  Forall leafk X -> length X = 2 ^ D -> valid (tree D X) -> (nid < maxns)%N ->
  Forall (fun d => leafk d /\ has_prefix nid d = true) lh ->
  verify_leaf_hashes p true nid lh (tree D X) = true ->
  lh = filter (has_prefix nid) X.
Proof.
  intros HF HL Hv Hn Hlh H. unfold verify_leaf_hashes in H.
  apply andb_true_iff in H as [H Hc]. apply andb_true_iff in H as [H Hcomp]. apply andb_true_iff in H as [H _].
  apply andb_true_iff in H as [Hst _]. cbn [negb orb] in Hcomp.
  destruct (compute_root p lh) as [r|] eqn:CR; [|discriminate]. apply dig_eqb_eq in Hc. subst r.
  unfold validate_structure in Hst.
  apply andb_true_iff in Hst as [Hst _]. apply andb_true_iff in Hst as [Hst _]. apply andb_true_iff in Hst as [Hst _].
  apply andb_true_iff in Hst as [Hse Hlen]. apply Nat.ltb_lt in Hse. apply Nat.eqb_eq in Hlen.
  destruct (compute_root_covers _ _ _ Hse Hlen CR) as [pcs [A [B [C Dd]]]].
  rewrite (leaves_of_tree D X HF HL) in C.
  pose proof (completeness_excludes _ _ Hcomp) as Hex. rewrite B in Hex.
  assert (Hl : Forall (fun pc : piece => fst pc = true -> has_prefix nid (snd pc) = true /\ leafk (snd pc)) pcs).
  { apply Forall_forall. intros [b n] Hin Hb. cbn in *. subst b.
    assert (In n (lh_of pcs)).
    { unfold lh_of. apply in_map_iff. exists (true, n). split; [reflexivity|]. apply filter_In. split; [exact Hin|reflexivity]. }
    rewrite Forall_forall in Hlh. destruct (Hlh n) as [K1 K2]; [rewrite A; assumption|]. split; assumption. }
  assert (He : Forall (fun pc : piece => fst pc = false -> excludes nid (snd pc)) pcs).
  { apply Forall_forall. intros [b n] Hin Hb. cbn in *. subst b.
    rewrite Forall_forall in Hex. apply Hex. unfold nodes_of. apply in_map_iff. exists (false, n). split; [reflexivity|].
    apply filter_In. split; [exact Hin|reflexivity]. }
  pose proof (filter_flat_nodes nid _ pcs Hv Hn Dd Hl He) as K. rewrite <- C in K.
  rewrite A. symmetry. exact K.
Qed.

(** ** Absence: if every consumed piece excludes the namespace, the tree holds no leaf of it *)
Lemma excluded_no_leaf nid T n :
  valid T -> (nid < maxns)%N -> subt n T -> excludes nid n -> filter (has_prefix nid) (leaves_of n) = [].
Proof.
  intros Hv Hn Hs He. pose proof (valid_subt _ _ Hv Hs) as Hvn.
  destruct (filter (has_prefix nid) (leaves_of n)) as [|x xs] eqn:EF; [reflexivity|exfalso].
  assert (Hx : In x (filter (has_prefix nid) (leaves_of n))) by (rewrite EF; left; reflexivity).
  apply filter_In in Hx as [Hx1 Hx2]. unfold has_prefix in Hx2.
  destruct (leaf_prefix x) as [q|] eqn:Eq; [|discriminate]. apply N.eqb_eq in Hx2. subst q.
  pose proof (valid_range n Hvn nid x Hn Hx1 Eq) as R. destruct He; lia.
Qed.

Lemma filter_flat_excluded nid T (pcs : list piece) :
  valid T -> (nid < maxns)%N ->
  Forall (fun pc => subt (snd pc) T) pcs -> Forall (fun pc => excludes nid (snd pc)) pcs ->
  filter (has_prefix nid) (flat pcs) = [].
Proof.
  intros Hv Hn. induction pcs as [|[b n] pcs IH]; intros Hs He; [reflexivity|].
  inversion Hs; subst. inversion He; subst. cbn [flat flat_map snd]. rewrite filter_app. fold (flat pcs).
  rewrite IH by assumption. cbn in *. rewrite (excluded_no_leaf nid T n) by assumption. reflexivity.
Qed.

Theorem verify_leaf_hashes_absent D X p nid lf :
  Forall leafk X -> length X = 2 ^ D -> valid (tree D X) -> (nid < maxns)%N ->
  p_leaf p = Some lf ->
  verify_leaf_hashes p true nid [lf] (tree D X) = true ->
  filter (has_prefix nid) X = [].
Proof.
  intros HF HL Hv Hn Hlf H. unfold verify_leaf_hashes in H.
  apply andb_true_iff in H as [H Hc]. apply andb_true_iff in H as [H Hcomp]. apply andb_true_iff in H as [H _].
  apply andb_true_iff in H as [Hst _]. cbn [negb orb] in Hcomp.
  destruct (compute_root p [lf]) as [r|] eqn:CR; [|discriminate]. apply dig_eqb_eq in Hc. subst r.
  unfold validate_structure in Hst. rewrite Hlf in Hst.
  apply andb_true_iff in Hst as [Hst _]. apply andb_true_iff in Hst as [Hst _]. apply andb_true_iff in Hst as [Hst Hleaf].
  apply andb_true_iff in Hst as [Hse Hlen]. apply Nat.ltb_lt in Hse. apply Nat.eqb_eq in Hlen.
  apply andb_true_iff in Hleaf as [_ Hlt]. apply N.ltb_lt in Hlt.
  destruct (compute_root_covers _ _ _ Hse Hlen CR) as [pcs [A [B [C Dd]]]].
  rewrite (leaves_of_tree D X HF HL) in C. rewrite C.
  pose proof (completeness_excludes _ _ Hcomp) as Hex. rewrite B in Hex.
  apply (filter_flat_excluded nid (tree D X)); try assumption.
  apply Forall_forall. intros [b n] Hin. cbn. destruct b.
  - assert (In n (lh_of pcs)).
    { unfold lh_of. apply in_map_iff. exists (true, n). split; [reflexivity|]. apply filter_In. split; [exact Hin|reflexivity]. }
    rewrite <- A in H. destruct H as [<-|[]]. right. exact Hlt.
  - rewrite Forall_forall in Hex. apply Hex. unfold nodes_of. apply in_map_iff. exists (false, n). split; [reflexivity|].
    apply filter_In. split; [exact Hin|reflexivity].
Qed.

(** ** Boolean well-formedness (evaluated on the symbolised roots of real squares by the harness) *)
Fixpoint validb (t : dig) : bool :=
  match t with
  | DLeaf mn mx p _ _ => (mn =? p)%N && (mx =? p)%N
  | DNode mn mx l r => validb l && validb r &&
                       match hash_node l r with Some t' => dig_eqb t' t | None => false end
  | _ => false
  end.

Lemma validb_valid t : validb t = true -> valid t.
Proof.
  induction t as [mn mx p sn sid | mn mx l IHl r IHr | |]; cbn; intros H; try discriminate.
  - apply andb_true_iff in H as [A B]. apply N.eqb_eq in A. apply N.eqb_eq in B. auto.
  - apply andb_true_iff in H as [H C]. apply andb_true_iff in H as [A B].
    destruct (hash_node l r) as [t'|] eqn:E; [|discriminate]. apply dig_eqb_eq in C. subst t'. auto.
Qed.

(** Labelled transition systems as a step function folded over an event list: every reachable state is
    [run step init es] for some [es]; invariants are lifted from one step to all reachable states. *)
From Coq Require Import List.
Import ListNotations.

Section Lts.
  Context {S E : Type} (step : S -> E -> S).

  Definition run (s : S) (es : list E) : S := fold_left step es s.

  Lemma run_nil s : run s [] = s. Proof. reflexivity. Qed.
  Lemma run_cons s e es : run s (e :: es) = run (step s e) es. Proof. reflexivity. Qed.
  Lemma run_app s es es' : run s (es ++ es') = run (run s es) es'.
  Proof. unfold run. apply fold_left_app. Qed.
  Lemma run_snoc s es e : run s (es ++ [e]) = step (run s es) e.
  Proof. rewrite run_app. reflexivity. Qed.

  (** one-step preservation gives the invariant in every reachable state *)
  Lemma run_inv (Inv : S -> Prop) :
    (forall s e, Inv s -> Inv (step s e)) -> forall es s, Inv s -> Inv (run s es).
  Proof.
    intros Hstep es. induction es as [|e es IH]; intros s Hs; [exact Hs|].
    rewrite run_cons. apply IH, Hstep, Hs.
  Qed.

  (** invariant relative to a restricted event alphabet *)
  Lemma run_inv_on (Inv : S -> Prop) (Ok : E -> Prop) :
    (forall s e, Ok e -> Inv s -> Inv (step s e)) -> forall es s, Forall Ok es -> Inv s -> Inv (run s es).
  Proof.
    intros Hstep es. induction es as [|e es IH]; intros s Hok Hs; [exact Hs|].
    inversion Hok; subst. rewrite run_cons. apply IH; [assumption|]. apply Hstep; assumption.
  Qed.

  (** a relation between consecutive states holds along the whole run (e.g. monotonicity) *)
  Lemma run_rel (R : S -> S -> Prop) :
    (forall s, R s s) -> (forall x y z, R x y -> R y z -> R x z) ->
    (forall s e, R s (step s e)) -> forall es s, R s (run s es).
  Proof.
    intros Hrefl Htrans Hstep es. induction es as [|e es IH]; intros s; [apply Hrefl|].
    rewrite run_cons. eapply Htrans; [apply Hstep|apply IH].
  Qed.
End Lts.

(** Fixed-width big-endian integers over byte lists ([list Z], each byte in [0,256)).
    Models encoding/binary.BigEndian.{AppendUintNN,UintNN} *including* the truncation a Go conversion
    [uintNN(x)] performs on a wider value: [be w x] keeps [x mod 2^(8w)]. *)
From Coq Require Import List ZArith Lia Bool.
Import ListNotations.
Open Scope Z_scope.

Definition byte_ok (b : Z) : bool := (0 <=? b) && (b <? 256).
Definition bytes_ok (bs : list Z) : bool := forallb byte_ok bs.

(** [be w x]: the [w] low-order bytes of [x], most significant first. *)
Fixpoint be (w : nat) (x : Z) : list Z :=
  match w with
  | O => []
  | S w' => be w' (x / 256) ++ [x mod 256]
  end.

Fixpoint unbe_acc (acc : Z) (bs : list Z) : Z :=
  match bs with
  | [] => acc
  | b :: bs' => unbe_acc (acc * 256 + b) bs'
  end.
Definition unbe (bs : list Z) : Z := unbe_acc 0 bs.

Lemma be_length w x : length (be w x) = w.
Proof. revert x; induction w as [|w IH]; intros x; cbn [be]; [reflexivity|]. rewrite app_length, IH; cbn; lia. Qed.

Lemma unbe_acc_app acc a b : unbe_acc acc (a ++ b) = unbe_acc (unbe_acc acc a) b.
Proof. revert acc; induction a as [|x a IH]; intros acc; cbn; [reflexivity|apply IH]. Qed.

Lemma unbe_acc_shift acc bs : unbe_acc acc bs = acc * 256 ^ Z.of_nat (length bs) + unbe_acc 0 bs.
Proof.
  revert acc; induction bs as [|b bs IH]; intros acc.
  - cbn. lia.
  - cbn [unbe_acc length]. rewrite IH. rewrite (IH (0 * 256 + b)).
    rewrite Nat2Z.inj_succ, Z.pow_succ_r by lia. lia.
Qed.

Lemma unbe_be w x : unbe (be w x) = x mod 256 ^ Z.of_nat w.
Proof.
  unfold unbe. revert x; induction w as [|w IH]; intros x.
  - cbn. rewrite Z.mod_1_r. reflexivity.
  - cbn [be]. rewrite unbe_acc_app, IH. cbn [unbe_acc].
    rewrite Nat2Z.inj_succ, Z.pow_succ_r by lia.
    assert (Hp : 0 < 256 ^ Z.of_nat w) by (apply Z.pow_pos_nonneg; lia).
    rewrite Z.rem_mul_r by lia. lia.
Qed.

Lemma be_bytes_ok w x : bytes_ok (be w x) = true.
Proof.
  revert x; induction w as [|w IH]; intros x; cbn [be]; [reflexivity|].
  unfold bytes_ok in *. rewrite forallb_app, IH. cbn. unfold byte_ok.
  pose proof (Z.mod_pos_bound x 256 ltac:(lia)).
  destruct (0 <=? x mod 256) eqn:E1, (x mod 256 <? 256) eqn:E2; cbn; try reflexivity; lia.
Qed.

Lemma unbe_acc_range bs : bytes_ok bs = true -> 0 <= unbe_acc 0 bs < 256 ^ Z.of_nat (length bs).
Proof.
  induction bs as [|b bs IH] using rev_ind; intros H.
  - cbn. lia.
  - unfold bytes_ok in H. rewrite forallb_app in H. apply andb_true_iff in H as [H1 H2].
    specialize (IH H1). rewrite unbe_acc_app. cbn [unbe_acc].
    cbn in H2. rewrite andb_true_r in H2. unfold byte_ok in H2. apply andb_true_iff in H2 as [Hb1 Hb2].
    rewrite app_length. cbn [length]. rewrite Nat.add_1_r, Nat2Z.inj_succ, Z.pow_succ_r by lia. lia.
Qed.

Lemma unbe_range bs : bytes_ok bs = true -> 0 <= unbe bs < 256 ^ Z.of_nat (length bs).
Proof. apply unbe_acc_range. Qed.

(** canonical: decoding then re-encoding with the same width gives the same bytes *)
Lemma be_unbe bs : bytes_ok bs = true -> be (length bs) (unbe bs) = bs.
Proof.
  unfold unbe. induction bs as [|b bs IH] using rev_ind; intros H; [reflexivity|].
  unfold bytes_ok in H. rewrite forallb_app in H. apply andb_true_iff in H as [H1 H2].
  cbn in H2. rewrite andb_true_r in H2. unfold byte_ok in H2. apply andb_true_iff in H2 as [Hb1 Hb2].
  rewrite app_length. cbn [length]. rewrite Nat.add_1_r. cbn [be].
  rewrite unbe_acc_app. cbn [unbe_acc].
  assert (Hd : (unbe_acc 0 bs * 256 + b) / 256 = unbe_acc 0 bs)
    by (rewrite Z.div_add_l by lia; rewrite Z.div_small by lia; lia).
  assert (Hm : (unbe_acc 0 bs * 256 + b) mod 256 = b)
    by (rewrite Z.add_comm, Z.mod_add by lia; apply Z.mod_small; lia).
  rewrite Hd, Hm.
  rewrite IH by exact H1. reflexivity.
Qed.

Lemma be_small w x : 0 <= x < 256 ^ Z.of_nat w -> unbe (be w x) = x.
Proof. intros H. rewrite unbe_be. apply Z.mod_small. exact H. Qed.

Lemma firstn_app_exact {A} (a b : list A) n : length a = n -> firstn n (a ++ b) = a.
Proof. intros <-. rewrite firstn_app, Nat.sub_diag, firstn_all. cbn. apply app_nil_r. Qed.

Lemma skipn_app_exact {A} (a b : list A) n : length a = n -> skipn n (a ++ b) = b.
Proof. intros <-. rewrite skipn_app, Nat.sub_diag, skipn_all. reflexivity. Qed.

Lemma skipn_skipn_add {A} (l : list A) m n : skipn n (skipn m l) = skipn (m + n) l.
Proof.
  revert l; induction m as [|m IH]; intros l; [reflexivity|].
  destruct l as [|x l]; [cbn; destruct n; reflexivity|]. cbn [skipn Nat.add]. apply IH.
Qed.

Lemma bytes_ok_app a b : bytes_ok (a ++ b) = bytes_ok a && bytes_ok b.
Proof. apply forallb_app. Qed.

Lemma bytes_ok_firstn n bs : bytes_ok bs = true -> bytes_ok (firstn n bs) = true.
Proof.
  intros H. rewrite <- (firstn_skipn n bs) in H. rewrite bytes_ok_app in H.
  apply andb_true_iff in H. tauto.
Qed.

Lemma bytes_ok_skipn n bs : bytes_ok bs = true -> bytes_ok (skipn n bs) = true.
Proof.
  intros H. rewrite <- (firstn_skipn n bs) in H. rewrite bytes_ok_app in H.
  apply andb_true_iff in H. tauto.
Qed.

Fixpoint list_eqb (a b : list Z) : bool :=
  match a, b with
  | [], [] => true
  | x :: a', y :: b' => (x =? y) && list_eqb a' b'
  | _, _ => false
  end.

Lemma list_eqb_eq a b : list_eqb a b = true <-> a = b.
Proof.
  revert b; induction a as [|x a IH]; intros [|y b]; cbn; split; intros H; try congruence; try discriminate.
  - apply andb_true_iff in H as [H1 H2]. apply Z.eqb_eq in H1. apply IH in H2. congruence.
  - inversion H; subst. rewrite Z.eqb_refl. cbn. apply IH. reflexivity.
Qed.

(** Completeness direction: the proof the honest prover produces for a range of a well-formed tree is accepted by the
    verifier model, for every depth and every range (used by the "an honest server's reply is accepted" properties). *)
From Coq Require Import List Arith NArith Lia Bool.
From CN Require Import Base.Nmt Base.NmtProofs Base.NmtComplete.
Import ListNotations.

Lemma valid_tree_S d L :
  valid (tree (S d) L) ->
  valid (tree d (firstn (2 ^ d) L)) /\ valid (tree d (skipn (2 ^ d) L)) /\
  hash_node (tree d (firstn (2 ^ d) L)) (tree d (skipn (2 ^ d) L)) = Some (tree (S d) L).
Proof. cbn [tree]. unfold mknode at 1. cbn [valid]. intros [A [B C]]. auto. Qed.

(** the elements of [L] (whose first element has absolute index [start]) that lie in [ps, pe) *)
Fixpoint sel (start ps pe : nat) (L : list dig) : list dig :=
  match L with
  | [] => []
  | x :: t => if inr ps pe start then x :: sel (S start) ps pe t else sel (S start) ps pe t
  end.

Lemma sel_app start ps pe A B : sel start ps pe (A ++ B) = sel start ps pe A ++ sel (start + length A) ps pe B.
Proof.
  revert start; induction A as [|x A IH]; intros start; cbn [app sel length].
  - rewrite Nat.add_0_r. reflexivity.
  - rewrite IH. replace (S start + length A) with (start + S (length A)) by lia.
    destruct (inr ps pe start); reflexivity.
Qed.

Lemma sel_none start ps pe L : pe <= start \/ start + length L <= ps -> sel start ps pe L = [].
Proof.
  revert start; induction L as [|x L IH]; intros start H; [reflexivity|]. cbn [sel length] in *.
  unfold inr. destruct (Nat.leb_spec ps start); destruct (Nat.ltb_spec start pe); cbn [andb]; try (apply IH; lia).
  exfalso. lia.
Qed.

Lemma sel_split d start ps pe L : length L = 2 ^ S d ->
  sel start ps pe L = sel start ps pe (firstn (2 ^ d) L) ++ sel (start + 2 ^ d) ps pe (skipn (2 ^ d) L).
Proof.
  intros HL. rewrite <- (firstn_skipn (2 ^ d) L) at 1. rewrite sel_app. f_equal. f_equal.
  rewrite firstn_length. cbn [Nat.pow] in HL. pose proof (pow_pos d). lia.
Qed.

Lemma go_prove d : forall start ps pe L lh' n',
  length L = 2 ^ d -> valid (tree d L) ->
  go d start ps pe (sel start ps pe L ++ lh') (prove d start ps pe L ++ n') = Some (Some (tree d L), lh', n').
Proof.
  induction d as [|d IH]; intros start ps pe L lh' n' HL Hv.
  - destruct L as [|x [|? ?]]; cbn in HL; try discriminate. cbn [go prove sel tree hd].
    destruct (inr ps pe start); reflexivity.
  - cbn [go prove]. destruct (noov ps pe start (2 ^ S d)) eqn:EN.
    + rewrite sel_none; [reflexivity|]. unfold noov in EN. apply orb_true_iff in EN.
      destruct EN as [E|E]; apply Nat.leb_le in E; [left; exact E|right; rewrite HL; exact E].
    + destruct (valid_tree_S d L Hv) as [V1 [V2 HN]].
      pose proof (pow_pos d) as Hp. cbn [Nat.pow] in HL.
      assert (L1 : length (firstn (2 ^ d) L) = 2 ^ d) by (rewrite firstn_length; lia).
      assert (L2 : length (skipn (2 ^ d) L) = 2 ^ d) by (rewrite skipn_length; lia).
      rewrite (sel_split d start ps pe L) by (cbn [Nat.pow]; lia). rewrite <- !app_assoc.
      rewrite (IH start ps pe _ _ _ L1 V1).
      rewrite (IH (start + 2 ^ d) ps pe _ _ _ L2 V2).
      rewrite HN. reflexivity.
Qed.

(** above the estimate depth the honest node list is the lower proof followed by the right siblings up the spine *)
Lemma go_prove_top D : forall d ps pe L n',
  d <= D -> length L = 2 ^ D -> valid (tree D L) -> ps < pe -> pe <= 2 ^ d ->
  exists rest, go d 0 ps pe (sel 0 ps pe L) (prove D 0 ps pe L ++ n') = Some (Some (tree d (firstn (2 ^ d) L)), [], rest ++ n') /\
               fold_nodes (tree d (firstn (2 ^ d) L)) rest = Some (tree D L).
Proof.
  induction D as [|D IH]; intros d ps pe L n' Hd HL Hv Hse Hpe.
  - assert (d = 0) by lia. subst d. exists []. cbn [app fold_nodes]. rewrite firstn_all2 by (rewrite HL; cbn; lia).
    split; [|reflexivity]. pose proof (go_prove 0 0 ps pe L [] n' HL Hv) as G. rewrite app_nil_r in G. exact G.
  - destruct (Nat.eq_dec d (S D)) as [->|Hne].
    + exists []. cbn [app fold_nodes]. rewrite firstn_all2 by (rewrite HL; lia).
      split; [|reflexivity]. pose proof (go_prove (S D) 0 ps pe L [] n' HL Hv) as G. rewrite app_nil_r in G. exact G.
    + assert (Hd' : d <= D) by lia.
      destruct (valid_tree_S D L Hv) as [V1 [V2 HN]].
      pose proof (pow_pos D) as Hp. assert (HL' := HL). cbn [Nat.pow] in HL'.
      assert (L1 : length (firstn (2 ^ D) L) = 2 ^ D) by (rewrite firstn_length; lia).
      assert (L2 : length (skipn (2 ^ D) L) = 2 ^ D) by (rewrite skipn_length; lia).
      assert (Hpe' : pe <= 2 ^ D) by (pose proof (Nat.pow_le_mono_r 2 d D ltac:(lia) Hd'); lia).
      (* the honest node list at depth S D *)
      assert (HP : prove (S D) 0 ps pe L = prove D 0 ps pe (firstn (2 ^ D) L) ++ [tree D (skipn (2 ^ D) L)]).
      { cbn [prove]. unfold noov. cbn [Nat.add].
        replace (pe <=? 0) with false by (symmetry; apply Nat.leb_gt; lia).
        replace (2 ^ S D <=? ps) with false by (symmetry; apply Nat.leb_gt; cbn [Nat.pow]; lia). cbn [orb].
        f_equal. destruct D as [|D'].
        - cbn [prove Nat.pow]. unfold inr. cbn [Nat.add].
          replace (1 <? pe) with false by (symmetry; apply Nat.ltb_ge; cbn in Hpe'; lia). rewrite andb_false_r. reflexivity.
        - cbn [prove]. unfold noov. cbn [Nat.add].
          replace (pe <=? 2 ^ S D') with true by (symmetry; apply Nat.leb_le; exact Hpe'). reflexivity. }
      rewrite HP. rewrite <- app_assoc.
      assert (HS : sel 0 ps pe L = sel 0 ps pe (firstn (2 ^ D) L)).
      { rewrite (sel_split D 0 ps pe L HL). rewrite (sel_none (0 + 2 ^ D)) by (left; lia). apply app_nil_r. }
      rewrite HS.
      destruct (IH d ps pe (firstn (2 ^ D) L) ([tree D (skipn (2 ^ D) L)] ++ n') Hd' L1 V1 Hse Hpe) as [rest [G F]].
      exists (rest ++ [tree D (skipn (2 ^ D) L)]). rewrite <- app_assoc.
      rewrite firstn_firstn in G, F. rewrite Nat.min_l in G, F by (apply Nat.pow_le_mono_r; lia).
      split; [exact G|]. rewrite fold_nodes_app, F. cbn [fold_nodes]. rewrite HN. reflexivity.
Qed.

(** ** The honest range proof verifies: [compute_root] of the prover's node list over the range's leaf hashes is the root *)
Theorem prove_compute_root D L ps pe :
  length L = 2 ^ D -> valid (tree D L) -> ps < pe -> pe <= 2 ^ D ->
  compute_root (mkproof ps pe (prove D 0 ps pe L) None) (sel 0 ps pe L) = Some (tree D L).
Proof.
  intros HL Hv Hse Hpe. unfold compute_root. cbn [p_start p_end p_nodes].
  destruct (log2_up_est pe ltac:(lia)) as [E1 E2].
  assert (Hd : Nat.log2_up pe <= D).
  { destruct (Nat.le_gt_cases (Nat.log2_up pe) D) as [|Hgt]; [assumption|exfalso].
    destruct E2 as [E2|E2]; [lia|].
    assert (2 ^ D <= 2 ^ (Nat.log2_up pe - 1)) by (apply Nat.pow_le_mono_r; lia). lia. }
  destruct (go_prove_top D (Nat.log2_up pe) ps pe L [] Hd HL Hv Hse E1) as [rest [G F]].
  rewrite !app_nil_r in G. rewrite G. exact F.
Qed.

(** well-formed digests have the hasher's format, and the prover's nodes are well-formed subtrees *)
Lemma valid_fmt_ok t : valid t -> fmt_ok t = true.
Proof.
  destruct t as [mn mx p sn sid | mn mx l r | |]; cbn; try contradiction.
  - intros [-> ->]. apply N.leb_refl.
  - intros [_ [_ H]]. unfold hash_node in H.
    destruct (fmt_ok l && fmt_ok r && (dmax l <=? dmin r)%N) eqn:E; [|discriminate].
    apply andb_true_iff in E as [E E3]. apply andb_true_iff in E as [E1 E2]. apply N.leb_le in E3.
    assert (F1 : (dmin l <= dmax l)%N) by (destruct l; cbn in E1; try discriminate; apply N.leb_le in E1; exact E1).
    assert (F2 : (dmin r <= dmax r)%N) by (destruct r; cbn in E2; try discriminate; apply N.leb_le in E2; exact E2).
    unfold mknode in H. inversion H as [[Hmn Hmx]]. apply N.leb_le. destruct (dmin r =? maxns)%N; lia.
Qed.

Lemma prove_valid d : forall start ps pe L,
  length L = 2 ^ d -> valid (tree d L) -> Forall valid (prove d start ps pe L).
Proof.
  induction d as [|d IH]; intros start ps pe L HL Hv.
  - destruct L as [|x [|? ?]]; cbn in HL; try discriminate. cbn [prove hd tree] in *.
    destruct (inr ps pe start); [constructor|constructor; [exact Hv|constructor]].
  - cbn [prove]. destruct (noov ps pe start (2 ^ S d)); [constructor; [exact Hv|constructor]|].
    destruct (valid_tree_S d L Hv) as [V1 [V2 _]]. pose proof (pow_pos d). cbn [Nat.pow] in HL.
    apply Forall_app. split; apply IH; auto; [rewrite firstn_length|rewrite skipn_length]; lia.
Qed.

Lemma sel_one L j : j < length L -> sel 0 j (j + 1) L = [nth j L DBad].
Proof.
  assert (G : forall start L j, j < length L -> sel start (start + j) (start + j + 1) L = [nth j L DBad]).
  { clear. intros start L. revert start. induction L as [|x L IH]; intros start j H; cbn in H; [lia|].
    cbn [sel]. unfold inr. destruct j as [|j].
    - rewrite Nat.add_0_r. replace (start <=? start) with true by (symmetry; apply Nat.leb_le; lia).
      replace (start <? start + 1) with true by (symmetry; apply Nat.ltb_lt; lia). cbn [andb nth]. f_equal.
      apply sel_none. left. lia.
    - replace (start + S j <=? start) with false by (symmetry; apply Nat.leb_gt; lia). cbn [andb nth].
      replace (start + S j) with (S start + j) by lia. apply IH. lia. }
  intros H. apply (G 0 L j H).
Qed.

(** ** The honest single-leaf inclusion proof is accepted by [verify_inclusion] *)
Theorem prove_verify_inclusion D L j p sn sid :
  length L = 2 ^ D -> valid (tree D L) -> j < 2 ^ D ->
  nth j L DBad = leaf_hash p sn sid ->
  verify_inclusion (mkproof j (j + 1) (prove D 0 j (j + 1) L) None) p [(sn, sid)] (tree D L) = true.
Proof.
  intros HL Hv Hj Hn. unfold verify_inclusion. cbn [p_start p_end].
  replace (Nat.eqb j (j + 1)) with false by (symmetry; apply Nat.eqb_neq; lia).
  cbn [map fst snd]. unfold verify_leaf_hashes.
  pose proof (prove_compute_root D L j (j + 1) HL Hv ltac:(lia) ltac:(lia)) as CR.
  rewrite (sel_one L j) in CR by lia. rewrite Hn in CR. rewrite CR, dig_eqb_refl.
  rewrite (valid_fmt_ok _ Hv). cbn [is_absence p_leaf negb orb andb].
  unfold validate_structure. cbn [p_start p_end p_leaf p_nodes length forallb].
  replace (j <? j + 1) with true by (symmetry; apply Nat.ltb_lt; lia).
  replace (Nat.eqb 1 (j + 1 - j)) with true by (symmetry; apply Nat.eqb_eq; lia).
  assert (Hn2 : forallb fmt_ok (prove D 0 j (j + 1) L) = true).
  { apply forallb_forall. intros x Hx. apply valid_fmt_ok.
    pose proof (prove_valid D 0 j (j + 1) L HL Hv) as F. rewrite Forall_forall in F. apply F, Hx. }
  rewrite Hn2. unfold validate_namespace, leaf_hash. cbn [forallb dmin dmax fmt_ok]. rewrite !N.eqb_refl, N.leb_refl. reflexivity.
Qed.

(** Executable model of the Namespaced Merkle Tree verifier (celestiaorg/nmt v0.24.3, proof.go / hasher.go) as used
    by celestia-node, over *symbolic digests*.

    A real digest is 90 bytes: min namespace (29) || max namespace (29) || sha256(...).  The model keeps the two
    namespaces as numbers and replaces the sha256 part by the term it is the hash of: SHA-256 is a free, injective
    constructor (two digests are equal iff they were computed from equal inputs).  This is the one cryptographic
    assumption of C01/C02; [DAtom] stands for 32 bytes that are no known hash output.  The harness maps every real
    digest to its term with a dictionary of all hashes computed while building the honest trees.

    No proofs in this file. *)
From Coq Require Import List Arith NArith Lia Bool.
Import ListNotations.

(** namespaces as numbers (29 bytes big-endian; byte-lexicographic order = numeric order) *)
Definition maxns : N := (2 ^ 232 - 1)%N.   (* ParitySharesNamespace = 29 x 0xFF, the hasher's precomputedMaxNs *)

Inductive dig :=
| DLeaf (mn mx : N) (p sn sid : N)   (* mn||mx||sha256(0x00 || p || share) ; p = namespace prefix of the leaf, share = (sn, sid) *)
| DNode (mn mx : N) (l r : dig)      (* mn||mx||sha256(0x01 || l || r) *)
| DAtom (mn mx : N) (a : N)          (* mn||mx||32 unknown bytes *)
| DBad.                              (* a byte string that is not 90 bytes long *)

Definition dmin (d : dig) : N := match d with DLeaf mn _ _ _ _ | DNode mn _ _ _ | DAtom mn _ _ => mn | DBad => 0%N end.
Definition dmax (d : dig) : N := match d with DLeaf _ mx _ _ _ | DNode _ mx _ _ | DAtom _ mx _ => mx | DBad => 0%N end.

Fixpoint dig_eqb (x y : dig) : bool :=
  match x, y with
  | DLeaf a b c d e, DLeaf a' b' c' d' e' => (a =? a')%N && (b =? b')%N && (c =? c')%N && (d =? d')%N && (e =? e')%N
  | DNode a b l r, DNode a' b' l' r' => (a =? a')%N && (b =? b')%N && dig_eqb l l' && dig_eqb r r'
  | DAtom a b c, DAtom a' b' c' => (a =? a')%N && (b =? b')%N && (c =? c')%N
  | DBad, DBad => true
  | _, _ => false
  end.

(** [ValidateNodeFormat]: right length and min <= max *)
Definition fmt_ok (d : dig) : bool := match d with DBad => false | _ => (dmin d <=? dmax d)%N end.

(** [HashLeaf (p || share)] *)
Definition leaf_hash (p sn sid : N) : dig := DLeaf p p p sn sid.

(** [HashNode] with ignoreMaxNamespace = true (the only mode celestia uses) *)
Definition mknode (l r : dig) : dig :=
  DNode (dmin l) (if (dmin r =? maxns)%N then dmax l else dmax r) l r.
Definition hash_node (l r : dig) : option dig :=
  if fmt_ok l && fmt_ok r && (dmax l <=? dmin r)%N then Some (mknode l r) else None.

(** ** The honest tree over [2^d] leaf digests *)
Fixpoint tree (d : nat) (l : list dig) : dig :=
  match d with
  | 0 => hd DBad l
  | S d' => mknode (tree d' (firstn (2 ^ d') l)) (tree d' (skipn (2 ^ d') l))
  end.

(** ** Proofs *)
Record proof := mkproof {
  p_start : nat; p_end : nat;
  p_nodes : list dig;
  p_leaf : option dig;     (* leafHash of an absence proof; None = empty *)
}.
Definition is_absence (p : proof) : bool := match p_leaf p with Some _ => true | None => false end.
Definition is_empty_proof (p : proof) : bool :=
  Nat.eqb (p_start p) (p_end p) && match p_nodes p with [] => true | _ => false end && negb (is_absence p).

Definition pop {A} (l : list A) : option A * list A :=
  match l with [] => (None, []) | x :: t => (Some x, t) end.

Definition inr (ps pe i : nat) : bool := (ps <=? i) && (i <? pe).
Definition noov (ps pe start sz : nat) : bool := (pe <=? start) || (start + sz <=? ps).

(** [computeRoot(start, start + 2^d)]: result None = error; Some (None, ..) = nil (nothing left to pop).
    Leaf hashes and nodes are consumed greedily, left to right. *)
Fixpoint go (d start ps pe : nat) (lh nodes : list dig) : option (option dig * list dig * list dig) :=
  match d with
  | 0 => if inr ps pe start
         then let '(x, lh') := pop lh in Some (x, lh', nodes)
         else let '(x, n') := pop nodes in Some (x, lh, n')
  | S d' =>
    if noov ps pe start (2 ^ d)
    then let '(x, n') := pop nodes in Some (x, lh, n')
    else match go d' start ps pe lh nodes with
         | None => None
         | Some (l, lh1, n1) =>
           match go d' (start + 2 ^ d') ps pe lh1 n1 with
           | None => None
           | Some (r, lh2, n2) =>
             match r with
             | None => Some (l, lh2, n2)                (* only the right child may be missing *)
             | Some rr => match l with
                          | Some ll => match hash_node ll rr with Some t => Some (Some t, lh2, n2) | None => None end
                          | None => None                (* HashNode(nil, right) fails *)
                          end
             end
           end
         end
  end.

Fixpoint fold_nodes (t : dig) (rest : list dig) : option dig :=
  match rest with
  | [] => Some t
  | n :: rest' => match hash_node t n with Some t' => fold_nodes t' rest' | None => None end
  end.

(** [proof.computeRoot]: the estimate is the smallest power of two >= end *)
Definition compute_root (p : proof) (lh : list dig) : option dig :=
  match go (Nat.log2_up (p_end p)) 0 (p_start p) (p_end p) lh (p_nodes p) with
  | Some (Some t0, _, rest) => fold_nodes t0 rest
  | _ => None
  end.

(** [validateProofStructure] *)
Definition validate_structure (p : proof) (nid : N) (lh : list dig) : bool :=
  (p_start p <? p_end p) && Nat.eqb (length lh) (p_end p - p_start p) &&
  match p_leaf p with Some lf => fmt_ok lf && (nid <? dmin lf)%N | None => true end &&
  forallb fmt_ok (p_nodes p) && forallb fmt_ok lh.

(** [validateNamespace] *)
Definition validate_namespace (nid : N) (lh : list dig) : bool :=
  forallb (fun d => (dmin d =? nid)%N && (dmax d =? nid)%N) lh.

(** [nextSubtreeSize i s]: the largest power of two that divides [i] (any, if i = 0) and is at most [s - i] *)
Fixpoint ns_aux (j i : nat) : nat :=
  match j with
  | 0 => 1
  | S j' => if Nat.eqb (i mod 2 ^ j) 0 then 2 ^ j else ns_aux j' i
  end.
Definition next_size (i s : nat) : nat := ns_aux (Nat.log2 (s - i)) i.

(** left traversal of [validateCompleteness]: split the nodes into left subtrees and the rest *)
Fixpoint left_split (fuel i s : nat) (nodes : list dig) : option (list dig * list dig) :=
  if Nat.eqb i s then Some ([], nodes) else
  match fuel with
  | 0 => None
  | S fuel' =>
    match nodes with
    | [] => None     (* "proof nodes insufficient" *)
    | n :: nodes' =>
      match left_split fuel' (i + next_size i s) s nodes' with
      | Some (ls, rs) => Some (n :: ls, rs)
      | None => None
      end
    end
  end.

Definition validate_completeness (p : proof) (nid : N) : bool :=
  match left_split (S (length (p_nodes p))) 0 (p_start p) (p_nodes p) with
  | None => false
  | Some (ls, rs) =>
    forallb (fun n => (dmax n <? nid)%N) ls && forallb (fun n => (nid <? dmin n)%N) rs
  end.

(** [VerifyLeafHashes] *)
Definition verify_leaf_hashes (p : proof) (completeness : bool) (nid : N) (lh : list dig) (root : dig) : bool :=
  validate_structure p nid lh && fmt_ok root &&
  (is_absence p || validate_namespace nid lh) &&
  (negb completeness || validate_completeness p nid) &&
  match compute_root p lh with Some r => dig_eqb r root | None => false end.

Definition empty_root : dig := DAtom 0 0 0.   (* 58 zero bytes || sha256("") *)

Definition valid_empty_range (p : proof) (nid : N) (root : dig) (nleaves : nat) (check_ns : bool) : bool :=
  is_empty_proof p && Nat.eqb nleaves 0 &&
  (negb check_ns || (nid <? dmin root)%N || (dmax root <? nid)%N || dig_eqb root empty_root).

(** [VerifyInclusion(h, nid, leavesWithoutNamespace, root)]: leaves are shares (sn, sid), hashed with prefix nid *)
Definition verify_inclusion (p : proof) (nid : N) (shares : list (N * N)) (root : dig) : bool :=
  if Nat.eqb (p_start p) (p_end p) then valid_empty_range p nid root (length shares) false
  else verify_leaf_hashes p false nid (map (fun s => leaf_hash nid (fst s) (snd s)) shares) root.

(** [VerifyNamespace(h, nid, leaves, root)]: each leaf is (prefix, share); the prefix must be nid *)
Definition verify_namespace (p : proof) (nid : N) (leaves : list (N * (N * N))) (root : dig) : bool :=
  if Nat.eqb (p_start p) (p_end p) then valid_empty_range p nid root (length leaves) true
  else if is_absence p
  then match p_leaf p with Some lf => verify_leaf_hashes p true nid [lf] root | None => false end
  else forallb (fun l => (fst l =? nid)%N) leaves &&
       verify_leaf_hashes p true nid (map (fun l => leaf_hash (fst l) (fst (snd l)) (snd (snd l))) leaves) root.

(** [ComputeRootWithBasicValidation] (range rows) *)
Definition compute_root_basic (p : proof) (nid : N) (lh : list dig) (is_ns : bool) : option dig :=
  if negb (validate_structure p nid lh) then None else
  if is_ns && negb (validate_namespace nid lh && validate_completeness p nid) then None else
  match compute_root p lh with
  | Some r => if fmt_ok r then Some r else None
  | None => None
  end.

(** ** Honest prover: [ProveRange] for a perfect tree (used for completeness-direction theorems and tree cases) *)
Fixpoint prove (d start ps pe : nat) (l : list dig) : list dig :=
  match d with
  | 0 => if inr ps pe start then [] else [hd DBad l]
  | S d' =>
    if noov ps pe start (2 ^ d) then [tree d l]
    else prove d' start ps pe (firstn (2 ^ d') l) ++ prove d' (start + 2 ^ d') ps pe (skipn (2 ^ d') l)
  end.

(** Proofs about Base/Varint.v: round trip through both decoders, byte well-formedness, length facts, rejection of
    over-long encodings, two's-complement conversions. *)
From Coq Require Import List ZArith Lia Bool.
From CN Require Import Base.Bytes Base.Varint.
Import ListNotations.
Open Scope Z_scope.

Lemma two64_eq : two64 = 2 ^ 64. Proof. reflexivity. Qed.
Lemma two63_eq : two63 = 2 ^ 63. Proof. reflexivity. Qed.
Lemma two32_eq : two32 = 2 ^ 32. Proof. reflexivity. Qed.
Lemma two31_eq : two31 = 2 ^ 31. Proof. reflexivity. Qed.

Lemma pow128 n : 0 <= n -> 128 ^ n = 2 ^ (7 * n).
Proof. intros H. rewrite Z.pow_mul_r by lia. reflexivity. Qed.

(** ** the encoder's output *)
Lemma uvarint_enc_fuel_nonempty f v : uvarint_enc_fuel f v <> [].
Proof. destruct f; cbn; [discriminate|]. destruct (v <? 128); discriminate. Qed.

Lemma uvarint_enc_fuel_length f v : (1 <= length (uvarint_enc_fuel f v) <= S f)%nat.
Proof.
  revert v; induction f as [|f IH]; intros v; cbn [uvarint_enc_fuel].
  - cbn. lia.
  - destruct (v <? 128); cbn [length]; [lia|]. specialize (IH (v / 128)). lia.
Qed.

(** at most 10 bytes, at least one *)
Lemma uvarint_enc_length v : (1 <= length (uvarint_enc v) <= 10)%nat.
Proof. apply uvarint_enc_fuel_length. Qed.

Lemma uvarint_enc_fuel_bytes_ok f v : 0 <= v < 128 ^ Z.of_nat (S f) -> bytes_ok (uvarint_enc_fuel f v) = true.
Proof.
  revert v; induction f as [|f IH]; intros v Hv; cbn [uvarint_enc_fuel].
  - cbn in Hv. cbn. unfold byte_ok.
    destruct (0 <=? v) eqn:E1, (v <? 256) eqn:E2; cbn; try reflexivity; lia.
  - destruct (v <? 128) eqn:E.
    + cbn. unfold byte_ok. destruct (0 <=? v) eqn:E1, (v <? 256) eqn:E2; cbn; try reflexivity; lia.
    + cbn [bytes_ok forallb]. fold (bytes_ok (uvarint_enc_fuel f (v / 128))).
      rewrite IH.
      * pose proof (Z.mod_pos_bound v 128 ltac:(lia)). unfold byte_ok.
        destruct (0 <=? v mod 128 + 128) eqn:E1, (v mod 128 + 128 <? 256) eqn:E2; cbn; try reflexivity; lia.
      * rewrite Nat2Z.inj_succ, Z.pow_succ_r in Hv by lia.
        split; [apply Z.div_pos; lia|]. apply Z.div_lt_upper_bound; lia.
Qed.

Lemma uvarint_enc_bytes_ok v : 0 <= v < two64 -> bytes_ok (uvarint_enc v) = true.
Proof.
  intros H. apply uvarint_enc_fuel_bytes_ok. rewrite two64_eq in H.
  change (128 ^ Z.of_nat 10) with (2 ^ 70).
  assert (2 ^ 64 < 2 ^ 70) by (apply Z.pow_lt_mono_r; lia). lia.
Qed.

(** canonical length: [n+1] bytes exactly when [128^n <= v < 128^(n+1)] (one byte below 128) — minimal, as the generated
    Size() functions ([sovShwap]) assume *)
Lemma uvarint_enc_fuel_len f : forall v n, (n <= f)%nat -> 0 <= v < 128 ^ Z.of_nat (S n) -> (n = 0%nat \/ 128 ^ Z.of_nat n <= v) ->
  length (uvarint_enc_fuel f v) = S n.
Proof.
  induction f as [|f IH]; intros v n Hn Hv Hlo.
  - assert (n = 0%nat) by lia. subst. reflexivity.
  - cbn [uvarint_enc_fuel]. destruct (Z.ltb_spec v 128) as [Hlt|Hge].
    + destruct n as [|n]; [reflexivity|]. exfalso. destruct Hlo as [Hlo|Hlo]; [discriminate|].
      rewrite Nat2Z.inj_succ, Z.pow_succ_r in Hlo by lia.
      assert (0 < 128 ^ Z.of_nat n) by (apply Z.pow_pos_nonneg; lia). lia.
    + destruct n as [|n]; [cbn in Hv; lia|]. cbn [length]. f_equal. apply IH; [lia| |].
      * rewrite (Nat2Z.inj_succ (S n)), Z.pow_succ_r in Hv by lia.
        split; [apply Z.div_pos; lia|]. apply Z.div_lt_upper_bound; lia.
      * destruct n as [|n]; [left; reflexivity|right]. destruct Hlo as [Hlo|Hlo]; [discriminate|].
        rewrite (Nat2Z.inj_succ (S n)), Z.pow_succ_r in Hlo by lia.
        apply Z.div_le_lower_bound; lia.
Qed.

Lemma uvarint_enc_len v n : (n <= 9)%nat -> 0 <= v < 128 ^ Z.of_nat (S n) -> (n = 0%nat \/ 128 ^ Z.of_nat n <= v) ->
  length (uvarint_enc v) = S n.
Proof. apply uvarint_enc_fuel_len. Qed.

(** a single byte iff below 128 *)
Lemma uvarint_enc_small v : 0 <= v < 128 -> uvarint_enc v = [v].
Proof. intros H. unfold uvarint_enc. cbn. destruct (Z.ltb_spec v 128); [reflexivity|lia]. Qed.

(** one-step unfoldings *)
Lemma pb_go_cons f shift acc b bs :
  pb_uvarint_go (S f) shift acc (b :: bs) =
  if b <? 128 then Some (acc + ((b mod 128) * 2 ^ shift) mod two64, bs)
  else pb_uvarint_go f (shift + 7) (acc + ((b mod 128) * 2 ^ shift) mod two64) bs.
Proof. reflexivity. Qed.
Lemma std_go_cons f shift acc b bs :
  std_uvarint_go (S f) shift acc (b :: bs) =
  if b <? 128 then (if Nat.eqb f 0 && (1 <? b) then None else Some (acc + b * 2 ^ shift, bs))
  else std_uvarint_go f (shift + 7) (acc + (b - 128) * 2 ^ shift) bs.
Proof. reflexivity. Qed.

(** ** gogo decoder: round trip *)
Lemma pb_go_enc f : forall v shift acc rest,
  0 <= v < 128 ^ Z.of_nat (S f) -> 0 <= shift -> 0 <= acc -> acc + v * 2 ^ shift < two64 ->
  pb_uvarint_go (S f) shift acc (uvarint_enc_fuel f v ++ rest) = Some (acc + v * 2 ^ shift, rest).
Proof.
  induction f as [|f IH]; intros v shift acc rest Hv Hs Ha Hb.
  - cbn in Hv. cbn [uvarint_enc_fuel app]. rewrite pb_go_cons.
    assert (Hp : 0 < 2 ^ shift) by (apply Z.pow_pos_nonneg; lia).
    rewrite (Z.mod_small v 128) by lia.
    rewrite (Z.mod_small (v * 2 ^ shift) two64) by nia.
    destruct (Z.ltb_spec v 128); [reflexivity|lia].
  - cbn [uvarint_enc_fuel].
    assert (Hp : 0 < 2 ^ shift) by (apply Z.pow_pos_nonneg; lia).
    destruct (Z.ltb_spec v 128) as [Hlt|Hge].
    + cbn [app]. rewrite pb_go_cons.
      rewrite (Z.mod_small v 128) by lia.
      rewrite (Z.mod_small (v * 2 ^ shift) two64) by nia.
      destruct (Z.ltb_spec v 128); [reflexivity|lia].
    + cbn [app]. rewrite pb_go_cons.
      pose proof (Z.mod_pos_bound v 128 ltac:(lia)) as Hm.
      pose proof (Z.div_mod v 128 ltac:(lia)) as Hdm.
      assert (Hq : 0 <= v / 128) by (apply Z.div_pos; lia).
      replace ((v mod 128 + 128) mod 128) with (v mod 128)
        by (rewrite <- (Z.mod_small (v mod 128) 128) at 1 by lia; rewrite <- Z.add_mod_idemp_r by lia; cbn; rewrite Z.add_0_r, Z.mod_mod by lia; reflexivity).
      assert (Hpiece : 0 <= v mod 128 * 2 ^ shift <= v * 2 ^ shift) by nia.
      rewrite (Z.mod_small (v mod 128 * 2 ^ shift) two64) by lia.
      destruct (Z.ltb_spec (v mod 128 + 128) 128); [lia|].
      assert (H27 : 2 ^ (shift + 7) = 128 * 2 ^ shift) by (rewrite Z.pow_add_r by lia; lia).
      rewrite IH.
      * f_equal. f_equal. rewrite H27. nia.
      * rewrite Nat2Z.inj_succ, Z.pow_succ_r in Hv by lia.
        split; [lia|]. apply Z.div_lt_upper_bound; lia.
      * lia.
      * lia.
      * rewrite H27. nia.
Qed.

Theorem pb_uvarint_enc v rest : 0 <= v < two64 -> pb_uvarint (uvarint_enc v ++ rest) = Some (v, rest).
Proof.
  intros H. unfold pb_uvarint, uvarint_enc.
  rewrite pb_go_enc; rewrite ?Z.pow_0_r, ?Z.mul_1_r, ?Z.add_0_l; try lia; [reflexivity|].
  change (128 ^ Z.of_nat 10) with (2 ^ 70). rewrite two64_eq in H.
  assert (2 ^ 64 < 2 ^ 70) by (apply Z.pow_lt_mono_r; lia). lia.
Qed.

(** ** encoding/binary.ReadUvarint: round trip *)
(** the 9-continuation-byte encoder leaves at most bit 63 for the 10th byte *)
Lemma enc_fuel_last_small : forall f v shift acc rest,
  0 <= v < 2 * 128 ^ Z.of_nat f -> 0 <= shift ->
  std_uvarint_go (S f) shift acc (uvarint_enc_fuel f v ++ rest) = Some (acc + v * 2 ^ shift, rest).
Proof.
  induction f as [|f IH]; intros v shift acc rest Hv Hs.
  - cbn in Hv. cbn [uvarint_enc_fuel app]. rewrite std_go_cons.
    destruct (Z.ltb_spec v 128); [|lia]. cbn [Nat.eqb andb].
    destruct (Z.ltb_spec 1 v); [lia|reflexivity].
  - cbn [uvarint_enc_fuel].
    destruct (Z.ltb_spec v 128) as [Hlt|Hge].
    + cbn [app]. rewrite std_go_cons. destruct (Z.ltb_spec v 128); [|lia]. cbn [Nat.eqb andb]. reflexivity.
    + cbn [app]. rewrite std_go_cons.
      pose proof (Z.mod_pos_bound v 128 ltac:(lia)) as Hm.
      pose proof (Z.div_mod v 128 ltac:(lia)) as Hdm.
      destruct (Z.ltb_spec (v mod 128 + 128) 128); [lia|].
      assert (H27 : 2 ^ (shift + 7) = 128 * 2 ^ shift) by (rewrite Z.pow_add_r by lia; lia).
      rewrite IH.
      * f_equal. f_equal. rewrite H27. replace (v mod 128 + 128 - 128) with (v mod 128) by lia. nia.
      * rewrite Nat2Z.inj_succ, Z.pow_succ_r in Hv by lia.
        split; [apply Z.div_pos; lia|]. apply Z.div_lt_upper_bound; lia.
      * lia.
Qed.

Theorem std_uvarint_enc v rest : 0 <= v < two64 -> std_uvarint (uvarint_enc v ++ rest) = Some (v, rest).
Proof.
  intros H. unfold std_uvarint, uvarint_enc.
  rewrite enc_fuel_last_small; rewrite ?Z.pow_0_r, ?Z.mul_1_r, ?Z.add_0_l; try lia; [reflexivity|].
  change (2 * 128 ^ Z.of_nat 9) with (2 ^ 64). rewrite two64_eq in H. lia.
Qed.

(** ** every decoder consumes at least one byte and never invents bytes *)
Lemma pb_go_suffix f : forall shift acc bs v rest,
  pb_uvarint_go f shift acc bs = Some (v, rest) -> exists pre, bs = pre ++ rest /\ (1 <= length pre <= f)%nat.
Proof.
  induction f as [|f IH]; intros shift acc bs v rest H; [discriminate|].
  destruct bs as [|b bs]; [discriminate|]. rewrite pb_go_cons in H.
  destruct (b <? 128).
  - inversion H; subst. exists [b]. cbn. split; [reflexivity|lia].
  - apply IH in H as (pre & -> & Hl). exists (b :: pre). cbn. split; [reflexivity|lia].
Qed.

Lemma pb_uvarint_shorter bs v rest : pb_uvarint bs = Some (v, rest) -> (length rest < length bs)%nat.
Proof. intros H. apply pb_go_suffix in H as (pre & -> & Hl). rewrite app_length. lia. Qed.

Lemma std_go_suffix f : forall shift acc bs v rest,
  std_uvarint_go f shift acc bs = Some (v, rest) -> exists pre, bs = pre ++ rest /\ (1 <= length pre <= f)%nat.
Proof.
  induction f as [|f IH]; intros shift acc bs v rest H; [discriminate|].
  destruct bs as [|b bs]; [discriminate|]. rewrite std_go_cons in H.
  destruct (b <? 128).
  - destruct (Nat.eqb f 0 && (1 <? b)); [discriminate|]. inversion H; subst. exists [b]. cbn. split; [reflexivity|lia].
  - apply IH in H as (pre & -> & Hl). exists (b :: pre). cbn. split; [reflexivity|lia].
Qed.

Lemma std_uvarint_shorter bs v rest : std_uvarint bs = Some (v, rest) -> (length rest < length bs)%nat.
Proof. intros H. apply std_go_suffix in H as (pre & -> & Hl). rewrite app_length. lia. Qed.

(** ** rejection of encodings longer than 10 bytes: ten continuation bytes are an error whatever follows *)
Lemma pb_go_overlong f : forall shift acc bs,
  (f <= length bs)%nat -> Forall (fun b => 128 <= b) (firstn f bs) -> pb_uvarint_go f shift acc bs = None.
Proof.
  induction f as [|f IH]; intros shift acc bs Hl Hall; [reflexivity|].
  destruct bs as [|b bs]; [cbn in Hl; lia|]. cbn [firstn] in Hall. inversion Hall; subst.
  rewrite pb_go_cons. destruct (Z.ltb_spec b 128); [lia|]. apply IH; [cbn in Hl; lia|assumption].
Qed.

Theorem pb_uvarint_overlong bs :
  (10 <= length bs)%nat -> Forall (fun b => 128 <= b) (firstn 10 bs) -> pb_uvarint bs = None.
Proof. apply pb_go_overlong. Qed.

Lemma std_go_overlong f : forall shift acc bs,
  (f <= length bs)%nat -> Forall (fun b => 128 <= b) (firstn f bs) -> std_uvarint_go f shift acc bs = None.
Proof.
  induction f as [|f IH]; intros shift acc bs Hl Hall; [reflexivity|].
  destruct bs as [|b bs]; [cbn in Hl; lia|]. cbn [firstn] in Hall. inversion Hall; subst.
  rewrite std_go_cons. destruct (Z.ltb_spec b 128); [lia|]. apply IH; [cbn in Hl; lia|assumption].
Qed.

Theorem std_uvarint_overlong bs :
  (10 <= length bs)%nat -> Forall (fun b => 128 <= b) (firstn 10 bs) -> std_uvarint bs = None.
Proof. apply std_go_overlong. Qed.

(** truncated input (every byte a continuation byte, or nothing at all) is an error *)
Lemma pb_go_truncated f : forall shift acc bs, Forall (fun b => 128 <= b) bs -> pb_uvarint_go f shift acc bs = None.
Proof.
  induction f as [|f IH]; intros shift acc bs Hall; [reflexivity|].
  destruct bs as [|b bs]; [reflexivity|]. inversion Hall; subst.
  rewrite pb_go_cons. destruct (Z.ltb_spec b 128); [lia|]. apply IH; assumption.
Qed.

Lemma std_go_truncated f : forall shift acc bs, Forall (fun b => 128 <= b) bs -> std_uvarint_go f shift acc bs = None.
Proof.
  induction f as [|f IH]; intros shift acc bs Hall; [reflexivity|].
  destruct bs as [|b bs]; [reflexivity|]. inversion Hall; subst.
  rewrite std_go_cons. destruct (Z.ltb_spec b 128); [lia|]. apply IH; assumption.
Qed.

(** every proper prefix of an encoding consists of continuation bytes only *)
Lemma uvarint_enc_fuel_prefix f : forall v k, (k < length (uvarint_enc_fuel f v))%nat -> 0 <= v ->
  Forall (fun b => 128 <= b) (firstn k (uvarint_enc_fuel f v)).
Proof.
  induction f as [|f IH]; intros v k Hk Hv; cbn [uvarint_enc_fuel] in *.
  - cbn in Hk. assert (k = 0%nat) by lia. subst. constructor.
  - destruct (v <? 128).
    + cbn in Hk. assert (k = 0%nat) by lia. subst. constructor.
    + destruct k as [|k]; [constructor|]. cbn [firstn]. constructor.
      * pose proof (Z.mod_pos_bound v 128 ltac:(lia)). lia.
      * apply IH; [cbn in Hk; lia|apply Z.div_pos; lia].
Qed.

Theorem pb_uvarint_enc_truncated v k : 0 <= v -> (k < length (uvarint_enc v))%nat -> pb_uvarint (firstn k (uvarint_enc v)) = None.
Proof. intros Hv Hk. apply pb_go_truncated. apply uvarint_enc_fuel_prefix; assumption. Qed.

Theorem std_uvarint_enc_truncated v k : 0 <= v -> (k < length (uvarint_enc v))%nat -> std_uvarint (firstn k (uvarint_enc v)) = None.
Proof. intros Hv Hk. apply std_go_truncated. apply uvarint_enc_fuel_prefix; assumption. Qed.

(** ** two's complement *)
Lemma i64_u64 z : in_i64 z = true -> i64_of_u64 (u64_of_int z) = z.
Proof.
  unfold in_i64, i64_of_u64, u64_of_int. intros H. apply andb_true_iff in H as [H1 H2].
  apply Z.leb_le in H1. apply Z.ltb_lt in H2. rewrite Z.mod_mod by (unfold two64; lia).
  unfold two63, two64 in *.
  destruct (Z_lt_le_dec z 0).
  - rewrite <- (Z.mod_add z 1) by lia. rewrite Z.mod_small by lia.
    destruct (Z.ltb_spec (z + 1 * 18446744073709551616) 9223372036854775808); lia.
  - rewrite Z.mod_small by lia. destruct (Z.ltb_spec z 9223372036854775808); lia.
Qed.

Lemma u64_of_int_range z : 0 <= u64_of_int z < two64.
Proof. unfold u64_of_int. apply Z.mod_pos_bound. unfold two64. lia. Qed.

Lemma i32_u64 z : in_i32 z = true -> i32_of_u64 (u64_of_int z) = z.
Proof.
  unfold in_i32, i32_of_u64, u64_of_int. intros H. apply andb_true_iff in H as [H1 H2].
  apply Z.leb_le in H1. apply Z.ltb_lt in H2.
  unfold two31, two32, two64 in *.
  replace (z mod 18446744073709551616 mod 4294967296) with (z mod 4294967296).
  2:{ change 18446744073709551616 with (4294967296 * 4294967296).
      rewrite Z.rem_mul_r by lia. rewrite Z.add_mod by lia. rewrite Z.mod_mod by lia.
      rewrite Z.mul_comm, Z.mod_mul by lia. rewrite Z.add_0_r. rewrite Z.mod_mod by lia. reflexivity. }
  destruct (Z_lt_le_dec z 0).
  - rewrite <- (Z.mod_add z 1) by lia. rewrite Z.mod_small by lia.
    destruct (Z.ltb_spec (z + 1 * 4294967296) 2147483648); lia.
  - rewrite Z.mod_small by lia. destruct (Z.ltb_spec z 2147483648); lia.
Qed.

Lemma i32_of_u64_range u : in_i32 (i32_of_u64 u) = true.
Proof.
  unfold in_i32, i32_of_u64. pose proof (Z.mod_pos_bound u two32 ltac:(unfold two32; lia)) as H.
  unfold two31, two32 in *. destruct (Z.ltb_spec (u mod 4294967296) 2147483648);
  apply andb_true_iff; split; try apply Z.leb_le; try apply Z.ltb_lt; lia.
Qed.

Lemma i64_of_u64_range u : in_i64 (i64_of_u64 u) = true.
Proof.
  unfold in_i64, i64_of_u64. pose proof (Z.mod_pos_bound u two64 ltac:(unfold two64; lia)) as H.
  unfold two63, two64 in *. destruct (Z.ltb_spec (u mod 18446744073709551616) 9223372036854775808);
  apply andb_true_iff; split; try apply Z.leb_le; try apply Z.ltb_lt; lia.
Qed.

(** the enum conversion [pb.AxisType(int)] is the identity on int32 values and NOT injective beyond: 2^32 becomes 0 *)
Lemma i32_wrap_id z : in_i32 z = true -> i32_wrap z = z.
Proof. apply i32_u64. Qed.
Example i32_wrap_truncates : i32_wrap 4294967296 = 0 /\ i32_wrap 4294967297 = 1 /\ i32_wrap 2147483648 = -2147483648.
Proof. repeat split. Qed.

(** ** summaries (both decoders) *)
Theorem varint_roundtrip v rest : 0 <= v < two64 ->
  pb_uvarint (uvarint_enc v ++ rest) = Some (v, rest) /\ std_uvarint (uvarint_enc v ++ rest) = Some (v, rest).
Proof. intros H. split; [apply pb_uvarint_enc|apply std_uvarint_enc]; exact H. Qed.
Theorem varint_overlong_refused bs : (10 <= length bs)%nat -> Forall (fun b => 128 <= b) (firstn 10 bs) ->
  pb_uvarint bs = None /\ std_uvarint bs = None.
Proof. intros H1 H2. split; [apply pb_uvarint_overlong|apply std_uvarint_overlong]; assumption. Qed.
Theorem varint_truncated_refused v k : 0 <= v -> (k < length (uvarint_enc v))%nat ->
  pb_uvarint (firstn k (uvarint_enc v)) = None /\ std_uvarint (firstn k (uvarint_enc v)) = None.
Proof. intros H1 H2. split; [apply pb_uvarint_enc_truncated|apply std_uvarint_enc_truncated]; assumption. Qed.
Theorem twos_complement z : (in_i64 z = true -> i64_of_u64 (u64_of_int z) = z) /\ (in_i32 z = true -> i32_of_u64 (u64_of_int z) = z).
Proof. split; [apply i64_u64|apply i32_u64]. Qed.

(** examples: the wire forms used by the harness *)
Example uvarint_examples :
  uvarint_enc 0 = [0] /\ uvarint_enc 300 = [172; 2] /\ uvarint_enc (u64_of_int (-1)) = [255;255;255;255;255;255;255;255;255;1] /\
  pb_uvarint [128; 0; 7] = Some (0, [7]) (* over-long zero accepted *) /\
  pb_uvarint [128;128;128;128;128;128;128;128;128;127; 9] = Some (two63, [9]) (* bits above 63 dropped *) /\
  std_uvarint [128;128;128;128;128;128;128;128;128;127; 9] = None (* binary.ReadUvarint refuses them *) /\
  pb_uvarint [128;128;128;128;128;128;128;128;128;128;1] = None.
Proof. repeat split. Qed.

(** Proofs about the bridge-node ingest model (Core/Listener.v): invariants over every history of consensus
    announcements, exchange requests and availability checks, with every pattern of failures. *)
From Coq Require Import List NArith Bool Lia.
From CN Require Import Base.Lts Core.Listener.
Import ListNotations.
Open Scope N_scope.

Lemma NoDup_app_one {A} (l : list A) x : NoDup l -> ~ In x l -> NoDup (l ++ [x]).
Proof.
  induction 1 as [|y l Hy Hl IH]; intros Hx; cbn; [constructor; [intros []|constructor]|].
  constructor.
  - intros Hin. apply in_app_iff in Hin as [Hin|[<-|[]]]; [contradiction|]. apply Hx. left. reflexivity.
  - apply IH. intros Hin. apply Hx. right. exact Hin.
Qed.

(** * The store only grows and never rebinds a height *)
Lemma lookup_app h m m' : lookup h (m ++ m') = match lookup h m with Some v => Some v | None => lookup h m' end.
Proof.
  induction m as [|[k v] m IH]; cbn; [reflexivity|]. destruct (k =? h); [reflexivity|exact IH].
Qed.

Lemma lookup_put_same h v m : lookup h (put h v m) = match lookup h m with Some w => Some w | None => Some v end.
Proof.
  unfold put. destruct (lookup h m) eqn:E; [exact E|]. rewrite lookup_app, E. cbn. rewrite N.eqb_refl. reflexivity.
Qed.

Lemma lookup_put_other h k v m : k <> h -> lookup h (put k v m) = lookup h m.
Proof.
  intros Hne. unfold put. destruct (lookup k m); [reflexivity|]. rewrite lookup_app. cbn.
  destruct (k =? h) eqn:E; [apply N.eqb_eq in E; contradiction|]. destruct (lookup h m); reflexivity.
Qed.

Lemma lookup_put_mono h k v m w : lookup h m = Some w -> lookup h (put k v m) = Some w.
Proof.
  intros H. destruct (N.eq_dec k h) as [->|Hne]; [rewrite lookup_put_same, H; reflexivity|].
  rewrite lookup_put_other by exact Hne. exact H.
Qed.

Lemma lookup_put_inv h k v m w : lookup h (put k v m) = Some w -> lookup h m = Some w \/ (h = k /\ w = v /\ lookup k m = None).
Proof.
  intros H. destruct (N.eq_dec k h) as [->|Hne].
  - rewrite lookup_put_same in H. destruct (lookup h m) eqn:E; [left; exact H|]. inversion H; subst. right; auto.
  - rewrite lookup_put_other in H by exact Hne. left; exact H.
Qed.

Lemma store_eds_cases cfg ok h dah inw emp m r m' :
  store_eds cfg ok h dah inw emp m = (r, m') ->
  (r = SSkipped /\ m' = m /\ archival cfg = false /\ inw = false) \/
  (r = SFailed /\ m' = m /\ ok = false) \/
  (r = SStored /\ m' = put h (mkstored dah (inw || emp) inw emp) m /\ ok = true /\ (archival cfg = true \/ inw = true)).
Proof.
  unfold store_eds. destruct (archival cfg) eqn:Ea, inw eqn:Ei, ok eqn:Eo; cbn; intros H; inversion H; subst; auto 10.
Qed.

(** * One step, by cases: what can change and how *)
Definition unchanged (st st' : state) : Prop :=
  store st' = store st /\ published st' = published st /\ hashes st' = hashes st /\ given st' = given st.

Lemma handle_cases cfg st ev st' o :
  handle cfg st ev = (st', o) ->
  (o <> OProcessed /\ unchanged st st' /\ (crashed st' = crashed st \/ o = OPanic)) \/
  (o = OProcessed /\ crashed st = false /\ crashed st' = false /\ e_has_err ev = false /\ has (e_height ev) st = false /\
   exists b syncing,
     e_fetch ev = Some b /\ e_sync ev = Some syncing /\ b_chain_ok b = true /\ b_eds_ok b = true /\ e_store_ok ev = true /\
     (archival cfg = true \/ b_in_window b = true) /\
     store st' = put (b_height b) (mkstored (b_dah b) (b_in_window b || b_empty b) (b_in_window b) (b_empty b)) (store st) /\
     published st' = published st ++ [mkpub (b_height b) (b_dah b) (b_datahash b) syncing] /\
     hashes st' = (if syncing then hashes st else hashes st ++ [(b_height b, b_datahash b)]) /\
     given st' = given st).
Proof.
  unfold handle, unchanged.
  destruct (crashed st) eqn:Ec; [intros H; inversion H; subst; left; repeat split; auto; discriminate|].
  destruct (e_has_err ev) eqn:Eh; [intros H; inversion H; subst; left; repeat split; auto; discriminate|].
  destruct (has (e_height ev) st) eqn:Es; [intros H; inversion H; subst; left; repeat split; auto; discriminate|].
  destruct (e_fetch ev) as [b|] eqn:Ef; [|intros H; inversion H; subst; left; repeat split; auto; discriminate].
  destruct (negb (archival cfg) && negb (b_in_window b)) eqn:Ew; [intros H; inversion H; subst; left; repeat split; auto; discriminate|].
  destruct (e_sync ev) as [sy|] eqn:Ey; [|intros H; inversion H; subst; left; repeat split; auto; discriminate].
  destruct (b_chain_ok b) eqn:Eck; cbn [negb]; [|intros H; inversion H; subst; left; cbn; repeat split; auto; discriminate].
  destruct (b_eds_ok b) eqn:Ee; cbn [negb]; [|intros H; inversion H; subst; left; repeat split; auto; discriminate].
  destruct (store_eds cfg (e_store_ok ev) (b_height b) (b_dah b) (b_in_window b) (b_empty b) (store st)) as [r m] eqn:Est.
  apply store_eds_cases in Est as [(-> & -> & Ha & Hi)|[(-> & -> & Ho)|(-> & -> & Ho & Hw)]].
  - rewrite Ha, Hi in Ew. discriminate.
  - intros H; inversion H; subst; left; repeat split; auto; discriminate.
  - intros H; inversion H; subst; right. cbn. repeat split; auto. exists b, sy. repeat split; auto.
Qed.

Lemma exchange_cases cfg st r st' o :
  exchange_get cfg st r = (st', o) ->
  (unchanged st st' /\ (forall h d, o = XHeader h d -> exists b, x_fetch r = Some b /\ h = b_height b /\ d = b_dah b /\ archival cfg = false /\ b_in_window b = false)) \/
  (crashed st = false /\ crashed st' = false /\ exists b,
     x_fetch r = Some b /\ o = XHeader (b_height b) (b_dah b) /\ b_chain_ok b = true /\ b_eds_ok b = true /\ x_store_ok r = true /\
     (archival cfg = true \/ b_in_window b = true) /\
     store st' = put (b_height b) (mkstored (b_dah b) (b_in_window b || b_empty b) (b_in_window b) (b_empty b)) (store st) /\
     published st' = published st /\ hashes st' = hashes st /\ given st' = given st ++ [(b_height b, b_dah b)]).
Proof.
  unfold exchange_get, unchanged.
  destruct (crashed st) eqn:Ec; [intros H; inversion H; subst; left; repeat split; auto; discriminate|].
  destruct (x_fetch r) as [b|] eqn:Ef; [|intros H; inversion H; subst; left; repeat split; auto; discriminate].
  destruct (b_chain_ok b) eqn:Eck; cbn [negb]; [|intros H; inversion H; subst; left; cbn; repeat split; auto; discriminate].
  destruct (b_eds_ok b) eqn:Ee; cbn [negb]; [|intros H; inversion H; subst; left; repeat split; auto; discriminate].
  destruct (store_eds cfg (x_store_ok r) (b_height b) (b_dah b) (b_in_window b) (b_empty b) (store st)) as [q m] eqn:Est.
  apply store_eds_cases in Est as [(-> & -> & Ha & Hi)|[(-> & -> & Ho)|(-> & -> & Ho & Hw)]].
  - intros H; inversion H; subst; left; repeat split; auto. intros h d E; inversion E; subst. exists b; auto.
  - intros H; inversion H; subst; left; repeat split; auto; discriminate.
  - intros H; inversion H; subst; right. cbn. repeat split; auto. exists b. repeat split; auto.
Qed.

Lemma hash_cases cfg st r st' o :
  exchange_get_by_hash cfg st r = (st', o) ->
  (unchanged st st' /\ (forall h d, o = XHeader h d -> exists b, h_fetch r = Some b /\ h = b_height b /\ d = b_dah b /\ archival cfg = false /\ b_in_window b = false)) \/
  (crashed st = false /\ crashed st' = false /\ exists b,
     h_fetch r = Some b /\ o = XHeader (b_height b) (b_dah b) /\ b_chain_ok b = true /\ b_eds_ok b = true /\ h_store_ok r = true /\
     (archival cfg = true \/ b_in_window b = true) /\
     store st' = put (b_height b) (mkstored (b_dah b) (b_in_window b || b_empty b) (b_in_window b) (b_empty b)) (store st) /\
     published st' = published st /\ hashes st' = hashes st /\ given st' = given st ++ [(b_height b, b_dah b)]).
Proof.
  unfold exchange_get_by_hash.
  destruct (crashed st) eqn:Ec; [intros H; inversion H; subst; left; unfold unchanged; repeat split; auto; discriminate|].
  destruct (h_fetch r) as [b|] eqn:Ef; [|intros H; inversion H; subst; left; unfold unchanged; repeat split; auto; discriminate].
  destruct (b_chain_ok b) eqn:Eck; cbn [negb]; [|intros H; inversion H; subst; left; unfold unchanged; cbn; repeat split; auto; discriminate].
  destruct (h_info_ok r) eqn:Ei; cbn [negb]; [|intros H; inversion H; subst; left; unfold unchanged; repeat split; auto; discriminate].
  destruct (b_eds_ok b) eqn:Ee; cbn [negb]; [|intros H; inversion H; subst; left; unfold unchanged; repeat split; auto; discriminate].
  destruct (h_hash_ok r) eqn:Eh; cbn [negb]; [|intros H; inversion H; subst; left; unfold unchanged; repeat split; auto; discriminate].
  intros H. apply exchange_cases in H. cbn [x_fetch x_store_ok] in H. rewrite <- Ef in H |- *. rewrite Ec in H. exact H.
Qed.

(** the by-hash request only ever keeps (or returns) a block whose header hash is the requested one *)
Lemma hash_mismatch cfg st r :
  h_hash_ok r = false ->
  unchanged st (fst (exchange_get_by_hash cfg st r)) /\ forall h d, snd (exchange_get_by_hash cfg st r) <> XHeader h d.
Proof.
  intros Hh. unfold exchange_get_by_hash, unchanged. rewrite Hh.
  destruct (crashed st); [cbn; repeat split; auto; discriminate|].
  destruct (h_fetch r) as [b|]; [|cbn; repeat split; auto; discriminate].
  destruct (b_chain_ok b); cbn [negb]; [|cbn; repeat split; auto; discriminate].
  destruct (h_info_ok r); cbn [negb]; [|cbn; repeat split; auto; discriminate].
  destruct (b_eds_ok b); cbn; repeat split; auto; discriminate.
Qed.

Lemma avail_cases cfg st r st' o :
  shares_available cfg st r = (st', o) ->
  (o <> AOk /\ st' = st) \/
  (o = AOk /\ crashed st = false /\ crashed st' = false /\ (archival cfg = true \/ a_in_window r = true) /\
   published st' = published st /\ hashes st' = hashes st /\ given st' = given st ++ [(a_height r, a_dah r)] /\
   ((store st' = store st /\ a_empty r = false /\ has (a_height r) st = true) \/
    (a_store_ok r = true /\
     store st' = put (a_height r) (mkstored (a_dah r) (a_in_window r || a_empty r) (a_in_window r) (a_empty r)) (store st)))).
Proof.
  unfold shares_available.
  destruct (crashed st) eqn:Ec; [intros H; inversion H; subst; left; split; [discriminate|reflexivity]|].
  destruct (negb (archival cfg) && negb (a_in_window r)) eqn:Ew; [intros H; inversion H; subst; left; split; [discriminate|reflexivity]|].
  assert (Hw : archival cfg = true \/ a_in_window r = true) by (destruct (archival cfg), (a_in_window r); cbn in Ew; auto; discriminate).
  destruct (a_empty r) eqn:Ee.
  - destruct (a_store_ok r) eqn:Eo; intros H; inversion H; subst; [|left; split; [discriminate|reflexivity]].
    right. cbn. repeat split; auto. right. split; [reflexivity|]. rewrite orb_true_r. reflexivity.
  - destruct (has (a_height r) st) eqn:Eh.
    + intros H; inversion H; subst. right. cbn. repeat split; auto.
    + destruct (a_get r) eqn:Eg; try (intros H; inversion H; subst; left; split; [discriminate|reflexivity]).
      destruct (a_store_ok r) eqn:Eo; intros H; inversion H; subst; [|left; split; [discriminate|reflexivity]].
      right. cbn. repeat split; auto. right. split; [reflexivity|]. rewrite orb_false_r. reflexivity.
Qed.

(** * A failed ingest leaves nothing behind (and is reported by its own result code) *)
Theorem failed_core_leaves_nothing cfg st ev :
  snd (handle cfg st ev) <> OProcessed -> unchanged st (fst (handle cfg st ev)).
Proof.
  destruct (handle cfg st ev) as [st' o] eqn:E. cbn. intros Ho.
  apply handle_cases in E as [(_ & Hu & _)|(Hp & _)]; [exact Hu|contradiction].
Qed.

Theorem failed_avail_leaves_nothing cfg st r :
  snd (shares_available cfg st r) <> AOk -> fst (shares_available cfg st r) = st.
Proof.
  destruct (shares_available cfg st r) as [st' o] eqn:E. cbn. intros Ho.
  apply avail_cases in E as [(_ & Hu)|(Hp & _)]; [exact Hu|contradiction].
Qed.

Theorem failed_exchange_leaves_nothing cfg st r :
  (forall h d, snd (exchange_get cfg st r) <> XHeader h d) -> unchanged st (fst (exchange_get cfg st r)).
Proof.
  destruct (exchange_get cfg st r) as [st' o] eqn:E. cbn. intros Ho.
  apply exchange_cases in E as [(Hu & _)|(_ & _ & b & _ & Hb & _)]; [exact Hu|]. exfalso. eapply Ho. exact Hb.
Qed.

Theorem failed_hash_leaves_nothing cfg st r :
  (forall h d, snd (exchange_get_by_hash cfg st r) <> XHeader h d) -> unchanged st (fst (exchange_get_by_hash cfg st r)).
Proof.
  destruct (exchange_get_by_hash cfg st r) as [st' o] eqn:E. cbn. intros Ho.
  apply hash_cases in E as [(Hu & _)|(_ & _ & b & _ & Hb & _)]; [exact Hu|]. exfalso. eapply Ho. exact Hb.
Qed.

(** * Histories *)
(** every endpoint answers a request for height h with the block of height h *)
Definition well_served (o : op) : Prop :=
  match o with
  | OpCore ev => match e_fetch ev with Some b => b_height b = e_height ev | None => True end
  | _ => True
  end.

Section Inv.
  Variable cfg : config.

  Definition stored_as (st : state) (h dah : N) : Prop := exists d, lookup h (store st) = Some d /\ s_dah d = dah.

  Record inv (st : state) : Prop := mkinv {
    inv_once : NoDup (map p_height (published st));
    inv_pub : forall p, In p (published st) -> stored_as st (p_height p) (p_dah p);
    inv_src : forall h d, lookup h (store st) = Some d ->
                (exists p, In p (published st) /\ p_height p = h /\ p_dah p = s_dah d) \/ In (h, s_dah d) (given st);
    inv_win : forall h d, lookup h (store st) = Some d ->
                s_q4 d = (s_inwin d || s_empty d) /\ (archival cfg = false -> s_inwin d = true) }.

  Lemma inv_init : inv init.
  Proof. constructor; cbn; try constructor; try contradiction; discriminate. Qed.

  Lemma stored_as_put st st' h dah k v :
    store st' = put k v (store st) -> stored_as st h dah -> stored_as st' h dah.
  Proof. intros Hs (d & Hl & Hd). exists d. rewrite Hs. split; [apply lookup_put_mono; exact Hl|exact Hd]. Qed.

  Lemma inv_step st o : well_served o -> inv st -> inv (step cfg st o).
  Proof.
    intros Hws [Honce Hpub Hsrc Hwin]. destruct o as [ev|r|r|r]; cbn [step].
    - destruct (handle cfg st ev) as [st' oc] eqn:E. cbn [fst].
      apply handle_cases in E as [(_ & (Hs & Hp & Hh & Hg) & _)|Hproc].
      + constructor; rewrite ?Hs, ?Hp, ?Hg; auto.
        intros p Hin. destruct (Hpub p Hin) as (d & Hl & Hd). exists d. rewrite Hs. auto.
      + destruct Hproc as (_ & _ & _ & _ & Hhas & b & sy & Hf & _ & _ & _ & _ & Hw & Hs & Hp & _ & Hg).
        cbn in Hws. rewrite Hf in Hws.
        assert (Hnone : lookup (b_height b) (store st) = None).
        { unfold has in Hhas. rewrite Hws. destruct (lookup (e_height ev) (store st)); [discriminate|reflexivity]. }
        constructor.
        * rewrite Hp, map_app. cbn. apply NoDup_app_one; [exact Honce|].
          intros Hin. apply in_map_iff in Hin as (p & Hph & Hin). destruct (Hpub p Hin) as (d & Hl & _). congruence.
        * intros p Hin. rewrite Hp in Hin. apply in_app_iff in Hin as [Hin|[<-|[]]].
          -- eapply stored_as_put; [exact Hs|]. apply Hpub. exact Hin.
          -- cbn. eexists. rewrite Hs, lookup_put_same, Hnone. split; reflexivity.
        * intros h d Hl. rewrite Hs in Hl. apply lookup_put_inv in Hl as [Hl|(-> & -> & _)].
          -- destruct (Hsrc h d Hl) as [(p & Hin & Hph & Hpd)|Hgv]; [left|right; rewrite Hg; exact Hgv].
             exists p. rewrite Hp. split; [apply in_app_iff; left; exact Hin|auto].
          -- left. eexists. rewrite Hp. split; [apply in_app_iff; right; left; reflexivity|]. cbn. auto.
        * intros h d Hl. rewrite Hs in Hl. apply lookup_put_inv in Hl as [Hl|(-> & -> & _)]; [apply Hwin with h; exact Hl|].
          cbn. split; [reflexivity|]. intros Ha. destruct Hw as [Hw|Hw]; congruence.
    - destruct (exchange_get cfg st r) as [st' oc] eqn:E. cbn [fst].
      apply exchange_cases in E as [((Hs & Hp & Hh & Hg) & _)|Hst].
      + constructor; rewrite ?Hs, ?Hp, ?Hg; auto.
        intros p Hin. destruct (Hpub p Hin) as (d & Hl & Hd). exists d. rewrite Hs. auto.
      + destruct Hst as (_ & _ & b & _ & _ & _ & _ & _ & Hw & Hs & Hp & _ & Hg).
        constructor.
        * rewrite Hp. exact Honce.
        * intros p Hin. rewrite Hp in Hin. eapply stored_as_put; [exact Hs|]. apply Hpub. exact Hin.
        * intros h d Hl. rewrite Hs in Hl. apply lookup_put_inv in Hl as [Hl|(-> & -> & _)].
          -- destruct (Hsrc h d Hl) as [(p & Hin & Hph & Hpd)|Hgv]; [left; exists p; rewrite Hp; auto|right; rewrite Hg; apply in_app_iff; left; exact Hgv].
          -- right. rewrite Hg. apply in_app_iff. right. left. reflexivity.
        * intros h d Hl. rewrite Hs in Hl. apply lookup_put_inv in Hl as [Hl|(-> & -> & _)]; [apply Hwin with h; exact Hl|].
          cbn. split; [reflexivity|]. intros Ha. destruct Hw as [Hw|Hw]; congruence.
    - destruct (shares_available cfg st r) as [st' oc] eqn:E. cbn [fst].
      apply avail_cases in E as [(_ & ->)|Hok]; [constructor; assumption|].
      destruct Hok as (_ & _ & _ & Hw & Hp & _ & Hg & [(Hs & _ & _)|(_ & Hs)]).
      + constructor; rewrite ?Hs, ?Hp; auto.
        * intros p Hin. destruct (Hpub p Hin) as (d & Hl & Hd). exists d. rewrite Hs. auto.
        * intros h d Hl. destruct (Hsrc h d Hl) as [Hx|Hgv]; [left; exact Hx|right; rewrite Hg; apply in_app_iff; left; exact Hgv].
      + constructor.
        * rewrite Hp. exact Honce.
        * intros p Hin. rewrite Hp in Hin. eapply stored_as_put; [exact Hs|]. apply Hpub. exact Hin.
        * intros h d Hl. rewrite Hs in Hl. apply lookup_put_inv in Hl as [Hl|(-> & -> & _)].
          -- destruct (Hsrc h d Hl) as [(p & Hin & Hph & Hpd)|Hgv]; [left; exists p; rewrite Hp; auto|right; rewrite Hg; apply in_app_iff; left; exact Hgv].
          -- right. rewrite Hg. apply in_app_iff. right. left. reflexivity.
        * intros h d Hl. rewrite Hs in Hl. apply lookup_put_inv in Hl as [Hl|(-> & -> & _)]; [apply Hwin with h; exact Hl|].
          cbn. split; [reflexivity|]. intros Ha. destruct Hw as [Hw|Hw]; congruence.
    - destruct (exchange_get_by_hash cfg st r) as [st' oc] eqn:E. cbn [fst].
      apply hash_cases in E as [((Hs & Hp & Hh & Hg) & _)|Hst].
      + constructor; rewrite ?Hs, ?Hp, ?Hg; auto.
        intros p Hin. destruct (Hpub p Hin) as (d & Hl & Hd). exists d. rewrite Hs. auto.
      + destruct Hst as (_ & _ & b & _ & _ & _ & _ & _ & Hw & Hs & Hp & _ & Hg).
        constructor.
        * rewrite Hp. exact Honce.
        * intros p Hin. rewrite Hp in Hin. eapply stored_as_put; [exact Hs|]. apply Hpub. exact Hin.
        * intros h d Hl. rewrite Hs in Hl. apply lookup_put_inv in Hl as [Hl|(-> & -> & _)].
          -- destruct (Hsrc h d Hl) as [(p & Hin & Hph & Hpd)|Hgv]; [left; exists p; rewrite Hp; auto|right; rewrite Hg; apply in_app_iff; left; exact Hgv].
          -- right. rewrite Hg. apply in_app_iff. right. left. reflexivity.
        * intros h d Hl. rewrite Hs in Hl. apply lookup_put_inv in Hl as [Hl|(-> & -> & _)]; [apply Hwin with h; exact Hl|].
          cbn. split; [reflexivity|]. intros Ha. destruct Hw as [Hw|Hw]; congruence.
  Qed.

  Lemma inv_run os : Forall well_served os -> forall st, inv st -> inv (run cfg st os).
  Proof.
    induction 1 as [|o os Ho _ IH]; intros st Hi; [exact Hi|]. cbn. apply IH, inv_step; assumption.
  Qed.
End Inv.

(** * One chain: all blocks and headers of a height carry the same DAH [f h]; then "given" implies "stored with it" *)
Section Chain.
  Variable cfg : config.
  Variable f : N -> N.     (* the DAH of the chain's block at each height *)
  Variable dh : N -> N.    (* hash of a DAH *)

  Definition on_chain (o : op) : Prop :=
    match o with
    | OpCore ev => match e_fetch ev with Some b => b_dah b = f (b_height b) | None => True end
    | OpExchange r => match x_fetch r with Some b => b_dah b = f (b_height b) | None => True end
    | OpAvail r => a_dah r = f (a_height r)
    | OpHash r => match h_fetch r with Some b => b_dah b = f (b_height b) | None => True end
    end.

  (** consistent consensus blocks: the header's data hash is the hash of the square's DAH *)
  Definition consistent (o : op) : Prop :=
    match o with
    | OpCore ev => match e_fetch ev with Some b => b_datahash b = dh (b_dah b) | None => True end
    | _ => True
    end.

  Record cinv (st : state) : Prop := mkcinv {
    cinv_store : forall h d, lookup h (store st) = Some d -> s_dah d = f h;
    cinv_given : forall h x, In (h, x) (given st) -> x = f h /\ stored_as st h x;
    cinv_pubs : forall p, In p (published st) -> p_dah p = f (p_height p) }.

  Lemma cinv_init : cinv init.
  Proof. constructor; cbn; try contradiction; discriminate. Qed.

  Lemma cinv_step st o : on_chain o -> cinv st -> cinv (step cfg st o).
  Proof.
    intros Hc [Hst Hgv Hpb]. destruct o as [ev|r|r|r]; cbn [step].
    - destruct (handle cfg st ev) as [st' oc] eqn:E. cbn [fst].
      apply handle_cases in E as [(_ & (Hs & Hp & Hh & Hg) & _)|Hproc].
      + constructor; rewrite ?Hs, ?Hp, ?Hg; auto.
        intros h x Hin. destruct (Hgv h x Hin) as [Hx (d & Hl & Hd)]. split; [exact Hx|]. exists d. rewrite Hs. auto.
      + destruct Hproc as (_ & _ & _ & _ & _ & b & sy & Hf & _ & _ & _ & _ & _ & Hs & Hp & _ & Hg).
        cbn in Hc. rewrite Hf in Hc. constructor.
        * intros h d Hl. rewrite Hs in Hl. apply lookup_put_inv in Hl as [Hl|(-> & -> & _)]; [apply Hst; exact Hl|exact Hc].
        * intros h x Hin. rewrite Hg in Hin. destruct (Hgv h x Hin) as [Hx Hsa]. split; [exact Hx|].
          eapply stored_as_put; [exact Hs|exact Hsa].
        * intros p Hin. rewrite Hp in Hin. apply in_app_iff in Hin as [Hin|[<-|[]]]; [apply Hpb; exact Hin|exact Hc].
    - destruct (exchange_get cfg st r) as [st' oc] eqn:E. cbn [fst].
      apply exchange_cases in E as [((Hs & Hp & Hh & Hg) & _)|Hstd].
      + constructor; rewrite ?Hs, ?Hp, ?Hg; auto.
        intros h x Hin. destruct (Hgv h x Hin) as [Hx (d & Hl & Hd)]. split; [exact Hx|]. exists d. rewrite Hs. auto.
      + destruct Hstd as (_ & _ & b & Hf & _ & _ & _ & _ & _ & Hs & Hp & _ & Hg).
        cbn in Hc. rewrite Hf in Hc. constructor.
        * intros h d Hl. rewrite Hs in Hl. apply lookup_put_inv in Hl as [Hl|(-> & -> & _)]; [apply Hst; exact Hl|exact Hc].
        * intros h x Hin. rewrite Hg in Hin. apply in_app_iff in Hin as [Hin|[Heq|[]]].
          -- destruct (Hgv h x Hin) as [Hx Hsa]. split; [exact Hx|]. eapply stored_as_put; [exact Hs|exact Hsa].
          -- inversion Heq; subst. split; [exact Hc|]. unfold stored_as. rewrite Hs, lookup_put_same.
             destruct (lookup (b_height b) (store st)) as [w|] eqn:El.
             ++ exists w. split; [reflexivity|]. rewrite (Hst _ _ El). symmetry. exact Hc.
             ++ eexists. split; [reflexivity|reflexivity].
        * rewrite Hp. exact Hpb.
    - destruct (shares_available cfg st r) as [st' oc] eqn:E. cbn [fst].
      apply avail_cases in E as [(_ & ->)|Hok]; [constructor; assumption|].
      cbn in Hc.
      destruct Hok as (_ & _ & _ & _ & Hp & _ & Hg & [(Hs & _ & Hhas)|(_ & Hs)]).
      + constructor; rewrite ?Hs, ?Hp; auto.
        intros h x Hin. rewrite Hg in Hin. apply in_app_iff in Hin as [Hin|[Heq|[]]].
        * destruct (Hgv h x Hin) as [Hx (d & Hl & Hd)]. split; [exact Hx|]. exists d. rewrite Hs. auto.
        * inversion Heq; subst. split; [exact Hc|]. unfold has in Hhas.
          destruct (lookup (a_height r) (store st)) as [w|] eqn:El; [|discriminate].
          exists w. rewrite Hs. split; [exact El|]. rewrite (Hst _ _ El). symmetry. exact Hc.
      + constructor.
        * intros h d Hl. rewrite Hs in Hl. apply lookup_put_inv in Hl as [Hl|(-> & -> & _)]; [apply Hst; exact Hl|exact Hc].
        * intros h x Hin. rewrite Hg in Hin. apply in_app_iff in Hin as [Hin|[Heq|[]]].
          -- destruct (Hgv h x Hin) as [Hx Hsa]. split; [exact Hx|]. eapply stored_as_put; [exact Hs|exact Hsa].
          -- inversion Heq; subst. split; [exact Hc|]. unfold stored_as. rewrite Hs, lookup_put_same.
             destruct (lookup (a_height r) (store st)) as [w|] eqn:El.
             ++ exists w. split; [reflexivity|]. rewrite (Hst _ _ El). symmetry. exact Hc.
             ++ eexists. split; [reflexivity|reflexivity].
        * rewrite Hp. exact Hpb.
    - destruct (exchange_get_by_hash cfg st r) as [st' oc] eqn:E. cbn [fst].
      apply hash_cases in E as [((Hs & Hp & Hh & Hg) & _)|Hstd].
      + constructor; rewrite ?Hs, ?Hp, ?Hg; auto.
        intros h x Hin. destruct (Hgv h x Hin) as [Hx (d & Hl & Hd)]. split; [exact Hx|]. exists d. rewrite Hs. auto.
      + destruct Hstd as (_ & _ & b & Hf & _ & _ & _ & _ & _ & Hs & Hp & _ & Hg).
        cbn in Hc. rewrite Hf in Hc. constructor.
        * intros h d Hl. rewrite Hs in Hl. apply lookup_put_inv in Hl as [Hl|(-> & -> & _)]; [apply Hst; exact Hl|exact Hc].
        * intros h x Hin. rewrite Hg in Hin. apply in_app_iff in Hin as [Hin|[Heq|[]]].
          -- destruct (Hgv h x Hin) as [Hx Hsa]. split; [exact Hx|]. eapply stored_as_put; [exact Hs|exact Hsa].
          -- inversion Heq; subst. split; [exact Hc|]. unfold stored_as. rewrite Hs, lookup_put_same.
             destruct (lookup (b_height b) (store st)) as [w|] eqn:El.
             ++ exists w. split; [reflexivity|]. rewrite (Hst _ _ El). symmetry. exact Hc.
             ++ eexists. split; [reflexivity|reflexivity].
        * rewrite Hp. exact Hpb.
  Qed.

  Lemma cinv_run os : Forall on_chain os -> forall st, cinv st -> cinv (run cfg st os).
  Proof. induction 1 as [|o os Ho _ IH]; intros st Hi; [exact Hi|]. cbn. apply IH, cinv_step; assumption. Qed.

  (** the published header of a consistent block commits to its DAH *)
  Definition pubs_consistent (st : state) : Prop := forall p, In p (published st) -> p_datahash p = dh (p_dah p).

  Lemma pubs_consistent_step st o : consistent o -> pubs_consistent st -> pubs_consistent (step cfg st o).
  Proof.
    intros Hc Hp. destruct o as [ev|r|r|r]; cbn [step].
    - destruct (handle cfg st ev) as [st' oc] eqn:E. cbn [fst].
      apply handle_cases in E as [(_ & (_ & Hpp & _) & _)|Hproc].
      + unfold pubs_consistent. rewrite Hpp. exact Hp.
      + destruct Hproc as (_ & _ & _ & _ & _ & b & sy & Hf & _ & _ & _ & _ & _ & _ & Hpp & _).
        cbn in Hc. rewrite Hf in Hc. intros p Hin. rewrite Hpp in Hin.
        apply in_app_iff in Hin as [Hin|[<-|[]]]; [apply Hp; exact Hin|exact Hc].
    - destruct (exchange_get cfg st r) as [st' oc] eqn:E. cbn [fst].
      apply exchange_cases in E as [((_ & Hpp & _) & _)|(_ & _ & b & _ & _ & _ & _ & _ & _ & _ & Hpp & _)];
        unfold pubs_consistent; rewrite Hpp; exact Hp.
    - destruct (shares_available cfg st r) as [st' oc] eqn:E. cbn [fst].
      apply avail_cases in E as [(_ & ->)|(_ & _ & _ & _ & Hpp & _)]; [exact Hp|].
      unfold pubs_consistent; rewrite Hpp; exact Hp.
    - destruct (exchange_get_by_hash cfg st r) as [st' oc] eqn:E. cbn [fst].
      apply hash_cases in E as [((_ & Hpp & _) & _)|(_ & _ & b & _ & _ & _ & _ & _ & _ & _ & Hpp & _)];
        unfold pubs_consistent; rewrite Hpp; exact Hp.
  Qed.

  Lemma pubs_consistent_run os : Forall consistent os -> forall st, pubs_consistent st -> pubs_consistent (run cfg st os).
  Proof. induction 1 as [|o os Ho _ IH]; intros st Hi; [exact Hi|]. cbn. apply IH, pubs_consistent_step; assumption. Qed.
End Chain.

(** * Monotonicity: what is stored stays, publications are only appended, a crash is final *)
Lemma step_store_mono cfg st o h w : lookup h (store st) = Some w -> lookup h (store (step cfg st o)) = Some w.
Proof.
  intros Hl. destruct o as [ev|r|r|r]; cbn [step].
  - destruct (handle cfg st ev) as [st' oc] eqn:E. cbn [fst].
    apply handle_cases in E as [(_ & (Hs & _) & _)|(_ & _ & _ & _ & _ & b & sy & _ & _ & _ & _ & _ & _ & Hs & _)]; rewrite Hs; auto using lookup_put_mono.
  - destruct (exchange_get cfg st r) as [st' oc] eqn:E. cbn [fst].
    apply exchange_cases in E as [((Hs & _) & _)|(_ & _ & b & _ & _ & _ & _ & _ & _ & Hs & _)]; rewrite Hs; auto using lookup_put_mono.
  - destruct (shares_available cfg st r) as [st' oc] eqn:E. cbn [fst].
    apply avail_cases in E as [(_ & ->)|(_ & _ & _ & _ & _ & _ & _ & [(Hs & _)|(_ & Hs)])]; try rewrite Hs; auto using lookup_put_mono.
  - destruct (exchange_get_by_hash cfg st r) as [st' oc] eqn:E. cbn [fst].
    apply hash_cases in E as [((Hs & _) & _)|(_ & _ & b & _ & _ & _ & _ & _ & _ & Hs & _)]; rewrite Hs; auto using lookup_put_mono.
Qed.

Lemma run_store_mono cfg os : forall st h w, lookup h (store st) = Some w -> lookup h (store (run cfg st os)) = Some w.
Proof. induction os as [|o os IH]; intros st h w H; [exact H|]. cbn. apply IH, step_store_mono, H. Qed.

Lemma step_published_mono cfg st o : exists l, published (step cfg st o) = published st ++ l.
Proof.
  destruct o as [ev|r|r|r]; cbn [step].
  - destruct (handle cfg st ev) as [st' oc] eqn:E. cbn [fst].
    apply handle_cases in E as [(_ & (_ & Hp & _) & _)|(_ & _ & _ & _ & _ & b & sy & _ & _ & _ & _ & _ & _ & _ & Hp & _)]; rewrite Hp.
    + exists []. rewrite app_nil_r. reflexivity.
    + eexists. reflexivity.
  - destruct (exchange_get cfg st r) as [st' oc] eqn:E. cbn [fst].
    apply exchange_cases in E as [((_ & Hp & _) & _)|(_ & _ & b & _ & _ & _ & _ & _ & _ & _ & Hp & _)]; rewrite Hp; exists []; rewrite app_nil_r; reflexivity.
  - destruct (shares_available cfg st r) as [st' oc] eqn:E. cbn [fst].
    apply avail_cases in E as [(_ & ->)|(_ & _ & _ & _ & Hp & _)]; [|rewrite Hp]; exists []; rewrite app_nil_r; reflexivity.
  - destruct (exchange_get_by_hash cfg st r) as [st' oc] eqn:E. cbn [fst].
    apply hash_cases in E as [((_ & Hp & _) & _)|(_ & _ & b & _ & _ & _ & _ & _ & _ & _ & Hp & _)]; rewrite Hp; exists []; rewrite app_nil_r; reflexivity.
Qed.

Lemma run_published_mono cfg os : forall st, exists l, published (run cfg st os) = published st ++ l.
Proof.
  induction os as [|o os IH]; intros st; [exists []; cbn; rewrite app_nil_r; reflexivity|].
  change (run cfg st (o :: os)) with (run cfg (step cfg st o) os).
  destruct (IH (step cfg st o)) as (l & Hl). destruct (step_published_mono cfg st o) as (l0 & Hl0).
  exists (l0 ++ l). rewrite Hl, Hl0, app_assoc. reflexivity.
Qed.

Lemma step_crashed_mono cfg st o : crashed st = true -> crashed (step cfg st o) = true.
Proof.
  intros Hc. destruct o as [ev|r|r|r]; cbn [step].
  - unfold handle. rewrite Hc. exact Hc.
  - unfold exchange_get. rewrite Hc. exact Hc.
  - unfold shares_available. rewrite Hc. exact Hc.
  - unfold exchange_get_by_hash. rewrite Hc. exact Hc.
Qed.

Lemma run_crashed_mono cfg os : forall st, crashed st = true -> crashed (run cfg st os) = true.
Proof. induction os as [|o os IH]; intros st H; [exact H|]. cbn. apply IH, step_crashed_mono, H. Qed.

(** * Every successfully obtained block that is to be kept is stored and published *)
Definition good_event (cfg : config) (ev : event) (b : block) : Prop :=
  e_has_err ev = false /\ e_fetch ev = Some b /\ b_height b = e_height ev /\ (exists sy, e_sync ev = Some sy) /\
  b_chain_ok b = true /\ b_eds_ok b = true /\ e_store_ok ev = true /\ (archival cfg = true \/ b_in_window b = true).

Lemma good_event_step cfg st ev b :
  crashed st = false -> good_event cfg ev b ->
  let st' := step cfg st (OpCore ev) in
  has (e_height ev) st' = true /\
  (has (e_height ev) st = false ->
   stored_as st' (e_height ev) (b_dah b) /\ exists sy, published st' = published st ++ [mkpub (e_height ev) (b_dah b) (b_datahash b) sy]).
Proof.
  intros Hc (Herr & Hf & Hh & (sy & Hsy) & Hck & He & Hok & Hw). cbn [step].
  unfold handle. rewrite Hc, Herr.
  destruct (has (e_height ev) st) eqn:Ehas; cbn [fst]; [split; [exact Ehas|discriminate]|].
  rewrite Hf.
  assert (Ew : negb (archival cfg) && negb (b_in_window b) = false) by (destruct Hw as [-> | ->]; cbn; auto using andb_false_r).
  rewrite Ew, Hsy, Hck, He. cbn [negb].
  unfold store_eds. rewrite Ew, Hok. cbn [negb fst].
  assert (Hnone : lookup (b_height b) (store st) = None).
  { unfold has in Ehas. rewrite Hh. destruct (lookup (e_height ev) (store st)); [discriminate|reflexivity]. }
  split.
  - unfold has. cbn. rewrite <- Hh, lookup_put_same, Hnone. reflexivity.
  - intros _. split.
    + unfold stored_as. cbn. rewrite <- Hh, lookup_put_same, Hnone. eexists. split; reflexivity.
    + exists sy. cbn. rewrite Hh. reflexivity.
Qed.

Theorem good_event_kept cfg os1 ev b os2 :
  good_event cfg ev b ->
  let st1 := run cfg init os1 in
  let st := run cfg init (os1 ++ OpCore ev :: os2) in
  crashed st = false ->
  has (e_height ev) st = true /\
  (has (e_height ev) st1 = false ->
   stored_as st (e_height ev) (b_dah b) /\ exists sy, In (mkpub (e_height ev) (b_dah b) (b_datahash b) sy) (published st)).
Proof.
  intros Hg st1 st Hnc. subst st st1. unfold run in *. rewrite fold_left_app in *. cbn [fold_left] in *.
  set (s1 := fold_left (step cfg) os1 init) in *.
  assert (Hc1 : crashed s1 = false).
  { destruct (crashed s1) eqn:E; [|reflexivity].
    pose proof (run_crashed_mono cfg os2 _ (step_crashed_mono cfg s1 (OpCore ev) E)) as H. unfold run in H. congruence. }
  destruct (good_event_step cfg s1 ev b Hc1 Hg) as [Hhas Hnew].
  split.
  - unfold has in *. destruct (lookup (e_height ev) (store (step cfg s1 (OpCore ev)))) as [w|] eqn:El; [|discriminate].
    pose proof (run_store_mono cfg os2 _ _ _ El) as H. unfold run in H. rewrite H. reflexivity.
  - intros Hno. destruct (Hnew Hno) as [(d & Hl & Hd) (sy & Hp)]. split.
    + exists d. split; [|exact Hd]. pose proof (run_store_mono cfg os2 _ _ _ Hl) as H. exact H.
    + exists sy. destruct (run_published_mono cfg os2 (step cfg s1 (OpCore ev))) as (l & Hl'). unfold run in Hl'.
      rewrite Hl', Hp. apply in_app_iff. left. apply in_app_iff. right. left. reflexivity.
Qed.

(** * Non-vacuity: two endpoints; the first fetch fails, the second endpoint's announcement retries and succeeds,
      later duplicates are skipped; an out-of-window block is dropped by a pruned node and kept without Q4 by an
      archival one; an availability check stores what the listener has not, a failing one stores nothing. *)
Module Ex.
  Definition blk (h dah : N) (inw : bool) : block := mkblock h true true dah (1000 + dah) inw false.
  Definition ev (h src : N) (b : option block) (sy : option bool) (ok : bool) : event := mkev h src false b sy ok.
  Definition hist : list op :=
    [ OpCore (ev 5 0 None (Some false) true);                       (* fetch fails *)
      OpCore (ev 5 1 (Some (blk 5 50 true)) (Some false) true);     (* retried by the other endpoint *)
      OpCore (ev 5 0 (Some (blk 5 50 true)) (Some false) true);     (* duplicate *)
      OpCore (ev 6 0 (Some (blk 6 60 true)) None true);             (* sync status fails *)
      OpCore (ev 6 1 (Some (blk 6 60 true)) (Some true) false);     (* store fails *)
      OpCore (ev 6 0 (Some (blk 6 60 true)) (Some true) true);      (* success, endpoint still syncing *)
      OpCore (ev 4 1 (Some (blk 4 40 false)) (Some false) true);    (* lagging endpoint replays an old block *)
      OpAvail (mkareq 7 70 true false GDeadline true);
      OpAvail (mkareq 7 70 true false GSquare true);
      OpCore (ev 7 0 (Some (blk 7 70 true)) (Some false) true) ].   (* already stored through the availability path *)
  (* header requests by hash: the endpoint serves a block with another hash, then fails to serve the commit, then
     serves the requested block; the later announcement of that height is a duplicate *)
  Definition hhist : list op :=
    [ OpHash (mkhreq (Some (blk 9 90 true)) true false true);
      OpHash (mkhreq (Some (blk 8 80 true)) false true true);
      OpHash (mkhreq (Some (blk 8 80 true)) true true true);
      OpCore (ev 8 0 (Some (blk 8 80 true)) (Some false) true);
      OpCore (ev 9 0 (Some (blk 9 91 true)) (Some false) true) ].
  Definition pruned := run (mkcfg false) init hist.
  Definition arch := run (mkcfg true) init hist.
End Ex.

Lemma nonvacuous_history :
  Forall well_served Ex.hist /\ Forall (on_chain (fun h => 10 * h)) Ex.hist /\ Forall (consistent (fun d => 1000 + d)) Ex.hist /\
  map fst (store Ex.pruned) = [5; 6; 7] /\ map fst (store Ex.arch) = [5; 6; 4; 7] /\
  map p_height (published Ex.pruned) = [5; 6] /\ map p_local (published Ex.pruned) = [false; true] /\ hashes Ex.pruned = [(5, 1050)] /\
  lookup 4 (store Ex.arch) = Some (mkstored 40 false false false) /\ lookup 7 (store Ex.pruned) = Some (mkstored 70 true true false) /\
  given Ex.pruned = [(7, 70)] /\
  fst (run_codes (mkcfg false) init Ex.hist) = [2; 7; 1; 4; 6; 7; 3; 32; 30; 1].
Proof. repeat split; try (vm_compute; reflexivity); repeat constructor. Qed.

Lemma nonvacuous_by_hash :
  Forall well_served Ex.hhist /\ Forall (consistent (fun d => 1000 + d)) Ex.hhist /\
  fst (run_codes (mkcfg false) init Ex.hhist) = [20; 20; 22; 1; 7] /\
  store (run (mkcfg false) init (firstn 2 Ex.hhist)) = [] /\
  lookup 8 (store (run (mkcfg false) init Ex.hhist)) = Some (mkstored 80 true true false) /\
  lookup 9 (store (run (mkcfg false) init Ex.hhist)) = Some (mkstored 91 true true false) /\
  given (run (mkcfg false) init Ex.hhist) = [(8, 80)] /\ map p_height (published (run (mkcfg false) init Ex.hhist)) = [9].
Proof. repeat split; try (vm_compute; reflexivity); repeat constructor. Qed.

(** * The statements over whole histories *)
Lemma history_invariant cfg os : Forall well_served os -> inv cfg (run cfg init os).
Proof. intros H. exact (inv_run cfg os H init (inv_init cfg)). Qed.

Lemma stored_matches_published cfg os p :
  Forall well_served os -> In p (published (run cfg init os)) ->
  exists d, lookup (p_height p) (store (run cfg init os)) = Some d /\ s_dah d = p_dah p.
Proof. intros H Hin. exact (inv_pub cfg _ (history_invariant cfg os H) p Hin). Qed.

Lemma published_once cfg os : Forall well_served os -> NoDup (map p_height (published (run cfg init os))).
Proof. intros H. exact (inv_once cfg _ (history_invariant cfg os H)). Qed.

Lemma stored_has_header cfg os h d :
  Forall well_served os -> lookup h (store (run cfg init os)) = Some d ->
  (exists p, In p (published (run cfg init os)) /\ p_height p = h /\ p_dah p = s_dah d) \/ In (h, s_dah d) (given (run cfg init os)).
Proof. intros H Hl. exact (inv_src cfg _ (history_invariant cfg os H) h d Hl). Qed.

Lemma window_policy cfg os h d :
  Forall well_served os -> lookup h (store (run cfg init os)) = Some d ->
  s_q4 d = (s_inwin d || s_empty d) /\ (archival cfg = false -> s_inwin d = true).
Proof. intros H Hl. exact (inv_win cfg _ (history_invariant cfg os H) h d Hl). Qed.

Lemma stored_matches_given cfg f os : Forall (on_chain f) os -> cinv f (run cfg init os).
Proof. intros H. exact (cinv_run cfg f os H init (cinv_init f)). Qed.

Lemma published_commits_to_square cfg dh os p :
  Forall (consistent dh) os -> In p (published (run cfg init os)) -> p_datahash p = dh (p_dah p).
Proof.
  intros H Hin.
  exact (pubs_consistent_run cfg dh os H init (fun q (F : In q (published init)) => match F with end) p Hin).
Qed.

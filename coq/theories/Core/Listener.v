(** Model of how a bridge node ingests blocks:
      - core/listener.go [handleNewBlockEvent] / [handleNewSignedBlock] (dedup by store, fetch from the announcing
        source, historic drop, sync-state query, chain-id panic, EDS construction, storeEDS, broadcasts),
      - core/eds.go [storeEDS] (window / archival policy), core/exchange.go [getExtendedHeaderByHeight] (same policy,
        header returned instead of published) and [Get] (header by hash: the same, behind the hash comparison),
      - share/availability/full/availability.go [SharesAvailable] (window gate, empty block link, already-stored
        shortcut, getter error mapping, store),
      - store/store.go [put] as far as the above observe it: a height once linked is never relinked ("exists" is
        success), nothing is written on failure.
    Squares and headers are identified by their DAH ([N] atoms; the harness interns the real DAH hashes).
    Every source of nondeterminism (fetch result, block time vs window, sync status, store failure, getter outcome)
    is an oracle value carried by the event.  Executable; proofs in ListenerProofs.v. *)
From Coq Require Import List NArith Bool.
Import ListNotations.
Open Scope N_scope.

Record config := mkcfg { archival : bool }.

(** what a source serves for a height *)
Record block := mkblock {
  b_height : N;        (* header height of the served block (sources are expected to serve the requested height) *)
  b_chain_ok : bool;   (* header chain id = configured chain id *)
  b_eds_ok : bool;     (* da.ConstructEDS succeeds (app version <> 0, square fits) *)
  b_dah : N;           (* DAH of the square built from the block's transactions *)
  b_datahash : N;      (* DataHash field of the block header *)
  b_in_window : bool;  (* block time within the availability window *)
  b_empty : bool }.    (* the square is the empty square *)

Record stored := mkstored { s_dah : N; s_q4 : bool; s_inwin : bool; s_empty : bool }.
Record pub := mkpub { p_height : N; p_dah : N; p_datahash : N; p_local : bool }.

Record state := mkst {
  store : list (N * stored);     (* height -> square; first binding wins, bindings are never replaced *)
  published : list pub;          (* header broadcasts, oldest first *)
  hashes : list (N * N);         (* shrex-sub notifications (height, data hash), oldest first *)
  given : list (N * N);          (* headers (height, dah) for which SharesAvailable / Exchange returned success *)
  crashed : bool }.              (* the listener panicked: the process is gone *)

Definition init : state := mkst [] [] [] [] false.

Fixpoint lookup (h : N) (m : list (N * stored)) : option stored :=
  match m with
  | [] => None
  | (k, v) :: m' => if k =? h then Some v else lookup h m'
  end.
Definition has (h : N) (st : state) : bool := match lookup h (store st) with Some _ => true | None => false end.

(** [store.put]: an existing height link is kept ("exists" = success) *)
Definition put (h : N) (v : stored) (m : list (N * stored)) : list (N * stored) :=
  match lookup h m with Some _ => m | None => m ++ [(h, v)] end.

(** * storeEDS (core/eds.go) *)
Inductive store_res := SSkipped | SStored | SFailed.

Definition store_eds (cfg : config) (store_ok : bool) (h dah : N) (in_window empty : bool) (m : list (N * stored))
  : store_res * list (N * stored) :=
  if negb (archival cfg) && negb in_window then (SSkipped, m)
  else if negb store_ok then (SFailed, m)
  else (SStored, put h (mkstored dah (in_window || empty) in_window empty) m).

(** * Listener *)
Record event := mkev {
  e_height : N; e_src : N;
  e_has_err : bool;           (* store.HasByHeight fails *)
  e_fetch : option block;     (* GetSignedBlockFrom from the announcing source *)
  e_sync : option bool;       (* IsSyncingFrom: None = error, Some syncing *)
  e_store_ok : bool }.

Inductive outcome :=
| OStoreErr | ODuplicate | OFetchErr | OHistoric | OSyncErr | OPanic | OProcessErr | OProcessed | ODead.

Definition handle (cfg : config) (st : state) (ev : event) : state * outcome :=
  if crashed st then (st, ODead) else
  if e_has_err ev then (st, OStoreErr) else
  if has (e_height ev) st then (st, ODuplicate) else
  match e_fetch ev with
  | None => (st, OFetchErr)
  | Some b =>
      if negb (archival cfg) && negb (b_in_window b) then (st, OHistoric) else
      match e_sync ev with
      | None => (st, OSyncErr)
      | Some syncing =>
          if negb (b_chain_ok b) then (mkst (store st) (published st) (hashes st) (given st) true, OPanic) else
          if negb (b_eds_ok b) then (st, OProcessErr) else
          match store_eds cfg (e_store_ok ev) (b_height b) (b_dah b) (b_in_window b) (b_empty b) (store st) with
          | (SFailed, _) => (st, OProcessErr)
          | (_, m) =>
              (mkst m
                    (published st ++ [mkpub (b_height b) (b_dah b) (b_datahash b) syncing])
                    (if syncing then hashes st else hashes st ++ [(b_height b, b_datahash b)])
                    (given st) false,
               OProcessed)
          end
      end
  end.

(** * Exchange.GetByHeight (core/exchange.go): fetch, build, storeEDS, return the header *)
Record xreq := mkxreq { x_fetch : option block; x_store_ok : bool }.
Inductive xres := XErr | XPanic | XHeader (h dah : N).

Definition exchange_get (cfg : config) (st : state) (r : xreq) : state * xres :=
  if crashed st then (st, XErr) else
  match x_fetch r with
  | None => (st, XErr)
  | Some b =>
      if negb (b_chain_ok b) then (mkst (store st) (published st) (hashes st) (given st) true, XPanic) else
      if negb (b_eds_ok b) then (st, XErr) else
      match store_eds cfg (x_store_ok r) (b_height b) (b_dah b) (b_in_window b) (b_empty b) (store st) with
      | (SFailed, _) => (st, XErr)
      | (SSkipped, _) => (st, XHeader (b_height b) (b_dah b))     (* header only: nothing kept for a pruned node *)
      | (SStored, m) =>
          (mkst m (published st) (hashes st) (given st ++ [(b_height b, b_dah b)]) false, XHeader (b_height b) (b_dah b))
      end
  end.

(** * Exchange.Get (core/exchange.go), header BY HASH: BlockByHash, chain-id panic, commit + validator set of the
      served block's height (GetBlockInfo), square, extended header, "verify hashes match" - the hash of the header
      built from what the endpoint served against the requested hash - and only then storeEDS.  A served block whose
      header hash differs from the requested one is an error and nothing of it is kept. *)
Record hreq := mkhreq {
  h_fetch : option block;   (* BlockByHash: the block the endpoint serves for the requested hash *)
  h_info_ok : bool;         (* GetBlockInfo (commit, validator set) succeeds *)
  h_hash_ok : bool;         (* hash of the served block's header = requested hash *)
  h_store_ok : bool }.

Definition exchange_get_by_hash (cfg : config) (st : state) (r : hreq) : state * xres :=
  if crashed st then (st, XErr) else
  match h_fetch r with
  | None => (st, XErr)
  | Some b =>
      if negb (b_chain_ok b) then (mkst (store st) (published st) (hashes st) (given st) true, XPanic) else
      if negb (h_info_ok r) then (st, XErr) else
      if negb (b_eds_ok b) then (st, XErr) else
      if negb (h_hash_ok r) then (st, XErr) else
      exchange_get cfg st (mkxreq (h_fetch r) (h_store_ok r))
  end.

(** * full.ShareAvailability.SharesAvailable *)
Inductive getter_out :=
| GSquare | GNotFound | GDeadline | GCanceled | GByzantine | GByzDeadline | GByzNotFound | GOther.

Record areq := mkareq { a_height : N; a_dah : N; a_in_window : bool; a_empty : bool; a_get : getter_out; a_store_ok : bool }.

Inductive ares := AOk | AOutside | ANotAvailable | ACanceled | AByzantine | AOther | AStoreErr.

Definition map_getter_err (g : getter_out) : ares :=
  match g with
  | GSquare => AOk
  | GCanceled => ACanceled
  | GNotFound | GDeadline => ANotAvailable
  | GByzNotFound => ANotAvailable      (* errors.Is(err, ErrNotFound) wins over the byzantine check *)
  | GByzantine | GByzDeadline => AByzantine
  | GOther => AOther
  end.

Definition shares_available (cfg : config) (st : state) (r : areq) : state * ares :=
  if crashed st then (st, AOther) else
  if negb (archival cfg) && negb (a_in_window r) then (st, AOutside) else
  if a_empty r then
    if a_store_ok r
    then (mkst (put (a_height r) (mkstored (a_dah r) true (a_in_window r) true) (store st)) (published st) (hashes st)
               (given st ++ [(a_height r, a_dah r)]) false, AOk)
    else (st, AStoreErr)
  else if has (a_height r) st then
    (mkst (store st) (published st) (hashes st) (given st ++ [(a_height r, a_dah r)]) false, AOk)
  else match a_get r with
       | GSquare =>
           if a_store_ok r
           then (mkst (put (a_height r) (mkstored (a_dah r) (a_in_window r) (a_in_window r) false) (store st)) (published st)
                      (hashes st) (given st ++ [(a_height r, a_dah r)]) false, AOk)
           else (st, AStoreErr)
       | g => (st, map_getter_err g)
       end.

(** * Histories *)
Inductive op := OpCore (ev : event) | OpExchange (r : xreq) | OpAvail (r : areq) | OpHash (r : hreq).

Definition step (cfg : config) (st : state) (o : op) : state :=
  match o with
  | OpCore ev => fst (handle cfg st ev)
  | OpExchange r => fst (exchange_get cfg st r)
  | OpAvail r => fst (shares_available cfg st r)
  | OpHash r => fst (exchange_get_by_hash cfg st r)
  end.

Definition run (cfg : config) (st : state) (os : list op) : state := fold_left (step cfg) os st.

(** * Correspondence cases: a history and what the implementation showed *)
Definition ocode (o : outcome) : N :=
  match o with
  | OStoreErr => 0 | ODuplicate => 1 | OFetchErr => 2 | OHistoric => 3 | OSyncErr => 4 | OPanic => 5
  | OProcessErr => 6 | OProcessed => 7 | ODead => 8
  end.
Definition xcode (r : xres) : N := match r with XErr => 20 | XPanic => 21 | XHeader _ _ => 22 end.
Definition acode (r : ares) : N :=
  match r with
  | AOk => 30 | AOutside => 31 | ANotAvailable => 32 | ACanceled => 33 | AByzantine => 34 | AOther => 35 | AStoreErr => 36
  end.

Definition op_code (cfg : config) (st : state) (o : op) : N :=
  match o with
  | OpCore ev => ocode (snd (handle cfg st ev))
  | OpExchange r => xcode (snd (exchange_get cfg st r))
  | OpAvail r => acode (snd (shares_available cfg st r))
  | OpHash r => xcode (snd (exchange_get_by_hash cfg st r))
  end.

Fixpoint run_codes (cfg : config) (st : state) (os : list op) : list N * state :=
  match os with
  | [] => ([], st)
  | o :: os' => let c := op_code cfg st o in
                let (cs, st') := run_codes cfg (step cfg st o) os' in (c :: cs, st')
  end.

(** observed: per-op result codes, final store as (height, dah, has-q4) in ascending height order,
    header broadcasts (height, dah, data hash, local-only) and hash notifications in order *)
Record observed := mkobs {
  o_codes : list N;
  o_store : list (N * N * bool);
  o_pubs : list (N * N * N * bool);
  o_hashes : list (N * N) }.

Fixpoint insert_sorted (x : N * N * bool) (l : list (N * N * bool)) : list (N * N * bool) :=
  match l with
  | [] => [x]
  | y :: l' => if fst (fst x) <=? fst (fst y) then x :: l else y :: insert_sorted x l'
  end.
Definition sorted_store (m : list (N * stored)) : list (N * N * bool) :=
  fold_right (fun kv acc => insert_sorted (fst kv, s_dah (snd kv), s_q4 (snd kv)) acc) [] m.

Definition model_obs (cfg : config) (os : list op) : observed :=
  let (cs, st) := run_codes cfg init os in
  mkobs cs (sorted_store (store st)) (map (fun p => (p_height p, p_dah p, p_datahash p, p_local p)) (published st)) (hashes st).

Fixpoint n_eqb_list (a b : list N) : bool :=
  match a, b with [], [] => true | x :: a', y :: b' => (x =? y) && n_eqb_list a' b' | _, _ => false end.
Fixpoint list_eqb {A} (eq : A -> A -> bool) (a b : list A) : bool :=
  match a, b with [], [] => true | x :: a', y :: b' => eq x y && list_eqb eq a' b' | _, _ => false end.

Definition obs_eqb (a b : observed) : bool :=
  n_eqb_list (o_codes a) (o_codes b) &&
  list_eqb (fun x y => (fst (fst x) =? fst (fst y)) && (snd (fst x) =? snd (fst y)) && Bool.eqb (snd x) (snd y)) (o_store a) (o_store b) &&
  list_eqb (fun x y => match x, y with (h, d, dh, l), (h', d', dh', l') => (h =? h') && (d =? d') && (dh =? dh') && Bool.eqb l l' end)
           (o_pubs a) (o_pubs b) &&
  list_eqb (fun x y => (fst x =? fst y) && (snd x =? snd y)) (o_hashes a) (o_hashes b).

Definition case : Type := config * list op * observed.
Definition agree (c : case) : bool := match c with (cfg, os, ob) => obs_eqb (model_obs cfg os) ob end.

Fixpoint mism_from (n : N) (cs : list case) : list N :=
  match cs with
  | [] => []
  | c :: cs' => if agree c then mism_from (N.succ n) cs' else n :: mism_from (N.succ n) cs'
  end.
Definition mismatches (cs : list case) : list N := mism_from 0 cs.

(** C04 / C13 — (1) the code before each of the four fixes violates the corresponding theorem (concrete histories, the
    ones the harness replays on the implementation); (2) the hypotheses of the theorems are met by non-trivial reachable
    states of the repaired model. *)
From Coq Require Import List ZArith Bool Lia.
From CN Require Import Das.Coordinator Das.MapFacts Das.Invariant Das.Theorems Das.Attempts Das.Progress.
Import ListNotations.
Open Scope Z_scope.

(** a boolean test that is implied by [covered] *)
Definition coveredb (s : st) (h : Z) : bool :=
  memz h (sampled s) ||
  existsb (fun w => in_range w h && ((wnext w <=? h) || mem h (wfail w))) (workers s) ||
  (next s <=? h) || mem h (failed s) || mem h (inretry s).

Lemma covered_coveredb s h : covered s h -> coveredb s h = true.
Proof.
  unfold covered, coveredb. intros [H|[H|[H|[H|H]]]].
  - apply memz_In in H. rewrite H. reflexivity.
  - destruct H as [w [Hw [Hr Hc]]].
    assert (E : existsb (fun w => in_range w h && ((wnext w <=? h) || mem h (wfail w))) (workers s) = true).
    { apply existsb_exists. exists w. split; [exact Hw|]. apply andb_true_iff. split.
      - unfold in_range. apply andb_true_iff. split; apply Z.leb_le; lia.
      - apply orb_true_iff. destruct Hc as [Hc|Hc]; [left; apply Z.leb_le; exact Hc|right; apply mem_dom; exact Hc]. }
    rewrite E. rewrite orb_true_r. reflexivity.
  - apply Z.leb_le in H. rewrite H. rewrite orb_true_r. reflexivity.
  - apply (proj2 (mem_dom (failed s) h)) in H. rewrite H. rewrite orb_true_r. reflexivity.
  - apply (proj2 (mem_dom (inretry s) h)) in H. rewrite H. rewrite orb_true_r. reflexivity.
Qed.

Definition tbl : list Z := [1; 4; 16; 64].

Ltac splits := cbv zeta; repeat match goal with |- _ /\ _ => split end.
Ltac vmr := vm_compute; first [reflexivity | congruence | lia].
Ltac validc := split; [reflexivity|split; vm_compute; congruence].

(** * Before fix-c04-1: a checkpoint written while the newest head is being sampled loses that head *)
Definition cfg_a : cfg := mkCfg 10 1 tbl (mkVariant false true true true).
Definition hist_a : list event :=
  [Restart 1 3 []; Step 1 Ok; Step 1 Ok; Step 1 Ok; Deliver 1 []; NewHead 4 []; Stop; Restart 1 4 []].

Theorem restart_cover_refuted :
  exists c es h, vr c = mkVariant false true true true /\ 1 <= limit c /\ 1 <= range c /\
    let s := run c init es in running s = true /\ lo s <= h <= head s /\ ~ covered s h.
Proof.
  exists cfg_a, hist_a, 4. splits; try vmr.
  intros H. apply covered_coveredb in H. vm_compute in H. discriminate.
Qed.

(** the same history on the repaired code keeps the head in flight *)
Example restart_cover_nonvacuous :
  let c := mkCfg 10 1 tbl repaired in let s := run c init hist_a in
  valid c /\ running s = true /\ lo s <= 4 <= head s /\ ~ In 4 (sampled s) /\ in_flight s 4.
Proof.
  cbv zeta. split; [validc|]. split; [vmr|]. split; [vm_compute; split; congruence|].
  split.
  - vm_compute. intros [H|[H|[H|[]]]]; discriminate.
  - exists (new_worker 1 Recent 4 4). vm_compute. split; [left; reflexivity|].
    split; [split; congruence|]. left. congruence.
Qed.

(** * Before fix-c13-1: restarted with nothing to do, catch-up is not reported done *)
Definition cfg_b : cfg := mkCfg 10 1 tbl (mkVariant true false true true).
Definition hist_b : list event :=
  [Restart 1 2 []; Step 1 Ok; Step 1 Ok; Deliver 1 []; Stop; Restart 1 2 []].

Theorem done_iff_refuted :
  exists c es, vr c = mkVariant true false true true /\ 1 <= limit c /\ 1 <= range c /\
    let s := run c init es in
    running s = true /\ workers s = [] /\ failed s = [] /\ head s < next s /\ done s = false.
Proof. exists cfg_b, hist_b. splits; vmr. Qed.

Example done_iff_nonvacuous :
  let c := mkCfg 10 1 tbl repaired in
  valid c /\ done (run c init hist_b) = true /\ running (run c init hist_b) = true /\
  done (run c init (hist_b ++ [NewHead 3 []])) = false.
Proof. cbv zeta. split; [validc|]. splits; vmr. Qed.

(** * Before fix-c13-2: a Canceled sampling error while the DASer runs ends the worker without a report;
      the job can never be delivered, its slot stays taken and catch-up cannot complete *)
Definition cfg_c : cfg := mkCfg 5 1 tbl (mkVariant true true false true).
Definition hist_c : list event := [Restart 1 8 []; Step 1 Ok; Step 1 Ok; Step 1 Cancel].

Theorem report_once_refuted :
  exists c es w, vr c = mkVariant true true false true /\ 1 <= limit c /\ 1 <= range c /\
    let s := run c init es in
    running s = true /\ In w (workers s) /\ wexit w = true /\
    (forall o, step c s (Step (wid w) o) = s) /\ (forall picks, step c s (Deliver (wid w) picks) = s) /\
    (forall picks, step c s (Wake picks) = s) /\ done s = false.
Proof.
  exists cfg_c, hist_c, (mkWorker 1 Catchup 1 5 3 [] true).
  splits; try vmr.
  vm_compute. left. reflexivity.
Qed.

Example report_once_nonvacuous :
  let c := mkCfg 5 1 tbl repaired in let s := run c init hist_c in
  valid c /\ running s = true /\
  exists w, In w (workers s) /\ wexit w = false /\ wfinished w = false /\ lookup 3 (wfail w) = Some 1.
Proof.
  cbv zeta. split; [validc|]. split; [vmr|].
  exists (mkWorker 1 Catchup 1 5 4 [(3, 1)] false). vm_compute. split; [left; reflexivity|]. splits; reflexivity.
Qed.

(** * Before fix-c13-3: a catch-up result for a height that already failed twice resets its attempt count to 1 *)
Definition cfg_d : cfg := mkCfg 2 1 tbl (mkVariant true true true false).
Definition hist_d : list event :=
  [Restart 1 1 []; NewHead 4 []; Step 2 Fail; Deliver 2 []; Tick 2; Step 1 Ok; Deliver 1 []; Step 3 Fail; Deliver 3 [];
   Step 4 Ok; Step 4 Ok; Deliver 4 []; Step 5 Fail].

Theorem attempt_monotone_refuted :
  exists c es e k, vr c = mkVariant true true true false /\ 1 <= limit c /\ 1 <= range c /\
    let s := run c init es in
    ~ is_restart e /\ ~ reports_success s e k /\ ~ att_le (att_count s k) (att_count (step c s e) k).
Proof.
  exists cfg_d, hist_d, (Deliver 5 []), 4. cbv zeta. split; [vmr|]. split; [vmr|]. split; [vmr|]. split; [|split].
  - intros [t [hd [p E]]]. discriminate.
  - intros [id [picks [w [E [Hf [_ Hl]]]]]]. injection E as <- <-. vm_compute in Hf. injection Hf as <-.
    vm_compute in Hl. discriminate.
  - vm_compute. intros H. apply H. reflexivity.
Qed.

Example attempt_monotone_nonvacuous :
  let c := mkCfg 2 1 tbl repaired in let s := run c init hist_d in
  valid c /\ att_count s 4 = Some 2 /\ att_count (step c s (Deliver 5 [])) 4 = Some 3.
Proof. cbv zeta. split; [validc|]. split; vmr. Qed.

(** * Bounds are reached, progress has something to do *)
Example conc_bound_nonvacuous :
  let c := mkCfg 1 1 tbl repaired in
  let s := run c init [Restart 1 5 []; NewHead 6 []] in
  valid c /\ length (workers s) = 2%nat /\ nonrecent_workers s = 1%nat.
Proof. cbv zeta. split; [validc|]. split; vmr. Qed.

Example progress_nonvacuous :
  let c := mkCfg 2 1 tbl repaired in let s := run c init hist_d in
  valid c /\ running s = true /\ done s = false /\ mu s = 11 /\ good c s (Deliver 5 []).
Proof.
  cbv zeta. split; [validc|]. split; [vmr|]. split; [vmr|]. split; [vmr|].
  eapply (g_deliver _ _ 5 (mkWorker 5 Catchup 4 4 5 [(4, 1)] false)); vmr.
Qed.

(** C04 / C13 — executable model of the DASer sampling coordinator (package das of celestia-node):
    state.go (recentJob, catchupJob, retryJob, handleResult, unsafeStats, checkDone, resumeFromCheckpoint),
    coordinator.go (the run loop: fill free slots, then one of head / result / stats-wait; both concurrency limits),
    worker.go (run loop, [curr], what happens on context.Canceled), checkpoint.go (newCheckpoint),
    daser.go (Start: load + clamp the checkpoint to the header store's tail/head; Stop: checkpoint, cancel, checkpoint),
    store.go (background store rule), backoff.go (nextRetry).

    Granularity: one event = one thing the coordinator goroutine or one worker goroutine does between two
    synchronisation points (channel rendezvous / worker lock).  Go's randomised map iteration in [retryJob] is an
    explicit choice list carried by the event ([picks]).  Time is a counter advanced by [Tick].

    The code variants: [repaired] is the tree with the four fixes fix-c04-1, fix-c13-1, fix-c13-2, fix-c13-3 applied;
    each flag switched off gives the code before that fix (kept to state the refuted theorems).

    No proofs here (see CoordinatorProofs.v). *)
From Coq Require Import List ZArith Bool Lia.
Import ListNotations.
Open Scope Z_scope.

(** * Association maps keyed by height (Go maps; at most one binding per key is kept) *)
Definition amap (V : Type) : Type := list (Z * V).

Fixpoint lookup {V} (k : Z) (m : amap V) : option V :=
  match m with
  | [] => None
  | (k', v) :: m' => if k =? k' then Some v else lookup k m'
  end.
Fixpoint remove {V} (k : Z) (m : amap V) : amap V :=
  match m with
  | [] => []
  | (k', v) :: m' => if k =? k' then remove k m' else (k', v) :: remove k m'
  end.
Definition insert {V} (k : Z) (v : V) (m : amap V) : amap V := (k, v) :: remove k m.
Definition keys {V} (m : amap V) : list Z := map fst m.
Definition mem {V} (k : Z) (m : amap V) : bool := match lookup k m with Some _ => true | None => false end.
Definition memz (x : Z) (l : list Z) : bool := existsb (Z.eqb x) l.

(** * Configuration *)
Record variant := mkVariant {
  fix_recent_cp : bool;   (* fix-c04-1: newCheckpoint also persists in-flight recent jobs *)
  fix_start_done : bool;  (* fix-c13-1: checkDone once the checkpoint has been resumed *)
  fix_cancel : bool;      (* fix-c13-2: a Canceled sampling error while the DASer runs is a failed sample *)
  fix_count : bool        (* fix-c13-3: a re-failed height continues from its last recorded attempt *)
}.
Definition repaired : variant := mkVariant true true true true.
Definition original : variant := mkVariant false false false false.

Record cfg := mkCfg {
  range : Z;          (* Parameters.SamplingRange, >= 1 *)
  limit : Z;          (* Parameters.ConcurrencyLimit, >= 1 *)
  table : list Z;     (* retryStrategy.retryIntervals *)
  vr : variant
}.

(** * Workers *)
Inductive jtype := Catchup | Recent | Retry.
Definition jtype_eqb (a b : jtype) : bool :=
  match a, b with Catchup, Catchup | Recent, Recent | Retry, Retry => true | _, _ => false end.
Definition jrank (a : jtype) : Z := match a with Catchup => 0 | Recent => 1 | Retry => 2 end.

(** [wnext] is the loop variable of worker.run (the next height to sample); the [curr] reported by getState is
    [wcurr]: the job's [from] until a height has completed, afterwards the last completed height.
    The loop is over when [wto < wnext]: the worker then blocks sending its result.
    [wexit]: the goroutine returned without sending (context.Canceled). *)
Record worker := mkWorker {
  wid : Z; wty : jtype; wfrom : Z; wto : Z; wnext : Z; wfail : amap Z; wexit : bool
}.
Definition wcurr (w : worker) : Z := if wnext w =? wfrom w then wfrom w else wnext w - 1.
Definition wfinished (w : worker) : bool := wto w <? wnext w.
Definition new_worker (id : Z) (ty : jtype) (from to : Z) : worker := mkWorker id ty from to from [] false.

(** * Retry attempts and the back-off table (backoff.go) *)
Record att := mkAtt { cnt : Z; after : Z }.
Definition att0 : att := mkAtt 0 0.

Definition next_retry (c : cfg) (a : att) (now : Z) : att :=
  let n := cnt a + 1 in
  match table c with
  | [] => mkAtt n (after a)
  | _ =>
    let len := Z.of_nat (length (table c)) in
    if len <? n then mkAtt n (now + last (table c) 0)
    else mkAtt n (now + nth (Z.to_nat (n - 1)) (table c) 0)
  end.
Definition can_retry (a : att) (now : Z) : bool := after a <? now.

(** * Checkpoints (checkpoint.go) *)
Record cpw := mkCpw { cw_ty : jtype; cw_from : Z; cw_to : Z }.
Record cp := mkCp { c_from : Z; c_head : Z; c_failed : amap Z; c_workers : list cpw }.

(** * State *)
Record st := mkSt {
  (* coordinatorState *)
  next : Z; head : Z; failed : amap att; inretry : amap att; workers : list worker; nextid : Z; done : bool;
  (* the instance *)
  running : bool;        (* coordinator and workers alive *)
  bgprev : Z;            (* runBackgroundStore's [prev] *)
  (* environment *)
  now : Z;               (* clock *)
  persisted : option cp; (* datastore content under das/checkpoint *)
  storehead : Z;         (* head of the header store: every announced head is in it *)
  (* ghost *)
  lo : Z;                (* the DASer's starting point: the largest store tail a start has seen *)
  sampled : list Z       (* heights for which the sampler returned nil or ErrOutsideSamplingWindow *)
}.

Definition init : st := mkSt 1 0 [] [] [] 0 false false 0 0 None 0 1 [].

Definition set_coord (s : st) (nx hd : Z) (f r : amap att) (ws : list worker) (ni : Z) (d : bool) : st :=
  mkSt nx hd f r ws ni d (running s) (bgprev s) (now s) (persisted s) (storehead s) (lo s) (sampled s).
Definition set_workers (s : st) (ws : list worker) : st :=
  set_coord s (next s) (head s) (failed s) (inretry s) ws (nextid s) (done s).
Definition set_done (s : st) (d : bool) : st :=
  set_coord s (next s) (head s) (failed s) (inretry s) (workers s) (nextid s) d.

(** checkDone *)
Definition done_cond (s : st) : bool :=
  match workers s, failed s with [], [] => head s <? next s | _, _ => false end.
Definition check_done (s : st) : st := set_done s (done_cond s).

(** * Job creation (state.go) *)
Definition start_recent (s : st) (h : Z) : st :=
  let nx := if next s =? h then next s + 1 else next s in
  let id := nextid s + 1 in
  set_coord s nx (head s) (failed s) (inretry s) (workers s ++ [new_worker id Recent h h]) id (done s).

Definition start_catchup (c : cfg) (s : st) : option st :=
  if head s <? next s then None
  else
    let to := Z.min (next s + range c - 1) (head s) in
    let id := nextid s + 1 in
    Some (set_coord s (to + 1) (head s) (failed s) (inretry s)
                    (workers s ++ [new_worker id Catchup (next s) to]) id (done s)).

Definition start_retry (s : st) (h : Z) : st :=
  match lookup h (failed s) with
  | None => s
  | Some a =>
    let id := nextid s + 1 in
    set_coord s (next s) (head s) (remove h (failed s)) (insert h a (inretry s))
              (workers s ++ [new_worker id Retry h h]) id (done s)
  end.

Definition retriable (s : st) : list Z := keys (filter (fun ka => can_retry (snd ka) (now s)) (failed s)).

Definition minimum (d : Z) (l : list Z) : Z := fold_left Z.min l d.

(** which retriable height the map iteration of retryJob yields first: the event says; a choice that is not
    available falls back to the smallest *)
Definition choose (picks cands : list Z) : option (Z * list Z) :=
  match cands with
  | [] => None
  | c0 :: _ =>
    match picks with
    | p :: ps => if memz p cands then Some (p, ps) else Some (minimum c0 cands, ps)
    | [] => Some (minimum c0 cands, [])
    end
  end.

(** coordinator.go run: [for !concurrencyLimitReached() { nextJob (retry first, then catch-up) }] *)
Fixpoint fill (c : cfg) (fuel : nat) (picks : list Z) (s : st) : st :=
  match fuel with
  | O => s
  | S f =>
    if limit c <=? Z.of_nat (length (workers s)) then s
    else match choose picks (retriable s) with
         | Some (h, ps) => fill c f ps (start_retry s h)
         | None => match start_catchup c s with
                   | Some s' => fill c f picks s'
                   | None => s
                   end
         end
  end.
Definition fill_slots (c : cfg) (picks : list Z) (s : st) : st := fill c (Z.to_nat (limit c)) picks s.

(** * Results (state.go handleResult) *)
Definition cnt_of (o : option att) : Z := match o with Some a => cnt a | None => 0 end.
Definition att_of (o : option att) : att := match o with Some a => a | None => att0 end.

(** the most advanced attempt recorded for a height (repaired code); the code before fix-c13-3 starts from zero
    for catch-up / recent results and from inRetry[h] for retry results *)
Definition last_att (f r : amap att) (h : Z) : att :=
  let a := att_of (lookup h f) in
  match lookup h r with
  | Some b => if cnt a <? cnt b then b else a
  | None => a
  end.

Definition base_att (c : cfg) (ty : jtype) (f r : amap att) (h : Z) : att :=
  if fix_count (vr c) then last_att f r h
  else match ty with Retry => att_of (lookup h r) | _ => att0 end.

Definition record_failures (c : cfg) (ty : jtype) (nw : Z) (r : amap att) (hs : list Z) (f : amap att) : amap att :=
  fold_left (fun f h => insert h (next_retry c (base_att c ty f r h) nw) f) hs f.

Definition in_range (w : worker) (h : Z) : bool := (wfrom w <=? h) && (h <=? wto w).

Definition handle_result (c : cfg) (s : st) (w : worker) : st :=
  let ws := filter (fun x => negb (wid x =? wid w)) (workers s) in
  let s1 :=
    match wty w with
    | Retry =>
      let f := record_failures c Retry (now s) (inretry s) (keys (wfail w)) (failed s) in
      let r := filter (fun ka => negb (in_range w (fst ka))) (inretry s) in
      set_coord s (next s) (head s) f r ws (nextid s) (done s)
    | ty =>
      let f1 := filter (fun ka => negb (in_range w (fst ka) && negb (mem (fst ka) (wfail w)))) (failed s) in
      let f := record_failures c ty (now s) (inretry s) (keys (wfail w)) f1 in
      set_coord s (next s) (head s) f (inretry s) ws (nextid s) (done s)
    end in
  check_done s1.

Definition find_worker (s : st) (id : Z) : option worker := find (fun w => wid w =? id) (workers s).

(** * Statistics and checkpoint (state.go unsafeStats, checkpoint.go newCheckpoint) *)
Definition bump (h : Z) (n : Z) (m : amap Z) : amap Z :=
  insert h (match lookup h m with Some v => v + n | None => n end) m.

Definition stats_failed (s : st) : amap Z :=
  let m1 := fold_left (fun m w => fold_left (fun m h => bump h 1 m) (keys (wfail w)) m) (workers s) [] in
  let m2 := fold_left (fun m ka => bump (fst ka) (cnt (snd ka)) m) (failed s) m1 in
  fold_left (fun m ka => bump (fst ka) (cnt (snd ka)) m) (inretry s) m2.

Definition lowest (s : st) : Z :=
  let l1 := fold_left (fun l w => Z.min (minimum l (keys (wfail w))) (wcurr w)) (workers s) (next s) in
  minimum l1 (keys (failed s)).

Definition sampled_chain_head (s : st) : Z := lowest s - 1.

Definition persist_worker (c : cfg) (w : worker) : bool :=
  match wty w with
  | Catchup => true
  | Recent => fix_recent_cp (vr c)
  | Retry => false
  end.

Definition cp_of (c : cfg) (s : st) : cp :=
  mkCp (next s) (head s) (stats_failed s)
       (map (fun w => mkCpw (wty w) (wcurr w) (wto w)) (filter (persist_worker c) (workers s))).

(** daser.go checkpoint(): load, or initialise from the store; clamp to the store's tail and head *)
Definition clamp (tail hd : Z) (p : cp) : cp :=
  mkCp (Z.max (c_from p) tail) (Z.max (c_head p) hd)
       (filter (fun kv => tail <=? fst kv) (c_failed p))
       (map (fun w => mkCpw (cw_ty w) (Z.max (cw_from w) tail) (cw_to w))
            (filter (fun w => tail <=? cw_to w) (c_workers p))).

Definition start_cp (tail hd : Z) (o : option cp) : cp :=
  match o with
  | None => mkCp tail hd [] []
  | Some p => clamp tail hd p
  end.

(** resumed workers get their job ids in the order of the persisted list, which is the (random) order of the
    statistics' worker list; the model fixes it by sorting *)
Definition cpw_leb (a b : cpw) : bool :=
  if cw_from a <? cw_from b then true else if cw_from b <? cw_from a then false
  else if cw_to a <? cw_to b then true else if cw_to b <? cw_to a then false
  else jrank (cw_ty a) <=? jrank (cw_ty b).
Fixpoint cpw_ins (x : cpw) (l : list cpw) : list cpw :=
  match l with
  | [] => [x]
  | y :: r => if cpw_leb x y then x :: l else y :: cpw_ins x r
  end.
Definition cpw_sort (l : list cpw) : list cpw := fold_right cpw_ins [] l.

Fixpoint resume_workers (id : Z) (l : list cpw) : list worker :=
  match l with
  | [] => []
  | w :: r => new_worker (id + 1) (cw_ty w) (cw_from w) (cw_to w) :: resume_workers (id + 1) r
  end.

(** coordinator.run up to the loop: resumeFromCheckpoint (retries start without delay: [after] = the time of the
    resume, which lies before every later reading of the clock), resume the workers *)
Definition resume (c : cfg) (s : st) (p : cp) : st :=
  let ws := resume_workers 0 (cpw_sort (c_workers p)) in
  let f := map (fun kv => (fst kv, mkAtt (snd kv) (now s - 1))) (c_failed p) in
  let s1 := mkSt (c_from p) (c_head p) f [] ws (Z.of_nat (length ws)) false
                 true 0 (now s) (persisted s) (storehead s) (lo s) (sampled s) in
  if fix_start_done (vr c) then check_done s1 else s1.

(** * Events *)
Inductive outcome := Ok | Fail | Outside | Cancel.

Inductive event :=
| NewHead (h : Z) (picks : list Z)      (* subscription delivers a header to the coordinator *)
| Deliver (id : Z) (picks : list Z)     (* the coordinator receives the result of a finished worker *)
| Wake (picks : list Z)                 (* a statistics request (SamplingStats) passes through the loop *)
| Checkpoint (picks : list Z)           (* background store: statistics request + store rule *)
| Step (id : Z) (o : outcome)           (* a worker's sampler call for its next height returns *)
| Tick (d : Z)                          (* time passes *)
| Stop                                  (* DASer.Stop: checkpoint, cancel, wait, checkpoint *)
| Crash                                 (* the process dies *)
| Restart (tail hd : Z) (picks : list Z). (* DASer.Start on the persisted checkpoint; store tail / head *)

Definition upd_worker (s : st) (w : worker) : st :=
  set_workers s (map (fun x => if wid x =? wid w then w else x) (workers s)).

Definition add_sampled (s : st) (h : Z) : st :=
  mkSt (next s) (head s) (failed s) (inretry s) (workers s) (nextid s) (done s) (running s) (bgprev s)
       (now s) (persisted s) (storehead s) (lo s) (h :: sampled s).

Definition step_worker (c : cfg) (s : st) (w : worker) (o : outcome) : st :=
  let h := wnext w in
  let ok := add_sampled (upd_worker s (mkWorker (wid w) (wty w) (wfrom w) (wto w) (h + 1) (wfail w) false)) h in
  let ko := upd_worker s (mkWorker (wid w) (wty w) (wfrom w) (wto w) (h + 1) (bump h 1 (wfail w)) false) in
  match o with
  | Ok | Outside => ok
  | Fail => ko
  | Cancel => if fix_cancel (vr c) then ko
              else upd_worker s (mkWorker (wid w) (wty w) (wfrom w) (wto w) h (wfail w) true)
  end.

Definition set_env (s : st) (run : bool) (bp : Z) (nw : Z) (p : option cp) (sh : Z) : st :=
  mkSt (next s) (head s) (failed s) (inretry s) (workers s) (nextid s) (done s) run bp nw p sh (lo s) (sampled s).

Definition handle_head (s : st) (c : cfg) (h : Z) : st :=
  if head s <? h then
    let s1 := if Z.of_nat (length (workers s)) <? 2 * limit c then start_recent s h else s in
    check_done (set_coord s1 (next s1) h (failed s1) (inretry s1) (workers s1) (nextid s1) (done s1))
  else s.

Definition step (c : cfg) (s : st) (e : event) : st :=
  match e with
  | NewHead h picks =>
    if running s then
      let s1 := set_env s true (bgprev s) (now s) (persisted s) (Z.max (storehead s) h) in
      fill_slots c picks (handle_head s1 c h)
    else s
  | Deliver id picks =>
    if running s then
      match find_worker s id with
      | Some w => if wfinished w && negb (wexit w) then fill_slots c picks (handle_result c s w) else s
      | None => s
      end
    else s
  | Wake picks => if running s then fill_slots c picks s else s
  | Checkpoint picks =>
    if running s then
      let p := cp_of c s in
      let s1 := if bgprev s <? c_from p then set_env s true (c_from p) (now s) (Some p) (storehead s) else s in
      fill_slots c picks s1
    else s
  | Step id o =>
    if running s then
      match find_worker s id with
      | Some w => if wfinished w || wexit w then s else step_worker c s w o
      | None => s
      end
    else s
  | Tick d => if 0 <? d then set_env s (running s) (bgprev s) (now s + d) (persisted s) (storehead s) else s
  | Stop => if running s then set_env s false (bgprev s) (now s) (Some (cp_of c s)) (storehead s) else s
  | Crash => set_env s false (bgprev s) (now s) (persisted s) (storehead s)
  | Restart tail hd picks =>
    if running s || (tail <? 1) then s
    else
      let sh := Z.max (Z.max (storehead s) hd) tail in
      let p := start_cp tail sh (persisted s) in
      let s0 := mkSt (next s) (head s) (failed s) (inretry s) (workers s) (nextid s) (done s) false 0 (now s)
                     (persisted s) sh (Z.max (lo s) tail) (sampled s) in
      fill_slots c picks (resume c s0 p)
  end.

Definition run (c : cfg) (s : st) (es : list event) : st := fold_left (step c) es s.

(** * Observations compared with the implementation *)
Record obs := mkObs {
  o_running : bool;
  o_sch : Z; o_catchup : Z; o_head : Z;                 (* SampledChainHead, CatchupHead, NetworkHead *)
  o_failed : amap Z;                                    (* Failed *)
  o_fatt : list (Z * Z * bool * Z);                     (* state.failed: height, count, due now, else due time *)
  o_rcnt : amap Z;                                      (* state.inRetry: height -> count *)
  o_workers : list (Z * jtype * Z * Z * Z * list Z * bool);
     (* job id, type, from, to, curr, heights failed inside the worker, loop finished *)
  o_done : bool;                                        (* CatchUpDone *)
  o_cpnow : cp;                                         (* newCheckpoint(stats) *)
  o_persisted : option cp                               (* datastore content *)
}.

Definition amap_eqb (a b : amap Z) : bool :=
  forallb (fun k => match lookup k a, lookup k b with
                    | Some x, Some y => x =? y | None, None => true | _, _ => false end) (keys a ++ keys b).

Definition cpw_eqb (a b : cpw) : bool :=
  jtype_eqb (cw_ty a) (cw_ty b) && (cw_from a =? cw_from b) && (cw_to a =? cw_to b).
Definition count_cpw (x : cpw) (l : list cpw) : nat := length (filter (cpw_eqb x) l).
Definition cpws_eqb (a b : list cpw) : bool :=
  forallb (fun x => Nat.eqb (count_cpw x a) (count_cpw x b)) (a ++ b).

Definition cp_eqb (a b : cp) : bool :=
  (c_from a =? c_from b) && (c_head a =? c_head b) && amap_eqb (c_failed a) (c_failed b)
  && cpws_eqb (c_workers a) (c_workers b).
Definition ocp_eqb (a b : option cp) : bool :=
  match a, b with Some x, Some y => cp_eqb x y | None, None => true | _, _ => false end.

Fixpoint list_eqb {A} (eqb : A -> A -> bool) (a b : list A) : bool :=
  match a, b with
  | [], [] => true
  | x :: a', y :: b' => eqb x y && list_eqb eqb a' b'
  | _, _ => false
  end.

Definition wobs (w : worker) : Z * jtype * Z * Z * Z * list Z * bool :=
  (wid w, wty w, wfrom w, wto w, wcurr w, keys (wfail w), wfinished w).
Definition set_eqb (a b : list Z) : bool := forallb (fun x => memz x b) a && forallb (fun x => memz x a) b.
Definition wobs_eqb (a b : Z * jtype * Z * Z * Z * list Z * bool) : bool :=
  match a, b with
  | (i, t, f, o, cu, fl, fi), (i', t', f', o', cu', fl', fi') =>
    (i =? i') && jtype_eqb t t' && (f =? f') && (o =? o') && (cu =? cu') && set_eqb fl fl' && Bool.eqb fi fi'
  end.

Definition fatt_of (s : st) : list (Z * Z * bool * Z) :=
  map (fun ka => let r := can_retry (snd ka) (now s) in
                 (fst ka, cnt (snd ka), r, if r then 0 else after (snd ka))) (failed s).
Definition fatt_eqb1 (a b : Z * Z * bool * Z) : bool :=
  match a, b with (h, n, r, t), (h', n', r', t') => (h =? h') && (n =? n') && Bool.eqb r r' && (t =? t') end.
Definition fatt_eqb (a b : list (Z * Z * bool * Z)) : bool :=
  Nat.eqb (length a) (length b) && forallb (fun x => existsb (fatt_eqb1 x) b) a.

Definition obs_of (c : cfg) (s : st) : obs :=
  mkObs (running s) (sampled_chain_head s) (next s - 1) (head s) (stats_failed s) (fatt_of s)
        (map (fun ka => (fst ka, cnt (snd ka))) (inretry s)) (map wobs (workers s)) (done s)
        (cp_of c s) (persisted s).

(** a stopped instance is observed through the datastore only *)
Definition obs_eqb (a b : obs) : bool :=
  Bool.eqb (o_running a) (o_running b) && ocp_eqb (o_persisted a) (o_persisted b) &&
  (negb (o_running a) ||
   ((o_sch a =? o_sch b) && (o_catchup a =? o_catchup b) && (o_head a =? o_head b) &&
    amap_eqb (o_failed a) (o_failed b) && fatt_eqb (o_fatt a) (o_fatt b) && amap_eqb (o_rcnt a) (o_rcnt b) &&
    list_eqb wobs_eqb (o_workers a) (o_workers b) &&
    Bool.eqb (o_done a) (o_done b) && cp_eqb (o_cpnow a) (o_cpnow b))).

(** ** Canonical serialisation and fingerprint of an observation.
    Most cases carry the fingerprint of what the implementation showed instead of the full record (the harness computes
    the same serialisation and polynomial hash); a sample of the cases carries the full record. *)
Fixpoint ins_by {A} (f : A -> Z) (x : A) (l : list A) : list A :=
  match l with
  | [] => [x]
  | y :: r => if f x <=? f y then x :: l else y :: ins_by f x r
  end.
Definition sort_by {A} (f : A -> Z) (l : list A) : list A := fold_right (ins_by f) [] l.

Definition ser_map (m : amap Z) : list Z :=
  Z.of_nat (length m) :: flat_map (fun kv => [fst kv; snd kv]) (sort_by fst m).
Definition ser_cp (p : cp) : list Z :=
  [c_from p; c_head p] ++ ser_map (c_failed p) ++
  Z.of_nat (length (c_workers p)) :: flat_map (fun w => [jrank (cw_ty w); cw_from w; cw_to w]) (cpw_sort (c_workers p)).
Definition ser_ocp (o : option cp) : list Z := match o with None => [0] | Some p => 1 :: ser_cp p end.
Definition b2z (b : bool) : Z := if b then 1 else 0.
Definition ser_fatt (l : list (Z * Z * bool * Z)) : list Z :=
  Z.of_nat (length l) ::
  flat_map (fun x => match x with (h, n, r, t) => [h; n; b2z r; t] end)
           (sort_by (fun x => match x with (h, _, _, _) => h end) l).
Definition ser_wobs (x : Z * jtype * Z * Z * Z * list Z * bool) : list Z :=
  match x with
  | (i, t, f, o, cu, fl, fi) => [i; jrank t; f; o; cu; Z.of_nat (length fl)] ++ sort_by (fun z => z) fl ++ [b2z fi]
  end.
Definition ser_obs (o : obs) : list Z :=
  b2z (o_running o) ::
  (if o_running o then
     [o_sch o; o_catchup o; o_head o] ++ ser_map (o_failed o) ++ ser_fatt (o_fatt o) ++ ser_map (o_rcnt o) ++
     Z.of_nat (length (o_workers o)) :: flat_map ser_wobs (o_workers o) ++ [b2z (o_done o)] ++ ser_cp (o_cpnow o)
   else []) ++ ser_ocp (o_persisted o).

(** multiplier odd: for a fixed suffix the map on the accumulator is a bijection mod 2^31, so two serialisations that
    differ in one position never collide; [Z.land] because [Z.modulo] by a prime is what dominated evaluation time *)
Definition hash_mask : Z := 2147483647.   (* 2^31 - 1 *)
Definition hash_z (l : list Z) : Z :=
  fold_left (fun acc x => Z.land (acc * 1000003 + x + 4294967296) hash_mask) l 7.

Inductive oexp := OFull (o : obs) | OHash (z : Z).
Definition oexp_ok (model : obs) (e : oexp) : bool :=
  match e with
  | OFull o => obs_eqb model o
  | OHash z => hash_z (ser_obs model) =? z
  end.

(** a case: configuration, events, and what the implementation showed after each *)
Definition case : Type := cfg * list (event * oexp).

Fixpoint first_bad (c : cfg) (s : st) (n : nat) (l : list (event * oexp)) : option nat :=
  match l with
  | [] => None
  | (e, o) :: r =>
    let s' := step c s e in
    if oexp_ok (obs_of c s') o then first_bad c s' (S n) r else Some n
  end.

Definition agree (k : case) : bool := match first_bad (fst k) init 0 (snd k) with None => true | Some _ => false end.

Fixpoint mism_from (n : N) (cs : list case) : list N :=
  match cs with
  | [] => []
  | k :: cs' => if agree k then mism_from (N.succ n) cs' else n :: mism_from (N.succ n) cs'
  end.
Definition mismatches (cs : list case) : list N := mism_from 0%N cs.

(** debugging aids: where a case first differs, and the model's observation after a prefix of the events *)
Definition where_bad (k : case) : option nat := first_bad (fst k) init 0 (snd k).
Definition obs_after (k : case) (n : nat) : obs := obs_of (fst k) (run (fst k) init (map fst (firstn n (snd k)))).

(** ** Flat cases.  Parsing typed terms is what costs time in Coq, so the bulk of the histories comes as a flat list of
    numbers: per event an opcode with its arguments, then the fingerprint of the observation.
      10 h | 11 h n p1..pn     NewHead           20 id | 21 id n p..   Deliver
      30 | 31 n p..            Wake              40 | 41 n p..         Checkpoint
      6 d  Tick    7  Stop     8  Crash          90 tail hd | 91 tail hd n p..   Restart
      100 + 4*id + o           Step id o  (o: 0 Ok, 1 Fail, 2 Outside, 3 Cancel) *)
Definition out_of (z : Z) : outcome := if z =? 0 then Ok else if z =? 1 then Fail else if z =? 2 then Outside else Cancel.

Definition take_picks (l : list Z) : list Z * list Z :=
  match l with
  | n :: r => (firstn (Z.to_nat n) r, skipn (Z.to_nat n) r)
  | [] => ([], [])
  end.

(** one event and the rest of the stream *)
Definition decode1 (l : list Z) : option (event * list Z) :=
  match l with
  | [] => None
  | op :: r =>
    if 100 <=? op then Some (Step ((op - 100) / 4) (out_of ((op - 100) mod 4)), r)
    else if op =? 10 then match r with h :: r' => Some (NewHead h [], r') | _ => None end
    else if op =? 11 then match r with h :: r' => let (p, r'') := take_picks r' in Some (NewHead h p, r'') | _ => None end
    else if op =? 20 then match r with i :: r' => Some (Deliver i [], r') | _ => None end
    else if op =? 21 then match r with i :: r' => let (p, r'') := take_picks r' in Some (Deliver i p, r'') | _ => None end
    else if op =? 30 then Some (Wake [], r)
    else if op =? 31 then let (p, r') := take_picks r in Some (Wake p, r')
    else if op =? 40 then Some (Checkpoint [], r)
    else if op =? 41 then let (p, r') := take_picks r in Some (Checkpoint p, r')
    else if op =? 6 then match r with d :: r' => Some (Tick d, r') | _ => None end
    else if op =? 7 then Some (Stop, r)
    else if op =? 8 then Some (Crash, r)
    else if op =? 90 then match r with t :: h :: r' => Some (Restart t h [], r') | _ => None end
    else if op =? 91 then match r with t :: h :: r' => let (p, r'') := take_picks r' in Some (Restart t h p, r'') | _ => None end
    else None
  end.

Fixpoint decode (fuel : nat) (l : list Z) : option (list (event * oexp)) :=
  match fuel with
  | O => match l with [] => Some [] | _ => None end
  | S f =>
    match l with
    | [] => Some []
    | _ => match decode1 l with
           | Some (e, hz :: r) => match decode f r with Some es => Some ((e, OHash hz) :: es) | None => None end
           | _ => None
           end
    end
  end.

Definition fcase : Type := cfg * list Z.
Definition fagree (k : fcase) : bool :=
  match decode (length (snd k)) (snd k) with
  | Some es => agree (fst k, es)
  | None => false
  end.
Fixpoint fmism_from (n : N) (cs : list fcase) : list N :=
  match cs with
  | [] => []
  | k :: cs' => if fagree k then fmism_from (N.succ n) cs' else n :: fmism_from (N.succ n) cs'
  end.
Definition fmismatches (cs : list fcase) : list N := fmism_from 0%N cs.
Definition fwhere_bad (k : fcase) : option nat :=
  match decode (length (snd k)) (snd k) with Some es => where_bad (fst k, es) | None => Some O end.

(** C13 — progress: a variant function that every "good" event (a successful sample, a delivered result, a wake-up that
    can start a job, time passing until a back-off expires) strictly decreases, and one of which is always enabled
    until catch-up is reported done. *)
From Coq Require Import List ZArith Bool Lia.
From CN Require Import Das.Coordinator Das.MapFacts Das.Invariant Das.InvFacts Das.InvSteps Das.InvCp Das.CoordinatorProofs.
Import ListNotations.
Open Scope Z_scope.

(** * The variant *)
Definition fw (nw : Z) (a : att) : Z := if can_retry a nw then 4 else 5.
Fixpoint fmass (nw : Z) (f : amap att) : Z :=
  match f with [] => 0 | (_, a) :: r => fw nw a + fmass nw r end.
Definition wmass (w : worker) : Z := 2 * (wto w + 1 - wnext w) + 1 + 5 * Z.of_nat (length (wfail w)).
Fixpoint wsmass (ws : list worker) : Z :=
  match ws with [] => 0 | w :: r => wmass w + wsmass r end.
Definition qmass (s : st) : Z := 4 * Z.max 0 (head s + 1 - next s).
Definition mu (s : st) : Z := qmass s + wsmass (workers s) + fmass (now s) (failed s).

(** * Good events *)
Inductive good (c : cfg) (s : st) : event -> Prop :=
| g_step id w o : find_worker s id = Some w -> wfinished w = false -> (o = Ok \/ o = Outside) -> good c s (Step id o)
| g_deliver id w picks : find_worker s id = Some w -> wfinished w = true -> good c s (Deliver id picks)
| g_wake picks : Z.of_nat (length (workers s)) < limit c -> (retriable s <> [] \/ next s <= head s) -> good c s (Wake picks)
| g_tick d : 0 < d ->
    (exists h a, In (h, a) (failed s) /\ can_retry a (now s) = false /\ can_retry a (now s + d) = true) ->
    good c s (Tick d).

Fixpoint good_trace (c : cfg) (s : st) (es : list event) : Prop :=
  match es with
  | [] => True
  | e :: r => good c s e /\ good_trace c (step c s e) r
  end.

(** * Mass lemmas *)
Lemma fw_bounds nw a : 4 <= fw nw a <= 5.
Proof. unfold fw. destruct (can_retry a nw); lia. Qed.

Lemma fmass_nonneg nw f : 0 <= fmass nw f.
Proof. induction f as [|[k a] f IH]; cbn; [lia|]. pose proof (fw_bounds nw a). lia. Qed.

Lemma fmass_remove_le nw h f : fmass nw (remove h f) <= fmass nw f.
Proof.
  induction f as [|[k a] f IH]; cbn; [lia|]. pose proof (fw_bounds nw a).
  destruct (h =? k); cbn; lia.
Qed.

Lemma fmass_remove nw h f a : lookup h f = Some a -> fmass nw (remove h f) + fw nw a <= fmass nw f.
Proof.
  induction f as [|[k b] f IH]; cbn; [discriminate|].
  destruct (Z.eqb_spec h k).
  - intros [= ->]. pose proof (fmass_remove_le nw h f). lia.
  - intros H. specialize (IH H). cbn. lia.
Qed.

Lemma fmass_insert nw h a f : fmass nw (insert h a f) <= fmass nw f + 5.
Proof. unfold insert. cbn. pose proof (fw_bounds nw a). pose proof (fmass_remove_le nw h f). lia. Qed.

Lemma fmass_filter nw (p : Z * att -> bool) f : fmass nw (filter p f) <= fmass nw f.
Proof.
  induction f as [|[k a] f IH]; cbn; [lia|]. pose proof (fw_bounds nw a). destruct (p (k, a)); cbn; lia.
Qed.

Lemma fmass_record c ty nw r hs : forall f,
  fmass nw (record_failures c ty nw r hs f) <= fmass nw f + 5 * Z.of_nat (length hs).
Proof.
  unfold record_failures. induction hs as [|h hs IH]; intros f; cbn [fold_left length]; [lia|].
  specialize (IH (insert h (next_retry c (base_att c ty f r h) nw) f)).
  pose proof (fmass_insert nw h (next_retry c (base_att c ty f r h) nw) f). lia.
Qed.

Lemma fmass_time nw d f : 0 <= d -> fmass (nw + d) f <= fmass nw f.
Proof.
  intros Hd. induction f as [|[k a] f IH]; cbn; [lia|].
  assert (fw (nw + d) a <= fw nw a).
  { unfold fw, can_retry. destruct (Z.ltb_spec (after a) nw); destruct (Z.ltb_spec (after a) (nw + d)); lia. }
  lia.
Qed.

Lemma fmass_time_strict nw d f h a :
  0 <= d -> In (h, a) f -> can_retry a nw = false -> can_retry a (nw + d) = true -> fmass (nw + d) f < fmass nw f.
Proof.
  intros Hd Hin H1 H2. induction f as [|[k b] f IH]; [elim Hin|]. cbn.
  destruct Hin as [[= -> ->]|Hin].
  - pose proof (fmass_time nw d f Hd). unfold fw. rewrite H1, H2. lia.
  - specialize (IH Hin).
    assert (fw (nw + d) b <= fw nw b).
    { unfold fw, can_retry. destruct (Z.ltb_spec (after b) nw); destruct (Z.ltb_spec (after b) (nw + d)); lia. }
    lia.
Qed.

Lemma wsmass_app ws w : wsmass (ws ++ [w]) = wsmass ws + wmass w.
Proof. induction ws as [|x ws IH]; cbn; [lia|]. rewrite IH. lia. Qed.

Lemma wsmass_remove ws w :
  NoDup (map wid ws) -> In w ws -> wsmass (filter (fun x => negb (wid x =? wid w)) ws) + wmass w = wsmass ws.
Proof.
  induction ws as [|x ws IH]; intros Hn Hw; [elim Hw|].
  cbn in Hn. inversion Hn as [|? ? Hnin Hn']; subst. cbn [filter wsmass].
  destruct Hw as [->|Hw].
  - rewrite Z.eqb_refl. cbn [negb].
    assert (E : filter (fun x => negb (wid x =? wid w)) ws = ws).
    { clear IH Hn Hn'. induction ws as [|y ws IH]; cbn; [reflexivity|].
      destruct (Z.eqb_spec (wid y) (wid w)) as [E|E].
      - elim Hnin. left. exact E.
      - cbn. f_equal. apply IH. intros H. apply Hnin. right. exact H. }
    rewrite E. lia.
  - destruct (Z.eqb_spec (wid x) (wid w)) as [E|E].
    + elim Hnin. rewrite E. apply in_map. exact Hw.
    + cbn [negb wsmass]. specialize (IH Hn' Hw). lia.
Qed.

Lemma wsmass_upd ws w w' :
  NoDup (map wid ws) -> In w ws -> wid w' = wid w ->
  wsmass (map (fun x => if wid x =? wid w' then w' else x) ws) + wmass w = wsmass ws + wmass w'.
Proof.
  induction ws as [|x ws IH]; intros Hn Hw E; [elim Hw|].
  cbn in Hn. inversion Hn as [|? ? Hnin Hn']; subst. cbn [map wsmass].
  destruct Hw as [->|Hw].
  - rewrite E, Z.eqb_refl.
    assert (E' : map (fun x => if wid x =? wid w then w' else x) ws = ws).
    { clear IH Hn Hn'. induction ws as [|y ws IH]; cbn; [reflexivity|].
      destruct (Z.eqb_spec (wid y) (wid w)) as [Ey|Ey].
      - elim Hnin. left. exact Ey.
      - f_equal. apply IH. intros H. apply Hnin. right. exact H. }
    rewrite E'. lia.
  - destruct (Z.eqb_spec (wid x) (wid w')) as [Ex|Ex].
    + elim Hnin. rewrite Ex, E. apply in_map. exact Hw.
    + specialize (IH Hn' Hw E). lia.
Qed.

Lemma wsmass_nonneg s ws : (forall w, In w ws -> wf_worker s w) -> 0 <= wsmass ws.
Proof.
  induction ws as [|w ws IH]; intros H; cbn; [lia|].
  assert (0 <= wsmass ws) by (apply IH; intros x Hx; apply H; right; exact Hx).
  destruct (H w (or_introl eq_refl)) as (W1 & W2 & _). unfold wmass. lia.
Qed.

Lemma choose_in picks cands h ps : choose picks cands = Some (h, ps) -> In h cands.
Proof.
  unfold choose. destruct cands as [|c0 cs]; [discriminate|].
  assert (Hmin : In (minimum c0 (c0 :: cs)) (c0 :: cs)).
  { destruct (minimum_in (c0 :: cs) c0) as [E|H]; [rewrite E; left; reflexivity|exact H]. }
  destruct picks as [|p ps'].
  - intros [= <- _]. exact Hmin.
  - destruct (memz p (c0 :: cs)) eqn:Em.
    + intros [= <- _]. apply memz_In. exact Em.
    + intros [= <- _]. exact Hmin.
Qed.

Section Progress.
  Variable c : cfg.
  Hypothesis Hv : valid c.
  Let Hvr : vr c = repaired. Proof. apply Hv. Qed.
  Let Hlim : 1 <= limit c. Proof. apply Hv. Qed.
  Let Hrange : 1 <= range c. Proof. apply Hv. Qed.

  Lemma mu_start_retry s h a : lookup h (failed s) = Some a -> mu (start_retry s h) < mu s.
  Proof.
    intros Ha. unfold start_retry. rewrite Ha. unfold mu, qmass. psimpl. rewrite wsmass_app.
    pose proof (fmass_remove (now s) h (failed s) a Ha). pose proof (fw_bounds (now s) a).
    unfold wmass. cbn [new_worker wto wnext wfail length]. lia.
  Qed.

  Lemma mu_start_retry_le s h : mu (start_retry s h) <= mu s.
  Proof.
    destruct (lookup h (failed s)) as [a|] eqn:Ha; [pose proof (mu_start_retry s h a Ha); lia|].
    unfold start_retry. rewrite Ha. lia.
  Qed.

  Lemma mu_start_catchup s s' : start_catchup c s = Some s' -> mu s' < mu s.
  Proof.
    unfold start_catchup. destruct (Z.ltb_spec (head s) (next s)) as [|Hq]; [discriminate|]. intros [= <-].
    unfold mu, qmass. psimpl. rewrite wsmass_app. unfold wmass. cbn [new_worker wto wnext wfail length]. lia.
  Qed.

  Lemma mu_fill fuel : forall picks s, mu (fill c fuel picks s) <= mu s.
  Proof.
    induction fuel as [|f IH]; intros picks s; cbn [fill]; [lia|].
    destruct (limit c <=? Z.of_nat (length (workers s))); [lia|].
    destruct (choose picks (retriable s)) as [[h ps]|].
    - pose proof (IH ps (start_retry s h)). pose proof (mu_start_retry_le s h). lia.
    - destruct (start_catchup c s) as [s'|] eqn:E; [|lia].
      pose proof (IH picks s'). pose proof (mu_start_catchup s s' E). lia.
  Qed.

  Lemma retriable_lookup s h : In h (retriable s) -> exists a, lookup h (failed s) = Some a.
  Proof.
    unfold retriable. intros H. apply dom_keys in H.
    apply lookup_dom_some in H as [a Ha]. apply lookup_in in Ha. apply filter_In in Ha as [Ha _].
    apply lookup_dom_some. eapply in_dom. exact Ha.
  Qed.

  (** a wake-up with a free slot and something to start strictly decreases the variant *)
  Lemma mu_fill_strict picks s :
    Z.of_nat (length (workers s)) < limit c -> (retriable s <> [] \/ next s <= head s) ->
    mu (fill_slots c picks s) < mu s.
  Proof.
    intros Hslot Hwork. unfold fill_slots.
    destruct (Z.to_nat (limit c)) as [|f] eqn:Ef; [lia|]. cbn [fill].
    destruct (Z.leb_spec (limit c) (Z.of_nat (length (workers s)))); [lia|].
    destruct (choose picks (retriable s)) as [[h ps]|] eqn:Ec.
    - apply choose_in in Ec. apply retriable_lookup in Ec as [a Ha].
      pose proof (mu_fill f ps (start_retry s h)). pose proof (mu_start_retry s h a Ha). lia.
    - assert (Hr : retriable s = []).
      { unfold choose in Ec. destruct (retriable s); [reflexivity|]. destruct picks; [discriminate|].
        destruct (memz z0 (z :: l)); discriminate. }
      destruct Hwork as [Hw|Hq]; [contradiction|].
      unfold start_catchup. destruct (Z.ltb_spec (head s) (next s)) as [|_]; [lia|].
      match goal with |- mu (fill c f picks ?x) < _ =>
        pose proof (mu_fill f picks x); assert (mu x < mu s) end.
      { apply mu_start_catchup. unfold start_catchup. destruct (Z.ltb_spec (head s) (next s)); [lia|reflexivity]. }
      lia.
  Qed.

  Lemma mu_handle_result s w :
    Inv c s -> In w (workers s) -> wfinished w = true -> mu (handle_result c s w) < mu s.
  Proof.
    intros HI Hw Hfin. unfold wfinished in Hfin. apply Z.ltb_lt in Hfin.
    destruct (I_wf c s HI w Hw) as (W1 & W2 & _).
    pose proof (wsmass_remove (workers s) w (I_ids c s HI) Hw) as Hws.
    assert (Hk : length (keys (wfail w)) = length (wfail w)) by (unfold keys; apply map_length).
    assert (Hwm : wmass w = 1 + 5 * Z.of_nat (length (wfail w))) by (unfold wmass; lia).
    unfold handle_result, check_done, mu, qmass. destruct (wty w); psimpl.
    - pose proof (fmass_record c Catchup (now s) (inretry s) (keys (wfail w))
                    (filter (fun ka => negb (in_range w (fst ka) && negb (mem (fst ka) (wfail w)))) (failed s))).
      pose proof (fmass_filter (now s) (fun ka => negb (in_range w (fst ka) && negb (mem (fst ka) (wfail w)))) (failed s)). lia.
    - pose proof (fmass_record c Recent (now s) (inretry s) (keys (wfail w))
                    (filter (fun ka => negb (in_range w (fst ka) && negb (mem (fst ka) (wfail w)))) (failed s))).
      pose proof (fmass_filter (now s) (fun ka => negb (in_range w (fst ka) && negb (mem (fst ka) (wfail w)))) (failed s)). lia.
    - pose proof (fmass_record c Retry (now s) (inretry s) (keys (wfail w)) (failed s)). lia.
  Qed.

  (** ** every good event decreases the variant *)
  Theorem good_decreases s e : Good c s -> running s = true -> good c s e -> mu (step c s e) < mu s.
  Proof.
    intros (HI & _ & _) Hrun Hg. destruct Hg as [id w o Hf Hfin Ho|id w picks Hf Hfin|picks Hslot Hwork|d Hd Hex]; cbn [step]; rewrite Hrun.
    - rewrite Hf. pose proof (I_wf c s HI w (proj1 (find_worker_in s id w Hf))) as (_ & _ & _ & _ & W5 & _).
      rewrite Hfin, W5. cbn [orb].
      apply find_worker_in in Hf as [Hw _]. unfold wfinished in Hfin. apply Z.ltb_ge in Hfin.
      pose proof (wsmass_upd (workers s) w (mkWorker (wid w) (wty w) (wfrom w) (wto w) (wnext w + 1) (wfail w) false)
                    (I_ids c s HI) Hw eq_refl) as Hu.
      unfold wmass in Hu. cbn [wto wnext wfail] in Hu.
      unfold step_worker. destruct Ho as [-> | ->]; unfold mu, qmass, upd_worker; psimpl; lia.
    - rewrite Hf. pose proof (I_wf c s HI w (proj1 (find_worker_in s id w Hf))) as (_ & _ & _ & _ & W5 & _).
      rewrite Hfin, W5. cbn [andb negb]. apply find_worker_in in Hf as [Hw _].
      pose proof (mu_handle_result s w HI Hw Hfin). pose proof (mu_fill (Z.to_nat (limit c)) picks (handle_result c s w)).
      unfold fill_slots. lia.
    - apply mu_fill_strict; assumption.
    - destruct (Z.ltb_spec 0 d); [|lia]. destruct Hex as [h [a [Hin [H1 H2]]]].
      unfold mu, qmass. psimpl. pose proof (fmass_time_strict (now s) d (failed s) h a ltac:(lia) Hin H1 H2). lia.
  Qed.

  Lemma good_keeps_running s e : running s = true -> good c s e -> running (step c s e) = true.
  Proof.
    intros Hrun Hg. destruct Hg as [id w o Hf Hfin Ho|id w picks Hf Hfin|picks Hslot Hwork|d Hd Hex]; cbn [step]; rewrite Hrun.
    - rewrite Hf. destruct (wfinished w || wexit w); [exact Hrun|].
      unfold step_worker. destruct o; try destruct (fix_cancel (vr c)); exact Hrun.
    - rewrite Hf. destruct (wfinished w && negb (wexit w)); [|exact Hrun].
      unfold fill_slots. destruct (fill_env c (Z.to_nat (limit c)) picks (handle_result c s w)) as (_ & _ & E & _).
      rewrite E. unfold handle_result, check_done. destruct (wty w); exact Hrun.
    - unfold fill_slots. destruct (fill_env c (Z.to_nat (limit c)) picks s) as (_ & _ & E & _). rewrite E. exact Hrun.
    - destruct (0 <? d); [reflexivity|exact Hrun].
  Qed.

  Lemma mu_nonneg s : Inv c s -> 0 <= mu s.
  Proof.
    intros HI. unfold mu, qmass. pose proof (fmass_nonneg (now s) (failed s)).
    pose proof (wsmass_nonneg s (workers s) (I_wf c s HI)). lia.
  Qed.

  (** ** any run of good events is no longer than the variant *)
  Theorem good_trace_bound es : forall s,
    Good c s -> running s = true -> good_trace c s es -> Z.of_nat (length es) <= mu s.
  Proof.
    induction es as [|e es IH]; intros s HG Hrun Ht.
    - cbn. apply mu_nonneg. apply HG.
    - destruct Ht as [Hg Ht]. pose proof (good_decreases s e HG Hrun Hg).
      specialize (IH (step c s e) (Good_step c Hv s e HG) (good_keeps_running s e Hrun Hg) Ht).
      cbn [length]. lia.
  Qed.

  (** ** until catch-up is done some good event is enabled *)
  Lemma find_worker_of s w : NoDup (map wid (workers s)) -> In w (workers s) -> find_worker s (wid w) = Some w.
  Proof.
    unfold find_worker. intros Hn Hw. induction (workers s) as [|x ws IH]; [elim Hw|].
    cbn in Hn. inversion Hn as [|? ? Hnin Hn']; subst. cbn [find].
    destruct Hw as [->|Hw]; [rewrite Z.eqb_refl; reflexivity|].
    destruct (Z.eqb_spec (wid x) (wid w)) as [E|E]; [|apply IH; assumption].
    elim Hnin. rewrite E. apply in_map. exact Hw.
  Qed.

  Theorem good_enabled s : Good c s -> running s = true -> done s = false -> exists e, good c s e.
  Proof.
    intros (HI & _ & Hd) Hrun Hnd. specialize (Hd Hrun). unfold done_ok in Hd. rewrite Hnd in Hd.
    destruct (workers s) as [|w ws] eqn:Ews.
    - destruct (retriable s) as [|h0 hs] eqn:Er.
      + destruct (Z.le_gt_cases (next s) (head s)) as [Hq|Hq].
        * exists (Wake []). apply g_wake; [rewrite Ews; cbn; lia|right; exact Hq].
        * (* nothing due, nothing queued: some failed entry waits for its back-off *)
          destruct (failed s) as [|[h a] f] eqn:Ef.
          { exfalso. unfold done_cond in Hd. rewrite Ews, Ef in Hd. apply eq_sym, Z.ltb_ge in Hd. lia. }
          assert (Hna : can_retry a (now s) = false).
          { unfold retriable in Er. rewrite Ef in Er. cbn [filter snd] in Er. destruct (can_retry a (now s)); [discriminate|reflexivity]. }
          exists (Tick (after a - now s + 1)). unfold can_retry in Hna. apply Z.ltb_ge in Hna.
          apply g_tick; [lia|]. exists h, a. split; [rewrite Ef; left; reflexivity|].
          split; [apply Z.ltb_ge; exact Hna|unfold can_retry; apply Z.ltb_lt; lia].
      + exists (Wake []). apply g_wake; [rewrite Ews; cbn; lia|left; rewrite Er; discriminate].
    - assert (Hw : In w (workers s)) by (rewrite Ews; left; reflexivity).
      pose proof (find_worker_of s w (I_ids c s HI) Hw) as Hf.
      destruct (wfinished w) eqn:Hfin.
      + exists (Deliver (wid w) []). eapply g_deliver; eassumption.
      + exists (Step (wid w) Ok). eapply g_step; [eassumption|exact Hfin|left; reflexivity].
  Qed.

  (** ** hence: from every reachable running state some run of good events, no longer than the variant, ends with
      catch-up reported done *)
  Theorem progress_from s :
    Good c s -> running s = true ->
    exists es, good_trace c s es /\ Z.of_nat (length es) <= mu s /\ done (fold_left (step c) es s) = true.
  Proof.
    intros HG Hrun.
    assert (Hgen : forall n s, Z.to_nat (mu s) = n -> Good c s -> running s = true ->
              exists es, good_trace c s es /\ done (fold_left (step c) es s) = true).
    { clear s HG Hrun. induction n as [n IH] using lt_wf_ind. intros s En HG Hrun.
      destruct (done s) eqn:Hd; [exists []; split; [exact I|exact Hd]|].
      destruct (good_enabled s HG Hrun Hd) as [e Hg].
      pose proof (good_decreases s e HG Hrun Hg) as Hlt.
      pose proof (mu_nonneg (step c s e) (proj1 (Good_step c Hv s e HG))) as Hnn.
      destruct (IH (Z.to_nat (mu (step c s e))) ltac:(lia) (step c s e) eq_refl (Good_step c Hv s e HG)
                   (good_keeps_running s e Hrun Hg)) as [es [Ht Hdone]].
      exists (e :: es). split; [split; assumption|exact Hdone]. }
    destruct (Hgen _ s eq_refl HG Hrun) as [es [Ht Hdone]].
    exists es. split; [exact Ht|]. split; [apply good_trace_bound; assumption|exact Hdone].
  Qed.
End Progress.

(** C13 — retry attempt counts never decrease (except when a success for the height is reported), and a job leaves the
    coordinator only by reporting. *)
From Coq Require Import List ZArith Bool Lia.
From CN Require Import Das.Coordinator Das.MapFacts Das.Invariant Das.InvFacts Das.InvSteps Das.InvCp Das.CoordinatorProofs.
Import ListNotations.
Open Scope Z_scope.

(** the attempt count recorded for a height: the larger of its entries in [failed] and [inRetry]; none if neither *)
Definition omax (a b : option att) : option Z :=
  match a, b with
  | Some x, Some y => Some (Z.max (cnt x) (cnt y))
  | Some x, None => Some (cnt x)
  | None, Some y => Some (cnt y)
  | None, None => None
  end.
Definition att_count (s : st) (h : Z) : option Z := omax (lookup h (failed s)) (lookup h (inretry s)).

(** "does not decrease": a recorded count stays recorded and does not get smaller *)
Definition att_le (o o' : option Z) : Prop :=
  match o, o' with
  | None, _ => True
  | Some x, Some y => x <= y
  | Some _, None => False
  end.

Lemma att_le_refl o : att_le o o.
Proof. destruct o; cbn; [lia|exact I]. Qed.
Lemma att_le_trans a b d : att_le a b -> att_le b d -> att_le a d.
Proof. destruct a, b, d; cbn; try tauto; lia. Qed.

(** the event reports a successful sample of [h] *)
Definition reports_success (s : st) (e : event) (h : Z) : Prop :=
  exists id picks w, e = Deliver id picks /\ find_worker s id = Some w /\ wfrom w <= h <= wto w /\ lookup h (wfail w) = None.

Definition is_restart (e : event) : Prop := exists t hd p, e = Restart t hd p.

Section Att.
  Variable c : cfg.
  Hypothesis Hv : valid c.
  Let Hvr : vr c = repaired. Proof. apply Hv. Qed.

  Lemma att_start_retry s h k : Inv c s -> att_le (att_count s k) (att_count (start_retry s h) k).
  Proof.
    intros HI. unfold start_retry. destruct (lookup h (failed s)) as [a|] eqn:Ha; [|apply att_le_refl].
    unfold att_count. psimpl. destruct (Z.eq_dec k h) as [->|Hne].
    - rewrite Ha, lookup_remove_eq, lookup_insert_eq.
      destruct (lookup h (inretry s)) as [b|] eqn:Hb; cbn; [|lia].
      pose proof (I_att c s HI h a b Ha Hb). lia.
    - rewrite lookup_remove_ne, lookup_insert_ne by exact Hne. apply att_le_refl.
  Qed.

  Lemma att_start_catchup s s' k : start_catchup c s = Some s' -> att_count s' k = att_count s k.
  Proof. unfold start_catchup. destruct (head s <? next s); [discriminate|]. intros [= <-]. reflexivity. Qed.

  Lemma att_fill fuel : forall picks s k, Inv c s -> att_le (att_count s k) (att_count (fill c fuel picks s) k).
  Proof.
    induction fuel as [|f IH]; intros picks s k HI; cbn [fill]; [apply att_le_refl|].
    destruct (Z.leb_spec (limit c) (Z.of_nat (length (workers s)))) as [|Hslot]; [apply att_le_refl|].
    destruct (choose picks (retriable s)) as [[h ps]|].
    - eapply att_le_trans; [apply att_start_retry; exact HI|]. apply IH. apply Inv_start_retry; assumption.
    - destruct (start_catchup c s) as [s'|] eqn:E; [|apply att_le_refl].
      rewrite <- (att_start_catchup s s' k E). apply IH. eapply Inv_start_catchup; eassumption.
  Qed.

  Lemma att_fill_slots picks s k : Inv c s -> att_le (att_count s k) (att_count (fill_slots c picks s) k).
  Proof. apply att_fill. Qed.

  Lemma att_handle_result s w k :
    Inv c s -> In w (workers s) ->
    att_le (att_count s k) (att_count (handle_result c s w) k) \/ (wfrom w <= k <= wto w /\ lookup k (wfail w) = None).
  Proof.
    intros HI Hw.
    assert (Hfixc : fix_count (vr c) = true) by (rewrite Hvr; reflexivity).
    destruct (in_dec Z.eq_dec k (keys (wfail w))) as [Hin|Hnin].
    - (* re-failed: above every earlier count *)
      left. assert (Hmem : mem k (wfail w) = true) by (apply mem_dom, dom_keys; exact Hin).
      assert (Hgen : forall ty f1 r', lookup k f1 = lookup k (failed s) ->
        (lookup k r' = lookup k (inretry s) \/ lookup k r' = None) ->
        att_le (att_count s k) (omax (lookup k (record_failures c ty (now s) (inretry s) (keys (wfail w)) f1)) (lookup k r'))).
      { intros ty f1 r' Hf1 Hr'.
        assert (Hd : dom (record_failures c ty (now s) (inretry s) (keys (wfail w)) f1) k) by (apply record_failures_dom; left; exact Hin).
        apply lookup_dom_some in Hd as [a Ha].
        destruct (record_failures_cnt c Hfixc ty (now s) (inretry s) _ f1 k a Hin Ha) as [G1 G2].
        rewrite Ha. unfold att_count. rewrite <- Hf1.
        destruct (lookup k (inretry s)) as [b|] eqn:Hb.
        - specialize (G2 b eq_refl). destruct Hr' as [-> | ->]; destruct (lookup k f1); cbn in *; lia.
        - destruct Hr' as [-> | ->]; destruct (lookup k f1); cbn in *; lia. }
      unfold handle_result, check_done, att_count at 2. destruct (wty w); psimpl.
      + apply Hgen; [|left; reflexivity].
        rewrite (lookup_filter_key (fun h => negb (in_range w h && negb (mem h (wfail w))))). rewrite Hmem.
        rewrite andb_false_r. reflexivity.
      + apply Hgen; [|left; reflexivity].
        rewrite (lookup_filter_key (fun h => negb (in_range w h && negb (mem h (wfail w))))). rewrite Hmem.
        rewrite andb_false_r. reflexivity.
      + apply Hgen; [reflexivity|].
        rewrite (lookup_filter_key (fun h => negb (in_range w h))). destruct (negb (in_range w k)); [left|right]; reflexivity.
    - assert (Hnone : lookup k (wfail w) = None).
      { destruct (lookup k (wfail w)) eqn:E; [|reflexivity]. elim Hnin. apply dom_keys. unfold dom. rewrite E. discriminate. }
      destruct (in_range w k) eqn:Hr.
      + right. split; [apply in_range_spec; exact Hr|exact Hnone].
      + left. unfold handle_result, check_done, att_count. destruct (wty w); psimpl;
          rewrite (record_failures_other c _ (now s) (inretry s) _ _ k Hnin).
        * rewrite (lookup_filter_key (fun h => negb (in_range w h && negb (mem h (wfail w))))). rewrite Hr. cbn [andb negb]. apply att_le_refl.
        * rewrite (lookup_filter_key (fun h => negb (in_range w h && negb (mem h (wfail w))))). rewrite Hr. cbn [andb negb]. apply att_le_refl.
        * rewrite (lookup_filter_key (fun h => negb (in_range w h))). rewrite Hr. cbn [negb]. apply att_le_refl.
  Qed.

  Theorem att_step s e k :
    Good c s -> ~ is_restart e -> att_le (att_count s k) (att_count (step c s e) k) \/ reports_success s e k.
  Proof.
    intros (HI & HB & Hd) Hnr.
    destruct e as [h picks|id picks|picks|picks|id o|d| | |tail hd picks]; cbn [step].
    - left. destruct (running s); [|apply att_le_refl].
      set (s1 := set_env s true (bgprev s) (now s) (persisted s) (Z.max (storehead s) h)).
      assert (HI1 : Inv c s1).
      { apply Inv_env; [exact HI|lia|]. intros p Hp. apply (pers_mono c s); [exact HI|lia|exact Hp]. }
      assert (HI2 : Inv c (handle_head s1 c h) /\ att_count (handle_head s1 c h) k = att_count s k).
      { unfold handle_head. destruct (head s1 <? h); [|split; [exact HI1|reflexivity]].
        destruct (Z.ltb_spec (Z.of_nat (length (workers s1))) (2 * limit c)).
        - split; [apply Inv_set_done, Inv_set_head, Inv_start_recent; assumption|reflexivity].
        - split; [apply Inv_set_done, Inv_set_head; assumption|reflexivity]. }
      destruct HI2 as [HI2 E]. rewrite <- E. apply att_fill_slots. exact HI2.
    - destruct (running s); [|left; apply att_le_refl].
      destruct (find_worker s id) as [w|] eqn:Hf; [|left; apply att_le_refl].
      destruct (wfinished w && negb (wexit w)) eqn:Hfin; [|left; apply att_le_refl].
      apply andb_true_iff in Hfin as [Hfin _]. pose proof (find_worker_in s id w Hf) as [Hw _].
      destruct (att_handle_result s w k HI Hw) as [H|[H1 H2]].
      + left. eapply att_le_trans; [exact H|]. apply att_fill_slots. apply Inv_handle_result; assumption.
      + right. exists id, picks, w. repeat split; try assumption; lia.
    - left. destruct (running s); [|apply att_le_refl]. apply att_fill_slots. exact HI.
    - left. destruct (running s); [|apply att_le_refl].
      destruct (bgprev s <? c_from (cp_of c s)); [|apply att_fill_slots; exact HI].
      match goal with |- att_le _ (att_count (fill_slots c picks ?x) k) => assert (HI1 : Inv c x) end.
      { apply Inv_env; [exact HI|lia|]. intros p [= <-]. apply cp_of_good; [exact Hv|exact HI|apply HB]. }
      match goal with |- att_le _ (att_count (fill_slots c picks ?x) k) => change (att_count s k) with (att_count x k) end.
      apply att_fill_slots. exact HI1.
    - left. destruct (running s); [|apply att_le_refl]. destruct (find_worker s id) as [w|]; [|apply att_le_refl].
      destruct (wfinished w || wexit w); [apply att_le_refl|].
      unfold step_worker. rewrite Hvr. cbn [fix_cancel repaired]. destruct o; apply att_le_refl.
    - left. destruct (0 <? d); apply att_le_refl.
    - left. destruct (running s); apply att_le_refl.
    - left. apply att_le_refl.
    - elim Hnr. exists tail, hd, picks. reflexivity.
  Qed.

  Theorem attempt_monotone es e k :
    let s := run c init es in
    ~ is_restart e -> att_le (att_count s k) (att_count (step c s e) k) \/ reports_success s e k.
  Proof. intros s. apply att_step. apply Good_run, Hv. Qed.

  (** * A job ends only by reporting *)
  Definition has_id (s : st) (id : Z) : Prop := exists x, In x (workers s) /\ wid x = id.

  Lemma has_id_fill fuel : forall picks s id, has_id s id -> has_id (fill c fuel picks s) id.
  Proof.
    induction fuel as [|f IH]; intros picks s id H; cbn [fill]; [exact H|].
    destruct (limit c <=? Z.of_nat (length (workers s))); [exact H|].
    destruct H as [x [Hx E]].
    destruct (choose picks (retriable s)) as [[h ps]|].
    - apply IH. unfold start_retry. destruct (lookup h (failed s)); [|exists x; split; assumption].
      exists x. split; [psimpl; apply in_snoc; left; exact Hx|exact E].
    - destruct (start_catchup c s) as [s'|] eqn:Es; [|exists x; split; assumption].
      apply IH. unfold start_catchup in Es. destruct (head s <? next s); [discriminate|]. injection Es as <-.
      exists x. split; [psimpl; apply in_snoc; left; exact Hx|exact E].
  Qed.

  Theorem job_ends_by_reporting s e w :
    Good c s -> In w (workers s) -> ~ has_id (step c s e) (wid w) ->
    (exists picks, e = Deliver (wid w) picks) \/ is_restart e.
  Proof.
    intros (HI & _ & _) Hw Hgone.
    assert (H0 : has_id s (wid w)) by (exists w; split; [exact Hw|reflexivity]).
    destruct e as [h picks|id picks|picks|picks|id o|d| | |tail hd picks]; cbn [step] in Hgone.
    - exfalso. apply Hgone. destruct (running s); [|exact H0]. apply has_id_fill.
      unfold handle_head. psimpl. destruct (head s <? h); [|exists w; split; [exact Hw|reflexivity]].
      destruct (Z.of_nat (length (workers s)) <? 2 * limit c); unfold check_done, start_recent; psimpl;
        exists w; (split; [try (apply in_snoc; left); exact Hw|reflexivity]).
    - destruct (Z.eq_dec id (wid w)) as [->|Hne]; [left; exists picks; reflexivity|].
      exfalso. apply Hgone. destruct (running s); [|exact H0].
      destruct (find_worker s id) as [w0|] eqn:Hf; [|exact H0].
      destruct (wfinished w0 && negb (wexit w0)); [|exact H0].
      apply has_id_fill. apply find_worker_in in Hf as [Hw0 E0].
      exists w. split; [|reflexivity].
      unfold handle_result, check_done. destruct (wty w0); psimpl; apply filter_In; (split; [exact Hw|]);
        apply negb_true_iff, Z.eqb_neq; congruence.
    - exfalso. apply Hgone. destruct (running s); [apply has_id_fill|]; exact H0.
    - exfalso. apply Hgone. destruct (running s); [|exact H0]. apply has_id_fill.
      destruct (bgprev s <? c_from (cp_of c s)); exact H0.
    - exfalso. apply Hgone. destruct (running s); [|exact H0]. destruct (find_worker s id) as [w0|]; [|exact H0].
      destruct (wfinished w0 || wexit w0); [exact H0|].
      assert (Hm : forall w' smp, wid w' = wid w0 ->
        has_id (mkSt (next s) (head s) (failed s) (inretry s)
                     (map (fun x => if wid x =? wid w' then w' else x) (workers s)) (nextid s) (done s)
                     (running s) (bgprev s) (now s) (persisted s) (storehead s) (lo s) smp) (wid w)).
      { intros w' smp E. unfold has_id. psimpl.
        exists (if wid w =? wid w' then w' else w). split; [apply in_map_iff; exists w; split; [reflexivity|exact Hw]|].
        destruct (Z.eqb_spec (wid w) (wid w')); congruence. }
      unfold step_worker. rewrite Hvr. cbn [fix_cancel repaired]. destruct o; apply Hm; reflexivity.
    - exfalso. apply Hgone. destruct (0 <? d); exact H0.
    - exfalso. apply Hgone. destruct (running s); exact H0.
    - exfalso. apply Hgone. exact H0.
    - right. exists tail, hd, picks. reflexivity.
  Qed.

  (** while the DASer runs no worker goroutine has returned without sending its result *)
  Theorem no_silent_exit es w :
    let s := run c init es in In w (workers s) -> wexit w = false.
  Proof.
    intros s Hw. destruct (Good_run c Hv es) as (HI & _ & _). apply (I_wf c _ HI w Hw).
  Qed.
End Att.

(** Facts about the pieces of the coordinator model: back-off, recording failures, statistics, worker lists. *)
From Coq Require Import List ZArith Bool Lia.
From CN Require Import Das.Coordinator Das.MapFacts Das.Invariant.
Import ListNotations.
Open Scope Z_scope.

(** * Back-off *)
Lemma cnt_next_retry c a nw : cnt (next_retry c a nw) = cnt a + 1.
Proof.
  unfold next_retry. destruct (table c); [reflexivity|].
  destruct (Z.of_nat (length (z :: l)) <? cnt a + 1); reflexivity.
Qed.

Lemma cnt_last_att_ge f r h :
  cnt_of (lookup h f) <= cnt (last_att f r h) /\ (forall b, lookup h r = Some b -> cnt b <= cnt (last_att f r h)).
Proof.
  unfold last_att. destruct (lookup h r) as [b|].
  - destruct (Z.ltb_spec (cnt (att_of (lookup h f))) (cnt b)); destruct (lookup h f); cbn in *;
      (split; [lia | intros b' [= <-]; lia]).
  - split; [destruct (lookup h f); cbn; lia | intros b' [=]].
Qed.

(** * Recording the failures of a result (repaired code: continue from the last attempt) *)
Section Record.
  Variable c : cfg.
  Hypothesis Hfix : fix_count (vr c) = true.

  Lemma record_failures_dom ty nw r hs : forall f h,
    dom (record_failures c ty nw r hs f) h <-> In h hs \/ dom f h.
  Proof.
    unfold record_failures. induction hs as [|h0 hs IH]; intros f h; cbn [fold_left].
    - split; [intros H; right; exact H | intros [[]|H]; exact H].
    - rewrite IH, dom_insert. cbn [In]. split; intros H; intuition.
  Qed.

  Lemma record_failures_other ty nw r hs : forall f h,
    ~ In h hs -> lookup h (record_failures c ty nw r hs f) = lookup h f.
  Proof.
    unfold record_failures. induction hs as [|h0 hs IH]; intros f h Hn; cbn [fold_left]; [reflexivity|].
    rewrite IH by (intros H; apply Hn; right; exact H).
    apply lookup_insert_ne. intros ->. apply Hn. left. reflexivity.
  Qed.

  (** a recorded height ends above every count it had before, in [failed] and in [inRetry] *)
  Lemma record_failures_cnt ty nw r hs : forall f h a,
    In h hs -> lookup h (record_failures c ty nw r hs f) = Some a ->
    cnt_of (lookup h f) < cnt a /\ (forall b, lookup h r = Some b -> cnt b < cnt a).
  Proof.
    unfold record_failures. induction hs as [|h0 hs IH]; intros f h a Hin Hl; [elim Hin|].
    cbn [fold_left] in Hl.
    set (f1 := insert h0 (next_retry c (base_att c ty f r h0) nw) f) in *.
    destruct (in_dec Z.eq_dec h hs) as [Hhs|Hhs].
    - destruct (IH f1 h a Hhs Hl) as [H1 H2]. split; [|exact H2].
      destruct (Z.eq_dec h h0) as [->|Hne].
      + unfold f1 in H1. rewrite lookup_insert_eq in H1. cbn [cnt_of] in H1. rewrite cnt_next_retry in H1.
        unfold base_att in H1. rewrite Hfix in H1. pose proof (cnt_last_att_ge f r h0) as [G _]. lia.
      + unfold f1 in H1. rewrite lookup_insert_ne in H1 by exact Hne. exact H1.
    - destruct Hin as [->|Hin]; [|contradiction].
      fold (record_failures c ty nw r hs f1) in Hl.
      rewrite record_failures_other in Hl by exact Hhs.
      unfold f1 in Hl. rewrite lookup_insert_eq in Hl. injection Hl as <-.
      rewrite cnt_next_retry. unfold base_att. rewrite Hfix. pose proof (cnt_last_att_ge f r h) as [G1 G2].
      split; [lia | intros b Hb; specialize (G2 b Hb); lia].
  Qed.
End Record.

(** * Statistics: the merged failed map contains every failed height *)
Lemma dom_bump h n m k : dom (bump h n m) k <-> k = h \/ dom m k.
Proof. unfold bump. apply dom_insert. Qed.

Lemma dom_fold_bump {A} (key : A -> Z) (val : A -> Z) (l : list A) : forall m k,
  dom (fold_left (fun m a => bump (key a) (val a) m) l m) k <-> In k (map key l) \/ dom m k.
Proof.
  induction l as [|a l IH]; intros m k; cbn [fold_left map In].
  - split; [intros H; right; exact H | intros [[]|H]; exact H].
  - rewrite IH, dom_bump. split; intros H; intuition.
Qed.

Lemma dom_stats_workers (ws : list worker) : forall m k,
  dom (fold_left (fun m w => fold_left (fun m h => bump h 1 m) (keys (wfail w)) m) ws m) k <->
  (exists w, In w ws /\ dom (wfail w) k) \/ dom m k.
Proof.
  induction ws as [|w ws IH]; intros m k; cbn [fold_left].
  - split; [intros H; right; exact H | intros [[w [[] _]]|H]; exact H].
  - rewrite IH. rewrite (dom_fold_bump (fun h => h) (fun _ => 1)). rewrite map_id.
    rewrite <- dom_keys. split.
    + intros [[w' [Hw Hd]]|[H|H]].
      * left. exists w'. split; [right; exact Hw|exact Hd].
      * left. exists w. split; [left; reflexivity|exact H].
      * right. exact H.
    + intros [[w' [[<-|Hw] Hd]]|H].
      * right. left. exact Hd.
      * left. exists w'. split; assumption.
      * right. right. exact H.
Qed.

Lemma dom_stats_failed s k :
  dom (stats_failed s) k <->
  (exists w, In w (workers s) /\ dom (wfail w) k) \/ dom (failed s) k \/ dom (inretry s) k.
Proof.
  unfold stats_failed.
  rewrite (dom_fold_bump (@fst Z att) (fun ka => cnt (snd ka))).
  rewrite (dom_fold_bump (@fst Z att) (fun ka => cnt (snd ka))).
  rewrite dom_stats_workers.
  change (map fst (inretry s)) with (keys (inretry s)). change (map fst (failed s)) with (keys (failed s)).
  rewrite <- !dom_keys.
  split; intros H.
  - destruct H as [H|[H|[H|H]]]; auto. elim (dom_nil _ H).
  - destruct H as [H|[H|H]]; auto.
Qed.

(** * Worker lists with distinct ids *)
Lemma nodup_id_eq (ws : list worker) x y :
  NoDup (map wid ws) -> In x ws -> In y ws -> wid x = wid y -> x = y.
Proof.
  induction ws as [|w ws IH]; intros Hn Hx Hy E; [elim Hx|].
  cbn in Hn. inversion Hn as [|? ? Hnin Hn']; subst.
  destruct Hx as [<-|Hx], Hy as [<-|Hy]; try reflexivity.
  - elim Hnin. rewrite E. apply in_map. exact Hy.
  - elim Hnin. rewrite <- E. apply in_map. exact Hx.
  - apply IH; assumption.
Qed.

Lemma NoDup_map_filter {A B} (f : A -> B) (p : A -> bool) (l : list A) :
  NoDup (map f l) -> NoDup (map f (filter p l)).
Proof.
  induction l as [|x l IH]; cbn; intros Hn; [constructor|].
  inversion Hn as [|? ? Hnin Hn']; subst. destruct (p x); cbn.
  - constructor; [|apply IH; exact Hn'].
    intros H. apply Hnin. apply in_map_iff in H as [y [E Hy]]. apply filter_In in Hy as [Hy _].
    rewrite <- E. apply in_map. exact Hy.
  - apply IH. exact Hn'.
Qed.

Lemma length_filter_filter {A} (p q : A -> bool) (l : list A) :
  (length (filter p (filter q l)) <= length (filter p l))%nat.
Proof.
  induction l as [|x l IH]; cbn; [lia|].
  destruct (q x); cbn; destruct (p x); cbn; lia.
Qed.

Lemma length_filter_map {A B} (g : A -> B) (p : A -> bool) (q : B -> bool) (l : list A) :
  (forall x, q (g x) = p x) -> length (filter q (map g l)) = length (filter p l).
Proof.
  intros H. induction l as [|x l IH]; cbn; [reflexivity|]. rewrite H. destruct (p x); cbn; rewrite IH; reflexivity.
Qed.

(** removing the worker with a given id *)
Lemma in_remove_id (ws : list worker) (w x : worker) :
  NoDup (map wid ws) -> In w ws ->
  (In x (filter (fun y => negb (wid y =? wid w)) ws) <-> In x ws /\ x <> w).
Proof.
  intros Hn Hw. rewrite filter_In. split; intros [Hx H]; split; try exact Hx.
  - intros ->. rewrite Z.eqb_refl in H. discriminate.
  - destruct (Z.eqb_spec (wid x) (wid w)) as [E|E]; [|reflexivity].
    elim H. apply (nodup_id_eq ws); assumption.
Qed.

(** replacing the worker with a given id by another with the same id *)
Lemma in_upd_id (ws : list worker) (w w' x : worker) :
  NoDup (map wid ws) -> In w ws -> wid w' = wid w ->
  (In x (map (fun y => if wid y =? wid w' then w' else y) ws) <-> x = w' \/ (In x ws /\ x <> w)).
Proof.
  intros Hn Hw E. rewrite in_map_iff. split.
  - intros [y [Hy Hin]]. destruct (Z.eqb_spec (wid y) (wid w')) as [E'|E'].
    + left. symmetry. exact Hy.
    + right. subst x. split; [exact Hin|]. intros ->. apply E'. symmetry. exact E.
  - intros [->|[Hx Hne]].
    + exists w. rewrite E, Z.eqb_refl. split; [reflexivity|exact Hw].
    + exists x. split; [|exact Hx]. destruct (Z.eqb_spec (wid x) (wid w')) as [E'|E']; [|reflexivity].
      elim Hne. apply (nodup_id_eq ws); try assumption. rewrite E'. exact E.
Qed.

Lemma map_wid_upd (ws : list worker) (w' : worker) :
  map wid (map (fun y => if wid y =? wid w' then w' else y) ws) = map wid ws.
Proof.
  rewrite map_map. apply map_ext. intros y. destruct (Z.eqb_spec (wid y) (wid w')) as [E|E]; [symmetry; exact E|reflexivity].
Qed.

Lemma find_worker_in s id w : find_worker s id = Some w -> In w (workers s) /\ wid w = id.
Proof.
  unfold find_worker. intros H. apply find_some in H as [H1 H2]. apply Z.eqb_eq in H2. split; assumption.
Qed.
